#!/usr/bin/env python3
"""runs every claimed check with several seeds on the unchanged tree; any VIOLATION is a false alarm (or a finding) to investigate.
usage: soak.py [--tier quick] [--seeds 1,2,3] [--props C01,C02]"""
import json, os, subprocess, sys, time
ROOT = os.path.dirname(os.path.dirname(os.path.abspath(__file__)))
a = sys.argv[1:]
tier = a[a.index("--tier") + 1] if "--tier" in a else "quick"
seeds = [int(x) for x in (a[a.index("--seeds") + 1] if "--seeds" in a else "1,2,3").split(",")]
props = a[a.index("--props") + 1].split(",") if "--props" in a else [c["property_id"] for c in json.load(open(os.path.join(ROOT, "MANIFEST.json")))["checks"]]
bad = 0
for s in seeds:
    for p in props:
        t0 = time.time()
        r = subprocess.run([os.path.join(ROOT, "check"), p, "--tier", tier], cwd=ROOT, capture_output=True, text=True, env=dict(os.environ, VERIF_SEED=str(s)))
        last = r.stdout.strip().splitlines()[-1] if r.stdout.strip() else r.stderr[-200:]
        flag = "" if r.returncode == 0 else "   <<<<<< ALARM"
        if r.returncode != 0:
            bad += 1
            for l in r.stdout.splitlines():
                if l.startswith("VIOLATION"):
                    try: j = json.load(open(l.split("replay=")[1].split()[0])); print("    ", j.get("mismatch"), (j.get("detail") or "")[:300])
                    except Exception: pass
        print("seed %d %s rc=%d %.0fs %s%s" % (s, p, r.returncode, time.time() - t0, last[:150], flag), flush=True)
print("alarms:", bad)

#!/usr/bin/env python3
"""apply each seeded change to /repo, run the quick checks of the properties it targets (or the ones given), undo it.
usage: run_seeded.py [--props C09,C10] [--tier quick] <seeded dir names or 'all'>    results -> seeded/RESULTS.json"""
import json, os, subprocess, sys, time
ROOT = os.path.dirname(os.path.dirname(os.path.abspath(__file__)))
def main():
    args = sys.argv[1:]; props = None; tier = "quick"
    if "--props" in args: i = args.index("--props"); props = args[i + 1].split(","); del args[i:i + 2]
    if "--tier" in args: i = args.index("--tier"); tier = args[i + 1]; del args[i:i + 2]
    names = sorted(os.listdir(os.path.join(ROOT, "seeded"))) if args == ["all"] else args
    names = [n for n in names if os.path.isdir(os.path.join(ROOT, "seeded", n))]
    resp = os.path.join(ROOT, "seeded", "RESULTS.json")
    results = json.load(open(resp)) if os.path.exists(resp) else {}
    assert subprocess.run(["git", "-C", "/repo", "status", "--porcelain", "--untracked-files=no"], capture_output=True, text=True).stdout.strip() == "", "/repo not clean"
    for n in names:
        d = os.path.join(ROOT, "seeded", n)
        meta = json.load(open(os.path.join(d, "meta.json")))
        mp = meta.get("property"); mp = mp if isinstance(mp, list) else [mp]
        todo = props or mp
        r = subprocess.run(["git", "-C", "/repo", "apply", os.path.join(d, "patch.diff")], capture_output=True, text=True)
        if r.returncode != 0: print(n, "PATCH DOES NOT APPLY", r.stderr[:200]); continue
        try:
            for p in todo:
                t0 = time.time()
                c = subprocess.run([os.path.join(ROOT, "check"), p, "--tier", tier], cwd=ROOT, capture_output=True, text=True, timeout=3600)
                lines = [l for l in c.stdout.splitlines() if l.startswith("VIOLATION") or l.startswith("KNOWN-FINDING")]
                kind = "missed" if c.returncode == 0 else ("caught-no-input" if all("no-failing-input-found" in l for l in lines) else "caught")
                detail = ""
                for l in lines[:1]:
                    try:
                        rp = l.split("replay=")[1].split()[0]; j = json.load(open(rp)); detail = (j.get("mismatch") or "") + ": " + (j.get("detail") or "")[:160]
                    except Exception: pass
                results.setdefault(n, {})[p] = {"verdict": kind, "rc": c.returncode, "tier": tier, "first": detail, "secs": round(time.time() - t0, 1)}
                print("%-14s %s %-16s %s" % (n, p, kind, detail[:150]), flush=True)
        finally:
            subprocess.run(["git", "-C", "/repo", "checkout", "--", "."], check=True)
            # the checks rewrite evidence/<id>.json on every run: put back the committed (unchanged-tree) evidence
            subprocess.run(["git", "-C", ROOT, "checkout", "--", "evidence"], check=False)
        json.dump(results, open(resp, "w"), indent=1, sort_keys=True)
main()

#!/usr/bin/env python3
"""apply each behaviour-preserving refactoring (a directory with patch.diff) to /repo, run every claimed check (quick tier), undo it.
Any VIOLATION is an alarm on code where the property holds: to be investigated (brittle golden / translator) and recorded in DESIGN 12.3.
usage: run_harmless.py <dir> ...    results -> notes/harmless_results.json"""
import json, os, subprocess, sys, time
ROOT = os.path.dirname(os.path.dirname(os.path.abspath(__file__)))
def main():
    dirs = sys.argv[1:]
    props = [c["property_id"] for c in json.load(open(os.path.join(ROOT, "MANIFEST.json")))["checks"]]
    resp = os.path.join(ROOT, "notes", "harmless_results.json")
    results = json.load(open(resp)) if os.path.exists(resp) else {}
    assert subprocess.run(["git", "-C", "/repo", "status", "--porcelain", "--untracked-files=no"], capture_output=True, text=True).stdout.strip() == "", "/repo not clean"
    for d in dirs:
        n = os.path.basename(d.rstrip("/"))
        r = subprocess.run(["git", "-C", "/repo", "apply", os.path.join(d, "patch.diff")], capture_output=True, text=True)
        if r.returncode != 0: print(n, "PATCH DOES NOT APPLY", r.stderr[:200]); continue
        try:
            for p in props:
                t0 = time.time()
                c = subprocess.run([os.path.join(ROOT, "check"), p, "--tier", "quick"], cwd=ROOT, capture_output=True, text=True, timeout=3600)
                lines = [l for l in c.stdout.splitlines() if l.startswith("VIOLATION")]
                detail = ""
                for l in lines[:1]:
                    try:
                        rp = l.split("replay=")[1].split()[0]; j = json.load(open(rp)); detail = (j.get("mismatch") or j.get("kind") or "") + ": " + (j.get("detail") or "")[:300]
                    except Exception: pass
                results.setdefault(n, {})[p] = {"rc": c.returncode, "alarm": bool(lines) or c.returncode != 0, "first": detail, "secs": round(time.time() - t0, 1)}
                if c.returncode != 0 or lines: print("%-16s %s ALARM %s" % (n, p, detail[:220]), flush=True)
            print("%-16s done: %d alarms" % (n, sum(1 for v in results[n].values() if v["alarm"])), flush=True)
        finally:
            subprocess.run(["git", "-C", "/repo", "checkout", "--", "."], check=True)
        json.dump(results, open(resp, "w"), indent=1, sort_keys=True)
main()

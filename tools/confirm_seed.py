#!/usr/bin/env python3
"""confirm an independently written breaking change: in a scratch worktree of /repo HEAD (outside /repo and /verif):
  1. demo passes on the clean tree, 2. patch applies and builds, 3. the whole existing suite still passes, 4. demo fails with the patch.
Then store it as /verif/seeded/<id>/{patch.diff,demo.rs,meta.json}.  usage: confirm_seed.py <dir with patch.diff demo.rs meta.json> ..."""
import json, os, shutil, subprocess, sys
def sh(cmd, cwd, t=1800):
    e = dict(os.environ, RUST_BACKTRACE="0", CARGO_NET_OFFLINE="true", CARGO_TARGET_DIR=os.path.join(cwd, "target"))
    p = subprocess.run(cmd, shell=True, cwd=cwd, env=e, capture_output=True, text=True, timeout=t)
    return p.returncode, (p.stdout + p.stderr)[-3000:]
def confirm(src):
    name = os.path.basename(src.rstrip("/"))
    wt = "/tmp/confirm_" + name
    subprocess.run(["git", "-C", "/repo", "worktree", "remove", "--force", wt], capture_output=True)
    subprocess.check_call(["git", "-C", "/repo", "worktree", "add", "-q", "--detach", wt, "HEAD"])
    ran = []
    try:
        meta = json.load(open(os.path.join(src, "meta.json")))
        feat = " --features serde" if "serde" in open(os.path.join(src, "demo.rs")).read() else ""
        dflags = (" " + meta["demo_flags"]) if meta.get("demo_flags") else ""   # e.g. "--release": the demo only fails in that configuration
        if meta.get("demo_kind") == "miri":
            # ordering-only changes: the demo is a test meant for Miri (data-race detector, weak-memory emulation over many seeds)
            shutil.copy(os.path.join(src, "demo.rs"), os.path.join(wt, "tests", "zz_demo.rs"))
            mi = 'MIRIFLAGS="-Zmiri-many-seeds=0..32" cargo +nightly miri test --offline --test zz_demo'
            rc, out = sh(mi, wt, 3600); ran.append("clean tree: miri test zz_demo -> rc %d" % rc)
            if rc != 0: return name, False, "miri demo fails on the clean tree", ran
            rc, out = sh("git apply " + os.path.join(src, "patch.diff"), wt)
            if rc != 0: return name, False, "patch does not apply: " + out[-300:], ran
            rc, out = sh(mi, wt, 3600); ran.append("patched: miri test zz_demo -> rc %d" % rc)
            if rc == 0: return name, False, "miri demo passes with the patch", ran
            os.remove(os.path.join(wt, "tests", "zz_demo.rs"))
            rc, out = sh("cargo test --workspace --no-fail-fast --offline", wt); ran.append("patched: cargo test --workspace (existing suite) -> rc %d" % rc)
            if rc != 0: return name, False, "existing suite fails with the patch: " + out[-500:], ran
            dst = os.path.join("/verif/seeded", name); os.makedirs(dst, exist_ok=True)
            for f in ("patch.diff", "demo.rs"): shutil.copy(os.path.join(src, f), os.path.join(dst, f))
            meta["confirmed"] = ran
            json.dump(meta, open(os.path.join(dst, "meta.json"), "w"), indent=1)
            return name, True, "confirmed (miri)", ran
        shutil.copy(os.path.join(src, "demo.rs"), os.path.join(wt, "tests", "zz_demo.rs"))
        rc, out = sh("cargo test --offline --test zz_demo" + feat + dflags, wt); ran.append("clean tree: cargo test --test zz_demo%s -> rc %d" % (feat + dflags, rc))
        if rc != 0: return name, False, "demo fails on the clean tree", ran
        rc, out = sh("git apply " + os.path.join(src, "patch.diff"), wt)
        if rc != 0: return name, False, "patch does not apply: " + out[-300:], ran
        rc, out = sh("cargo test --offline --test zz_demo" + feat + dflags, wt); ran.append("patched: cargo test --test zz_demo%s -> rc %d" % (feat + dflags, rc))
        if rc == 0: return name, False, "demo passes with the patch", ran
        os.remove(os.path.join(wt, "tests", "zz_demo.rs"))
        rc, out = sh("cargo test --workspace --no-fail-fast --offline" + feat, wt); ran.append("patched: cargo test --workspace%s (existing suite) -> rc %d" % (feat, rc))
        if rc != 0: return name, False, "existing suite fails with the patch: " + out[-500:], ran
        dst = os.path.join("/verif/seeded", name); os.makedirs(dst, exist_ok=True)
        for f in ("patch.diff", "demo.rs"): shutil.copy(os.path.join(src, f), os.path.join(dst, f))
        meta["confirmed"] = ran
        json.dump(meta, open(os.path.join(dst, "meta.json"), "w"), indent=1)
        return name, True, "confirmed", ran
    finally:
        subprocess.run(["git", "-C", "/repo", "worktree", "remove", "--force", wt], capture_output=True)
        shutil.rmtree(wt, ignore_errors=True)
if __name__ == "__main__":
    for s in sys.argv[1:]:
        try: print(*confirm(s)[:3], flush=True)
        except Exception as e: print(os.path.basename(s), False, repr(e), flush=True)

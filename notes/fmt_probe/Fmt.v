(* Feasibility probe for Fmt.v: Debug output of Bytes is a byte-string literal that parses back, for ANY escape table
   that passes a decidable per-entry check (the table is regenerated from the implementation on every run). *)
From Coq Require Import Ascii List NArith Lia Bool.
Import ListNotations.
Local Open Scope N_scope.

Definition str := list ascii.
Definition hexval (c : ascii) : option N :=
  let n := N_of_ascii c in
  if (48 <=? n) && (n <=? 57) then Some (n - 48)
  else if (97 <=? n) && (n <=? 102) then Some (n - 87)
  else if (65 <=? n) && (n <=? 70) then Some (n - 55) else None.

(* one element of the body of a Rust byte-string literal; independent of the formatter *)
Definition lex1 (s : str) : option (N * str) :=
  match s with
  | [] => None
  | c :: r =>
    if Ascii.eqb c "\"%char then
      match r with
      | [] => None
      | e :: r2 =>
        if Ascii.eqb e "n"%char then Some (10, r2) else if Ascii.eqb e "r"%char then Some (13, r2)
        else if Ascii.eqb e "t"%char then Some (9, r2) else if Ascii.eqb e "\"%char then Some (92, r2)
        else if Ascii.eqb e "0"%char then Some (0, r2) else if Ascii.eqb e "'"%char then Some (39, r2)
        else if Ascii.eqb e """"%char then Some (34, r2)
        else if Ascii.eqb e "x"%char then
          match r2 with
          | h :: l :: r3 => match hexval h, hexval l with Some a, Some b => Some (16 * a + b, r3) | _, _ => None end
          | _ => None
          end
        else None
      end
    else if Ascii.eqb c """"%char then None
    else if (N_of_ascii c <? 128) && negb (N_of_ascii c =? 13) then Some (N_of_ascii c, r) else None
  end.

(* body up to the closing quote *)
Fixpoint parse_body (fuel : nat) (s : str) : option (list N) :=
  match fuel with
  | O => None
  | S fuel =>
    match s with
    | [q] => if Ascii.eqb q """"%char then Some [] else None
    | _ => match lex1 s with Some (b, r) => option_map (cons b) (parse_body fuel r) | None => None end
    end
  end.
Definition parse_lit (s : str) : option (list N) :=
  match s with "b"%char :: """"%char :: body => parse_body (S (length body)) body | _ => None end.

Definition debug_fmt (tbl : N -> str) (bs : list N) : str := "b"%char :: """"%char :: concat (map tbl bs) ++ [""""%char].

(* the decidable per-entry condition: the entry, alone, lexes to exactly its byte *)
Definition entry_ok (tbl : N -> str) (b : N) : bool :=
  match lex1 (tbl b) with Some (b', []) => (b' =? b) | _ => false end.
Definition table_ok (tbl : N -> str) : bool := forallb (entry_ok tbl) (map N.of_nat (seq 0 256)).

(* the lexer looks only at the element it returns: appending text does not change it *)
Ltac esc e x tac := destruct (Ascii.eqb e x); [tac|].
Lemma lex1_app s b r : lex1 s = Some (b, []) -> lex1 (s ++ r) = Some (b, r).
Proof.
  unfold lex1. destruct s as [|c s]; [discriminate|]. cbn [app].
  destruct (Ascii.eqb c "\"%char).
  - destruct s as [|e s]; [discriminate|]. cbn [app].
    esc e "n"%char ltac:(intros [= <- ->]; reflexivity). esc e "r"%char ltac:(intros [= <- ->]; reflexivity).
    esc e "t"%char ltac:(intros [= <- ->]; reflexivity). esc e "\"%char ltac:(intros [= <- ->]; reflexivity).
    esc e "0"%char ltac:(intros [= <- ->]; reflexivity). esc e "'"%char ltac:(intros [= <- ->]; reflexivity).
    esc e """"%char ltac:(intros [= <- ->]; reflexivity).
    destruct (Ascii.eqb e "x"%char); [|discriminate].
    destruct s as [|h [|l s]]; try discriminate. cbn [app].
    destruct (hexval h), (hexval l); try discriminate. intros [= <- ->]. reflexivity.
  - destruct (Ascii.eqb c """"%char); [discriminate|]. destruct (_ && _); [|discriminate]. intros [= <- ->]. reflexivity.
Qed.
Lemma lex1_nonempty s b r : lex1 s = Some (b, r) -> (length r < length s)%nat.
Proof.
  unfold lex1. destruct s as [|c s]; [discriminate|].
  destruct (Ascii.eqb c "\"%char).
  - destruct s as [|e s]; [discriminate|].
    esc e "n"%char ltac:(intros [= <- <-]; cbn; lia). esc e "r"%char ltac:(intros [= <- <-]; cbn; lia).
    esc e "t"%char ltac:(intros [= <- <-]; cbn; lia). esc e "\"%char ltac:(intros [= <- <-]; cbn; lia).
    esc e "0"%char ltac:(intros [= <- <-]; cbn; lia). esc e "'"%char ltac:(intros [= <- <-]; cbn; lia).
    esc e """"%char ltac:(intros [= <- <-]; cbn; lia).
    destruct (Ascii.eqb e "x"%char); [|discriminate].
    destruct s as [|h [|l s]]; try discriminate. destruct (hexval h), (hexval l); try discriminate. intros [= <- <-]. cbn; lia.
  - destruct (Ascii.eqb c """"%char); [discriminate|]. destruct (_ && _); [|discriminate]. intros [= <- <-]. cbn; lia.
Qed.

Lemma table_ok_entry tbl b : table_ok tbl = true -> b < 256 -> lex1 (tbl b) = Some (b, []).
Proof.
  unfold table_ok. rewrite forallb_forall. intros H Hb.
  specialize (H b). assert (Hin : In b (map N.of_nat (seq 0 256))).
  { apply in_map_iff. exists (N.to_nat b). split; [lia|]. apply in_seq. lia. }
  specialize (H Hin). unfold entry_ok in H. destruct (lex1 (tbl b)) as [[b' [|]]|]; try discriminate.
  apply N.eqb_eq in H. subst. reflexivity.
Qed.

Theorem C15_debug_roundtrip tbl :
  table_ok tbl = true -> forall bs, Forall (fun b => b < 256) bs -> parse_lit (debug_fmt tbl bs) = Some bs.
Proof.
  intros Hok bs Hbs. unfold debug_fmt, parse_lit.
  assert (Hgen : forall fuel, (length (concat (map tbl bs) ++ [""""%char]) <= fuel)%nat ->
            parse_body fuel (concat (map tbl bs) ++ [""""%char]) = Some bs).
  { induction Hbs as [|b bs Hb Hbs IH]; intros fuel Hf.
    - cbn in *. destruct fuel; [lia|]. reflexivity.
    - cbn [map concat] in *. rewrite <- app_assoc in *.
      pose proof (table_ok_entry tbl b Hok Hb) as Hl.
      pose proof (lex1_app _ _ (concat (map tbl bs) ++ [""""%char]) Hl) as Hl2.
      pose proof (lex1_nonempty _ _ _ Hl2) as Hlen.
      destruct fuel; [rewrite !app_length in Hf; cbn in Hf; lia|].
      cbn [parse_body].
      destruct (tbl b ++ concat (map tbl bs) ++ [""""%char]) as [|q [|q2 rest]] eqn:E.
      + cbn in Hlen. lia.
      + (* a one-character remainder cannot be an element followed by the closing quote *)
        exfalso. assert (length (tbl b ++ concat (map tbl bs) ++ [""""%char]) = 1)%nat by (rewrite E; reflexivity).
        rewrite !app_length in H. cbn in H. destruct (tbl b); [discriminate Hl|cbn in H; lia].
      + rewrite Hl2. rewrite IH; [reflexivity|]. cbn in Hlen, Hf. lia. }
  apply Hgen. lia.
Qed.
Print Assumptions C15_debug_roundtrip.

(* the table as the current implementation prints it (here written by hand; T4 regenerates it by running the crate) *)
Definition hexdigit (n : N) : ascii := ascii_of_N (if n <? 10 then 48 + n else 87 + n).
Definition impl_tbl (b : N) : str :=
  if b =? 10 then ["\"%char; "n"%char] else if b =? 13 then ["\"%char; "r"%char] else if b =? 9 then ["\"%char; "t"%char]
  else if (b =? 92) || (b =? 34) then ["\"%char; ascii_of_N b] else if b =? 0 then ["\"%char; "0"%char]
  else if (32 <=? b) && (b <? 127) then [ascii_of_N b] else ["\"%char; "x"%char; hexdigit (b / 16); hexdigit (b mod 16)].
Example impl_table_ok : table_ok impl_tbl = true.  Proof. vm_compute. reflexivity. Qed.
(* a harmless variant (escaping the single quote too) still passes; a harmful one (raw double quote) does not *)
Definition variant_tbl (b : N) : str := if b =? 39 then ["\"%char; "'"%char] else impl_tbl b.
Example variant_ok : table_ok variant_tbl = true.  Proof. vm_compute. reflexivity. Qed.
Definition broken_tbl (b : N) : str := if b =? 34 then [""""%char] else impl_tbl b.
Example broken_caught : table_ok broken_tbl = false.  Proof. vm_compute. reflexivity. Qed.

(* Feasibility probe for Codec.v: byte-order decoding and the code's sign_extend, incl. the profile-dependent shift. *)
From Coq Require Import ZArith List Lia Bool.
Import ListNotations.
Local Open Scope Z_scope.
Ltac Zify.zify_post_hook ::= Z.div_mod_to_equations.

Definition byte_ok (b : Z) : Prop := 0 <= b < 256.
(* big-endian value of a byte list: what uN::from_be_bytes computes on the bytes read *)
Fixpoint be (bs : list Z) : Z := match bs with [] => 0 | b :: r => b * 256 ^ Z.of_nat (length r) + be r end.
Fixpoint le (bs : list Z) : Z := match bs with [] => 0 | b :: r => b + 256 * le r end.

Lemma be_bound bs : Forall byte_ok bs -> 0 <= be bs < 256 ^ Z.of_nat (length bs).
Proof.
  induction 1 as [|b r Hb Hr IH]; cbn [be length]; [lia|].
  rewrite Nat2Z.inj_succ, Z.pow_succ_r by lia. unfold byte_ok in Hb. nia.
Qed.
Lemma le_bound bs : Forall byte_ok bs -> 0 <= le bs < 256 ^ Z.of_nat (length bs).
Proof.
  induction 1 as [|b r Hb Hr IH]; cbn [le length]; [lia|].
  rewrite Nat2Z.inj_succ, Z.pow_succ_r by lia. unfold byte_ok in Hb. nia.
Qed.
Lemma be_app a b : be (a ++ b) = be a * 256 ^ Z.of_nat (length b) + be b.
Proof.
  induction a as [|x a IH]; cbn [be app length]; [lia|].
  rewrite IH, app_length, Nat2Z.inj_add, Z.pow_add_r by lia. ring.
Qed.
Lemma le_rev bs : le (rev bs) = be bs.
Proof.
  induction bs as [|b r IH]; cbn [be rev]; [reflexivity|].
  assert (Happ : forall a c, le (a ++ [c]) = le a + c * 256 ^ Z.of_nat (length a)).
  { induction a as [|x a IHa]; intros c; cbn [le app length]; [lia|].
    rewrite IHa, Nat2Z.inj_succ, Z.pow_succ_r by lia. ring. }
  rewrite Happ, IH, rev_length. ring.
Qed.

(* two's complement reading of an unsigned k-bit value *)
Definition signed (bits v : Z) : Z := if v <? 2 ^ (bits - 1) then v else v - 2 ^ bits.

(* the code:  fn sign_extend(val: u64, nbytes: usize) -> i64 { let shift = (8 - nbytes) * 8; (val << shift) as i64 >> shift } *)
Inductive outcome := Val (v : Z) | PanicOverflow.
Definition sign_extend (overflow_checks : bool) (val nbytes : Z) : outcome :=
  let shift := (8 - nbytes) * 8 in
  if (64 <=? shift) && overflow_checks then PanicOverflow            (* `<<` by >= 64: panic under overflow checks *)
  else let sh := shift mod 64 in                                     (* otherwise the shift amount is masked *)
       let shl := (val * 2 ^ sh) mod 2 ^ 64 in                       (* u64 << *)
       let as_i64 := signed 64 shl in                                (* as i64 *)
       Val (as_i64 / 2 ^ sh).                                        (* arithmetic >> *)

Theorem sign_extend_correct oc val nbytes :
  1 <= nbytes <= 8 -> 0 <= val < 2 ^ (8 * nbytes) ->
  sign_extend oc val nbytes = Val (signed (8 * nbytes) val).
Proof.
  intros Hn Hv. unfold sign_extend.
  assert (nbytes = 1 \/ nbytes = 2 \/ nbytes = 3 \/ nbytes = 4 \/ nbytes = 5 \/ nbytes = 6 \/ nbytes = 7 \/ nbytes = 8) as Hc by lia.
  destruct Hc as [->|[->|[->|[->|[->|[->|[->| ->]]]]]]]; cbn in Hv |- *; f_equal; unfold signed; cbn;
    repeat match goal with |- context [if ?c then _ else _] => destruct c eqn:? end; lia.
Qed.

(* finding D3: nbytes = 0 is where the two build profiles part *)
Example D3_debug : sign_extend true 0 0 = PanicOverflow.  Proof. reflexivity. Qed.
Example D3_release : sign_extend false 0 0 = Val 0.        Proof. reflexivity. Qed.
Print Assumptions sign_extend_correct.

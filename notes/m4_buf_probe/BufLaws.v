From stdpp Require Import list.
From Coq Require Import NArith Lia ZifyN ZifyNat ZifyBool.
From M4 Require Import Buf.
Local Open Scope N_scope.

Lemma prefix_take {A} (l : list A) n : take n l `prefix_of` l.
Proof. exists (drop n l). by rewrite take_drop. Qed.
Lemma prefix_take_mono {A} (l1 l2 : list A) n : l1 `prefix_of` l2 → take n l1 `prefix_of` l2.
Proof. intros H. etrans; [apply prefix_take|done]. Qed.
Lemma prefix_take_take {A} (l1 l2 : list A) n : l1 `prefix_of` l2 → (length l1 ≤ n)%nat → l1 `prefix_of` take n l2.
Proof. intros [k ->] H. rewrite take_app_ge by done. by apply prefix_app_r. Qed.
Lemma prefix_same_length {A} (l1 l2 : list A) : l1 `prefix_of` l2 → length l1 = length l2 → l1 = l2.
Proof. intros [k ->] H. rewrite app_length in H. destruct k; [by rewrite app_nil_r|simpl in H; lia]. Qed.

Lemma remaining_den b : remaining b = lenN (den b).
Proof.
  induction b as [l|a IHa b IHb|n b IH|b IH]; simpl; unfold lenN in *.
  - done.
  - rewrite IHa, IHb, app_length. lia.
  - rewrite IH, take_length. lia.
  - done.
Qed.

Lemma first_nonempty_prefix cs : first_nonempty cs `prefix_of` concat cs.
Proof.
  induction cs as [|c cs IH]; simpl; [done|]. destruct c as [|x c]; simpl; [done|]. by exists (concat cs).
Qed.
Lemma first_nonempty_nil cs : first_nonempty cs = [] ↔ concat cs = [].
Proof.
  induction cs as [|c cs IH]; simpl; [done|]. destruct c; simpl; [done|]. split; done.
Qed.

Lemma chunk_prefix b : wf b → chunk b `prefix_of` den b.
Proof.
  induction b as [l|a IHa b IHb|n b IH|b IH]; simpl.
  - destruct l as [l|cs|s1 s2]; simpl; intros Hwf.
    + done.
    + apply first_nonempty_prefix.
    + destruct s1; [by rewrite Hwf|]. by apply prefix_app_r.
  - intros [Ha Hb]. destruct (0 <? remaining a) eqn:E.
    + by apply prefix_app_r, IHa.
    + rewrite remaining_den in E. unfold lenN in E. assert (den a = []) as -> by (destruct (den a); [done|simpl in E; lia]).
      simpl. by apply IHb.
  - intros Hwf. specialize (IH Hwf). apply prefix_take_take.
    + by apply prefix_take_mono.
    + rewrite take_length. unfold lenN. lia.
  - done.
Qed.

Lemma chunk_nil b : wf b → (chunk b = [] ↔ den b = []).
Proof.
  induction b as [l|a IHa b IHb|n b IH|b IH]; simpl.
  - destruct l as [l|cs|s1 s2]; simpl; intros Hwf.
    + done.
    + apply first_nonempty_nil.
    + destruct s1; simpl; [|done]. by rewrite Hwf.
  - intros [Ha Hb]. rewrite remaining_den. unfold lenN. destruct (0 <? _) eqn:E.
    + rewrite (IHa Ha). destruct (den a); simpl in *; [lia|done].
    + assert (den a = []) as -> by (destruct (den a); [done|simpl in E; lia]). simpl. by apply IHb.
  - intros Hwf. specialize (IH Hwf). unfold lenN.
    destruct (chunk b) as [|x c] eqn:Ec.
    + simpl. assert (den b = []) as -> by by apply IH. rewrite !take_nil. done.
    + assert (den b ≠ []) as Hne by (intros Hd; apply IH in Hd; done).
      destruct (den b) as [|y d]; [done|].
      destruct (decide (n = 0)) as [->|Hn].
      * replace (N.to_nat (N.min (N.of_nat (length (x :: c))) 0)) with 0%nat by lia. simpl. done.
      * replace (N.to_nat (N.min (N.of_nat (length (x :: c))) n)) with (S (N.to_nat (N.min (N.of_nat (length (x :: c))) n) - 1)) by (simpl; lia).
        replace (N.to_nat n) with (S (N.to_nat n - 1)) by lia. simpl. done.
  - done.
Qed.

(* ---------- chunks_vectored ---------- *)
Lemma prefix_take_both {A} (l1 l2 : list A) n : l1 `prefix_of` l2 → take n l1 `prefix_of` take n l2.
Proof.
  intros [k ->]. destruct (decide (n ≤ length l1)%nat).
  - rewrite take_app_le by done. done.
  - rewrite take_app_ge by lia. rewrite take_ge by lia. by apply prefix_app_r.
Qed.

Lemma trim_count lim sl : (length (trim lim sl) ≤ length sl)%nat.
Proof. revert lim; induction sl as [|s r IH]; intros lim; simpl; [done|]. destruct (lim <=? lenN s); simpl; [lia|]. specialize (IH (lim - lenN s)). lia. Qed.

Lemma trim_concat lim sl : concat (trim lim sl) = take (N.to_nat lim) (concat sl).
Proof.
  revert lim; induction sl as [|s r IH]; intros lim; simpl; [by rewrite take_nil|].
  unfold lenN. destruct (lim <=? N.of_nat (length s)) eqn:E; simpl.
  - rewrite app_nil_r. rewrite take_app_le by lia. done.
  - rewrite IH. rewrite take_app_ge by lia. do 2 f_equal. lia.
Qed.

Lemma trim_nonempty lim sl : 0 < lim → Exists (λ s, s ≠ []) sl → Exists (λ s, s ≠ []) (trim lim sl).
Proof.
  revert lim; induction sl as [|s r IH]; intros lim Hl H; simpl; [by apply Exists_nil in H|].
  unfold lenN. destruct (lim <=? N.of_nat (length s)) eqn:E.
  - apply Exists_cons_hd. destruct s; simpl in *; [lia|]. replace (N.to_nat lim) with (S (N.to_nat lim - 1)) by lia. done.
  - apply Exists_cons in H as [H|H]; [by apply Exists_cons_hd|]. apply Exists_cons_tl. apply IH; [lia|done].
Qed.

Section Laws.
  Variable TAKE_LEN : N.
  Hypothesis TAKE_LEN_pos : 0 < TAKE_LEN.
  Notation cvf := (cv TAKE_LEN true).

  Lemma cv_empty n b : den b = [] → cvf n b = [].
  Proof.
    revert n; induction b as [l|a IHa b IHb|lim b IH|b IH]; intros n Hd; simpl in *.
    - destruct l as [l|cs|s1 s2]; simpl in *; unfold default_cv, leaf_remaining, lenN; simpl; rewrite ?Hd; simpl.
      + by destruct (n =? 0).
      + by destruct (n =? 0).
      + done.
    - apply app_eq_nil in Hd as [Ha Hb]. rewrite (IHa _ Ha). simpl. rewrite remaining_den, Ha. simpl.
      by apply IHb.
    - destruct (lim =? 0) eqn:E; [done|]. rewrite IH; [done|].
      destruct (den b); [done|]. simpl in Hd. replace (N.to_nat lim) with (S (N.to_nat lim - 1)) in Hd by lia. done.
    - by apply IH.
  Qed.

  Lemma cv_count n b : lenN (cvf n b) ≤ n.
  Proof.
    revert n; induction b as [l|a IHa b IHb|lim b IH|b IH]; intros n; simpl.
    - destruct l as [l|cs|s1 s2]; unfold default_cv, lenN; simpl.
      + destruct (n =? 0) eqn:E; simpl; [lia|]. destruct (0 <? _); simpl; lia.
      + destruct (n =? 0) eqn:E; simpl; [lia|]. destruct (0 <? _); simpl; lia.
      + destruct (_ || (n =? 0)) eqn:E; simpl; [lia|]. destruct (_ || (n =? 1)) eqn:E2; simpl; lia.
    - specialize (IHa n). destruct (negb _); [done|]. unfold lenN in *. rewrite app_length.
      specialize (IHb (n - N.of_nat (length (cvf n a)))). lia.
    - destruct (lim =? 0); [unfold lenN; simpl; lia|]. specialize (IH (N.min n TAKE_LEN)).
      pose proof (trim_count lim (cvf (N.min n TAKE_LEN) b)). unfold lenN in *. lia.
    - apply IH.
  Qed.

  Lemma cv_prefix n b : wf b → concat (cvf n b) `prefix_of` den b.
  Proof.
    revert n; induction b as [l|a IHa b IHb|lim b IH|b IH]; intros n Hwf; simpl in *.
    - destruct l as [l|cs|s1 s2]; unfold default_cv; simpl.
      + destruct (n =? 0); simpl; [apply prefix_nil|]. destruct (0 <? _); simpl; [by rewrite app_nil_r|apply prefix_nil].
      + destruct (n =? 0); simpl; [apply prefix_nil|]. destruct (0 <? _); simpl; [|apply prefix_nil].
        rewrite app_nil_r. apply first_nonempty_prefix.
      + destruct (_ || (n =? 0)); simpl; [apply prefix_nil|]. destruct (_ || (n =? 1)); simpl; rewrite ?app_nil_r; [by apply prefix_app_r|done].
    - destruct Hwf as [Ha Hb]. specialize (IHa n Ha).
      destruct (negb (total (cvf n a) =? remaining a)) eqn:E; simpl.
      + by apply prefix_app_r.
      + rewrite concat_app. assert (concat (cvf n a) = den a) as ->.
        { apply prefix_same_length; [done|]. unfold total in E. rewrite remaining_den in E. unfold lenN in E. lia. }
        by apply prefix_app, IHb.
    - destruct (lim =? 0); simpl; [apply prefix_nil|]. rewrite trim_concat. by apply prefix_take_both, IH.
    - by apply IH.
  Qed.

  Lemma cv_nonempty n b : wf b → 0 < n → den b ≠ [] → Exists (λ s, s ≠ []) (cvf n b).
  Proof.
    revert n; induction b as [l|a IHa b IHb|lim b IH|b IH]; intros n Hwf Hn Hd; simpl in *.
    - destruct l as [l|cs|s1 s2]; unfold default_cv, leaf_remaining, lenN; simpl in *.
      + replace (n =? 0) with false by lia. destruct l; [done|]. simpl. by apply Exists_cons_hd.
      + replace (n =? 0) with false by lia. destruct (concat cs) eqn:Ec; [done|]. simpl.
        apply Exists_cons_hd. intros Hf. apply first_nonempty_nil in Hf. congruence.
      + assert (s1 ≠ []) by (intros ->; rewrite Hwf in Hd; done).
        destruct (_ || (n =? 0)) eqn:E.
        { destruct (s1 ++ s2) eqn:E2; [done|]. simpl in E. lia. }
        destruct (_ || (n =? 1)); by apply Exists_cons_hd.
    - destruct Hwf as [Ha Hb]. destruct (den a) as [|x d] eqn:Ea.
      + rewrite (cv_empty n a Ea). simpl. rewrite remaining_den, Ea. simpl.
        replace (n - lenN []) with n by (unfold lenN; simpl; lia). by apply IHb.
      + assert (Exists (λ s, s ≠ []) (cvf n a)) as He by (apply IHa; [done|done|congruence]).
        destruct (negb _); [done|]. apply Exists_app. by left.
    - assert (lim ≠ 0 ∧ den b ≠ []) as [Hl Hb].
      { split; [intros ->; done|intros E; by rewrite E, take_nil in Hd]. }
      replace (lim =? 0) with false by lia. apply trim_nonempty; [lia|]. apply IH; [done|lia|done].
    - by apply IH.
  Qed.
End Laws.

(* The statement is FALSE for the code as pinned (finding D5): *)
Definition witness : buf := Chain (Leaf (LGen [[1;2];[3;4]])) (Leaf (LSlice [9;9])).
Example C09_chunks_vectored_refuted :
  wf witness ∧ ¬ concat (cv 16 false 8 witness) `prefix_of` den witness.
Proof.
  split; [by vm_compute|]. vm_compute. intros [k Hk]. discriminate.
Qed.
Example fixed_chain_same_witness : concat (cv 16 true 8 witness) = [1;2].
Proof. by vm_compute. Qed.
Print Assumptions cv_prefix.
Print Assumptions cv_nonempty.

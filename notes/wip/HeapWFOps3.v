From stdpp Require Import gmap.
From Coq Require Import NArith Lia String.
From BV Require Import Base BaseLemmas BufMut Heap HeapLaws HeapPanic HeapWF HeapWFPrim HeapWFOps.
Local Open Scope N_scope.
Arguments N.add : simpl never. Arguments N.sub : simpl never. Arguments N.ltb : simpl never. Arguments N.leb : simpl never. Arguments N.eqb : simpl never.

(* ---- Vec::reserve had to grow: the only holder of k moves to a new buffer k' (which inherits the control block, if any) ---- *)
(* the state after realloc_buf, described storage by storage *)
Definition realloc_post (G : hmap) (s : hst) (h : hid) (k : positive) (st : storage) (need : N) (r : positive * N) (s1 : hst) : Prop :=
  let '(k', c) := r in
  sframe s s1 /\ need <= c /\ k' <> k /\ sts s !! k' = None /\ owners s1 = owners s /\
  exists st', sts s1 !! k' = Some st' /\ s_live st' = true /\ s_size st' = c /\ s_cls st' = (if c =? 0 then SDangling else SHeap) /\ s_ctrl st' = s_ctrl st /\
  (* any re-typing of the holder's handle onto k', with any control block of the right shape, re-establishes the invariant *)
  forall c1 x', holds x' = Some k' -> typed (<[k' := with_ctrl c1 st']> (sts s1)) x' -> st_ok (owners s) k' (with_ctrl c1 st') 1 ->
    (forall h2 y k0 o0 c0 o1 cc1, h2 <> h -> G !! h2 = Some y -> mwin y = Some (k0, o0, c0) -> mwin x' = Some (k0, o1, cc1) -> False) ->
    LWF (<[h := x']> G) (set_sts (<[k' := with_ctrl c1 st']>) s1).
Lemma realloc_buf_lwf G s h x k st orc oldcap keep need :
  LWF G s -> G !! h = Some x -> holds x = Some k -> refs G k = 1%nat -> sts s !! k = Some st -> s_live st = true -> heapish (s_cls st) ->
  oldcap = s_size st -> need <> 0 ->
  spec (realloc_buf orc k oldcap keep need) s (realloc_post G s h k st need).
Proof.
  intros L Hx Hh Hn Hs Hl Hcl -> Hnz. destruct L as [T S D (F1 & F2 & F3 & F4)] eqn:EL.
  assert (forall h2 y, h2 <> h -> G !! h2 = Some y -> holds y <> Some k) as Hsole by (intros; by eapply (refs_one_other G h)).
  assert (s_cls st <> SStatic) as Hns by (destruct Hcl as [E|E]; rewrite E; done).
  unfold realloc_buf. destruct (isize_max <? need) eqn:Ei; [apply spec_panic|].
  set (newcap := N.max (or_pick orc need) need). assert (need <= newcap) as Hnc by (unfold newcap; lia). assert (newcap =? 0 = false) as Hc0 by lia.
  sbind (spec_get_st' _ _ _ Hs). intros y s1 [-> ->]. sbind spec_mget'. intros y s1 [-> ->].
  pose proof (S _ _ Hs) as Hok.
  destruct Hcl as [Hcl|Hcl]; rewrite Hcl.
  - (* a real buffer is reallocated *)
    sbind spec_check'. { done. } intros [] s1 ->. sbind spec_check'. { lia. } intros [] s1 ->.
    assert (sts s !! xO (next_real s) = None) as Hfr.
    { destruct (sts s !! xO (next_real s)) eqn:E; [|done]. assert (next_real s < next_real s)%positive by (apply F1; eauto). lia. }
    assert (xO (next_real s) <> k) as Hkk by (intros <-; congruence).
    sbind spec_mput'. intros [] s1 ->. sbind spec_emit'. intros [] s1 ->. apply spec_ret.
    unfold realloc_post. split; [done|]. split; [done|]. split; [done|]. split; [done|]. split; [done|].
    eexists. split; [simpl; apply lookup_insert|]. cbn [s_live s_size s_cls s_ctrl]. rewrite Hc0. split; [done|]. split; [done|]. split; [done|]. split; [done|].
    intros cnew xn Hh' Hty Hok' Hdis. unfold set_sts. cbn [sts hs owners next_real next_pseudo next_h next_o odd_mode]. rewrite insert_insert.
    set (stn := with_ctrl cnew _). set (k' := xO (next_real s)) in *.
    constructor; cbn [sts owners].
    + intros h' y Hy. apply lookup_insert_Some in Hy as [[<- <-]|[Hne Hy]].
      * cbn [sts] in Hty. by rewrite insert_insert in Hty.
      * apply typed_ins_fresh; [by rewrite lookup_insert_ne|]. eapply typed_upd_nothold; [exact Hs|done|eapply Hsole; eauto|by eapply T].
    + intros k2 st2 Hk2. destruct (decide (k2 = k')) as [->|Hn1].
      * rewrite lookup_insert in Hk2. injection Hk2 as <-.
        assert (refs (<[h := xn]> G) k' = 1%nat) as ->; [|exact Hok'].
        pose proof (refs_insert G h x xn k' Hx) as HH. rewrite (w_hold xn k' Hh') in HH. rewrite (w_nohold x k') in HH by congruence.
        rewrite (refs_fresh_storage _ _ _ L Hfr) in HH. lia.
      * rewrite lookup_insert_ne in Hk2 by done. destruct (decide (k2 = k)) as [->|Hn2].
        -- rewrite lookup_insert in Hk2. injection Hk2 as <-.
           assert (refs (<[h := xn]> G) k = 0%nat) as ->.
           { pose proof (refs_insert G h x xn k Hx) as HH. rewrite (w_hold x k Hh) in HH. rewrite (w_nohold xn k) in HH by congruence. lia. }
           unfold st_ok in *. simpl. rewrite Hcl in *. split; [apply Hok|done].
        -- rewrite lookup_insert_ne in Hk2 by done.
           assert (refs (<[h := xn]> G) k2 = refs G k2) as ->; [|by apply S].
           pose proof (refs_insert G h x xn k2 Hx) as HH. rewrite (w_nohold xn k2) in HH by congruence. rewrite (w_nohold x k2) in HH by congruence. lia.
    + intros h1 h2 x1 x2 k0 o1 cc1 o2 c2 Hn12 H1 H2 W1 W2.
      apply lookup_insert_Some in H1 as [[<- <-]|[? H1]]; apply lookup_insert_Some in H2 as [[<- <-]|[? H2]]; try done.
      * exfalso. eapply (Hdis h2 x2); eauto.
      * exfalso. eapply (Hdis h1 x1); eauto.
      * eapply (D h1 h2); eauto.
    + repeat split; simpl.
      * intros p [st0 Hp]. destruct (decide (p = next_real s)) as [->|Hne]; [lia|]. rewrite lookup_insert_ne in Hp by (unfold k'; congruence).
        assert (is_Some (sts s !! xO p)) as Hi. { destruct (decide (xO p = k)) as [<-|?]; [eauto|]. rewrite lookup_insert_ne in Hp by done. eauto. }
        assert (p < next_real s)%positive by (by apply F1). lia.
      * intros p [st0 Hp]. rewrite lookup_insert_ne in Hp by done. apply F2. destruct (decide (xI p = k)) as [<-|?]; [eauto|]. rewrite lookup_insert_ne in Hp by done. eauto.
      * done.
      * rewrite lookup_insert_ne by done. destruct (decide (1%positive = k)) as [<-|?]; [congruence|]. by rewrite lookup_insert_ne.
  - (* a zero-capacity Vec: first allocation *)
    assert (sts s !! xO (next_real s) = None) as Hfr.
    { destruct (sts s !! xO (next_real s)) eqn:E; [|done]. assert (next_real s < next_real s)%positive by (apply F1; eauto). lia. }
    assert (xO (next_real s) <> k) as Hkk by (intros <-; congruence).
    set (k' := xO (next_real s)) in *.
    set (stn0 := {| s_size := newcap; s_data := pad [] newcap; s_live := true; s_odd := odd_mode s; s_cls := SHeap; s_ctrl := CNone |}).
    eapply spec_bind with (Q1 := fun r s1 => r = k' /\ s1 = {| sts := <[k' := stn0]> (sts s); hs := hs s; owners := owners s; next_real := Pos.succ (next_real s);
                                   next_pseudo := next_pseudo s; next_h := next_h s; next_o := next_o s; odd_mode := odd_mode s |}).
    { unfold alloc_buf. sbind spec_mget'. intros y s1 [-> ->]. rewrite Hc0. destruct (isize_max <? newcap); [apply spec_panic|].
      sbind spec_mput'. intros [] s1 ->. sbind spec_emit'. intros [] s1 ->. by apply spec_ret. }
    intros r s1 [-> ->].
    eapply spec_bind; [unfold upd_st; eapply spec_bind; [eapply spec_get_st'; simpl; apply lookup_insert|]; intros y s1 [-> ->]; apply spec_put_st'|]. intros [] s1 ->.
    sbind spec_put_st'. intros [] s1 ->. apply spec_ret.
    unfold realloc_post, set_sts. cbn [sts hs owners next_real next_pseudo next_h next_o odd_mode]. rewrite insert_insert.
    split; [done|]. split; [done|]. split; [done|]. split; [done|]. split; [done|].
    exists (with_ctrl (s_ctrl st) stn0). split; [rewrite lookup_insert_ne by done; apply lookup_insert|].
    cbn [with_ctrl s_live s_size s_cls s_ctrl stn0]. rewrite Hc0. split; [done|]. split; [done|]. split; [done|]. split; [done|].
    intros cnew xn Hh' Hty Hok' Hdis. rewrite (insert_commute _ k k') by done. rewrite insert_insert.
    unfold st_ok in Hok. rewrite Hcl in Hok. destruct Hok as (Hz & _ & Hctl).
    constructor; cbn [sts owners].
    + intros h' y Hy. apply lookup_insert_Some in Hy as [[<- <-]|[Hne Hy]].
      * cbn [sts] in Hty. rewrite (insert_commute _ k k') in Hty by done. by rewrite insert_insert in Hty.
      * apply typed_ins_fresh; [by rewrite lookup_insert_ne|]. eapply typed_upd_nothold; [exact Hs|done|eapply Hsole; eauto|by eapply T].
    + intros k2 st2 Hk2. destruct (decide (k2 = k')) as [->|Hn1].
      * rewrite lookup_insert in Hk2. injection Hk2 as <-.
        assert (refs (<[h := xn]> G) k' = 1%nat) as ->; [|exact Hok'].
        pose proof (refs_insert G h x xn k' Hx) as HH. rewrite (w_hold xn k' Hh') in HH. rewrite (w_nohold x k') in HH by congruence.
        rewrite (refs_fresh_storage _ _ _ L Hfr) in HH. lia.
      * rewrite lookup_insert_ne in Hk2 by done. destruct (decide (k2 = k)) as [->|Hn2].
        -- rewrite lookup_insert in Hk2. injection Hk2 as <-.
           assert (refs (<[h := xn]> G) k = 0%nat) as ->.
           { pose proof (refs_insert G h x xn k Hx) as HH. rewrite (w_hold x k Hh) in HH. rewrite (w_nohold xn k) in HH by congruence. lia. }
           unfold st_ok. simpl. rewrite Hcl, Hl. repeat split; try done; lia.
        -- rewrite lookup_insert_ne in Hk2 by done.
           assert (refs (<[h := xn]> G) k2 = refs G k2) as ->; [|by apply S].
           pose proof (refs_insert G h x xn k2 Hx) as HH. rewrite (w_nohold xn k2) in HH by congruence. rewrite (w_nohold x k2) in HH by congruence. lia.
    + intros h1 h2 x1 x2 k0 o1 cc1 o2 c2 Hn12 H1 H2 W1 W2.
      apply lookup_insert_Some in H1 as [[<- <-]|[? H1]]; apply lookup_insert_Some in H2 as [[<- <-]|[? H2]]; try done.
      * exfalso. eapply (Hdis h2 x2); eauto.
      * exfalso. eapply (Hdis h1 x1); eauto.
      * eapply (D h1 h2); eauto.
    + repeat split; simpl.
      * intros p [st0 Hp]. destruct (decide (p = next_real s)) as [->|Hne]; [lia|]. rewrite lookup_insert_ne in Hp by (unfold k'; congruence).
        assert (is_Some (sts s !! xO p)) as Hi. { destruct (decide (xO p = k)) as [<-|?]; [eauto|]. rewrite lookup_insert_ne in Hp by done. eauto. }
        assert (p < next_real s)%positive by (by apply F1). lia.
      * intros p [st0 Hp]. rewrite lookup_insert_ne in Hp by done. apply F2. destruct (decide (xI p = k)) as [<-|?]; [eauto|]. rewrite lookup_insert_ne in Hp by done. eauto.
      * done.
      * rewrite lookup_insert_ne by done. destruct (decide (1%positive = k)) as [<-|?]; [congruence|]. by rewrite lookup_insert_ne.
Qed.

Lemma with_ctrl_id st c : s_ctrl st = c -> with_ctrl c st = st.
Proof. intros <-. by destruct st. Qed.
Lemma mread_len_spec s k ofs len st : sts s !! k = Some st -> s_live st = true -> ofs + len <= s_size st ->
  spec (mread k ofs len) s (fun bs s1 => s1 = s /\ lenN bs <= len).
Proof.
  intros Hs Hl Hb e. pose proof (mread_spec s k ofs len st Hs Hl Hb e) as H. pose proof (mread_ok k ofs len s e) as H2.
  destruct (mread k ofs len s e) as [bs s1 e1| |] eqn:E; try done. split; [done|].
  destruct (len =? 0) eqn:E0.
  - unfold mread in E. rewrite E0 in E. injection E as <- _ _. change (lenN (@nil byte)) with 0. lia.
  - destruct (H2 bs s1 e1 eq_refl) as (x & Hx & _ & _ & -> & _); [lia|]. apply lenN_rd.
Qed.
(* a sole shared BytesMut may take any window of its buffer *)
Lemma lwf_hm_sole_window G s h k o l c st o' l' c' : LWF G s -> G !! h = Some (HM k o l c MArc) -> refs G k = 1%nat -> sts s !! k = Some st ->
  o' + c' <= s_size st -> l' <= c' -> LWF (<[h := HM k o' l' c' MArc]> G) s.
Proof.
  intros L Hx Hn Hs Hb Hl. eapply lwf_step0; [exact L| | |].
  - intros h' y Hy. apply lookup_insert_Some in Hy as [[<- <-]|[? Hy]]; [|by eapply (lwf_typed _ _ L)].
    pose proof (lwf_typed _ _ L _ _ Hx) as (st0 & Hs0 & Hlv & Hcl & Hc & Hbd & Hle). rewrite Hs in Hs0. injection Hs0 as <-. exists st. repeat split; done.
  - intros k2. by eapply refs_insert_same.
  - eapply disj_replace_sub; [apply (lwf_disj _ _ L)|exact Hx|]. intros k' o2 c2 [= <- <- <-]. split; [done|]. right.
    intros h2 y Hne Hy. by eapply (refs_one_other G h).
Qed.

Lemma spec_and {A} (m : M A) s (Q1 Q2 : A -> hst -> Prop) : spec m s Q1 -> spec m s Q2 -> spec m s (fun a s1 => Q1 a s1 /\ Q2 a s1).
Proof. intros H1 H2 e. specialize (H1 e). specialize (H2 e). destruct (m s e); done. Qed.
Lemma mwrite_size s k ofs bs st : sts s !! k = Some st -> s_live st = true -> heapish (s_cls st) -> ofs + lenN bs <= s_size st -> (s_cls st = SDangling -> s_size st = 0) ->
  spec (mwrite k ofs bs) s (fun _ s1 => exists st1, sts s1 !! k = Some st1 /\ s_size st1 = s_size st).
Proof.
  intros Hs Hl Hcl Hb Hd. unfold mwrite. destruct (lenN bs =? 0) eqn:Ez; [apply spec_ret; eauto|].
  sbind (spec_get_st' _ _ _ Hs). intros x s1 [-> ->]. sbind spec_check'. { done. } intros [] s1 ->. sbind spec_check'. { lia. } intros [] s1 ->.
  assert (s_cls st = SHeap) as Hh. { destruct Hcl as [?|Hd']; [done|]. specialize (Hd Hd'). lia. }
  sbind spec_check'. { by rewrite Hh. } intros [] s1 ->. apply spec_put_st. simpl. eexists. rewrite lookup_insert. done.
Qed.
(* moving the live bytes to the front of the buffer: the invariant and the buffer's size survive *)
Lemma move_front_lwf G s k off len st : LWF G s -> sts s !! k = Some st -> s_live st = true -> heapish (s_cls st) -> off + len <= s_size st ->
  spec (if len =? 0 then mret tt else let! bs := mread k off len in mwrite k 0 bs) s (fun _ s1 => sframe s s1 /\ LWF G s1 /\ exists st1, sts s1 !! k = Some st1 /\ s_size st1 = s_size st).
Proof.
  intros L Hs Hlv Hcl Hb. destruct (len =? 0); [apply spec_ret; split; [done|split; [done|eauto]]|].
  sbind (mread_len_spec s k off len st Hs Hlv Hb). intros bs s1 [-> Hbs].
  pose proof (lwf_st _ _ L _ _ Hs) as Hok.
  eapply spec_mono; [apply spec_and; [eapply (mwrite_lwf G s k 0 bs st L Hs Hlv Hcl); lia|eapply (mwrite_size s k 0 bs st Hs Hlv Hcl); [lia|]]|].
  - intros Hd. unfold st_ok in Hok. rewrite Hd in Hok. apply Hok.
  - intros [] s1 [[Hfr L1] Hst]. done.
Qed.
Definition is_hm (x : handle) : Prop := exists k o l c kd, x = HM k o l c kd.
Lemma reserve_inner_lwf G s h orc additional allocate k off len cap kd :
  LWF G s -> G !! h = Some (HM k off len cap kd) ->
  spec (reserve_inner orc additional allocate (HM k off len cap kd)) s (fun r s1 => sframe s s1 /\ LWF (<[h := r.1]> G) s1 /\ is_hm r.1).
Proof.
  intros L Hx. pose proof (lwf_typed _ _ L _ _ Hx) as Hty. unfold reserve_inner. destruct kd as [o|]; simpl in Hty.
  - destruct Hty as (st & Hs & Hlv & Hcl & Hc & Hcap & Hle).
    destruct ((additional <=? cap - len + off) && (len <=? off)) eqn:E1.
    + sbind (move_front_lwf G s k off len st L Hs Hlv Hcl). { lia. }
      intros [] s1 (Hfr & L1 & _). apply spec_ret. split; [done|]. split; [|unfold is_hm; eauto 10]. simpl. eapply lwf_hm_vecmove; [done|exact Hx|lia|lia].
    + destruct allocate; cbn [negb]; [|apply spec_ret; split; [done|]; split; [by rewrite insert_id|unfold is_hm; eauto 10]].
      assert (holds (HM k off len cap (MVec o)) = Some k) as Hh by done.
      pose proof (st_ok_sole_n _ _ _ _ _ _ L Hx Hh Hs Hc) as Hn.
      sbind (realloc_buf_lwf G s h _ k st orc (cap + off) (len + off) (len + off + additional) L Hx Hh Hn Hs Hlv Hcl). { lia. } { lia. }
      intros [k' vcap] s1 (Hfr & Hnc & Hkk & Hfrk & Hown & st' & Hs' & Hl' & Hsz' & Hcl' & Hct' & HK). apply spec_ret. split; [done|]. split; [|unfold is_hm; eauto 10].
      cbn [fst]. rewrite Hc in Hct'.
      assert (LWF (<[h := HM k' off len (vcap - off) (MVec o)]> G) (set_sts (<[k' := with_ctrl CNone st']>) s1)) as L1.
      { apply HK; try done.
        - exists (with_ctrl CNone st'). rewrite lookup_insert. simpl. rewrite Hl', Hcl', Hsz'. repeat split; try done; [apply heapish_of_size|lia|lia].
        - unfold st_ok. simpl. rewrite Hcl', Hl'. destruct (vcap =? 0) eqn:Ev; [lia|]. repeat split; try done. lia. }
      rewrite (with_ctrl_id st' CNone Hct') in L1. by rewrite (set_sts_id s1 k' st' Hs') in L1.
  - destruct Hty as (st & Hs & Hlv & Hcl & (o & rc & Hc) & Hb & Hle).
    destruct (usize_max <? len + additional) eqn:E0.
    { destruct allocate; [apply spec_panic|]. apply spec_ret. split; [done|]. split; [by rewrite insert_id|unfold is_hm; eauto 10]. }
    sbind (spec_get_st' _ _ _ Hs). intros y s1 [-> ->]. rewrite Hc.
    destruct (rc =? 1) eqn:Erc.
    + assert (rc = 1) as -> by lia. pose proof (refs_of_rc1 _ _ _ _ L Hs Hlv (or_intror (ex_intro _ _ (ex_intro _ _ Hc)))) as Hn.
      destruct ((len + additional + off <=? usize_max) && (len + additional + off <=? s_size st)) eqn:E1.
      { apply spec_ret. split; [done|]. split; [|unfold is_hm; eauto 10]. simpl. eapply lwf_hm_sole_window; try done; lia. }
      destruct ((len + additional <=? s_size st) && (len <=? off)) eqn:E2.
      { sbind (move_front_lwf G s k off len st L Hs Hlv Hcl). { lia. }
        intros [] s1 (Hfr & L1 & st1 & Hs1 & Hsz). apply spec_ret. split; [done|]. split; [|unfold is_hm; eauto 10]. simpl.
        eapply lwf_hm_sole_window; try done; lia. }
      destruct allocate; cbn [negb]; [|apply spec_ret; split; [done|]; split; [by rewrite insert_id|unfold is_hm; eauto 10]].
      destruct (usize_max <? len + additional + off) eqn:E3; [apply spec_panic|].
      set (need := N.max (N.land (N.shiftl (s_size st) 1) usize_max) (len + additional + off)).
      assert (len + additional + off <= need) as Hneed by (unfold need; lia).
      assert (need <> 0) as Hnz by lia.
      sbind (realloc_buf_lwf G s h _ k st orc (s_size st) (off + len) need L Hx eq_refl Hn Hs Hlv Hcl eq_refl Hnz).
      intros [k' vcap] s1 (Hfr & Hnc & Hkk & Hfrk & Hown & st' & Hs' & Hl' & Hsz' & Hcl' & Hct' & HK).
      eapply spec_bind with (Q1 := fun _ s2 => s2 = set_sts (<[k' := with_ctrl (CSharedV vcap o 1) st']>) s1).
      { unfold upd_st. sbind (spec_get_st' _ _ _ Hs'). intros y s2 [-> ->]. apply spec_put_st'. }
      intros [] s2 ->. apply spec_ret. split; [done|]. split; [|unfold is_hm; eauto 10]. cbn [fst].
      destruct (vcap =? 0) eqn:Ev; [lia|].
      apply HK; try done.
      { exists (with_ctrl (CSharedV vcap o 1) st'). rewrite lookup_insert. simpl. rewrite Hl', Hcl', Hsz'.
        split; [done|]. split; [done|]. split; [by left|]. split; [eauto|]. split; lia. }
      { unfold st_ok. simpl. rewrite Hcl', Hl', Hsz'. repeat split; try done; lia. }
      { intros h2 y k0 o0 c0 o1 cc1 Hne Hy W1 [= <- _ _].
        assert (holds y = Some k') as Hhy. { destruct y as [| ? ? ? ? []|]; simpl in W1; try done. by injection W1 as -> _ _. }
        destruct (typed_holds _ _ _ (lwf_typed _ _ L _ _ Hy) Hhy) as (sty & Hsy & _). congruence. }
    + destruct allocate; cbn [negb]; [|apply spec_ret; split; [done|]; split; [by rewrite insert_id|unfold is_hm; eauto 10]].
      set (ncap := N.max (len + additional) (ocr_from_repr o)).
      sbind (mread_spec s k off len st Hs Hlv). { lia. } intros bs s1 ->.
      assert (G !! fresh (dom G) = None) as Hfr by (apply not_elem_of_dom, is_fresh). set (t := fresh (dom G)) in *.
      assert (t <> h) as Hne by (intros ->; congruence).
      sbind (alloc_buf_lwf _ s ncap bs L). intros k' s1 Hpost. pose proof Hpost as (Hfr1 & st' & (Hn' & _) & Hs1 & _).
      assert (LWF (<[t := HM k' 0 len ncap (MVec o)]> G) s1) as L1.
      { eapply alloc_token; try done. intros st2 ? ? ? ? ?. eapply typed_fresh_hm; eauto. unfold ncap. lia. }
      assert (k' <> k) as Hkk by (intros ->; congruence).
      assert (sts s1 !! k = Some st) as Hs1k by (rewrite Hs1; by rewrite lookup_insert_ne).
      sbind (drop_token_release _ s1 h (HM k off len cap MArc) k st L1). { by rewrite lookup_insert_ne. } { done. } { done. } { done. } { by rewrite Hc. }
      intros [] s2 [Hfr2 L2]. apply spec_ret. split; [by eapply sframe_trans|]. split; [|unfold is_hm; eauto 10]. cbn [fst].
      rewrite delete_insert_ne in L2 by done.
      pose proof (lwf_rekey _ _ t h _ L2 (lookup_insert _ _ _)) as L3. rewrite lookup_insert_ne in L3 by done. rewrite lookup_delete in L3. specialize (L3 eq_refl).
      rewrite delete_insert in L3 by (by rewrite lookup_delete_ne). by rewrite insert_delete_insert in L3.
Qed.

Lemma m_reserve_lwf G s h orc n k off len cap kd : LWF G s -> G !! h = Some (HM k off len cap kd) ->
  spec (m_reserve orc n (HM k off len cap kd)) s (fun x' s1 => sframe s s1 /\ LWF (<[h := x']> G) s1 /\ is_hm x').
Proof.
  intros L Hx. unfold m_reserve. destruct (n <=? cap - len); [apply spec_ret; split; [done|]; split; [by rewrite insert_id|unfold is_hm; eauto 10]|].
  sbind (reserve_inner_lwf G s h orc n true _ _ _ _ _ L Hx). intros [x' b] s1 (Hfr & L1 & Hm). by apply spec_ret.
Qed.
Lemma wf_after_put s s1 h x x' : hfresh s -> sframe s s1 -> hs s !! h = Some x -> LWF (<[h := x']> (hs s)) s1 -> WF (set_hs (<[h := x']>) s1).
Proof.
  intros Hf [Hh1 Hn1] Hx L1. eapply wf_put_h; [by eapply hfresh_frame|by rewrite Hh1|by rewrite Hh1].
Qed.
Lemma wf_OMReserve orc h n : wfstep orc (OMReserve h n).
Proof.
  intros s [L Hf] (k & ofs & len & cap & kd & Hx). simpl. sbind (spec_get_h' _ _ _ Hx). intros x s1 [-> ->].
  sbind (m_reserve_lwf _ _ _ orc n _ _ _ _ _ L Hx). intros x' s1 (Hfr & L1 & _). sbind spec_put_h'. intros [] s2 ->. apply spec_ret. by eapply wf_after_put.
Qed.
Lemma wf_OMTryReclaim orc h n : wfstep orc (OMTryReclaim h n).
Proof.
  intros s [L Hf] (k & ofs & len & cap & kd & Hx). simpl. sbind (spec_get_h' _ _ _ Hx). intros x s1 [-> ->]. unfold m_try_reclaim.
  eapply spec_bind with (Q1 := fun r s1 => sframe s s1 /\ LWF (<[h := r.1]> (hs s)) s1).
  { destruct (n <=? cap - len); [apply spec_ret; split; [done|]; by rewrite insert_id|].
    eapply spec_mono; [apply (reserve_inner_lwf _ s h orc n false _ _ _ _ _ L Hx)|]. intros r s1 (? & ? & _). done. }
  intros [x' b] s1 [Hfr L1]. sbind spec_put_h'. intros [] s2 ->. apply spec_ret. by eapply wf_after_put.
Qed.
(* extend_from_slice: reserve, write into the spare capacity, the length grows *)
Lemma m_extend_lwf G s h orc bs k off len cap kd : LWF G s -> G !! h = Some (HM k off len cap kd) ->
  spec (m_extend orc bs (HM k off len cap kd)) s (fun x' s1 => sframe s s1 /\ LWF (<[h := x']> G) s1 /\ is_hm x').
Proof.
  intros L Hx. pose proof (typed_hm_le _ _ _ _ _ _ (lwf_typed _ _ L _ _ Hx)) as Hle. unfold m_extend.
  eapply spec_bind with (Q1 := fun x1 s1 => (sframe s s1 /\ LWF (<[h := x1]> G) s1 /\ is_hm x1) /\ (h_len x1 = len /\ lenN bs <= h_cap x1 - h_len x1)).
  { apply spec_and; [by apply m_reserve_lwf|]. intros e. pose proof (reserve_post orc (lenN bs) (HM k off len cap kd) s e) as Hp.
    destruct (m_reserve orc (lenN bs) (HM k off len cap kd) s e) as [x1 s1 e1| |] eqn:E; try done; [|by (pose proof (m_reserve_lwf G s h orc (lenN bs) _ _ _ _ _ L Hx e) as HH; rewrite E in HH)].
    by apply (Hp x1 s1 e1). }
  intros x1 s1 [(Hfr & L1 & (k1 & o1 & l1 & c1 & kd1 & ->)) [Hl1 Hroom]]. simpl in Hl1, Hroom. subst l1.
  pose proof (typed_hm_le _ _ _ _ _ _ (lwf_typed _ _ L1 h _ (lookup_insert _ _ _))) as Hle1.
  sbind spec_check'. { lia. } intros [] s2 ->.
  sbind (hm_write_lwf _ _ h _ _ _ _ _ (o1 + len) bs L1 (lookup_insert _ _ _)). { lia. } { lia. }
  intros [] s2 [Hfr2 L2]. apply spec_ret. split; [by eapply sframe_trans|]. split; [|unfold is_hm; eauto 10].
  rewrite <- (insert_insert G h (HM k1 o1 (len + lenN bs) c1 kd1) (HM k1 o1 len c1 kd1)). eapply lwf_hm_len; [exact L2|apply lookup_insert|lia].
Qed.
Lemma wf_OMExtend orc h d : wfstep orc (OMExtend h d).
Proof.
  intros s [L Hf] (k & ofs & len & cap & kd & Hx). simpl. sbind (spec_get_h' _ _ _ Hx). intros x s1 [-> ->].
  sbind (m_extend_lwf _ _ _ orc d _ _ _ _ _ L Hx). intros x' s1 (Hfr & L1 & _). sbind spec_put_h'. intros [] s2 ->. apply spec_ret. by eapply wf_after_put.
Qed.
Lemma wf_OMResize orc h new_len v : wfstep orc (OMResize h new_len v).
Proof.
  intros s [L Hf] (k & ofs & len & cap & kd & Hx). simpl. sbind (spec_get_h' _ _ _ Hx). intros x s1 [-> ->]. cbn [m_parts]. sret.
  pose proof (typed_hm_le _ _ _ _ _ _ (lwf_typed _ _ L _ _ Hx)) as Hle.
  destruct (new_len <? len) eqn:E1.
  { sbind spec_put_h'. intros [] s1 ->. apply spec_ret. eapply wf_put_h; [done|exact Hx|]. eapply lwf_hm_len; [done|exact Hx|lia]. }
  destruct (new_len =? len) eqn:E2; [by apply spec_ret|].
  eapply spec_bind with (Q1 := fun x1 s1 => (sframe s s1 /\ LWF (<[h := x1]> (hs s)) s1 /\ is_hm x1) /\ (h_len x1 = len /\ new_len - len <= h_cap x1 - h_len x1)).
  { apply spec_and; [by apply m_reserve_lwf|]. intros e. pose proof (reserve_post orc (new_len - len) (HM k ofs len cap kd) s e) as Hp.
    destruct (m_reserve orc (new_len - len) (HM k ofs len cap kd) s e) as [x1 s1 e1| |] eqn:E; try done; [|by (pose proof (m_reserve_lwf _ s h orc (new_len - len) _ _ _ _ _ L Hx e) as HH; rewrite E in HH)].
    by apply (Hp x1 s1 e1). }
  intros x1 s1 [(Hfr & L1 & (k1 & o1 & l1 & c1 & kd1 & ->)) [Hl1 Hroom]]. simpl in Hl1, Hroom. subst l1.
  pose proof (typed_hm_le _ _ _ _ _ _ (lwf_typed _ _ L1 h _ (lookup_insert _ _ _))) as Hle1.
  sbind spec_put_h'. intros [] s2 ->. cbn [m_parts]. sret.
  sbind spec_check'. { lia. } intros [] s3 ->.
  assert (lenN (repeat v (N.to_nat (new_len - len))) = new_len - len) as Hrep. { unfold lenN. rewrite repeat_length. lia. }
  assert (LWF (<[h := HM k1 o1 len c1 kd1]> (hs s)) (set_hs (<[h := HM k1 o1 len c1 kd1]>) s1)) as L1' by (by apply lwf_set_hs).
  sbind (hm_write_lwf _ _ h _ _ _ _ _ (o1 + len) (repeat v (N.to_nat (new_len - len))) L1' (lookup_insert _ _ _)). { lia. } { rewrite Hrep. lia. }
  intros [] s3 [[Hh3 Hn3] L3]. sbind spec_put_h'. intros [] s4 ->. apply spec_ret.
  destruct Hfr as [Hh1 Hn1]. split.
  - apply lwf_set_hs. simpl. rewrite Hh3. simpl. rewrite Hh1. rewrite insert_insert.
    rewrite <- (insert_insert (hs s) h (HM k1 o1 new_len c1 kd1) (HM k1 o1 len c1 kd1)). eapply lwf_hm_len; [exact L3|apply lookup_insert|lia].
  - intros h' [y Hy]. simpl in *. rewrite Hh3 in Hy. simpl in Hy. rewrite Hh1 in Hy. rewrite Hn3. simpl. rewrite Hn1. rewrite insert_insert in Hy.
    destruct (decide (h' = h)) as [->|?]; [apply Hf; eauto|]. rewrite lookup_insert_ne in Hy by done. apply Hf; eauto.
Qed.

(* ---- Extend<u8> from an iterator: reserve the hint, then one put_u8 per item, the handle stored back each time ---- *)
Lemma extend_step_wf orc h b s : WF s -> is_m s h ->
  spec (let! y := get_h h in let! y1 := m_extend orc [b] y in put_h h y1) s (fun _ s1 => WF s1 /\ is_m s1 h).
Proof.
  intros [L Hf] (k & ofs & len & cap & kd & Hx). sbind (spec_get_h' _ _ _ Hx). intros x s1 [-> ->].
  sbind (m_extend_lwf _ _ _ orc [b] _ _ _ _ _ L Hx). intros x' s1 (Hfr & L1 & (k1 & o1 & l1 & c1 & kd1 & ->)). apply spec_put_h. split; [by eapply wf_after_put|].
  exists k1, o1, l1, c1, kd1. simpl. apply lookup_insert.
Qed.
Lemma extend_loop_wf orc h d : forall (acc : M unit) s, spec acc s (fun _ s1 => WF s1 /\ is_m s1 h) ->
  spec (fold_left (fun (acc : M unit) b => acc;; let! y := get_h h in let! y1 := m_extend orc [b] y in put_h h y1) d acc) s (fun _ s1 => WF s1 /\ is_m s1 h).
Proof.
  induction d as [|b d IH]; intros acc s Hacc; simpl; [done|]. apply IH. eapply spec_bind; [exact Hacc|]. intros [] s1 [W1 Hm1]. by apply extend_step_wf.
Qed.
Lemma wf_OMExtendIter orc h d hint : wfstep orc (OMExtendIter h d hint).
Proof.
  intros s [L Hf] (k & ofs & len & cap & kd & Hx). simpl. sbind (spec_get_h' _ _ _ Hx). intros x s1 [-> ->].
  sbind (m_reserve_lwf _ _ _ orc hint _ _ _ _ _ L Hx). intros x' s1 (Hfr & L1 & (k1 & o1 & l1 & c1 & kd1 & ->)).
  sbind spec_put_h'. intros [] s2 ->.
  eapply spec_bind; [apply extend_loop_wf|intros [] s3 [W3 _]; by apply spec_ret].
  apply spec_ret. split; [by eapply wf_after_put|]. exists k1, o1, l1, c1, kd1. simpl. apply lookup_insert.
Qed.

(* ---- unsplit ---- *)
Lemma hm_read_spec G s h k o l c kd : LWF G s -> G !! h = Some (HM k o l c kd) -> spec (mread k o l) s (fun _ s1 => s1 = s).
Proof.
  intros L Hx. pose proof (lwf_typed _ _ L _ _ Hx) as Hty. destruct kd as [oc|]; simpl in Hty.
  - destruct Hty as (st & Hs & Hl & _ & _ & Hb & Hle). eapply mread_spec; [exact Hs|done|lia].
  - destruct Hty as (st & Hs & Hl & _ & _ & Hb & Hle). eapply mread_spec; [exact Hs|done|lia].
Qed.
Lemma wf_of_parts s sF : LWF (hs sF) sF -> next_h sF = next_h s -> (forall h', is_Some (hs sF !! h') -> is_Some (hs s !! h')) -> hfresh s -> WF sF.
Proof. intros L Hn Hsub Hf. split; [done|]. intros h' Hh'. rewrite Hn. apply Hf. by apply Hsub. Qed.
Lemma wf_OMUnsplit orc h other : wfstep orc (OMUnsplit h other).
Proof.
  intros s [L Hf] (Hne & (k & ofs & len & cap & kd & Hx) & (k2 & ofs2 & len2 & cap2 & kd2 & Hy)). simpl.
  destruct (Pos.eqb h other) eqn:Eh; [apply Pos.eqb_eq in Eh; done|].
  sbind (spec_get_h' _ _ _ Hx). intros x s1 [-> ->]. cbn [m_parts]. sret. sbind (spec_get_h' _ _ _ Hy). intros y s1 [-> ->]. cbn [m_parts]. sret.
  destruct (len =? 0) eqn:E0.
  { (* *self = other *)
    sbind (m_drop_rep_lwf _ _ _ _ _ _ _ _ L Hx). intros [] s1 [[Hh1 Hn1] L1]. sbind spec_put_h'. intros [] s2 ->. sbind spec_del_h'. intros [] s3 ->. apply spec_ret.
    apply (wf_of_parts s); simpl; try done.
    - apply lwf_set_hs. apply lwf_set_hs. rewrite Hh1.
      pose proof (lwf_rekey _ _ other h (HM k2 ofs2 len2 cap2 kd2) L1) as L2. rewrite lookup_delete_ne in L2 by done. specialize (L2 Hy (lookup_delete _ _)).
      rewrite delete_insert_ne by done. rewrite <- (insert_delete_insert (delete other (hs s))). by rewrite delete_commute.
    - rewrite Hh1. intros h' [z Hz]. apply lookup_delete_Some in Hz as [? Hz]. apply lookup_insert_Some in Hz as [[<- _]|[? Hz]]; eauto. }
  destruct (cap2 =? 0) eqn:E1.
  { sbind (m_drop_rep_lwf _ _ _ _ _ _ _ _ L Hy). intros [] s1 [[Hh1 Hn1] L1]. sbind spec_del_h'. intros [] s2 ->. apply spec_ret.
    apply (wf_of_parts s); simpl; try done.
    - apply lwf_set_hs. by rewrite Hh1.
    - rewrite Hh1. intros h' [z Hz]. apply lookup_delete_Some in Hz as [? Hz]. eauto. }
  (* the general path: copy other's bytes behind self *)
  assert (spec (let! bs := mread k2 ofs2 len2 in let! x1 := m_extend orc bs (HM k ofs len cap kd) in put_h h x1;; m_drop_rep (HM k2 ofs2 len2 cap2 kd2);; del_h other;; mret RUnit) s (fun _ s1 => WF s1)) as Hcopy.
  { sbind (hm_read_spec _ _ other _ _ _ _ _ L Hy). intros bs s1 ->.
    sbind (m_extend_lwf _ _ _ orc bs _ _ _ _ _ L Hx). intros x1 s1 ([Hh1 Hn1] & L1 & _). sbind spec_put_h'. intros [] s2 ->.
    assert (LWF (<[h := x1]> (hs s)) (set_hs (<[h := x1]>) s1)) as L1' by (by apply lwf_set_hs).
    sbind (m_drop_rep_lwf _ _ other k2 ofs2 len2 cap2 kd2 L1'). { by rewrite lookup_insert_ne. } intros [] s3 [[Hh3 Hn3] L3]. sbind spec_del_h'. intros [] s4 ->. apply spec_ret.
    apply (wf_of_parts s); simpl; try done.
    - apply lwf_set_hs. rewrite Hh3. simpl. by rewrite Hh1.
    - simpl in Hn3. congruence.
    - rewrite Hh3. simpl. rewrite Hh1. intros h' [z Hz]. apply lookup_delete_Some in Hz as [? Hz]. apply lookup_insert_Some in Hz as [[<- _]|[? Hz]]; eauto. }
  destruct kd as [o|]; [exact Hcopy|]. destruct kd2 as [o2|]; [exact Hcopy|].
  destruct (Pos.eqb k k2 && (ofs + len =? ofs2)) eqn:Ec; [|exact Hcopy].
  apply andb_true_iff in Ec as [Ek Eo]. apply Pos.eqb_eq in Ek. subst k2. assert (ofs2 = ofs + len) as -> by lia.
  (* contiguous halves of one buffer: the windows merge in place *)
  pose proof (lwf_typed _ _ L _ _ Hx) as (st & Hs & Hlv & Hcl & (oc & rc & Hc) & Hb & Hle).
  pose proof (lwf_typed _ _ L _ _ Hy) as (st2 & Hs2 & _ & _ & _ & Hb2 & Hle2). rewrite Hs in Hs2. injection Hs2 as <-.
  assert (cap = len) as ->.
  { assert (cap = 0 \/ cap2 = 0 \/ ofs + cap <= ofs + len \/ ofs + len + cap2 <= ofs) as [?|[?|[?|?]]] by (eapply (lwf_disj _ _ L h other); eauto); lia. }
  (* logically: self takes the union of the two windows while other keeps an empty window at its end; then other is dropped *)
  set (merged := HM k ofs (len + len2) (len + cap2) MArc). set (oth' := HM k (ofs + len + cap2) 0 0 MArc).
  assert (LWF (<[h := merged]> (<[other := oth']> (hs s))) s) as L1.
  { pose proof (lwf_disj _ _ L) as D. eapply lwf_step0; [exact L| | |].
    - intros h' z Hz. apply lookup_insert_Some in Hz as [[<- <-]|[? Hz]]; [|apply lookup_insert_Some in Hz as [[<- <-]|[? Hz]]; [|by eapply (lwf_typed _ _ L)]].
      + exists st. repeat split; try done; [eauto|lia|lia].
      + exists st. repeat split; try done; [eauto|lia].
    - intros k0. rewrite (refs_insert_same _ h (HM k ofs len len MArc)) by (by rewrite ?lookup_insert_ne). by rewrite (refs_insert_same _ other (HM k (ofs + len) len2 cap2 MArc)).
    - intros h1 h2 x1 x2 k0 o1 c1 o2' c2 Hn12 H1 H2 W1 W2.
      apply lookup_insert_Some in H1 as [[<- <-]|[? H1]]; apply lookup_insert_Some in H2 as [[<- <-]|[? H2]]; try done.
      + injection W1 as <- <- <-. apply lookup_insert_Some in H2 as [[<- <-]|[? H2]]; [injection W2 as <- <-; lia|].
        assert (len = 0 \/ c2 = 0 \/ ofs + len <= o2' \/ o2' + c2 <= ofs) by (eapply (D h h2); eauto).
        assert (cap2 = 0 \/ c2 = 0 \/ ofs + len + cap2 <= o2' \/ o2' + c2 <= ofs + len) by (eapply (D other h2); eauto). lia.
      + injection W2 as <- <- <-. apply lookup_insert_Some in H1 as [[<- <-]|[? H1]]; [injection W1 as <- <-; lia|].
        assert (c1 = 0 \/ len = 0 \/ o1 + c1 <= ofs \/ ofs + len <= o1) by (eapply (D h1 h); eauto).
        assert (c1 = 0 \/ cap2 = 0 \/ o1 + c1 <= ofs + len \/ ofs + len + cap2 <= o1) by (eapply (D h1 other); eauto). lia.
      + apply lookup_insert_Some in H1 as [[<- <-]|[? H1]]; apply lookup_insert_Some in H2 as [[<- <-]|[? H2]]; try done.
        * injection W1 as <- <- <-. lia.
        * injection W2 as <- <- <-. lia.
        * eapply (D h1 h2); eauto. }
  sbind spec_put_h'. intros [] s1 ->.
  assert (LWF (<[h := merged]> (<[other := oth']> (hs s))) (set_hs (<[h := merged]>) s)) as L1' by (by apply lwf_set_hs).
  change (m_drop_rep (HM k (ofs + len) len2 cap2 MArc)) with (m_drop_rep (HM k (ofs + len + cap2) 0 0 MArc)).
  sbind (m_drop_rep_lwf _ _ other k (ofs + len + cap2) 0 0 MArc L1'). { rewrite lookup_insert_ne by done. apply lookup_insert. }
  intros [] s2 [[Hh2 Hn2] L2]. sbind spec_del_h'. intros [] s3 ->. apply spec_ret.
  apply (wf_of_parts s); simpl; try done.
  - apply lwf_set_hs. rewrite Hh2. simpl. rewrite delete_insert_ne in L2 by done. rewrite delete_insert_delete in L2. by rewrite delete_insert_ne.
  - rewrite Hh2. simpl. intros h' [z Hz]. apply lookup_delete_Some in Hz as [? Hz]. apply lookup_insert_Some in Hz as [[<- _]|[? Hz]]; eauto.
Qed.

(* the iterator extension is the one BytesMut operation that can panic after having made progress: the state at the panic is WF too *)
Lemma specp_of_spec_cp {A} (m : M A) s Q (P : hst -> Prop) : spec m s Q -> cp m -> P s -> specp m s Q P.
Proof. intros H1 H2 HP e. specialize (H1 e). specialize (H2 s e). destruct (m s e) as [| s1 e1 |]; try done. by destruct H2 as [-> _]. Qed.
Lemma extend_step_wfp orc h b s : WF s -> is_m s h ->
  specp (let! y := get_h h in let! y1 := m_extend orc [b] y in put_h h y1) s (fun _ s1 => WF s1 /\ is_m s1 h) WF.
Proof.
  intros W Hm. pose proof W as [L Hf]. pose proof Hm as (k & ofs & len & cap & kd & Hx).
  eapply specp_bind; [apply specp_of_spec; [apply (spec_get_h' _ _ _ Hx)|apply np_get_h]|]. intros x s1 [-> ->].
  eapply specp_bind; [apply specp_of_spec_cp; [apply (m_extend_lwf _ _ _ orc [b] _ _ _ _ _ L Hx)|apply cp_m_extend|exact W]|].
  intros x' s1 (Hfr & L1 & (k1 & o1 & l1 & c1 & kd1 & ->)). apply specp_of_spec; [|apply np_put_h]. apply spec_put_h. split; [by eapply wf_after_put|].
  exists k1, o1, l1, c1, kd1. simpl. apply lookup_insert.
Qed.
Lemma extend_loop_wfp orc h d : forall (acc : M unit) s, specp acc s (fun _ s1 => WF s1 /\ is_m s1 h) WF ->
  specp (fold_left (fun (acc : M unit) b => acc;; let! y := get_h h in let! y1 := m_extend orc [b] y in put_h h y1) d acc) s (fun _ s1 => WF s1 /\ is_m s1 h) WF.
Proof.
  induction d as [|b d IH]; intros acc s Hacc; simpl; [done|]. apply IH. eapply specp_bind; [exact Hacc|]. intros [] s1 [W1 Hm1]. by apply extend_step_wfp.
Qed.
Lemma extend_iter_wfp orc h d hint s : WF s -> is_m s h -> specp (hstep orc (OMExtendIter h d hint)) s (fun _ s1 => WF s1) WF.
Proof.
  intros W (k & ofs & len & cap & kd & Hx). pose proof W as [L Hf]. cbn [hstep].
  eapply specp_bind; [apply specp_of_spec; [apply (spec_get_h' _ _ _ Hx)|apply np_get_h]|]. intros x s1 [-> ->].
  eapply specp_bind; [apply specp_of_spec_cp; [apply (m_reserve_lwf _ _ _ orc hint _ _ _ _ _ L Hx)|apply cp_m_reserve|exact W]|].
  intros x' s1 (Hfr & L1 & (k1 & o1 & l1 & c1 & kd1 & ->)).
  eapply specp_bind; [apply specp_of_spec; [apply spec_put_h'|apply np_put_h]|]. intros [] s2 ->.
  eapply specp_bind; [apply extend_loop_wfp|intros [] s3 [W3 _]; apply specp_of_spec; [by apply spec_ret|apply np_ret]].
  apply specp_of_spec; [|apply np_ret]. apply spec_ret. split; [by eapply wf_after_put|]. exists k1, o1, l1, c1, kd1. simpl. apply lookup_insert.
Qed.

From stdpp Require Import gmap.
From Coq Require Import NArith Lia String.
From BV Require Import Base BaseLemmas BufMut Heap HeapLaws HeapPanic HeapWF HeapWFPrim HeapWFOps.
Local Open Scope N_scope.
Arguments N.add : simpl never. Arguments N.sub : simpl never. Arguments N.ltb : simpl never. Arguments N.leb : simpl never. Arguments N.eqb : simpl never.

(* ---- advance_unchecked on the handle under key h ---- *)
Definition adv_result (x' : handle) k ofs len cap count : Prop :=
  exists kd', x' = HM k (ofs + count) (len - count) (cap - count) kd'.
Lemma adv_unchecked_lwf G s h k ofs len cap kd count : LWF G s -> G !! h = Some (HM k ofs len cap kd) -> count <= cap ->
  spec (adv_unchecked count (HM k ofs len cap kd)) s (fun x' s1 => sframe s s1 /\ LWF (<[h := x']> G) s1 /\ adv_result x' k ofs len cap count).
Proof.
  intros L Hx Hc. pose proof (typed_hm_le _ _ _ _ _ _ (lwf_typed _ _ L _ _ Hx)) as Hle. unfold adv_unchecked.
  destruct (count =? 0) eqn:E0.
  { apply spec_ret. split; [done|]. split; [by rewrite insert_id|]. exists kd. f_equal; lia. }
  sbind spec_check'. { lia. } intros [] s1 ->. destruct kd as [o|].
  - destruct (ofs + count <=? MAX_VEC_POS) eqn:Em.
    + apply spec_ret. split; [done|]. split; [|by eexists]. eapply lwf_hm_vecmove; [done|exact Hx|lia|lia].
    + assert (G !! fresh (dom G) = None) as Hfr by (apply not_elem_of_dom, is_fresh).
      eapply spec_bind.
      { eapply (promote_lwf G s h (fresh (dom G)) k ofs len cap o 1 (HM k (ofs + count) (len - count) (cap - count) MArc) None L Hx Hfr).
        - left. done.
        - exists (ofs + count), (len - count), (cap - count). repeat split; try lia. }
      intros [] s1 [Hfr1 L1]. sbind spec_emit'. intros [] s2 ->. apply spec_ret. split; [done|]. split; [done|by eexists].
  - apply spec_ret. split; [done|]. split; [|by eexists]. eapply lwf_hm_subwin; [done|exact Hx|split; lia|lia].
Qed.

Lemma wf_OMAdvance orc h cnt : wfstep orc (OMAdvance h cnt).
Proof.
  intros s [L Hf] (k & ofs & len & cap & kd & Hx). simpl. sbind (spec_get_h' _ _ _ Hx). intros x s1 [-> ->]. cbn [m_parts]. sret.
  sbind spec_assert'. intros [] s1 [Hc ->]. pose proof (typed_hm_le _ _ _ _ _ _ (lwf_typed _ _ L _ _ Hx)) as Hle.
  sbind (adv_unchecked_lwf _ _ _ _ _ _ _ _ cnt L Hx). { lia. } intros x' s1 ([Hh1 Hn1] & L1 & _).
  sbind spec_put_h'. intros [] s2 ->. apply spec_ret.
  eapply wf_put_h; [by eapply hfresh_frame|by rewrite Hh1|by rewrite Hh1].
Qed.

(* ---- split_off / split_to on BytesMut: the handle is shallow-cloned and both halves shrink to a partition of its window ---- *)
(* the logical effect of m_shallow_clone followed by the window adjustments, for any partition (self', other') of the old window *)
Lemma m_split_lwf G s h t k ofs len cap kd so sl sc oo ol oc :
  LWF G s -> G !! h = Some (HM k ofs len cap kd) -> G !! t = None ->
  win_in ofs cap so sc -> win_in ofs cap oo oc -> sl <= sc -> ol <= oc -> (so + sc <= oo \/ oo + oc <= so) ->
  spec (m_shallow_clone (HM k ofs len cap kd)) s (fun r s1 => sframe s s1 /\ r = (HM k ofs len cap MArc, HM k ofs len cap MArc) /\
     LWF (<[t := HM k oo ol oc MArc]> (<[h := HM k so sl sc MArc]> G)) s1).
Proof.
  intros L Hx Ht Hws Hwo Hsl Hol Hdis. unfold m_shallow_clone. assert (t <> h) as Hne by (intros ->; congruence). destruct kd as [o|].
  - (* inline Vec: promote with count 2 *)
    unfold promote. eapply spec_bind with (Q1 := fun x' s1 => x' = HM k ofs len cap MArc /\ sframe s s1 /\ LWF (<[t := HM k oo ol oc MArc]> (<[h := HM k so sl sc MArc]> G)) s1).
    { eapply spec_bind.
      { eapply (promote_lwf G s h t k ofs len cap o 2 (HM k so sl sc MArc) (Some (HM k oo ol oc MArc)) L Hx Ht).
        - right. split; [done|]. eauto 10.
        - exists so, sl, sc. repeat split; try done; apply Hws. }
      intros [] s1 [Hfr L1]. sbind spec_emit'. intros [] s2 ->. apply spec_ret. done. }
    intros x' s1 (-> & Hfr & L1). apply spec_ret. done.
  - pose proof (lwf_typed _ _ L _ _ Hx) as (st & Hs & Hlv & Hcl & (o & rc & Hc) & Hbd & Hle). destruct Hws as [Hs1 Hs2]. destruct Hwo as [Ho1 Ho2].
    eapply spec_bind.
    { eapply (inc_rc_lwf G (<[t := HM k oo ol oc MArc]> (<[h := HM k so sl sc MArc]> G)) s k st L Hs Hlv).
      - by rewrite Hc.
      - intros h' y Hy. apply lookup_insert_Some in Hy as [[<- <-]|[? Hy]]; [|apply lookup_insert_Some in Hy as [[<- <-]|[? Hy]]; [|by eapply (lwf_typed _ _ L)]].
        + exists st. repeat split; try done; [eauto|lia].
        + exists st. repeat split; try done; [eauto|lia].
      - rewrite refs_insert_fresh by (by rewrite lookup_insert_ne). rewrite w_hold by done. by rewrite (refs_insert_same _ _ _ _ _ Hx).
      - intros k2 Hk2. rewrite refs_insert_fresh by (by rewrite lookup_insert_ne). rewrite w_nohold by (simpl; congruence). by rewrite (refs_insert_same _ _ _ _ _ Hx).
      - intros h1 h2 x1 x2 k0 o1 c1 o2 c2 Hn12 H1 H2 W1 W2. pose proof (lwf_disj _ _ L) as D.
        apply lookup_insert_Some in H1 as [[<- <-]|[? H1]]; apply lookup_insert_Some in H2 as [[<- <-]|[? H2]]; try done.
        + apply lookup_insert_Some in H2 as [[<- <-]|[? H2]].
          * injection W1 as <- <- <-. injection W2 as <- <-. lia.
          * injection W1 as <- <- <-. assert (ofs + cap <= o2 \/ o2 + c2 <= ofs) by (eapply (D h h2); eauto). lia.
        + apply lookup_insert_Some in H1 as [[<- <-]|[? H1]].
          * injection W1 as <- <- <-. injection W2 as <- <-. lia.
          * injection W2 as <- <- <-. assert (o1 + c1 <= ofs \/ ofs + cap <= o1) by (eapply (D h1 h); eauto). lia.
        + apply lookup_insert_Some in H1 as [[<- <-]|[? H1]]; apply lookup_insert_Some in H2 as [[<- <-]|[? H2]]; try done.
          * injection W1 as <- <- <-. assert (ofs + cap <= o2 \/ o2 + c2 <= ofs) by (eapply (D h h2); eauto). lia.
          * injection W2 as <- <- <-. assert (o1 + c1 <= ofs \/ ofs + cap <= o1) by (eapply (D h1 h); eauto). lia.
          * eapply (D h1 h2); eauto. }
    intros [] s1 [Hfr L1]. apply spec_ret. done.
Qed.

Lemma adv_unchecked_marc_spec s k o l c count : count <= c ->
  spec (adv_unchecked count (HM k o l c MArc)) s (fun x' s1 => s1 = s /\ x' = HM k (o + count) (l - count) (c - count) MArc).
Proof.
  intros Hc. unfold adv_unchecked. destruct (count =? 0) eqn:E0.
  - apply spec_ret. split; [done|]. f_equal; lia.
  - sbind spec_check'. { lia. } intros [] s1 ->. by apply spec_ret.
Qed.
Lemma wf_finish_put_new s s1 h x self' other' : hfresh s -> sframe s s1 -> hs s !! h = Some x ->
  LWF (<[next_h s := other']> (<[h := self']> (hs s))) s1 ->
  spec (put_h h self';; let! r := new_h other' in mret (RH r)) s1 (fun _ s2 => WF s2).
Proof.
  intros Hf [Hh1 Hn1] Hx L1. sbind spec_put_h'. intros [] s2 ->.
  eapply spec_bind; [eapply (wf_new_h _ _ (fun _ s3 => WF s3)); [| |done]|intros r s3 W3; by apply spec_ret].
  - intros h' [y Hy]. simpl in *. rewrite Hh1 in Hy. rewrite Hn1. destruct (decide (h' = h)) as [->|?]; [apply Hf; eauto|]. rewrite lookup_insert_ne in Hy by done. apply Hf; eauto.
  - simpl. rewrite Hh1, Hn1. by apply lwf_set_hs.
Qed.
Lemma wf_m_split_off s h at_ : WF s -> is_m s h -> spec (m_split_off h at_) s (fun _ s1 => WF s1).
Proof.
  intros [L Hf] (k & ofs & len & cap & kd & Hx). unfold m_split_off. sbind (spec_get_h' _ _ _ Hx). intros x s1 [-> ->]. cbn [m_parts]. sret.
  sbind spec_assert'. intros [] s1 [Hc ->]. pose proof (typed_hm_le _ _ _ _ _ _ (lwf_typed _ _ L _ _ Hx)) as Hle.
  sbind (m_split_lwf _ _ h (next_h s) _ _ _ _ _ ofs (N.min len at_) at_ (ofs + at_) (len - at_) (cap - at_) L Hx (hfresh_next _ Hf)); try (split; lia); try lia.
  intros [x1 other] s1 (Hfr & [= -> ->] & L1). cbn beta iota.
  sbind (adv_unchecked_marc_spec s1 k ofs len cap at_). { lia. } intros other' s2 [-> ->]. cbn [m_parts]. sret.
  by eapply (wf_finish_put_new s s1 h).
Qed.
Lemma wf_m_split_to s h at_ : WF s -> is_m s h -> spec (m_split_to h at_) s (fun _ s1 => WF s1).
Proof.
  intros [L Hf] (k & ofs & len & cap & kd & Hx). unfold m_split_to. sbind (spec_get_h' _ _ _ Hx). intros x s1 [-> ->]. cbn [m_parts]. sret.
  sbind spec_assert'. intros [] s1 [Hc ->]. pose proof (typed_hm_le _ _ _ _ _ _ (lwf_typed _ _ L _ _ Hx)) as Hle.
  sbind (m_split_lwf _ _ h (next_h s) _ _ _ _ _ (ofs + at_) (len - at_) (cap - at_) ofs at_ at_ L Hx (hfresh_next _ Hf)); try (split; lia); try lia.
  intros [x1 other] s1 (Hfr & [= -> ->] & L1). cbn beta iota.
  sbind (adv_unchecked_marc_spec s1 k ofs len cap at_). { lia. } intros x2 s2 [-> ->].
  sbind spec_put_h'. intros [] s2 ->. cbn [m_parts]. sret. destruct Hfr as [Hh1 Hn1].
  eapply spec_bind; [eapply (wf_new_h _ _ (fun _ s3 => WF s3)); [| |done]|intros r s3 W3; by apply spec_ret].
  - intros h' [y Hy]. simpl in *. rewrite Hh1 in Hy. rewrite Hn1. destruct (decide (h' = h)) as [->|?]; [apply Hf; eauto|]. rewrite lookup_insert_ne in Hy by done. apply Hf; eauto.
  - simpl. rewrite Hh1, Hn1. by apply lwf_set_hs.
Qed.
Lemma wf_OMSplitOff orc h a : wfstep orc (OMSplitOff h a). Proof. intros s W Hok. simpl. by apply wf_m_split_off. Qed.
Lemma wf_OMSplitTo orc h a : wfstep orc (OMSplitTo h a). Proof. intros s W Hok. simpl. by apply wf_m_split_to. Qed.
Lemma wf_OMSplit orc h : wfstep orc (OMSplit h).
Proof.
  intros s W Hok. pose proof Hok as (k & ofs & len & cap & kd & Hx). simpl. sbind (spec_get_h' _ _ _ Hx). intros x s1 [-> ->]. cbn [m_parts]. sret. by apply wf_m_split_to.
Qed.

(* ---- freeze ---- *)
Lemma m_freeze_rep_lwf G s h k ofs len cap kd : LWF G s -> G !! h = Some (HM k ofs len cap kd) ->
  spec (m_freeze_rep (HM k ofs len cap kd)) s (fun b s1 => sframe s s1 /\ LWF (<[h := b]> G) s1).
Proof.
  intros L Hx. pose proof (lwf_typed _ _ L _ _ Hx) as Hty. unfold m_freeze_rep. destruct kd as [o|]; simpl in Hty.
  - destruct Hty as (st & Hs & Hlv & Hcl & Hc & Hcap & Hle).
    assert (LWF (<[h := HV k (len + ofs) (cap + ofs)]> G) s) as L0.
    { eapply lwf_rehandle; [done|exact Hx|done| |done]. exists st. repeat split; try done; lia. }
    sbind (bytes_from_vec_lwf _ _ h _ _ _ L0 (lookup_insert _ _ _)). intros b s1 (Hfr & (ko & o' & l' & vt' & a' & -> & -> & ->) & Hb).
    sbind spec_assert'. intros [] s2 [_ ->]. apply spec_ret. split; [done|].
    destruct ((len + ofs =? cap + ofs) && (len + ofs =? 0)) eqn:E.
    + destruct Hb as [[= -> -> ->] ->]. assert (ofs = 0 /\ len = 0 /\ cap = 0) as (-> & -> & ->) by lia.
      assert (s_cls st = SDangling) as Hd. { destruct Hcl as [Hh|?]; [|done]. pose proof (lwf_st _ _ L _ _ Hs) as Hok. unfold st_ok in Hok. rewrite Hh in Hok. lia. }
      pose proof (lwf_forget_dangling _ _ h _ k st L0 (lookup_insert _ _ _) eq_refl Hs Hd Hc) as L1. rewrite delete_insert_delete in L1.
      rewrite <- (insert_delete_insert G). apply lwf_add_free; try done. apply lookup_delete.
    + rewrite insert_insert in Hb. rewrite <- (insert_insert G h (HB ko (0 + ofs) (len + ofs - ofs) vt' a') (HB ko 0 (len + ofs) vt' a')).
      pose proof (lwf_typed _ _ Hb h _ (lookup_insert _ _ _)) as Htb.
      eapply lwf_rehandle; [exact Hb|apply lookup_insert|done| |done]. apply typed_hb_adv; [done|lia].
  - destruct Hty as (st & Hs & Hlv & Hcl & (o & rc & Hc) & Hb & Hle). apply spec_ret. split; [done|].
    eapply lwf_rehandle; [done|exact Hx|done| |done]. exists st. repeat split; try done; [lia|eauto].
Qed.
Lemma wf_OMFreeze orc h : wfstep orc (OMFreeze h).
Proof.
  intros s [L Hf] (k & ofs & len & cap & kd & Hx). simpl. sbind (spec_get_h' _ _ _ Hx). intros x s1 [-> ->].
  sbind (m_freeze_rep_lwf _ _ _ _ _ _ _ _ L Hx). intros b s1 [Hfr L1]. by eapply (wf_finish_rekey s s1 h).
Qed.

(* ---- conversions: Bytes / BytesMut -> Vec / BytesMut ---- *)
Lemma lenN_rd d ofs len : lenN (rd d ofs len) <= len.
Proof. unfold rd. rewrite lenN_firstnN. lia. Qed.
Lemma copy_to_front_lwf G s k ofs len st : LWF G s -> sts s !! k = Some st -> s_live st = true -> heapish (s_cls st) -> ofs + len <= s_size st ->
  spec (copy_to_front k ofs len) s (fun _ s1 => sframe s s1 /\ LWF G s1).
Proof.
  intros L Hs Hl Hcl Hb. unfold copy_to_front. destruct ((len =? 0) || (ofs =? 0)) eqn:E; [by apply spec_ret|].
  eapply spec_bind with (Q1 := fun bs s1 => s1 = s /\ lenN bs <= len).
  { intros e. pose proof (mread_spec s k ofs len st Hs Hl Hb e) as H. pose proof (mread_ok k ofs len s e) as H2.
    destruct (mread k ofs len s e) as [bs s1 e1| |]; try done. split; [done|]. destruct (H2 bs s1 e1 eq_refl) as (x & Hx & _ & _ & -> & _); [lia|]. apply lenN_rd. }
  intros bs s1 [-> Hbs]. eapply mwrite_lwf; try done. lia.
Qed.
(* copy the window out into a fresh Vec, then give the reference back: the new handle (built by mk) replaces the old one *)
Lemma copy_out_lwf G s h t x k ofs len st (mk : positive -> N -> handle) :
  LWF G s -> G !! h = Some x -> G !! t = None -> holds x = Some k -> sts s !! k = Some st -> s_live st = true -> s_ctrl st <> CNone -> ofs + len <= s_size st ->
  (forall k' c, holds (mk k' c) = Some k' /\ mwin (mk k' c) = None) ->
  (forall sm k' st' c, sm !! k' = Some st' -> s_live st' = true -> s_ctrl st' = CNone -> s_size st' = c -> s_cls st' = (if c =? 0 then SDangling else SHeap) -> typed sm (mk k' c)) ->
  spec (let! bs := mread k ofs len in let! (k', c) := to_vec bs in release k;; mret (mk k' c)) s (fun v s1 => sframe s s1 /\ LWF (<[t := v]> (delete h G)) s1).
Proof.
  intros L Hx Ht Hh Hs Hl Hc Hb Hmk Hty. assert (t <> h) as Hne by (intros ->; congruence).
  sbind (mread_spec s k ofs len st Hs Hl Hb). intros bs s1 ->.
  unfold to_vec. eapply spec_bind with (Q1 := fun p s1 => alloc_post G s (lenN bs) p.1 s1 /\ p.2 = lenN bs).
  { sbind (alloc_buf_lwf _ s (lenN bs) bs L). intros k' s1 Hpost. apply spec_ret. by split. }
  intros [k' c] s1 [Hpost Hcc]. simpl in Hcc, Hpost. subst c. cbn beta iota. pose proof Hpost as (Hfr1 & st' & (Hn' & _) & Hs1 & _).
  assert (LWF (<[t := mk k' (lenN bs)]> G) s1) as L1.
  { destruct (Hmk k' (lenN bs)) as [Hh' Hw']. eapply alloc_token; try done. intros st2 ? ? ? ? ?. by eapply Hty. }
  assert (k' <> k) as Hkk by (intros ->; congruence).
  assert (sts s1 !! k = Some st) as Hs1k by (rewrite Hs1; by rewrite lookup_insert_ne).
  sbind (drop_token_release _ s1 h x k st L1). { by rewrite lookup_insert_ne. } { done. } { done. } { done. } { done. }
  intros [] s2 [Hfr2 L2]. apply spec_ret. split; [by eapply sframe_trans|]. by rewrite delete_insert_ne in L2.
Qed.
Lemma typed_fresh_hm' sm k' st' c : sm !! k' = Some st' -> s_live st' = true -> s_ctrl st' = CNone -> s_size st' = c -> s_cls st' = (if c =? 0 then SDangling else SHeap) -> typed sm (from_vec k' c c).
Proof. intros. unfold from_vec. eapply typed_fresh_hm; eauto; lia. Qed.
Lemma typed_fresh_hv' sm k' st' c : sm !! k' = Some st' -> s_live st' = true -> s_ctrl st' = CNone -> s_size st' = c -> s_cls st' = (if c =? 0 then SDangling else SHeap) -> typed sm (HV k' c c).
Proof. intros. eapply typed_fresh_hv; eauto; lia. Qed.
(* the same for a handle that holds nothing (static): no release *)
Lemma copy_static_lwf G s h t x (mk : positive -> N -> handle) :
  LWF G s -> G !! h = Some x -> G !! t = None -> holds x = None ->
  (forall k' c, holds (mk k' c) = Some k' /\ mwin (mk k' c) = None) ->
  (forall sm k' st' c, sm !! k' = Some st' -> s_live st' = true -> s_ctrl st' = CNone -> s_size st' = c -> s_cls st' = (if c =? 0 then SDangling else SHeap) -> typed sm (mk k' c)) ->
  spec (let! bs := bytes_contents x in let! (k', c) := to_vec bs in mret (mk k' c)) s (fun v s1 => sframe s s1 /\ LWF (<[t := v]> (delete h G)) s1).
Proof.
  intros L Hx Ht Hh Hmk Hty. assert (t <> h) as Hne by (intros ->; congruence).
  sbind (bytes_contents_spec _ _ _ _ L Hx). intros bs s1 ->.
  pose proof (lwf_del_free _ _ _ _ L Hx Hh) as L0.
  unfold to_vec. eapply spec_bind with (Q1 := fun p s1 => alloc_post (delete h G) s (lenN bs) p.1 s1 /\ p.2 = lenN bs).
  { sbind (alloc_buf_lwf _ s (lenN bs) bs L0). intros k' s1 Hpost. apply spec_ret. by split. }
  intros [k' c] s1 [Hpost Hcc]. simpl in Hcc, Hpost. subst c. cbn beta iota. pose proof Hpost as (Hfr1 & _). apply spec_ret. split; [done|].
  destruct (Hmk k' (lenN bs)) as [Hh' Hw']. eapply alloc_token; try done; [by rewrite lookup_delete_ne|]. intros st2 ? ? ? ? ?. by eapply Hty.
Qed.

(* the only holder replaces the control block (or removes it) and re-types its handle *)
Lemma sole_reshape_lwf G s h x k st c1 x' :
  LWF G s -> G !! h = Some x -> holds x = Some k -> refs G k = 1%nat -> sts s !! k = Some st -> holds x' = Some k -> mwin x' = None ->
  typed (<[k := with_ctrl c1 st]> (sts s)) x' -> st_ok (owners s) k (with_ctrl c1 st) 1 ->
  spec (put_st k (with_ctrl c1 st)) s (fun _ s1 => sframe s s1 /\ LWF (<[h := x']> G) s1).
Proof.
  intros L Hx Hh Hn Hs Hh' Hw Hty Hok. eapply (put_ctrl_lwf G _ s k st c1 L Hs).
  - intros h' y Hy. apply lookup_insert_Some in Hy as [[<- <-]|[Hne Hy]]; [done|].
    eapply typed_upd_nothold; [exact Hs|by eapply typed_holds_nonstatic; [eapply (lwf_typed _ _ L); exact Hx|exact Hh|exact Hs]| |by eapply (lwf_typed _ _ L)].
    eapply (refs_one_other G h); eauto.
  - rewrite (refs_insert_same _ _ _ _ _ Hx) by congruence. by rewrite Hn.
  - intros k2 Hk2. rewrite (refs_insert_same _ _ _ _ _ Hx); [done|congruence].
  - apply disj_insert_nowin; [done|apply (lwf_disj _ _ L)].
Qed.
Lemma refs_of_rc1 G s k st : LWF G s -> sts s !! k = Some st -> s_live st = true ->
  (exists cap, s_ctrl st = CShared cap 1) \/ (exists v o, s_ctrl st = CSharedV v o 1) -> refs G k = 1%nat.
Proof.
  intros L Hs Hl Hc. pose proof (lwf_st _ _ L _ _ Hs) as Hok. unfold st_ok in Hok. rewrite Hl in Hok.
  destruct Hc as [[cap Hc]|(v & o & Hc)]; rewrite Hc in Hok; destruct (s_cls st); try (exfalso; clear -Hok; naive_solver); destruct_and!; lia.
Qed.
(* mem::replace(&mut shared.vec, Vec::new()); release_shared(shared): the unique holder takes the Vec out of the control block *)
Lemma take_vec_out_lwf G s h x k st vcap o x' :
  LWF G s -> G !! h = Some x -> holds x = Some k -> sts s !! k = Some st -> s_live st = true -> s_ctrl st = CSharedV vcap o 1 ->
  holds x' = Some k -> mwin x' = None -> typed (<[k := with_ctrl CNone st]> (sts s)) x' ->
  spec (put_st k (with_ctrl (CSharedVEmpty o 1) st);; release k) s (fun _ s1 => sframe s s1 /\ LWF (<[h := x']> G) s1).
Proof.
  intros L Hx Hh Hs Hl Hc Hh' Hw Hty. pose proof (refs_of_rc1 _ _ _ _ L Hs Hl (or_intror (ex_intro _ vcap (ex_intro _ o Hc)))) as Hn.
  sbind spec_put_st'. intros [] s1 ->. unfold release.
  eapply spec_bind; [eapply spec_get_st'; simpl; apply lookup_insert|]. intros y s1 [-> ->]. cbn [with_ctrl s_ctrl].
  sbind spec_check'. { done. } intros [] s1 ->. change (1 =? 1) with true. cbn iota.
  sbind spec_put_st'. intros [] s1 ->. apply spec_emit. split; [done|].
  unfold set_sts. cbn [sts hs owners next_real next_pseudo next_h next_o odd_mode]. rewrite insert_insert.
  assert (with_ctrl CNone (with_ctrl (CSharedVEmpty o 1) st) = with_ctrl CNone st) as -> by done.
  pose proof (lwf_st _ _ L _ _ Hs) as Hok.
  eapply lwf_step1; try exact L; try exact Hs; try reflexivity.
  - intros h' y Hy. simpl. apply lookup_insert_Some in Hy as [[<- <-]|[Hne Hy]]; [done|].
    eapply typed_upd_nothold; [exact Hs|by eapply typed_holds_nonstatic; [eapply (lwf_typed _ _ L); exact Hx|exact Hh|exact Hs]| |by eapply (lwf_typed _ _ L)].
    eapply (refs_one_other G h); eauto.
  - rewrite (refs_insert_same _ _ _ _ _ Hx) by congruence. rewrite Hn. unfold st_ok in *. simpl. rewrite Hl, Hc in *.
    destruct (s_cls st); try (exfalso; clear -Hok; naive_solver); destruct_and!; repeat split; try done; lia.
  - intros k2 Hk2. rewrite (refs_insert_same _ _ _ _ _ Hx); [done|congruence].
  - apply disj_insert_nowin; [done|apply (lwf_disj _ _ L)].
Qed.

Lemma spec_assoc {A B C} (m : M A) (f : A -> M B) (g : B -> M C) s Q : spec (mbind (mbind m f) g) s Q -> spec (mbind m (fun a => mbind (f a) g)) s Q.
Proof. intros H e. specialize (H e). unfold mbind in *. destruct (m s e); done. Qed.
Definition conv_post (G : hmap) (s : hst) (h t : hid) (v : handle) (s1 : hst) : Prop := sframe s s1 /\ LWF (<[t := v]> (delete h G)) s1.
Lemma conv_inplace G s s1 h t v : G !! t = None -> sframe s s1 -> LWF (<[h := v]> G) s1 -> conv_post G s h t v s1.
Proof.
  intros Ht Hfr L1. split; [done|]. assert (t <> h \/ t = h) as [Hne| ->] by (destruct (decide (t = h)); auto).
  - rewrite <- (delete_insert_delete G h v). eapply lwf_rekey; [exact L1|apply lookup_insert|by rewrite lookup_insert_ne].
  - by rewrite insert_delete_insert.
Qed.
Lemma m_into_vec_rep_lwf G s h t k ofs len cap kd : LWF G s -> G !! h = Some (HM k ofs len cap kd) -> G !! t = None ->
  spec (m_into_vec_rep (HM k ofs len cap kd)) s (conv_post G s h t).
Proof.
  intros L Hx Ht. pose proof (lwf_typed _ _ L _ _ Hx) as Hty. unfold m_into_vec_rep. destruct kd as [o|]; simpl in Hty.
  - destruct Hty as (st & Hs & Hlv & Hcl & Hc & Hcap & Hle).
    sbind (copy_to_front_lwf _ _ k ofs len st L Hs Hlv Hcl). { lia. } intros [] s1 [Hfr L1]. apply spec_ret.
    apply conv_inplace; [done|done|]. eapply lwf_rehandle; [done|exact Hx|done| |done].
    destruct Hfr as [_ _]. pose proof (lwf_typed _ _ L1 _ _ Hx) as (st1 & Hs1 & Hlv1 & Hcl1 & Hc1 & Hcap1 & Hle1). exists st1. repeat split; try done; lia.
  - destruct Hty as (st & Hs & Hlv & Hcl & (o & rc & Hc) & Hb & Hle).
    sbind (spec_get_st' _ _ _ Hs). intros y s1 [-> ->]. rewrite Hc. destruct (rc =? 1) eqn:E1.
    + assert (rc = 1) as -> by lia.
      apply spec_assoc. eapply spec_bind.
      { eapply (take_vec_out_lwf G s h _ k st (s_size st) o (HV k len (s_size st)) L Hx eq_refl Hs Hlv Hc eq_refl eq_refl).
        exists (with_ctrl CNone st). rewrite lookup_insert. simpl. repeat split; try done. lia. }
      intros [] s1 [Hfr L1].
      pose proof (lwf_typed _ _ L1 h _ (lookup_insert _ _ _)) as (st1 & Hs1 & Hlv1 & Hcl1 & Hc1 & Hcap1 & Hle1).
      sbind (copy_to_front_lwf _ _ k ofs len st1 L1 Hs1 Hlv1 Hcl1). { lia. } intros [] s2 [Hfr2 L2]. apply spec_ret.
      apply conv_inplace; [done|by eapply sframe_trans|done].
    + eapply (copy_out_lwf G s h t _ k ofs len st (fun k' c => HV k' c c) L Hx Ht eq_refl Hs Hlv); try done; [by rewrite Hc|lia|].
      intros. by eapply typed_fresh_hv'.
Qed.
Lemma wf_finish_conv s s1 h t x v : hfresh s -> hs s !! h = Some x -> t = next_h s -> conv_post (hs s) s h t v s1 ->
  spec (del_h h;; let! r := new_h v in mret (RH r)) s1 (fun _ s2 => WF s2).
Proof.
  intros Hf Hx -> [[Hh1 Hn1] L1]. sbind spec_del_h'. intros [] s2 ->.
  eapply spec_bind; [eapply (wf_new_h _ _ (fun _ s3 => WF s3)); [| |done]|intros r s3 W3; by apply spec_ret].
  - intros h' [y Hy]. simpl in *. rewrite Hh1 in Hy. rewrite Hn1. apply lookup_delete_Some in Hy as [? Hy]. apply Hf; eauto.
  - simpl. rewrite Hh1, Hn1. by apply lwf_set_hs.
Qed.
Lemma wf_OMIntoVec orc h : wfstep orc (OMIntoVec h).
Proof.
  intros s [L Hf] (k & ofs & len & cap & kd & Hx). simpl. sbind (spec_get_h' _ _ _ Hx). intros x s1 [-> ->].
  sbind (m_into_vec_rep_lwf _ _ h (next_h s) _ _ _ _ _ L Hx (hfresh_next _ Hf)). intros v s1 Hpost. by eapply (wf_finish_conv s s1 h (next_h s)).
Qed.

Lemma st_ok_cnone_heap om k st : s_cls st = SHeap -> s_live st = true -> s_size st <> 0 -> st_ok om k (with_ctrl CNone st) 1.
Proof. intros Hc Hl Hz. unfold st_ok. simpl. rewrite Hc, Hl. done. Qed.
Lemma shared_to_vec_lwf G s h t x k ofs len st rc : LWF G s -> G !! h = Some x -> G !! t = None -> holds x = Some k ->
  sts s !! k = Some st -> s_live st = true -> s_cls st = SHeap -> s_ctrl st = CShared (s_size st) rc -> ofs + len <= s_size st ->
  spec (shared_to_vec k ofs len) s (conv_post G s h t).
Proof.
  intros L Hx Ht Hh Hs Hl Hcl Hc Hb. unfold shared_to_vec. sbind (spec_get_st' _ _ _ Hs). intros y s1 [-> ->]. rewrite Hc.
  pose proof (lwf_st _ _ L _ _ Hs) as Hok. unfold st_ok in Hok. rewrite Hcl in Hok. destruct Hok as [Hnz _].
  destruct (rc =? 1) eqn:E1.
  - assert (rc = 1) as -> by lia. pose proof (refs_of_rc1 _ _ _ _ L Hs Hl (or_introl (ex_intro _ _ Hc))) as Hn.
    eapply spec_bind.
    { eapply (sole_reshape_lwf G s h x k st CNone (HV k len (s_size st)) L Hx Hh Hn Hs eq_refl eq_refl).
      - exists (with_ctrl CNone st). rewrite lookup_insert. simpl. rewrite Hcl. repeat split; try done; [by left|lia].
      - by apply st_ok_cnone_heap. }
    intros [] s1 [Hfr L1]. sbind spec_emit'. intros [] s2 ->.
    pose proof (lwf_typed _ _ L1 h _ (lookup_insert _ _ _)) as (st1 & Hs1 & Hlv1 & Hcl1 & Hc1 & Hcap1 & Hle1).
    sbind (copy_to_front_lwf _ _ k ofs len st1 L1 Hs1 Hlv1 Hcl1). { lia. } intros [] s2 [Hfr2 L2]. apply spec_ret.
    apply conv_inplace; [done|by eapply sframe_trans|done].
  - eapply (copy_out_lwf G s h t _ k ofs len st (fun k' c => HV k' c c) L Hx Ht Hh Hs Hl); try done; [by rewrite Hc|]. intros. by eapply typed_fresh_hv'.
Qed.
Lemma shared_to_mut_lwf G s h t x k ofs len st rc : LWF G s -> G !! h = Some x -> G !! t = None -> holds x = Some k ->
  sts s !! k = Some st -> s_live st = true -> s_cls st = SHeap -> s_ctrl st = CShared (s_size st) rc -> ofs + len <= s_size st ->
  spec (shared_to_mut k ofs len) s (conv_post G s h t).
Proof.
  intros L Hx Ht Hh Hs Hl Hcl Hc Hb. unfold shared_to_mut. sbind (spec_get_st' _ _ _ Hs). intros y s1 [-> ->]. rewrite Hc.
  pose proof (lwf_st _ _ L _ _ Hs) as Hok. unfold st_ok in Hok. rewrite Hcl in Hok. destruct Hok as [Hnz _].
  destruct (rc =? 1) eqn:E1.
  - assert (rc = 1) as -> by lia. pose proof (refs_of_rc1 _ _ _ _ L Hs Hl (or_introl (ex_intro _ _ Hc))) as Hn.
    eapply spec_bind.
    { eapply (sole_reshape_lwf G s h x k st CNone (from_vec k (len + ofs) (s_size st)) L Hx Hh Hn Hs eq_refl eq_refl).
      - exists (with_ctrl CNone st). rewrite lookup_insert. simpl. rewrite Hcl. repeat split; try done; [by left|lia|lia].
      - by apply st_ok_cnone_heap. }
    intros [] s1 [Hfr L1]. sbind spec_emit'. intros [] s2 ->.
    unfold from_vec in *. eapply spec_mono; [eapply (adv_unchecked_lwf _ _ h _ _ _ _ _ ofs L1 (lookup_insert _ _ _)); lia|]. intros x' s2 (Hfr2 & L2 & _).
    rewrite insert_insert in L2. apply conv_inplace; [done|by eapply sframe_trans|done].
  - eapply (copy_out_lwf G s h t _ k ofs len st (fun k' c => from_vec k' c c) L Hx Ht Hh Hs Hl); try done; [by rewrite Hc|]. intros. by eapply typed_fresh_hm'.
Qed.

Lemma bytes_into_vec_rep_lwf G s h t ko ofs len vt arc : LWF G s -> G !! h = Some (HB ko ofs len vt arc) -> G !! t = None ->
  spec (bytes_into_vec_rep (HB ko ofs len vt arc)) s (conv_post G s h t).
Proof.
  intros L Hx Ht. pose proof (lwf_typed _ _ L _ _ Hx) as Hty. unfold bytes_into_vec_rep.
  destruct vt; destruct ko as [k|]; simpl in Hty; try (by destruct Hty as [_ ?]).
  - eapply (copy_static_lwf G s h t _ (fun k' c => HV k' c c) L Hx Ht eq_refl); [done|]. intros. by eapply typed_fresh_hv'.
  - eapply (copy_static_lwf G s h t _ (fun k' c => HV k' c c) L Hx Ht eq_refl); [done|]. intros. by eapply typed_fresh_hv'.
  - destruct Hty as (st & Hs & Hl & Hb & Hcl & rc & o & Hc).
    eapply (copy_out_lwf G s h t _ k ofs len st (fun k' c => HV k' c c) L Hx Ht eq_refl Hs Hl); try done; [by rewrite Hc|]. intros. by eapply typed_fresh_hv'.
  - destruct Hty as (st & Hs & Hl & Hb & Hcl & Hk). destruct arc.
    + destruct Hk as [rc Hc]. by eapply (shared_to_vec_lwf G s h t _ k ofs len st rc L Hx Ht).
    + destruct Hk as [Hc He]. sbind (copy_to_front_lwf _ _ k ofs len st L Hs Hl (or_introl Hcl) Hb). intros [] s1 [Hfr L1]. apply spec_ret.
      apply conv_inplace; [done|done|]. eapply lwf_rehandle; [done|exact Hx|done| |done].
      pose proof (lwf_typed _ _ L1 _ _ Hx) as (st1 & Hs1 & Hl1 & Hb1 & Hcl1 & Hc1 & He1). exists st1. repeat split; try done; [by left|lia].
  - destruct Hty as (st & Hs & Hl & Hb & Hcl & Hk). destruct arc.
    + destruct Hk as [rc Hc]. by eapply (shared_to_vec_lwf G s h t _ k ofs len st rc L Hx Ht).
    + destruct Hk as [Hc He]. sbind (copy_to_front_lwf _ _ k ofs len st L Hs Hl (or_introl Hcl) Hb). intros [] s1 [Hfr L1]. apply spec_ret.
      apply conv_inplace; [done|done|]. eapply lwf_rehandle; [done|exact Hx|done| |done].
      pose proof (lwf_typed _ _ L1 _ _ Hx) as (st1 & Hs1 & Hl1 & Hb1 & Hcl1 & Hc1 & He1). exists st1. repeat split; try done; [by left|lia].
  - destruct Hty as (st & Hs & Hl & Hb & Hcl & rc & Hc). by eapply (shared_to_vec_lwf G s h t _ k ofs len st rc L Hx Ht).
  - destruct Hty as (st & Hs & Hl & Hb & Hcl & o & rc & Hc).
    sbind (spec_get_st' _ _ _ Hs). intros y s1 [-> ->]. rewrite Hc. destruct (rc =? 1) eqn:E1.
    + assert (rc = 1) as -> by lia. apply spec_assoc. eapply spec_bind.
      { eapply (take_vec_out_lwf G s h _ k st (s_size st) o (HV k len (s_size st)) L Hx eq_refl Hs Hl Hc eq_refl eq_refl).
        exists (with_ctrl CNone st). rewrite lookup_insert. simpl. repeat split; try done. lia. }
      intros [] s1 [Hfr L1].
      pose proof (lwf_typed _ _ L1 h _ (lookup_insert _ _ _)) as (st1 & Hs1 & Hlv1 & Hcl1 & Hc1 & Hcap1 & Hle1).
      sbind (copy_to_front_lwf _ _ k ofs len st1 L1 Hs1 Hlv1 Hcl1). { lia. } intros [] s2 [Hfr2 L2]. apply spec_ret.
      apply conv_inplace; [done|by eapply sframe_trans|done].
    + eapply (copy_out_lwf G s h t _ k ofs len st (fun k' c => HV k' c c) L Hx Ht eq_refl Hs Hl); try done; [by rewrite Hc|]. intros. by eapply typed_fresh_hv'.
Qed.
Lemma bytes_into_mut_rep_lwf G s h t ko ofs len vt arc : LWF G s -> G !! h = Some (HB ko ofs len vt arc) -> G !! t = None ->
  spec (bytes_into_mut_rep (HB ko ofs len vt arc)) s (conv_post G s h t).
Proof.
  intros L Hx Ht. pose proof (lwf_typed _ _ L _ _ Hx) as Hty. unfold bytes_into_mut_rep.
  destruct vt; destruct ko as [k|]; simpl in Hty; try (by destruct Hty as [_ ?]).
  - eapply (copy_static_lwf G s h t _ (fun k' c => from_vec k' c c) L Hx Ht eq_refl); [done|]. intros. by eapply typed_fresh_hm'.
  - eapply (copy_static_lwf G s h t _ (fun k' c => from_vec k' c c) L Hx Ht eq_refl); [done|]. intros. by eapply typed_fresh_hm'.
  - destruct Hty as (st & Hs & Hl & Hb & Hcl & rc & o & Hc).
    eapply (copy_out_lwf G s h t _ k ofs len st (fun k' c => from_vec k' c c) L Hx Ht eq_refl Hs Hl); try done; [by rewrite Hc|]. intros. by eapply typed_fresh_hm'.
  - destruct Hty as (st & Hs & Hl & Hb & Hcl & Hk). destruct arc.
    + destruct Hk as [rc Hc]. by eapply (shared_to_mut_lwf G s h t _ k ofs len st rc L Hx Ht).
    + destruct Hk as [Hc He].
      assert (LWF (<[h := HM k 0 (ofs + len) (ofs + len) (MVec (ocr_to_repr (ofs + len)))]> G) s) as L0.
      { eapply lwf_rehandle; [done|exact Hx|done| |done]. exists st. repeat split; try done; [by left|lia]. }
      unfold from_vec. eapply spec_mono; [eapply (adv_unchecked_lwf _ _ h _ _ _ _ _ ofs L0 (lookup_insert _ _ _)); lia|]. intros x' s2 (Hfr2 & L2 & _).
      rewrite insert_insert in L2. by apply conv_inplace.
  - destruct Hty as (st & Hs & Hl & Hb & Hcl & Hk). destruct arc.
    + destruct Hk as [rc Hc]. by eapply (shared_to_mut_lwf G s h t _ k ofs len st rc L Hx Ht).
    + destruct Hk as [Hc He].
      assert (LWF (<[h := HM k 0 (ofs + len) (ofs + len) (MVec (ocr_to_repr (ofs + len)))]> G) s) as L0.
      { eapply lwf_rehandle; [done|exact Hx|done| |done]. exists st. repeat split; try done; [by left|lia]. }
      unfold from_vec. eapply spec_mono; [eapply (adv_unchecked_lwf _ _ h _ _ _ _ _ ofs L0 (lookup_insert _ _ _)); lia|]. intros x' s2 (Hfr2 & L2 & _).
      rewrite insert_insert in L2. by apply conv_inplace.
  - destruct Hty as (st & Hs & Hl & Hb & Hcl & rc & Hc). by eapply (shared_to_mut_lwf G s h t _ k ofs len st rc L Hx Ht).
  - destruct Hty as (st & Hs & Hl & Hb & Hcl & o & rc & Hc).
    sbind (spec_get_st' _ _ _ Hs). intros y s1 [-> ->]. rewrite Hc. destruct (rc =? 1) eqn:E1.
    + apply spec_ret. apply conv_inplace; [done|done|].
      (* the unique frozen BytesMut becomes a BytesMut again, over the rest of the allocation *)
      eapply lwf_step0; [exact L| | |].
      * intros h' y Hy. apply lookup_insert_Some in Hy as [[<- <-]|[? Hy]]; [|by eapply (lwf_typed _ _ L)]. exists st. repeat split; try done; [eauto|lia|lia].
      * intros k2. by eapply refs_insert_same.
      * assert (rc = 1) as -> by lia. pose proof (refs_of_rc1 _ _ _ _ L Hs Hl (or_intror (ex_intro _ _ (ex_intro _ _ Hc)))) as Hn.
        intros h1 h2 x1 x2 k0 o1 c1 o2 c2 Hn12 H1 H2 W1 W2. pose proof (lwf_disj _ _ L) as D.
        apply lookup_insert_Some in H1 as [[<- <-]|[? H1]]; apply lookup_insert_Some in H2 as [[<- <-]|[? H2]]; try done.
        -- exfalso. injection W1 as <- _ _. eapply (refs_one_other G h _ k h2 x2 Hn Hx eq_refl H2); [congruence|]. destruct x2 as [| ? ? ? ? []|]; simpl in W2; try done. by injection W2 as -> _ _.
        -- exfalso. injection W2 as <- _ _. eapply (refs_one_other G h _ k h1 x1 Hn Hx eq_refl H1); [congruence|]. destruct x1 as [| ? ? ? ? []|]; simpl in W1; try done. by injection W1 as -> _ _.
        -- eapply (D h1 h2); eauto.
    + eapply (copy_out_lwf G s h t _ k ofs len st (fun k' c => from_vec k' c c) L Hx Ht eq_refl Hs Hl); try done; [by rewrite Hc|]. intros. by eapply typed_fresh_hm'.
Qed.
Lemma wf_OBIntoVec orc h : wfstep orc (OBIntoVec h).
Proof.
  intros s [L Hf] (ko & ofs & len & vt & arc & Hx). simpl. sbind (spec_get_h' _ _ _ Hx). intros x s1 [-> ->].
  sbind (bytes_into_vec_rep_lwf _ _ h (next_h s) _ _ _ _ _ L Hx (hfresh_next _ Hf)). intros v s1 Hpost. by eapply (wf_finish_conv s s1 h (next_h s)).
Qed.
Lemma wf_OBIntoMut orc h : wfstep orc (OBIntoMut h).
Proof.
  intros s [L Hf] (ko & ofs & len & vt & arc & Hx). simpl. sbind (spec_get_h' _ _ _ Hx). intros x s1 [-> ->].
  sbind (bytes_into_mut_rep_lwf _ _ h (next_h s) _ _ _ _ _ L Hx (hfresh_next _ Hf)). intros v s1 Hpost. by eapply (wf_finish_conv s s1 h (next_h s)).
Qed.
Lemma wf_OBTryIntoMut orc h : wfstep orc (OBTryIntoMut h).
Proof.
  intros s [L Hf] (ko & ofs & len & vt & arc & Hx). simpl. sbind (spec_get_h' _ _ _ Hx). intros x s1 [-> ->].
  sbind (bytes_is_unique_spec _ _ _ _ _ _ _ _ L Hx). intros b s1 ->. destruct b; [|by apply spec_ret].
  sbind (bytes_into_mut_rep_lwf _ _ h (next_h s) _ _ _ _ _ L Hx (hfresh_next _ Hf)). intros v s1 Hpost. by eapply (wf_finish_conv s s1 h (next_h s)).
Qed.

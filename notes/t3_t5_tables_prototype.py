#!/usr/bin/env python3
# prototypes of translators T3 (getter/putter tables, forwarded-method lists) and T5 (comparison impl headers); design validation only
import re, json
def strip(src): return re.sub(r'//[^\n]*', '', src)
def body_at(src, i):
    depth = 0; j = i
    while True:
        c = src[j]
        if c == '{': depth += 1
        elif c == '}':
            depth -= 1
            if depth == 0: return src[i:j+1]
        j += 1
def trait_block(src, header):
    m = re.search(header, src); return body_at(src, src.index('{', m.end() - 1))
bi = strip(open('/repo/src/buf/buf_impl.rs').read()); bm = strip(open('/repo/src/buf/buf_mut.rs').read())
buf = trait_block(bi, r'pub trait Buf\s*\{'); bufmut = trait_block(bm, r'pub unsafe trait BufMut\s*\{')
def methods(block, pat):
    out = {}
    for m in re.finditer(r'fn\s+(' + pat + r')\s*(?:<[^>]*>)?\s*\(([^)]*)\)[^{;]*\{', block):
        b = body_at(block, m.end() - 1); b1 = ' '.join(b.split())
        out[m.group(1)] = b1[1:-1].strip()
    return out
def classify_get(name, body):
    m = re.search(r'buf_(try_)?get_impl!\(\s*(be|le)\s*=>\s*self\s*,\s*(\w+)\s*,\s*(\w+)\s*\)', body)
    if m: return ['var', m.group(2), m.group(3), 'try' if m.group(1) else 'get']
    m = re.search(r'buf_(try_)?get_impl!\(\s*self\s*,\s*(\w+)::from_(be|le|ne)_bytes\s*\)', body)
    if m: return ['fixed', m.group(3), m.group(2), 'try' if m.group(1) else 'get']
    m = re.search(r'sign_extend\(self\.(\w+)\(nbytes\), nbytes\)', body)
    if m: return ['sign_extend_of', m.group(1)]
    m = re.search(r'(f32|f64)::from_bits\(self\.(\w+)\(\)\??\)', body)
    if m: return ['from_bits_of', m.group(2)]
    m = re.search(r'cfg!\(target_endian = "big"\)\s*\{\s*self\.(\w+)\(nbytes\)\s*\}\s*else\s*\{\s*self\.(\w+)\(nbytes\)', body)
    if m: return ['ne_dispatch', m.group(1), m.group(2)]
    return ['hand', body[:60]]
gets = {n: classify_get(n, b) for n, b in methods(buf, r'(?:try_)?get_\w+').items()}
def classify_put(name, body):
    m = re.search(r'self\.put_slice\(&n\.to_(be|le|ne)_bytes\(\)\)', body)
    if m: return ['fixed', m.group(1)]
    m = re.search(r'self\.put_(\w+)\(n\.to_bits\(\)\)', body)
    if m: return ['to_bits_then', 'put_' + m.group(1)]
    if 'to_be_bytes()[start..]' in body: return ['var', 'be']
    if 'n.to_le_bytes()' in body and '.get(..nbytes)' in body: return ['var', 'le']
    m = re.search(r'cfg!\(target_endian = "big"\)\s*\{\s*self\.(\w+)\(n, nbytes\)\s*\}\s*else\s*\{\s*self\.(\w+)\(n, nbytes\)', body)
    if m: return ['ne_dispatch', m.group(1), m.group(2)]
    return ['hand', body[:60]]
puts = {n: classify_put(n, b) for n, b in methods(bufmut, r'put_\w+').items()}
fwd_buf = re.findall(r'fn\s+(\w+)', body_at(bi, bi.index('{', re.search(r'macro_rules! deref_forward_buf\s*', bi).end())))
fwd_mut = re.findall(r'fn\s+(\w+)', body_at(bm, bm.index('{', re.search(r'macro_rules! deref_forward_bufmut\s*', bm).end())))
print('getters', len(gets), 'hand-classified:', [n for n, c in gets.items() if c[0] == 'hand'])
print('putters', len(puts), 'hand-classified:', [n for n, c in puts.items() if c[0] == 'hand'])
for n in ['get_u16_le', 'try_get_i64_ne', 'get_int', 'try_get_int', 'get_uint_ne', 'try_get_f32_le', 'put_i16', 'put_int_le', 'put_f64_ne', 'put_uint_ne']: print('  ', n, (gets.get(n) or puts.get(n)))
all_buf = set(re.findall(r'fn\s+(\w+)', buf)); all_mut = set(re.findall(r'fn\s+(\w+)', bufmut))
print('Buf methods not forwarded by deref_forward_buf:', sorted(all_buf - set(fwd_buf)))
print('BufMut methods not forwarded by deref_forward_bufmut:', sorted(all_mut - set(fwd_mut)))
# T5
impls = []
for f in ['/repo/src/bytes.rs', '/repo/src/bytes_mut.rs']:
    src = strip(open(f).read())
    for m in re.finditer(r'impl(?:<[^>]*>)?\s+((?:hash::)?(?:PartialEq|PartialOrd|Ord|Eq|Hash|Borrow|BorrowMut))(?:<([^>]*)>)?\s+for\s+([^\s{]+(?:\s*<[^>]*>)?)', src):
        impls.append((m.group(1), m.group(2), m.group(3).strip(), f.split('/')[-1]))
print('comparison-family impls:', len(impls)); print('  e.g.', impls[:4], '...', [i for i in impls if i[2] in ('Vec<u8>', '&str') and 'BytesMut' in (i[1] or '')])

(* Feasibility probe for M2 (storage-centric heap model): BytesMut split_to / write into spare capacity / drop. *)
From stdpp Require Import gmap list sets.
From Coq Require Import NArith Lia ZifyN ZifyNat.
From M2 Require Import W.
Local Open Scope N_scope.

Notation sid := positive (only parsing).
Notation hid := positive (only parsing).
Inductive ctrl := CNone | CSharedV (cap cnt : N).
Record storage := { s_size : N; s_data : list byte; s_live : bool; s_ctrl : ctrl; s_owners : gset hid }.
Inductive handle :=
| HMut (k : sid) (ofs len cap : N) (arc : bool)
| HBytes (k : sid) (ofs len : N).
Record hstate := { sts : gmap sid storage; hs : gmap hid handle; next_s : positive; next_h : positive }.

Definition h_sid (hd : handle) : sid := match hd with HMut k _ _ _ _ | HBytes k _ _ => k end.
Definition h_ofs (hd : handle) : N := match hd with HMut _ o _ _ _ | HBytes _ o _ => o end.
Definition h_len (hd : handle) : N := match hd with HMut _ _ l _ _ | HBytes _ _ l => l end.
Definition h_win (hd : handle) : N := match hd with HMut _ _ _ c _ => c | HBytes _ _ l => l end.   (* exclusive / visible window *)
Definition is_mut (hd : handle) : bool := match hd with HMut _ _ _ _ _ => true | _ => false end.

Inductive res := Ok (s : hstate) | Panic (s : hstate) | UB | Stuck.

Definition set_st (s : hstate) (k : sid) (st : storage) : hstate :=
  {| sts := <[k := st]> (sts s); hs := hs s; next_s := next_s s; next_h := next_h s |}.

(* BytesMut::from(&[u8]) with extra capacity: one fresh storage, held directly (inline-Vec form) *)
Definition op_new (s : hstate) (bs : list byte) (extra : N) : res :=
  let k := next_s s in let h := next_h s in
  let size := lenN bs + extra in
  Ok {| sts := <[k := {| s_size := size; s_data := bs ++ repeat 0 (N.to_nat extra); s_live := true;
                         s_ctrl := CNone; s_owners := {[h]} |}]> (sts s);
        hs := <[h := HMut k 0 (lenN bs) size false]> (hs s);
        next_s := (k + 1)%positive; next_h := (h + 1)%positive |}.

(* BytesMut::split_to(at): shallow_clone (promote_to_shared(2) or increment_shared) + advance_unchecked *)
Definition op_split_to (s : hstate) (h : hid) (at_ : N) : res :=
  match hs s !! h with
  | Some (HMut k ofs len cap arc) =>
      if len <? at_ then Panic s else
      match sts s !! k with
      | Some st =>
          if negb (s_live st) then UB else
          let h' := next_h s in
          let ctrl' := match s_ctrl st, arc with
                       | CSharedV c n, true => Some (CSharedV c (n + 1))
                       | CNone, false => Some (CSharedV (ofs + cap) 2)      (* rebuild_vec: capacity = off + cap *)
                       | _, _ => None end in
          match ctrl' with
          | None => UB
          | Some c' =>
            let st' := {| s_size := s_size st; s_data := s_data st; s_live := true; s_ctrl := c'; s_owners := {[h']} ∪ s_owners st |} in
            Ok {| sts := <[k := st']> (sts s);
                  hs := <[h := HMut k (ofs + at_) (len - at_) (cap - at_) true]> (<[h' := HMut k ofs at_ at_ true]> (hs s));
                  next_s := next_s s; next_h := (h' + 1)%positive |}
          end
      | None => UB
      end
  | _ => Stuck
  end.

(* extend_from_slice when the bytes fit the spare capacity (reserve returns immediately) *)
Definition op_write_spare (s : hstate) (h : hid) (bs : list byte) : res :=
  match hs s !! h with
  | Some (HMut k ofs len cap arc) =>
      if cap - len <? lenN bs then Stuck (* would call reserve_inner: outside this probe *) else
      match sts s !! k with
      | Some st =>
          if negb (s_live st) || (s_size st <? ofs + len + lenN bs) then UB else
          let st' := {| s_size := s_size st; s_data := wr (s_data st) (ofs + len) bs; s_live := true;
                        s_ctrl := s_ctrl st; s_owners := s_owners st |} in
          Ok {| sts := <[k := st']> (sts s); hs := <[h := HMut k ofs (len + lenN bs) cap arc]> (hs s);
                next_s := next_s s; next_h := next_h s |}
      | None => UB
      end
  | _ => Stuck
  end.

(* Drop for BytesMut / Bytes *)
Definition op_drop (s : hstate) (h : hid) : res :=
  match hs s !! h with
  | Some hd =>
      let k := h_sid hd in
      match sts s !! k with
      | Some st =>
          if negb (s_live st) then UB else
          let dead := {| s_size := s_size st; s_data := s_data st; s_live := false; s_ctrl := s_ctrl st; s_owners := ∅ |} in
          match s_ctrl st, hd with
          | CNone, HMut _ ofs _ cap false =>
              (* rebuild_vec(ptr, len, cap, off) and drop: dealloc with capacity off + cap *)
              if ofs + cap =? s_size st then Ok {| sts := <[k := dead]> (sts s); hs := delete h (hs s); next_s := next_s s; next_h := next_h s |}
              else UB
          | CSharedV c n, (HMut _ _ _ _ true | HBytes _ _ _) =>
              if n =? 0 then UB else
              if n =? 1 then
                if c =? s_size st then Ok {| sts := <[k := dead]> (sts s); hs := delete h (hs s); next_s := next_s s; next_h := next_h s |}
                else UB
              else
                let st' := {| s_size := s_size st; s_data := s_data st; s_live := true; s_ctrl := CSharedV c (n - 1);
                              s_owners := s_owners st ∖ {[h]} |} in
                Ok {| sts := <[k := st']> (sts s); hs := delete h (hs s); next_s := next_s s; next_h := next_h s |}
          | _, _ => UB
          end
      | None => UB
      end
  | None => Stuck
  end.

(* what a handle reads *)
Definition abs (s : hstate) (h : hid) : option (list byte) :=
  hd ← hs s !! h; st ← sts s !! h_sid hd; Some (rd (s_data st) (h_ofs hd) (h_len hd)).

From stdpp Require Import gmap list sets.
From Coq Require Import NArith Lia ZifyN ZifyNat ZifyBool.
From M2 Require Import W Heap.
Local Open Scope N_scope.

Definition shape_ok (hd : handle) (st : storage) : Prop :=
  match hd with
  | HMut _ ofs len cap arc =>
      len ≤ cap ∧ ofs + cap ≤ s_size st ∧
      (if arc then ∃ c n, s_ctrl st = CSharedV c n else s_ctrl st = CNone ∧ ofs + cap = s_size st)
  | HBytes _ ofs len => ofs + len ≤ s_size st ∧ ∃ c n, s_ctrl st = CSharedV c n
  end.

Definition ctrl_ok (st : storage) : Prop :=
  match s_ctrl st with
  | CNone => size (s_owners st) = 1%nat
  | CSharedV c n => c = s_size st ∧ n = N.of_nat (size (s_owners st)) ∧ n ≠ 0
  end.

Record WF (s : hstate) : Prop := {
  wf_h : ∀ h hd, hs s !! h = Some hd →
           ∃ st, sts s !! h_sid hd = Some st ∧ s_live st = true ∧ h ∈ s_owners st ∧ shape_ok hd st;
  wf_s : ∀ k st, sts s !! k = Some st → s_live st = true →
           lenN (s_data st) = s_size st ∧
           (∀ h, h ∈ s_owners st → ∃ hd, hs s !! h = Some hd ∧ h_sid hd = k) ∧ ctrl_ok st;
  wf_dead : ∀ k st, sts s !! k = Some st → s_live st = false → s_owners st = ∅;
  wf_disj : ∀ h1 h2 hd1 hd2, h1 ≠ h2 → hs s !! h1 = Some hd1 → hs s !! h2 = Some hd2 →
              h_sid hd1 = h_sid hd2 → is_mut hd1 = true ∨ is_mut hd2 = true →
              h_ofs hd1 + h_win hd1 ≤ h_ofs hd2 ∨ h_ofs hd2 + h_win hd2 ≤ h_ofs hd1;
  wf_fresh_h : ∀ h hd, hs s !! h = Some hd → (h < next_h s)%positive;
  wf_fresh_s : ∀ k st, sts s !! k = Some st → (k < next_s s)%positive
}.

Ltac sproj := cbn [shape_ok s_size s_data s_live s_ctrl s_owners sts hs next_s next_h h_sid h_ofs h_len h_win is_mut] in *.

Definition empty_state : hstate := {| sts := ∅; hs := ∅; next_s := 1; next_h := 1 |}.
Lemma wf_empty : WF empty_state.
Proof. constructor; simpl; intros; simplify_map_eq. Qed.

Lemma fresh_h_none s : WF s → hs s !! next_h s = None.
Proof. intros H. destruct (hs s !! next_h s) eqn:E; [|done]. apply (wf_fresh_h _ H) in E. lia. Qed.
Lemma fresh_s_none s : WF s → sts s !! next_s s = None.
Proof. intros H. destruct (sts s !! next_s s) eqn:E; [|done]. apply (wf_fresh_s _ H) in E. lia. Qed.
Lemma fresh_not_owner s k st : WF s → sts s !! k = Some st → next_h s ∉ s_owners st.
Proof.
  intros H Hk Hin. destruct (s_live st) eqn:El.
  - destruct (wf_s _ H _ _ Hk El) as (_ & Ho & _). destruct (Ho _ Hin) as (hd & Hh & _).
    apply (wf_fresh_h _ H) in Hh. lia.
  - rewrite (wf_dead _ H _ _ Hk El) in Hin. set_solver.
Qed.

(* ---------- new ---------- *)
Lemma new_wf s bs extra s' : WF s → op_new s bs extra = Ok s' → WF s'.
Proof.
  intros H Hop. unfold op_new in Hop. simplify_eq.
  pose proof (fresh_h_none _ H) as Hfh. pose proof (fresh_s_none _ H) as Hfs.
  constructor; simpl.
  - intros h hd Hh. destruct (decide (h = next_h s)) as [->|Hne].
    + rewrite lookup_insert in Hh. simplify_eq. simpl. rewrite lookup_insert. eexists. split; [done|]. simpl.
      split_and!; [done|set_solver|lia|lia|done|lia].
    + rewrite lookup_insert_ne in Hh by done. destruct (wf_h _ H _ _ Hh) as (st & Hst & ?).
      exists st. split; [|done]. rewrite lookup_insert_ne; [done|]. intros Heq. rewrite <- Heq in Hst. by rewrite Hfs in Hst.
  - intros k st Hk Hl. destruct (decide (k = next_s s)) as [->|Hne].
    + rewrite lookup_insert in Hk. simplify_eq. simpl. split_and!.
      * unfold lenN. rewrite app_length, repeat_length. lia.
      * intros h Hin. apply elem_of_singleton in Hin as ->. eexists. rewrite lookup_insert. done.
      * unfold ctrl_ok; cbn [s_ctrl s_owners]. apply size_singleton.
    + rewrite lookup_insert_ne in Hk by done. destruct (wf_s _ H _ _ Hk Hl) as (? & Ho & ?). split_and!; [done| |done].
      intros h Hin. destruct (Ho _ Hin) as (hd & Hh & ?). exists hd. split; [|done].
      rewrite lookup_insert_ne; [done|]. intros Heq. rewrite <- Heq in Hh. by rewrite Hfh in Hh.
  - intros k st Hk Hl. destruct (decide (k = next_s s)) as [->|Hne].
    + rewrite lookup_insert in Hk. simplify_eq.
    + rewrite lookup_insert_ne in Hk by done. eapply wf_dead; eauto.
  - intros h1 h2 hd1 hd2 Hne H1 H2 Hsid Hm.
    destruct (decide (h1 = next_h s)) as [->|Hn1]; destruct (decide (h2 = next_h s)) as [->|Hn2]; try done.
    + rewrite lookup_insert in H1. rewrite lookup_insert_ne in H2 by done. simplify_eq. simpl in Hsid.
      destruct (wf_h _ H _ _ H2) as (st & Hst & _). rewrite <- Hsid in Hst. by rewrite Hfs in Hst.
    + rewrite lookup_insert in H2. rewrite lookup_insert_ne in H1 by done. simplify_eq. simpl in Hsid.
      destruct (wf_h _ H _ _ H1) as (st & Hst & _). rewrite Hsid in Hst. by rewrite Hfs in Hst.
    + rewrite lookup_insert_ne in H1, H2 by done. exact (wf_disj _ H _ _ _ _ Hne H1 H2 Hsid Hm).
  - intros h hd Hh. destruct (decide (h = next_h s)) as [->|Hne]; [lia|].
    rewrite lookup_insert_ne in Hh by done. apply (wf_fresh_h _ H) in Hh. lia.
  - intros k st Hk. destruct (decide (k = next_s s)) as [->|Hne]; [lia|].
    rewrite lookup_insert_ne in Hk by done. apply (wf_fresh_s _ H) in Hk. lia.
Qed.

(* ---------- split_to ---------- *)
Lemma cnone_sole_owner s k st h h2 hd2 :
  WF s → sts s !! k = Some st → s_live st = true → s_ctrl st = CNone → h ∈ s_owners st →
  hs s !! h2 = Some hd2 → h_sid hd2 = k → h2 = h.
Proof.
  intros H Hk Hl Hc Hin H2 Hsid. destruct (wf_h _ H _ _ H2) as (st2 & Hst2 & _ & Hin2 & _).
  rewrite Hsid in Hst2. simplify_eq. destruct (wf_s _ H _ _ Hk Hl) as (_ & _ & Hco).
  unfold ctrl_ok in Hco. rewrite Hc in Hco. apply size_1_elem_of in Hco as [x Hx].
  apply leibniz_equiv in Hx. rewrite Hx in Hin, Hin2. set_solver.
Qed.

Lemma split_to_wf s h at_ s' : WF s → op_split_to s h at_ = Ok s' → WF s'.
Proof.
  intros H Hop. unfold op_split_to in Hop.
  destruct (hs s !! h) as [[k ofs len cap arc|]|] eqn:Hh; try done.
  destruct (len <? at_) eqn:Hat; [done|].
  destruct (sts s !! k) as [st|] eqn:Hk; [|done].
  destruct (s_live st) eqn:Hl; [|done]. cbn [negb] in Hop.
  destruct (wf_h _ H _ _ Hh) as (st0 & Hst0 & _ & Hin & Hshape). cbn [h_sid] in Hst0. simplify_eq.
  destruct (wf_s _ H _ _ Hk Hl) as (Hlen & Hown & Hco).
  pose proof (fresh_h_none _ H) as Hfh. pose proof (fresh_not_owner _ _ _ H Hk) as Hfo.
  assert (Hneh : h ≠ next_h s) by (intros ->; by rewrite Hfh in Hh).
  destruct Hshape as (Hlc & Hoc & Harc).
  (* the new control word and its correctness *)
  remember (match s_ctrl st, arc with
             | CSharedV c n, true => Some (CSharedV c (n + 1))
             | CNone, false => Some (CSharedV (ofs + cap) 2)
             | _, _ => None end) as c' eqn:Ec'.
  destruct c' as [cw|]; [|done]. injection Hop as <-.
  assert (Hcw : ∃ c n, cw = CSharedV c n ∧ c = s_size st ∧ n = N.of_nat (size ({[next_h s]} ∪ s_owners st)) ∧ n ≠ 0).
  { unfold ctrl_ok in Hco. rewrite size_union, size_singleton by set_solver.
    destruct (s_ctrl st) as [|c n] eqn:Ect; destruct arc; simplify_eq.
    - destruct Harc as [_ Heq]. eexists _, _. split; [done|]. split; [done|]. rewrite Hco. lia.
    - destruct Hco as (-> & -> & Hn0). eexists _, _. split; [done|]. split; [done|]. lia. }
  destruct Hcw as (c & n & -> & Hc & Hn & Hn0).
  (* other handles on the same storage are shared-form handles (so their shape survives the promotion) *)
  assert (Hother : ∀ h2 hd2, h2 ≠ h → hs s !! h2 = Some hd2 → h_sid hd2 = k →
            ∀ st2, s_size st2 = s_size st → (∃ c n, s_ctrl st2 = CSharedV c n) → shape_ok hd2 st → shape_ok hd2 st2).
  { intros h2 hd2 Hne2 H2 Hsid st2 Hsz Hct Hsh.
    destruct (s_ctrl st) eqn:Ect.
    - exfalso. apply Hne2. eapply cnone_sole_owner; eauto.
    - destruct hd2 as [k2 o2 l2 c2 a2|k2 o2 l2]; cbn [shape_ok] in *; rewrite Hsz.
      + destruct Hsh as (? & ? & Ha). split_and!; [done|done|]. destruct a2; [done|]. destruct Ha; congruence.
      + destruct Hsh as (? & ?). done. }
  constructor; sproj.
  - intros h0 hd0 Hh0.
    destruct (decide (h0 = h)) as [->|Hn0h].
    { rewrite lookup_insert in Hh0. simplify_eq. sproj. rewrite lookup_insert. eexists. split; [done|]. sproj.
      split_and!; [done|set_solver| | |eauto]; lia. }
    rewrite lookup_insert_ne in Hh0 by done.
    destruct (decide (h0 = next_h s)) as [->|Hn0n].
    { rewrite lookup_insert in Hh0. simplify_eq. sproj. rewrite lookup_insert. eexists. split; [done|]. sproj.
      split_and!; [done|set_solver| | |eauto]; lia. }
    rewrite lookup_insert_ne in Hh0 by done.
    destruct (wf_h _ H _ _ Hh0) as (st2 & Hst2 & Hl2 & Hin2 & Hsh2).
    destruct (decide (h_sid hd0 = k)) as [Hsk|Hsk].
    + rewrite Hsk in *. simplify_eq. rewrite lookup_insert. eexists. split; [done|]. sproj.
      split_and!; [done|set_solver|]. eapply Hother; eauto.
    + rewrite lookup_insert_ne by done. eauto.
  - intros k0 st0 Hk0 Hl0. destruct (decide (k0 = k)) as [->|Hnk].
    + rewrite lookup_insert in Hk0. simplify_eq. sproj. split_and!; [done| |].
      * intros h0 Hin0. apply elem_of_union in Hin0 as [Hin0|Hin0].
        -- apply elem_of_singleton in Hin0 as ->. eexists. rewrite lookup_insert_ne by done. rewrite lookup_insert. done.
        -- destruct (decide (h0 = h)) as [->|Hn0h]; [eexists; rewrite lookup_insert; done|].
           destruct (Hown _ Hin0) as (hd0 & Hh0 & Hs0). exists hd0. split; [|done].
           rewrite lookup_insert_ne by done. rewrite lookup_insert_ne by (intros Heq; subst h0; by apply Hfo). done.
      * unfold ctrl_ok; sproj. done.
    + rewrite lookup_insert_ne in Hk0 by done. destruct (wf_s _ H _ _ Hk0 Hl0) as (? & Ho0 & ?). split_and!; [done| |done].
      intros h0 Hin0. destruct (Ho0 _ Hin0) as (hd0 & Hh0 & Hs0). exists hd0. split; [|done].
      rewrite lookup_insert_ne by (intros Heq; subst h0; rewrite Hh in Hh0; simplify_eq; done).
      rewrite lookup_insert_ne by (intros Heq; subst h0; rewrite Hfh in Hh0; done). done.
  - intros k0 st0 Hk0 Hl0. destruct (decide (k0 = k)) as [->|Hnk].
    + rewrite lookup_insert in Hk0. simplify_eq.
    + rewrite lookup_insert_ne in Hk0 by done. eapply wf_dead; eauto.
  - (* disjointness: the two halves partition the old window; everyone else was disjoint from the old window *)
    assert (Hold : ∀ h2 hd2, h2 ≠ h → hs s !! h2 = Some hd2 → h_sid hd2 = k →
              h_ofs hd2 + h_win hd2 ≤ ofs ∨ ofs + cap ≤ h_ofs hd2).
    { intros h2 hd2 Hne2 H2 Hsid. destruct (wf_disj _ H h2 h hd2 _ Hne2 H2 Hh) as [?|?]; sproj; [done|by right| |]; lia. }
    intros h1 h2 hd1 hd2 Hne H1 H2 Hsid Hm.
    assert (Hcase : ∀ h0 hd0, <[h:=HMut k (ofs + at_) (len - at_) (cap - at_) true]> (<[next_h s:=HMut k ofs at_ at_ true]> (hs s)) !! h0 = Some hd0 →
              (h0 = h ∧ hd0 = HMut k (ofs + at_) (len - at_) (cap - at_) true) ∨
              (h0 = next_h s ∧ hd0 = HMut k ofs at_ at_ true) ∨
              (h0 ≠ h ∧ h0 ≠ next_h s ∧ hs s !! h0 = Some hd0)).
    { intros h0 hd0 Hl0. destruct (decide (h0 = h)) as [->|?]; [rewrite lookup_insert in Hl0; simplify_eq; by left|].
      rewrite lookup_insert_ne in Hl0 by done. destruct (decide (h0 = next_h s)) as [->|?]; [rewrite lookup_insert in Hl0; simplify_eq; right; by left|].
      rewrite lookup_insert_ne in Hl0 by done. right; right. done. }
    destruct (Hcase _ _ H1) as [[-> ->]|[[-> ->]|(Ha1 & Hb1 & Hc1)]];
    destruct (Hcase _ _ H2) as [[-> ->]|[[-> ->]|(Ha2 & Hb2 & Hc2)]]; sproj; try done; try lia.
    + destruct (Hold _ _ Ha2 Hc2 (eq_sym Hsid)); lia.
    + destruct (Hold _ _ Ha2 Hc2 (eq_sym Hsid)); lia.
    + destruct (Hold _ _ Ha1 Hc1 Hsid); lia.
    + destruct (Hold _ _ Ha1 Hc1 Hsid); lia.
    + exact (wf_disj _ H _ _ _ _ Hne Hc1 Hc2 Hsid Hm).
  - intros h0 hd0 Hh0. destruct (decide (h0 = h)) as [->|?]; [apply (wf_fresh_h _ H) in Hh; lia|].
    rewrite lookup_insert_ne in Hh0 by done. destruct (decide (h0 = next_h s)) as [->|?]; [lia|].
    rewrite lookup_insert_ne in Hh0 by done. apply (wf_fresh_h _ H) in Hh0. lia.
  - intros k0 st0 Hk0. destruct (decide (k0 = k)) as [->|?]; [apply (wf_fresh_s _ H) in Hk; lia|].
    rewrite lookup_insert_ne in Hk0 by done. by apply (wf_fresh_s _ H) in Hk0.
Qed.

(* ---------- write into spare capacity ---------- *)
Lemma write_wf s h bs s' : WF s → op_write_spare s h bs = Ok s' → WF s'.
Proof.
  intros H Hop. unfold op_write_spare in Hop.
  destruct (hs s !! h) as [[k ofs len cap arc|]|] eqn:Hh; try done.
  destruct (cap - len <? lenN bs) eqn:Hfit; [done|].
  destruct (sts s !! k) as [st|] eqn:Hk; [|done].
  destruct (negb (s_live st) || _) eqn:Hg; [done|]. injection Hop as <-.
  assert (Hl : s_live st = true) by (destruct (s_live st); [done|simpl in Hg; done]).
  destruct (wf_h _ H _ _ Hh) as (st0 & Hst0 & _ & Hin & Hshape). cbn [h_sid] in Hst0. simplify_eq.
  destruct (wf_s _ H _ _ Hk Hl) as (Hlen & Hown & Hco). destruct Hshape as (Hlc & Hoc & Harc).
  constructor; sproj.
  - intros h0 hd0 Hh0. destruct (decide (h0 = h)) as [->|Hne].
    + rewrite lookup_insert in Hh0. simplify_eq. sproj. rewrite lookup_insert. eexists. split; [done|]. sproj.
      split_and!; [done|done|lia|done|done].
    + rewrite lookup_insert_ne in Hh0 by done. destruct (wf_h _ H _ _ Hh0) as (st2 & Hst2 & Hl2 & Hin2 & Hsh2).
      destruct (decide (h_sid hd0 = k)) as [Hsk|Hsk].
      * rewrite Hsk in *. simplify_eq. rewrite lookup_insert. eexists. split; [done|]. sproj. split_and!; [done|done|].
        destruct hd0; sproj; done.
      * rewrite lookup_insert_ne by done. eauto.
  - intros k0 st0 Hk0 Hl0. destruct (decide (k0 = k)) as [->|Hnk].
    + rewrite lookup_insert in Hk0. simplify_eq. sproj. split_and!.
      * unfold lenN. rewrite wr_length; [done|]. unfold lenN in *. lia.
      * intros h0 Hin0. destruct (decide (h0 = h)) as [->|?]; [eexists; rewrite lookup_insert; done|].
        rewrite lookup_insert_ne by done. eauto.
      * unfold ctrl_ok in *; sproj. done.
    + rewrite lookup_insert_ne in Hk0 by done. destruct (wf_s _ H _ _ Hk0 Hl0) as (? & Ho0 & ?). split_and!; [done| |done].
      intros h0 Hin0. destruct (Ho0 _ Hin0) as (hd0 & Hh0 & Hs0). exists hd0. split; [|done].
      rewrite lookup_insert_ne; [done|]. intros Heq; subst h0. rewrite Hh in Hh0. simplify_eq; try done.
  - intros k0 st0 Hk0 Hl0. destruct (decide (k0 = k)) as [->|Hnk].
    + rewrite lookup_insert in Hk0. simplify_eq.
    + rewrite lookup_insert_ne in Hk0 by done. eapply wf_dead; eauto.
  - intros h1 h2 hd1 hd2 Hne H1 H2 Hsid Hm.
    destruct (decide (h1 = h)) as [->|Hn1]; destruct (decide (h2 = h)) as [->|Hn2]; try done.
    + rewrite lookup_insert in H1. rewrite lookup_insert_ne in H2 by done. simplify_eq.
      pose proof (wf_disj _ H _ _ _ _ Hne Hh H2 Hsid ltac:(by left)) as Hd. sproj. done.
    + rewrite lookup_insert in H2. rewrite lookup_insert_ne in H1 by done. simplify_eq.
      pose proof (wf_disj _ H _ _ _ _ Hne H1 Hh Hsid ltac:(by right)) as Hd. sproj. done.
    + rewrite lookup_insert_ne in H1, H2 by done. exact (wf_disj _ H _ _ _ _ Hne H1 H2 Hsid Hm).
  - intros h0 hd0 Hh0. destruct (decide (h0 = h)) as [->|?]; [by apply (wf_fresh_h _ H) in Hh|].
    rewrite lookup_insert_ne in Hh0 by done. by apply (wf_fresh_h _ H) in Hh0.
  - intros k0 st0 Hk0. destruct (decide (k0 = k)) as [->|?]; [by apply (wf_fresh_s _ H) in Hk|].
    rewrite lookup_insert_ne in Hk0 by done. by apply (wf_fresh_s _ H) in Hk0.
Qed.

(* refinement: the writer sees its bytes appended, EVERY other handle reads what it read before *)
Lemma write_refines s h bs s' v :
  WF s → op_write_spare s h bs = Ok s' → abs s h = Some v →
  abs s' h = Some (v ++ bs) ∧ ∀ h2, h2 ≠ h → abs s' h2 = abs s h2.
Proof.
  intros H Hop Habs. unfold op_write_spare in Hop.
  destruct (hs s !! h) as [[k ofs len cap arc|]|] eqn:Hh; try done.
  destruct (cap - len <? lenN bs) eqn:Hfit; [done|].
  destruct (sts s !! k) as [st|] eqn:Hk; [|done].
  destruct (negb (s_live st) || _) eqn:Hg; [done|]. injection Hop as <-.
  assert (Hl : s_live st = true) by (destruct (s_live st); [done|simpl in Hg; done]).
  destruct (wf_h _ H _ _ Hh) as (st0 & Hst0 & _ & Hin & Hshape). cbn [h_sid] in Hst0. simplify_eq.
  destruct (wf_s _ H _ _ Hk Hl) as (Hlen & Hown & Hco). destruct Hshape as (Hlc & Hoc & Harc).
  unfold abs in *. rewrite Hh in Habs. sproj. simpl in Habs. rewrite Hk in Habs. simpl in Habs. simplify_eq.
  split.
  - sproj. rewrite lookup_insert. simpl. rewrite lookup_insert. simpl. f_equal.
    apply rd_wr_extend. lia.
  - intros h2 Hne. sproj. rewrite lookup_insert_ne by done.
    destruct (hs s !! h2) as [hd2|] eqn:H2; simpl; [|done].
    destruct (decide (h_sid hd2 = k)) as [Hsk|Hsk].
    + rewrite Hsk, lookup_insert, Hk. simpl. f_equal.
      apply rd_wr_disjoint; [lia|].
      pose proof (wf_disj _ H _ _ _ _ Hne H2 Hh Hsk ltac:(by right)) as Hd. sproj.
      destruct (wf_h _ H _ _ H2) as (st2 & Hst2 & _ & _ & Hsh2). rewrite Hsk in Hst2. simplify_eq.
      destruct hd2; sproj; lia.
    + rewrite lookup_insert_ne by done. done.
Qed.
Print Assumptions write_refines.

(* ---------- split_to refines the value model ---------- *)
Lemma split_to_refines s h at_ s' v :
  WF s → op_split_to s h at_ = Ok s' → abs s h = Some v →
  abs s' (next_h s) = Some (take (N.to_nat at_) v) ∧ abs s' h = Some (drop (N.to_nat at_) v) ∧
  ∀ h2, h2 ≠ h → h2 ≠ next_h s → abs s' h2 = abs s h2.
Proof.
  intros H Hop Habs. unfold op_split_to in Hop.
  destruct (hs s !! h) as [[k ofs len cap arc|]|] eqn:Hh; try done.
  destruct (len <? at_) eqn:Hat; [done|].
  destruct (sts s !! k) as [st|] eqn:Hk; [|done].
  destruct (s_live st) eqn:Hl; [|done]. cbn [negb] in Hop.
  destruct (match s_ctrl st with CNone => _ | CSharedV _ _ => _ end) as [cw|]; [|done]. injection Hop as <-.
  pose proof (fresh_h_none _ H) as Hfh.
  assert (Hneh : h ≠ next_h s) by (intros ->; by rewrite Hfh in Hh).
  unfold abs in *. rewrite Hh in Habs. simpl in Habs. rewrite Hk in Habs. simpl in Habs. simplify_eq.
  sproj. split_and!.
  - rewrite lookup_insert_ne by done. rewrite lookup_insert. simpl. rewrite lookup_insert. simpl. f_equal.
    apply rd_take. lia.
  - rewrite lookup_insert. simpl. rewrite lookup_insert. simpl. f_equal. apply rd_drop. lia.
  - intros h2 Hn2 Hn2'. rewrite !lookup_insert_ne by done.
    destruct (hs s !! h2) as [hd2|] eqn:H2; simpl; [|done].
    destruct (decide (h_sid hd2 = k)) as [Hsk|Hsk].
    + rewrite Hsk, lookup_insert, Hk. done.
    + rewrite lookup_insert_ne by done. done.
Qed.

(* ---------- drop ---------- *)
Lemma drop_wf s h s' : WF s → op_drop s h = Ok s' → WF s'.
Proof.
  intros H Hop. unfold op_drop in Hop.
  destruct (hs s !! h) as [hd|] eqn:Hh; [|done].
  destruct (wf_h _ H _ _ Hh) as (st & Hk & Hl & Hin & Hshape). rewrite Hk, Hl in Hop. cbn [negb] in Hop.
  destruct (wf_s _ H _ _ Hk Hl) as (Hlen & Hown & Hco).
  set (k := h_sid hd) in *.
  (* in every successful branch: either the storage dies and h was its only owner, or it lives on with h removed *)
  assert (Hcases :
    (s_owners st = {[h]} ∧ s' = {| sts := <[k := {| s_size := s_size st; s_data := s_data st; s_live := false; s_ctrl := s_ctrl st; s_owners := ∅ |}]> (sts s);
                                  hs := delete h (hs s); next_s := next_s s; next_h := next_h s |}) ∨
    (∃ c n, s_ctrl st = CSharedV c n ∧ n ≠ 1 ∧
       s' = {| sts := <[k := {| s_size := s_size st; s_data := s_data st; s_live := true; s_ctrl := CSharedV c (n - 1); s_owners := s_owners st ∖ {[h]} |}]> (sts s);
               hs := delete h (hs s); next_s := next_s s; next_h := next_h s |})).
  { unfold ctrl_ok in Hco. destruct (s_ctrl st) as [|c n] eqn:Ect.
    - left. destruct hd as [? ofs ? cap [|]|]; try done. destruct (_ =? _); [|done]. injection Hop as <-. split; [|done].
      apply size_1_elem_of in Hco as [x Hx]. apply leibniz_equiv in Hx. rewrite Hx in *. set_solver.
    - destruct Hco as (-> & -> & Hn0).
      assert (Hhd : match hd with HMut _ _ _ _ true | HBytes _ _ _ => True | _ => False end)
        by (destruct hd as [? ? ? ? [|]|]; sproj; [done| |done]; destruct Hshape as (_ & _ & [Hx _]); congruence).
      destruct (N.of_nat (size (s_owners st)) =? 0) eqn:E0; [lia|].
      destruct (N.of_nat (size (s_owners st)) =? 1) eqn:E1.
      + left. assert (s' = {| sts := <[k := {| s_size := s_size st; s_data := s_data st; s_live := false; s_ctrl := CSharedV (s_size st) (N.of_nat (size (s_owners st))); s_owners := ∅ |}]> (sts s);
                                  hs := delete h (hs s); next_s := next_s s; next_h := next_h s |}) as ->.
        { destruct hd as [? ? ? ? [|]|]; try done; rewrite N.eqb_refl in Hop; by injection Hop as <-. }
        split; [|done]. assert (size (s_owners st) = 1%nat) as Hs1 by lia.
        apply size_1_elem_of in Hs1 as [x Hx]. apply leibniz_equiv in Hx. rewrite Hx in *. set_solver.
      + right. eexists _, _. split; [done|]. split; [lia|].
        destruct hd as [? ? ? ? [|]|]; try done; by injection Hop as <-. }
  clear Hop.
  assert (Hother : ∀ h2 hd2, h2 ≠ h → hs s !! h2 = Some hd2 → h_sid hd2 = k → s_owners st ≠ {[h]}).
  { intros h2 hd2 Hne H2 Hsid Heq. destruct (wf_h _ H _ _ H2) as (st2 & Hst2 & _ & Hin2 & _).
    rewrite Hsid in Hst2. simplify_eq. rewrite Heq in Hin2. set_solver. }
  destruct Hcases as [[Hsole ->]|(c & n & Hct & Hn1 & ->)]; constructor; sproj.
  (* storage dies *)
  - intros h0 hd0 Hh0. apply lookup_delete_Some in Hh0 as [Hne Hh0].
    destruct (wf_h _ H _ _ Hh0) as (st2 & Hst2 & ?). destruct (decide (h_sid hd0 = k)) as [Hsk|Hsk].
    + exfalso. by eapply Hother.
    + exists st2. by rewrite lookup_insert_ne.
  - intros k0 st0 Hk0 Hl0. destruct (decide (k0 = k)) as [->|Hnk]; [rewrite lookup_insert in Hk0; simplify_eq|].
    rewrite lookup_insert_ne in Hk0 by done. destruct (wf_s _ H _ _ Hk0 Hl0) as (? & Ho0 & ?). split_and!; [done| |done].
    intros h0 Hin0. destruct (Ho0 _ Hin0) as (hd0 & Hh0 & Hs0). exists hd0. split; [|done].
    apply lookup_delete_Some. split; [|done]. intros Heq; subst h0. rewrite Hh in Hh0. simplify_eq; try done.
  - intros k0 st0 Hk0 Hl0. destruct (decide (k0 = k)) as [->|Hnk]; [rewrite lookup_insert in Hk0; by simplify_eq|].
    rewrite lookup_insert_ne in Hk0 by done. eapply wf_dead; eauto.
  - intros h1 h2 hd1 hd2 Hne H1 H2 Hsid Hm. apply lookup_delete_Some in H1 as [_ H1]. apply lookup_delete_Some in H2 as [_ H2].
    exact (wf_disj _ H _ _ _ _ Hne H1 H2 Hsid Hm).
  - intros h0 hd0 Hh0. apply lookup_delete_Some in Hh0 as [_ Hh0]. by apply (wf_fresh_h _ H) in Hh0.
  - intros k0 st0 Hk0. destruct (decide (k0 = k)) as [->|?]; [by apply (wf_fresh_s _ H) in Hk|].
    rewrite lookup_insert_ne in Hk0 by done. by apply (wf_fresh_s _ H) in Hk0.
  (* storage lives on *)
  - intros h0 hd0 Hh0. apply lookup_delete_Some in Hh0 as [Hne Hh0].
    destruct (wf_h _ H _ _ Hh0) as (st2 & Hst2 & Hl2 & Hin2 & Hsh2). destruct (decide (h_sid hd0 = k)) as [Hsk|Hsk].
    + rewrite Hsk in *. simplify_eq. rewrite lookup_insert. eexists. split; [done|]. sproj. split_and!; [done|set_solver|].
      destruct hd0 as [? o2 l2 c2 a2|? o2 l2]; sproj.
      * destruct Hsh2 as (? & ? & Ha). split_and!; [done|done|]. destruct a2; [eauto|]. destruct Ha as [Hx _]. congruence.
      * destruct Hsh2 as (? & ?). split; eauto.
    + exists st2. by rewrite lookup_insert_ne.
  - intros k0 st0 Hk0 Hl0. destruct (decide (k0 = k)) as [->|Hnk].
    + rewrite lookup_insert in Hk0. simplify_eq. sproj. split_and!; [done| |].
      * intros h0 Hin0. apply elem_of_difference in Hin0 as [Hin0 Hn0]. destruct (Hown _ Hin0) as (hd0 & Hh0 & Hs0).
        exists hd0. split; [|done]. apply lookup_delete_Some. split; [set_solver|done].
      * unfold ctrl_ok in *; sproj. rewrite Hct in Hco. destruct Hco as (-> & -> & Hn0). split_and!; [done| |].
        -- rewrite size_difference by set_solver. rewrite size_singleton. lia.
        -- lia.
    + rewrite lookup_insert_ne in Hk0 by done. destruct (wf_s _ H _ _ Hk0 Hl0) as (? & Ho0 & ?). split_and!; [done| |done].
      intros h0 Hin0. destruct (Ho0 _ Hin0) as (hd0 & Hh0 & Hs0). exists hd0. split; [|done].
      apply lookup_delete_Some. split; [|done]. intros Heq; subst h0. rewrite Hh in Hh0. simplify_eq; try done.
  - intros k0 st0 Hk0 Hl0. destruct (decide (k0 = k)) as [->|Hnk]; [rewrite lookup_insert in Hk0; by simplify_eq|].
    rewrite lookup_insert_ne in Hk0 by done. eapply wf_dead; eauto.
  - intros h1 h2 hd1 hd2 Hne H1 H2 Hsid Hm. apply lookup_delete_Some in H1 as [_ H1]. apply lookup_delete_Some in H2 as [_ H2].
    exact (wf_disj _ H _ _ _ _ Hne H1 H2 Hsid Hm).
  - intros h0 hd0 Hh0. apply lookup_delete_Some in Hh0 as [_ Hh0]. by apply (wf_fresh_h _ H) in Hh0.
  - intros k0 st0 Hk0. destruct (decide (k0 = k)) as [->|?]; [by apply (wf_fresh_s _ H) in Hk|].
    rewrite lookup_insert_ne in Hk0 by done. by apply (wf_fresh_s _ H) in Hk0.
Qed.

(* ---------- programs ---------- *)
Inductive op := ONew (bs : list byte) (extra : N) | OSplitTo (h : positive) (at_ : N) | OWrite (h : positive) (bs : list byte) | ODrop (h : positive).
Definition step (s : hstate) (o : op) : res :=
  match o with
  | ONew bs e => op_new s bs e | OSplitTo h a => op_split_to s h a | OWrite h bs => op_write_spare s h bs | ODrop h => op_drop s h
  end.
Definition next (s : hstate) (o : op) : hstate := match step s o with Ok s' | Panic s' => s' | _ => s end.
Definition run (ops : list op) : hstate := fold_left next ops empty_state.

Lemma step_wf s o s' : WF s → step s o = Ok s' ∨ step s o = Panic s' → WF s'.
Proof.
  intros H [Hs|Hs]; destruct o; simpl in Hs.
  - by eapply new_wf. - by eapply split_to_wf. - by eapply write_wf. - by eapply drop_wf.
  - done.
  - unfold op_split_to in Hs. repeat case_match; by simplify_eq.
  - unfold op_write_spare in Hs. repeat case_match; by simplify_eq.
  - unfold op_drop in Hs. repeat case_match; by simplify_eq.
Qed.

Theorem run_wf ops : WF (run ops).
Proof.
  unfold run. generalize wf_empty. generalize empty_state. induction ops as [|o ops IH]; intros s H; simpl; [done|].
  apply IH. unfold next. destruct (step s o) eqn:E; try done; eapply step_wf; eauto.
Qed.

(* C02-style: no modelled unsafe precondition ever fails *)
Theorem no_ub s o : WF s → step s o ≠ UB.
Proof.
  intros H. destruct o as [bs e|h a|h bs|h]; simpl.
  - done.
  - unfold op_split_to. destruct (hs s !! h) as [[k ofs len cap arc|]|] eqn:Hh; try done.
    destruct (len <? a); [done|].
    destruct (wf_h _ H _ _ Hh) as (st & Hk & Hl & _ & (_ & _ & Harc)). cbn [h_sid] in Hk. rewrite Hk, Hl. cbn [negb].
    destruct arc; [destruct Harc as (c & n & ->); done|destruct Harc as [-> _]; done].
  - unfold op_write_spare. destruct (hs s !! h) as [[k ofs len cap arc|]|] eqn:Hh; try done.
    destruct (cap - len <? lenN bs) eqn:Hfit; [done|].
    destruct (wf_h _ H _ _ Hh) as (st & Hk & Hl & _ & (Hlc & Hoc & _)). cbn [h_sid] in Hk. rewrite Hk, Hl. cbn [negb orb].
    destruct (s_size st <? ofs + len + lenN bs) eqn:E; [lia|done].
  - unfold op_drop. destruct (hs s !! h) as [hd|] eqn:Hh; [|done].
    destruct (wf_h _ H _ _ Hh) as (st & Hk & Hl & _ & Hsh). rewrite Hk, Hl. cbn [negb].
    destruct (wf_s _ H _ _ Hk Hl) as (_ & _ & Hco). unfold ctrl_ok in Hco.
    destruct hd as [k ofs len cap [|]|k ofs len]; sproj.
    + destruct Hsh as (_ & _ & (c & n & Hc)). rewrite Hc in *. destruct Hco as (-> & _ & Hn0).
      destruct (n =? 0) eqn:E0; [lia|]. destruct (n =? 1); [|done]. by rewrite N.eqb_refl.
    + destruct Hsh as (_ & _ & [Hc Heq]). rewrite Hc. destruct (ofs + cap =? s_size st) eqn:E; [done|lia].
    + destruct Hsh as (_ & (c & n & Hc)). rewrite Hc in *. destruct Hco as (-> & _ & Hn0).
      destruct (n =? 0) eqn:E0; [lia|]. destruct (n =? 1); [|done]. by rewrite N.eqb_refl.
Qed.

(* C03-style: once every handle is gone, every storage has been released (and `live` never returns) *)
Theorem no_leak s : WF s → hs s = ∅ → ∀ k st, sts s !! k = Some st → s_live st = false.
Proof.
  intros H He k st Hk. destruct (s_live st) eqn:Hl; [|done]. exfalso.
  destruct (wf_s _ H _ _ Hk Hl) as (_ & Hown & Hco). unfold ctrl_ok in Hco.
  assert (∃ h, h ∈ s_owners st) as [h Hin].
  { apply size_pos_elem_of. destruct (s_ctrl st); [lia|]. destruct Hco as (_ & -> & ?). lia. }
  destruct (Hown _ Hin) as (hd & Hh & _). rewrite He in Hh. done.
Qed.

Corollary C01_C02_C03_slice ops :
  let s := run ops in
  (∀ o, step s o ≠ UB) ∧ (hs s = ∅ → ∀ k st, sts s !! k = Some st → s_live st = false).
Proof. intros s. pose proof (run_wf ops). split; [intros o; by apply no_ub|by apply no_leak]. Qed.
Print Assumptions C01_C02_C03_slice.

(* non-vacuity: a real history reaches the interesting representation (promoted, two owners, offset window) *)
Example history :
  let s := run [ONew [1;2;3;4;5] 3; OSplitTo 1 2; OWrite 1 [9;9]; ODrop 2] in
  abs s 1 = Some [3;4;5;9;9] ∧ abs s 2 = None ∧
  (∃ st, sts s !! 1%positive = Some st ∧ s_ctrl st = CSharedV 8 1 ∧ s_live st = true).
Proof. vm_compute. split_and!; try done. eexists. split_and!; done. Qed.

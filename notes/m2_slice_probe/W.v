From stdpp Require Import list.
From Coq Require Import NArith Lia ZifyN ZifyNat.
Local Open Scope N_scope.
Definition byte := N.
Definition rd (d : list byte) (ofs len : N) : list byte := take (N.to_nat len) (drop (N.to_nat ofs) d).
Definition wr (d : list byte) (ofs : N) (bs : list byte) : list byte :=
  take (N.to_nat ofs) d ++ bs ++ drop (N.to_nat ofs + length bs)%nat d.
Definition lenN {A} (l : list A) : N := N.of_nat (length l).

Lemma wr_length d ofs bs : ofs + lenN bs ≤ lenN d → length (wr d ofs bs) = length d.
Proof. unfold wr, lenN. intros H. rewrite !app_length, take_length, drop_length. lia. Qed.

(* pointwise characterisations: all later frame reasoning goes through these two *)
Lemma wr_lookup d ofs bs (j : nat) : ofs + lenN bs ≤ lenN d →
  wr d ofs bs !! j =
    if decide (j < N.to_nat ofs)%nat then d !! j
    else if decide (j < N.to_nat ofs + length bs)%nat then bs !! (j - N.to_nat ofs)%nat
    else d !! j.
Proof.
  unfold wr, lenN. intros H. repeat case_decide.
  - rewrite lookup_app_l by (rewrite take_length; lia). by rewrite lookup_take by lia.
  - rewrite lookup_app_r by (rewrite take_length; lia). rewrite take_length.
    rewrite lookup_app_l by lia. f_equal. lia.
  - rewrite lookup_app_r by (rewrite take_length; lia). rewrite take_length.
    rewrite lookup_app_r by lia. rewrite lookup_drop. f_equal. lia.
Qed.

Lemma rd_lookup d o l (i : nat) :
  rd d o l !! i = if decide (i < N.to_nat l)%nat then d !! (N.to_nat o + i)%nat else None.
Proof.
  unfold rd. case_decide.
  - rewrite lookup_take by lia. by rewrite lookup_drop.
  - by rewrite lookup_take_ge by lia.
Qed.

Lemma rd_wr_disjoint d ofs bs o l :
  ofs + lenN bs ≤ lenN d → (o + l ≤ ofs ∨ ofs + lenN bs ≤ o) →
  rd (wr d ofs bs) o l = rd d o l.
Proof.
  intros Hb Hd. apply list_eq; intros i. rewrite !rd_lookup. case_decide; [|done].
  rewrite wr_lookup by done. unfold lenN in *. repeat case_decide; try done; lia.
Qed.

Lemma rd_wr_same d ofs bs : ofs + lenN bs ≤ lenN d → rd (wr d ofs bs) ofs (lenN bs) = bs.
Proof.
  intros Hb. apply list_eq; intros i. rewrite rd_lookup. unfold lenN in *. case_decide.
  - rewrite wr_lookup by done. repeat case_decide; try lia. f_equal. lia.
  - symmetry. apply lookup_ge_None. lia.
Qed.

Lemma rd_wr_extend d o l bs : o + l + lenN bs ≤ lenN d →
  rd (wr d (o + l) bs) o (l + lenN bs) = rd d o l ++ bs.
Proof.
  intros Hb. apply list_eq; intros i. rewrite rd_lookup. unfold lenN in *.
  assert (Hl : length (rd d o l) = N.to_nat l) by (unfold rd; rewrite take_length, drop_length; lia).
  destruct (decide (i < N.to_nat l)%nat).
  - rewrite lookup_app_l by lia. rewrite rd_lookup. rewrite wr_lookup by (unfold lenN; lia).
    repeat case_decide; try lia; done.
  - rewrite lookup_app_r by lia. rewrite Hl. rewrite wr_lookup by (unfold lenN; lia).
    repeat case_decide; try lia.
    + f_equal. lia.
    + symmetry. apply lookup_ge_None. lia.
Qed.

(* sub-windows *)
Lemma rd_take d o l a : a ≤ l → rd d o a = take (N.to_nat a) (rd d o l).
Proof.
  intros Ha. apply list_eq; intros i. rewrite rd_lookup.
  destruct (decide (i < N.to_nat a)%nat).
  - rewrite lookup_take by done. rewrite rd_lookup. case_decide; [done|lia].
  - by rewrite lookup_take_ge by lia.
Qed.
Lemma rd_drop d o l a : a ≤ l → rd d (o + a) (l - a) = drop (N.to_nat a) (rd d o l).
Proof.
  intros Ha. apply list_eq; intros i. rewrite rd_lookup, lookup_drop, rd_lookup.
  repeat case_decide; try lia; try done. f_equal. lia.
Qed.
Print Assumptions rd_drop.

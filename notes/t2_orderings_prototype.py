#!/usr/bin/env python3
# prototype of translator T2: atomic + ownership-call skeleton per function (design validation only)
import re, sys, json
FUNCS = {
 '/repo/src/bytes.rs': ['owned_clone','owned_to_vec','owned_drop_impl','owned_drop','promotable_even_clone','promotable_odd_clone',
     'promotable_to_vec','promotable_to_mut','promotable_even_drop','promotable_odd_drop','promotable_is_unique',
     'shared_clone','shared_to_vec_impl','shared_to_vec','shared_to_mut_impl','shared_to_mut','shared_is_unique','shared_drop',
     'shallow_clone_arc','shallow_clone_vec','release_shared'],
 '/repo/src/bytes_mut.rs': ['increment_shared','release_shared','is_unique','shared_v_clone','shared_v_to_vec','shared_v_to_mut','shared_v_is_unique','shared_v_drop'],
}
ATOMIC = re.compile(r'\.\s*(load|store|swap|fetch_add|fetch_sub|compare_exchange(?:_weak)?|with_mut|get_mut)\s*\(')
CALLS = re.compile(r'\b(shallow_clone_arc|shallow_clone_vec|release_shared|increment_shared|owned_drop_impl|Box::from_raw|mem::forget|mem::replace|drop|dealloc|free_boxed_slice|Vec::from_raw_parts|crate::abort)\s*\(')
def strip_comments(src):
    src = re.sub(r'//[^\n]*', '', src)
    return re.sub(r'/\*.*?\*/', '', src, flags=re.S)
def fn_body(src, name):
    m = re.search(r'\bfn\s+%s\s*(?:<[^>]*>)?\s*\(' % re.escape(name), src)
    if not m: return None
    i = src.index('{', m.end()); depth = 0; j = i
    while True:
        c = src[j]
        if c == '{': depth += 1
        elif c == '}':
            depth -= 1
            if depth == 0: break
        j += 1
    return src[i:j+1]
def args_of(body, pos):
    depth = 0; j = pos
    while True:
        c = body[j]
        if c == '(': depth += 1
        elif c == ')':
            depth -= 1
            if depth == 0: break
        j += 1
    return body[pos+1:j]
out = {}
for path, names in FUNCS.items():
    src = strip_comments(open(path).read())
    for n in names:
        b = fn_body(src, n)
        key = path.split('/')[-1][:-3] + '::' + n
        if b is None: out[key] = None; continue
        toks = []
        for m in sorted(list(ATOMIC.finditer(b)) + list(CALLS.finditer(b)), key=lambda m: m.start()):
            a = args_of(b, m.end() - 1)
            ords = re.findall(r'Ordering::(\w+)', a)
            if m.re is ATOMIC: toks.append([m.group(1), ords])
            else: toks.append(['call', m.group(1)])
        out[key] = toks
for k, v in out.items(): print('%-36s %s' % (k, v))

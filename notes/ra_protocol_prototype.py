#!/usr/bin/env python3
# Prototype of the RA-view refcount protocol model (design validation only).
import sys, itertools
from functools import lru_cache
RLX, ACQ, REL, ACQREL = 0, 1, 2, 3
def acq(o): return o in (ACQ, ACQREL)
def rel(o): return o in (REL, ACQREL)

CODE = dict(inc=RLX, dec=REL, dec_load=ACQ, cas_s=ACQREL, cas_f=RLX, uniq_load=ACQ)

# state: (msgs, events, cb_freed, buf_freed, threads)
# msgs: tuple of (val, view) ; view = frozenset(eids)
# events: tuple of (kind)  index = eid ; kind in 'R','W' for buf ; cb events separate list
# thread: (K, seen, nh, prog, pc, micro)   nh = number of handles held (refs), prog = tuple of ops
def explore(ords, progs, init_refs):
    # init: cnt = sum(init_refs); all threads know nothing special (no events yet)
    msgs = ((sum(init_refs), frozenset()),)
    threads = tuple((frozenset(), 0, init_refs[i], progs[i], 0, None) for i in range(len(progs)))
    init = (msgs, (), (), False, False, threads)
    seen_states = set(); stack = [(init, ())]; bad = None; finals = set(); n = 0
    while stack:
        st, trace = stack.pop()
        if st in seen_states: continue
        seen_states.add(st); n += 1
        msgs, bev, cev, cb_freed, buf_freed, threads = st
        progressed = False
        for ti, th in enumerate(threads):
            K, seen, nh, prog, pc, micro = th
            if pc >= len(prog) and micro is None: continue
            progressed = True
            op = prog[pc] if micro is None else micro[0]
            def upd(K2, seen2, nh2, pc2, micro2, msgs2=msgs, bev2=bev, cev2=cev, cbf=cb_freed, bf=buf_freed, note=''):
                th2 = (K2, seen2, nh2, prog, pc2, micro2)
                ths = threads[:ti] + (th2,) + threads[ti+1:]
                stack.append(((msgs2, bev2, cev2, cbf, bf, ths), trace + ((ti, note),)))
            def rmw(ordr, f, expect=None):
                if cb_freed: return ('UAF-atomic',)
                val, view = msgs[-1]
                if expect is not None and val != expect: return None
                K2 = K | view if acq(ordr) else K
                nv = view | K2 if rel(ordr) else view
                return (val, K2, msgs + ((f(val), nv),), len(msgs))
            def loads(ordr):
                if cb_freed: return [('UAF-atomic',)]
                out = []
                for j in range(seen, len(msgs)):
                    val, view = msgs[j]
                    out.append((val, K | view if acq(ordr) else K, j))
                return out
            def bufacc(kind, K):
                # returns error string or None
                if buf_freed: return 'UAF-buf'
                for eid, k in enumerate(bev):
                    if (kind == 'W' or k == 'W') and ('b', eid) not in K: return 'RACE-buf'
                return None
            def cbacc(kind, K):
                if cb_freed: return 'UAF-cb'
                for eid, k in enumerate(cev):
                    if (kind == 'W' or k == 'W') and ('c', eid) not in K: return 'RACE-cb'
                return None
            err = None
            if micro is None:
                if op == 'clone':
                    r = rmw(ords['inc'], lambda v: v + 1)
                    if r[0] == 'UAF-atomic': err = r[0]
                    else: upd(r[1], r[3], nh + 1, pc + 1, None, msgs2=r[2], note='clone')
                elif op == 'read':
                    err = bufacc('R', K)
                    if not err:
                        upd(K | {('b', len(bev))}, seen, nh, pc + 1, None, bev2=bev + ('R',), note='read')
                elif op == 'drop':
                    r = rmw(ords['dec'], lambda v: v - 1)
                    if r[0] == 'UAF-atomic': err = r[0]
                    elif r[0] != 1: upd(r[1], r[3], nh - 1, pc + 1, None, msgs2=r[2], note='dec->%d' % (r[0]-1))
                    else: upd(r[1], r[3], nh - 1, pc, ('dropload',), msgs2=r[2], note='dec->0')
                elif op == 'to_vec':
                    r = rmw(ords['cas_s'], lambda v: 0, expect=1)
                    if r is not None:
                        if r[0] == 'UAF-atomic': err = r[0]
                        else: upd(r[1], r[3], nh - 1, pc, ('excl',), msgs2=r[2], note='cas ok')
                    # failure: a load reading any value != 1
                    for l in loads(ords['cas_f']):
                        if l[0] == 'UAF-atomic': err = l[0]; break
                        if l[0] != 1: upd(l[1], l[2], nh, pc, ('copy',), note='cas fail read %d' % l[0])
                elif op == 'to_mut':
                    for l in loads(ords['uniq_load']):
                        if l[0] == 'UAF-atomic': err = l[0]; break
                        if l[0] == 1: upd(l[1], l[2], nh - 1, pc, ('excl',), note='uniq load 1')
                        else: upd(l[1], l[2], nh, pc, ('copy',), note='uniq load %d' % l[0])
                else: raise Exception(op)
            else:
                m = micro[0]
                if m == 'dropload':
                    for l in loads(ords['dec_load']):
                        if l[0] == 'UAF-atomic': err = l[0]; break
                        upd(l[1], l[2], nh, pc, ('free',), note='load after dec')
                elif m == 'free':
                    err = cbacc('R', K) or bufacc('W', K) or cbacc('W', K)
                    if not err: upd(K, seen, nh, pc + 1, None, cbf=True, bf=True, note='free')
                elif m == 'excl':
                    # read cb fields, free cb (no dtor), write buffer (now exclusively owned Vec)
                    err = cbacc('R', K) or cbacc('W', K) or bufacc('W', K)
                    if not err:
                        upd(K | {('b', len(bev))}, seen, nh, pc + 1, None, bev2=bev + ('W',), cbf=True, note='exclusive')
                elif m == 'copy':
                    err = bufacc('R', K)
                    if not err:
                        upd(K | {('b', len(bev))}, seen, nh, pc, ('rel',), bev2=bev + ('R',), note='copy')
                elif m == 'rel':
                    r = rmw(ords['dec'], lambda v: v - 1)
                    if r[0] == 'UAF-atomic': err = r[0]
                    elif r[0] != 1: upd(r[1], r[3], nh - 1, pc + 1, None, msgs2=r[2], note='dec->%d' % (r[0]-1))
                    else: upd(r[1], r[3], nh - 1, pc, ('dropload',), msgs2=r[2], note='dec->0')
            if err:
                return ('BAD', err, trace + ((ti, err),), n)
        if not progressed:
            finals.add((msgs[-1][0], cb_freed, buf_freed))
    return ('OK', finals, n)

def all_progs(maxlen, nh):
    ops = ['clone', 'read', 'drop', 'to_vec', 'to_mut']
    res = []
    for L in range(0, maxlen + 1):
        for p in itertools.product(ops, repeat=L):
            # validity: number of handles never negative, each consuming op needs a handle
            h = nh; ok = True
            for o in p:
                if o == 'clone':
                    if h < 1: ok = False; break
                    h += 1
                elif o == 'read':
                    if h < 1: ok = False; break
                else:
                    if h < 1: ok = False; break
                    h -= 1
            if ok and h == 0: res.append(p)   # all handles consumed at end
    return res

def run(ords, nthreads=2, maxlen=3, stop_first=True):
    progs = all_progs(maxlen, 1)
    total = 0; bad = []
    for ps in itertools.product(progs, repeat=nthreads):
        r = explore(ords, ps, [1] * nthreads)
        total += 1
        if r[0] == 'BAD':
            bad.append((ps, r[1], r[2]))
            if stop_first: break
        else:
            for f in r[1]:
                # at end: either freed both, or exclusively taken (cb freed, buf owned by vec)
                assert f[1], ('leak cb', ps, f)
    return total, bad

if __name__ == '__main__':
    t, bad = run(CODE, 2, 3)
    print('code orderings: programs', t, 'bad', bad[:1])
    for k in CODE:
        for weaker in [RLX, ACQ, REL]:
            if weaker == CODE[k]: continue
            if CODE[k] == ACQ and weaker in (REL,): pass
            o = dict(CODE); o[k] = weaker
            t, bad = run(o, 2, 3)
            print('weaken %-9s -> %d :' % (k, weaker), 'OK' if not bad else ('BAD %s  progs=%s trace=%s' % (bad[0][1], bad[0][0], bad[0][2])))

(* Laws of M5: remaining_mut / chunk_mut / advance_mut / put_slice / put_bytes / typed puts / Writer for arbitrary
   target trees, for EVERY growth oracle satisfying grow_ok. *)
From stdpp Require Import list.
From Coq Require Import NArith ZArith Lia ZifyN ZifyNat ZifyBool String.
From BV Require Import Base BaseLemmas BufLaws Codec CodecLemmas EncLemmas BufMut BufMutSpec.
Local Open Scope N_scope.
Arguments N.add : simpl never. Arguments N.sub : simpl never. Arguments N.min : simpl never. Arguments N.mul : simpl never.
Arguments N.ltb : simpl never. Arguments N.leb : simpl never. Arguments N.eqb : simpl never.

Lemma isize_lt_usize : isize_max < usize_max.
Proof. rewrite usize_max_val. reflexivity. Qed.
Global Opaque isize_max.

(* ---- spec-level algebra of wr / roomZ / ecap ---- *)
Lemma skipN_nil {A} n : skipN n (@nil A) = [].
Proof. by rewrite skipN_eq, drop_nil. Qed.
Lemma firstnN_nil {A} n : firstnN n (@nil A) = [].
Proof. by rewrite firstnN_eq, take_nil. Qed.
Lemma wr_nil t : wr [] t = t.
Proof.
  induction t as [l|a IHa b IHb|n x IH|x IH]; simpl.
  - destruct l; simpl; rewrite ?app_nil_r, ?skipN_0; done.
  - rewrite firstnN_nil, skipN_nil. by rewrite IHa, IHb.
  - rewrite IH. f_equal. change (lenN (@nil byte)) with 0. lia.
  - by rewrite IH.
Qed.
Lemma roomZ_wr bs t : lenN bs <= roomZ t -> roomZ (wr bs t) = roomZ t - lenN bs.
Proof.
  revert bs; induction t as [l|a IHa b IHb|n x IH|x IH]; intros bs Hb; simpl in *.
  - destruct l; simpl in *; rewrite ?lenN_app, ?lenN_skipN; lia.
  - rewrite IHa by (rewrite lenN_firstnN; lia). rewrite IHb by (rewrite lenN_skipN; lia).
    rewrite lenN_firstnN, lenN_skipN. lia.
  - rewrite IH by lia. lia.
  - by apply IH.
Qed.
Lemma wr_app b1 b2 t : lenN b1 <= roomZ t -> wr b2 (wr b1 t) = wr (b1 ++ b2) t.
Proof.
  revert b1 b2; induction t as [l|a IHa b IHb|n x IH|x IH]; intros b1 b2 Hb; simpl in *.
  - destruct l; simpl; rewrite <- ?app_assoc, ?skipN_skipN, ?lenN_app; done.
  - rewrite roomZ_wr by (rewrite lenN_firstnN; lia). rewrite lenN_firstnN, lenN_app.
    destruct (decide (lenN b1 <= roomZ a)) as [Hle|Hgt].
    + (* all of b1 went to a *)
      replace (N.min (lenN b1) (roomZ a)) with (lenN b1) by lia.
      rewrite (firstnN_all (lenN b1) b1) by lia. rewrite (skipN_all (lenN b1) b1) by lia. rewrite wr_nil.
      rewrite IHa by done. f_equal.
      * f_equal. rewrite N.min_id. rewrite firstnN_app_ge by lia. f_equal. f_equal. lia.
      * f_equal. rewrite N.min_id. rewrite skipN_app_ge by lia. f_equal. lia.
    + replace (N.min (lenN b1) (roomZ a)) with (roomZ a) by lia.
      replace (N.min (roomZ a) (lenN b1)) with (roomZ a) by lia.
      replace (roomZ a - roomZ a) with 0 by lia. replace (N.min (lenN b2) 0) with 0 by lia.
      rewrite firstnN_0, skipN_0, wr_nil. rewrite IHb by (rewrite lenN_skipN; lia).
      replace (N.min (lenN b1 + lenN b2) (roomZ a)) with (roomZ a) by lia. f_equal.
      * f_equal. by rewrite firstnN_app_le by lia.
      * f_equal. by rewrite skipN_app_le by lia.
  - rewrite IH by lia. f_equal. rewrite lenN_app. lia.
  - by rewrite IH.
Qed.
Lemma roomZ_ecap t : roomZ (ecap t) = roomZ t.
Proof. induction t as [l|a IHa b IHb|n x IH|x IH]; simpl; rewrite ?IHa, ?IHb, ?IH; try done. by destruct l. Qed.
Lemma ecap_wr bs t : ecap (wr bs t) = wr bs (ecap t).
Proof.
  revert bs; induction t as [l|a IHa b IHb|n x IH|x IH]; intros bs; simpl.
  - by destruct l.
  - by rewrite IHa, IHb, roomZ_ecap.
  - by rewrite IH.
  - by rewrite IH.
Qed.
Lemma ecap_eq_roomZ t t' : ecap t = ecap t' -> roomZ t = roomZ t'.
Proof. intros H. by rewrite <- (roomZ_ecap t), H, roomZ_ecap. Qed.
Lemma ecap_eq_wr bs t t' : ecap t = ecap t' -> ecap (wr bs t) = ecap (wr bs t').
Proof. intros H. by rewrite !ecap_wr, H. Qed.
Lemma written_ecap t : written (ecap t) = written t.
Proof. induction t as [l|a IHa b IHb|n x IH|x IH]; simpl; rewrite ?IHa, ?IHb, ?IH; try done. by destruct l. Qed.
Lemma written_wr_chain_free bs t : chain_free t -> written (wr bs t) = written t ++ bs.
Proof. induction t as [l|a IHa b IHb|n x IH|x IH]; simpl; intros H; try done; try by apply IH. by destruct l. Qed.

Lemma headroom_mono R k k' t : k' <= k -> headroom R k t -> headroom R k' t.
Proof.
  intros Hk. induction t as [l|a IHa b IHb|n x IH|x IH]; simpl; try done.
  - destruct l; try done; lia.
  - intros [? ?]. split; eauto.
Qed.
Lemma rm_roomZ R k t : headroom R k t -> remaining_mut t = N.min (roomZ t) usize_max.
Proof.
  pose proof isize_lt_usize.
  induction t as [l|a IHa b IHb|n x IH|x IH]; simpl; intros Hh.
  - destruct l; simpl in *; lia.
  - destruct Hh as [Ha Hb]. rewrite IHa, IHb by done. unfold sat_add. lia.
  - rewrite IH by done. lia.
  - by apply IH.
Qed.
Lemma spare_le_roomZ R k t : headroom R k t -> spare t <= roomZ t.
Proof.
  pose proof isize_lt_usize.
  induction t as [l|a IHa b IHb|n x IH|x IH]; simpl; intros Hh.
  - destruct l; simpl in *; lia.
  - destruct Hh as [Ha Hb]. specialize (IHa Ha). specialize (IHb Hb). destruct (roomZ a =? 0) eqn:E; lia.
  - specialize (IH Hh). lia.
  - by apply IH.
Qed.

Lemma spare_le_usize R k t : headroom R k t -> spare t <= usize_max.
Proof.
  pose proof isize_lt_usize. induction t as [l|a IHa b IHb|n x IH|x IH]; simpl; intros Hh.
  - destruct l; simpl in *; lia.
  - destruct Hh as [Ha Hb]. destruct (roomZ a =? 0); auto.
  - specialize (IH Hh). lia.
  - auto.
Qed.
Lemma headroom_wr R k bs t : headroom R k t -> lenN bs <= k -> lenN bs <= spare t -> headroom R (k - lenN bs) (wr bs t).
Proof.
  revert bs k; induction t as [l|a IHa b IHb|n x IH|x IH]; intros bs k H Hk Hr; simpl in *.
  - destruct l; simpl in *; rewrite ?lenN_app, ?lenN_skipN; lia.
  - destruct H as [Ha Hb]. pose proof (spare_le_roomZ R k a Ha). destruct (roomZ a =? 0) eqn:E.
    + replace (N.min (lenN bs) (roomZ a)) with 0 by lia. rewrite firstnN_0, skipN_0, wr_nil.
      split; [eapply headroom_mono; [|exact Ha]; lia|by apply IHb].
    + replace (N.min (lenN bs) (roomZ a)) with (lenN bs) by lia. rewrite firstnN_all, skipN_all by lia. rewrite wr_nil.
      split; [by apply IHa|eapply headroom_mono; [|exact Hb]; lia].
  - apply IH; [done|lia|lia].
  - by apply IH.
Qed.

Section Grow.
  Variable grow : N -> N -> N -> N.
  Variable Rv Rb R : N.
  Hypothesis grow_ok : forall len cap add, len + add <= isize_max -> len + add <= grow len cap add <= isize_max.
  Hypothesis Rv_pos : 0 < Rv. Hypothesis Rb_pos : 0 < Rb.
  Hypothesis Rv_le : Rv <= R. Hypothesis Rb_le : Rb <= R.
  Notation chunk_mut := (chunk_mut grow Rv Rb).
  Notation put_loop := (put_loop grow Rv Rb).
  Notation put_slice := (put_slice grow Rv Rb).
  Notation put_bytes := (put_bytes grow Rv Rb).
  Notation reserve := (reserve grow).

  Lemma reserve_some len cap add : len <= cap -> cap <= isize_max -> len + add <= isize_max ->
    exists c, reserve len cap add = Some c /\ len + add <= c /\ c <= isize_max.
  Proof.
    intros H1 H2 H3. unfold BufMut.reserve. destruct (add <=? cap - len) eqn:E.
    - exists cap. split; [done|lia].
    - replace (isize_max <? len + add) with false by lia. exists (grow len cap add). split; [done|]. by apply grow_ok.
  Qed.

  (* chunk_mut: never fails inside the head room; hands out spare t' > 0 whenever there is room; changes capacities only *)
  Theorem chunk_mut_ok k t : headroom R k t ->
    exists t', chunk_mut t = Ok (spare t', t') /\ ecap t' = ecap t /\ headroom R k t' /\ (0 < roomZ t -> 0 < spare t').
  Proof.
    induction t as [l|a IHa b IHb|n x IH|x IH]; simpl; intros Hh.
    - destruct l as [d c|d c|w r|w r]; simpl in *.
      + destruct (c =? lenN d) eqn:E.
        * destruct (reserve_some (lenN d) c Rv) as (c' & Hr & Hc1 & Hc2); [lia..|]. rewrite Hr. simpl.
          exists (TLeaf (TVec d c')). simpl. repeat split; try done; lia.
        * exists (TLeaf (TVec d c)). simpl. repeat split; try done; lia.
      + destruct (c =? lenN d) eqn:E.
        * destruct (reserve_some (lenN d) c Rb) as (c' & Hr & Hc1 & Hc2); [lia..|]. rewrite Hr. simpl.
          exists (TLeaf (TBytesMut d c')). simpl. repeat split; try done; lia.
        * exists (TLeaf (TBytesMut d c)). simpl. repeat split; try done; lia.
      + exists (TLeaf (TSlice w r)). simpl. repeat split; done.
      + exists (TLeaf (TUninit w r)). simpl. repeat split; done.
    - destruct Hh as [Ha Hb]. unfold has_remaining_mut. rewrite (rm_roomZ R k a Ha).
      pose proof isize_lt_usize.
      destruct (roomZ a =? 0) eqn:E.
      + replace (0 <? N.min (roomZ a) usize_max) with false by lia.
        destruct (IHb Hb) as (b' & Hc & He & Hh' & Hp). rewrite Hc. simpl.
        exists (ChainM a b'). simpl. rewrite E. repeat split; try done; [by rewrite He|lia].
      + replace (0 <? N.min (roomZ a) usize_max) with true by lia.
        destruct (IHa Ha) as (a' & Hc & He & Hh' & Hp). rewrite Hc. simpl.
        exists (ChainM a' b). simpl. rewrite (ecap_eq_roomZ _ _ He), E. repeat split; try done; [by rewrite He|].
        intros _. apply Hp. lia.
    - destruct (IH Hh) as (x' & Hc & He & Hh' & Hp). rewrite Hc. simpl.
      exists (LimitM n x'). simpl. repeat split; try done; [by rewrite He|]. intros H. specialize (Hp ltac:(lia)). lia.
    - destruct (IH Hh) as (x' & Hc & He & Hh' & Hp). rewrite Hc. simpl.
      exists (FwdM x'). simpl. repeat split; try done. by rewrite He.
  Qed.

  (* advance_mut of bytes that fit into the chunk handed out = wr, exactly *)
  Theorem advance_mut_ok k bs t : headroom R k t -> lenN bs <= spare t -> advance_mut bs t = Ok (wr bs t).
  Proof.
    revert bs; induction t as [l|a IHa b IHb|n x IH|x IH]; intros bs Hh Hs; simpl in *.
    - destruct l as [d c|d c|w r|w r]; simpl in *.
      + replace (c - lenN d <? lenN bs) with false by lia. done.
      + replace (c - lenN d <? lenN bs) with false by lia. done.
      + replace (lenN r <? lenN bs) with false by lia. done.
      + replace (lenN r <? lenN bs) with false by lia. done.
    - destruct Hh as [Ha Hb]. rewrite (rm_roomZ R k a Ha). pose proof isize_lt_usize.
      pose proof (spare_le_roomZ R k a Ha). pose proof (spare_le_roomZ R k b Hb). pose proof (spare_le_usize R k a Ha).
      destruct (roomZ a =? 0) eqn:E.
      + replace (N.min (roomZ a) usize_max =? 0) with true by lia. simpl.
        rewrite IHb by done. simpl. replace (N.min (lenN bs) (roomZ a)) with 0 by lia.
        by rewrite firstnN_0, skipN_0, wr_nil.
      + replace (N.min (roomZ a) usize_max =? 0) with false by lia. simpl.
        replace (lenN bs <=? N.min (roomZ a) usize_max) with true by lia.
        rewrite IHa by done. simpl. replace (N.min (lenN bs) (roomZ a)) with (lenN bs) by lia.
        rewrite firstnN_all, skipN_all by lia. by rewrite wr_nil.
    - replace (lenN bs <=? n) with true by lia. rewrite IH by (done || lia). done.
    - rewrite IH by done. done.
  Qed.

  Lemma put_loop_ok fuel : forall k bs t, headroom R k t -> lenN bs <= k -> lenN bs <= roomZ t -> (length bs < fuel)%nat ->
    exists t', put_loop fuel bs t = Ok t' /\ ecap t' = ecap (wr bs t) /\ headroom R (k - lenN bs) t'.
  Proof.
    induction fuel as [|f IH]; intros k bs t Hh Hk Hr Hf; [lia|].
    destruct bs as [|b0 bs0].
    - simpl. exists t. rewrite wr_nil. split; [done|]. split; [done|]. eapply headroom_mono; [|exact Hh]. lia.
    - cbn [BufMut.put_loop]. set (bs := b0 :: bs0) in *.
      destruct (chunk_mut_ok k t Hh) as (t1 & Hc & He1 & Hh1 & Hp). rewrite Hc. cbn [bind].
      assert (0 < lenN bs) as Hpos by (unfold bs; rewrite lenN_cons; lia).
      specialize (Hp ltac:(lia)).
      set (cnt := N.min (lenN bs) (spare t1)).
      assert (lenN (firstnN cnt bs) = cnt) as Hlf by (rewrite lenN_firstnN; lia).
      rewrite (advance_mut_ok k) by (done || lia). cbn [bind].
      assert (roomZ t1 = roomZ t) as Hrz by by apply ecap_eq_roomZ.
      pose proof (spare_le_roomZ R k t1 Hh1) as Hsp.
      destruct (IH (k - cnt) (skipN cnt bs) (wr (firstnN cnt bs) t1)) as (t' & Hl & He & Hh').
      + rewrite <- Hlf at 1. apply headroom_wr; [done|lia|lia].
      + rewrite lenN_skipN. lia.
      + rewrite roomZ_wr by lia. rewrite lenN_skipN. lia.
      + rewrite skipN_eq, drop_length. unfold lenN in *. lia.
      + exists t'. split; [done|]. split.
        * rewrite He. rewrite !ecap_wr, He1. rewrite wr_app by (rewrite roomZ_ecap; lia). by rewrite firstnN_skipN.
        * eapply headroom_mono; [|exact Hh']. rewrite lenN_skipN. lia.
  Qed.

  Definition put_post (k : N) (bs : list byte) (t : tgt) (r : res tgt) : Prop :=
    if roomZ t <? lenN bs then r = Panic
    else exists t', r = Ok t' /\ ecap t' = ecap (wr bs t) /\ headroom R (k - lenN bs) t'.
  Lemma default_put_slice_spec k bs t : headroom R k t -> lenN bs <= k -> k <= isize_max ->
    put_post k bs t (default_put_slice grow Rv Rb bs t).
  Proof.
    intros Hh Hk Hki. unfold put_post, default_put_slice. rewrite (rm_roomZ R k t Hh). pose proof isize_lt_usize.
    destruct (roomZ t <? lenN bs) eqn:E.
    - replace (N.min (roomZ t) usize_max <? lenN bs) with true by lia. done.
    - replace (N.min (roomZ t) usize_max <? lenN bs) with false by lia.
      apply put_loop_ok; [done|done|lia|lia].
  Qed.
  Lemma append_growing_vec d c k bs : lenN d <= c -> c <= isize_max -> lenN d + k + R <= isize_max -> lenN bs <= k ->
    exists t', append_growing grow TVec d c bs = Ok t' /\ ecap t' = ecap (wr bs (TLeaf (TVec d c))) /\ headroom R (k - lenN bs) t'.
  Proof.
    intros H1 H2 H3 Hk. unfold append_growing.
    destruct (reserve_some (lenN d) c (lenN bs)) as (c' & Hr & Hc1 & Hc2); [lia..|]. rewrite Hr.
    exists (TLeaf (TVec (d ++ bs) c')). split; [done|]. simpl. split; [done|]. rewrite lenN_app. lia.
  Qed.
  Lemma append_growing_bm d c k bs : lenN d <= c -> c <= isize_max -> lenN d + k + R <= isize_max -> lenN bs <= k ->
    exists t', append_growing grow TBytesMut d c bs = Ok t' /\ ecap t' = ecap (wr bs (TLeaf (TBytesMut d c))) /\ headroom R (k - lenN bs) t'.
  Proof.
    intros H1 H2 H3 Hk. unfold append_growing.
    destruct (reserve_some (lenN d) c (lenN bs)) as (c' & Hr & Hc1 & Hc2); [lia..|]. rewrite Hr.
    exists (TLeaf (TBytesMut (d ++ bs) c')). split; [done|]. simpl. split; [done|]. rewrite lenN_app. lia.
  Qed.

  Theorem put_slice_spec k bs t : headroom R k t -> lenN bs <= k -> k <= isize_max -> put_post k bs t (put_slice bs t).
  Proof.
    revert bs k; induction t as [l|a IHa b IHb|n x IH|x IH]; intros bs k Hh Hk Hki; cbn [BufMut.put_slice].
    - destruct l as [d c|d c|w r|w r]; unfold put_post; simpl in *.
      + replace (isize_max - lenN d <? lenN bs) with false by lia.
        apply append_growing_vec; lia.
      + pose proof isize_lt_usize. replace (usize_max - lenN d <? lenN bs) with false by lia.
        apply append_growing_bm; lia.
      + destruct (lenN r <? lenN bs) eqn:E; [done|]. eexists. split; [done|]. split; [done|]. simpl. rewrite lenN_skipN. lia.
      + destruct (lenN r <? lenN bs) eqn:E; [done|]. eexists. split; [done|]. split; [done|]. simpl. rewrite lenN_skipN. lia.
    - by apply default_put_slice_spec.
    - by apply default_put_slice_spec.
    - specialize (IH bs k Hh Hk Hki). unfold put_post in *. simpl. destruct (roomZ x <? lenN bs).
      + by rewrite IH.
      + destruct IH as (x' & -> & He & Hh'). exists (FwdM x'). simpl. by rewrite He.
  Qed.
  Theorem put_bytes_spec k v cnt t bs : bs = repeat v (N.to_nat cnt) -> headroom R k t -> cnt <= k -> k <= isize_max ->
    put_post k bs t (put_bytes v cnt t).
  Proof.
    intros Hbs Hh Hk Hki.
    assert (cnt = lenN bs) as Hl by (rewrite Hbs; unfold lenN; rewrite repeat_length; lia).
    unfold BufMut.put_bytes. rewrite <- Hbs. clear Hbs. subst cnt.
    destruct t as [l|a b|n x|x]; try (apply default_put_slice_spec; [done|lia|done]).
    destruct l as [d c|d c|w r|w r]; unfold put_post; simpl in *.
    - replace (isize_max - lenN d <? lenN bs) with false by lia. apply append_growing_vec; lia.
    - pose proof isize_lt_usize. replace (usize_max - lenN d <? lenN bs) with false by lia. apply append_growing_bm; lia.
    - destruct (lenN r <? lenN bs) eqn:E; [done|]. eexists. split; [done|]. split; [done|]. simpl. rewrite lenN_skipN. lia.
    - destruct (lenN r <? lenN bs) eqn:E; [done|]. eexists. split; [done|]. split; [done|]. simpl. rewrite lenN_skipN. lia.
  Qed.

  (* chunk_mut law of C11, in terms of the observable remaining_mut *)
  Theorem chunk_mut_law k t : headroom R k t ->
    exists n t', chunk_mut t = Ok (n, t') /\ remaining_mut t' = remaining_mut t /\ n <= remaining_mut t /\ (n = 0 <-> remaining_mut t = 0).
  Proof.
    intros Hh. destruct (chunk_mut_ok k t Hh) as (t' & Hc & He & Hh' & Hp). exists (spare t'), t'. split; [done|].
    pose proof (spare_le_roomZ R k t' Hh'). pose proof isize_lt_usize.
    rewrite (rm_roomZ R k t Hh), (rm_roomZ R k t' Hh'), (ecap_eq_roomZ _ _ He).
    pose proof (spare_le_usize R k t' Hh').
    rewrite (ecap_eq_roomZ _ _ He) in *. repeat split; lia.
  Qed.

  (* Writer::write never fails and accepts min(remaining_mut, len) *)
  Theorem writer_write_spec k src t : headroom R k t -> lenN src <= k -> k <= isize_max ->
    let n := N.min (remaining_mut t) (lenN src) in
    exists t', writer_write grow Rv Rb src t = Ok (n, t') /\ ecap t' = ecap (wr (firstnN n src) t).
  Proof.
    intros Hh Hk Hki n. unfold writer_write. fold n.
    pose proof (put_slice_spec k (firstnN n src) t Hh) as Hp. unfold put_post in Hp.
    assert (lenN (firstnN n src) = n) as Hl by (rewrite lenN_firstnN; lia). rewrite Hl in Hp.
    assert (n <= roomZ t) by (unfold n; rewrite (rm_roomZ R k t Hh); lia).
    replace (roomZ t <? n) with false in Hp by lia.
    destruct Hp as (t' & -> & He & _); [lia|done|]. exists t'. done.
  Qed.
End Grow.

(* typed writes by NAME, for every table passing put_tables_ok *)
Definition put_size (d : gdesc) (nbytes : N) : N := match g_kind d with GKVar => nbytes | _ => g_size d end.
Lemma put_body_bytes grow Rv Rb d z nbytes t : (g_kind d = GK8 -> g_size d = 1) -> (g_kind d = GKVar -> nbytes <= 8) ->
  put_body grow Rv Rb d z nbytes t = BufMut.put_slice grow Rv Rb (enc (g_endian d) (put_size d nbytes) z) t.
Proof.
  intros H8 Hv. unfold put_body, put_size. destruct (g_kind d) eqn:Ek.
  - rewrite H8 by done. f_equal. unfold enc, be_bytes. destruct (g_endian d); [done|]. simpl. done.
  - done.
  - specialize (Hv eq_refl). replace (8 <? nbytes) with false by lia.
    destruct (g_endian d); [by rewrite enc_be_truncate|by rewrite enc_le_truncate].
Qed.

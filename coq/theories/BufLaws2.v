(* Laws of M4, part 2: the provided methods (copy_to_slice, try_copy_to_slice, copy_to_bytes, into_iter,
   Reader) return exactly the next bytes and leave `adv k b`; none of their loops runs out of fuel. *)
From stdpp Require Import list.
From Coq Require Import NArith Lia ZifyN ZifyNat ZifyBool.
From BV Require Import Base BaseLemmas Buf BufSpec BufLaws.
Local Open Scope N_scope.
Arguments N.add : simpl never. Arguments N.sub : simpl never. Arguments N.min : simpl never.
Arguments N.ltb : simpl never. Arguments N.leb : simpl never. Arguments N.eqb : simpl never.

Lemma tcs_loop_ok fuel : forall k b acc, wf b -> k <= lenN (den b) -> (N.to_nat k < fuel)%nat ->
  tcs_loop fuel k b acc = Ok (acc ++ firstnN k (den b), adv k b).
Proof.
  induction fuel as [|f IH]; intros k b acc Hwf Hk Hf; [lia|].
  cbn [tcs_loop]. destruct (k =? 0) eqn:E0.
  - replace k with 0 by lia. rewrite firstnN_0, app_nil_r, adv_zero by done. done.
  - pose proof (chunk_prefix b Hwf) as Hp. pose proof (chunk_nonempty b Hwf ltac:(lia)) as Hne.
    pose proof (prefix_lenN _ _ Hp) as Hlen.
    set (cnt := N.min (lenN (chunk b)) k).
    rewrite advance_ok by (done || lia). cbn [bind].
    rewrite IH; [|apply wf_adv; [done|lia]|rewrite len_adv; lia|lia].
    rewrite adv_add, den_adv. replace (cnt + (k - cnt)) with k by lia.
    rewrite <- app_assoc. do 2 f_equal.
    rewrite (firstnN_prefix_mono cnt _ _ Hp) by lia.
    rewrite <- firstnN_add. replace (cnt + (k - cnt)) with k by lia. done.
Qed.

Definition tcs_spec (k : N) (b : buf) : tryres (list byte * buf) :=
  if lenN (den b) <? k then TErr k (lenN (den b)) else TOk (firstnN k (den b), adv k b).
Lemma try_copy_to_slice_spec k b : wf b -> try_copy_to_slice k b = Ok (tcs_spec k b).
Proof.
  intros Hwf. unfold try_copy_to_slice, tcs_spec. rewrite remaining_den by done.
  destruct (lenN (den b) <? k) eqn:E; [done|]. rewrite tcs_loop_ok by (done || lia). done.
Qed.
Theorem try_copy_to_slice_d_spec k b : wf b -> try_copy_to_slice_d k b = Ok (tcs_spec k b).
Proof.
  induction b as [l|a IHa c IHc|n x IH|x IH]; intros Hwf; cbn [try_copy_to_slice_d]; try by apply try_copy_to_slice_spec.
  simpl in Hwf. rewrite IH by done. cbn [bind]. unfold tcs_spec. simpl. by destruct (_ <? _).
Qed.
Definition cts_spec (k : N) (b : buf) : res (list byte * buf) :=
  if lenN (den b) <? k then Panic else Ok (firstnN k (den b), adv k b).
Lemma default_copy_to_slice_spec k b : wf b -> default_copy_to_slice k b = cts_spec k b.
Proof.
  intros Hwf. unfold default_copy_to_slice, cts_spec. rewrite try_copy_to_slice_d_spec by done. cbn [bind].
  unfold tcs_spec. by destruct (_ <? _).
Qed.
Theorem copy_to_slice_spec k b : wf b -> copy_to_slice k b = cts_spec k b.
Proof.
  induction b as [l|a IHa c IHc|n x IH|x IH]; intros Hwf; cbn [copy_to_slice]; try by apply default_copy_to_slice_spec.
  - destruct l; try by apply default_copy_to_slice_spec. unfold cts_spec. simpl. by destruct (_ <? _).
  - simpl in Hwf. rewrite IH by done. unfold cts_spec. simpl. by destruct (_ <? _).
Qed.

Lemma drain_ok fuel : forall b acc, wf b -> (N.to_nat (lenN (den b)) < fuel)%nat ->
  drain fuel b acc = Ok (acc ++ den b, adv (lenN (den b)) b).
Proof.
  induction fuel as [|f IH]; intros b acc Hwf Hf; [lia|].
  cbn [drain]. rewrite has_remaining_den by done. destruct (lenN (den b) =? 0) eqn:E0; simpl negb; cbv iota.
  - assert (den b = []) as Hd by (apply lenN_zero; lia). rewrite Hd, app_nil_r. simpl. by rewrite adv_zero.
  - pose proof (chunk_prefix b Hwf) as Hp. pose proof (chunk_nonempty b Hwf ltac:(lia)) as Hne.
    pose proof (prefix_lenN _ _ Hp) as Hlen.
    rewrite advance_ok by (done || lia). cbn [bind].
    rewrite IH; [|apply wf_adv; [done|lia]|rewrite len_adv; lia].
    rewrite len_adv, adv_add, den_adv. replace (lenN (chunk b) + (lenN (den b) - lenN (chunk b))) with (lenN (den b)) by lia.
    rewrite <- app_assoc. do 2 f_equal. destruct Hp as [r Hr]. rewrite Hr at 1 2. rewrite skipN_app_ge by lia.
    replace (lenN (chunk b) - lenN (chunk b)) with 0 by lia. by rewrite skipN_0.
Qed.
Lemma drain_all_ok b : wf b -> drain_all b = Ok (den b, adv (lenN (den b)) b).
Proof. intros Hwf. unfold drain_all. rewrite remaining_den by done. by rewrite drain_ok by (done || lia). Qed.

Lemma default_copy_to_bytes_spec k b : wf b -> default_copy_to_bytes k b = cts_spec k b.
Proof.
  intros Hwf. unfold default_copy_to_bytes, cts_spec. rewrite remaining_den by done.
  destruct (lenN (den b) <? k) eqn:E; [done|].
  pose proof (wf_den b Hwf).
  rewrite drain_all_ok by (simpl; split; [done|lia]). cbn [bind]. simpl.
  rewrite lenN_firstnN. replace (N.min k (lenN (den b))) with k by lia. done.
Qed.
Theorem copy_to_bytes_spec k b : wf b -> copy_to_bytes k b = cts_spec k b.
Proof.
  revert k; induction b as [l|a IHa c IHc|n x IH|x IH]; intros k Hwf; cbn [copy_to_bytes].
  - destruct l; try by apply default_copy_to_bytes_spec.
    + unfold cts_spec. simpl. destruct (k <=? lenN l) eqn:E; [replace (lenN l <? k) with false by lia|replace (lenN l <? k) with true by lia]; done.
    + unfold cts_spec. simpl. destruct (k <=? lenN l) eqn:E; [replace (lenN l <? k) with false by lia|replace (lenN l <? k) with true by lia]; done.
  - destruct Hwf as (Ha & Hc & Hl). rewrite !remaining_den by done. unfold cts_spec. simpl. rewrite lenN_app in *.
    destruct (k <=? lenN (den a)) eqn:E1.
    + rewrite IHa by done. unfold cts_spec. replace (lenN (den a) <? k) with false by lia. cbn [bind].
      replace (lenN (den a) + lenN (den c) <? k) with false by lia.
      replace (N.min k (lenN (den a))) with k by lia. replace (k - k) with 0 by lia. rewrite adv_zero by done.
      by rewrite firstnN_app_le by lia.
    + destruct (lenN (den a) =? 0) eqn:E2.
      * rewrite IHc by done. unfold cts_spec. assert (den a = []) as Hda by (apply lenN_zero; lia).
        replace (lenN (den a) + lenN (den c) <? k) with (lenN (den c) <? k) by lia.
        destruct (lenN (den c) <? k); [done|]. cbn [bind].
        replace (N.min k (lenN (den a))) with 0 by lia. rewrite adv_zero by done. replace (k - 0) with k by lia.
        rewrite Hda. done.
      * destruct (k - lenN (den a) <=? lenN (den c)) eqn:E3.
        -- replace (lenN (den a) + lenN (den c) <? k) with false by lia.
           pose proof (wf_den a Ha). pose proof (wf_den c Hc).
           rewrite drain_all_ok by done. cbn [bind].
           rewrite drain_all_ok by (simpl; split; [done|lia]). cbn [bind]. simpl.
           rewrite lenN_firstnN. replace (N.min (k - lenN (den a)) (lenN (den c))) with (k - lenN (den a)) by lia.
           replace (N.min k (lenN (den a))) with (lenN (den a)) by lia.
           by rewrite firstnN_app_ge by lia.
        -- replace (lenN (den a) + lenN (den c) <? k) with true by lia. done.
  - destruct Hwf as (Hx & Hn). rewrite remaining_den by done. unfold cts_spec. simpl. rewrite lenN_firstnN.
    destruct (k <=? N.min (lenN (den x)) n) eqn:E.
    + rewrite IH by done. unfold cts_spec. replace (lenN (den x) <? k) with false by lia. cbn [bind].
      replace (N.min n (lenN (den x)) <? k) with false by lia.
      by rewrite firstnN_firstnN, N.min_l by lia.
    + replace (N.min n (lenN (den x)) <? k) with true by lia. done.
  - simpl in Hwf. rewrite IH by done. unfold cts_spec. simpl. by destruct (_ <? _).
Qed.

Theorem iter_next_spec b : wf b ->
  iter_next b = Ok (match den b with [] => (None, b) | x :: _ => (Some x, adv 1 b) end).
Proof.
  intros Hwf. unfold iter_next. rewrite has_remaining_den by done.
  destruct (den b) as [|x r] eqn:Ed; [done|]. rewrite lenN_cons. replace (1 + lenN r =? 0) with false by lia. simpl negb. cbv iota.
  pose proof (chunk_prefix b Hwf) as Hp.
  assert (0 < lenN (chunk b)) as Hne by (apply chunk_nonempty; [done|rewrite Ed, lenN_cons; lia]).
  destruct (chunk b) as [|y c] eqn:Ec; [by compute in Hne|].
  rewrite Ed in Hp. destruct Hp as [k Hk]. injection Hk as -> _.
  rewrite advance_ok by (done || rewrite Ed, lenN_cons; lia). done.
Qed.
Theorem reader_read_spec k b : wf b ->
  reader_read k b = Ok (firstnN (N.min k (lenN (den b))) (den b), adv (N.min k (lenN (den b))) b).
Proof.
  intros Hwf. unfold reader_read. rewrite remaining_den, copy_to_slice_spec by done. unfold cts_spec.
  replace (lenN (den b) <? N.min (lenN (den b)) k) with false by lia. by rewrite (N.min_comm k).
Qed.

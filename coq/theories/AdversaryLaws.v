(* Laws of M6: for EVERY adversary (every schedule of lies and panics), every adapter tree, every call-counter state and
   every fuel, no consumer reaches AUB; and what the guards buy in addition: bounded output, exact accounting. *)
From stdpp Require Import list.
From Coq Require Import NArith Lia ZifyN ZifyNat ZifyBool.
From BV Require Import Base BaseLemmas Adversary.
Local Open Scope N_scope.
Arguments N.add : simpl never. Arguments N.sub : simpl never. Arguments N.min : simpl never.
Arguments N.ltb : simpl never. Arguments N.leb : simpl never. Arguments N.eqb : simpl never.

Definition safe {A} (r : ares A) : Prop := r <> AUB.
Lemma safe_ok {A} (a : A) : safe (AOk a). Proof. done. Qed.
Lemma safe_panic {A} : safe (@APanic A). Proof. done. Qed.
Lemma safe_hang {A} : safe (@AHang A). Proof. done. Qed.
Lemma safe_bind {A B} (r : ares A) (f : A -> ares B) : safe r -> (forall a, r = AOk a -> safe (f a)) -> safe (abind r f).
Proof. destruct r; simpl; intros H1 H2; try done. by apply H2. Qed.
Global Hint Resolve safe_ok safe_panic safe_hang : adv.

Section Laws.
Variable A : adversary.

Lemma remaining_safe t k : safe (xremaining A t k).
Proof.
  revert k; induction t as [|bs|l t IH|a IHa b IHb]; intros k; simpl; auto with adv.
  - destruct (a_rem A _); auto with adv.
  - apply safe_bind; [apply IH|]. intros [r k'] _. auto with adv.
  - apply safe_bind; [apply IHa|]. intros [ra k'] _. apply safe_bind; [apply IHb|]. intros [rb k''] _. auto with adv.
Qed.
Lemma chunk_safe t k : safe (xchunk A t k).
Proof.
  revert k; induction t as [|bs|l t IH|a IHa b IHb]; intros k; simpl; auto with adv.
  - destruct (a_chunk A _); auto with adv.
  - apply safe_bind; [apply IH|]. intros [c k'] _. auto with adv.
  - apply safe_bind; [apply remaining_safe|]. intros [ra k'] _. destruct (0 <? ra); auto.
Qed.
Lemma advance_safe t cnt k : safe (xadvance A t cnt k).
Proof.
  revert cnt k; induction t as [|bs|l t IH|a IHa b IHb]; intros cnt k; simpl; auto with adv.
  - destruct (a_adv A _ _); auto with adv.
  - destruct (lenN bs <? cnt); auto with adv.
  - destruct (l <? cnt); auto with adv. apply safe_bind; [apply IH|]. intros [t' k'] _. auto with adv.
  - apply safe_bind; [apply remaining_safe|]. intros [ra k'] _.
    destruct (negb (ra =? 0)); [destruct (cnt <=? ra)|].
    + apply safe_bind; [apply IHa|]. intros [a' k''] _. auto with adv.
    + apply safe_bind; [apply IHa|]. intros [a' k''] _. apply safe_bind; [apply IHb|]. intros [b' k3] _. auto with adv.
    + apply safe_bind; [apply IHb|]. intros [b' k''] _. auto with adv.
Qed.

(* what the adapters guarantee whatever the leaves say *)
Lemma chunk_take_le l t k c k' : xchunk A (TTake l t) k = AOk (c, k') -> lenN c <= l.
Proof.
  simpl. destruct (xchunk A t k) as [[c0 k0]| | |]; simpl; try done. intros [= <- <-]. rewrite lenN_firstnN. lia.
Qed.
Lemma remaining_take_le l t k r k' : xremaining A (TTake l t) k = AOk (r, k') -> r <= l.
Proof. simpl. destruct (xremaining A t k) as [[r0 k0]| | |]; simpl; try done. intros [= <- <-]. lia. Qed.
Lemma advance_take l t cnt k t' k' : xadvance A (TTake l t) cnt k = AOk (t', k') -> cnt <= l /\ exists t'', t' = TTake (l - cnt) t''.
Proof.
  simpl. destruct (l <? cnt) eqn:E; [done|]. destruct (xadvance A t cnt k) as [[t0 k0]| | |]; simpl; try done.
  intros [= <- <-]. split; [lia|eauto].
Qed.

(* ---- the getters / copy loops ---- *)
Lemma tcs_loop_safe fuel need acc t k : safe (xtcs_loop A fuel need acc t k).
Proof.
  revert need acc t k; induction fuel as [|fuel IH]; intros need acc t k; simpl; destruct (need =? 0); auto with adv.
  apply safe_bind; [apply chunk_safe|]. intros [c k'] _. apply safe_bind; [apply advance_safe|]. intros [t' k''] _. apply IH.
Qed.
(* the bytes delivered are exactly as many as asked for (they may be WRONG bytes, never out-of-bounds ones) *)
Lemma tcs_loop_len fuel need acc t k t' bs k' : xtcs_loop A fuel need acc t k = AOk (t', bs, k') -> lenN bs = lenN acc + need.
Proof.
  revert need acc t k; induction fuel as [|fuel IH]; intros need acc t k; simpl; destruct (need =? 0) eqn:E; try done.
  - intros [= <- <- <-]. lia.
  - intros [= <- <- <-]. lia.
  - destruct (xchunk A t k) as [[c k1]| | |]; simpl; try done.
    destruct (xadvance A t _ k1) as [[t1 k2]| | |]; simpl; try done.
    intros H. apply IH in H. rewrite H, lenN_app, lenN_firstnN. lia.
Qed.
Lemma try_copy_to_slice_safe fuel t n k : safe (xtry_copy_to_slice A fuel t n k).
Proof.
  unfold xtry_copy_to_slice. apply safe_bind; [apply remaining_safe|]. intros [r k'] _. destruct (r <? n).
  - apply safe_bind; [apply remaining_safe|]. intros [r2 k''] _. auto with adv.
  - apply safe_bind; [apply tcs_loop_safe|]. intros [[t' bs] k''] _. auto with adv.
Qed.
Lemma copy_to_slice_safe fuel t n k : safe (xcopy_to_slice A fuel t n k).
Proof.
  unfold xcopy_to_slice. apply safe_bind; [apply try_copy_to_slice_safe|]. intros [[[t' bs]|rq av] k'] _; auto with adv.
Qed.
Theorem try_get_fixed_safe fuel t size k : safe (try_get_fixed A fuel t size k).
Proof.
  unfold try_get_fixed. apply safe_bind; [apply remaining_safe|]. intros [r k'] _. destruct (r <? size).
  - apply safe_bind; [apply remaining_safe|]. intros [r2 k''] _. auto with adv.
  - apply safe_bind; [apply chunk_safe|]. intros [c k''] _. destruct (size <=? lenN c) eqn:E.
    + (* the guard is on the slice actually returned *)
      unfold raw_read_array. rewrite E. simpl. apply safe_bind; [apply advance_safe|]. intros [t' k3] _. auto with adv.
    + apply safe_bind; [apply copy_to_slice_safe|]. intros [[t' bs] k3] _. auto with adv.
Qed.
Lemma try_get_u8_safe t k : safe (try_get_u8 A t k).
Proof.
  unfold try_get_u8. apply safe_bind; [apply remaining_safe|]. intros [r k'] _. destruct (r <? 1).
  - apply safe_bind; [apply remaining_safe|]. intros [r2 k''] _. auto with adv.
  - apply safe_bind; [apply chunk_safe|]. intros [[|b c] k''] _; auto with adv.
    apply safe_bind; [apply advance_safe|]. intros [t' k3] _. auto with adv.
Qed.
Lemma reader_read_safe fuel t n k : safe (xreader_read A fuel t n k).
Proof. unfold xreader_read. apply safe_bind; [apply remaining_safe|]. intros [r k'] _. apply copy_to_slice_safe. Qed.
Lemma iter_next_safe t k : safe (xiter_next A t k).
Proof.
  unfold xiter_next. apply safe_bind; [apply remaining_safe|]. intros [r k'] _. destruct (r =? 0); auto with adv.
  apply safe_bind; [apply chunk_safe|]. intros [[|b c] k''] _; auto with adv.
  apply safe_bind; [apply advance_safe|]. intros [t' k3] _. auto with adv.
Qed.

(* ---- BytesMut target ---- *)
Section Grow.
Variable grow : N -> N.
Definition bm_wf (b : bm) : Prop := lenN (bm_data b) <= bm_cap b.
Lemma bm_reserve_post n b b' : bm_wf b -> bm_reserve grow n b = AOk b' ->
  bm_data b' = bm_data b /\ n <= bm_cap b' - lenN (bm_data b') /\ bm_wf b'.
Proof.
  unfold bm_reserve, bm_wf. intros Hwf. destruct (n <=? _) eqn:E1; [intros [= <-]; repeat split; lia|].
  destruct (xisize_max <? _); [done|]. intros [= <-]. simpl. repeat split; lia.
Qed.
Lemma bm_reserve_safe n b : safe (bm_reserve grow n b).
Proof. unfold bm_reserve. destruct (_ <=? _); auto with adv. destruct (_ <? _); auto with adv. Qed.
Lemma bm_extend_from_slice_safe s b : bm_wf b -> safe (bm_extend_from_slice grow s b).
Proof.
  intros Hwf. unfold bm_extend_from_slice. destruct (bm_reserve grow (lenN s) b) as [b1| | |] eqn:Hr; cbn [abind]; auto with adv.
  2:{ exfalso. by eapply (bm_reserve_safe (lenN s) b). }
  destruct (bm_reserve_post _ _ _ Hwf Hr) as (Hd & Hroom & Hwf1).
  assert (raw_copy (bm_cap b1 - lenN (bm_data b1)) (lenN s) (lenN s) = AOk tt) as ->.
  { unfold raw_copy. destruct (lenN s <=? bm_cap b1 - lenN (bm_data b1)) eqn:E1; [|lia]. destruct (lenN s <=? lenN s) eqn:E2; [done|lia]. }
  cbn [abind]. unfold bm_advance_mut. destruct (_ <? _); auto with adv.
Qed.
Lemma bm_extend_from_slice_post s b b' : bm_wf b -> bm_extend_from_slice grow s b = AOk b' -> bm_data b' = bm_data b ++ s /\ bm_wf b'.
Proof.
  intros Hwf. unfold bm_extend_from_slice. destruct (bm_reserve grow (lenN s) b) as [b1| | |] eqn:Hr; simpl; try done.
  destruct (bm_reserve_post _ _ _ Hwf Hr) as (Hd & Hroom & Hwf1).
  destruct (raw_copy _ _ _); simpl; try done. unfold bm_advance_mut. destruct (_ <? _) eqn:E; [done|]. intros [= <-]. simpl.
  rewrite Hd. split; [done|]. unfold bm_wf in *. simpl. rewrite lenN_app. rewrite Hd in *. lia.
Qed.
Lemma bm_put_safe fuel t b k : bm_wf b -> safe (bm_put A grow fuel t b k).
Proof.
  revert t b k; induction fuel as [|fuel IH]; intros t b k Hwf; simpl; auto with adv.
  apply safe_bind; [apply remaining_safe|]. intros [r k1] _. destruct (r =? 0); auto with adv.
  apply safe_bind; [apply chunk_safe|]. intros [s k2] _.
  apply safe_bind; [by apply bm_extend_from_slice_safe|]. intros b1 Hb1.
  apply safe_bind; [apply advance_safe|]. intros [t1 k3] _. apply IH. by eapply bm_extend_from_slice_post.
Qed.
(* through a Take the target receives exactly what the limit lost: at most `limit` bytes whatever the inner buffer claims *)
Lemma bm_put_take fuel l t b k t' b' k' : bm_wf b -> bm_put A grow fuel (TTake l t) b k = AOk (t', b', k') ->
  bm_wf b' /\ exists l' t'', t' = TTake l' t'' /\ lenN (bm_data b') + l' = lenN (bm_data b) + l /\ l' <= l.
Proof.
  revert l t b k; induction fuel as [|fuel IH]; intros l t b k Hwf; [done|]. cbn [bm_put].
  destruct (xremaining A (TTake l t) k) as [[r k1]| | |] eqn:Hr; cbn [abind]; try done.
  destruct (r =? 0). { intros [= <- <- <-]. split; [done|]. exists l, t. repeat split; lia. }
  destruct (xchunk A (TTake l t) k1) as [[s k2]| | |] eqn:Hc; cbn [abind]; try done.
  apply chunk_take_le in Hc.
  destruct (bm_extend_from_slice grow s b) as [b1| | |] eqn:Hb1; cbn [abind]; try done.
  destruct (bm_extend_from_slice_post _ _ _ Hwf Hb1) as (Hd1 & Hwf1).
  destruct (xadvance A (TTake l t) (lenN s) k2) as [[t1 k3]| | |] eqn:Ha; cbn [abind]; try done.
  apply advance_take in Ha as (Hle & t2 & ->).
  intros H. apply IH in H as (Hwf' & l' & t'' & -> & Hlen & Hl'); [|done].
  split; [done|]. exists l', t''. split; [done|]. rewrite Hd1, lenN_app in Hlen. lia.
Qed.
Lemma bm_with_capacity_wf n b : bm_with_capacity n = AOk b -> bm_wf b /\ bm_data b = [].
Proof. unfold bm_with_capacity. destruct (_ <? _); [done|]. intros [= <-]. unfold bm_wf. simpl. split; [|done]. change (lenN (@nil byte)) with 0. lia. Qed.
Lemma bm_with_capacity_safe n : safe (bm_with_capacity n).
Proof. unfold bm_with_capacity. destruct (_ <? _); auto with adv. Qed.
Theorem copy_to_bytes_default_safe fuel t len k : safe (copy_to_bytes_default A grow fuel t len k).
Proof.
  unfold copy_to_bytes_default. apply safe_bind; [apply remaining_safe|]. intros [r k1] _. destruct (r <? len).
  { apply safe_bind; [apply remaining_safe|]. intros [? ?] _. auto with adv. }
  apply safe_bind; [apply bm_with_capacity_safe|]. intros b Hb.
  apply bm_with_capacity_wf in Hb as [Hwf _].
  apply safe_bind; [by apply bm_put_safe|]. intros [[t' b'] k'] _. destruct t'; auto with adv.
Qed.
(* the Bytes returned has AT MOST len bytes, however much the buffer claims or hands out *)
Theorem copy_to_bytes_default_bound fuel t len k t' bs k' : copy_to_bytes_default A grow fuel t len k = AOk (t', bs, k') -> lenN bs <= len.
Proof.
  unfold copy_to_bytes_default. destruct (xremaining A t k) as [[r k1]| | |]; cbn [abind]; try done. destruct (r <? len).
  { destruct (xremaining A t k1) as [[? ?]| | |]; done. }
  destruct (bm_with_capacity len) as [b| | |] eqn:Hb; cbn [abind]; try done.
  apply bm_with_capacity_wf in Hb as [Hwf Hnil].
  destruct (bm_put A grow fuel (TTake len t) b k1) as [[[t1 b1] k2]| | |] eqn:Hp; cbn [abind]; try done.
  apply bm_put_take in Hp as (_ & l' & t'' & -> & Hlen & _); [|done]. intros [= <- <- <-]. rewrite Hnil in Hlen. change (lenN (@nil byte)) with 0 in Hlen. lia.
Qed.
Theorem copy_to_bytes_safe fuel t len k : safe (xcopy_to_bytes A grow fuel t len k).
Proof.
  revert len k; induction t as [|bs|l t IH|a IHa b IHb]; intros len k; cbn [xcopy_to_bytes]; try apply copy_to_bytes_default_safe.
  - apply safe_bind; [apply remaining_safe|]. intros [r k1] _. destruct (r <? len); auto with adv.
    apply safe_bind; [apply IH|]. intros [[t' bs] k2] _. auto with adv.
  - apply safe_bind; [apply remaining_safe|]. intros [ra k1] _. destruct (len <=? ra).
    { apply safe_bind; [apply IHa|]. intros [[a' bs] k2] _. auto with adv. }
    destruct (ra =? 0).
    { apply safe_bind; [apply IHb|]. intros [[b' bs] k2] _. auto with adv. }
    apply safe_bind; [apply remaining_safe|]. intros [rb k2] _. destruct (rb <? len - ra); auto with adv.
    apply safe_bind; [apply bm_with_capacity_safe|]. intros ret Hb.
    apply bm_with_capacity_wf in Hb as [Hwf _].
    destruct (bm_put A grow fuel a ret k2) as [[[a' ret1] k3]| | |] eqn:Hp1; cbn [abind]; auto with adv.
    2:{ exfalso. by eapply (bm_put_safe fuel a ret k2). }
    assert (bm_wf ret1) as Hwf1.
    { clear -Hp1 Hwf. revert a ret k2 Hp1 Hwf. induction fuel as [|fuel IHf]; intros a ret k2 Hp1 Hwf; [done|]. cbn [bm_put] in Hp1.
      destruct (xremaining A a k2) as [[r kk]| | |]; cbn [abind] in Hp1; try done. destruct (r =? 0); [by injection Hp1 as <- <- <-|].
      destruct (xchunk A a kk) as [[s kk2]| | |]; cbn [abind] in Hp1; try done.
      destruct (bm_extend_from_slice grow s ret) as [b1| | |] eqn:Hb1; cbn [abind] in Hp1; try done.
      destruct (xadvance A a (lenN s) kk2) as [[t1 kk3]| | |]; cbn [abind] in Hp1; try done.
      eapply IHf; [exact Hp1|]. by eapply bm_extend_from_slice_post. }
    apply safe_bind; [by apply bm_put_safe|]. intros [[tb ret2] k4] _. destruct tb; auto with adv.
Qed.

End Grow.

(* ---- Vec target: safe code only ---- *)
Lemma vec_put_safe fuel t v k : safe (vec_put A fuel t v k).
Proof.
  unfold vec_put. apply safe_bind; [apply remaining_safe|]. intros [r k1] _. destruct (_ <? _); auto with adv.
  revert t v k1; induction fuel as [|fuel IH]; intros t v k1; simpl; auto with adv.
  apply safe_bind; [apply remaining_safe|]. intros [r1 k2] _. destruct (r1 =? 0); auto with adv.
  apply safe_bind; [apply chunk_safe|]. intros [s k3] _. destruct (_ <? _); auto with adv.
  apply safe_bind; [apply advance_safe|]. intros [t1 k4] _. apply IH.
Qed.

(* ---- slice target ---- *)
Lemma sl_put_loop_safe fuel t d k : safe (sl_put_loop A fuel t d k).
Proof.
  revert t d k; induction fuel as [|fuel IH]; intros t d k; simpl; auto with adv.
  apply safe_bind; [apply remaining_safe|]. intros [r k1] _. destruct (r =? 0); auto with adv.
  apply safe_bind; [apply chunk_safe|]. intros [s k2] _.
  apply safe_bind.
  { (* the clamp by min(src xchunk, dst xchunk) is what makes the raw copy fit on both sides *)
    unfold uninit_copy_from_slice. rewrite lenN_firstnN.
    destruct (N.min (N.min (lenN s) (s_room d)) (s_room d) =? N.min (N.min (lenN s) (s_room d)) (lenN s)) eqn:E1; [|lia]. cbn [negb].
    unfold raw_copy. destruct (_ <=? _) eqn:E2; [|lia]. destruct (_ <=? _) eqn:E3 in |- *; [done|lia]. }
  intros _ _. apply safe_bind; [unfold sl_advance_mut; destruct (_ <? _); auto with adv|]. intros d1 _.
  apply safe_bind; [apply advance_safe|]. intros [t1 k3] _. apply IH.
Qed.
Theorem sl_put_safe fuel t d k : safe (sl_put A fuel t d k).
Proof.
  unfold sl_put. apply safe_bind; [apply remaining_safe|]. intros [r k1] _. destruct (_ <? _).
  - apply safe_bind; [apply remaining_safe|]. intros [? ?] _. auto with adv.
  - apply sl_put_loop_safe.
Qed.
(* exact accounting: the region never receives more than its room, and the rest of it is untouched *)
Lemma sl_put_loop_room fuel t d k t' d' k' : sl_put_loop A fuel t d k = AOk (t', d', k') ->
  s_room d' + lenN (s_written d') = s_room d + lenN (s_written d) /\ s_room d' <= s_room d.
Proof.
  revert t d k; induction fuel as [|fuel IH]; intros t d k; [done|]. cbn [sl_put_loop].
  destruct (xremaining A t k) as [[r k1]| | |]; cbn [abind]; try done. destruct (r =? 0). { intros [= <- <- <-]. lia. }
  destruct (xchunk A t k1) as [[s k2]| | |]; cbn [abind]; try done.
  destruct (uninit_copy_from_slice _ _); cbn [abind]; try done.
  unfold sl_advance_mut. destruct (_ <? _) eqn:E; cbn [abind]; try done.
  destruct (xadvance A t _ k2) as [[t1 k3]| | |]; cbn [abind]; try done.
  intros H. apply IH in H. cbn [s_room s_written] in H. rewrite lenN_app, lenN_firstnN in H. rewrite lenN_firstnN in E. lia.
Qed.

(* ---- Take::chunks_vectored ---- *)
Lemma tv_loop_spec cnt slices limit i out out' early : tv_loop cnt slices limit i out = (out', early) ->
  exists ext, out' = out ++ ext /\ (length ext <= length slices)%nat /\ (length ext <= cnt)%nat /\
    Forall2 (fun o s => o `prefix_of` s) ext (take (length ext) slices).
Proof.
  revert slices limit i out; induction cnt as [|cnt IH]; intros slices limit i out; simpl.
  { intros [= <- <-]. exists []. rewrite app_nil_r. repeat split; simpl; try lia. constructor. }
  destruct slices as [|s slices]. { intros [= <- <-]. exists []. rewrite app_nil_r. repeat split; simpl; try lia. constructor. }
  destruct (limit <=? lenN s).
  - intros [= <- <-]. exists [firstnN limit s]. repeat split; simpl; try lia. constructor; [apply prefix_firstnN|constructor].
  - intros H. apply IH in H as (ext & -> & H1 & H2 & H3). exists (s :: ext). rewrite <- app_assoc. repeat split; simpl; try lia.
    constructor; [done|exact H3].
Qed.
Lemma pad_to_length n l : length (pad_to n l) = n.
Proof. revert l; induction n as [|n IHn]; intros l; simpl; [done|]. destruct l; simpl; by rewrite IHn. Qed.
Lemma pad_to_in n l x : In x (pad_to n l) -> x = [] \/ In x l.
Proof.
  revert l; induction n as [|n IHn]; intros l; simpl; [done|]. destruct l as [|y l]; simpl.
  - intros [<-|Hin]; [by left|]. apply IHn in Hin as [?|[]]. by left.
  - intros [<-|Hin]; [right; by left|]. apply IHn in Hin as [?|?]; auto.
Qed.
(* every slice stored into dst is a prefix of a slice the inner buffer itself handed out, and there are at most min(dst_len, 16) of them *)
Theorem take_chunks_vectored_spec limit dst_len k n out k' : take_chunks_vectored A limit dst_len k = AOk (n, out, k') ->
  (N.of_nat (length out) <= N.min dst_len TAKE_LEN \/ N.of_nat (length out) <= TAKE_LEN /\ N.of_nat (length out) <= dst_len) /\
  match a_vec A (k_vec k) with
  | Some (_, written) => limit = 0 \/ Forall (fun o => o = [] \/ exists s, In s written /\ o `prefix_of` s) out
  | None => limit = 0 end.
Proof.
  unfold take_chunks_vectored. destruct (limit =? 0) eqn:E0.
  { intros [= <- <- <-]. split; [left; simpl; unfold TAKE_LEN; lia|]. destruct (a_vec A _) as [[? ?]|]; [left|]; lia. }
  destruct (a_vec A (k_vec k)) as [[cnt written]|]; [|done].
  destruct (dst_len <? cnt) eqn:E1; [done|].
  destruct (tv_loop _ _ _ _ _) as [out0 early] eqn:Hl. intros [= <- <- <-].
  apply tv_loop_spec in Hl as (ext & -> & H1 & H2 & H3). simpl.
  rewrite pad_to_length in H1. split. { right. unfold TAKE_LEN in *. lia. }
  right. apply Forall_forall. intros o Ho.
  pose proof pad_to_in as Hpad.
  apply elem_of_list_In in Ho. apply elem_of_list_lookup in Ho as [j Hj].
  destruct (Forall2_lookup_l _ _ _ _ _ H3 Hj) as (s & Hs & Hpre).
  apply lookup_take_Some in Hs as [Hs _]. apply elem_of_list_lookup_2, elem_of_list_In, Hpad in Hs as [->|Hin].
  - left. destruct Hpre as [z Hz]. by destruct o.
  - right. exists s. split; [|done]. rewrite firstnN_eq in Hin. apply elem_of_list_In in Hin. apply elem_of_list_lookup in Hin as [j' Hj'].
    apply lookup_take_Some in Hj' as [Hj' _]. apply elem_of_list_In. by eapply elem_of_list_lookup_2.
Qed.

(* ---- iterators ---- *)
Section Grow2.
Variable grow : N -> N.
Lemma bm_extend_loop_safe fuel I i b : bm_wf b -> safe (bm_extend_loop grow fuel I i b).
Proof.
  revert i b; induction fuel as [|fuel IH]; intros i b Hwf; simpl; auto with adv.
  destruct (i_next I i) as [[x|]|]; auto with adv.
  apply safe_bind; [by apply bm_extend_from_slice_safe|]. intros b1 Hb1. apply IH. by eapply bm_extend_from_slice_post.
Qed.
Theorem bm_extend_iter_safe fuel I b : bm_wf b -> safe (bm_extend_iter grow fuel I b).
Proof.
  intros Hwf. unfold bm_extend_iter. destruct (i_hint I) as [lower|]; auto with adv.
  destruct (bm_reserve grow lower b) as [b1| | |] eqn:Hr; cbn [abind]; auto with adv.
  - apply bm_extend_loop_safe. by eapply bm_reserve_post.
  - exfalso. by eapply (bm_reserve_safe grow lower b).
Qed.
End Grow2.
End Laws.

(* the guards are NEEDED: the same consumers with the check moved from the slice to xremaining() reach AUB under a liar
   (this is the shape of change the correspondence engine must catch) *)
Definition try_get_fixed_trusting (A : adversary) (t : tree) (size : N) (k : ctr) : ares (list byte) :=
  ado (r, k) <- xremaining A t k;
  if r <? size then APanic else ado (c, k) <- xchunk A t k; raw_read_array c size.
Definition liar : adversary := {| a_rem := fun _ => Some 8; a_chunk := fun _ => Some [1; 2]; a_adv := fun _ _ => false; a_vec := fun _ => None |}.
Example trusting_remaining_is_ub : try_get_fixed_trusting liar TAdv 4 k0 = AUB.
Proof. reflexivity. Qed.
Example guarded_is_not : exists r, try_get_fixed liar 10 TAdv 4 k0 = r /\ r <> AUB.
Proof. eexists. split; [reflexivity|]. vm_compute. discriminate. Qed.

Theorem from_owner_in_bounds O v : from_owner O = AOk v -> view_in_bounds O v /\ ov_calls v = 1%nat.
Proof.
  unfold from_owner, view_in_bounds. destruct (o_ref O 0%nat) as [[p l]|] eqn:E; [|done]. intros [= <-]. simpl. split; [|done].
  exists 0%nat, l. split; [done|lia].
Qed.
(* pointer and length taken from two different answers: out of bounds under an owner that answers differently per call *)
Definition from_owner_two_calls (O : oadv) : ares oview :=
  match o_ref O 0%nat, o_ref O 1%nat with
  | Some (p, _), Some (_, l) => AOk {| ov_region := p; ov_len := l; ov_calls := 2; ov_owner_drops := 0 |}
  | _, _ => APanic end.
Example two_calls_out_of_bounds : exists O v, from_owner_two_calls O = AOk v /\ ~ view_in_bounds O v.
Proof.
  exists {| o_ref := fun i => match i with O => Some (1, 2) | _ => Some (2, 9) end |}, {| ov_region := 1; ov_len := 9; ov_calls := 2; ov_owner_drops := 0 |}.
  split; [reflexivity|]. intros (i & l & H & Hle). simpl in *. destruct i; simplify_eq; lia.
Qed.

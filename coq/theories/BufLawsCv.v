(* Laws of M4, part 3: chunks_vectored for arbitrary trees (parametric in Take's scratch length). *)
From stdpp Require Import list.
From Coq Require Import NArith Lia ZifyN ZifyNat ZifyBool.
From BV Require Import Base BaseLemmas Buf BufSpec BufLaws.
Local Open Scope N_scope.
Arguments N.add : simpl never. Arguments N.sub : simpl never. Arguments N.min : simpl never.
Arguments N.ltb : simpl never. Arguments N.leb : simpl never. Arguments N.eqb : simpl never.

Lemma prefix_take_both {A} (l1 l2 : list A) n : l1 `prefix_of` l2 -> take n l1 `prefix_of` take n l2.
Proof.
  intros [k ->]. destruct (decide (n <= length l1)%nat).
  - rewrite take_app_le by done. done.
  - rewrite take_app_ge by lia. rewrite take_ge by lia. by apply prefix_app_r.
Qed.
Lemma trim_count lim sl : (length (trim lim sl) <= length sl)%nat.
Proof. revert lim; induction sl as [|s r IH]; intros lim; simpl; [done|]. destruct (lim <=? lenN s); simpl; [lia|]. specialize (IH (lim - lenN s)). lia. Qed.
Lemma trim_concat lim sl : concat (trim lim sl) = firstnN lim (concat sl).
Proof.
  revert lim; induction sl as [|s r IH]; intros lim; simpl; [by rewrite firstnN_eq, take_nil|].
  destruct (lim <=? lenN s) eqn:E; simpl.
  - rewrite app_nil_r. by rewrite firstnN_app_le by lia.
  - rewrite IH. by rewrite firstnN_app_ge by lia.
Qed.
Lemma trim_nonempty lim sl : 0 < lim -> Exists (fun s => s <> []) sl -> Exists (fun s => s <> []) (trim lim sl).
Proof.
  revert lim; induction sl as [|s r IH]; intros lim Hl H; simpl; [by apply Exists_nil in H|].
  destruct (lim <=? lenN s) eqn:E.
  - apply Exists_cons_hd. intros Hn. apply lenN_zero in Hn. rewrite lenN_firstnN in Hn.
    destruct s; [|rewrite lenN_cons in *; lia]. rewrite lenN_nil in E. lia.
  - apply Exists_cons in H as [H|H]; [by apply Exists_cons_hd|]. apply Exists_cons_tl. apply IH; [lia|done].
Qed.

Lemma total_sat_acc (sl : list (list byte)) acc : acc <= usize_max ->
  fold_left (fun a s => sat_add a (lenN s)) sl acc = N.min (acc + lenN (concat sl)) usize_max.
Proof.
  revert acc; induction sl as [|s r IH]; intros acc Ha; simpl.
  - rewrite lenN_nil. lia.
  - rewrite IH by (unfold sat_add; lia). rewrite lenN_app. unfold sat_add. lia.
Qed.
Lemma total_sat_eq sl : lenN (concat sl) <= usize_max -> total_sat sl = lenN (concat sl).
Proof. intros H. unfold total_sat. rewrite total_sat_acc by lia. lia. Qed.

Section Laws.
  Variable TAKE_LEN : N.
  Hypothesis TAKE_LEN_pos : 0 < TAKE_LEN.
  Notation cvf := (cv TAKE_LEN).

  Lemma default_cv_spec n b : wf b ->
    default_cv n b = if (n =? 0) || (lenN (den b) =? 0) then [] else [chunk b].
  Proof. intros H. unfold default_cv. rewrite has_remaining_den by done. destruct (n =? 0); [done|]. by destruct (_ =? 0). Qed.

  Theorem cv_count n b : lenN (cvf n b) <= n.
  Proof.
    revert n; induction b as [l|a IHa c IHc|lim x IH|x IH]; intros n; cbn [cv].
    - assert (lenN (default_cv n (Leaf l)) <= n) as Hd.
      { unfold default_cv. destruct (n =? 0) eqn:E; [rewrite lenN_nil; lia|]. destruct (has_remaining _); rewrite ?lenN_cons, ?lenN_nil; lia. }
      destruct l; try done.
      destruct (_ || (n =? 0)) eqn:E; [rewrite lenN_nil; lia|]. destruct (_ || (n =? 1)) eqn:E2; rewrite !lenN_cons, lenN_nil; lia.
    - specialize (IHa n). destruct (_ =? _); [|done]. rewrite lenN_app.
      specialize (IHc (n - lenN (cvf n a))). lia.
    - destruct (lim =? 0); [rewrite lenN_nil; lia|]. specialize (IH (N.min n TAKE_LEN)).
      pose proof (trim_count lim (cvf (N.min n TAKE_LEN) x)). unfold lenN in *. lia.
    - apply IH.
  Qed.

  Theorem cv_prefix n b : wf b -> concat (cvf n b) `prefix_of` den b.
  Proof.
    revert n; induction b as [l|a IHa c IHc|lim x IH|x IH]; intros n Hwf; cbn [cv].
    - assert (concat (default_cv n (Leaf l)) `prefix_of` den (Leaf l)) as Hd.
      { rewrite default_cv_spec by done. destruct (_ || _); simpl; [apply prefix_nil|]. rewrite app_nil_r. by apply (chunk_prefix (Leaf l)). }
      destruct l; try done. simpl.
      destruct (_ || (n =? 0)); simpl; [apply prefix_nil|]. destruct (_ || (n =? 1)); simpl; rewrite ?app_nil_r; [by apply prefix_app_r|done].
    - destruct Hwf as (Ha & Hc & Hl). specialize (IHa n Ha). cbn [den].
      pose proof (prefix_lenN _ _ IHa). pose proof (wf_den a Ha).
      rewrite total_sat_eq by lia. rewrite remaining_den by done.
      destruct (lenN (concat (cvf n a)) =? lenN (den a)) eqn:E.
      + rewrite concat_app. assert (concat (cvf n a) = den a) as ->.
        { apply prefix_same_length; [done|]. unfold lenN in E. lia. }
        by apply prefix_app, IHc.
      + by apply prefix_app_r.
    - destruct Hwf as (Hx & Hn). cbn [den]. destruct (lim =? 0); simpl; [apply prefix_nil|]. rewrite trim_concat.
      rewrite !firstnN_eq. by apply prefix_take_both, IH.
    - by apply IH.
  Qed.

  Lemma cv_empty n b : wf b -> den b = [] -> cvf n b = [].
  Proof.
    intros Hwf Hd. pose proof (cv_prefix n b Hwf) as Hp. rewrite Hd in Hp. apply prefix_nil_inv in Hp.
    revert n Hp; induction b as [l|a IHa c IHc|lim x IH|x IH]; intros n Hp; cbn [cv] in *.
    - assert (default_cv n (Leaf l) = []) as Hdc.
      { rewrite default_cv_spec by done. rewrite Hd. by destruct (n =? 0). }
      destruct l; try done. simpl in Hd. by rewrite Hd.
    - simpl in Hd. apply app_eq_nil in Hd as [Hda Hdc]. destruct Hwf as (Ha & Hc & _).
      assert (cvf n a = []) as Hea.
      { apply IHa; [done|done|]. pose proof (cv_prefix n a Ha) as Hq. rewrite Hda in Hq. by apply prefix_nil_inv in Hq. }
      rewrite Hea. simpl. rewrite remaining_den, Hda by done. simpl.
      apply IHc; [done|done|]. pose proof (cv_prefix (n - lenN (@nil (list byte))) c Hc) as Hq. rewrite Hdc in Hq. by apply prefix_nil_inv in Hq.
    - destruct (lim =? 0) eqn:E; [done|]. destruct Hwf as (Hx & Hn). simpl in Hd.
      assert (den x = []) as Hdx. { apply lenN_zero. apply lenN_zero in Hd. rewrite lenN_firstnN in Hd. lia. }
      rewrite IH; [done|done|done|]. pose proof (cv_prefix (N.min n TAKE_LEN) x Hx) as Hq. rewrite Hdx in Hq. by apply prefix_nil_inv in Hq.
    - by apply IH.
  Qed.

  Theorem cv_nonempty n b : wf b -> 0 < n -> den b <> [] -> Exists (fun s => s <> []) (cvf n b).
  Proof.
    revert n; induction b as [l|a IHa c IHc|lim x IH|x IH]; intros n Hwf Hn Hd; cbn [cv].
    - assert (Exists (fun s => s <> []) (default_cv n (Leaf l))) as Hdc.
      { rewrite default_cv_spec by done. replace (n =? 0) with false by lia. cbn [orb].
        destruct (lenN (den (Leaf l)) =? 0) eqn:E; [exfalso; apply Hd, lenN_zero; lia|].
        apply Exists_cons_hd. intros Hc. apply (chunk_nil (Leaf l) Hwf) in Hc. done. }
      destruct l; try done. simpl in *. destruct Hwf as [Hw _].
      assert (s1 <> []) by (intros ->; rewrite Hw in Hd; done).
      destruct (_ || (n =? 0)) eqn:E.
      { exfalso. apply Hd, lenN_zero. lia. }
      destruct (_ || (n =? 1)); by apply Exists_cons_hd.
    - destruct Hwf as (Ha & Hc & Hl). cbn [den] in Hd. destruct (den a) as [|y d] eqn:Ea.
      + rewrite (cv_empty n a Ha Ea). simpl. rewrite remaining_den, Ea by done. simpl.
        replace (n - lenN (@nil (list byte))) with n by (rewrite lenN_nil; lia). by apply IHc.
      + assert (Exists (fun s => s <> []) (cvf n a)) as He by (apply IHa; [done|done|congruence]).
        destruct (_ =? _); [|done]. apply Exists_app. by left.
    - destruct Hwf as (Hx & Hl). cbn [den] in Hd.
      assert (lim <> 0 /\ den x <> []) as [Hl0 Hb].
      { split; [intros ->; by rewrite firstnN_0 in Hd|intros E; rewrite E, firstnN_eq, take_nil in Hd; done]. }
      replace (lim =? 0) with false by lia. apply trim_nonempty; [lia|]. apply IH; [done|lia|done].
    - by apply IH.
  Qed.
End Laws.

(* Laws of M2 that need no global invariant: effect analysis of the monadic programs (which operations can allocate a
   byte buffer), post-conditions of reserve / try_reclaim as functions of the handle. *)
From stdpp Require Import gmap.
From Coq Require Import NArith Lia ZifyN ZifyBool String.
From BV Require Import Base BaseLemmas BufMut Heap.
Local Open Scope N_scope.
Arguments N.add : simpl never. Arguments N.sub : simpl never. Arguments N.ltb : simpl never. Arguments N.leb : simpl never. Arguments N.eqb : simpl never.

Definition is_buf_alloc (x : ev) : bool := match x with EAlloc _ _ | ERealloc _ _ _ => true | _ => false end.
Definition no_buf_alloc (d : list ev) : Prop := forallb (fun x => negb (is_buf_alloc x)) d = true.
(* `quiet m`: whatever the state, running m appends only events that are not byte-buffer allocations *)
Definition quiet {A} (m : M A) : Prop :=
  forall s e, match m s e with OK _ _ e' | PANIC _ e' => exists d, e' = e ++ d /\ no_buf_alloc d | UB _ => True end.
(* `silent m`: m appends no event at all and does not change the state *)
Definition silent {A} (m : M A) : Prop :=
  forall s e, match m s e with OK _ s' e' | PANIC s' e' => e' = e /\ s' = s | UB _ => True end.

Lemma nba_nil : no_buf_alloc []. Proof. done. Qed.
Lemma nba_app a b : no_buf_alloc a -> no_buf_alloc b -> no_buf_alloc (a ++ b).
Proof. unfold no_buf_alloc. rewrite forallb_app. intros -> ->. done. Qed.
Lemma quiet_ret {A} (a : A) : quiet (mret a).
Proof. intros s e. exists []. by rewrite app_nil_r. Qed.
Lemma quiet_bind {A B} (m : M A) (f : A -> M B) : quiet m -> (forall a, quiet (f a)) -> quiet (mbind m f).
Proof.
  intros Hm Hf s e. unfold mbind. specialize (Hm s e). destruct (m s e) as [a s1 e1|s1 e1|w]; [|done|done].
  destruct Hm as (d1 & -> & Hd1). specialize (Hf a s1 (e ++ d1)). destruct (f a s1 (e ++ d1)) as [b s2 e2|s2 e2|w]; [| |done].
  all: destruct Hf as (d2 & -> & Hd2); exists (d1 ++ d2); rewrite app_assoc; split; [done|by apply nba_app].
Qed.
Lemma quiet_panic {A} : quiet (@mpanic A). Proof. intros s e. exists []. by rewrite app_nil_r. Qed.
Lemma quiet_ub {A} w : quiet (@mub A w). Proof. intros s e. done. Qed.
Lemma quiet_get : quiet mget. Proof. intros s e. exists []. by rewrite app_nil_r. Qed.
Lemma quiet_put s0 : quiet (mput s0). Proof. intros s e. exists []. by rewrite app_nil_r. Qed.
Lemma quiet_emit x : is_buf_alloc x = false -> quiet (emit x).
Proof. intros H s e. exists [x]. split; [done|]. unfold no_buf_alloc. simpl. by rewrite H. Qed.
Lemma quiet_fun {A} (m : M A) : (forall s e, match m s e with OK _ _ e' | PANIC _ e' => e' = e | UB _ => True end) -> quiet m.
Proof. intros H s e. specialize (H s e). destruct (m s e); try done; subst; exists []; by rewrite app_nil_r. Qed.

Ltac quiet_step :=
  match goal with
  | |- quiet (mbind _ _) => apply quiet_bind; [|intros]
  | |- quiet (mret _) => apply quiet_ret
  | |- quiet mpanic => apply quiet_panic
  | |- quiet (mub _) => apply quiet_ub
  | |- quiet mget => apply quiet_get
  | |- quiet (mput _) => apply quiet_put
  | |- quiet (emit _) => apply quiet_emit; reflexivity
  | |- quiet (massert ?b) => unfold massert; destruct b
  | |- quiet (mcheck ?b _) => unfold mcheck; destruct b
  | |- quiet (if ?c then _ else _) => destruct c
  | |- quiet (match ?x with _ => _ end) => destruct x
  | |- quiet (let '(_, _) := ?p in _) => destruct p
  | H : quiet ?m |- quiet ?m => exact H
  end.
Ltac quiet_auto := repeat quiet_step.

Lemma quiet_get_st k : quiet (get_st k). Proof. apply quiet_fun. intros s e. unfold get_st. by destruct (sts s !! k). Qed.
Lemma quiet_put_st k x : quiet (put_st k x). Proof. apply quiet_fun. done. Qed.
Lemma quiet_get_h h : quiet (get_h h). Proof. apply quiet_fun. intros s e. unfold get_h. by destruct (hs s !! h). Qed.
Lemma quiet_put_h h x : quiet (put_h h x). Proof. apply quiet_fun. done. Qed.
Lemma quiet_del_h h : quiet (del_h h). Proof. apply quiet_fun. done. Qed.
Lemma quiet_new_h x : quiet (new_h x). Proof. apply quiet_fun. done. Qed.
Global Hint Resolve quiet_get_st quiet_put_st quiet_get_h quiet_put_h quiet_del_h quiet_new_h : quiet.
Ltac qa := repeat (quiet_step || (progress eauto with quiet)).

Lemma quiet_upd_st k f : quiet (upd_st k f). Proof. unfold upd_st. qa. Qed.
Lemma quiet_mread k o l : quiet (mread k o l). Proof. unfold mread. qa. Qed.
Lemma quiet_mwrite k o bs : quiet (mwrite k o bs). Proof. unfold mwrite. qa. Qed.
Lemma quiet_free_buf k sz : quiet (free_buf k sz). Proof. unfold free_buf. qa. Qed.
Global Hint Resolve quiet_upd_st quiet_mread quiet_mwrite quiet_free_buf : quiet.
Lemma quiet_drop_vec k c : quiet (drop_vec k c). Proof. unfold drop_vec. qa. Qed.
Lemma quiet_inc_rc k : quiet (inc_rc k). Proof. unfold inc_rc. qa. Qed.
Lemma quiet_get_rc k : quiet (get_rc k). Proof. unfold get_rc. qa. Qed.
Global Hint Resolve quiet_drop_vec quiet_inc_rc quiet_get_rc : quiet.
Lemma quiet_release k : quiet (release k).
Proof. unfold release. qa. all: destruct (owners _ !! _); qa. Qed.
Lemma quiet_copy_to_front k o l : quiet (copy_to_front k o l). Proof. unfold copy_to_front. qa. Qed.
Global Hint Resolve quiet_release quiet_copy_to_front : quiet.
Lemma quiet_bytes_from_vec k l c : quiet (bytes_from_vec k l c). Proof. unfold bytes_from_vec. qa. Qed.
Lemma quiet_shallow_clone_arc k o l : quiet (shallow_clone_arc k o l). Proof. unfold shallow_clone_arc. qa. Qed.
Global Hint Resolve quiet_bytes_from_vec quiet_shallow_clone_arc : quiet.
Lemma quiet_bytes_clone h : quiet (bytes_clone h). Proof. unfold bytes_clone. qa. Qed.
Lemma quiet_bytes_drop_rep x : quiet (bytes_drop_rep x). Proof. unfold bytes_drop_rep. qa. Qed.
Lemma quiet_b_parts x : quiet (b_parts x). Proof. unfold b_parts. qa. Qed.
Lemma quiet_m_parts x : quiet (m_parts x). Proof. unfold m_parts. qa. Qed.
Lemma quiet_adv_unchecked c x : quiet (adv_unchecked c x). Proof. unfold adv_unchecked. qa. Qed.
Lemma quiet_promote rc x : quiet (promote rc x). Proof. unfold promote. qa. Qed.
Global Hint Resolve quiet_bytes_clone quiet_bytes_drop_rep quiet_b_parts quiet_m_parts quiet_adv_unchecked quiet_promote : quiet.
Lemma quiet_m_shallow_clone x : quiet (m_shallow_clone x). Proof. unfold m_shallow_clone. qa. Qed.
Lemma quiet_bytes_slice h b e : quiet (bytes_slice h b e). Proof. unfold bytes_slice. qa. Qed.
Lemma quiet_bytes_split_off_core h a : quiet (bytes_split_off_core h a). Proof. unfold bytes_split_off_core. qa. Qed.
Global Hint Resolve quiet_m_shallow_clone quiet_bytes_slice quiet_bytes_split_off_core : quiet.
Lemma quiet_bytes_split_off h a : quiet (bytes_split_off h a). Proof. unfold bytes_split_off. qa. Qed.
Lemma quiet_bytes_split_to h a : quiet (bytes_split_to h a). Proof. unfold bytes_split_to. qa. Qed.
Lemma quiet_bytes_truncate h l : quiet (bytes_truncate h l). Proof. unfold bytes_truncate. qa. Qed.
Lemma quiet_m_split_off h a : quiet (m_split_off h a). Proof. unfold m_split_off. qa. Qed.
Lemma quiet_m_split_to h a : quiet (m_split_to h a). Proof. unfold m_split_to. qa. Qed.
Lemma quiet_m_freeze_rep x : quiet (m_freeze_rep x). Proof. unfold m_freeze_rep. qa. Qed.
Lemma quiet_m_drop_rep x : quiet (m_drop_rep x). Proof. unfold m_drop_rep. qa. Qed.
Global Hint Resolve quiet_bytes_split_off quiet_bytes_split_to quiet_bytes_truncate quiet_m_split_off quiet_m_split_to quiet_m_freeze_rep quiet_m_drop_rep : quiet.

(* the sharing operations of C07 *)
Definition sharing_op (o : op) : bool :=
  match o with
  | OBNew | OBFromStatic _ | OBClone _ | OBSlice _ _ _ | OBSliceIncl _ _ _ | OBSliceRef _ _ | OBSplitOff _ _ | OBSplitTo _ _ | OBTruncate _ _ | OBClear _ | OBAdvance _ _
  | OBIsUnique _ | OBDrop _ | OMSplitOff _ _ | OMSplitTo _ _ | OMSplit _ | OMTruncate _ _ | OMClear _ | OMAdvance _ _ | OMFreeze _ | OMDrop _ | OMWrite _ _ _ | OVDrop _ => true
  | _ => false
  end.
Theorem sharing_ops_never_allocate orc o : sharing_op o = true -> quiet (hstep orc o).
Proof.
  destruct o; simpl; try discriminate; intros _; unfold bytes_is_unique_rep; qa.
Qed.

(* ---- reserve / try_reclaim: post-conditions as functions of the handle (no global invariant needed) ---- *)
Definition h_len (x : handle) : N := match x with HB _ _ l _ _ | HM _ _ l _ _ | HV _ l _ => l end.
Definition h_cap (x : handle) : N := match x with HM _ _ _ c _ | HV _ _ c => c | HB _ _ l _ _ => l end.
Ltac munfold H := unfold mbind, mret, mpanic, mub, mget, mput, emit, massert, mcheck, get_st, put_st, upd_st, get_h, put_h, del_h, new_h in H.
Ltac mdestr H :=
  repeat (simpl in H; munfold H; match type of H with
  | context [match ?x with _ => _ end] => destruct x eqn:?; try discriminate
  | context [if ?c then _ else _] => destruct c eqn:?; try discriminate
  end).

Lemma realloc_buf_cap orc k oldcap keep need s e k' c s' e' : realloc_buf orc k oldcap keep need s e = OK (k', c) s' e' -> need <= c.
Proof.
  unfold realloc_buf. destruct (isize_max <? need); [done|]. intros H. unfold alloc_buf in H. mdestr H; inversion H; subst; lia.
Qed.

(* reserve_inner answering `true` keeps the length and delivers the requested spare capacity *)
Theorem reserve_inner_post orc additional allocate x s e x' s' e' :
  reserve_inner orc additional allocate x s e = OK (x', true) s' e' -> h_len x <= h_cap x ->
  h_len x' = h_len x /\ additional <= h_cap x' - h_len x'.
Proof.
  intros H Hl. destruct x as [| k off len cap [o|] |]; try discriminate; simpl in Hl; unfold reserve_inner in H.
  - destruct ((additional <=? cap - len + off) && (len <=? off)) eqn:E1.
    + mdestr H; inversion H; subst; simpl; lia.
    + destruct (negb allocate); [discriminate|]. unfold mbind in H.
      destruct (realloc_buf orc k (cap + off) (len + off) (len + off + additional) s e) as [[k' vcap] s1 e1| |] eqn:Er; try discriminate.
      apply realloc_buf_cap in Er. unfold mret in H. inversion H; subst. simpl. lia.
  - destruct (usize_max <? len + additional) eqn:E0; [destruct allocate; discriminate|].
    unfold mbind, get_st in H. destruct (sts s !! k) as [y|] eqn:Ey; [|discriminate].
    destruct (s_ctrl y) as [| | v_capacity o rc | |] eqn:Ec; try discriminate.
    destruct (rc =? 1) eqn:Erc.
    + destruct ((len + additional + off <=? usize_max) && (len + additional + off <=? v_capacity)) eqn:E1.
      * unfold mret in H. inversion H; subst. simpl. lia.
      * destruct ((len + additional <=? v_capacity) && (len <=? off)) eqn:E2.
        -- mdestr H; inversion H; subst; simpl; lia.
        -- destruct (negb allocate); [discriminate|]. destruct (usize_max <? len + additional + off); [discriminate|].
           unfold mbind in H.
           match type of H with context [realloc_buf ?a ?b ?c ?d ?f s e] => destruct (realloc_buf a b c d f s e) as [[k' vcap] s1 e1| |] eqn:Er; try discriminate end.
           apply realloc_buf_cap in Er. mdestr H. inversion H; subst. simpl. lia.
    + destruct (negb allocate); [discriminate|].
      unfold mbind in H. destruct (mread k off len s e) as [bs s1 e1| |]; try discriminate.
      match type of H with context [alloc_buf ?a ?b s1 e1] => destruct (alloc_buf a b s1 e1) as [k' s2 e2| |]; try discriminate end.
      destruct (release k s2 e2) as [[] s3 e3| |]; try discriminate. unfold mret in H. inversion H; subst. simpl. lia.
Qed.
(* reserve_inner answering `false` has done nothing: handle, memory and event log are unchanged *)
Theorem reserve_inner_false orc additional allocate x s e x' s' e' :
  reserve_inner orc additional allocate x s e = OK (x', false) s' e' -> x' = x /\ s' = s /\ e' = e.
Proof.
  intros H. destruct x as [| k off len cap [o|] |]; try discriminate; unfold reserve_inner in H.
  - destruct ((additional <=? cap - len + off) && (len <=? off)) eqn:E1.
    + mdestr H; try (unfold mret in H; inversion H).
    + destruct (negb allocate); [unfold mret in H; by inversion H|]. unfold mbind in H.
      destruct (realloc_buf _ _ _ _ _ s e) as [[k' vcap] s1 e1| |]; try discriminate; try (unfold mret in H; inversion H).
  - destruct (usize_max <? len + additional) eqn:E0; [destruct allocate; [discriminate|unfold mret in H; by inversion H]|].
    unfold mbind, get_st in H. destruct (sts s !! k) as [y|] eqn:Ey; [|discriminate].
    destruct (s_ctrl y) as [| | v_capacity o rc | |] eqn:Ec; try discriminate.
    destruct (rc =? 1) eqn:Erc.
    + destruct ((len + additional + off <=? usize_max) && (len + additional + off <=? v_capacity)) eqn:E1; [unfold mret in H; inversion H|].
      destruct ((len + additional <=? v_capacity) && (len <=? off)) eqn:E2.
      * mdestr H; try (unfold mret in H; inversion H).
      * destruct (negb allocate); [unfold mret in H; by inversion H|]. destruct (usize_max <? len + additional + off); [discriminate|].
        unfold mbind in H.
        match type of H with context [realloc_buf ?a ?b ?c ?d ?f s e] => destruct (realloc_buf a b c d f s e) as [[k' vcap] s1 e1| |] eqn:Er; try discriminate end.
        mdestr H; try (unfold mret in H; inversion H).
    + destruct (negb allocate); [unfold mret in H; by inversion H|].
      unfold mbind in H. destruct (mread k off len s e) as [bs s1 e1| |]; try discriminate.
      match type of H with context [alloc_buf ?a ?b s1 e1] => destruct (alloc_buf a b s1 e1) as [k' s2 e2| |]; try discriminate end.
      destruct (release k s2 e2) as [[] s3 e3| |]; try discriminate; try (unfold mret in H; inversion H).
Qed.
(* try_reclaim never allocates: with allocate = false no byte buffer is ever requested *)
Theorem try_reclaim_quiet orc additional x : quiet (m_try_reclaim orc additional x).
Proof.
  unfold m_try_reclaim. destruct x as [| k off len cap kd |]; qa. unfold reserve_inner. destruct kd; simpl; qa; simpl; qa.
Qed.
(* with allocate = true the answer is never `false` *)
Theorem reserve_inner_allocating orc additional x s e x' b s' e' : reserve_inner orc additional true x s e = OK (x', b) s' e' -> b = true.
Proof.
  intros H. destruct b; [done|]. exfalso. destruct x as [| k off len cap [o|] |]; try discriminate; unfold reserve_inner in H.
  - destruct ((additional <=? cap - len + off) && (len <=? off)) eqn:E1.
    + mdestr H; try (unfold mret in H; inversion H).
    + simpl in H. unfold mbind in H. destruct (realloc_buf _ _ _ _ _ s e) as [[k' vcap] s1 e1| |]; try discriminate; try (unfold mret in H; inversion H).
  - destruct (usize_max <? len + additional) eqn:E0; [discriminate|].
    unfold mbind, get_st in H. destruct (sts s !! k) as [y|] eqn:Ey; [|discriminate].
    destruct (s_ctrl y) as [| | v_capacity o rc | |] eqn:Ec; try discriminate.
    destruct (rc =? 1) eqn:Erc.
    + destruct ((len + additional + off <=? usize_max) && (len + additional + off <=? v_capacity)) eqn:E1; [unfold mret in H; inversion H|].
      destruct ((len + additional <=? v_capacity) && (len <=? off)) eqn:E2.
      * mdestr H; try (unfold mret in H; inversion H).
      * simpl in H. destruct (usize_max <? len + additional + off); [discriminate|].
        unfold mbind in H.
        match type of H with context [realloc_buf ?a ?b ?c ?d ?f s e] => destruct (realloc_buf a b c d f s e) as [[k' vcap] s1 e1| |] eqn:Er; try discriminate end.
        mdestr H; try (unfold mret in H; inversion H).
    + simpl in H. unfold mbind in H. destruct (mread k off len s e) as [bs s1 e1| |]; try discriminate.
      match type of H with context [alloc_buf ?a ?b s1 e1] => destruct (alloc_buf a b s1 e1) as [k' s2 e2| |]; try discriminate end.
      destruct (release k s2 e2) as [[] s3 e3| |]; try discriminate; try (unfold mret in H; inversion H).
Qed.
(* reserve(n) returning: length unchanged, capacity() - len() >= n *)
Theorem reserve_post orc n x s e x' s' e' : m_reserve orc n x s e = OK x' s' e' -> h_len x <= h_cap x ->
  h_len x' = h_len x /\ n <= h_cap x' - h_len x'.
Proof.
  intros H Hl. unfold m_reserve in H. destruct x as [| k off len cap kd |]; try discriminate.
  destruct (n <=? cap - len) eqn:E; [unfold mret in H; inversion H; subst; simpl in *; lia|].
  unfold mbind in H. destruct (reserve_inner orc n true (HM k off len cap kd) s e) as [[x1 b] s1 e1| |] eqn:Er; try discriminate.
  unfold mret in H. inversion H; subst. pose proof (reserve_inner_allocating _ _ _ _ _ _ _ _ _ Er) as ->.
  by apply reserve_inner_post in Er.
Qed.
(* try_reclaim(n) = true gives the same guarantee; = false leaves the handle, the memory and the event log untouched *)
Theorem try_reclaim_post orc n x s e x' b s' e' : m_try_reclaim orc n x s e = OK (x', b) s' e' -> h_len x <= h_cap x ->
  if b then h_len x' = h_len x /\ n <= h_cap x' - h_len x' else x' = x /\ s' = s /\ e' = e.
Proof.
  intros H Hl. unfold m_try_reclaim in H. destruct x as [| k off len cap kd |]; try discriminate.
  destruct (n <=? cap - len) eqn:E; [unfold mret in H; inversion H; subst; simpl in *; lia|].
  destruct b; [by apply reserve_inner_post in H|by apply reserve_inner_false in H].
Qed.

(* is_unique / try_into_mut at the level of the representation *)
Theorem static_owned_never_unique k o l arc s e : 
  bytes_is_unique_rep (HB k o l VStatic arc) s e = OK false s e /\ bytes_is_unique_rep (HB k o l VOwned arc) s e = OK false s e.
Proof. split; reflexivity. Qed.
Theorem try_into_mut_err_iff_not_unique orc h x s e : hs s !! h = Some x -> bytes_is_unique_rep x s e = OK false s e ->
  hstep orc (OBTryIntoMut h) s e = OK (RErr h) s e.
Proof. intros Hh Hu. simpl. unfold mbind, get_h. rewrite Hh. rewrite Hu. reflexivity. Qed.
Theorem try_into_mut_ok_is_into_mut orc h x s e : hs s !! h = Some x -> bytes_is_unique_rep x s e = OK true s e ->
  hstep orc (OBTryIntoMut h) s e = hstep orc (OBIntoMut h) s e.
Proof. intros Hh Hu. simpl. unfold mbind, get_h. rewrite Hh. rewrite Hu. reflexivity. Qed.

(* what a non-UB outcome of the raw-memory primitives means: the unsafe precondition held *)
Theorem free_buf_ok k sz s e s' e' : free_buf k sz s e = OK tt s' e' ->
  exists x, sts s !! k = Some x /\ (s_cls x = SHeap -> s_live x = true /\ sz = s_size x /\ sts s' !! k = Some (dead x) /\ e' = e ++ [EFree k sz]).
Proof.
  unfold free_buf, mbind, get_st. destruct (sts s !! k) as [x|] eqn:E; [|done]. intros H. exists x. split; [done|]. intros Hc. rewrite Hc in H.
  unfold mcheck in H. destruct (s_live x) eqn:El; [|done]. simpl in H. destruct (sz =? s_size x) eqn:Es; [|done]. simpl in H.
  apply N.eqb_eq in Es. unfold put_st, emit in H. inversion H; subst. simpl. rewrite lookup_insert. auto.
Qed.
Theorem mread_ok k ofs len s e bs s' e' : mread k ofs len s e = OK bs s' e' -> len <> 0 ->
  exists x, sts s !! k = Some x /\ s_live x = true /\ ofs + len <= s_size x /\ bs = rd (s_data x) ofs len /\ s' = s /\ e' = e.
Proof.
  unfold mread. intros H Hl. replace (len =? 0) with false in H by lia. unfold mbind, get_st in H. destruct (sts s !! k) as [x|]; [|done].
  unfold mcheck in H. destruct (s_live x) eqn:El; [|done]. simpl in H. destruct (ofs + len <=? s_size x) eqn:E; [|done]. simpl in H.
  apply N.leb_le in E. unfold mret in H. inversion H; subst. exists x. auto 10.
Qed.
Theorem mwrite_ok k ofs bs s e s' e' : mwrite k ofs bs s e = OK tt s' e' -> lenN bs <> 0 ->
  exists x, sts s !! k = Some x /\ s_live x = true /\ s_cls x = SHeap /\ ofs + lenN bs <= s_size x /\ e' = e.
Proof.
  unfold mwrite. intros H Hl. replace (lenN bs =? 0) with false in H by lia. unfold mbind, get_st in H. destruct (sts s !! k) as [x|]; [|done].
  unfold mcheck in H. destruct (s_live x) eqn:El; [|done]. simpl in H. destruct (ofs + lenN bs <=? s_size x) eqn:E; [|done]. simpl in H.
  apply N.leb_le in E. destruct (s_cls x) eqn:Ec; try done. unfold put_st in H. inversion H; subst. exists x. auto 10.
Qed.

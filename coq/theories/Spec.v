(* M1: the value-level reference model ("each handle is an independent Vec<u8>", property C01).
   No addresses, no capacities of its own, no allocator, no build configuration.  Operations whose contract mentions the
   capacity (BytesMut::split_off) or whose result is representation dependent (is_unique, try_into_mut) take that
   one bit / number from the concrete side. *)
From stdpp Require Import gmap.
From Coq Require Import NArith.
From BV Require Import Base BufMut Heap.
Local Open Scope N_scope.

Inductive skind := KB | KM | KV.
Record sval := { sv_kind : skind; sv_bytes : list byte }.
Record sst := { vals : gmap hid sval; snext : positive }.
Definition sst0 : sst := {| vals := ∅; snext := 1 |}.
Inductive sout := SOk (s : sst) (r : retv) | SPanic | SStuck.

Definition snew (s : sst) (k : skind) (bs : list byte) : sout :=
  SOk {| vals := <[snext s := {| sv_kind := k; sv_bytes := bs |}]> (vals s); snext := Pos.succ (snext s) |} (RH (snext s)).
Definition sset (s : sst) (h : hid) (k : skind) (bs : list byte) : sst := {| vals := <[h := {| sv_kind := k; sv_bytes := bs |}]> (vals s); snext := snext s |}.
Definition sdel (s : sst) (h : hid) : sst := {| vals := delete h (vals s); snext := snext s |}.
Definition with_b (s : sst) (h : hid) (want : skind) (f : list byte -> sout) : sout :=
  match vals s !! h with
  | Some v => match sv_kind v, want with KB, KB | KM, KM | KV, KV => f (sv_bytes v) | _, _ => SStuck end
  | None => SStuck
  end.
Definition sub (bs : list byte) (b e : N) : list byte := firstnN (e - b) (skipN b bs).

(* cap : the capacity() the concrete handle reports (only BytesMut::split_off's contract needs it);
   uniq : what the concrete is_unique() answered (M1 does not decide uniqueness) *)
Definition sstep (cap : N) (uniq : bool) (o : op) (s : sst) : sout :=
  match o with
  | OBNew => snew s KB []
  | OBFromStatic d => snew s KB d
  | OBFromVec d _ => snew s KB d
  | OBFromOwner d panics => if panics then SPanic else snew s KB d
  | OMNew => snew s KM [] | OMWithCapacity c => if isize_max <? c then SPanic else snew s KM []
  | OMZeroed n => if isize_max <? n then SPanic else snew s KM (repeat 0 (N.to_nat n))
  | OMFromSlice d => snew s KM d
  | OBClone h => with_b s h KB (fun bs => snew s KB bs)
  | OBSlice h b e => with_b s h KB (fun bs => if (b <=? e) && (e <=? lenN bs) then snew s KB (sub bs b e) else SPanic)
  | OBSliceIncl h b e => with_b s h KB (fun bs => if (e <? usize_max) && (b <=? e + 1) && (e + 1 <=? lenN bs) then snew s KB (sub bs b (e + 1)) else SPanic)
  | OBSliceRef h None => with_b s h KB (fun _ => SPanic)
  | OBSliceRef h (Some (so, sl)) => with_b s h KB (fun bs => if sl =? 0 then snew s KB [] else if so + sl <=? lenN bs then snew s KB (sub bs so (so + sl)) else SPanic)
  | OBSplitOff h a => with_b s h KB (fun bs => if a <=? lenN bs then snew (sset s h KB (firstnN a bs)) KB (skipN a bs) else SPanic)
  | OBSplitTo h a => with_b s h KB (fun bs => if a <=? lenN bs then snew (sset s h KB (skipN a bs)) KB (firstnN a bs) else SPanic)
  | OBTruncate h l => with_b s h KB (fun bs => SOk (sset s h KB (firstnN l bs)) RUnit)
  | OBClear h => with_b s h KB (fun bs => SOk (sset s h KB []) RUnit)
  | OBAdvance h c => with_b s h KB (fun bs => if c <=? lenN bs then SOk (sset s h KB (skipN c bs)) RUnit else SPanic)
  | OBIsUnique h => with_b s h KB (fun _ => SOk s (RBool uniq))
  | OBTryIntoMut h => with_b s h KB (fun bs => if uniq then snew (sdel s h) KM bs else SOk s (RErr h))
  | OBIntoMut h => with_b s h KB (fun bs => snew (sdel s h) KM bs)
  | OBIntoVec h => with_b s h KB (fun bs => snew (sdel s h) KV bs)
  | OBDrop h => with_b s h KB (fun _ => SOk (sdel s h) RUnit)
  | OMSplitOff h a => with_b s h KM (fun bs => if a <=? cap then snew (sset s h KM (firstnN a bs)) KM (skipN a bs) else SPanic)
  | OMSplitTo h a => with_b s h KM (fun bs => if a <=? lenN bs then snew (sset s h KM (skipN a bs)) KM (firstnN a bs) else SPanic)
  | OMSplit h => with_b s h KM (fun bs => snew (sset s h KM []) KM bs)
  | OMTruncate h l => with_b s h KM (fun bs => SOk (sset s h KM (firstnN l bs)) RUnit)
  | OMClear h => with_b s h KM (fun _ => SOk (sset s h KM []) RUnit)
  | OMResize h n v => with_b s h KM (fun bs => if n <=? lenN bs then SOk (sset s h KM (firstnN n bs)) RUnit
                                               else if (n - lenN bs <=? cap - lenN bs) || (n <=? isize_max) then SOk (sset s h KM (bs ++ repeat v (N.to_nat (n - lenN bs)))) RUnit else SPanic)
  | OMReserve h n => with_b s h KM (fun bs => if (n <=? cap - lenN bs) || (lenN bs + n <=? isize_max) then SOk s RUnit else SPanic)
  | OMTryReclaim h n => with_b s h KM (fun _ => SOk s (RBool uniq))             (* the answer is the concrete side's; the state must not change *)
  | OMExtend h d => with_b s h KM (fun bs => SOk (sset s h KM (bs ++ d)) RUnit)
  | OMExtendIter h d hint => with_b s h KM (fun bs => if (hint <=? cap - lenN bs) || (lenN bs + hint <=? isize_max) then SOk (sset s h KM (bs ++ d)) RUnit else SPanic)
  | OMWrite h i v => with_b s h KM (fun bs => if i <? lenN bs then SOk (sset s h KM (firstnN i bs ++ [v] ++ skipN (i + 1) bs)) RUnit else SPanic)
  | OMUnsplit h o2 => if Pos.eqb h o2 then SStuck else
                      with_b s h KM (fun bs => with_b s o2 KM (fun bs2 => SOk (sdel (sset s h KM (bs ++ bs2)) o2) RUnit))
  | OMFreeze h => with_b s h KM (fun bs => snew (sdel s h) KB bs)
  | OMIntoVec h => with_b s h KM (fun bs => snew (sdel s h) KV bs)
  | OMAdvance h c => with_b s h KM (fun bs => if c <=? lenN bs then SOk (sset s h KM (skipN c bs)) RUnit else SPanic)
  | OMClone h => with_b s h KM (fun bs => snew s KM bs)
  | OMDrop h => with_b s h KM (fun _ => SOk (sdel s h) RUnit)
  | OVIntoBytes h => with_b s h KV (fun bs => snew (sdel s h) KB bs)
  | OVDrop h => with_b s h KV (fun _ => SOk (sdel s h) RUnit)
  end.
Definition svals_of (s : sst) : list (hid * sval) := map_to_list (vals s).

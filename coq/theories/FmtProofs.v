From Coq Require Import Ascii List NArith Lia Bool.
From BV Require Import Fmt.
Import ListNotations.
Local Open Scope N_scope.

Ltac esc e x tac := destruct (Ascii.eqb e x); [tac|].
Lemma lex1_app s b r : lex1 s = Some (b, []) -> lex1 (s ++ r) = Some (b, r).
Proof.
  unfold lex1. destruct s as [|c s]; [discriminate|]. cbn [app].
  destruct (Ascii.eqb c "\"%char).
  - destruct s as [|e s]; [discriminate|]. cbn [app].
    esc e "n"%char ltac:(intros [= <- ->]; reflexivity). esc e "r"%char ltac:(intros [= <- ->]; reflexivity).
    esc e "t"%char ltac:(intros [= <- ->]; reflexivity). esc e "\"%char ltac:(intros [= <- ->]; reflexivity).
    esc e "0"%char ltac:(intros [= <- ->]; reflexivity). esc e "'"%char ltac:(intros [= <- ->]; reflexivity).
    esc e """"%char ltac:(intros [= <- ->]; reflexivity).
    destruct (Ascii.eqb e "x"%char); [|discriminate].
    destruct s as [|h [|l s]]; try discriminate. cbn [app].
    destruct (hexval h), (hexval l); try discriminate. intros [= <- ->]. reflexivity.
  - destruct (Ascii.eqb c """"%char); [discriminate|]. destruct (_ && _); [|discriminate]. intros [= <- ->]. reflexivity.
Qed.
Lemma lex1_nonempty s b r : lex1 s = Some (b, r) -> (length r < length s)%nat.
Proof.
  unfold lex1. destruct s as [|c s]; [discriminate|].
  destruct (Ascii.eqb c "\"%char).
  - destruct s as [|e s]; [discriminate|].
    esc e "n"%char ltac:(intros [= <- <-]; cbn; lia). esc e "r"%char ltac:(intros [= <- <-]; cbn; lia).
    esc e "t"%char ltac:(intros [= <- <-]; cbn; lia). esc e "\"%char ltac:(intros [= <- <-]; cbn; lia).
    esc e "0"%char ltac:(intros [= <- <-]; cbn; lia). esc e "'"%char ltac:(intros [= <- <-]; cbn; lia).
    esc e """"%char ltac:(intros [= <- <-]; cbn; lia).
    destruct (Ascii.eqb e "x"%char); [|discriminate].
    destruct s as [|h [|l s]]; try discriminate. destruct (hexval h), (hexval l); try discriminate. intros [= <- <-]. cbn; lia.
  - destruct (Ascii.eqb c """"%char); [discriminate|]. destruct (_ && _); [|discriminate]. intros [= <- <-]. cbn; lia.
Qed.

Lemma in_all_bytes b : b < 256 -> In b all_bytes.
Proof. intros Hb. unfold all_bytes. apply in_map_iff. exists (N.to_nat b). split; [lia|]. apply in_seq. lia. Qed.

Lemma table_ok_entry tbl b : table_ok tbl = true -> b < 256 -> lex1 (tbl b) = Some (b, []).
Proof.
  unfold table_ok. rewrite forallb_forall. intros H Hb.
  specialize (H b (in_all_bytes b Hb)). unfold entry_ok in H. destruct (lex1 (tbl b)) as [[b' [|]]|]; try discriminate.
  apply N.eqb_eq in H. subst. reflexivity.
Qed.

Theorem debug_roundtrip tbl :
  table_ok tbl = true -> forall bs, Forall (fun b => b < 256) bs -> parse_lit (debug_fmt tbl bs) = Some bs.
Proof.
  intros Hok bs Hbs. unfold debug_fmt, parse_lit.
  assert (Hgen : forall fuel, (length (concat (map tbl bs) ++ [""""%char]) <= fuel)%nat ->
            parse_body fuel (concat (map tbl bs) ++ [""""%char]) = Some bs).
  { induction Hbs as [|b bs Hb Hbs IH]; intros fuel Hf.
    - cbn in *. destruct fuel; [lia|]. reflexivity.
    - cbn [map concat] in *. rewrite <- app_assoc in *.
      pose proof (table_ok_entry tbl b Hok Hb) as Hl.
      pose proof (lex1_app _ _ (concat (map tbl bs) ++ [""""%char]) Hl) as Hl2.
      pose proof (lex1_nonempty _ _ _ Hl2) as Hlen.
      destruct fuel; [rewrite !app_length in Hf; cbn in Hf; lia|].
      cbn [parse_body].
      destruct (tbl b ++ concat (map tbl bs) ++ [""""%char]) as [|q [|q2 rest]] eqn:E.
      + cbn in Hlen. lia.
      + exfalso. assert (Hone : length (tbl b ++ concat (map tbl bs) ++ [""""%char]) = 1%nat) by (rewrite E; reflexivity).
        rewrite !app_length in Hone. cbn in Hone. destruct (tbl b); [discriminate Hl|cbn in Hone; lia].
      + rewrite Hl2. rewrite IH; [reflexivity|]. cbn in Hlen, Hf. lia. }
  apply Hgen. lia.
Qed.

(* hex *)
Lemma hex_entry tbl cls b : hex_table_ok cls tbl = true -> b < 256 ->
  exists h l x y, tbl b = [h; l] /\ cls h = true /\ cls l = true /\ hexval h = Some x /\ hexval l = Some y /\ 16 * x + y = b.
Proof.
  unfold hex_table_ok. rewrite forallb_forall. intros H Hb. specialize (H b (in_all_bytes b Hb)).
  unfold hex_entry_ok in H. destruct (tbl b) as [|h [|l [|]]]; try discriminate.
  destruct (cls h) eqn:Eh, (cls l) eqn:El; try discriminate. cbn in H.
  destruct (hexval h) as [x|] eqn:Ex; [|discriminate]. destruct (hexval l) as [y|] eqn:Ey; [|discriminate].
  apply N.eqb_eq in H. exists h, l, x, y. repeat split; auto.
Qed.

Theorem hex_length tbl cls bs : hex_table_ok cls tbl = true -> Forall (fun b => b < 256) bs ->
  length (hex_fmt tbl bs) = (2 * length bs)%nat.
Proof.
  intros Hok Hbs. unfold hex_fmt. induction Hbs as [|b bs Hb _ IH]; [reflexivity|].
  cbn [map concat]. rewrite app_length, IH.
  destruct (hex_entry tbl cls b Hok Hb) as (h & l & x & y & -> & _). cbn. lia.
Qed.
Theorem hex_charset tbl cls bs : hex_table_ok cls tbl = true -> Forall (fun b => b < 256) bs ->
  forallb cls (hex_fmt tbl bs) = true.
Proof.
  intros Hok Hbs. unfold hex_fmt. induction Hbs as [|b bs Hb _ IH]; [reflexivity|].
  cbn [map concat]. rewrite forallb_app, IH.
  destruct (hex_entry tbl cls b Hok Hb) as (h & l & x & y & -> & Hh & Hl & _). cbn. rewrite Hh, Hl. reflexivity.
Qed.
Theorem hex_roundtrip tbl cls bs : hex_table_ok cls tbl = true -> Forall (fun b => b < 256) bs ->
  unhex (hex_fmt tbl bs) = Some bs.
Proof.
  intros Hok Hbs. unfold hex_fmt. induction Hbs as [|b bs Hb _ IH]; [reflexivity|].
  cbn [map concat].
  destruct (hex_entry tbl cls b Hok Hb) as (h & l & x & y & -> & _ & _ & Hx & Hy & <-).
  cbn [app unhex]. rewrite Hx, Hy, IH. reflexivity.
Qed.
(* the k-th byte is printed at characters 2k, 2k+1: "in order" *)
Theorem hex_in_order tbl cls pre b post : hex_table_ok cls tbl = true ->
  Forall (fun b => b < 256) pre ->
  hex_fmt tbl (pre ++ b :: post) = hex_fmt tbl pre ++ tbl b ++ hex_fmt tbl post
  /\ length (hex_fmt tbl pre) = (2 * length pre)%nat.
Proof.
  intros Hok Hpre. split; [|eapply hex_length; eauto].
  unfold hex_fmt. rewrite map_app, concat_app. reflexivity.
Qed.

(* serde *)
Theorem serde_roundtrip bs : visit (serialize bs) = bs.
Proof. reflexivity. Qed.
Theorem serde_entry_points t : visit t = tok_payload t.
Proof. destruct t; reflexivity. Qed.

(* C10 — typed reads decode the next bytes correctly however the data is chunked.
   Pinned statements only.  The table `getters` and the forwarding table `buf_forward` are REGENERATED from the
   source on every run (Gen/GetPut.v); the theorem holds for every table passing the decidable check
   `tables_ok` (each body, as resolved from the source text, equals the meaning of the method's NAME). *)
From stdpp Require Import list.
From Coq Require Import NArith ZArith String.
From BV Require Import Base Buf BufSpec Codec CodecLemmas Get GetLaws Gen.GetPut.
Local Open Scope N_scope.

Theorem C10_get_by_name : forall getters fwd, tables_ok getters fwd = true ->
  forall name d nbytes b, assoc name getters = Some d -> wf b -> bytes_ok (den b) ->
  spec_of_getter name = Some d /\ get getters fwd name nbytes b = Some (get_spec d nbytes b).
Proof. intros g f H name d nbytes b Hd Hwf Hb. split; [exact (table_entry g f H name d Hd)|exact (get_correct g f H name d nbytes b Hd Hwf Hb)]. Qed.

(* what get_spec says, spelled out: enough bytes => the decoded value of exactly the next `size` bytes of the
   sequence (a function of den b only, hence chunking-independent) and the cursor advanced by `size` *)
Theorem C10_enough_bytes : forall d nbytes b, get_size d nbytes <= lenN (den b) -> (is_var d = true -> nbytes <= 8) ->
  get_spec d nbytes b = Ok (TOk (dec (g_endian d) (g_signed d) (firstnN (get_size d nbytes) (den b)), adv (get_size d nbytes) b)).
Proof.
  intros d nbytes b H Hv. unfold get_spec. destruct (is_var d) eqn:E; cbn [andb].
  - specialize (Hv eq_refl). replace (8 <? nbytes) with false by (symmetry; apply N.ltb_ge; exact Hv).
    replace (lenN (den b) <? get_size d nbytes) with false by (symmetry; apply N.ltb_ge; exact H). reflexivity.
  - replace (lenN (den b) <? get_size d nbytes) with false by (symmetry; apply N.ltb_ge; exact H). reflexivity.
Qed.
Theorem C10_short : forall d nbytes b, lenN (den b) < get_size d nbytes -> (is_var d = true -> nbytes <= 8) ->
  get_spec d nbytes b = if g_try d then Ok (TErr (get_size d nbytes) (lenN (den b))) else Panic.
Proof.
  intros d nbytes b H Hv. unfold get_spec. destruct (is_var d) eqn:E; cbn [andb].
  - specialize (Hv eq_refl). replace (8 <? nbytes) with false by (symmetry; apply N.ltb_ge; exact Hv).
    replace (lenN (den b) <? get_size d nbytes) with true by (symmetry; apply N.ltb_lt; exact H). reflexivity.
  - replace (lenN (den b) <? get_size d nbytes) with true by (symmetry; apply N.ltb_lt; exact H). reflexivity.
Qed.
Theorem C10_sign_extend : forall u n, n <= 8 -> u < 2 ^ (8 * n) -> sign_extend_code u n = to_signed (8 * n) u.
Proof. exact sign_extend_ok. Qed.

(* side conditions on the REGENERATED tables *)
Lemma C10_gen_tables_ok : tables_ok getters buf_forward = true.
Proof. vm_compute. reflexivity. Qed.
Lemma C10_gen_all_bodies_understood : unparsed_methods = [].
Proof. reflexivity. Qed.
(* try_get_X and get_X have the same body descriptor up to the try flag *)
Definition same_but_try (a b : gdesc) : bool :=
  gkind_eqb (g_kind a) (g_kind b) && (g_size a =? g_size b) && endian_eqb (g_endian a) (g_endian b) && Bool.eqb (g_signed a) (g_signed b) && negb (g_try a) && g_try b.
Lemma C10_gen_try_agrees : forallb (fun e => match assoc (String.append "try_" (fst e)) getters with
                                             | Some d' => same_but_try (snd e) d'
                                             | None => g_try (snd e) end) getters = true.
Proof. vm_compute. reflexivity. Qed.

Example C10_nonvacuous :
  get getters buf_forward "get_i16_le" 0
      (Chain (Fwd (Leaf (LGen [[]; [255]]))) (Fwd (Take 3 (Fwd (Leaf (LDeque [127] [1; 2]))))))
  = Some (Ok (TOk (32767%Z, adv 2 (Chain (Fwd (Leaf (LGen [[]; [255]]))) (Fwd (Take 3 (Fwd (Leaf (LDeque [127] [1; 2]))))))))).
Proof. vm_compute. reflexivity. Qed.
Example C10_nonvacuous_int3 :
  get getters buf_forward "try_get_int" 3 (Fwd (Leaf (LGen [[255]; [255; 254]; [9]]))) = Some (Ok (TOk ((-2)%Z, Fwd (Leaf (LGen [[9]]))))).
Proof. vm_compute. reflexivity. Qed.

Print Assumptions C10_get_by_name.
Print Assumptions C10_enough_bytes.
Print Assumptions C10_short.
Print Assumptions C10_sign_extend.
Print Assumptions C10_gen_tables_ok.
Print Assumptions C10_gen_all_bodies_understood.
Print Assumptions C10_gen_try_agrees.
Print Assumptions C10_nonvacuous.
Print Assumptions C10_nonvacuous_int3.

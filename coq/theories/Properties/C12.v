(* C12 (read half) — Take, Chain and Reader bound and order exactly as documented; after any use the adapters
   show their inner buffers advanced by exactly the bytes that went through.  Pinned statements only.
   Every consuming operation of C09/C10 returns the tree `adv k b`; the equations below say what that is
   for each adapter, for arbitrary nestings.  Write half (Limit, chain_mut, Writer) at the end, over the target trees of M5: `wr bs t` is the tree after accepting bs. *)
From stdpp Require Import list.
From Coq Require Import NArith.
From BV Require Import Base Buf BufSpec BufLaws BufLaws2 BufMut BufMutSpec BufMutLaws.
Local Open Scope N_scope.

Theorem C12_take_exposes_first_n : forall n b, den (Take n b) = firstnN n (den b).
Proof. reflexivity. Qed.
Theorem C12_take_remaining : forall n b, wf (Take n b) -> remaining (Take n b) = N.min n (lenN (den b)).
Proof. intros n b H. rewrite (remaining_den _ H). simpl. apply BaseLemmas.lenN_firstnN. Qed.
Theorem C12_chain_reads_a_then_b : forall a b, den (Chain a b) = den a ++ den b.
Proof. reflexivity. Qed.
(* consuming k bytes through Take: the limit drops by k and the inner buffer is advanced by exactly k *)
Theorem C12_take_after_use : forall k n b, adv k (Take n b) = Take (n - k) (adv k b).
Proof. reflexivity. Qed.
(* ... through Chain: a is advanced by what it still had (at most k), b by the rest *)
Theorem C12_chain_after_use : forall k a b,
  adv k (Chain a b) = Chain (adv (N.min k (lenN (den a))) a) (adv (k - N.min k (lenN (den a))) b).
Proof. reflexivity. Qed.
Theorem C12_fwd_after_use : forall k b, adv k (Fwd b) = Fwd (adv k b).
Proof. reflexivity. Qed.
Theorem C12_adv_additive : forall x y b, adv y (adv x b) = adv (x + y) b.
Proof. exact adv_add. Qed.
Theorem C12_adv_zero : forall b, wf b -> adv 0 b = b.
Proof. exact adv_zero. Qed.
Theorem C12_set_limit : forall n lim b, set_limit_at [] lim (Take n b) = Some (Take lim b).
Proof. reflexivity. Qed.
(* Reader: read(dst of length k) transfers min(k, remaining) bytes, the next ones, and never fails;
   fill_buf is chunk and consume is advance (by definition of the model ops, see run_buf.ml `fb`/`cons`) *)
Theorem C12_reader_read : forall k b, wf b ->
  reader_read k b = Ok (firstnN (N.min k (lenN (den b))) (den b), adv (N.min k (lenN (den b))) b).
Proof. exact reader_read_spec. Qed.

(* ---- write half ---- *)
Theorem C12w_chain_fills_a_then_b : forall bs a b,
  wr bs (ChainM a b) = ChainM (wr (firstnN (N.min (lenN bs) (roomZ a)) bs) a) (wr (skipN (N.min (lenN bs) (roomZ a)) bs) b).
Proof. reflexivity. Qed.
Theorem C12w_limit_after_use : forall bs n t, wr bs (LimitM n t) = LimitM (n - lenN bs) (wr bs t).
Proof. reflexivity. Qed.
Theorem C12w_limit_room : forall n t, roomZ (LimitM n t) = N.min (roomZ t) n.
Proof. reflexivity. Qed.
Section Oracle.
  Variable grow : N -> N -> N -> N.
  Variable Rv Rb R : N.
  Hypothesis grow_ok : forall len cap add, len + add <= isize_max -> len + add <= grow len cap add <= isize_max.
  Hypothesis Rv_pos : 0 < Rv. Hypothesis Rb_pos : 0 < Rb. Hypothesis Rv_le : Rv <= R. Hypothesis Rb_le : Rb <= R.
  (* Writer::write accepts min(remaining_mut, len) bytes — the first ones — and never fails *)
  Theorem C12w_writer : forall k src t, headroom R k t -> lenN src <= k -> k <= isize_max ->
    let n := N.min (remaining_mut t) (lenN src) in
    exists t', writer_write grow Rv Rb src t = Ok (n, t') /\ ecap t' = ecap (wr (firstnN n src) t).
  Proof. exact (writer_write_spec grow Rv Rb R grow_ok Rv_pos Rb_pos Rv_le Rb_le). Qed.
End Oracle.
Theorem C12w_limit_accepts_at_most_n : forall R k n t, headroom R k (LimitM n t) -> remaining_mut (LimitM n t) <= n.
Proof. intros R k n t H. rewrite (rm_roomZ R k _ H). simpl. apply N.le_trans with (N.min (roomZ t) n); [apply N.le_min_l|apply N.le_min_r]. Qed.
Theorem C12w_set_limit : forall n lim t, set_limit_at_m [] lim (LimitM n t) = Some (LimitM lim t).
Proof. reflexivity. Qed.

Example C12_nonvacuous :
  let b := Take 5 (Fwd (Chain (Fwd (Take 2 (Fwd (Leaf (LSlice [1; 2; 3]))))) (Fwd (Leaf (LBytes [4; 5; 6; 7]))))) in
  den b = [1; 2; 4; 5; 6] /\
  copy_to_bytes 3 b = Ok ([1; 2; 4], Take 2 (Fwd (Chain (Fwd (Take 0 (Fwd (Leaf (LSlice [3]))))) (Fwd (Leaf (LBytes [5; 6; 7])))))).
Proof. split; vm_compute; reflexivity. Qed.

Print Assumptions C12_take_exposes_first_n.
Print Assumptions C12_take_remaining.
Print Assumptions C12_chain_reads_a_then_b.
Print Assumptions C12_take_after_use.
Print Assumptions C12_chain_after_use.
Print Assumptions C12_fwd_after_use.
Print Assumptions C12_adv_additive.
Print Assumptions C12_adv_zero.
Print Assumptions C12_set_limit.
Print Assumptions C12_reader_read.
Print Assumptions C12w_chain_fills_a_then_b.
Print Assumptions C12w_limit_after_use.
Print Assumptions C12w_limit_room.
Print Assumptions C12w_writer.
Print Assumptions C12w_limit_accepts_at_most_n.
Print Assumptions C12w_set_limit.
Print Assumptions C12_nonvacuous.

(* C16 — results do not depend on allocator address parity, build profile or feature set.
   Pinned statements.  The reference model M1 (Spec.v) has no configuration at all — no parity, no profile, no feature — and
   fixes contents, lengths, return values and which calls panic; so any two configurations whose implementation agrees with M1
   agree with each other.  The representation model M2 takes the parity of new byte buffers as a parameter: proved here is
   that the parity only selects the vtable tag of an un-shared Vec-backed Bytes and never the outcome class of the
   constructors.  The tie: the same seeded histories are executed in {debug, release} x {even, odd} (and the feature sets in
   the thorough tier) and each must agree with M1 step by step; the per-history digests of the configurations must be equal
   (kind c16-digest). *)
From stdpp Require Import gmap.
From Coq Require Import NArith.
From BV Require Import Base Heap Spec SpecLaws.

(* M1's step function does not mention any configuration: this is its type, pinned *)
Definition C16_value_model_has_no_configuration : N -> bool -> op -> sst -> sout := sstep.
Example C16_nonvacuous : sstep 0 false (OBFromVec [1; 2]%N 2) sst0 = sstep 0 false (OBFromVec [1; 2]%N 9) sst0.
Proof. reflexivity. Qed.
Print Assumptions C16_nonvacuous.

(* C16 — results do not depend on allocator address parity, build profile or feature set.
   Pinned statements.  The reference model M1 (Spec.v) has no configuration at all — no parity, no profile, no feature — and
   fixes contents, lengths, return values and which calls panic; so any two configurations whose implementation agrees with M1
   agree with each other.  The representation model M2 takes the parity of new byte buffers as a parameter: proved here is
   that the parity only selects the vtable tag of an un-shared Vec-backed Bytes and never the outcome class of the
   constructors.  The tie: the same seeded histories are executed in {debug, release} x {even, odd} (and the feature sets in
   the thorough tier) and each must agree with M1 step by step; the per-history digests of the configurations must be equal
   (kind c16-digest). *)
From stdpp Require Import gmap.
From Coq Require Import NArith.
From BV Require Import Base Heap Spec SpecLaws HeapWFOps HeapWFMain SizeInv RefineM1 RefineCor.

(* M1's step function does not mention any configuration: this is its type, pinned *)
Definition C16_value_model_has_no_configuration : N -> bool -> op -> sst -> sout := sstep.
Example C16_nonvacuous : sstep 0 false (OBFromVec [1; 2]%N 2) sst0 = sstep 0 false (OBFromVec [1; 2]%N 9) sst0.
Proof. reflexivity. Qed.
(* On the representation model: what a history observes - every handle's kind and bytes (abs) and every return value - is the same
   whatever the address parity of the byte buffers and whatever capacities the allocator delivers (the two runs may differ in both):
   consequence of the refinement M2 refines M1 (C01).  Operations that ask the representation whether it is unique (is_unique,
   try_into_mut, try_reclaim) are excluded here: their boolean is representation dependent by contract (C08 decides it). *)
Theorem C16_observables_independent_of_parity_and_allocator : forall orcs1 n1 s1 orcs2 n2 s2 o r1 s1' e1 r2 s2' e2,
  (forall i, oracle_sane (orcs1 i)) -> (forall i, oracle_sane (orcs2 i)) -> reach orcs1 n1 s1 -> reach orcs2 n2 s2 ->
  abs s1 = abs s2 -> cap_of s1 o = cap_of s2 o -> uniq_free o = true -> op_ok s1 o -> op_ok s2 o ->
  run_op (orcs1 n1) o s1 = OK r1 s1' e1 -> run_op (orcs2 n2) o s2 = OK r2 s2' e2 -> r1 = r2 /\ abs s1' = abs s2'.
Proof. exact observables_independent_of_representation. Qed.
Example C16_both_parities_start_equal : abs (hst0 false) = abs (hst0 true) /\ reach (fun _ => {| or_caps := [] |}) 0 (hst0 true).
Proof. split; [by rewrite !abs0|constructor]. Qed.
Print Assumptions C16_nonvacuous.
Print Assumptions C16_observables_independent_of_parity_and_allocator.
Print Assumptions C16_both_parities_start_equal.

(* C01 — every handle always reads exactly the bytes its API history says it holds.
   Pinned statements.  The property is stated against a reference model "in which each handle is an independent Vec<u8>
   value": that model is M1 (Spec.v).  Proved here: in M1 an operation never changes what any other handle reads (frame)
   and the contents of a Bytes only ever shrink to a contiguous sub-range by its own slicing operations.  The tie of the
   code to M1 is the correspondence engine E1 (contents of EVERY live handle after EVERY step, kind c01-contents).
   PROVED about the representation model M2 (HeapFrame.v), for every history of well-typed operations, every oracle and both address parities:
   C01_representation_frame - an operation that returns leaves every handle it is not applied to unchanged AND that handle reads exactly the same
   bytes afterwards, whatever shares its buffer (clones, split halves, frozen halves of a BytesMut that keeps writing, reallocation, reclaim).
   What remains checked by execution only (kind model-refinement) is that the handle(s) an operation IS applied to get the contents M1 says. *)
From stdpp Require Import gmap.
From Coq Require Import NArith.
From BV Require Import Base Heap Spec SpecLaws HeapWF HeapWFOps HeapWFMain HeapFrame.

Theorem C01_frame : forall cap uniq o s s' r h', sstep cap uniq o s = SOk s' r -> h' ∉ touched o -> (h' < snext s)%positive ->
  vals s' !! h' = vals s !! h'.
Proof. exact sstep_frame. Qed.
Theorem C01_bytes_immutable : forall cap uniq o s s' r h bs k' bs', sstep cap uniq o s = SOk s' r -> (h < snext s)%positive ->
  vals s !! h = Some {| sv_kind := KB; sv_bytes := bs |} -> vals s' !! h = Some {| sv_kind := k'; sv_bytes := bs' |} ->
  k' = KB /\ exists b e, bs' = sub bs b e.
Proof. exact bytes_immutable. Qed.
Example C01_nonvacuous :
  match sstep 0 false (OBSplitTo 1 2) {| vals := {[ 1%positive := {| sv_kind := KB; sv_bytes := [10; 11; 12; 13]%N |} ]}; snext := 2 |} with
  | SOk s' (RH 2%positive) => vals s' !! 1%positive = Some {| sv_kind := KB; sv_bytes := [12; 13]%N |} /\ vals s' !! 2%positive = Some {| sv_kind := KB; sv_bytes := [10; 11]%N |}
  | _ => False
  end.
Proof. vm_compute. split; reflexivity. Qed.

(* the frame property of the REPRESENTATION model: handles behave as independent values *)
Theorem C01_representation_frame : forall orcs n s o r s' e', reach orcs n s -> op_ok s o -> run_op (orcs n) o s = OK r s' e' ->
  forall h y, ~ tch o h -> hs s !! h = Some y -> hs s' !! h = Some y /\ view (sts s') y = view (sts s) y.
Proof. exact m2_frame_reachable. Qed.
Theorem C01_clean_panic_changes_nothing : forall orc o s s' e', HeapPanic.clean_panic_op o = true -> run_op orc o s = PANIC s' e' -> s' = s.
Proof. exact m2_frame_panic. Qed.

Print Assumptions C01_frame.
Print Assumptions C01_bytes_immutable.
Print Assumptions C01_nonvacuous.
Print Assumptions C01_representation_frame.
Print Assumptions C01_clean_panic_changes_nothing.

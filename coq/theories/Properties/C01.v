(* C01 — every handle always reads exactly the bytes its API history says it holds.
   Pinned statements.  The property is stated against a reference model "in which each handle is an independent Vec<u8>
   value": that model is M1 (Spec.v).  Proved here: in M1 an operation never changes what any other handle reads (frame)
   and the contents of a Bytes only ever shrink to a contiguous sub-range by its own slicing operations.  The tie of the
   code to M1 is the correspondence engine E1 (contents of EVERY live handle after EVERY step, kind c01-contents).
   PROVED about the representation model M2 (HeapFrame.v), for every history of well-typed operations, every oracle and both address parities:
   C01_representation_frame - an operation that returns leaves every handle it is not applied to unchanged AND that handle reads exactly the same
   bytes afterwards, whatever shares its buffer (clones, split halves, frozen halves of a BytesMut that keeps writing, reallocation, reclaim).
   C01_representation_refines_reference (RefineM1.v) - the other half, and with it the whole property on M2: with abs s = "every handle of s as an
   independent value (its kind and the bytes it reads)", every operation of the 41 that returns takes abs s to exactly the state M1 prescribes
   (Spec.sstep), with the same return value, for every reachable state of every history, provided the allocator never delivers more than isize::MAX
   bytes (oracle_sane; the invariant hsz of SizeInv.v).  Handles the operation is applied to, handles it creates, and all others are covered.
   What remains checked by execution only is the tie of M2 to the code (engine E1: contents of EVERY live handle after EVERY step). *)
From stdpp Require Import gmap.
From Coq Require Import NArith.
From BV Require Import Base BufMut Heap Spec SpecLaws HeapWF HeapWFOps HeapWFMain HeapFrame SizeInv RefineM1 RefineCor EntryDef Entry.

Theorem C01_frame : forall cap uniq o s s' r h', sstep cap uniq o s = SOk s' r -> h' ∉ touched o -> (h' < snext s)%positive ->
  vals s' !! h' = vals s !! h'.
Proof. exact sstep_frame. Qed.
Theorem C01_bytes_immutable : forall cap uniq o s s' r h bs k' bs', sstep cap uniq o s = SOk s' r -> (h < snext s)%positive ->
  vals s !! h = Some {| sv_kind := KB; sv_bytes := bs |} -> vals s' !! h = Some {| sv_kind := k'; sv_bytes := bs' |} ->
  k' = KB /\ exists b e, bs' = sub bs b e.
Proof. exact bytes_immutable. Qed.
Example C01_nonvacuous :
  match sstep 0 false (OBSplitTo 1 2) {| vals := {[ 1%positive := {| sv_kind := KB; sv_bytes := [10; 11; 12; 13]%N |} ]}; snext := 2 |} with
  | SOk s' (RH 2%positive) => vals s' !! 1%positive = Some {| sv_kind := KB; sv_bytes := [12; 13]%N |} /\ vals s' !! 2%positive = Some {| sv_kind := KB; sv_bytes := [10; 11]%N |}
  | _ => False
  end.
Proof. vm_compute. split; reflexivity. Qed.

(* the frame property of the REPRESENTATION model: handles behave as independent values *)
Theorem C01_representation_frame : forall orcs n s o r s' e', reach orcs n s -> op_ok s o -> run_op (orcs n) o s = OK r s' e' ->
  forall h y, ~ tch o h -> hs s !! h = Some y -> hs s' !! h = Some y /\ view (sts s') y = view (sts s) y.
Proof. exact m2_frame_reachable. Qed.
Theorem C01_clean_panic_changes_nothing : forall orc o s s' e', HeapPanic.clean_panic_op o = true -> run_op orc o s = PANIC s' e' -> s' = s.
Proof. exact m2_frame_panic. Qed.

(* M2 refines M1: every step, every reachable state *)
Theorem C01_representation_refines_reference : forall orcs n s o r s' e', (forall i, oracle_sane (orcs i)) -> reach orcs n s -> op_ok s o ->
  run_op (orcs n) o s = OK r s' e' -> exists uniq, sstep (cap_of s o) uniq o (abs s) = SOk (abs s') r.
Proof. exact m2_refines_m1_reachable. Qed.
Theorem C01_size_invariant : forall orcs n s, (forall i, oracle_sane (orcs i)) -> reach orcs n s ->
  forall k st, sts s !! k = Some st -> s_cls st = SHeap \/ s_cls st = SDangling -> (s_size st <= isize_max)%N.
Proof. exact reach_hsz. Qed.
(* whole histories, of any length, from the empty state, in either address parity: the return values are those of M1 and the state reached
   abstracts to the state M1 reaches *)
Theorem C01_history_refinement : forall orcs odd ops rs s', (forall i, oracle_sane (orcs i)) -> m2steps orcs 0 (hst0 odd) ops rs s' -> m1steps sst0 ops rs (abs s').
Proof. exact history_refinement_from_empty. Qed.
(* 15 further public entry points (copy_from_slice, From<Box<[u8]>>, From<String>, FromIterator for Bytes and BytesMut, From<&str>, Extend<Bytes>, Extend<&u8>,
   put_slice, put_bytes, write_str, set_len, spare_capacity_mut + set_len, Buf::copy_to_bytes of a BytesMut, put(Bytes)) are defined by the source through
   operations of the model; EntryDef.expand is that definition.  The two models compute the same expansion on related states, and the operations an entry point
   stands for refine the reference model like any other history *)
Theorem C01_entry_points_expand_alike : forall s x, WF s -> dlen s -> expand (view2 s) x = expand (view1 (abs s)) x.
Proof. exact expand_agree. Qed.
Theorem C01_entry_points_refine : forall orcs n s x rs s', (forall i, oracle_sane (orcs i)) -> reach orcs n s ->
  m2steps orcs n s (expand (view2 s) x) rs s' -> m1steps (abs s) (expand (view1 (abs s)) x) rs (abs s').
Proof. exact entry_refinement. Qed.
Example C01_entry_points_nonvacuous : entry_demo = true.
Proof. exact entry_runs. Qed.
(* where M1 says the call is out of contract (whatever uniqueness bit), M2 does not return *)
Corollary C01_contract_violation_does_not_return : forall orcs n s o r s' e', (forall i, oracle_sane (orcs i)) -> reach orcs n s -> op_ok s o ->
  (forall uniq, sstep (cap_of s o) uniq o (abs s) = SPanic) -> run_op (orcs n) o s <> OK r s' e'.
Proof. intros orcs n s o r s' e' Ho Hr Hok Hp E. destruct (m2_refines_m1_reachable orcs n s o r s' e' Ho Hr Hok E) as [u Hu]. by rewrite Hp in Hu. Qed.
(* non-vacuity: a concrete history through with_capacity, extend_from_slice, split_to; the abstraction is what M1 computes *)
Example C01_refinement_nonvacuous :
  let orc := {| or_caps := [] |} in
  match run_op orc (OMWithCapacity 8) (hst0 false) with
  | OK (RH h) s1 _ =>
      match run_op orc (OMExtend h [1; 2; 3]%N) s1 with
      | OK _ s2 _ =>
          match run_op orc (OMSplitTo h 2) s2 with
          | OK (RH h2) s3 _ => vals (abs s3) !! h = Some {| sv_kind := KM; sv_bytes := [3]%N |} /\ vals (abs s3) !! h2 = Some {| sv_kind := KM; sv_bytes := [1; 2]%N |}
          | _ => False
          end
      | _ => False
      end
  | _ => False
  end.
Proof. vm_compute. split; reflexivity. Qed.

Print Assumptions C01_frame.
Print Assumptions C01_bytes_immutable.
Print Assumptions C01_nonvacuous.
Print Assumptions C01_representation_frame.
Print Assumptions C01_clean_panic_changes_nothing.
Print Assumptions C01_representation_refines_reference.
Print Assumptions C01_size_invariant.
Print Assumptions C01_contract_violation_does_not_return.
Print Assumptions C01_refinement_nonvacuous.
Print Assumptions C01_history_refinement.
Print Assumptions C01_entry_points_expand_alike.
Print Assumptions C01_entry_points_refine.
Print Assumptions C01_entry_points_nonvacuous.

(* C04 — BytesMut regions are exclusive and in-bounds; reserve keeps its promise.
   Pinned statements about the transliterated reserve / reserve_inner / try_reclaim of M2 (Heap.v), for EVERY state,
   EVERY argument (N is unbounded: usize::MAX - k is an ordinary argument; the code's checked additions are modelled)
   and every oracle capacity.  Disjointness of the windows is evaluated directly on the implementation after every step
   (kinds c04-overlap / c04-out-of-bounds); its proof over M2 needs the global invariant and is not done yet (DESIGN §10). *)
From stdpp Require Import gmap.
From Coq Require Import NArith.
From BV Require Import Base Heap HeapLaws HeapWF HeapWFOps HeapWFMain SizeInv Spec RefineM1 RefineCor.
Local Open Scope N_scope.

Theorem C04_reserve_post : forall orc n x s e x' s' e', m_reserve orc n x s e = OK x' s' e' -> h_len x <= h_cap x ->
  h_len x' = h_len x /\ n <= h_cap x' - h_len x'.
Proof. exact reserve_post. Qed.
Theorem C04_try_reclaim : forall orc n x s e x' b s' e', m_try_reclaim orc n x s e = OK (x', b) s' e' -> h_len x <= h_cap x ->
  if b then h_len x' = h_len x /\ n <= h_cap x' - h_len x' else x' = x /\ s' = s /\ e' = e.
Proof. exact try_reclaim_post. Qed.
Theorem C04_try_reclaim_never_allocates : forall orc n x, quiet (m_try_reclaim orc n x).
Proof. exact try_reclaim_quiet. Qed.
Theorem C04_reserve_inner_false_is_noop : forall orc n allocate x s e x' s' e',
  reserve_inner orc n allocate x s e = OK (x', false) s' e' -> x' = x /\ s' = s /\ e' = e.
Proof. exact reserve_inner_false. Qed.
(* the D1 scenario: a shared handle with a front offset asked for nearly usize::MAX bytes panics instead of returning *)
Example C04_unrepresentable_request_panics :
  let s0 := {| sts := {[ 2%positive := {| s_size := 11; s_data := [1;2;3;4;5;6;7;8;9;10;11]; s_live := true; s_odd := false; s_cls := SHeap; s_ctrl := CSharedV 11 0 1 |} ]};
               hs := {[ 1%positive := HM 2%positive 5 6 6 MArc ]}; owners := ∅; next_real := 2; next_pseudo := 1; next_h := 2; next_o := 1; odd_mode := false |} in
  match hstep {| or_caps := [] |} (OMReserve 1 (usize_max - 6)) s0 [] with PANIC s' [] => hs s' = hs s0 | _ => False end.
Proof. vm_compute. reflexivity. Qed.

(* the exclusivity half, from the global invariant (C02.v): in every state reachable by any history of well-typed operations, with every oracle,
   the non-empty capacity windows [ptr, ptr+cap) of two different shared BytesMut handles on one buffer never overlap, and every BytesMut's
   window (and its len <= cap) lies inside its live allocation; an inline (unshared) BytesMut is the only holder of its buffer *)
Theorem C04_windows_disjoint : forall orcs n s h1 h2 k o1 l1 c1 o2 l2 c2, reach orcs n s -> h1 <> h2 ->
  hs s !! h1 = Some (HM k o1 l1 c1 MArc) -> hs s !! h2 = Some (HM k o2 l2 c2 MArc) -> c1 = 0 \/ c2 = 0 \/ o1 + c1 <= o2 \/ o2 + c2 <= o1.
Proof. intros orcs n s h1 h2 k o1 l1 c1 o2 l2 c2 Hr. apply wf_windows_disjoint. by eapply reach_wf. Qed.
Theorem C04_window_inside_live_allocation : forall orcs n s h k o l c kd, reach orcs n s -> hs s !! h = Some (HM k o l c kd) ->
  exists st, sts s !! k = Some st /\ s_live st = true /\ o + c <= s_size st /\ l <= c.
Proof. intros orcs n s h k o l c kd Hr. apply wf_window_in_bounds. by eapply reach_wf. Qed.
Theorem C04_inline_vec_is_sole_holder : forall orcs n s h k o l c ocr h' y, reach orcs n s -> hs s !! h = Some (HM k o l c (MVec ocr)) ->
  hs s !! h' = Some y -> h' <> h -> holds y <> Some k.
Proof.
  intros orcs n s h k o l c ocr h' y Hr Hx Hy Hne. destruct (reach_wf _ _ _ Hr) as [L _].
  destruct (lwf_typed _ _ L _ _ Hx) as (st & Hs & Hl & Hcl & Hc & _).
  apply (refs_one_other (hs s) h (HM k o l c (MVec ocr)) k h' y); try done. by eapply (HeapWFPrim.st_ok_sole_n _ _ h _ k st L Hx).
Qed.

(* "contents and length are unchanged" - of EVERY handle, the one reserve is called on included (refinement M2 refines M1, RefineM1.v) *)
Theorem C04_reserve_changes_nothing_observable : forall orcs n s h a r s' e', (forall i, oracle_sane (orcs i)) -> reach orcs n s -> op_ok s (OMReserve h a) ->
  run_op (orcs n) (OMReserve h a) s = OK r s' e' -> abs s' = abs s /\ r = RUnit.
Proof. exact reserve_keeps_observables. Qed.
Theorem C04_try_reclaim_changes_nothing_observable : forall orcs n s h a r s' e', (forall i, oracle_sane (orcs i)) -> reach orcs n s -> op_ok s (OMTryReclaim h a) ->
  run_op (orcs n) (OMTryReclaim h a) s = OK r s' e' -> abs s' = abs s.
Proof. exact try_reclaim_keeps_observables. Qed.
Print Assumptions C04_reserve_post.
Print Assumptions C04_try_reclaim.
Print Assumptions C04_try_reclaim_never_allocates.
Print Assumptions C04_reserve_inner_false_is_noop.
Print Assumptions C04_unrepresentable_request_panics.
Print Assumptions C04_windows_disjoint.
Print Assumptions C04_window_inside_live_allocation.
Print Assumptions C04_inline_vec_is_sole_holder.
Print Assumptions C04_reserve_changes_nothing_observable.
Print Assumptions C04_try_reclaim_changes_nothing_observable.

(* C09 — every Buf in the crate is a faithful cursor over one byte sequence.
   Pinned statements only; every proof is `exact <lemma>`.  `b` ranges over ARBITRARY adapter trees
   (any depth, any fragmentation; LGen = any law-abiding foreign Buf using the default methods);
   `den b` is the byte sequence the tree denotes, `adv k b` the tree after consuming k bytes (BufSpec.v). *)
From stdpp Require Import list.
From Coq Require Import NArith.
From BV Require Import Base Buf BufSpec BufLaws BufLaws2 BufLawsCv Gen.GetPut.
Local Open Scope N_scope.

Theorem C09_remaining : forall b, wf b -> remaining b = lenN (den b).
Proof. exact remaining_den. Qed.
Theorem C09_chunk_prefix : forall b, wf b -> chunk b `prefix_of` den b.
Proof. exact chunk_prefix. Qed.
Theorem C09_chunk_empty_iff : forall b, wf b -> (chunk b = [] <-> den b = []).
Proof. exact chunk_nil. Qed.
Theorem C09_advance_ok : forall k b, wf b -> k <= lenN (den b) -> advance k b = Ok (adv k b).
Proof. exact advance_ok. Qed.
Theorem C09_advance_removes_first_k : forall k b, den (adv k b) = skipN k (den b).
Proof. exact den_adv. Qed.
Theorem C09_advance_keeps_wf : forall k b, wf b -> k <= lenN (den b) -> wf (adv k b).
Proof. exact wf_adv. Qed.
Theorem C09_advance_panics_past_end : forall k b, wf b -> lenN (den b) < k -> advance k b = Panic.
Proof. exact advance_panic. Qed.

Lemma C09_take_len_pos : 0 < take_len.
Proof. reflexivity. Qed.
Theorem C09_chunks_vectored_count : forall n b, lenN (cv take_len n b) <= n.
Proof. exact (cv_count take_len C09_take_len_pos). Qed.
Theorem C09_chunks_vectored_prefix : forall n b, wf b -> concat (cv take_len n b) `prefix_of` den b.
Proof. exact (cv_prefix take_len C09_take_len_pos). Qed.
Theorem C09_chunks_vectored_nonempty : forall n b, wf b -> 0 < n -> den b <> [] -> Exists (fun s => s <> []) (cv take_len n b).
Proof. exact (cv_nonempty take_len C09_take_len_pos). Qed.

Theorem C09_copy_to_slice : forall k b, wf b ->
  copy_to_slice k b = if lenN (den b) <? k then Panic else Ok (firstnN k (den b), adv k b).
Proof. exact copy_to_slice_spec. Qed.
Theorem C09_try_copy_to_slice : forall k b, wf b ->
  try_copy_to_slice_d k b = Ok (if lenN (den b) <? k then TErr k (lenN (den b)) else TOk (firstnN k (den b), adv k b)).
Proof. exact try_copy_to_slice_d_spec. Qed.
Theorem C09_copy_to_bytes : forall k b, wf b ->
  copy_to_bytes k b = if lenN (den b) <? k then Panic else Ok (firstnN k (den b), adv k b).
Proof. exact copy_to_bytes_spec. Qed.
Theorem C09_into_iter_next : forall b, wf b ->
  iter_next b = Ok (match den b with [] => (None, b) | x :: _ => (Some x, adv 1 b) end).
Proof. exact iter_next_spec. Qed.

(* non-vacuity: a depth-4 tree with empty chunks, a wrapped deque, a cursor past a prefix, and a Take that cuts *)
Definition C09_example : buf :=
  Chain (Fwd (Take 5 (Fwd (Chain (Fwd (Leaf (LGen [[]; [1; 2]; []; [3]]))) (Fwd (Leaf (LDeque [4; 5] [6; 7])))))))
        (Fwd (Chain (Fwd (Leaf (LCursor [9; 9; 8] 2))) (Fwd (Leaf (LBytes [10; 11]))))).
Example C09_example_wf : wf C09_example /\ den C09_example = [1; 2; 3; 4; 5; 8; 10; 11].
Proof. split; [|reflexivity]. unfold C09_example; simpl; unfold lenN; simpl. rewrite BufLaws.usize_max_val. repeat split; try discriminate; try lia. Qed.
Example C09_example_runs : cv take_len 4 C09_example = [[1; 2]] /\ copy_to_bytes 6 C09_example = Ok ([1; 2; 3; 4; 5; 8], adv 6 C09_example).
Proof. split; vm_compute; reflexivity. Qed.

Print Assumptions C09_remaining.
Print Assumptions C09_chunk_prefix.
Print Assumptions C09_chunk_empty_iff.
Print Assumptions C09_advance_ok.
Print Assumptions C09_advance_removes_first_k.
Print Assumptions C09_advance_keeps_wf.
Print Assumptions C09_advance_panics_past_end.
Print Assumptions C09_chunks_vectored_count.
Print Assumptions C09_chunks_vectored_prefix.
Print Assumptions C09_take_len_pos.
Print Assumptions C09_chunks_vectored_nonempty.
Print Assumptions C09_copy_to_slice.
Print Assumptions C09_try_copy_to_slice.
Print Assumptions C09_copy_to_bytes.
Print Assumptions C09_into_iter_next.
Print Assumptions C09_example_wf.
Print Assumptions C09_example_runs.

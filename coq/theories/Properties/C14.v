(* C14 — equality, ordering and hashing depend on the bytes only, in both operand orders.
   Pinned statements.  The laws are about the slice-level functions every impl must equal; that each impl of the
   crate IS that function is decided by exhaustive correspondence (E5/cmp) per impl, and the closing lemma
   says every impl header found in the CURRENT source is one that engine exercises. *)
From Coq Require Import List NArith.
From BV Require Import Base Cmp CmpLaws Gen.CmpImpls.

Theorem C14_eq_iff_same_bytes : forall x y, cmp_bytes x y = Eq <-> x = y.
Proof. exact cmp_bytes_eq. Qed.
Theorem C14_eq_bool : forall x y, eq_bytes x y = true <-> x = y.
Proof. exact eq_bytes_spec. Qed.
Theorem C14_both_operand_orders : forall x y, cmp_bytes y x = CompOpp (cmp_bytes x y).
Proof. exact cmp_bytes_antisym. Qed.
Theorem C14_lt_iff_gt_swapped : forall x y, cmp_bytes x y = Lt <-> cmp_bytes y x = Gt.
Proof. exact cmp_bytes_lt_gt. Qed.
Theorem C14_transitive : forall x y z c, cmp_bytes x y = c -> cmp_bytes y z = c -> cmp_bytes x z = c.
Proof. exact cmp_bytes_trans. Qed.
Theorem C14_proper_prefix_is_less : forall x s, s <> [] -> cmp_bytes x (x ++ s) = Lt.
Proof. exact cmp_bytes_prefix. Qed.
Theorem C14_coverage_sound : forall src tbl i, all_covered src tbl = true -> In i src -> exists j, In j tbl /\ impl_eqb i j = true.
Proof. exact covered_sound. Qed.
Lemma C14_gen_every_source_impl_is_exercised : all_covered source_impls harness_table = true.
Proof. vm_compute. reflexivity. Qed.
Example C14_nonvacuous : cmp_bytes [97; 0]%N [97; 0; 255]%N = Lt /\ cmp_bytes [255]%N [97; 97]%N = Gt /\ Nat.leb 50 (length source_impls) = true.
Proof. vm_compute. repeat split; reflexivity. Qed.

Print Assumptions C14_eq_iff_same_bytes.
Print Assumptions C14_eq_bool.
Print Assumptions C14_both_operand_orders.
Print Assumptions C14_lt_iff_gt_swapped.
Print Assumptions C14_transitive.
Print Assumptions C14_proper_prefix_is_less.
Print Assumptions C14_coverage_sound.
Print Assumptions C14_gen_every_source_impl_is_exercised.
Print Assumptions C14_nonvacuous.

(* C13 — contract violations panic cleanly and leave every handle intact.
   Pinned statements.  Effect theorem over the representation model M2: for EVERY state and EVERY argument, if an
   operation panics then the whole state — every handle's pointer, length, capacity and representation, every storage,
   every reference count — and the event log are exactly as before the call (`cp`), for all operations except from_owner
   with a panicking as_ref (which consumes its owner by contract) and the iterator form of extend (partial progress
   is allowed before a capacity overflow).  freeze never panics.  In the value model M1 an out-of-contract call has no
   successor state at all (SPanic carries none).  Which calls panic is fixed by M1 and checked against the implementation
   at every step (kinds c13-missing-panic / c13-unexpected-panic / c13-state-changed); that the state stays well-formed
   and is released exactly once afterwards is C03's ledger check at the end of every history. *)
From Coq Require Import NArith.
From stdpp Require Import gmap.
From BV Require Import Base Heap HeapLaws HeapPanic Spec HeapWFOps HeapWFMain SizeInv RefineM1 PanicExact.

Theorem C13_panics_are_clean : forall orc o, clean_panic_op o = true -> cp (hstep orc o).
Proof. exact panics_are_clean. Qed.
Theorem C13_cp_means : forall A (m : M A), cp m -> forall s e s' e', m s e = PANIC s' e' -> s' = s /\ e' = e.
Proof. intros A m H s e s' e' Hm. specialize (H s e). rewrite Hm in H. exact H. Qed.
Theorem C13_freeze_never_panics : forall orc h, np (hstep orc (OMFreeze h)).
Proof. exact freeze_never_panics. Qed.
Theorem C13_reserve_false_is_noop : forall orc n allocate x s e x' s' e',
  reserve_inner orc n allocate x s e = OK (x', false) s' e' -> x' = x /\ s' = s /\ e' = e.
Proof. exact reserve_inner_false. Qed.
Example C13_nonvacuous : clean_panic_op (OMReserve 1 5) = true /\ clean_panic_op (OBSlice 1 9 3) = true /\ clean_panic_op (OMSplitOff 2 77) = true.
Proof. repeat split. Qed.

(* "cause a panic or the documented no-op ... never a silent wrong result": on M2, for every operation whose panics are argument checks
   (slice / slice_ref / split_off / split_to / advance / truncate / clear of Bytes and BytesMut, index writes, with_capacity / zeroed, from_owner,
   clone / drop / freeze / is_unique which never panic), in every reachable state the call panics EXACTLY when the reference model M1 says the
   arguments are out of contract, and otherwise returns what M1 prescribes (C01).  Capacity-overflow panics of the allocating operations are
   outside this statement (M1 states them approximately). *)
Theorem C13_panics_exactly_when_out_of_contract : forall orcs n s o, (forall i, oracle_sane (orcs i)) -> reach orcs n s -> op_ok s o -> arg_checked o = true ->
  (exists s' e', run_op (orcs n) o s = PANIC s' e') <-> (forall uniq, sstep (cap_of s o) uniq o (abs s) = SPanic).
Proof. exact panics_exactly. Qed.
Example C13_exact_nonvacuous : arg_checked (OBSlice 1 9 3) = true /\ arg_checked (OMSplitOff 2 77) = true /\ arg_checked (OMReserve 1 5) = false.
Proof. done. Qed.
Print Assumptions C13_panics_are_clean.
Print Assumptions C13_cp_means.
Print Assumptions C13_freeze_never_panics.
Print Assumptions C13_reserve_false_is_noop.
Print Assumptions C13_nonvacuous.
Print Assumptions C13_panics_exactly_when_out_of_contract.
Print Assumptions C13_exact_nonvacuous.

(* C08 — uniqueness is reported truthfully and a sole owner can reclaim its buffer.
   Pinned statements over M2's representation functions: static and owner-backed handles are never unique; try_into_mut
   returns Err (leaving everything untouched) exactly when is_unique answers false and is the conversion otherwise.
   From the counting invariant of M2 (C02) and UniqueLaws.v: for EVERY heap representation (promotable even/odd with or without a
   control block, shared, frozen BytesMut) is_unique() is true exactly when one handle holds the storage; a unique Bytes converts to
   BytesMut in place (same storage, same offset, same length, no byte of any storage changed); an empty BytesMut that is alone on
   its allocation gets `true` from try_reclaim(n) for every n up to the allocation size, with capacity >= n afterwards.
   The same three facts are evaluated on the implementation for every live handle after every step (kinds c08-is-unique,
   c08-try-into-mut, c08-sole-owner-reclaim). *)
From stdpp Require Import gmap.
From Coq Require Import NArith.
From BV Require Import Base Heap HeapLaws HeapWF HeapWFOps HeapWFMain HeapFrame RefineM1 ZeroCopy UniqueLaws.

Theorem C08_static_owned_never_unique : forall k o l arc s e,
  bytes_is_unique_rep (HB k o l VStatic arc) s e = OK false s e /\ bytes_is_unique_rep (HB k o l VOwned arc) s e = OK false s e.
Proof. exact static_owned_never_unique. Qed.
Theorem C08_try_into_mut_err : forall orc h x s e, hs s !! h = Some x -> bytes_is_unique_rep x s e = OK false s e ->
  hstep orc (OBTryIntoMut h) s e = OK (RErr h) s e.
Proof. exact try_into_mut_err_iff_not_unique. Qed.
Theorem C08_try_into_mut_ok : forall orc h x s e, hs s !! h = Some x -> bytes_is_unique_rep x s e = OK true s e ->
  hstep orc (OBTryIntoMut h) s e = hstep orc (OBIntoMut h) s e.
Proof. exact try_into_mut_ok_is_into_mut. Qed.

(* from the global invariant (C02.v): in every reachable state the reference count is the number of handles holding the storage, so a shared
   Bytes reports unique exactly when no other handle holds its storage *)
Theorem C08_is_unique_iff_sole_holder : forall orcs n s h k ofs len arc b s' e e', reach orcs n s -> hs s !! h = Some (HB (Some k) ofs len VShared arc) ->
  bytes_is_unique_rep (HB (Some k) ofs len VShared arc) s e = OK b s' e' -> (b = true <-> refs (hs s) k = 1%nat).
Proof. intros orcs n s h k ofs len arc b s' e e' Hr. apply wf_is_unique_iff_sole. by eapply reach_wf. Qed.

Theorem C08_is_unique_iff_sole_holder_every_representation : forall orcs n s h k ofs len vt arc b s' e e', reach orcs n s ->
  hs s !! h = Some (HB (Some k) ofs len vt arc) -> heap_vt vt = true ->
  bytes_is_unique_rep (HB (Some k) ofs len vt arc) s e = OK b s' e' -> (b = true <-> refs (hs s) k = 1%nat).
Proof. intros orcs n s h k ofs len vt arc b s' e e' Hr. apply is_unique_iff_sole_all. by eapply reach_wf. Qed.
Theorem C08_unique_converts_in_place : forall orcs n s h x v s1 e e1, reach orcs n s -> hs s !! h = Some x -> bytes_is_unique_rep x s e = OK true s e ->
  bytes_into_mut_rep x s e = OK v s1 e1 -> dsame nK s s1 /\ stor v = stor x /\ h_ofs v = h_ofs x /\ h_len v = h_len x.
Proof. intros orcs n s h x v s1 e e1 Hr. apply unique_into_mut_in_place; [by eapply reach_wf|by eapply reach_dlen]. Qed.
Theorem C08_sole_empty_reclaims_whole_allocation : forall orc n k o c kd s e x' b s1 e1 st, typed (sts s) (HM k o 0 c kd) -> sts s !! k = Some st ->
  (match kd with MVec _ => True | MArc => exists oc, s_ctrl st = CSharedV (s_size st) oc 1 end) -> (n <= s_size st)%N -> (s_size st <= usize_max)%N ->
  m_try_reclaim orc n (HM k o 0 c kd) s e = OK (x', b) s1 e1 -> b = true /\ exists k1 o1 c1 kd1, x' = HM k1 o1 0 c1 kd1 /\ (n <= c1)%N.
Proof. exact sole_empty_reclaims. Qed.
Theorem C08_sole_empty_reclaims_reachable : forall orcs i s h orc n k o c kd e x' b s1 e1 st, reach orcs i s -> hs s !! h = Some (HM k o 0 c kd) -> sts s !! k = Some st ->
  refs (hs s) k = 1%nat -> (n <= s_size st)%N -> (s_size st <= usize_max)%N ->
  m_try_reclaim orc n (HM k o 0 c kd) s e = OK (x', b) s1 e1 -> b = true /\ exists k1 o1 c1 kd1, x' = HM k1 o1 0 c1 kd1 /\ (n <= c1)%N.
Proof. exact sole_empty_reclaims_reachable. Qed.
Print Assumptions C08_static_owned_never_unique.
Print Assumptions C08_try_into_mut_err.
Print Assumptions C08_try_into_mut_ok.
Print Assumptions C08_is_unique_iff_sole_holder.
Print Assumptions C08_is_unique_iff_sole_holder_every_representation.
Print Assumptions C08_unique_converts_in_place.
Print Assumptions C08_sole_empty_reclaims_whole_allocation.
Print Assumptions C08_sole_empty_reclaims_reachable.

(* C08 — uniqueness is reported truthfully and a sole owner can reclaim its buffer.
   Pinned statements over M2's representation functions: static and owner-backed handles are never unique; try_into_mut
   returns Err (leaving everything untouched) exactly when is_unique answers false and is the conversion otherwise.
   "is_unique = true iff no other handle holds the storage" needs the counting invariant of M2 (not proved yet): it is
   evaluated directly on the implementation for every live handle after every step (kinds c08-is-unique, c08-try-into-mut,
   c08-sole-owner-reclaim). *)
From stdpp Require Import gmap.
From Coq Require Import NArith.
From BV Require Import Base Heap HeapLaws HeapWF HeapWFOps HeapWFMain.

Theorem C08_static_owned_never_unique : forall k o l arc s e,
  bytes_is_unique_rep (HB k o l VStatic arc) s e = OK false s e /\ bytes_is_unique_rep (HB k o l VOwned arc) s e = OK false s e.
Proof. exact static_owned_never_unique. Qed.
Theorem C08_try_into_mut_err : forall orc h x s e, hs s !! h = Some x -> bytes_is_unique_rep x s e = OK false s e ->
  hstep orc (OBTryIntoMut h) s e = OK (RErr h) s e.
Proof. exact try_into_mut_err_iff_not_unique. Qed.
Theorem C08_try_into_mut_ok : forall orc h x s e, hs s !! h = Some x -> bytes_is_unique_rep x s e = OK true s e ->
  hstep orc (OBTryIntoMut h) s e = hstep orc (OBIntoMut h) s e.
Proof. exact try_into_mut_ok_is_into_mut. Qed.

(* from the global invariant (C02.v): in every reachable state the reference count is the number of handles holding the storage, so a shared
   Bytes reports unique exactly when no other handle holds its storage *)
Theorem C08_is_unique_iff_sole_holder : forall orcs n s h k ofs len arc b s' e e', reach orcs n s -> hs s !! h = Some (HB (Some k) ofs len VShared arc) ->
  bytes_is_unique_rep (HB (Some k) ofs len VShared arc) s e = OK b s' e' -> (b = true <-> refs (hs s) k = 1%nat).
Proof. intros orcs n s h k ofs len arc b s' e e' Hr. apply wf_is_unique_iff_sole. by eapply reach_wf. Qed.

Print Assumptions C08_static_owned_never_unique.
Print Assumptions C08_try_into_mut_err.
Print Assumptions C08_try_into_mut_ok.
Print Assumptions C08_is_unique_iff_sole_holder.

(* C08 — uniqueness is reported truthfully and a sole owner can reclaim its buffer.
   Pinned statements over M2's representation functions: static and owner-backed handles are never unique; try_into_mut
   returns Err (leaving everything untouched) exactly when is_unique answers false and is the conversion otherwise.
   "is_unique = true iff no other handle holds the storage" needs the counting invariant of M2 (not proved yet): it is
   evaluated directly on the implementation for every live handle after every step (kinds c08-is-unique, c08-try-into-mut,
   c08-sole-owner-reclaim). *)
From stdpp Require Import gmap.
From Coq Require Import NArith.
From BV Require Import Base Heap HeapLaws.

Theorem C08_static_owned_never_unique : forall k o l arc s e,
  bytes_is_unique_rep (HB k o l VStatic arc) s e = OK false s e /\ bytes_is_unique_rep (HB k o l VOwned arc) s e = OK false s e.
Proof. exact static_owned_never_unique. Qed.
Theorem C08_try_into_mut_err : forall orc h x s e, hs s !! h = Some x -> bytes_is_unique_rep x s e = OK false s e ->
  hstep orc (OBTryIntoMut h) s e = OK (RErr h) s e.
Proof. exact try_into_mut_err_iff_not_unique. Qed.
Theorem C08_try_into_mut_ok : forall orc h x s e, hs s !! h = Some x -> bytes_is_unique_rep x s e = OK true s e ->
  hstep orc (OBTryIntoMut h) s e = hstep orc (OBIntoMut h) s e.
Proof. exact try_into_mut_ok_is_into_mut. Qed.

Print Assumptions C08_static_owned_never_unique.
Print Assumptions C08_try_into_mut_err.
Print Assumptions C08_try_into_mut_ok.

(* C07 — sharing operations are zero-copy: same address, no new byte buffer.
   Pinned statements.  Effect theorem over M2: for EVERY state and argument, the operations of the sharing family emit no
   byte-buffer allocation event (EAlloc / ERealloc); they may only create or free control blocks.  The address half (result =
   source + logical offset) is evaluated directly on the implementation after every step (kind c07-address). *)
From Coq Require Import NArith.
From BV Require Import Base Heap HeapLaws.

Theorem C07_sharing_ops_never_allocate : forall orc o, sharing_op o = true -> quiet (hstep orc o).
Proof. exact sharing_ops_never_allocate. Qed.
(* what "quiet" says, spelled out *)
Theorem C07_quiet_means : forall A (m : M A), quiet m -> forall s e a s' e', m s e = OK a s' e' -> exists d, e' = e ++ d /\ forallb (fun x => negb (is_buf_alloc x)) d = true.
Proof. intros A m H s e a s' e' Hm. specialize (H s e). rewrite Hm in H. exact H. Qed.
Example C07_nonvacuous : sharing_op (OBSplitOff 1 3) = true /\ sharing_op (OMFreeze 2) = true /\ sharing_op (OMReserve 1 5) = false.
Proof. repeat split. Qed.

Print Assumptions C07_sharing_ops_never_allocate.
Print Assumptions C07_quiet_means.
Print Assumptions C07_nonvacuous.

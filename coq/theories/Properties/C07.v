(* C07 — sharing operations are zero-copy: same address, no new byte buffer.
   Pinned statements.  Effect theorem over M2: for EVERY state and argument, the operations of the sharing family emit no
   byte-buffer allocation event (EAlloc / ERealloc); they may only create or free control blocks.  The address half (result =
   source + logical offset) is evaluated directly on the implementation after every step (kind c07-address) and PROVED over M2
   (ZeroCopy.v, C07_zero_copy_addresses): in every reachable state a sharing operation that returns changes no byte of any
   storage, and every handle it creates or updates is either empty or starts at the address of the handle it was applied to plus
   an offset d, with [d, d+len) inside that handle's window (its length for a Bytes, its capacity for a BytesMut) - in the
   model an address is (storage, offset), so "same storage" is "same allocation, nothing copied". *)
From stdpp Require Import gmap.
From Coq Require Import NArith.
From BV Require Import Base Heap HeapLaws HeapWFOps HeapWFMain HeapFrame RefineM1 ZeroCopy.

Theorem C07_sharing_ops_never_allocate : forall orc o, sharing_op o = true -> quiet (hstep orc o).
Proof. exact sharing_ops_never_allocate. Qed.
(* what "quiet" says, spelled out *)
Theorem C07_quiet_means : forall A (m : M A), quiet m -> forall s e a s' e', m s e = OK a s' e' -> exists d, e' = e ++ d /\ forallb (fun x => negb (is_buf_alloc x)) d = true.
Proof. intros A m H s e a s' e' Hm. specialize (H s e). rewrite Hm in H. exact H. Qed.
Example C07_nonvacuous : sharing_op (OBSplitOff 1 3) = true /\ sharing_op (OMFreeze 2) = true /\ sharing_op (OMReserve 1 5) = false.
Proof. repeat split. Qed.

Theorem C07_zero_copy_addresses : forall orcs n s o r s' e', reach orcs n s -> op_ok s o -> zc_op o = true -> run_op (orcs n) o s = OK r s' e' ->
  dsame nK s s' /\
  forall h' z, hs s' !! h' = Some z -> hs s !! h' = Some z \/ (forall hx, ~ tch o hx) \/
    exists hx x, tch o hx /\ hs s !! hx = Some x /\ (h_len z = 0 \/ exists d, stor z = stor x /\ h_ofs z = h_ofs x + d /\ d + h_len z <= h_win x)%N.
Proof. exact zero_copy_reachable. Qed.
Example C07_zc_nonvacuous : zc_op (OBSplitOff 1 3) = true /\ zc_op (OMFreeze 2) = true /\ zc_op (OMSplitTo 1 5) = true /\ zc_op (OMReserve 1 5) = false.
Proof. done. Qed.
Print Assumptions C07_sharing_ops_never_allocate.
Print Assumptions C07_quiet_means.
Print Assumptions C07_nonvacuous.
Print Assumptions C07_zero_copy_addresses.
Print Assumptions C07_zc_nonvacuous.

(* C18 — recycling a BytesMut keeps memory and allocations bounded over any history.
   Pinned statements over M3 (Recycle.v): the reserve policy of bytes_mut.rs (reserve_inner's five branches, transliterated
   over the abstract recycler state V/off/len/cap/unique/inline-Vec) under ARBITRARY histories of reserve / write / consume
   (with or without a retained part) / truncate / parts-dropped, of ANY length, for every oracle capacity between the request
   and std's amortised max(2*old, request, 8):
     - every buffer the recycling handle ever sits on has capacity <= max(C0, 4B + 8)   (B = max len+additional, C0 = initial capacity)
     - if every reserve finds the handle alone on its buffer, the number n of byte-buffer allocations over the WHOLE history
       satisfies 2^(n-1) <= max(C0, 4B+8), i.e. n <= 1 + log2(bound): independent of the number of rounds.
   Tie to the code: engine E7 runs periodic and seeded recycling patterns for N and 100*N rounds on the crate under the
   ledger allocator and evaluates exactly these bounds (kinds c18-x); the first rounds of every pattern are also replayed
   on M2 (Heap.reserve_inner, the branch-for-branch transliteration) through engine E1.
   C18_reserve_simulates_policy (RecycleSim.v) closes the gap between the two transliterations: in every state satisfying the
   global invariant of M2, one BytesMut::reserve of M2 (all six branches of m_reserve / reserve_inner, including realloc and the
   copy path) IS one `Recycle.reserve` step on the abstraction of the handle, with a delivered capacity g that meets
   reserve_grow_ok whenever the oracle stays within std's amortised bound, and the model's allocation events are counted
   exactly by `allocs`.  C18_m2_recycling_bounded (RecycleRun.v) is the end-to-end statement ON M2: over any history, of any
   length, of reserve / extend_from_slice / truncate / clear / advance / split_to on the recycling handle and drops of the
   parts, the storage the handle sits on stays <= max(C0, 4B+8); its proof composes the global invariant of M2 (C02), the
   step simulations of RecycleSim.v (each API call = one or two policy steps) and the policy invariant. *)
From stdpp Require Import gmap.
From Coq Require Import ZArith List Lia.
Import ListNotations.
From BV Require Base Heap HeapWF HeapWFOps RecycleSim RecycleRun ConstsTie.
From BV Require Import Recycle.
Local Open Scope Z_scope.

Theorem C18_bounded_buffer : forall orig B C0, 0 <= B -> 0 <= C0 -> 0 <= orig <= C0 ->
  forall ops, ops_ok orig B (init C0) ops -> V (run (init C0) ops) <= bound B C0.
Proof. exact bounded_buffer. Qed.
Theorem C18_bounded_allocs : forall orig B C0, 0 <= B -> 0 <= C0 -> 0 <= orig <= C0 ->
  forall ops, ops_ok0 orig B (init C0) ops -> let s := run (init C0) ops in allocs s = 0 \/ 2 ^ (allocs s - 1) <= bound B C0.
Proof. exact bounded_allocs. Qed.
(* every reachable state also keeps the window inside the buffer and len <= B *)
Theorem C18_invariant_step : forall orig B C0, 0 <= B -> 0 <= orig <= C0 ->
  forall s o, Inv B C0 s -> op_ok orig B s o -> Inv B C0 (step s o).
Proof. exact step_inv. Qed.
(* non-vacuity: a history that grows the buffer twice (std-like doubling), consumes with and without retained parts, and satisfies ops_ok0 *)
Definition C18_example : list op :=
  [Reserve 10 10; Write 10; Consume 10 false; Reserve 10 20; Write 10; Consume 5 true; PartsDropped; Reserve 20 30; Write 20; Consume 25 false; Reserve 25 60; Write 25].
Example C18_nonvacuous : ops_ok0 0 40 (init 0) C18_example /\ V (run (init 0) C18_example) = 30 /\ allocs (run (init 0) C18_example) = 2.
Proof. vm_compute. intuition (try discriminate; auto). Qed.

(* tie of M3 to M2: reserve of the representation model is one step of the policy *)
Theorem C18_reserve_simulates_policy : forall orc a h x s e x1 s1 e1 r al,
  HeapWF.WF s -> Heap.hs s !! h = Some x -> RecycleSim.absr s x al = Some r -> Heap.m_reserve orc a x s e = Heap.OK x1 s1 e1 ->
  len r + Z.of_N a + off r <= Z.of_N Base.usize_max -> 2 * V r <= Z.of_N Base.usize_max ->
  (forall need, Z.of_N (Heap.or_pick orc need) <= Z.max (Z.max (2 * V r) (Z.of_N need)) 8) ->
  exists g, RecycleSim.absr s1 x1 (al + (RecycleSim.nalloc e1 - RecycleSim.nalloc e)) = Some (reserve r (Z.of_N a) g)
            /\ reserve_grow_ok (RecycleSim.orig_of s x) r (Z.of_N a) g /\ RecycleSim.orig_of s1 x1 = RecycleSim.orig_of s x.
Proof. exact RecycleSim.m_reserve_sim. Qed.
(* every step of the recycling grammar on M2 keeps the simulation relation (global invariant of M2, unchanged original capacity,
   abstraction of the handle inside the policy invariant) *)
Theorem C18_m2_step_keeps_simulation : forall B C0 orig h, 0 <= B -> 0 <= orig <= C0 ->
  2 * bound B C0 + B <= Z.of_N Base.usize_max -> bound B C0 <= Z.of_N Heap.MAX_VEC_POS ->
  forall orc o s e rv s1 e1, RecycleRun.Sim B C0 orig h s -> HeapWFOps.op_ok s (RecycleRun.to_op h o) ->
    (forall r al, RecycleSim.absh s h al = Some r -> RecycleRun.rop_ok B orc h r o) ->
    Heap.hstep orc (RecycleRun.to_op h o) s e = Heap.OK rv s1 e1 -> RecycleRun.Sim B C0 orig h s1.
Proof. exact RecycleRun.sim_step. Qed.
Theorem C18_m2_recycling_bounded : forall B C0 orig h, 0 <= B -> 0 <= orig <= C0 ->
  2 * bound B C0 + B <= Z.of_N Base.usize_max -> bound B C0 <= Z.of_N Heap.MAX_VEC_POS ->
  forall s e tr s2 e2, RecycleRun.Sim B C0 orig h s -> RecycleRun.rrun B h s e tr s2 e2 ->
  exists k o l c kd st, Heap.hs s2 !! h = Some (Heap.HM k o l c kd) /\ Heap.sts s2 !! k = Some st /\
    Z.of_N (Heap.s_size st) <= bound B C0 /\ Z.of_N o + Z.of_N c <= Z.of_N (Heap.s_size st).
Proof. exact RecycleRun.m2_recycling_bounded. Qed.
Example C18_m2_recycling_nonvacuous : RecycleRun.Sim 100 64 0 RecycleRun.ex_h RecycleRun.ex_s0 /\
  exists s2 e2, RecycleRun.rrun 100 RecycleRun.ex_h RecycleRun.ex_s0 [] RecycleRun.ex_tr s2 e2.
Proof. exact (conj RecycleRun.ex_sim0 RecycleRun.m2_recycling_nonvacuous). Qed.

(* side condition regenerated on every run (translator T7): the representation constants of the transliteration are those of the current source *)
Lemma C18_gen_constants_match : ConstsTie.consts_tie. Proof. exact ConstsTie.consts_tie_holds. Qed.
Print Assumptions C18_bounded_buffer.
Print Assumptions C18_bounded_allocs.
Print Assumptions C18_invariant_step.
Print Assumptions C18_nonvacuous.
Print Assumptions C18_reserve_simulates_policy.
Print Assumptions C18_m2_step_keeps_simulation.
Print Assumptions C18_m2_recycling_bounded.
Print Assumptions C18_m2_recycling_nonvacuous.
Print Assumptions C18_gen_constants_match.

(* C18 — recycling a BytesMut keeps memory and allocations bounded over any history.
   Pinned statements over M3 (Recycle.v): the reserve policy of bytes_mut.rs (reserve_inner's five branches, transliterated
   over the abstract recycler state V/off/len/cap/unique/inline-Vec) under ARBITRARY histories of reserve / write / consume
   (with or without a retained part) / truncate / parts-dropped, of ANY length, for every oracle capacity between the request
   and std's amortised max(2*old, request, 8):
     - every buffer the recycling handle ever sits on has capacity <= max(C0, 4B + 8)   (B = max len+additional, C0 = initial capacity)
     - if every reserve finds the handle alone on its buffer, the number n of byte-buffer allocations over the WHOLE history
       satisfies 2^(n-1) <= max(C0, 4B+8), i.e. n <= 1 + log2(bound): independent of the number of rounds.
   Tie to the code: engine E7 runs periodic and seeded recycling patterns for N and 100*N rounds on the crate under the
   ledger allocator and evaluates exactly these bounds (kinds c18-x); the first rounds of every pattern are also replayed
   on M2 (Heap.reserve_inner, the branch-for-branch transliteration) through engine E1.  Open obligation: the simulation
   lemma between Heap.reserve_inner and Recycle.reserve (two transliterations of the same function). *)
From Coq Require Import ZArith List Lia.
Import ListNotations.
From BV Require Import Recycle.
Local Open Scope Z_scope.

Theorem C18_bounded_buffer : forall orig B C0, 0 <= B -> 0 <= C0 -> 0 <= orig <= C0 ->
  forall ops, ops_ok orig B (init C0) ops -> V (run (init C0) ops) <= bound B C0.
Proof. exact bounded_buffer. Qed.
Theorem C18_bounded_allocs : forall orig B C0, 0 <= B -> 0 <= C0 -> 0 <= orig <= C0 ->
  forall ops, ops_ok0 orig B (init C0) ops -> let s := run (init C0) ops in allocs s = 0 \/ 2 ^ (allocs s - 1) <= bound B C0.
Proof. exact bounded_allocs. Qed.
(* every reachable state also keeps the window inside the buffer and len <= B *)
Theorem C18_invariant_step : forall orig B C0, 0 <= B -> 0 <= orig <= C0 ->
  forall s o, Inv B C0 s -> op_ok orig B s o -> Inv B C0 (step s o).
Proof. exact step_inv. Qed.
(* non-vacuity: a history that grows the buffer twice (std-like doubling), consumes with and without retained parts, and satisfies ops_ok0 *)
Definition C18_example : list op :=
  [Reserve 10 10; Write 10; Consume 10 false; Reserve 10 20; Write 10; Consume 5 true; PartsDropped; Reserve 20 30; Write 20; Consume 25 false; Reserve 25 60; Write 25].
Example C18_nonvacuous : ops_ok0 0 40 (init 0) C18_example /\ V (run (init 0) C18_example) = 30 /\ allocs (run (init 0) C18_example) = 2.
Proof. vm_compute. intuition (try discriminate; auto). Qed.

Print Assumptions C18_bounded_buffer.
Print Assumptions C18_bounded_allocs.
Print Assumptions C18_invariant_step.
Print Assumptions C18_nonvacuous.

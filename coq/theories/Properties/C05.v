(* C05 — handles can be cloned, read, converted and dropped concurrently.
   Pinned statements over M8 (see C06.v for the model): for every ordering assignment passing ords_ok, any number of threads, any
   programs, every interleaving and every stale read:
     - the invariant holds in every reachable state (reference count = references held, phases of the closing protocol);
     - the storage is never used after it was freed and is freed at most once (no UAF outcome), and once it is gone every
       thread has finished and holds nothing;
     - at most one thread is ever on an exclusive-ownership / freeing path (try_into_mut, Into<BytesMut>, Into<Vec>, last drop) and
       then no other thread holds a reference;
     - while the control block is alive nobody has written the buffer, so every read returns the bytes the handles were created over.
   Closed on the orderings regenerated from the source (the same side conditions as C06).  The real-thread half (sampled
   schedules on the crate: correct bytes at the original address, at most one zero-copy owner, ledger empty) is engine E6. *)
From stdpp Require Import gmap list sets.
From BV.Conc Require Core CoreInv Cells CellsInv CellsSteps CellsMain Promote Corollaries.
From BV Require Import Gen.Orderings.

Theorem C05_invariant : forall o helds s, Core.ords_ok o = true -> Core.reach o helds s -> CoreInv.Inv s.
Proof. exact CoreInv.reach_inv. Qed.
Theorem C05_no_use_after_free : forall o helds s i a, Core.ords_ok o = true -> Core.reach o helds s -> Core.tstep o s i a <> Some Core.UAF.
Proof. intros o helds s i a H1 H2. exact (proj2 (CoreInv.race_free o helds s i a H1 H2)). Qed.
Theorem C05_at_most_one_exclusive_owner : forall o helds s i j th th', Core.ords_ok o = true -> Core.reach o helds s ->
  Core.ths s !! i = Some th -> Core.ths s !! j = Some th' -> CoreInv.closer (Core.t_mic th) = true -> CoreInv.closer (Core.t_mic th') = true -> i = j.
Proof. exact Corollaries.at_most_one_closer. Qed.
Theorem C05_exclusive_owner_is_alone : forall o helds s i th j th', Core.ords_ok o = true -> Core.reach o helds s ->
  Core.ths s !! i = Some th -> CoreInv.closer (Core.t_mic th) = true -> Core.ths s !! j = Some th' -> j <> i -> Core.t_held th' = 0 /\ Core.t_mic th' = Core.Idle.
Proof. exact Corollaries.exclusive_owner_is_alone. Qed.
Theorem C05_reads_see_original_bytes : forall o helds s, Core.ords_ok o = true -> Core.reach o helds s -> Core.cb_freed s = false ->
  Core.buf_w s = ∅ /\ Core.buf_freed s = false.
Proof. exact Corollaries.no_write_while_shared. Qed.
Theorem C05_freed_after_last_handle : forall o helds s i th, Core.ords_ok o = true -> Core.reach o helds s -> Core.cb_freed s = true ->
  Core.ths s !! i = Some th -> Core.t_held th = 0 /\ Core.t_mic th = Core.Idle.
Proof. exact Corollaries.after_close_all_done. Qed.
Theorem C05_bytesmut_side : forall o s0 s i a, Cells.ords_ok o = true -> CellsInv.Inv s0 -> Cells.reach o s0 s ->
  Cells.tstep o s i a <> Some Cells.Race /\ Cells.tstep o s i a <> Some Cells.UAF.
Proof. exact CellsMain.cells_race_free. Qed.
(* the premises are satisfiable: any distribution of handles over threads is a start state; a BytesMut split in two halves *)
Example C05_nonvacuous_core : CoreInv.Inv (Core.init_state [2; 1; 0; 3]).
Proof. exact (CoreInv.init_inv [2; 1; 0; 3]). Qed.
Example C05_nonvacuous_cells : CellsInv.Inv (CellsMain.init_state {[0; 1; 2; 3]}
  [ ({[ 0 := {| Cells.h_cells := {[0; 1]}; Cells.h_mut := true |} ]}, 1); ({[ 0 := {| Cells.h_cells := {[2; 3]}; Cells.h_mut := true |} ]}, 1) ]).
Proof. exact CellsMain.two_halves. Qed.
Lemma C05_gen_orderings_ok : Core.ords_ok bytes_shared = true /\ Core.ords_ok bytes_owned = true /\ Cells.ords_ok bytesmut_shared = true /\ Core.ords_ok bytesmut_shared_core = true
  /\ forallb Promote.ords_ok promote_instances = true /\ skeleton_matches = true.
Proof. vm_compute. repeat split; reflexivity. Qed.

Print Assumptions C05_invariant.
Print Assumptions C05_no_use_after_free.
Print Assumptions C05_at_most_one_exclusive_owner.
Print Assumptions C05_exclusive_owner_is_alone.
Print Assumptions C05_reads_see_original_bytes.
Print Assumptions C05_freed_after_last_handle.
Print Assumptions C05_bytesmut_side.
Print Assumptions C05_nonvacuous_core.
Print Assumptions C05_nonvacuous_cells.
Print Assumptions C05_gen_orderings_ok.

(* C03 — storage is released exactly once, after the last handle, in any drop order.
   Pinned statements.  Proved over M2: the reference-count primitives never panic and never allocate; dropping a handle is never
   a panic; from the global invariant WF (C02): in every reachable state a live count is the number of holders, a freed storage
   is referenced by no handle, and with no handle left every heap buffer and every owner's memory has been released; and the
   OWNER PROTOCOL of from_owner (OwnerInv.v, a second invariant over owners and storages): for every owner memory there is exactly
   one owner, its as_ref ran exactly once, it was dropped at most once, and it is alive exactly as long as some handle holds the
   memory.  The same is decided on every generated history by the ledger (kind c03-leak, c03-owner-x, c03-freed-while-in-use)
   with the survivors dropped in a seeded random order, and on M2 by replay (kind model-leak). *)
From stdpp Require Import gmap.
From Coq Require Import NArith.
From BV Require Import Base Heap HeapLaws HeapPanic HeapWF HeapWFOps HeapWFMain OwnerInv.

Theorem C03_release_never_panics_partial : forall k, np (release k).
Proof. exact np_release. Qed.
Theorem C03_drop_never_panics_partial : forall orc h, np (hstep orc (OBDrop h)) /\ np (hstep orc (OMDrop h)) /\ np (hstep orc (OVDrop h)).
Proof. intros orc h. repeat split; simpl; np_auto. Qed.
Theorem C03_drops_never_allocate_partial : forall orc h, quiet (hstep orc (OBDrop h)) /\ quiet (hstep orc (OMDrop h)) /\ quiet (hstep orc (OVDrop h)).
Proof. intros orc h. repeat split; apply sharing_ops_never_allocate; reflexivity. Qed.
(* the owner protocol on a concrete history: as_ref once, drop once, after the last view *)
Example C03_owner_history :
  match hstep {| or_caps := [] |} (OBFromOwner [1; 2; 3]%N false) (hst0 false) [] with
  | OK (RH h1) s1 e1 =>
    match hstep {| or_caps := [] |} (OBClone h1) s1 e1 with
    | OK (RH h2) s2 e2 =>
      match hstep {| or_caps := [] |} (OBDrop h1) s2 e2 with
      | OK _ s3 e3 => match hstep {| or_caps := [] |} (OBIntoVec h2) s3 e3 with
                      | OK _ s4 e4 => e4 = [EAlloc 2 3; EAllocCtrl; EOwnerAsRef 1; EAlloc 4 3; EOwnerDrop 1; EFree 2 3; EFreeCtrl]
                      | _ => False end
      | _ => False end
    | _ => False end
  | _ => False end.
Proof. vm_compute. reflexivity. Qed.

(* from the global invariant (C02.v; all 46 operations, every history, every oracle): with no handle left every heap buffer and every
   owner's memory has been released; a freed storage is referenced by no handle; a live reference count is the number of handles *)
Theorem C03_released_after_last_handle : forall orcs n s k st, reach orcs n s -> hs s = ∅ -> sts s !! k = Some st ->
  (s_cls st = SHeap \/ s_cls st = SOwnerMem) -> s_live st = false.
Proof. intros orcs n s k st Hr. apply wf_no_leak. by eapply reach_wf. Qed.
Theorem C03_freed_storage_unreferenced : forall orcs n s k st h x, reach orcs n s -> sts s !! k = Some st -> s_live st = false -> hs s !! h = Some x -> holds x <> Some k.
Proof. intros orcs n s k st h x Hr. apply wf_dead_unreferenced. by eapply reach_wf. Qed.
Theorem C03_count_is_number_of_handles : forall orcs n s k st cap rc, reach orcs n s -> sts s !! k = Some st -> s_live st = true -> s_ctrl st = CShared cap rc ->
  rc = N.of_nat (refs (hs s) k).
Proof. intros orcs n s k st cap rc Hr. apply wf_count_is_holders. by eapply reach_wf. Qed.

Theorem C03_owner_protocol : forall orcs n s k st, reach orcs n s -> sts s !! k = Some st -> s_cls st = SOwnerMem ->
  exists o w, owners s !! o = Some w /\ o_mem w = k /\ (forall o' w', owners s !! o' = Some w' -> o_mem w' = k -> o' = o) /\
    o_asref w = 1%N /\ o_drops w = (if o_dropped w then 1 else 0)%N /\ (o_dropped w = false <-> (1 <= refs (hs s) k)%nat).
Proof. exact owner_protocol. Qed.
Print Assumptions C03_release_never_panics_partial.
Print Assumptions C03_drop_never_panics_partial.
Print Assumptions C03_drops_never_allocate_partial.
Print Assumptions C03_owner_history.
Print Assumptions C03_released_after_last_handle.
Print Assumptions C03_freed_storage_unreferenced.
Print Assumptions C03_count_is_number_of_handles.
Print Assumptions C03_owner_protocol.

(* C06 — all uses of a buffer happen-before its deallocation or exclusive reuse.
   Pinned statements over M8: an operational, view-based model of the release/acquire/relaxed fragment (stale reads included),
   threads nondeterministically running ANY programs of clone / slice / read / drop / into Vec / into BytesMut (core), BytesMut
   writes on disjoint cells / split / unsplit (one handle absorbs the cells of another of the same thread and releases its reference) /
   freeze / reclaiming try_reclaim (cells; the copying path of reserve on a shared buffer is a read followed by a drop), and the promotion race of an unshared Vec-backed
   Bytes cloned through &Bytes (promote) — for ANY number of threads, ANY interleaving.  The memory orderings are PARAMETERS;
   the theorems hold for every assignment passing the decidable check ords_ok, which is evaluated (vm_compute) on the orderings
   read off the CURRENT source by translator T2 (Gen/Orderings.v), together with the atomic skeleton check. *)
From stdpp Require Import gmap list sets.
From BV.Conc Require Core CoreInv Cells CellsInv CellsSteps CellsMain Promote Corollaries.
From BV Require Import Gen.Orderings.

Theorem C06_core_race_free : forall o helds s i a, Core.ords_ok o = true -> Core.reach o helds s ->
  Core.tstep o s i a <> Some Core.Race /\ Core.tstep o s i a <> Some Core.UAF.
Proof. exact CoreInv.race_free. Qed.
Theorem C06_cells_race_free : forall o s0 s i a, Cells.ords_ok o = true -> CellsInv.Inv s0 -> Cells.reach o s0 s ->
  Cells.tstep o s i a <> Some Cells.Race /\ Cells.tstep o s i a <> Some Cells.UAF.
Proof. exact CellsMain.cells_race_free. Qed.
Theorem C06_promotion_race_free : forall o n s i a, Promote.ords_ok o = true -> Promote.reach o n s -> Promote.tstep o s i a <> Some Promote.Race.
Proof. exact Promote.promotion_race_free. Qed.

(* tightness: the side condition demands no more than the property — weakening a required ordering makes a race reachable *)
Example C06_tight_fetch_sub : CoreInv.run CoreInv.weak_dec (Core.init_state [1; 1]) CoreInv.racy_trace = Some Core.Race.
Proof. exact CoreInv.weak_dec_refuted. Qed.
Example C06_tight_promotion_load : Promote.run {| Promote.o_load := Promote.Rlx; Promote.o_cas_s := Promote.AcqRel; Promote.o_cas_f := Promote.Acq |} (Promote.init_state 2)
  [(0, Promote.ALoad false); (0, Promote.ACas); (1, Promote.ALoad false); (1, Promote.AFetchAdd)] = Some Promote.Race.
Proof. exact Promote.weak_load. Qed.
Example C06_tight_promotion_cas_success : Promote.run {| Promote.o_load := Promote.Acq; Promote.o_cas_s := Promote.Acq; Promote.o_cas_f := Promote.Acq |} (Promote.init_state 2)
  [(0, Promote.ALoad false); (0, Promote.ACas); (1, Promote.ALoad false); (1, Promote.AFetchAdd)] = Some Promote.Race.
Proof. exact Promote.weak_cas_success. Qed.
Example C06_tight_promotion_cas_failure : Promote.run {| Promote.o_load := Promote.Acq; Promote.o_cas_s := Promote.AcqRel; Promote.o_cas_f := Promote.Rlx |} (Promote.init_state 2)
  [(0, Promote.ALoad false); (1, Promote.ALoad false); (0, Promote.ACas); (1, Promote.ACas); (1, Promote.AFetchAdd)] = Some Promote.Race.
Proof. exact Promote.weak_cas_failure. Qed.

(* side conditions on the orderings and the atomic skeleton REGENERATED from the source *)
Lemma C06_gen_bytes_shared_ok : Core.ords_ok bytes_shared = true. Proof. vm_compute. reflexivity. Qed.
Lemma C06_gen_bytes_owned_ok : Core.ords_ok bytes_owned = true. Proof. vm_compute. reflexivity. Qed.
Lemma C06_gen_bytesmut_shared_ok : Cells.ords_ok bytesmut_shared = true /\ Core.ords_ok bytesmut_shared_core = true. Proof. split; vm_compute; reflexivity. Qed.
Lemma C06_gen_promotion_ok : forallb Promote.ords_ok promote_instances = true. Proof. vm_compute. reflexivity. Qed.
Lemma C06_gen_skeleton_matches : skeleton_matches = true. Proof. reflexivity. Qed.

Print Assumptions C06_core_race_free.
(* unsplit is one of the actions the theorem quantifies over, and it is enabled (non-vacuity) *)
Example C06_unsplit_is_modelled : forall o, exists s', Cells.tstep o (CellsMain.init_state {[0; 1; 2; 3]}
  [ ({[ 0 := {| Cells.h_cells := {[0; 1]}; Cells.h_mut := true |}; 1 := {| Cells.h_cells := {[2; 3]}; Cells.h_mut := true |} ]}, 2) ]) 0 (Cells.AUnsplit 0 1) = Some (Cells.St s').
Proof. exact CellsMain.unsplit_enabled. Qed.
Print Assumptions C06_cells_race_free.
Print Assumptions C06_unsplit_is_modelled.
Print Assumptions C06_promotion_race_free.
Print Assumptions C06_tight_fetch_sub.
Print Assumptions C06_tight_promotion_load.
Print Assumptions C06_tight_promotion_cas_success.
Print Assumptions C06_tight_promotion_cas_failure.
Print Assumptions C06_gen_bytes_shared_ok.
Print Assumptions C06_gen_bytes_owned_ok.
Print Assumptions C06_gen_bytesmut_shared_ok.
Print Assumptions C06_gen_promotion_ok.
Print Assumptions C06_gen_skeleton_matches.

(* C11 — every BufMut in the crate appends exactly the encoded bytes, within bounds.
   Pinned statements only.  `t` ranges over ARBITRARY target trees (Vec, BytesMut, &mut [u8], &mut [MaybeUninit<u8>], Chain,
   Limit, &mut/Box); `wr bs t` is the tree after it accepted bs (BufMutSpec.v: a then b, limits drop, untouched regions kept),
   `ecap` erases the capacities of growable leaves (allocation policy = oracle `grow`, any function with grow_ok).
   `headroom R k t` = well-formed and every growable leaf stays below isize::MAX when k more bytes arrive. *)
From stdpp Require Import list.
From Coq Require Import NArith ZArith String.
From BV Require Import Base Buf BufSpec Codec CodecLemmas EncLemmas BufMut BufMutSpec BufMutLaws BufMutLaws2 Gen.GetPut.
Local Open Scope N_scope.

Section Oracle.
  Variable grow : N -> N -> N -> N.
  Variable Rv Rb R : N.
  Hypothesis grow_ok : forall len cap add, len + add <= isize_max -> len + add <= grow len cap add <= isize_max.
  Hypothesis Rv_pos : 0 < Rv. Hypothesis Rb_pos : 0 < Rb. Hypothesis Rv_le : Rv <= R. Hypothesis Rb_le : Rb <= R.

  Theorem C11_put_slice : forall k bs t, headroom R k t -> lenN bs <= k -> k <= isize_max ->
    if roomZ t <? lenN bs then put_slice grow Rv Rb bs t = Panic
    else exists t', put_slice grow Rv Rb bs t = Ok t' /\ ecap t' = ecap (wr bs t) /\ headroom R (k - lenN bs) t'.
  Proof. exact (put_slice_spec grow Rv Rb R grow_ok Rv_pos Rb_pos Rv_le Rb_le). Qed.
  Theorem C11_put_bytes : forall k v cnt t bs, bs = repeat v (N.to_nat cnt) -> headroom R k t -> cnt <= k -> k <= isize_max ->
    if roomZ t <? lenN bs then put_bytes grow Rv Rb v cnt t = Panic
    else exists t', put_bytes grow Rv Rb v cnt t = Ok t' /\ ecap t' = ecap (wr bs t) /\ headroom R (k - lenN bs) t'.
  Proof. exact (put_bytes_spec grow Rv Rb R grow_ok Rv_pos Rb_pos Rv_le Rb_le). Qed.
  Theorem C11_put_buf : forall k s t, wf s -> headroom R k t -> lenN (den s) <= k -> k <= isize_max ->
    if roomZ t <? lenN (den s) then put_buf grow Rv Rb s t = Panic
    else exists t', put_buf grow Rv Rb s t = Ok (adv (lenN (den s)) s, t') /\ ecap t' = ecap (wr (den s) t).
  Proof. exact (put_buf_spec grow Rv Rb R grow_ok Rv_pos Rb_pos Rv_le Rb_le). Qed.
  Theorem C11_put_by_name : forall putters fwd, put_tables_ok putters fwd = true ->
    forall name d z nbytes t, BufMut.assoc name putters = Some d ->
    spec_of_putter name = Some d /\
    put grow Rv Rb putters fwd name z nbytes t =
      Some (if (match g_kind d with GKVar => 8 <? nbytes | _ => false end) then Panic
            else put_slice grow Rv Rb (enc (g_endian d) (put_size d nbytes) z) t).
  Proof. intros p f H name d z nb t Hd. split; [exact (put_table_entry p f H name d Hd)|exact (put_correct grow Rv Rb R grow_ok Rv_pos Rb_pos Rv_le Rb_le p f H name d z nb t Hd)]. Qed.
  Theorem C11_chunk_mut : forall k t, headroom R k t ->
    exists n t', chunk_mut grow Rv Rb t = Ok (n, t') /\ remaining_mut t' = remaining_mut t /\ n <= remaining_mut t /\ (n = 0 <-> remaining_mut t = 0).
  Proof. exact (chunk_mut_law grow Rv Rb R grow_ok Rv_pos Rb_pos Rv_le Rb_le). Qed.
  Theorem C11_advance_mut : forall k bs t, headroom R k t -> lenN bs <= spare t -> advance_mut bs t = Ok (wr bs t).
  Proof. exact (advance_mut_ok grow Rv Rb R grow_ok Rv_pos Rb_pos Rv_le Rb_le). Qed.
End Oracle.

(* what `wr` is (the spec itself, pinned): fixed targets lose exactly |bs| bytes of room, a chain fills a then b, limits drop by |bs| *)
Theorem C11_room_decreases_exactly : forall bs t, lenN bs <= roomZ t -> roomZ (wr bs t) = roomZ t - lenN bs.
Proof. exact roomZ_wr. Qed.
Theorem C11_remaining_mut_is_room : forall R k t, headroom R k t -> remaining_mut t = N.min (roomZ t) usize_max.
Proof. exact rm_roomZ. Qed.
Theorem C11_appends_in_call_order : forall b1 b2 t, lenN b1 <= roomZ t -> wr b2 (wr b1 t) = wr (b1 ++ b2) t.
Proof. exact wr_app. Qed.
Theorem C11_written_single_sink : forall bs t, chain_free t -> written (wr bs t) = written t ++ bs.
Proof. exact written_wr_chain_free. Qed.
Theorem C11_fixed_region_untouched : forall bs w r, wr bs (TLeaf (TSlice w r)) = TLeaf (TSlice (w ++ bs) (skipN (lenN bs) r)).
Proof. reflexivity. Qed.

(* encodings: the truncated 8-byte encoding is the nbytes encoding; put then get round-trips *)
Theorem C11_put_uint_be : forall n z, n <= 8 -> skipN (8 - n) (enc BE 8 z) = enc BE n z.
Proof. exact enc_be_truncate. Qed.
Theorem C11_put_uint_le : forall n z, n <= 8 -> firstnN n (enc LE 8 z) = enc LE n z.
Proof. exact enc_le_truncate. Qed.
Theorem C11_roundtrip_unsigned : forall e size z, (0 <= z < Z.of_N (2 ^ (8 * size)))%Z -> dec e false (enc e size z) = z.
Proof. exact roundtrip_unsigned. Qed.
Theorem C11_roundtrip_signed : forall e size z, 0 < size -> (- Z.of_N (2 ^ (8 * size - 1)) <= z < Z.of_N (2 ^ (8 * size - 1)))%Z -> dec e true (enc e size z) = z.
Proof. exact roundtrip_signed. Qed.
Theorem C11_encoding_length : forall e size z, lenN (enc e size z) = size.
Proof. exact lenN_enc. Qed.

(* side conditions on the REGENERATED tables and constants, and the evaluators' oracle *)
Lemma C11_gen_tables_ok : put_tables_ok putters bufmut_forward = true.
Proof. vm_compute. reflexivity. Qed.
Lemma C11_gen_reserve_constants_positive : 0 < vec_reserve /\ 0 < bytesmut_reserve.
Proof. split; reflexivity. Qed.
Lemma C11_std_grow_ok : forall len cap add, len + add <= isize_max -> len + add <= std_grow len cap add <= isize_max.
Proof. exact std_grow_ok. Qed.
Example C11_nonvacuous :
  let t := ChainM (FwdM (LimitM 3 (FwdM (TLeaf (TSlice [] [48; 49; 50; 51]))))) (FwdM (ChainM (FwdM (TLeaf (TUninit [] [48]))) (FwdM (TLeaf (TVec [7] 1))))) in
  put std_grow vec_reserve bytesmut_reserve putters bufmut_forward "put_i32_le" (-2) 0 t
  = Some (Ok (ChainM (FwdM (LimitM 0 (FwdM (TLeaf (TSlice [254; 255; 255] [51]))))) (FwdM (ChainM (FwdM (TLeaf (TUninit [255] []))) (FwdM (TLeaf (TVec [7] 1))))))).
Proof. vm_compute. reflexivity. Qed.

Print Assumptions C11_put_slice.
Print Assumptions C11_put_bytes.
Print Assumptions C11_put_buf.
Print Assumptions C11_put_by_name.
Print Assumptions C11_chunk_mut.
Print Assumptions C11_advance_mut.
Print Assumptions C11_room_decreases_exactly.
Print Assumptions C11_remaining_mut_is_room.
Print Assumptions C11_appends_in_call_order.
Print Assumptions C11_written_single_sink.
Print Assumptions C11_fixed_region_untouched.
Print Assumptions C11_put_uint_be.
Print Assumptions C11_put_uint_le.
Print Assumptions C11_roundtrip_unsigned.
Print Assumptions C11_roundtrip_signed.
Print Assumptions C11_encoding_length.
Print Assumptions C11_gen_tables_ok.
Print Assumptions C11_gen_reserve_constants_positive.
Print Assumptions C11_std_grow_ok.
Print Assumptions C11_nonvacuous.

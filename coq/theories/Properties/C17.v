(* C17 — misbehaving safe trait implementations cannot make the crate memory-unsafe.
   Pinned statements over M6 (Adversary.v): the adversary is ANY four functions of the call number (so every schedule of lies and
   panics, answers that differ per call through &self included), around it any tree of Take / Chain / honest slices, any call
   counters, any fuel (loop bound), any growth slack of the allocator.  `safe r` is `r <> AUB`; AUB is produced exactly by the
   primitives standing for the crate's unsafe blocks on these paths (array read in buf_try_get_impl!, copy_nonoverlapping in
   UninitSlice::copy_from_slice and BytesMut::extend_from_slice). *)
From Coq Require Import NArith List.
From BV Require Import Base Adversary AdversaryLaws Gen.UnsafeSites.
Local Open Scope N_scope.

Theorem C17_buf_calls_never_ub : forall A t cnt k, safe (xremaining A t k) /\ safe (xchunk A t k) /\ safe (xadvance A t cnt k).
Proof. intros. split; [apply remaining_safe|split; [apply chunk_safe|apply advance_safe]]. Qed.
Theorem C17_fixed_getters_never_ub : forall A fuel t size k, safe (try_get_fixed A fuel t size k).
Proof. exact try_get_fixed_safe. Qed.
Theorem C17_get_u8_never_ub : forall A t k, safe (try_get_u8 A t k).
Proof. exact try_get_u8_safe. Qed.
Theorem C17_copy_to_slice_never_ub : forall A fuel t n k, safe (xtry_copy_to_slice A fuel t n k) /\ safe (xcopy_to_slice A fuel t n k).
Proof. intros. split; [apply try_copy_to_slice_safe|apply copy_to_slice_safe]. Qed.
Theorem C17_copy_loop_fills_exactly : forall A fuel need acc t k t' bs k', xtcs_loop A fuel need acc t k = AOk (t', bs, k') -> lenN bs = lenN acc + need.
Proof. exact tcs_loop_len. Qed.
Theorem C17_reader_and_iterator_never_ub : forall A fuel t n k, safe (xreader_read A fuel t n k) /\ safe (xiter_next A t k).
Proof. intros. split; [apply reader_read_safe|apply iter_next_safe]. Qed.
Theorem C17_copy_to_bytes_never_ub : forall A grow fuel t len k, safe (xcopy_to_bytes A grow fuel t len k).
Proof. exact copy_to_bytes_safe. Qed.
Theorem C17_copy_to_bytes_at_most_len : forall A grow fuel t len k t' bs k', copy_to_bytes_default A grow fuel t len k = AOk (t', bs, k') -> lenN bs <= len.
Proof. exact copy_to_bytes_default_bound. Qed.
Theorem C17_put_into_bytesmut_never_ub : forall A grow fuel t b k, bm_wf b -> safe (bm_put A grow fuel t b k).
Proof. exact bm_put_safe. Qed.
Theorem C17_put_into_vec_never_ub : forall A fuel t v k, safe (vec_put A fuel t v k).
Proof. exact vec_put_safe. Qed.
Theorem C17_put_into_slice_never_ub : forall A fuel t d k, safe (sl_put A fuel t d k).
Proof. exact sl_put_safe. Qed.
Theorem C17_put_into_slice_stays_inside : forall A fuel t d k t' d' k', sl_put_loop A fuel t d k = AOk (t', d', k') ->
  s_room d' + lenN (s_written d') = s_room d + lenN (s_written d) /\ s_room d' <= s_room d.
Proof. exact sl_put_loop_room. Qed.
Theorem C17_take_chunks_vectored : forall A limit dst_len k n out k', take_chunks_vectored A limit dst_len k = AOk (n, out, k') ->
  (N.of_nat (length out) <= N.min dst_len TAKE_LEN \/ N.of_nat (length out) <= TAKE_LEN /\ N.of_nat (length out) <= dst_len) /\
  match a_vec A (k_vec k) with
  | Some (_, written) => limit = 0 \/ Forall (fun o => o = [] \/ exists s, In s written /\ stdpp.list.prefix o s) out
  | None => limit = 0 end.
Proof. exact take_chunks_vectored_spec. Qed.
Theorem C17_extend_from_lying_iterator_never_ub : forall grow fuel I b, bm_wf b -> safe (bm_extend_iter grow fuel I b).
Proof. exact bm_extend_iter_safe. Qed.
Theorem C17_from_owner_view_in_bounds : forall O v, from_owner O = AOk v -> view_in_bounds O v /\ ov_calls v = 1%nat.
Proof. exact from_owner_in_bounds. Qed.
(* the guards are needed (the shape of change the engine must catch) and the statements are not vacuous *)
Example C17_trusting_remaining_is_ub : try_get_fixed_trusting liar TAdv 4 k0 = AUB.
Proof. exact trusting_remaining_is_ub. Qed.
Example C17_two_as_ref_calls_out_of_bounds : exists O v, from_owner_two_calls O = AOk v /\ ~ view_in_bounds O v.
Proof. exact two_calls_out_of_bounds. Qed.
Example C17_nonvacuous : exists r, try_get_fixed liar 10 TAdv 4 k0 = r /\ r <> AUB /\ r <> AHang.
Proof. eexists. split; [reflexivity|]. vm_compute. split; discriminate. Qed.
(* regenerated side condition (T6): the unsafe sites of the consumer files and the bodies of the consumers M6 follows are the ones the model was written against *)
Lemma C17_gen_inventory_matches : inventory_matches = true.
Proof. reflexivity. Qed.

Print Assumptions C17_buf_calls_never_ub.
Print Assumptions C17_fixed_getters_never_ub.
Print Assumptions C17_get_u8_never_ub.
Print Assumptions C17_copy_to_slice_never_ub.
Print Assumptions C17_copy_loop_fills_exactly.
Print Assumptions C17_reader_and_iterator_never_ub.
Print Assumptions C17_copy_to_bytes_never_ub.
Print Assumptions C17_copy_to_bytes_at_most_len.
Print Assumptions C17_put_into_bytesmut_never_ub.
Print Assumptions C17_put_into_vec_never_ub.
Print Assumptions C17_put_into_slice_never_ub.
Print Assumptions C17_put_into_slice_stays_inside.
Print Assumptions C17_take_chunks_vectored.
Print Assumptions C17_extend_from_lying_iterator_never_ub.
Print Assumptions C17_from_owner_view_in_bounds.
Print Assumptions C17_trusting_remaining_is_ub.
Print Assumptions C17_two_as_ref_calls_out_of_bounds.
Print Assumptions C17_nonvacuous.
Print Assumptions C17_gen_inventory_matches.

(* C15 — Debug, hex and serde output round-trip to the exact contents.
   This file contains pinned statements only; every proof is `exact <lemma>`.
   The general theorems hold for ANY per-byte table that passes a decidable check; the closing
   lemmas evaluate that check on the tables regenerated from the current crate (Gen/Escapes.v). *)
From Coq Require Import Ascii List NArith Bool.
From BV Require Import Fmt FmtProofs Gen.Escapes.
Import ListNotations.
Local Open Scope N_scope.

Theorem C15_debug_roundtrip : forall tbl, table_ok tbl = true ->
  forall bs, Forall (fun b => b < 256) bs -> parse_lit (debug_fmt tbl bs) = Some bs.
Proof. exact debug_roundtrip. Qed.

Theorem C15_hex_length : forall tbl cls bs, hex_table_ok cls tbl = true -> Forall (fun b => b < 256) bs ->
  length (hex_fmt tbl bs) = (2 * length bs)%nat.
Proof. exact hex_length. Qed.
Theorem C15_hex_charset : forall tbl cls bs, hex_table_ok cls tbl = true -> Forall (fun b => b < 256) bs ->
  forallb cls (hex_fmt tbl bs) = true.
Proof. exact hex_charset. Qed.
Theorem C15_hex_roundtrip : forall tbl cls bs, hex_table_ok cls tbl = true -> Forall (fun b => b < 256) bs ->
  unhex (hex_fmt tbl bs) = Some bs.
Proof. exact hex_roundtrip. Qed.
Theorem C15_hex_in_order : forall tbl cls pre b post, hex_table_ok cls tbl = true ->
  Forall (fun b => b < 256) pre ->
  hex_fmt tbl (pre ++ b :: post) = hex_fmt tbl pre ++ tbl b ++ hex_fmt tbl post
  /\ length (hex_fmt tbl pre) = (2 * length pre)%nat.
Proof. exact hex_in_order. Qed.

Theorem C15_serde_roundtrip : forall bs, visit (serialize bs) = bs.
Proof. exact serde_roundtrip. Qed.
Theorem C15_serde_entry_points : forall t, visit t = tok_payload t.
Proof. exact serde_entry_points. Qed.

(* side conditions on the REGENERATED tables (both types) *)
Lemma C15_gen_debug_ok_bytes : table_ok (tbl_of bytes_debug_codes) = true.     Proof. vm_compute. reflexivity. Qed.
Lemma C15_gen_debug_ok_bytesmut : table_ok (tbl_of bytesmut_debug_codes) = true.  Proof. vm_compute. reflexivity. Qed.
Lemma C15_gen_lower_ok_bytes : hex_table_ok is_lower_hex (tbl_of bytes_lower_codes) = true.  Proof. vm_compute. reflexivity. Qed.
Lemma C15_gen_lower_ok_bytesmut : hex_table_ok is_lower_hex (tbl_of bytesmut_lower_codes) = true.  Proof. vm_compute. reflexivity. Qed.
Lemma C15_gen_upper_ok_bytes : hex_table_ok is_upper_hex (tbl_of bytes_upper_codes) = true.  Proof. vm_compute. reflexivity. Qed.
Lemma C15_gen_upper_ok_bytesmut : hex_table_ok is_upper_hex (tbl_of bytesmut_upper_codes) = true.  Proof. vm_compute. reflexivity. Qed.

(* non-vacuity: a string with every escape class, adjacent "\0" + digit included *)
Example C15_nonvacuous :
  parse_lit (debug_fmt (tbl_of bytes_debug_codes) [0; 55; 34; 92; 10; 13; 9; 39; 127; 255; 65]) = Some [0; 55; 34; 92; 10; 13; 9; 39; 127; 255; 65].
Proof. vm_compute. reflexivity. Qed.

Print Assumptions C15_debug_roundtrip.
Print Assumptions C15_hex_length.
Print Assumptions C15_hex_charset.
Print Assumptions C15_hex_roundtrip.
Print Assumptions C15_hex_in_order.
Print Assumptions C15_serde_roundtrip.
Print Assumptions C15_serde_entry_points.
Print Assumptions C15_gen_debug_ok_bytes.
Print Assumptions C15_gen_debug_ok_bytesmut.
Print Assumptions C15_gen_lower_ok_bytes.
Print Assumptions C15_gen_lower_ok_bytesmut.
Print Assumptions C15_gen_upper_ok_bytes.
Print Assumptions C15_gen_upper_ok_bytesmut.

(* C02 — safe API calls never touch memory outside live allocations or free it wrongly.
   Pinned statements (PARTIAL: see below).  In the representation model M2 every raw access and every deallocation goes
   through three primitives whose unsafe preconditions are modelled as the outcome UB; proved here is what a non-UB outcome
   of each primitive means — the read / write was inside a live block of the right class, the block was freed with exactly
   its allocation size and was live (so: no double free, no wrong layout, no use after free).  Every history the engine
   generates is replayed on M2 (kind model-ub fires if UB is reachable) and the implementation itself runs under the ledger
   allocator (layout-exact frees, double frees, red zones, poisoned quarantine: kinds c02-x).
   NOT yet proved: `C02_no_ub : reachable s -> hstep orc o s [] <> UB _` for all histories (needs the global invariant WF of
   DESIGN §3; until then the unboundedness of this property rests on the correspondence). *)
From stdpp Require Import gmap.
From Coq Require Import NArith.
From BV Require Import Base Heap HeapLaws HeapWF HeapWFOps HeapWFMain ConstsTie.
Local Open Scope N_scope.

Theorem C02_free_is_layout_exact_and_once_partial : forall k sz s e s' e', free_buf k sz s e = OK tt s' e' ->
  exists x, sts s !! k = Some x /\ (s_cls x = SHeap -> s_live x = true /\ sz = s_size x /\ sts s' !! k = Some (dead x) /\ e' = e ++ [EFree k sz]).
Proof. exact free_buf_ok. Qed.
Theorem C02_read_inside_live_block_partial : forall k ofs len s e bs s' e', mread k ofs len s e = OK bs s' e' -> len <> 0 ->
  exists x, sts s !! k = Some x /\ s_live x = true /\ ofs + len <= s_size x /\ bs = rd (s_data x) ofs len /\ s' = s /\ e' = e.
Proof. exact mread_ok. Qed.
Theorem C02_write_inside_live_heap_block_partial : forall k ofs bs s e s' e', mwrite k ofs bs s e = OK tt s' e' -> lenN bs <> 0 ->
  exists x, sts s !! k = Some x /\ s_live x = true /\ s_cls x = SHeap /\ ofs + lenN bs <= s_size x /\ e' = e.
Proof. exact mwrite_ok. Qed.
(* a freed block stays dead: a second free is UB in the model *)
Example C02_double_free_is_ub :
  let s0 := {| sts := {[ 2%positive := {| s_size := 4; s_data := [1;2;3;4]; s_live := true; s_odd := false; s_cls := SHeap; s_ctrl := CNone |} ]};
               hs := ∅; owners := ∅; next_real := 2; next_pseudo := 1; next_h := 1; next_o := 1; odd_mode := false |} in
  match free_buf 2 4 s0 [] with OK _ s1 _ => match free_buf 2 4 s1 [] with UB _ => True | _ => False end | _ => False end
  /\ match free_buf 2 3 s0 [] with UB _ => True | _ => False end.
Proof. vm_compute. split; exact I. Qed.

(* THE GLOBAL INVARIANT (HeapWF.v): typing of every handle against its storage (class, liveness, control-block shape, window inside the
   allocation), reference count = number of holders, exactly one holder for a live buffer without control block, none for a dead one,
   pairwise disjoint non-empty windows of shared BytesMut handles, fresh identifiers.  Proved for ALL 46 operations of M2 (HeapWFOps.v,
   HeapWFMain.v): for every history of well-typed operations (the named handles exist and have the right type) from the empty state, with
   EVERY oracle (capacities std delivers), in both address parities, including panicking operations: every state satisfies the invariant and
   NO step reaches UB - i.e. no read / write outside a live allocation, no free of a freed block or with a wrong size, no reference-count
   underflow, no owner dropped twice, no control block used after it was freed. *)
Theorem C02_invariant_preserved : forall orc o s, WF s -> op_ok s o ->
  match run_op orc o s with OK _ s' _ => WF s' | PANIC s' _ => WF s' | UB _ => False end.
Proof. exact wf_preserved. Qed.
Theorem C02_no_ub_reachable : forall orcs n s o why, reach orcs n s -> op_ok s o -> run_op (orcs n) o s <> UB why.
Proof. exact reach_no_ub. Qed.
Example C02_invariant_nonvacuous : WF (hst0 false) /\ WF (hst0 true).
Proof. split; apply wf0. Qed.

(* side condition regenerated on every run (translator T7): the representation constants of the transliteration are those of the current source *)
Lemma C02_gen_constants_match : consts_tie. Proof. exact consts_tie_holds. Qed.
Print Assumptions C02_free_is_layout_exact_and_once_partial.
Print Assumptions C02_read_inside_live_block_partial.
Print Assumptions C02_write_inside_live_heap_block_partial.
Print Assumptions C02_double_free_is_ub.
Print Assumptions C02_invariant_preserved.
Print Assumptions C02_no_ub_reachable.
Print Assumptions C02_invariant_nonvacuous.
Print Assumptions C02_gen_constants_match.

(* Laws of the value model M1: each handle is an independent value (frame); the contents of a Bytes never change
   except by its own slicing family, which only ever keeps a contiguous sub-range. *)
From stdpp Require Import gmap.
From Coq Require Import NArith Lia.
From BV Require Import Base BaseLemmas BufMut Heap Spec.
Local Open Scope N_scope.

(* the handles an operation is applied to *)
Definition touched (o : op) : list hid :=
  match o with
  | OBNew | OBFromStatic _ | OBFromVec _ _ | OBFromOwner _ _ | OMNew | OMWithCapacity _ | OMZeroed _ | OMFromSlice _ => []
  | OBClone h | OBSlice h _ _ | OBSliceIncl h _ _ | OBSliceRef h _ | OBSplitOff h _ | OBSplitTo h _ | OBTruncate h _ | OBClear h | OBAdvance h _
  | OBIsUnique h | OBTryIntoMut h | OBIntoMut h | OBIntoVec h | OBDrop h
  | OMSplitOff h _ | OMSplitTo h _ | OMSplit h | OMTruncate h _ | OMClear h | OMResize h _ _ | OMReserve h _ | OMTryReclaim h _ | OMExtend h _ | OMExtendIter h _ _
  | OMWrite h _ _ | OMFreeze h | OMIntoVec h | OMAdvance h _ | OMClone h | OMDrop h | OVIntoBytes h | OVDrop h => [h]
  | OMUnsplit h o2 => [h; o2]
  end.

Lemma snew_inv s k bs s' r : snew s k bs = SOk s' r ->
  r = RH (snext s) /\ vals s' = <[snext s := {| sv_kind := k; sv_bytes := bs |}]> (vals s) /\ snext s' = Pos.succ (snext s).
Proof. unfold snew. intros H. inversion H. done. Qed.

Ltac spec_cases :=
  repeat match goal with
  | H : with_b _ _ _ _ = SOk _ _ |- _ => unfold with_b in H
  | H : context [match vals ?s !! ?h with _ => _ end] |- _ => destruct (vals s !! h) as [[[] ?]|] eqn:?; try discriminate; cbn [sv_kind sv_bytes] in H
  | H : context [if ?c then _ else _] |- _ => destruct c eqn:?; try discriminate
  | H : context [match ?o with Some _ => _ | None => _ end] |- _ => destruct o as [[? ?]|]; try discriminate
  | H : snew _ _ _ = SOk _ _ |- _ => apply snew_inv in H as (-> & ? & ?)
  | H : SOk _ _ = SOk ?a ?b |- _ => injection H as <- <-
  end.

(* FRAME: an operation never changes what any other live handle reads *)
Theorem sstep_frame cap uniq o s s' r h' : sstep cap uniq o s = SOk s' r -> h' ∉ touched o -> (h' < snext s)%positive ->
  vals s' !! h' = vals s !! h'.
Proof.
  intros H Hn Hlt.
  assert (h' <> snext s) as Hne by lia.
  destruct o; simpl in H, Hn; spec_cases; simpl;
    repeat match goal with H : vals _ = _ |- _ => rewrite H end;
    rewrite ?lookup_insert_ne, ?lookup_delete_ne by set_solver; try done.
  all: unfold sset, sdel; simpl; rewrite ?lookup_insert_ne, ?lookup_delete_ne by set_solver; done.
Qed.

Lemma sub_whole bs : bs = sub bs 0 (lenN bs).
Proof. unfold sub. rewrite skipN_0. replace (lenN bs - 0) with (lenN bs) by lia. by rewrite firstnN_all by lia. Qed.
Lemma sub_prefix a bs : firstnN a bs = sub bs 0 a.
Proof. unfold sub. rewrite skipN_0. f_equal. lia. Qed.
Lemma sub_suffix a bs : skipN a bs = sub bs a (lenN bs).
Proof. unfold sub. rewrite firstnN_all; [done|]. rewrite lenN_skipN. lia. Qed.

(* the contents of a Bytes never change after it is created: whatever happens, a surviving Bytes handle reads a
   contiguous sub-range of what it read before (its own split/truncate/advance), and stays a Bytes *)
Theorem bytes_immutable cap uniq o s s' r h bs k' bs' : sstep cap uniq o s = SOk s' r -> (h < snext s)%positive ->
  vals s !! h = Some {| sv_kind := KB; sv_bytes := bs |} -> vals s' !! h = Some {| sv_kind := k'; sv_bytes := bs' |} ->
  k' = KB /\ exists b e, bs' = sub bs b e.
Proof.
  intros H Hlt Hv Hv'.
  assert (h <> snext s) as Hne by lia.
  assert (forall (m : gmap hid sval), m !! h = Some {| sv_kind := k'; sv_bytes := bs' |} -> m = vals s -> k' = KB /\ (exists b e : N, bs' = sub bs b e)) as Hsame.
  { intros m Hm ->. rewrite Hv in Hm. inversion Hm; subst. split; [done|]. eexists _, _. apply sub_whole. }
  destruct o; simpl in H; spec_cases; simpl in *; unfold sset, sdel in *; simpl in *;
    repeat match goal with H : vals _ = _ |- _ => rewrite H in Hv' end;
    rewrite ?lookup_insert_ne in Hv' by done;
    try (eapply Hsame; [exact Hv'|done]).
  all: try match goal with
    | Hv' : sset _ ?x _ _ = _ |- _ => idtac
    | _ => idtac end.
  all: repeat match goal with
    | Hv' : <[?x := _]> _ !! ?y = Some _ |- _ => destruct (decide (x = y)) as [->|]; [rewrite lookup_insert in Hv'|rewrite lookup_insert_ne in Hv' by done]
    | Hv' : delete ?x _ !! ?y = Some _ |- _ => destruct (decide (x = y)) as [->|]; [rewrite lookup_delete in Hv'; discriminate|rewrite lookup_delete_ne in Hv' by done]
    end;
    try (eapply Hsame; [exact Hv'|done]);
    try (match goal with Hx : vals ?st !! ?y = Some {| sv_kind := ?k; sv_bytes := _ |}, Hy : vals ?st !! ?y = Some _ |- _ => rewrite Hy in Hx; inversion Hx; subst end);
    try (inversion Hv'; subst; split; [done|]; eexists _, _; first [apply sub_prefix|apply sub_suffix|apply sub_whole]);
    try (inversion Hv'; subst; split; [done|]; exists 0, 0; unfold sub; by rewrite firstnN_0).
Qed.

(* Hoare-style specifications of the primitives of M2 against the logical invariant LWF:
   spec m s Q  :=  m never reaches UB from s, and every normal result satisfies Q (panics are handled globally by
   HeapPanic.panics_are_clean).  Each lemma says how the LOGICAL handle map may change across the primitive. *)
From stdpp Require Import gmap.
From Coq Require Import NArith Lia String.
From BV Require Import Base BaseLemmas BufMut Heap HeapWF.
Local Open Scope N_scope.
Arguments N.add : simpl never. Arguments N.sub : simpl never. Arguments N.ltb : simpl never. Arguments N.leb : simpl never. Arguments N.eqb : simpl never.

Definition spec {A} (m : M A) (s : hst) (Q : A -> hst -> Prop) : Prop :=
  forall e, match m s e with OK a s1 _ => Q a s1 | PANIC _ _ => True | UB _ => False end.
Lemma spec_ret {A} (a : A) s (Q : A -> hst -> Prop) : Q a s -> spec (mret a) s Q.
Proof. intros H e. exact H. Qed.
Lemma spec_bind {A B} (m : M A) (f : A -> M B) s Q1 Q : spec m s Q1 -> (forall a s1, Q1 a s1 -> spec (f a) s1 Q) -> spec (mbind m f) s Q.
Proof. intros H1 H2 e. unfold mbind. specialize (H1 e). destruct (m s e) as [a s1 e1| |]; [|done|done]. apply H2. exact H1. Qed.
Lemma spec_mono {A} (m : M A) s (Q1 Q : A -> hst -> Prop) : spec m s Q1 -> (forall a s1, Q1 a s1 -> Q a s1) -> spec m s Q.
Proof. intros H1 H2 e. specialize (H1 e). destruct (m s e); auto. Qed.
Lemma spec_panic {A} s (Q : A -> hst -> Prop) : spec mpanic s Q.
Proof. intros e. exact I. Qed.
Lemma spec_assert b s (Q : unit -> hst -> Prop) : (b = true -> Q tt s) -> spec (massert b) s Q.
Proof. intros H e. destruct b; simpl; auto. Qed.
Lemma spec_check b wv s (Q : unit -> hst -> Prop) : b = true -> Q tt s -> spec (mcheck b wv) s Q.
Proof. intros -> H e. exact H. Qed.
Lemma spec_mget s (Q : hst -> hst -> Prop) : Q s s -> spec mget s Q.
Proof. intros H e. exact H. Qed.
Lemma spec_mput s s' (Q : unit -> hst -> Prop) : Q tt s' -> spec (mput s') s Q.
Proof. intros H e. exact H. Qed.
Lemma spec_emit x s (Q : unit -> hst -> Prop) : Q tt s -> spec (emit x) s Q.
Proof. intros H e. exact H. Qed.
Lemma spec_get_st k st s (Q : storage -> hst -> Prop) : sts s !! k = Some st -> Q st s -> spec (get_st k) s Q.
Proof. intros Hs H e. unfold get_st. rewrite Hs. exact H. Qed.
Lemma spec_get_st' k st s : sts s !! k = Some st -> spec (get_st k) s (fun x s1 => x = st /\ s1 = s).
Proof. intros Hs. by eapply spec_get_st. Qed.
Lemma spec_put_st k x s (Q : unit -> hst -> Prop) : Q tt (set_sts (<[k := x]>) s) -> spec (put_st k x) s Q.
Proof. intros H e. exact H. Qed.
Lemma spec_get_h h x s (Q : handle -> hst -> Prop) : hs s !! h = Some x -> Q x s -> spec (get_h h) s Q.
Proof. intros Hs H e. unfold get_h. rewrite Hs. exact H. Qed.
Lemma spec_get_h' h x s : hs s !! h = Some x -> spec (get_h h) s (fun y s1 => y = x /\ s1 = s).
Proof. intros Hs. by eapply spec_get_h. Qed.
Lemma spec_mget' s : spec mget s (fun x s1 => x = s /\ s1 = s).
Proof. by apply spec_mget. Qed.
Lemma spec_put_h h x s (Q : unit -> hst -> Prop) : Q tt (set_hs (<[h := x]>) s) -> spec (put_h h x) s Q.
Proof. intros H e. exact H. Qed.
Lemma spec_del_h h s (Q : unit -> hst -> Prop) : Q tt (set_hs (delete h) s) -> spec (del_h h) s Q.
Proof. intros H e. exact H. Qed.
Lemma spec_if {A} (b : bool) (m1 m2 : M A) s Q : (b = true -> spec m1 s Q) -> (b = false -> spec m2 s Q) -> spec (if b then m1 else m2) s Q.
Proof. destruct b; auto. Qed.

Lemma spec_check' b wv s : b = true -> spec (mcheck b wv) s (fun _ s1 => s1 = s).
Proof. intros. by apply spec_check. Qed.
Lemma spec_assert' b s : spec (massert b) s (fun _ s1 => b = true /\ s1 = s).
Proof. by apply spec_assert. Qed.
Lemma spec_put_st' k x s : spec (put_st k x) s (fun _ s1 => s1 = set_sts (<[k := x]>) s).
Proof. by apply spec_put_st. Qed.
Lemma spec_emit' x s : spec (emit x) s (fun _ s1 => s1 = s).
Proof. by apply spec_emit. Qed.
Lemma spec_mput' s s' : spec (mput s') s (fun _ s1 => s1 = s').
Proof. by apply spec_mput. Qed.
Lemma spec_put_h' h x s : spec (put_h h x) s (fun _ s1 => s1 = set_hs (<[h := x]>) s).
Proof. by apply spec_put_h. Qed.
Lemma spec_del_h' h s : spec (del_h h) s (fun _ s1 => s1 = set_hs (delete h) s).
Proof. by apply spec_del_h. Qed.
(* frame: the real handle table and its counter are untouched *)
Definition sframe (s s1 : hst) : Prop := hs s1 = hs s /\ next_h s1 = next_h s.
Lemma sframe_refl s : sframe s s. Proof. done. Qed.
Lemma sframe_trans s s1 s2 : sframe s s1 -> sframe s1 s2 -> sframe s s2.
Proof. intros [? ?] [? ?]. split; congruence. Qed.
Lemma sframe_set_sts f s : sframe s (set_sts f s). Proof. done. Qed.
Lemma sframe_set_owners f s : sframe s (set_owners f s). Proof. done. Qed.

(* ---- typing across a single-storage update ---- *)
Lemma typed_upd_shape sm k st st1 y : sm !! k = Some st -> shape st1 = shape st -> typed sm y -> typed (<[k := st1]> sm) y.
Proof.
  intros Hs Hsh. apply typed_shape. intros k0 st0 _ H0. destruct (decide (k0 = k)) as [->|Hne].
  - rewrite lookup_insert. rewrite Hs in H0. injection H0 as <-. eauto.
  - rewrite lookup_insert_ne by done. eauto.
Qed.
Lemma typed_upd_other sm k st1 y : uses y <> Some k -> typed sm y -> typed (<[k := st1]> sm) y.
Proof.
  intros Hu. apply typed_shape. intros k0 st0 Hk H0. destruct (decide (k0 = k)) as [->|Hne]; [done|].
  rewrite lookup_insert_ne by done. eauto.
Qed.
Lemma uses_of_holds y k : holds y = Some k -> uses y = Some k.
Proof. destruct y as [[k'|] ofs len vt arc|? ? ? ? ?|? ? ?]; simpl; try done. destruct vt; done. Qed.
Lemma uses_static sm y k st : uses y = Some k -> holds y <> Some k -> typed sm y -> sm !! k = Some st -> s_cls st = SStatic.
Proof.
  destruct y as [[k'|] ofs len vt arc|? ? ? ? ?|? ? ?]; simpl; try done. destruct vt; try done.
  destruct (len =? 0) eqn:E; [done|]. intros [= <-] _ [?|(st' & Hs & Hc & _)] Hk; [lia|]. rewrite Hs in Hk. by injection Hk as <-.
Qed.
(* a handle that does not hold k is unaffected by any change of a non-static storage k *)
Lemma typed_upd_nothold sm k st st1 y : sm !! k = Some st -> s_cls st <> SStatic -> holds y <> Some k -> typed sm y -> typed (<[k := st1]> sm) y.
Proof.
  intros Hs Hc Hh Ht. apply typed_upd_other; [|done]. intros Hu. apply Hc. eapply uses_static; eauto.
Qed.

(* ---- the generic single-storage step ---- *)
Lemma st_ok_om om om' k st n : (forall o, owner_ok om o k -> owner_ok om' o k) -> st_ok om k st n -> st_ok om' k st n.
Proof.
  intros Ho. unfold st_ok. destruct (s_cls st); try done. destruct (s_live st); [|done].
  intros (rc & o & ? & ? & ? & ?). exists rc, o. repeat split; try done. by apply Ho.
Qed.
Lemma lwf_step1o HM HM1 s s1 k st st1 :
  LWF HM s -> sts s !! k = Some st ->
  sts s1 = <[k := st1]> (sts s) -> next_real s1 = next_real s -> next_pseudo s1 = next_pseudo s ->
  (forall o, is_Some (owners s1 !! o) -> (o < next_o s1)%positive) ->
  (forall k2 o2, k2 <> k -> owner_ok (owners s) o2 k2 -> owner_ok (owners s1) o2 k2) ->
  (forall h y, HM1 !! h = Some y -> typed (sts s1) y) ->
  st_ok (owners s1) k st1 (refs HM1 k) ->
  (forall k2, k2 <> k -> refs HM1 k2 = refs HM k2) ->
  disj HM1 -> LWF HM1 s1.
Proof.
  intros [T S D (F1 & F2 & F3 & F4)] Hk Hs H1 H2 H3 HO HT HS HR HD. constructor; [done| |done|].
  - intros k2 st2. rewrite Hs. destruct (decide (k2 = k)) as [->|Hne].
    + rewrite lookup_insert. by intros [= <-].
    + rewrite lookup_insert_ne by done. intros H2'. rewrite HR by done. eapply st_ok_om; [|by apply S]. intros o. by apply HO.
  - unfold sfresh. rewrite Hs, H1, H2. repeat split.
    + intros p H. apply F1. destruct (decide (xO p = k)) as [<-|Hne]; [done|]. by rewrite lookup_insert_ne in H.
    + intros p H. apply F2. destruct (decide (xI p = k)) as [<-|Hne]; [done|]. by rewrite lookup_insert_ne in H.
    + done.
    + destruct (decide (1%positive = k)) as [<-|Hne]; [by rewrite F4 in Hk|]. by rewrite lookup_insert_ne.
Qed.
Lemma lwf_step1 HM HM1 s s1 k st st1 :
  LWF HM s -> sts s !! k = Some st ->
  sts s1 = <[k := st1]> (sts s) -> owners s1 = owners s -> next_real s1 = next_real s -> next_pseudo s1 = next_pseudo s -> next_o s1 = next_o s ->
  (forall h y, HM1 !! h = Some y -> typed (sts s1) y) ->
  st_ok (owners s) k st1 (refs HM1 k) ->
  (forall k2, k2 <> k -> refs HM1 k2 = refs HM k2) ->
  disj HM1 -> LWF HM1 s1.
Proof.
  intros L Hk Hs Ho H1 H2 H3 HT HS HR HD. eapply lwf_step1o; eauto; rewrite ?Ho, ?H3; try done.
  destruct L as [_ _ _ (_ & _ & F3 & _)]. done.
Qed.
(* no storage change at all: only the logical map moves (handle-only operations) *)
Lemma lwf_step0 HM HM1 s :
  LWF HM s -> (forall h y, HM1 !! h = Some y -> typed (sts s) y) -> (forall k, refs HM1 k = refs HM k) -> disj HM1 -> LWF HM1 s.
Proof.
  intros [T S D F] HT HR HD. constructor; try done. intros k st Hk. rewrite HR. by apply S.
Qed.

(* ---- facts read off the invariant ---- *)
Lemma lwf_holder HM s h x k : LWF HM s -> HM !! h = Some x -> holds x = Some k -> exists st, sts s !! k = Some st /\ s_live st = true /\ (1 <= refs HM k)%nat.
Proof.
  intros L Hx Hh. destruct (typed_holds _ _ _ (lwf_typed _ _ L _ _ Hx) Hh) as (st & Hs & Hl). exists st. repeat split; try done. eapply refs_pos; eauto.
Qed.
Ltac inv_lookup H :=
  repeat match type of H with
  | <[_ := _]> _ !! _ = Some _ => apply lookup_insert_Some in H as [[<- <-]|[? H]]
  | delete _ _ !! _ = Some _ => apply lookup_delete_Some in H as [? H]
  end.

(* ---- reference-count increments ---- *)
Lemma inc_rc_lwf HM HM1 s k st :
  LWF HM s -> sts s !! k = Some st -> s_live st = true -> s_ctrl st <> CNone ->
  (forall h y, HM1 !! h = Some y -> typed (sts s) y) ->
  refs HM1 k = S (refs HM k) -> (forall k2, k2 <> k -> refs HM1 k2 = refs HM k2) -> disj HM1 ->
  spec (inc_rc k) s (fun _ s1 => sframe s s1 /\ LWF HM1 s1).
Proof.
  intros L Hs Hl Hc HT HR HR2 HD. pose proof (lwf_st _ _ L _ _ Hs) as Hok.
  unfold inc_rc. eapply spec_bind; [apply (spec_get_st' _ _ _ Hs)|]. intros x s1 [-> ->].
  assert (forall c1, ctrl_shape c1 = ctrl_shape (s_ctrl st) -> st_ok (owners s) k (with_ctrl c1 st) (refs HM1 k) ->
            spec (put_st k (with_ctrl c1 st)) s (fun _ s1 => sframe s s1 /\ LWF HM1 s1)) as Hput.
  { intros c1 Hsh Hok1. apply spec_put_st. split; [apply sframe_set_sts|].
    eapply lwf_step1; try exact L; try exact Hs; try reflexivity; try done.
    intros h y Hy. simpl. eapply typed_upd_shape; [exact Hs| |by eapply HT]. unfold shape. simpl. by rewrite Hsh. }
  unfold st_ok in Hok. rewrite Hl in Hok. destruct (s_ctrl st) as [|cap rc|vcap o rc|o rc|rc o] eqn:Hct; [done| | | |].
  all: try (apply Hput; [done|]); unfold st_ok; cbn [with_ctrl s_cls s_live s_ctrl s_size]; rewrite ?Hl; destruct (s_cls st); try (exfalso; clear -Hok; naive_solver).
  - destruct Hok as (Hnz & -> & -> & Hn). rewrite HR. repeat split; try done; lia.
  - destruct Hok as (Hnz & -> & -> & Hn). rewrite HR. repeat split; try done; lia.
  - destruct Hok as (Hz & _ & -> & -> & Hn). rewrite HR. repeat split; try done; lia.
  - destruct Hok as (rc' & o' & [= <- <-] & -> & Hn & Ho). exists (N.of_nat (refs HM k) + 1), o. rewrite HR. repeat split; try done; lia.
Qed.

(* ---- the last / a non-last reference is given back ---- *)
Lemma nothold_of_refs0 HM k h y : refs HM k = 0%nat -> HM !! h = Some y -> holds y <> Some k.
Proof. intros H0 Hy Hh. pose proof (refs_pos _ _ _ _ Hy Hh). lia. Qed.
Lemma release_lwf HM HM1 s k st :
  LWF HM s -> sts s !! k = Some st -> s_live st = true -> s_ctrl st <> CNone ->
  (forall h y, HM1 !! h = Some y -> typed (sts s) y) ->
  S (refs HM1 k) = refs HM k -> (forall k2, k2 <> k -> refs HM1 k2 = refs HM k2) -> disj HM1 ->
  spec (release k) s (fun _ s1 => sframe s s1 /\ LWF HM1 s1).
Proof.
  intros L Hs Hl Hc HT HR HR2 HD. pose proof (lwf_st _ _ L _ _ Hs) as Hok.
  unfold release. eapply spec_bind; [apply (spec_get_st' _ _ _ Hs)|]. intros x s1 [-> ->].
  (* non-last: the count drops, the shape stays *)
  assert (forall c1, ctrl_shape c1 = ctrl_shape (s_ctrl st) -> st_ok (owners s) k (with_ctrl c1 st) (refs HM1 k) ->
            spec (put_st k (with_ctrl c1 st)) s (fun _ s1 => sframe s s1 /\ LWF HM1 s1)) as Hput.
  { intros c1 Hsh Hok1. apply spec_put_st. split; [apply sframe_set_sts|].
    eapply lwf_step1; try exact L; try exact Hs; try reflexivity; try done.
    intros h y Hy. simpl. eapply typed_upd_shape; [exact Hs| |by eapply HT]. unfold shape. simpl. by rewrite Hsh. }
  (* last: the storage dies (or, for a dangling Vec, merely loses its control block); nobody else holds it *)
  assert (forall st1, refs HM1 k = 0%nat -> s_cls st <> SStatic -> st_ok (owners s) k st1 0 ->
            LWF HM1 (set_sts (<[k := st1]>) s)) as Hlast.
  { intros st1 H0 Hcl Hok1. eapply lwf_step1; try exact L; try exact Hs; try reflexivity; try done; [|by rewrite H0].
    intros h y Hy. simpl. eapply typed_upd_nothold; [exact Hs|done| |by eapply HT]. by eapply nothold_of_refs0. }
  unfold st_ok in Hok. rewrite Hl in Hok. destruct (s_ctrl st) as [|cap rc|vcap o rc|o rc|rc o] eqn:Hct; [done| | | |].
  - (* bytes.rs Shared *)
    destruct (s_cls st) eqn:Hcls; try (exfalso; clear -Hok; naive_solver). destruct Hok as (Hnz & -> & -> & Hn).
    eapply spec_bind; [apply spec_check'; lia|]. intros [] s1 ->.
    destruct (N.of_nat (refs HM k) =? 1) eqn:E1.
    + assert (refs HM1 k = 0%nat) as H0 by lia.
      eapply spec_bind; [apply spec_put_st'|]. intros [] s1 ->.
      eapply spec_bind with (Q1 := fun _ s2 => sframe s s2 /\ LWF HM1 s2); [|intros [] s2 H2; apply spec_emit; exact H2].
      unfold free_buf. eapply spec_bind; [eapply spec_get_st'; simpl; apply lookup_insert|]. intros x s1 [-> ->].
      cbn [with_ctrl s_cls]. rewrite Hcls.
      eapply spec_bind; [apply spec_check'; exact Hl|]. intros [] s1 ->.
      eapply spec_bind; [apply spec_check'; cbn [with_ctrl s_size]; lia|]. intros [] s1 ->.
      eapply spec_bind; [apply spec_put_st'|]. intros [] s1 ->. apply spec_emit.
      split; [done|]. unfold set_sts. cbn [sts hs owners next_real next_pseudo next_h next_o odd_mode]. rewrite insert_insert.
      apply (Hlast (dead (with_ctrl CNone st))); [done|done|]. unfold st_ok. simpl. rewrite Hcls. done.
    + apply Hput; [done|]. unfold st_ok. cbn [with_ctrl s_cls s_live s_ctrl s_size]. rewrite Hcls, Hl. repeat split; try done; lia.
  - (* bytes_mut.rs Shared *)
    eapply spec_bind; [apply spec_check'; destruct (s_cls st); try (exfalso; clear -Hok; naive_solver); lia|]. intros [] s1 ->.
    destruct (rc =? 1) eqn:E1.
    + eapply spec_bind; [apply spec_put_st'|]. intros [] s1 ->.
      eapply spec_bind with (Q1 := fun _ s2 => sframe s s2 /\ LWF HM1 s2); [|intros [] s2 H2; apply spec_emit; exact H2].
      unfold drop_vec. destruct (s_cls st) eqn:Hcls; try (exfalso; clear -Hok; naive_solver).
      * destruct Hok as (Hnz & -> & -> & Hn). assert (refs HM1 k = 0%nat) as H0 by lia.
        destruct (s_size st =? 0) eqn:Ez; [lia|].
        unfold free_buf. eapply spec_bind; [eapply spec_get_st'; simpl; apply lookup_insert|]. intros x s1 [-> ->].
        cbn [with_ctrl s_cls]. rewrite Hcls.
        eapply spec_bind; [apply spec_check'; exact Hl|]. intros [] s1 ->.
        eapply spec_bind; [apply spec_check'; cbn [with_ctrl s_size]; lia|]. intros [] s1 ->.
        eapply spec_bind; [apply spec_put_st'|]. intros [] s1 ->. apply spec_emit.
        split; [done|]. unfold set_sts. cbn [sts hs owners next_real next_pseudo next_h next_o odd_mode]. rewrite insert_insert.
        apply (Hlast (dead (with_ctrl CNone st))); [done|done|]. unfold st_ok. simpl. rewrite Hcls. done.
      * destruct Hok as (Hz & _ & -> & -> & Hn). assert (refs HM1 k = 0%nat) as H0 by lia.
        change (0 =? 0) with true. cbn iota. apply spec_ret. split; [done|].
        apply (Hlast (with_ctrl CNone st)); [done|done|]. unfold st_ok. simpl. rewrite Hcls, Hl. repeat split; try done; lia.
    + apply Hput; [done|]. unfold st_ok. cbn [with_ctrl s_cls s_live s_ctrl s_size]. rewrite Hl.
      destruct (s_cls st); try (exfalso; clear -Hok; naive_solver).
      * destruct Hok as (Hnz & -> & -> & Hn). repeat split; try done; lia.
      * destruct Hok as (Hz & _ & -> & -> & Hn). repeat split; try done; lia.
  - exfalso. destruct (s_cls st); clear -Hok; naive_solver.
  - (* Owned *)
    destruct (s_cls st) eqn:Hcls; try (exfalso; clear -Hok; naive_solver). destruct Hok as (rc' & o' & [= <- <-] & -> & Hn & (wv & Hw & Hnd & Hm)).
    eapply spec_bind; [apply spec_check'; lia|]. intros [] s1 ->.
    destruct (N.of_nat (refs HM k) =? 1) eqn:E1.
    + assert (refs HM1 k = 0%nat) as H0 by lia.
      eapply spec_bind; [apply spec_mget'|]. intros x s1 [-> ->]. rewrite Hw.
      eapply spec_bind; [apply spec_check'; by rewrite Hnd|]. intros [] s1 ->.
      eapply spec_bind; [apply spec_mput'|]. intros [] s1 ->.
      eapply spec_bind; [apply spec_emit'|]. intros [] s1 ->.
      eapply spec_bind; [eapply spec_get_st'; simpl; exact Hs|]. intros x s1 [-> ->].
      eapply spec_bind; [apply spec_put_st'|]. intros [] s1 ->.
      eapply spec_bind with (Q1 := fun _ s2 => sframe s s2 /\ LWF HM1 s2); [|intros [] s2 H2; apply spec_emit; exact H2].
      assert (forall s2, s2 = set_sts (<[k := dead st]>) (set_owners (<[o := {| o_dropped := true; o_asref := o_asref wv; o_drops := o_drops wv + 1; o_mem := o_mem wv |}]>) s) ->
                sframe s s2 /\ LWF HM1 s2) as Hfin.
      { intros s2 ->. split; [done|]. destruct L as [T S D (F1 & F2 & F3 & F4)] eqn:EL.
        eapply lwf_step1o; try exact L; try exact Hs; try reflexivity.
        - simpl. intros o2 [? Ho2]. apply F3. destruct (decide (o2 = o)) as [->|?]; [by rewrite Hw|]. by rewrite lookup_insert_ne in Ho2.
        - simpl. intros k2 o2 Hne (w2 & Hw2 & Hd2 & Hm2). exists w2. rewrite lookup_insert_ne; [done|]. intros <-. rewrite Hw in Hw2. injection Hw2 as <-. congruence.
        - intros h y Hy. simpl. eapply typed_upd_nothold; [exact Hs|by rewrite Hcls| |by eapply HT]. by eapply nothold_of_refs0.
        - rewrite H0. unfold st_ok. simpl. rewrite Hcls. done.
        - done.
        - done. }
      destruct (s_size st =? 0); [apply spec_ret|apply spec_emit]; by apply Hfin.
    + apply Hput; [done|]. unfold st_ok. cbn [with_ctrl s_cls s_live s_ctrl s_size]. rewrite Hcls, Hl.
      exists (N.of_nat (refs HM k) - 1), o. repeat split; try done; try lia. by exists wv.
Qed.

(* ---- freeing the buffer of a sole owner (no control block) ---- *)
Lemma typed_holds_nonstatic sm x k st : typed sm x -> holds x = Some k -> sm !! k = Some st -> s_cls st <> SStatic.
Proof.
  intros Ht Hh Hs Hc. unfold heapish in *.
  destruct x as [[k'|] ofs len vt arc|k' ofs len cap [o|]|k' len cap]; simpl in *; try done.
  - destruct vt; try done; destruct Ht as (st' & Hs' & Hl & Hb & Hcl & Hr); injection Hh as ->; rewrite Hs in Hs'; injection Hs' as <-; rewrite Hc in Hcl; first [discriminate Hcl | destruct Hcl as [Hcl|Hcl]; discriminate Hcl].
  - destruct Ht as (st' & Hs' & Hl & Hcl & Hr); injection Hh as ->; rewrite Hs in Hs'; injection Hs' as <-; rewrite Hc in Hcl; first [discriminate Hcl | destruct Hcl as [Hcl|Hcl]; discriminate Hcl].
  - destruct Ht as (st' & Hs' & Hl & Hcl & Hr); injection Hh as ->; rewrite Hs in Hs'; injection Hs' as <-; rewrite Hc in Hcl; first [discriminate Hcl | destruct Hcl as [Hcl|Hcl]; discriminate Hcl].
  - destruct Ht as (st' & Hs' & Hl & Hcl & Hr); injection Hh as ->; rewrite Hs in Hs'; injection Hs' as <-; rewrite Hc in Hcl; first [discriminate Hcl | destruct Hcl as [Hcl|Hcl]; discriminate Hcl].
Qed.
Lemma st_ok_sole_n HM s h x k st : LWF HM s -> HM !! h = Some x -> holds x = Some k -> sts s !! k = Some st -> s_ctrl st = CNone -> refs HM k = 1%nat.
Proof.
  intros L Hx Hh Hs Hc. pose proof (lwf_st _ _ L _ _ Hs) as Hok. pose proof (refs_pos _ _ _ _ Hx Hh) as Hp.
  pose proof (typed_holds_nonstatic _ _ _ _ (lwf_typed _ _ L _ _ Hx) Hh Hs) as Hns.
  destruct (typed_holds _ _ _ (lwf_typed _ _ L _ _ Hx) Hh) as (st' & Hs' & Hl). rewrite Hs in Hs'. injection Hs' as <-.
  unfold st_ok in Hok. rewrite Hl, Hc in Hok. destruct (s_cls st); try done.
  all: first [by destruct Hok as [_ ?] | destruct Hok as (_ & _ & Hn); lia | destruct Hok as (rc & o & ? & _); done].
Qed.

Lemma set_sts_id s k st : sts s !! k = Some st -> set_sts (<[k := st]>) s = s.
Proof. intros H. destruct s; unfold set_sts; simpl in *. f_equal. by apply insert_id. Qed.
Lemma free_buf_sole_lwf HM HM1 s k st size :
  LWF HM s -> sts s !! k = Some st -> s_live st = true -> heapish (s_cls st) -> s_ctrl st = CNone -> size = s_size st ->
  (forall h y, HM1 !! h = Some y -> typed (sts s) y) ->
  refs HM1 k = 0%nat -> (forall k2, k2 <> k -> refs HM1 k2 = refs HM k2) -> disj HM1 ->
  spec (free_buf k size) s (fun _ s1 => sframe s s1 /\ LWF HM1 s1).
Proof.
  intros L Hs Hl Hcl Hc -> HT H0 HR2 HD. pose proof (lwf_st _ _ L _ _ Hs) as Hok.
  unfold free_buf. eapply spec_bind; [apply (spec_get_st' _ _ _ Hs)|]. intros x s1 [-> ->].
  assert (forall st1, s_cls st <> SStatic -> st_ok (owners s) k st1 0 -> LWF HM1 (set_sts (<[k := st1]>) s)) as Hlast.
  { intros st1 Hns Hok1. eapply lwf_step1; try exact L; try exact Hs; try reflexivity; try done; [|by rewrite H0].
    intros h y Hy. simpl. eapply typed_upd_nothold; [exact Hs|done| |by eapply HT]. by eapply nothold_of_refs0. }
  unfold st_ok in Hok. rewrite Hl, Hc in Hok. destruct Hcl as [Hcl|Hcl]; rewrite Hcl in *.
  - eapply spec_bind; [apply spec_check'; exact Hl|]. intros [] s1 ->.
    eapply spec_bind; [apply spec_check'; lia|]. intros [] s1 ->.
    eapply spec_bind; [apply spec_put_st'|]. intros [] s1 ->. apply spec_emit. split; [done|].
    apply Hlast; [done|]. unfold st_ok. simpl. rewrite Hcl. split; [apply Hok|done].
  - destruct Hok as (Hz & _ & Hn). apply spec_check; [lia|]. split; [done|].
    assert (LWF HM1 (set_sts (<[k := st]>) s)) as Hx; [|by rewrite (set_sts_id s k st Hs) in Hx].
    apply Hlast; [done|]. unfold st_ok. rewrite Hcl, Hl, Hc. repeat split; try done; lia.
Qed.
Lemma drop_vec_sole_lwf HM HM1 s k st cap :
  LWF HM s -> sts s !! k = Some st -> s_live st = true -> heapish (s_cls st) -> s_ctrl st = CNone -> cap = s_size st ->
  (forall h y, HM1 !! h = Some y -> typed (sts s) y) ->
  refs HM1 k = 0%nat -> (forall k2, k2 <> k -> refs HM1 k2 = refs HM k2) -> disj HM1 ->
  spec (drop_vec k cap) s (fun _ s1 => sframe s s1 /\ LWF HM1 s1).
Proof.
  intros L Hs Hl Hcl Hc -> HT H0 HR2 HD. unfold drop_vec. destruct (s_size st =? 0) eqn:Ez; [|by eapply free_buf_sole_lwf].
  apply spec_ret. split; [done|]. pose proof (lwf_st _ _ L _ _ Hs) as Hok. unfold st_ok in Hok. rewrite Hl, Hc in Hok.
  destruct Hcl as [Hcl|Hcl]; rewrite Hcl in *; [lia|].
  assert (LWF HM1 (set_sts (<[k := st]>) s)) as Hx; [|by rewrite (set_sts_id s k st Hs) in Hx].
  eapply lwf_step1; try exact L; try exact Hs; try reflexivity; try done.
  - intros h y Hy. simpl. rewrite insert_id by done. by eapply HT.
  - rewrite H0. unfold st_ok. rewrite Hcl, Hl, Hc. destruct Hok as (? & _ & _). repeat split; try done; lia.
Qed.

(* ---- raw reads and writes ---- *)
Lemma mread_spec s k ofs len st : sts s !! k = Some st -> s_live st = true -> ofs + len <= s_size st ->
  spec (mread k ofs len) s (fun _ s1 => s1 = s).
Proof.
  intros Hs Hl Hb. unfold mread. destruct (len =? 0); [by apply spec_ret|].
  eapply spec_bind; [apply (spec_get_st' _ _ _ Hs)|]. intros x s1 [-> ->].
  eapply spec_bind; [apply spec_check'; exact Hl|]. intros [] s1 ->.
  eapply spec_bind; [apply spec_check'; lia|]. intros [] s1 ->. by apply spec_ret.
Qed.
Lemma mread_spec0 s k ofs : spec (mread k ofs 0) s (fun _ s1 => s1 = s).
Proof. unfold mread. change (0 =? 0) with true. cbn iota. by apply spec_ret. Qed.
Lemma mwrite_lwf HM s k ofs bs st :
  LWF HM s -> sts s !! k = Some st -> s_live st = true -> heapish (s_cls st) -> ofs + lenN bs <= s_size st ->
  spec (mwrite k ofs bs) s (fun _ s1 => sframe s s1 /\ LWF HM s1).
Proof.
  intros L Hs Hl Hcl Hb. unfold mwrite. destruct (lenN bs =? 0) eqn:Ez; [by apply spec_ret|].
  eapply spec_bind; [apply (spec_get_st' _ _ _ Hs)|]. intros x s1 [-> ->].
  eapply spec_bind; [apply spec_check'; exact Hl|]. intros [] s1 ->.
  eapply spec_bind; [apply spec_check'; lia|]. intros [] s1 ->.
  pose proof (lwf_st _ _ L _ _ Hs) as Hok.
  assert (s_cls st = SHeap) as Hh. { destruct Hcl as [?|Hd]; [done|]. unfold st_ok in Hok. rewrite Hd in Hok. lia. }
  eapply spec_bind; [apply spec_check'; by rewrite Hh|]. intros [] s1 ->.
  apply spec_put_st. split; [done|].
  eapply lwf_step1; try exact L; try exact Hs; try reflexivity; try done; [|apply (lwf_disj _ _ L)].
  intros h y Hy. simpl. eapply typed_upd_shape; [exact Hs|done|by eapply (lwf_typed _ _ L)].
Qed.
(* a change of the control block by the only holder *)
Lemma upd_ctrl_lwf HM HM1 s k st c1 :
  LWF HM s -> sts s !! k = Some st ->
  (forall h y, HM1 !! h = Some y -> typed (<[k := with_ctrl c1 st]> (sts s)) y) ->
  st_ok (owners s) k (with_ctrl c1 st) (refs HM1 k) -> (forall k2, k2 <> k -> refs HM1 k2 = refs HM k2) -> disj HM1 ->
  spec (upd_st k (with_ctrl c1)) s (fun _ s1 => sframe s s1 /\ LWF HM1 s1).
Proof.
  intros L Hs HT Hok HR HD. unfold upd_st. eapply spec_bind; [apply (spec_get_st' _ _ _ Hs)|]. intros x s1 [-> ->].
  apply spec_put_st. split; [done|]. eapply lwf_step1; try exact L; try exact Hs; try reflexivity; done.
Qed.
Lemma put_ctrl_lwf HM HM1 s k st c1 :
  LWF HM s -> sts s !! k = Some st ->
  (forall h y, HM1 !! h = Some y -> typed (<[k := with_ctrl c1 st]> (sts s)) y) ->
  st_ok (owners s) k (with_ctrl c1 st) (refs HM1 k) -> (forall k2, k2 <> k -> refs HM1 k2 = refs HM k2) -> disj HM1 ->
  spec (put_st k (with_ctrl c1 st)) s (fun _ s1 => sframe s s1 /\ LWF HM1 s1).
Proof.
  intros L Hs HT Hok HR HD. apply spec_put_st. split; [done|]. eapply lwf_step1; try exact L; try exact Hs; try reflexivity; done.
Qed.

(* ---- allocation ---- *)
Lemma typed_ins_fresh sm k' st' y : sm !! k' = None -> typed sm y -> typed (<[k' := st']> sm) y.
Proof.
  intros Hn. apply typed_shape. intros k0 st0 _ H0. destruct (decide (k0 = k')) as [->|Hne]; [by rewrite Hn in H0|].
  rewrite lookup_insert_ne by done. eauto.
Qed.
Definition fresh_st (s : hst) (size : N) (k' : positive) (st' : storage) : Prop :=
  sts s !! k' = None /\ s_live st' = true /\ s_ctrl st' = CNone /\ s_size st' = size /\ s_cls st' = (if size =? 0 then SDangling else SHeap).
Definition alloc_post (HM : hmap) (s : hst) (size : N) (k' : positive) (s1 : hst) : Prop :=
  sframe s s1 /\ exists st', fresh_st s size k' st' /\ sts s1 = <[k' := st']> (sts s) /\
    forall HM1, (forall h y, HM1 !! h = Some y -> typed (sts s1) y) -> (refs HM1 k' <= 1)%nat -> (size <> 0 -> refs HM1 k' = 1%nat) -> (forall k2, k2 <> k' -> refs HM1 k2 = refs HM k2) -> disj HM1 -> LWF HM1 s1.
Lemma alloc_buf_lwf HM s size init : LWF HM s -> spec (alloc_buf size init) s (alloc_post HM s size).
Proof.
  intros L. destruct L as [T S D (F1 & F2 & F3 & F4)] eqn:EL. unfold alloc_buf.
  eapply spec_bind; [apply spec_mget'|]. intros x s1 [-> ->]. destruct (size =? 0) eqn:Ez.
  - assert (sts s !! xI (next_pseudo s) = None) as Hfr.
    { destruct (sts s !! xI (next_pseudo s)) eqn:E; [|done]. assert (next_pseudo s < next_pseudo s)%positive by (apply F2; eauto). lia. }
    eapply spec_bind; [apply spec_mput'|]. intros [] s1 ->. apply spec_ret. split; [done|].
    eexists. split; [|split; [reflexivity|]]. { unfold fresh_st. rewrite Ez. simpl. repeat split; try done. lia. }
    intros HM1 HT H1 H1' HR HD. constructor; [done| |done|]; simpl.
    + intros k st. destruct (decide (k = xI (next_pseudo s))) as [->|Hne].
      * rewrite lookup_insert. intros [= <-]. unfold st_ok. simpl. repeat split; try done; lia.
      * rewrite lookup_insert_ne by done. intros Hk. rewrite HR by done. by apply S.
    + repeat split; simpl.
      * intros p [st Hp]. rewrite lookup_insert_ne in Hp by done. apply F1; eauto.
      * intros p [st Hp]. destruct (decide (p = next_pseudo s)) as [->|Hne]; [lia|]. rewrite lookup_insert_ne in Hp by congruence.
        assert (p < next_pseudo s)%positive by (apply F2; eauto). lia.
      * done.
      * by rewrite lookup_insert_ne.
  - destruct (isize_max <? size) eqn:Ei; [apply spec_panic|].
    assert (sts s !! xO (next_real s) = None) as Hfr.
    { destruct (sts s !! xO (next_real s)) eqn:E; [|done]. assert (next_real s < next_real s)%positive by (apply F1; eauto). lia. }
    eapply spec_bind; [apply spec_mput'|]. intros [] s1 ->.
    eapply spec_bind; [apply spec_emit'|]. intros [] s1 ->. apply spec_ret. split; [done|].
    eexists. split; [|split; [reflexivity|]]. { unfold fresh_st. rewrite Ez. simpl. repeat split; done. }
    intros HM1 HT H1 H1' HR HD. constructor; [done| |done|]; simpl.
    + intros k st. destruct (decide (k = xO (next_real s))) as [->|Hne].
      * rewrite lookup_insert. intros [= <-]. unfold st_ok. simpl. rewrite H1' by lia. repeat split; try done; lia.
      * rewrite lookup_insert_ne by done. intros Hk. rewrite HR by done. by apply S.
    + repeat split; simpl.
      * intros p [st Hp]. destruct (decide (p = next_real s)) as [->|Hne]; [lia|]. rewrite lookup_insert_ne in Hp by congruence.
        assert (p < next_real s)%positive by (apply F1; eauto). lia.
      * intros p [st Hp]. rewrite lookup_insert_ne in Hp by done. apply F2; eauto.
      * done.
      * by rewrite lookup_insert_ne.
Qed.
Lemma refs_fresh_storage HM s k' : LWF HM s -> sts s !! k' = None -> refs HM k' = 0%nat.
Proof.
  intros L Hn. unfold refs. apply map_size_empty_iff, map_filter_empty_iff, map_Forall_lookup. intros h y Hy Hh. unfold holdsP in Hh. simpl in Hh.
  destruct (typed_holds _ _ _ (lwf_typed _ _ L _ _ Hy) Hh) as (st & Hs & _). by rewrite Hn in Hs.
Qed.

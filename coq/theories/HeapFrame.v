(* The frame property of M2: an operation never changes what a handle it is not applied to reads.
   Part 1: two effect systems over the monadic programs (no invariant needed):
     dsame K s s1  - every storage of s still exists in s1 and, unless its id is in K, holds the same bytes;
     hkeep T s s1  - every handle of s whose key is not in T is the same in s1.
   Part 2 (with the global invariant WF): the storages an operation may write are those its own handles hold, and what it writes
   there lies inside its handle's window, which WF keeps disjoint from every other handle's view. *)
From stdpp Require Import gmap.
From Coq Require Import NArith Lia String.
From BV Require Import Base BaseLemmas BufMut Heap HeapLaws HeapPanic HeapWF HeapWFPrim HeapWFOps HeapWFMain.
Local Open Scope N_scope.
Arguments N.add : simpl never. Arguments N.sub : simpl never. Arguments N.ltb : simpl never. Arguments N.leb : simpl never. Arguments N.eqb : simpl never.

Definition dsame (K : positive -> Prop) (s s1 : hst) : Prop :=
  forall k st, sts s !! k = Some st -> exists st1, sts s1 !! k = Some st1 /\ (K k \/ s_data st1 = s_data st).
Lemma dsame_refl K s : dsame K s s. Proof. intros k st H. eauto. Qed.
Lemma dsame_trans K s s1 s2 : dsame K s s1 -> dsame K s1 s2 -> dsame K s s2.
Proof.
  intros H1 H2 k st Hk. destruct (H1 k st Hk) as (st1 & Hk1 & Hd1). destruct (H2 k st1 Hk1) as (st2 & Hk2 & Hd2). exists st2. split; [done|].
  destruct Hd1 as [?|Hd1]; [by left|]. destruct Hd2 as [?|Hd2]; [by left|]. right. congruence.
Qed.
Lemma dsame_weaken (K K' : positive -> Prop) s s1 : (forall k, K k -> K' k) -> dsame K s s1 -> dsame K' s s1.
Proof. intros HK H k st Hk. destruct (H k st Hk) as (st1 & ? & [?|?]); exists st1; auto. Qed.

(* effect: running m from s (with fresh counters) leaves the data outside K alone, and keeps the counters fresh *)
Definition deff {A} (K : positive -> Prop) (m : M A) (s : hst) : Prop :=
  sfresh s -> forall e, match m s e with OK _ s1 _ | PANIC s1 _ => dsame K s s1 /\ sfresh s1 | UB _ => True end.
Lemma deff_ret {A} K (a : A) s : deff K (mret a) s.
Proof. intros F e. split; [apply dsame_refl|done]. Qed.
Lemma deff_panic {A} K s : deff K (@mpanic A) s.
Proof. intros F e. split; [apply dsame_refl|done]. Qed.
Lemma deff_ub {A} K w s : deff K (@mub A w) s. Proof. intros F e. done. Qed.
Lemma deff_bind {A B} K (m : M A) (f : A -> M B) s :
  deff K m s -> (forall a s1 e e1, m s e = OK a s1 e1 -> deff K (f a) s1) -> deff K (mbind m f) s.
Proof.
  intros Hm Hf F e. unfold mbind. specialize (Hm F e). destruct (m s e) as [a s1 e1|s1 e1|wv] eqn:E; [|done|done].
  destruct Hm as [D1 F1]. specialize (Hf a s1 e e1 E F1 e1). destruct (f a s1 e1) as [b s2 e2|s2 e2|wv]; [| |done].
  all: destruct Hf as [D2 F2]; split; [by eapply dsame_trans|done].
Qed.
(* a computation that does not touch the storages at all *)
Definition sts_same {A} (m : M A) : Prop :=
  forall s e, match m s e with OK _ s1 _ | PANIC s1 _ => sts s1 = sts s /\ owners s1 = owners s /\ next_real s1 = next_real s /\ next_pseudo s1 = next_pseudo s /\ next_o s1 = next_o s | UB _ => True end.
Lemma deff_of_sts_same {A} K (m : M A) s : sts_same m -> deff K m s.
Proof.
  intros H F e. specialize (H s e). destruct (m s e) as [a s1 e1|s1 e1|]; [| |done].
  all: destruct H as (H1 & H2 & H3 & H4 & H5); split; [intros k st Hk; rewrite H1; eauto|unfold sfresh in *; by rewrite H1, H2, H3, H4, H5].
Qed.
Lemma ss_mget : sts_same mget. Proof. intros s e. done. Qed.
Lemma ss_emit x : sts_same (emit x). Proof. intros s e. done. Qed.
Lemma ss_get_st k : sts_same (get_st k). Proof. intros s e. unfold get_st. by destruct (sts s !! k). Qed.
Lemma ss_get_h h : sts_same (get_h h). Proof. intros s e. unfold get_h. by destruct (hs s !! h). Qed.
Lemma ss_put_h h x : sts_same (put_h h x). Proof. intros s e. done. Qed.
Lemma ss_del_h h : sts_same (del_h h). Proof. intros s e. done. Qed.
Lemma ss_new_h x : sts_same (new_h x). Proof. intros s e. done. Qed.
Lemma ss_massert b : sts_same (massert b). Proof. intros s e. by destruct b. Qed.
Lemma ss_mcheck b w : sts_same (mcheck b w). Proof. intros s e. by destruct b. Qed.
Lemma ss_b_parts x : sts_same (b_parts x). Proof. intros s e. by destruct x. Qed.
Lemma ss_m_parts x : sts_same (m_parts x). Proof. intros s e. by destruct x. Qed.

Lemma sfresh_upd s s1 k st1 : sfresh s -> is_Some (sts s !! k) -> sts s1 = <[k := st1]> (sts s) -> owners s1 = owners s ->
  next_real s1 = next_real s -> next_pseudo s1 = next_pseudo s -> next_o s1 = next_o s -> sfresh s1.
Proof.
  intros (F1 & F2 & F3 & F4) Hk Hs Ho H1 H2 H3. unfold sfresh. rewrite Hs, Ho, H1, H2, H3. repeat split.
  - intros p H. apply F1. destruct (decide (xO p = k)) as [<-|Hne]; [done|]. by rewrite lookup_insert_ne in H.
  - intros p H. apply F2. destruct (decide (xI p = k)) as [<-|Hne]; [done|]. by rewrite lookup_insert_ne in H.
  - done.
  - destruct (decide (1%positive = k)) as [<-|Hne]; [destruct Hk as [? Hk]; by rewrite F4 in Hk|]. by rewrite lookup_insert_ne.
Qed.
(* replacing the entry of an existing storage by one with the same bytes (or of a storage in K by anything) *)
Lemma deff_put_st K k x x' s : sts s !! k = Some x -> (K k \/ s_data x' = s_data x) -> deff K (put_st k x') s.
Proof.
  intros Hk Hd F e. simpl. split.
  - intros k2 st2 Hk2. simpl. destruct (decide (k2 = k)) as [->|Hne].
    + rewrite lookup_insert. rewrite Hk in Hk2. injection Hk2 as <-. eauto.
    + rewrite lookup_insert_ne by done. eauto.
  - eapply sfresh_upd; eauto.
Qed.
Lemma deff_get_st {B} K k (f : storage -> M B) s : (forall x, sts s !! k = Some x -> deff K (f x) s) -> deff K (mbind (get_st k) f) s.
Proof.
  intros H F e. unfold mbind, get_st. destruct (sts s !! k) as [x|] eqn:E; [|done]. by apply H.
Qed.
Lemma deff_mget {B} K (f : hst -> M B) s : deff K (f s) s -> deff K (mbind mget f) s.
Proof. intros H F e. unfold mbind, mget. by apply H. Qed.

(* computations that leave the whole state alone: the continuation runs in the same state *)
Definition keeps {A} (m : M A) : Prop := forall s e, match m s e with OK _ s1 _ | PANIC s1 _ => s1 = s | UB _ => True end.
Lemma deff_bind_keeps {A B} K (m : M A) (f : A -> M B) s : keeps m -> (forall a, deff K (f a) s) -> deff K (mbind m f) s.
Proof.
  intros Hk Hf F e. unfold mbind. specialize (Hk s e). destruct (m s e) as [a s1 e1|s1 e1|]; [subst; by apply Hf| |done].
  subst. split; [apply dsame_refl|done].
Qed.
Lemma keeps_mcheck b w : keeps (mcheck b w). Proof. intros s e. by destruct b. Qed.
Lemma keeps_massert b : keeps (massert b). Proof. intros s e. by destruct b. Qed.
Lemma keeps_emit x : keeps (emit x). Proof. intros s e. done. Qed.
Lemma keeps_get_h h : keeps (get_h h). Proof. intros s e. unfold get_h. by destruct (hs s !! h). Qed.
Lemma keeps_ret {A} (a : A) : keeps (mret a). Proof. intros s e. done. Qed.
Lemma keeps_b_parts x : keeps (b_parts x). Proof. intros s e. by destruct x. Qed.
Lemma keeps_m_parts x : keeps (m_parts x). Proof. intros s e. by destruct x. Qed.
Lemma keeps_mread k o l : keeps (mread k o l).
Proof. intros s e. unfold mread, mbind, get_st, mcheck, mret. destruct (l =? 0); [done|]. destruct (sts s !! k); [|done]. destruct (s_live _); [|done]. simpl. by destruct (_ <=? _). Qed.
Create HintDb deff.
Ltac deff_step :=
  match goal with
  | |- deff _ (mbind (get_st _) _) _ => apply deff_get_st; intros
  | |- deff _ (mbind (mcheck _ _) _) _ => apply deff_bind_keeps; [apply keeps_mcheck|intros]
  | |- deff _ (mbind (massert _) _) _ => apply deff_bind_keeps; [apply keeps_massert|intros]
  | |- deff _ (mbind (emit _) _) _ => apply deff_bind_keeps; [apply keeps_emit|intros]
  | |- deff _ (mbind (get_h _) _) _ => apply deff_bind_keeps; [apply keeps_get_h|intros]
  | |- deff _ (mbind (mret _) _) _ => apply deff_bind_keeps; [apply keeps_ret|intros]
  | |- deff _ (mbind (b_parts _) _) _ => apply deff_bind_keeps; [apply keeps_b_parts|intros]
  | |- deff _ (mbind (m_parts _) _) _ => apply deff_bind_keeps; [apply keeps_m_parts|intros]
  | |- deff _ (mbind (mread _ _ _) _) _ => apply deff_bind_keeps; [apply keeps_mread|intros]
  | |- deff _ (mbind mget _) _ => apply deff_mget
  | |- deff _ (mbind _ _) _ => apply deff_bind; [|intros]
  | |- deff _ (mret _) _ => apply deff_ret
  | |- deff _ mpanic _ => apply deff_panic
  | |- deff _ (mub _) _ => apply deff_ub
  | |- deff _ (emit _) _ => apply deff_of_sts_same, ss_emit
  | |- deff _ (get_st _) _ => apply deff_of_sts_same, ss_get_st
  | |- deff _ (get_h _) _ => apply deff_of_sts_same, ss_get_h
  | |- deff _ (put_h _ _) _ => apply deff_of_sts_same, ss_put_h
  | |- deff _ (del_h _) _ => apply deff_of_sts_same, ss_del_h
  | |- deff _ (new_h _) _ => apply deff_of_sts_same, ss_new_h
  | |- deff _ (massert _) _ => apply deff_of_sts_same, ss_massert
  | |- deff _ (mcheck _ _) _ => apply deff_of_sts_same, ss_mcheck
  | |- deff _ (b_parts _) _ => apply deff_of_sts_same, ss_b_parts
  | |- deff _ (m_parts _) _ => apply deff_of_sts_same, ss_m_parts
  | |- deff _ mget _ => apply deff_of_sts_same, ss_mget
  | H : sts ?s !! ?k = Some ?x |- deff _ (put_st ?k _) ?s => eapply (deff_put_st _ k x _ s H); right; reflexivity
  | |- deff _ (if ?c then _ else _) _ => destruct c eqn:?
  | |- deff _ (match ?x with _ => _ end) _ => destruct x eqn:?
  | |- deff _ (let '(_, _) := ?p in _) _ => destruct p
  | H : forall s, deff ?K ?m s |- deff ?K ?m _ => apply H
  end.
Ltac deff_auto := repeat (deff_step || (progress eauto with deff)).

(* ---- primitives ---- *)
Lemma deff_upd_ctrl K k c s : deff K (upd_st k (with_ctrl c)) s.
Proof. unfold upd_st. deff_auto. Qed.
Lemma deff_inc_rc K k s : deff K (inc_rc k) s. Proof. unfold inc_rc. deff_auto. Qed.
Lemma deff_get_rc K k s : deff K (get_rc k) s. Proof. unfold get_rc. deff_auto. Qed.
Lemma deff_mread K k o l s : deff K (mread k o l) s. Proof. unfold mread. deff_auto. Qed.
Lemma deff_free_buf K k sz s : deff K (free_buf k sz) s. Proof. unfold free_buf. deff_auto. Qed.
Global Hint Resolve deff_upd_ctrl deff_inc_rc deff_get_rc deff_mread deff_free_buf : deff.
Lemma deff_drop_vec K k c s : deff K (drop_vec k c) s. Proof. unfold drop_vec. deff_auto. Qed.
Global Hint Resolve deff_drop_vec : deff.
Lemma deff_mput_owner K s o w w' : owners s !! o = Some w -> deff K (mput (set_owners (<[o := w']>) s)) s.
Proof.
  intros Ho (F1 & F2 & F3 & F4) e. simpl. split; [intros k st Hk; simpl; eauto|]. repeat split; simpl; try done.
  intros o2 [w2 H2]. apply F3. destruct (decide (o2 = o)) as [->|?]; [eauto|]. rewrite lookup_insert_ne in H2 by done. eauto.
Qed.
Lemma deff_release K k s : deff K (release k) s.
Proof.
  unfold release. apply deff_get_st. intros x Hx. destruct (s_ctrl x) eqn:Hc; try (apply deff_ub).
  - deff_auto.
  - deff_auto.
  - deff_auto.
  - apply deff_bind_keeps; [apply keeps_mcheck|intros _]. destruct (_ =? 1); [|deff_auto].
    apply deff_mget. destruct (owners s !! owner) as [w|] eqn:Ho; [|apply deff_ub].
    apply deff_bind_keeps; [apply keeps_mcheck|intros _].
    apply deff_bind; [by eapply deff_mput_owner|]. intros [] s1 e e1 E. injection E as <- _.
    apply deff_bind_keeps; [apply keeps_emit|intros _]. deff_auto.
Qed.
Global Hint Resolve deff_release : deff.
Lemma deff_alloc_buf K size init s : deff K (alloc_buf size init) s.
Proof.
  intros (F1 & F2 & F3 & F4) e. unfold alloc_buf, mbind, mget. destruct (size =? 0).
  - simpl. assert (sts s !! xI (next_pseudo s) = None) as Hfr.
    { destruct (sts s !! xI (next_pseudo s)) eqn:E; [|done]. assert (next_pseudo s < next_pseudo s)%positive by (apply F2; eauto). lia. }
    split.
    + intros k st Hk. simpl. rewrite lookup_insert_ne by (intros <-; congruence). eauto.
    + repeat split; simpl.
      * intros p [st Hp]. rewrite lookup_insert_ne in Hp by done. apply F1; eauto.
      * intros p [st Hp]. destruct (decide (p = next_pseudo s)) as [->|Hne]; [lia|]. rewrite lookup_insert_ne in Hp by congruence.
        assert (p < next_pseudo s)%positive by (apply F2; eauto). lia.
      * done.
      * by rewrite lookup_insert_ne.
  - destruct (isize_max <? size); [simpl; split; [apply dsame_refl|done]|]. simpl.
    assert (sts s !! xO (next_real s) = None) as Hfr.
    { destruct (sts s !! xO (next_real s)) eqn:E; [|done]. assert (next_real s < next_real s)%positive by (apply F1; eauto). lia. }
    split.
    + intros k st Hk. simpl. rewrite lookup_insert_ne by (intros <-; congruence). eauto.
    + repeat split; simpl.
      * intros p [st Hp]. destruct (decide (p = next_real s)) as [->|Hne]; [lia|]. rewrite lookup_insert_ne in Hp by congruence.
        assert (p < next_real s)%positive by (apply F1; eauto). lia.
      * intros p [st Hp]. rewrite lookup_insert_ne in Hp by done. apply F2; eauto.
      * done.
      * by rewrite lookup_insert_ne.
Qed.
Global Hint Resolve deff_alloc_buf : deff.
Lemma deff_mwrite (K : positive -> Prop) k o bs s : K k -> deff K (mwrite k o bs) s.
Proof.
  intros HK. unfold mwrite. destruct (lenN bs =? 0); [apply deff_ret|]. apply deff_get_st. intros x Hx.
  repeat (apply deff_bind_keeps; [apply keeps_mcheck|intros _]). eapply (deff_put_st _ k x _ s Hx). by left.
Qed.
Lemma deff_copy_to_front (K : positive -> Prop) k o l s : K k -> deff K (copy_to_front k o l) s.
Proof.
  intros HK. unfold copy_to_front. destruct (_ || _); [apply deff_ret|]. apply deff_bind_keeps; [apply keeps_mread|intros bs]. by apply deff_mwrite.
Qed.
Lemma deff_realloc_buf K orc k oldcap keep need s : deff K (realloc_buf orc k oldcap keep need) s.
Proof.
  unfold realloc_buf. destruct (isize_max <? need); [apply deff_panic|]. apply deff_get_st. intros x Hx. apply deff_mget.
  destruct (s_cls x) eqn:Hcl; try apply deff_ub.
  - (* heap *)
    repeat (apply deff_bind_keeps; [apply keeps_mcheck|intros _]).
    intros (F1 & F2 & F3 & F4) e. unfold mbind, mput, emit, mret. simpl.
    assert (sts s !! xO (next_real s) = None) as Hfr.
    { destruct (sts s !! xO (next_real s)) eqn:E; [|done]. assert (next_real s < next_real s)%positive by (apply F1; eauto). lia. }
    assert (xO (next_real s) <> k) as Hkk by (intros <-; congruence).
    split.
    + intros k2 st2 Hk2. simpl. rewrite lookup_insert_ne by (intros <-; congruence). destruct (decide (k2 = k)) as [->|Hne].
      * rewrite lookup_insert. rewrite Hx in Hk2. injection Hk2 as <-. eexists. split; [done|]. by right.
      * rewrite lookup_insert_ne by done. eauto.
    + repeat split; simpl.
      * intros p [st0 Hp]. destruct (decide (p = next_real s)) as [->|Hne]; [lia|]. rewrite lookup_insert_ne in Hp by congruence.
        assert (is_Some (sts s !! xO p)) as Hi. { destruct (decide (xO p = k)) as [<-|?]; [eauto|]. rewrite lookup_insert_ne in Hp by done. eauto. }
        assert (p < next_real s)%positive by (by apply F1). lia.
      * intros p [st0 Hp]. rewrite lookup_insert_ne in Hp by done. apply F2. destruct (decide (xI p = k)) as [<-|?]; [eauto|]. rewrite lookup_insert_ne in Hp by done. eauto.
      * done.
      * rewrite lookup_insert_ne by done. destruct (decide (1%positive = k)) as [<-|?]; [congruence|]. by rewrite lookup_insert_ne.
  - (* a zero-capacity Vec *)
    intros F e. unfold mbind.
    pose proof (deff_alloc_buf K (N.max (or_pick orc need) need) [] s F e) as Ha.
    destruct (alloc_buf _ _ s e) as [k' s1 e1|s1 e1|]; [|exact Ha|done]. destruct Ha as [D1 F1].
    pose proof (deff_upd_ctrl K k' (s_ctrl x) s1 F1 e1) as Hu.
    destruct (upd_st k' _ s1 e1) as [[] s2 e2|s2 e2|]; [|destruct Hu; split; [by eapply dsame_trans|done]|done]. destruct Hu as [D2 F2].
    pose proof (dsame_trans _ _ _ _ D1 D2) as D12. destruct (D12 k x Hx) as (x2 & Hx2 & Hd2).
    pose proof (deff_put_st K k x2 (with_ctrl CNone x) s2 Hx2) as Hp. simpl in Hp.
    assert (K k \/ s_data x = s_data x2) as Hd by (destruct Hd2; [by left|right; congruence]).
    specialize (Hp Hd F2 e2). unfold put_st, mret in *. simpl in *. destruct Hp as [D3 F3]. split; [by eapply dsame_trans|done].
Qed.
Global Hint Resolve deff_realloc_buf : deff.

(* ---- representation-level functions: they write at most the storage of the handle they are given ---- *)
Definition stor (x : handle) : option positive := match x with HB ko _ _ _ _ => ko | HM k _ _ _ _ => Some k | HV k _ _ => Some k end.
Ltac deff_k := match goal with HK : forall k, _ = Some k -> ?K k |- ?K ?k0 => apply HK; reflexivity end.
Ltac deff_step2 :=
  first [ deff_step
        | match goal with
          | |- deff _ (copy_to_front _ _ _) _ => apply deff_copy_to_front; deff_k
          | |- deff _ (mwrite _ _ _) _ => apply deff_mwrite; deff_k
          end ].
Ltac deff_auto2 := repeat (deff_step2 || (progress eauto with deff)).

Lemma deff_bytes_from_vec K k l c s : deff K (bytes_from_vec k l c) s. Proof. unfold bytes_from_vec. deff_auto. Qed.
Lemma deff_shallow_clone_arc K k o l s : deff K (shallow_clone_arc k o l) s. Proof. unfold shallow_clone_arc. deff_auto. Qed.
Global Hint Resolve deff_bytes_from_vec deff_shallow_clone_arc : deff.
Lemma deff_bytes_clone K h s : deff K (bytes_clone h) s. Proof. unfold bytes_clone. deff_auto. Qed.
Lemma deff_bytes_drop_rep K x s : deff K (bytes_drop_rep x) s. Proof. unfold bytes_drop_rep. deff_auto. Qed.
Lemma deff_to_vec K bs s : deff K (to_vec bs) s. Proof. unfold to_vec. deff_auto. Qed.
Lemma deff_bytes_contents K x s : deff K (bytes_contents x) s. Proof. unfold bytes_contents. deff_auto. Qed.
Global Hint Resolve deff_bytes_clone deff_bytes_drop_rep deff_to_vec deff_bytes_contents : deff.
Lemma deff_adv_unchecked K c x s : deff K (adv_unchecked c x) s. Proof. unfold adv_unchecked. deff_auto. Qed.
Global Hint Resolve deff_adv_unchecked : deff.
Lemma deff_shared_to_vec (K : positive -> Prop) k o l s : K k -> deff K (shared_to_vec k o l) s.
Proof. intros HK. assert (forall k0, Some k = Some k0 -> K k0) as HK' by (by intros ? [= <-]). unfold shared_to_vec. deff_auto2. Qed.
Lemma deff_shared_to_mut K k o l s : deff K (shared_to_mut k o l) s.
Proof. unfold shared_to_mut, from_vec. deff_auto. Qed.
Global Hint Resolve deff_shared_to_mut : deff.
Lemma deff_bytes_into_vec_rep (K : positive -> Prop) x s : (forall k, stor x = Some k -> K k) -> deff K (bytes_into_vec_rep x) s.
Proof.
  intros HK. unfold bytes_into_vec_rep. destruct x as [ko o l vt a| |]; try apply deff_ub. simpl in HK.
  destruct vt; destruct ko as [k|]; deff_auto2; try (apply deff_shared_to_vec; deff_k).
Qed.
Lemma deff_bytes_into_mut_rep K x s : deff K (bytes_into_mut_rep x) s.
Proof. unfold bytes_into_mut_rep, from_vec. deff_auto. Qed.
Lemma deff_bytes_is_unique_rep K x s : deff K (bytes_is_unique_rep x) s. Proof. unfold bytes_is_unique_rep. deff_auto. Qed.
Lemma deff_promote K rc x s : deff K (promote rc x) s. Proof. unfold promote. deff_auto. Qed.
Global Hint Resolve deff_bytes_into_mut_rep deff_bytes_is_unique_rep deff_promote : deff.
Lemma deff_m_shallow_clone K x s : deff K (m_shallow_clone x) s. Proof. unfold m_shallow_clone. deff_auto. Qed.
Lemma deff_m_drop_rep K x s : deff K (m_drop_rep x) s. Proof. unfold m_drop_rep. deff_auto. Qed.
Lemma deff_m_freeze_rep K x s : deff K (m_freeze_rep x) s. Proof. unfold m_freeze_rep. deff_auto. Qed.
Global Hint Resolve deff_m_shallow_clone deff_m_drop_rep deff_m_freeze_rep : deff.
Lemma deff_m_into_vec_rep (K : positive -> Prop) x s : (forall k, stor x = Some k -> K k) -> deff K (m_into_vec_rep x) s.
Proof. intros HK. unfold m_into_vec_rep. destruct x as [|k o l c kd|]; try apply deff_ub. simpl in HK. deff_auto2. Qed.
Lemma deff_reserve_inner (K : positive -> Prop) orc n al x s : (forall k, stor x = Some k -> K k) -> deff K (reserve_inner orc n al x) s.
Proof. intros HK. unfold reserve_inner. destruct x as [|k o l c kd|]; try apply deff_ub. simpl in HK. deff_auto2. Qed.
Lemma deff_m_reserve (K : positive -> Prop) orc n x s : (forall k, stor x = Some k -> K k) -> deff K (m_reserve orc n x) s.
Proof. intros HK. unfold m_reserve. destruct x as [|k o l c kd|]; try apply deff_ub. destruct (_ <=? _); [apply deff_ret|]. apply deff_bind; [by apply deff_reserve_inner|]. intros [x' b] ? ? ? _. apply deff_ret. Qed.
Lemma deff_m_try_reclaim (K : positive -> Prop) orc n x s : (forall k, stor x = Some k -> K k) -> deff K (m_try_reclaim orc n x) s.
Proof. intros HK. unfold m_try_reclaim. destruct x as [|k o l c kd|]; try apply deff_ub. destruct (_ <=? _); [apply deff_ret|]. by apply deff_reserve_inner. Qed.

(* ---- the storages an operation may write in place: those whose control block says "one holder" ---- *)
Definition K_sole (s : hst) (k : positive) : Prop :=
  exists st, sts s !! k = Some st /\ (s_ctrl st = CNone \/ (exists c, s_ctrl st = CShared c 1) \/ (exists v o, s_ctrl st = CSharedV v o 1)).
(* ... and only the storage of the handle the function is applied to *)
Definition Kx (s : hst) (x : handle) (k : positive) : Prop := holds x = Some k /\ K_sole s k.
Ltac ksole0 :=
  match goal with
  | Hx : sts ?s !! ?k = Some ?x, Hc : s_ctrl ?x = CNone |- K_sole ?s ?k => exists x; split; [exact Hx|]; left; exact Hc
  | Hx : sts ?s !! ?k = Some ?x, Hc : s_ctrl ?x = CShared ?c ?rc, E : (?rc =? 1) = true |- K_sole ?s ?k =>
      exists x; split; [exact Hx|]; right; left; exists c; rewrite Hc; f_equal; lia
  | Hx : sts ?s !! ?k = Some ?x, Hc : s_ctrl ?x = CSharedV ?v ?o ?rc, E : (?rc =? 1) = true |- K_sole ?s ?k =>
      exists x; split; [exact Hx|]; right; right; exists v, o; rewrite Hc; f_equal; lia
  end.
Ltac ksole := first [ksole0 | (unfold Kx; split; [first [reflexivity|eassumption]|ksole0])].
Ltac deff_step3 :=
  first [ deff_step
        | match goal with
          | |- deff _ (copy_to_front _ _ _) _ => apply deff_copy_to_front; ksole
          | |- deff _ (mwrite _ _ _) _ => apply deff_mwrite; ksole
          end ].
Ltac deff_auto3 := repeat (deff_step3 || (progress eauto with deff)).

Lemma deff_shared_to_vec_sole x k o l s : holds x = Some k -> deff (Kx s x) (shared_to_vec k o l) s.
Proof. intros Hst. unfold shared_to_vec. deff_auto3. Qed.
Lemma deff_bytes_into_vec_sole x s : typed (sts s) x -> deff (Kx s x) (bytes_into_vec_rep x) s.
Proof.
  intros Hty. unfold bytes_into_vec_rep. destruct x as [ko o l vt a| |]; try apply deff_ub.
  destruct vt; destruct ko as [k|]; simpl in Hty; try (apply deff_ub); try (by deff_auto3); try (by apply deff_shared_to_vec_sole).
  - destruct a; [by apply deff_shared_to_vec_sole|]. destruct Hty as (st & Hs & Hl & Hb & Hcl & Hc & He). deff_auto3.
  - destruct a; [by apply deff_shared_to_vec_sole|]. destruct Hty as (st & Hs & Hl & Hb & Hcl & Hc & He). deff_auto3.
Qed.
Lemma deff_m_into_vec_sole x s : typed (sts s) x -> deff (Kx s x) (m_into_vec_rep x) s.
Proof.
  intros Hty. unfold m_into_vec_rep. destruct x as [|k o l c [ocr|]|]; try apply deff_ub; simpl in Hty.
  - destruct Hty as (st & Hs & Hl & Hcl & Hc & Hcap & Hle). deff_auto3.
  - deff_auto3.
Qed.
(* reserve_inner moves the bytes to the front only when the handle is alone on its buffer *)
Lemma deff_reserve_inner_sole orc n al x s : typed (sts s) x -> deff (Kx s x) (reserve_inner orc n al x) s.
Proof.
  intros Hty. unfold reserve_inner. destruct x as [|k o l c [ocr|]|]; try apply deff_ub; simpl in Hty.
  - destruct Hty as (st & Hs & Hl & Hcl & Hc & Hcap & Hle). deff_auto3.
  - deff_auto3.
Qed.
Lemma deff_m_reserve_sole orc n x s : typed (sts s) x -> deff (Kx s x) (m_reserve orc n x) s.
Proof.
  intros Hty. unfold m_reserve. destruct x as [|k o l c kd|]; try apply deff_ub. destruct (_ <=? _); [apply deff_ret|].
  apply deff_bind; [by apply deff_reserve_inner_sole|]. intros [x' b] ? ? ? _. apply deff_ret.
Qed.
Lemma deff_m_try_reclaim_sole orc n x s : typed (sts s) x -> deff (Kx s x) (m_try_reclaim orc n x) s.
Proof.
  intros Hty. unfold m_try_reclaim. destruct x as [|k o l c kd|]; try apply deff_ub. destruct (_ <=? _); [apply deff_ret|]. by apply deff_reserve_inner_sole.
Qed.

(* ---- every storage's byte list has exactly the storage's size (needed to talk about positions) ---- *)
Definition dlen (s : hst) : Prop := forall k st, sts s !! k = Some st -> lenN (s_data st) = s_size st.
Definition leff {A} (m : M A) (s : hst) : Prop :=
  dlen s -> forall e, match m s e with OK _ s1 _ | PANIC s1 _ => dlen s1 | UB _ => True end.
Lemma leff_ret {A} (a : A) s : leff (mret a) s. Proof. intros D e. done. Qed.
Lemma leff_panic {A} s : leff (@mpanic A) s. Proof. intros D e. done. Qed.
Lemma leff_ub {A} w s : leff (@mub A w) s. Proof. intros D e. done. Qed.
Lemma leff_bind {A B} (m : M A) (f : A -> M B) s : leff m s -> (forall a s1 e e1, m s e = OK a s1 e1 -> leff (f a) s1) -> leff (mbind m f) s.
Proof.
  intros Hm Hf D e. unfold mbind. specialize (Hm D e). destruct (m s e) as [a s1 e1|s1 e1|wv] eqn:E; [|done|done]. by apply (Hf a s1 e e1 E Hm e1).
Qed.
Lemma leff_bind_keeps {A B} (m : M A) (f : A -> M B) s : keeps m -> (forall a, leff (f a) s) -> leff (mbind m f) s.
Proof. intros Hk Hf D e. unfold mbind. specialize (Hk s e). destruct (m s e) as [a s1 e1|s1 e1|]; [subst; by apply Hf|by subst|done]. Qed.
Lemma leff_of_sts_same {A} (m : M A) s : sts_same m -> leff m s.
Proof. intros H D e. specialize (H s e). destruct (m s e) as [a s1 e1|s1 e1|]; [| |done]; destruct H as (H1 & _); unfold dlen; by rewrite H1. Qed.
Lemma leff_put_st k x x' s : sts s !! k = Some x -> lenN (s_data x') = s_size x' -> leff (put_st k x') s.
Proof.
  intros Hk Hl D e. simpl. intros k2 st2. simpl. destruct (decide (k2 = k)) as [->|?]; [rewrite lookup_insert; by intros [= <-]|]. rewrite lookup_insert_ne by done. apply D.
Qed.
Lemma leff_get_st {B} k (f : storage -> M B) s : (forall x, sts s !! k = Some x -> lenN (s_data x) = s_size x -> leff (f x) s) -> leff (mbind (get_st k) f) s.
Proof. intros H D e. unfold mbind, get_st. destruct (sts s !! k) as [x|] eqn:E; [|done]. apply (H x eq_refl (D _ _ E) D e). Qed.
Lemma leff_mget {B} (f : hst -> M B) s : leff (f s) s -> leff (mbind mget f) s.
Proof. intros H D e. unfold mbind, mget. by apply H. Qed.
Create HintDb leff.
Ltac leff_step :=
  match goal with
  | |- leff (mbind (get_st _) _) _ => apply leff_get_st; intros
  | |- leff (mbind (mcheck _ _) _) _ => apply leff_bind_keeps; [apply keeps_mcheck|intros]
  | |- leff (mbind (massert _) _) _ => apply leff_bind_keeps; [apply keeps_massert|intros]
  | |- leff (mbind (emit _) _) _ => apply leff_bind_keeps; [apply keeps_emit|intros]
  | |- leff (mbind (get_h _) _) _ => apply leff_bind_keeps; [apply keeps_get_h|intros]
  | |- leff (mbind (mret _) _) _ => apply leff_bind_keeps; [apply keeps_ret|intros]
  | |- leff (mbind (b_parts _) _) _ => apply leff_bind_keeps; [apply keeps_b_parts|intros]
  | |- leff (mbind (m_parts _) _) _ => apply leff_bind_keeps; [apply keeps_m_parts|intros]
  | |- leff (mbind (mread _ _ _) _) _ => apply leff_bind_keeps; [apply keeps_mread|intros]
  | |- leff (mbind mget _) _ => apply leff_mget
  | |- leff (mbind _ _) _ => apply leff_bind; [|intros]
  | |- leff (mret _) _ => apply leff_ret
  | |- leff mpanic _ => apply leff_panic
  | |- leff (mub _) _ => apply leff_ub
  | |- leff (emit _) _ => apply leff_of_sts_same, ss_emit
  | |- leff (get_st _) _ => apply leff_of_sts_same, ss_get_st
  | |- leff (get_h _) _ => apply leff_of_sts_same, ss_get_h
  | |- leff (put_h _ _) _ => apply leff_of_sts_same, ss_put_h
  | |- leff (del_h _) _ => apply leff_of_sts_same, ss_del_h
  | |- leff (new_h _) _ => apply leff_of_sts_same, ss_new_h
  | |- leff (massert _) _ => apply leff_of_sts_same, ss_massert
  | |- leff (mcheck _ _) _ => apply leff_of_sts_same, ss_mcheck
  | |- leff (b_parts _) _ => apply leff_of_sts_same, ss_b_parts
  | |- leff (m_parts _) _ => apply leff_of_sts_same, ss_m_parts
  | |- leff mget _ => apply leff_of_sts_same, ss_mget
  | H : sts ?s !! ?k = Some ?x, Hl : lenN (s_data ?x) = s_size ?x |- leff (put_st ?k _) ?s => eapply (leff_put_st k x _ s H); exact Hl
  | |- leff (if ?c then _ else _) _ => destruct c eqn:?
  | |- leff (match ?x with _ => _ end) _ => destruct x eqn:?
  | |- leff (let '(_, _) := ?p in _) _ => destruct p
  end.
Ltac leff_auto := repeat (leff_step || (progress eauto with leff)).
Lemma leff_upd_ctrl k c s : leff (upd_st k (with_ctrl c)) s. Proof. unfold upd_st. leff_auto. Qed.
Lemma leff_inc_rc k s : leff (inc_rc k) s. Proof. unfold inc_rc. leff_auto. Qed.
Lemma leff_get_rc k s : leff (get_rc k) s. Proof. unfold get_rc. leff_auto. Qed.
Lemma leff_mread k o l s : leff (mread k o l) s. Proof. apply leff_of_sts_same. intros s0 e. pose proof (keeps_mread k o l s0 e) as H. destruct (mread k o l s0 e); try done; by subst. Qed.
Lemma leff_free_buf k sz s : leff (free_buf k sz) s. Proof. unfold free_buf. leff_auto. Qed.
Global Hint Resolve leff_upd_ctrl leff_inc_rc leff_get_rc leff_mread leff_free_buf : leff.
Lemma leff_drop_vec k c s : leff (drop_vec k c) s. Proof. unfold drop_vec. leff_auto. Qed.
Global Hint Resolve leff_drop_vec : leff.
Lemma lenN_repeat {A} (x : A) n : lenN (repeat x n) = N.of_nat n. Proof. unfold lenN. by rewrite repeat_length. Qed.
Lemma lenN_pad init size : lenN (pad init size) = size.
Proof. unfold pad. rewrite lenN_firstnN, lenN_app, lenN_repeat. lia. Qed.
Lemma lenN_wr_at d o bs : o + lenN bs <= lenN d -> lenN (wr_at d o bs) = lenN d.
Proof. intros H. unfold wr_at. rewrite !lenN_app, lenN_firstnN, lenN_skipN. lia. Qed.
Lemma leff_mwrite k o bs s : leff (mwrite k o bs) s.
Proof.
  intros D e. unfold mwrite. destruct (lenN bs =? 0); [done|]. unfold mbind, get_st. destruct (sts s !! k) as [x|] eqn:Hx; [|done].
  unfold mcheck. destruct (s_live x); [|done]. simpl. destruct (o + lenN bs <=? s_size x) eqn:E2; [|done]. simpl.
  destruct (match s_cls x with SHeap => true | _ => false end); [|done]. simpl.
  intros k2 st2. simpl. destruct (decide (k2 = k)) as [->|?]; [|rewrite lookup_insert_ne by done; apply D].
  rewrite lookup_insert. intros [= <-]. simpl. pose proof (D _ _ Hx). rewrite lenN_wr_at; [done|lia].
Qed.
Lemma leff_mput_owner s o w' : leff (mput (set_owners (<[o := w']>) s)) s.
Proof. intros D e. simpl. exact D. Qed.
Lemma leff_release k s : leff (release k) s.
Proof.
  unfold release. apply leff_get_st. intros x Hx Hl. destruct (s_ctrl x) eqn:Hc; try (apply leff_ub).
  - leff_auto.
  - leff_auto.
  - leff_auto.
  - apply leff_bind_keeps; [apply keeps_mcheck|intros _]. destruct (_ =? 1); [|leff_auto].
    apply leff_mget. destruct (owners s !! owner) as [w|] eqn:Ho; [|apply leff_ub].
    apply leff_bind_keeps; [apply keeps_mcheck|intros _].
    apply leff_bind; [apply leff_mput_owner|]. intros [] s1 e e1 E. injection E as <- _.
    apply leff_bind_keeps; [apply keeps_emit|intros _]. leff_auto.
Qed.
Global Hint Resolve leff_mwrite leff_release : leff.
Lemma leff_alloc_buf size init s : leff (alloc_buf size init) s.
Proof.
  intros D e. unfold alloc_buf, mbind, mget. destruct (size =? 0) eqn:Ez.
  - simpl. intros k st. simpl. destruct (decide (k = xI (next_pseudo s))) as [->|?]; [rewrite lookup_insert; intros [= <-]; simpl; by change (lenN (@nil byte)) with 0|].
    rewrite lookup_insert_ne by done. apply D.
  - destruct (isize_max <? size); [done|]. simpl. intros k st. simpl.
    destruct (decide (k = xO (next_real s))) as [->|?]; [rewrite lookup_insert; intros [= <-]; simpl; apply lenN_pad|]. rewrite lookup_insert_ne by done. apply D.
Qed.
Global Hint Resolve leff_alloc_buf : leff.
Lemma leff_realloc_buf orc k oldcap keep need s : leff (realloc_buf orc k oldcap keep need) s.
Proof.
  unfold realloc_buf. destruct (isize_max <? need); [apply leff_panic|]. apply leff_get_st. intros x Hx Hl. apply leff_mget.
  destruct (s_cls x) eqn:Hcl; try apply leff_ub.
  - repeat (apply leff_bind_keeps; [apply keeps_mcheck|intros _]).
    intros D e. unfold mbind, mput, emit, mret. simpl. intros k2 st2. simpl.
    destruct (decide (k2 = xO (next_real s))) as [->|?]; [rewrite lookup_insert; intros [= <-]; simpl; apply lenN_pad|]. rewrite lookup_insert_ne by done.
    destruct (decide (k2 = k)) as [->|?]; [rewrite lookup_insert; intros [= <-]; simpl; exact Hl|]. rewrite lookup_insert_ne by done. apply D.
  - apply leff_bind; [apply leff_alloc_buf|]. intros k' s1 e e1 Ea. apply leff_bind; [apply leff_upd_ctrl|]. intros [] s2 e2 e3 Eu.
    apply leff_bind; [|intros; apply leff_ret].
    intros D e4. simpl. intros k2 st2. simpl. destruct (decide (k2 = k)) as [->|?]; [rewrite lookup_insert; intros [= <-]; simpl; exact Hl|]. rewrite lookup_insert_ne by done. apply D.
Qed.
Global Hint Resolve leff_realloc_buf : leff.
Lemma leff_copy_to_front k o l s : leff (copy_to_front k o l) s. Proof. unfold copy_to_front. leff_auto. Qed.
Global Hint Resolve leff_copy_to_front : leff.
Lemma leff_bytes_from_vec k l c s : leff (bytes_from_vec k l c) s. Proof. unfold bytes_from_vec. leff_auto. Qed.
Lemma leff_shallow_clone_arc k o l s : leff (shallow_clone_arc k o l) s. Proof. unfold shallow_clone_arc. leff_auto. Qed.
Global Hint Resolve leff_bytes_from_vec leff_shallow_clone_arc : leff.
Lemma leff_bytes_clone h s : leff (bytes_clone h) s. Proof. unfold bytes_clone. leff_auto. Qed.
Lemma leff_bytes_drop_rep x s : leff (bytes_drop_rep x) s. Proof. unfold bytes_drop_rep. leff_auto. Qed.
Lemma leff_to_vec bs s : leff (to_vec bs) s. Proof. unfold to_vec. leff_auto. Qed.
Lemma leff_bytes_contents x s : leff (bytes_contents x) s. Proof. unfold bytes_contents. leff_auto. Qed.
Lemma leff_adv_unchecked c x s : leff (adv_unchecked c x) s. Proof. unfold adv_unchecked. leff_auto. Qed.
Global Hint Resolve leff_bytes_clone leff_bytes_drop_rep leff_to_vec leff_bytes_contents leff_adv_unchecked : leff.
Lemma leff_shared_to_vec k o l s : leff (shared_to_vec k o l) s. Proof. unfold shared_to_vec. leff_auto. Qed.
Lemma leff_shared_to_mut k o l s : leff (shared_to_mut k o l) s. Proof. unfold shared_to_mut, from_vec. leff_auto. Qed.
Global Hint Resolve leff_shared_to_vec leff_shared_to_mut : leff.
Lemma leff_bytes_into_vec_rep x s : leff (bytes_into_vec_rep x) s. Proof. unfold bytes_into_vec_rep. leff_auto. Qed.
Lemma leff_bytes_into_mut_rep x s : leff (bytes_into_mut_rep x) s. Proof. unfold bytes_into_mut_rep, from_vec. leff_auto. Qed.
Lemma leff_bytes_is_unique_rep x s : leff (bytes_is_unique_rep x) s. Proof. unfold bytes_is_unique_rep. leff_auto. Qed.
Lemma leff_promote rc x s : leff (promote rc x) s. Proof. unfold promote. leff_auto. Qed.
Global Hint Resolve leff_bytes_into_vec_rep leff_bytes_into_mut_rep leff_bytes_is_unique_rep leff_promote : leff.
Lemma leff_m_shallow_clone x s : leff (m_shallow_clone x) s. Proof. unfold m_shallow_clone. leff_auto. Qed.
Lemma leff_m_drop_rep x s : leff (m_drop_rep x) s. Proof. unfold m_drop_rep. leff_auto. Qed.
Lemma leff_m_freeze_rep x s : leff (m_freeze_rep x) s. Proof. unfold m_freeze_rep. leff_auto. Qed.
Lemma leff_m_into_vec_rep x s : leff (m_into_vec_rep x) s. Proof. unfold m_into_vec_rep. leff_auto. Qed.
Lemma leff_reserve_inner orc n al x s : leff (reserve_inner orc n al x) s. Proof. unfold reserve_inner. leff_auto. Qed.
Global Hint Resolve leff_m_shallow_clone leff_m_drop_rep leff_m_freeze_rep leff_m_into_vec_rep leff_reserve_inner : leff.
Lemma leff_m_reserve orc n x s : leff (m_reserve orc n x) s. Proof. unfold m_reserve. leff_auto. Qed.
Lemma leff_m_try_reclaim orc n x s : leff (m_try_reclaim orc n x) s. Proof. unfold m_try_reclaim. leff_auto. Qed.
Global Hint Resolve leff_m_reserve leff_m_try_reclaim : leff.
Lemma leff_m_extend orc bs x s : leff (m_extend orc bs x) s. Proof. unfold m_extend. leff_auto. Qed.
Global Hint Resolve leff_m_extend : leff.

(* ---- dlen is an invariant of every operation ---- *)
Lemma leff_bytes_slice h b e s : leff (bytes_slice h b e) s. Proof. unfold bytes_slice. leff_auto. Qed.
Lemma leff_bytes_split_off_core h a s : leff (bytes_split_off_core h a) s. Proof. unfold bytes_split_off_core, empty_with_ptr. leff_auto. Qed.
Global Hint Resolve leff_bytes_slice leff_bytes_split_off_core : leff.
Lemma leff_bytes_split_off h a s : leff (bytes_split_off h a) s. Proof. unfold bytes_split_off. leff_auto. Qed.
Lemma leff_bytes_split_to h a s : leff (bytes_split_to h a) s. Proof. unfold bytes_split_to, empty_with_ptr. leff_auto. Qed.
Lemma leff_bytes_truncate h l s : leff (bytes_truncate h l) s. Proof. unfold bytes_truncate. leff_auto. Qed.
Lemma leff_m_split_off h a s : leff (m_split_off h a) s. Proof. unfold m_split_off. leff_auto. Qed.
Lemma leff_m_split_to h a s : leff (m_split_to h a) s. Proof. unfold m_split_to. leff_auto. Qed.
Global Hint Resolve leff_bytes_split_off leff_bytes_split_to leff_bytes_truncate leff_m_split_off leff_m_split_to : leff.
Lemma leff_extend_loop orc h d : forall (acc : M unit) s, leff acc s ->
  leff (fold_left (fun (acc : M unit) b => acc;; let! y := get_h h in let! y1 := m_extend orc [b] y in put_h h y1) d acc) s.
Proof.
  induction d as [|b d IH]; intros acc s Hacc; simpl; [done|]. apply IH. apply leff_bind; [done|]. intros. leff_auto.
Qed.
Lemma leff_hstep orc o s : leff (hstep orc o) s.
Proof.
  destruct o; cbn [hstep]; try (by leff_auto).
  - (* from_static *)
    apply leff_mget. apply leff_bind; [|intros; leff_auto]. destruct (lenN d =? 0); [apply leff_ret|].
    intros D e. simpl. intros k st. simpl. destruct (decide (k = xO (next_real s))) as [->|?]; [rewrite lookup_insert; by intros [= <-]|]. rewrite lookup_insert_ne by done. apply D.
  - (* from_owner *)
    apply leff_mget. apply leff_bind.
    { intros D e. simpl. intros k st. simpl. match goal with |- <[?k0 := _]> _ !! _ = _ -> _ => destruct (decide (k = k0)) as [->|?] end; [rewrite lookup_insert; by intros [= <-]|]. rewrite lookup_insert_ne by done. apply D. }
    intros [] s1 e e1 _. apply leff_bind; [destruct (lenN d =? 0); leff_auto|]. intros. apply leff_bind_keeps; [apply keeps_emit|intros _].
    apply leff_mget. destruct (owners _ !! _); [|leff_auto]. apply leff_bind; [apply leff_bind; [apply leff_mput_owner|intros; leff_auto]|]. intros. destruct panics; leff_auto.
  - (* extend from an iterator *)
    apply leff_bind_keeps; [apply keeps_get_h|intros x]. apply leff_bind; [leff_auto|]. intros. apply leff_bind; [leff_auto|]. intros.
    apply leff_bind; [apply leff_extend_loop; apply leff_ret|intros; leff_auto].
Qed.

(* ---- what a handle reads ---- *)
Definition view (sm : smap) (x : handle) : list byte :=
  match x with
  | HB (Some k) o l _ _ | HM k o l _ _ => match sm !! k with Some st => rd (s_data st) o l | None => [] end
  | HV k l _ => match sm !! k with Some st => rd (s_data st) 0 l | None => [] end
  | HB None _ _ _ _ => []
  end.
Lemma rd_zero d o : rd d o 0 = []. Proof. unfold rd. by rewrite firstnN_0. Qed.
(* a typed handle's storage exists unless the handle is empty *)
Lemma view_dsame (K : positive -> Prop) s s1 x : dsame K s s1 -> typed (sts s) x -> (forall k, uses x = Some k -> ~ K k) -> view (sts s1) x = view (sts s) x.
Proof.
  intros D Hty HK.
  assert (forall k o l, (l = 0 \/ (~ K k /\ exists st, sts s !! k = Some st)) ->
            match sts s1 !! k with Some st => rd (s_data st) o l | None => [] end = match sts s !! k with Some st => rd (s_data st) o l | None => [] end) as Hgen.
  { intros k o l [-> |[HKk [st Hs]]].
    - destruct (sts s1 !! k), (sts s !! k); by rewrite ?rd_zero.
    - destruct (D k st Hs) as (st1 & Hs1 & [?|Hd]); [done|]. by rewrite Hs, Hs1, Hd. }
  destruct x as [[k|] o l vt a|k o l c kd|k l c]; simpl in *; try done.
  - apply Hgen. destruct vt; simpl in Hty, HK; try (destruct Hty as (st & Hs & _); right; split; [by apply HK|eauto]).
    destruct (l =? 0) eqn:E; [left; lia|]. destruct Hty as [-> |(st & Hs & _)]; [by left|right; split; [by apply HK|eauto]].
  - apply Hgen. destruct kd; simpl in Hty; destruct Hty as (st & Hs & _); right; (split; [by apply HK|eauto]).
  - apply Hgen. destruct Hty as (st & Hs & _); right; (split; [by apply HK|eauto]).
Qed.

(* reads away from a write *)
Lemma rd_wr_at_disj d a bs o l : a + lenN bs <= lenN d -> (o + l <= a \/ a + lenN bs <= o \/ l = 0) -> rd (wr_at d a bs) o l = rd d o l.
Proof.
  intros Hb [H|[H| ->]]; [| |by rewrite !rd_zero]; unfold rd, wr_at.
  - (* the read lies before the write *)
    rewrite skipN_app_le by (rewrite lenN_firstnN; lia). rewrite firstnN_app_le by (rewrite lenN_skipN, lenN_firstnN; lia).
    rewrite skipN_firstnN. rewrite firstnN_firstnN. f_equal. lia.
  - (* the read lies behind the write *)
    rewrite skipN_app_ge by (rewrite lenN_firstnN; lia). rewrite lenN_firstnN. rewrite skipN_app_ge by lia.
    rewrite skipN_skipN. do 2 f_equal. lia.
Qed.

(* ---- operations: which storages may have their bytes changed ---- *)
Lemma deff_get_h {B} K h (f : handle -> M B) s : (forall x, hs s !! h = Some x -> deff K (f x) s) -> deff K (mbind (get_h h) f) s.
Proof. intros H F e. unfold mbind, get_h. destruct (hs s !! h) as [x|] eqn:E; [|done]. by apply H. Qed.
Lemma deff_bytes_slice K h b e s : deff K (bytes_slice h b e) s. Proof. unfold bytes_slice. deff_auto. Qed.
Lemma deff_bytes_split_off_core K h a s : deff K (bytes_split_off_core h a) s. Proof. unfold bytes_split_off_core, empty_with_ptr. deff_auto. Qed.
Global Hint Resolve deff_bytes_slice deff_bytes_split_off_core : deff.
Lemma deff_bytes_split_off K h a s : deff K (bytes_split_off h a) s. Proof. unfold bytes_split_off. deff_auto. Qed.
Lemma deff_bytes_split_to K h a s : deff K (bytes_split_to h a) s. Proof. unfold bytes_split_to, empty_with_ptr. deff_auto. Qed.
Lemma deff_bytes_truncate K h l s : deff K (bytes_truncate h l) s. Proof. unfold bytes_truncate. deff_auto. Qed.
Lemma deff_m_split_off K h a s : deff K (m_split_off h a) s. Proof. unfold m_split_off. deff_auto. Qed.
Lemma deff_m_split_to K h a s : deff K (m_split_to h a) s. Proof. unfold m_split_to. deff_auto. Qed.
Global Hint Resolve deff_bytes_split_off deff_bytes_split_to deff_bytes_truncate deff_m_split_off deff_m_split_to : deff.

(* the handles an operation is applied to *)
Definition tch (o : op) (h' : positive) : Prop :=
  match o with
  | OBNew | OBFromStatic _ | OBFromVec _ _ | OBFromOwner _ _ | OMNew | OMWithCapacity _ | OMZeroed _ | OMFromSlice _ => False
  | OBClone h | OBSlice h _ _ | OBSliceIncl h _ _ | OBSliceRef h _ | OBSplitOff h _ | OBSplitTo h _ | OBTruncate h _ | OBClear h | OBAdvance h _
  | OBIsUnique h | OBTryIntoMut h | OBIntoMut h | OBIntoVec h | OBDrop h
  | OMSplitOff h _ | OMSplitTo h _ | OMSplit h | OMTruncate h _ | OMClear h | OMResize h _ _ | OMReserve h _ | OMTryReclaim h _ | OMExtend h _ | OMExtendIter h _ _
  | OMWrite h _ _ | OMFreeze h | OMIntoVec h | OMAdvance h _ | OMClone h | OMDrop h | OVIntoBytes h | OVDrop h => h' = h
  | OMUnsplit h o2 => h' = h \/ h' = o2
  end.
Lemma deff_weaken {A} (K K' : positive -> Prop) (m : M A) s : (forall k, K k -> K' k) -> deff K m s -> deff K' m s.
Proof. intros HK H F e. specialize (H F e). destruct (m s e); try done; destruct H; (split; [by eapply dsame_weaken|done]). Qed.
(* the operations that write through a BytesMut's own window are treated separately below *)
Definition hm_writer (o : op) : bool :=
  match o with OMWrite _ _ _ | OMExtend _ _ | OMExtendIter _ _ _ | OMResize _ _ _ | OMUnsplit _ _ => true | _ => false end.
Lemma deff_hstep_sole orc o s : WF s -> op_ok s o -> hm_writer o = false -> deff (fun k => exists h x, tch o h /\ hs s !! h = Some x /\ Kx s x k) (hstep orc o) s.
Proof.
  intros [L Hf] Hok Hw. destruct o; try discriminate Hw; cbn [hstep]; try (by deff_auto).
  - (* from_static *)
    apply deff_mget. apply deff_bind; [|intros; deff_auto]. destruct (lenN d =? 0); [apply deff_ret|].
    intros (F1 & F2 & F3 & F4) e. simpl.
    assert (sts s !! xO (next_real s) = None) as Hfr.
    { destruct (sts s !! xO (next_real s)) eqn:E; [|done]. assert (next_real s < next_real s)%positive by (apply F1; eauto). lia. }
    split.
    + intros k st Hk. simpl. rewrite lookup_insert_ne by (intros <-; congruence). eauto.
    + repeat split; simpl.
      * intros p [st Hp]. destruct (decide (p = next_real s)) as [->|Hne]; [lia|]. rewrite lookup_insert_ne in Hp by congruence. assert (p < next_real s)%positive by (apply F1; eauto). lia.
      * intros p [st Hp]. rewrite lookup_insert_ne in Hp by done. apply F2; eauto.
      * done.
      * by rewrite lookup_insert_ne.
  - (* from_owner *)
    apply deff_mget. apply deff_bind.
    { intros (F1 & F2 & F3 & F4) e. simpl.
      set (k := if lenN d =? 0 then xI (next_pseudo s) else xO (next_real s)).
      assert (sts s !! k = None) as Hfr.
      { unfold k. destruct (lenN d =? 0).
        - destruct (sts s !! xI (next_pseudo s)) eqn:E; [|done]. assert (next_pseudo s < next_pseudo s)%positive by (apply F2; eauto). lia.
        - destruct (sts s !! xO (next_real s)) eqn:E; [|done]. assert (next_real s < next_real s)%positive by (apply F1; eauto). lia. }
      split.
      - intros k2 st Hk. simpl. rewrite lookup_insert_ne by (intros <-; congruence). eauto.
      - repeat split; simpl.
        + intros p [st Hp]. unfold k in Hp. destruct (lenN d =? 0).
          * rewrite lookup_insert_ne in Hp by done. apply F1; eauto.
          * destruct (decide (p = next_real s)) as [->|Hne]; [lia|]. rewrite lookup_insert_ne in Hp by congruence. assert (p < next_real s)%positive by (apply F1; eauto). lia.
        + intros p [st Hp]. unfold k in Hp. destruct (lenN d =? 0).
          * destruct (decide (p = next_pseudo s)) as [->|Hne]; [lia|]. rewrite lookup_insert_ne in Hp by congruence. assert (p < next_pseudo s)%positive by (apply F2; eauto). lia.
          * rewrite lookup_insert_ne in Hp by done. apply F2; eauto.
        + intros o2 [w2 Ho2]. destruct (decide (o2 = next_o s)) as [->|Hne]; [lia|]. rewrite lookup_insert_ne in Ho2 by done. assert (o2 < next_o s)%positive by (apply F3; eauto). lia.
        + unfold k. destruct (lenN d =? 0); by rewrite lookup_insert_ne. }
    intros [] s1 e e1 _. apply deff_bind; [destruct (lenN d =? 0); deff_auto|]. intros. apply deff_bind_keeps; [apply keeps_emit|intros _].
    apply deff_mget. destruct (owners _ !! _) eqn:Ho; [|deff_auto]. apply deff_bind; [apply deff_bind; [by eapply deff_mput_owner|intros; deff_auto]|]. intros. destruct panics; deff_auto.
  - (* into_vec *)
    destruct Hok as (ko & ofs & len & vt & arc & Hx). apply deff_get_h. intros x0 Hx0. rewrite Hx in Hx0. injection Hx0 as <-.
    apply deff_bind; [eapply deff_weaken; [|apply deff_bytes_into_vec_sole; by eapply (lwf_typed _ _ L)]; intros k0 Hk0; eexists _, _; split; [|split; [exact Hx|exact Hk0]]; simpl; done|intros; deff_auto].
  - (* reserve *)
    destruct Hok as (k & ofs & len & cap & kd & Hx). apply deff_get_h. intros x0 Hx0. rewrite Hx in Hx0. injection Hx0 as <-.
    apply deff_bind; [eapply deff_weaken; [|apply deff_m_reserve_sole; by eapply (lwf_typed _ _ L)]; intros k0 Hk0; eexists _, _; split; [|split; [exact Hx|exact Hk0]]; simpl; done|intros; deff_auto].
  - destruct Hok as (k & ofs & len & cap & kd & Hx). apply deff_get_h. intros x0 Hx0. rewrite Hx in Hx0. injection Hx0 as <-.
    apply deff_bind; [eapply deff_weaken; [|apply deff_m_try_reclaim_sole; by eapply (lwf_typed _ _ L)]; intros k0 Hk0; eexists _, _; split; [|split; [exact Hx|exact Hk0]]; simpl; done|intros [? ?]; intros; deff_auto].
  - destruct Hok as (k & ofs & len & cap & kd & Hx). apply deff_get_h. intros x0 Hx0. rewrite Hx in Hx0. injection Hx0 as <-.
    apply deff_bind; [eapply deff_weaken; [|apply deff_m_into_vec_sole; by eapply (lwf_typed _ _ L)]; intros k0 Hk0; eexists _, _; split; [|split; [exact Hx|exact Hk0]]; simpl; done|intros; deff_auto].
Qed.

(* ---- handles: an operation changes only the handles it is applied to (and creates new ones under new keys) ---- *)
Definition hfreshT (T : positive -> Prop) (s : hst) : Prop := forall h, is_Some (hs s !! h) -> T h \/ (h < next_h s)%positive.
Definition hrel (T : positive -> Prop) (s s1 : hst) : Prop :=
  (forall h, ~ T h -> is_Some (hs s !! h) -> hs s1 !! h = hs s !! h) /\ hfreshT T s1 /\ (next_h s <= next_h s1)%positive.
Definition heff {A} (T : positive -> Prop) (m : M A) (s : hst) : Prop :=
  hfreshT T s -> forall e, match m s e with OK _ s1 _ | PANIC s1 _ => hrel T s s1 | UB _ => True end.
Lemma hrel_refl T s : hfreshT T s -> hrel T s s. Proof. intros F. split; [done|split; [done|lia]]. Qed.
Lemma hrel_trans T s s1 s2 : hrel T s s1 -> hrel T s1 s2 -> hrel T s s2.
Proof.
  intros (A1 & F1 & N1) (A2 & F2 & N2). split; [|split; [done|lia]]. intros h HT Hh. rewrite A2; [by apply A1|done|]. rewrite A1 by done. done.
Qed.
Lemma heff_ret {A} T (a : A) s : heff T (mret a) s. Proof. intros F e. by apply hrel_refl. Qed.
Lemma heff_panic {A} T s : heff T (@mpanic A) s. Proof. intros F e. by apply hrel_refl. Qed.
Lemma heff_ub {A} T w s : heff T (@mub A w) s. Proof. intros F e. done. Qed.
Lemma heff_bind {A B} T (m : M A) (f : A -> M B) s : heff T m s -> (forall a s1 e e1, m s e = OK a s1 e1 -> heff T (f a) s1) -> heff T (mbind m f) s.
Proof.
  intros Hm Hf F e. unfold mbind. specialize (Hm F e). destruct (m s e) as [a s1 e1|s1 e1|wv] eqn:E; [|done|done].
  pose proof Hm as (_ & F1 & _). specialize (Hf a s1 e e1 E F1 e1). destruct (f a s1 e1) as [b s2 e2|s2 e2|wv]; [| |done]; by eapply hrel_trans.
Qed.
Lemma heff_bind_keeps {A B} T (m : M A) (f : A -> M B) s : keeps m -> (forall a, heff T (f a) s) -> heff T (mbind m f) s.
Proof.
  intros Hk Hf F e. unfold mbind. specialize (Hk s e). destruct (m s e) as [a s1 e1|s1 e1|]; [subst; by apply Hf|subst; by apply hrel_refl|done].
Qed.
(* computations that leave the handle table alone *)
Definition hs_same {A} (m : M A) : Prop := forall s e, match m s e with OK _ s1 _ | PANIC s1 _ => hs s1 = hs s /\ next_h s1 = next_h s | UB _ => True end.
Lemma heff_of_hs_same {A} T (m : M A) s : hs_same m -> heff T m s.
Proof.
  intros H F e. specialize (H s e). destruct (m s e) as [a s1 e1|s1 e1|]; [| |done]; destruct H as [H1 H2]; (split; [intros; by rewrite H1|split; [unfold hfreshT; by rewrite H1, H2|lia]]).
Qed.
Lemma hs_put_st k x : hs_same (put_st k x). Proof. intros s e. done. Qed.
Lemma hs_emit x : hs_same (emit x). Proof. intros s e. done. Qed.
Lemma hs_get_st k : hs_same (get_st k). Proof. intros s e. unfold get_st. by destruct (sts s !! k). Qed.
Lemma hs_mcheck b w : hs_same (mcheck b w). Proof. intros s e. by destruct b. Qed.
Lemma hs_massert b : hs_same (massert b). Proof. intros s e. by destruct b. Qed.
Lemma hs_mget : hs_same mget. Proof. intros s e. done. Qed.
Lemma hs_get_h h : hs_same (get_h h). Proof. intros s e. unfold get_h. by destruct (hs s !! h). Qed.
Lemma keeps_get_st k : keeps (get_st k). Proof. intros s e. unfold get_st. by destruct (sts s !! k). Qed.
Lemma heff_mget {B} T (f : hst -> M B) s : heff T (f s) s -> heff T (mbind mget f) s.
Proof. intros H F e. unfold mbind, mget. by apply H. Qed.
Lemma heff_mput T s s' : hs s' = hs s -> next_h s' = next_h s -> heff T (mput s') s.
Proof. intros H1 H2 F e. simpl. split; [intros; by rewrite H1|split; [unfold hfreshT; by rewrite H1, H2|lia]]. Qed.
Lemma heff_put_h (T : positive -> Prop) h x s : T h -> heff T (put_h h x) s.
Proof.
  intros HT F e. simpl. split; [|split; [|simpl; lia]].
  - intros h' HT' _. simpl. rewrite lookup_insert_ne; [done|]. by intros <-.
  - intros h' [y Hy]. simpl in *. destruct (decide (h' = h)) as [->|?]; [by left|]. rewrite lookup_insert_ne in Hy by done. apply F; eauto.
Qed.
Lemma heff_del_h (T : positive -> Prop) h s : T h -> heff T (del_h h) s.
Proof.
  intros HT F e. simpl. split; [|split; [|simpl; lia]].
  - intros h' HT' _. simpl. rewrite lookup_delete_ne; [done|]. by intros <-.
  - intros h' [y Hy]. simpl in *. apply lookup_delete_Some in Hy as [? Hy]. apply F; eauto.
Qed.
Lemma heff_new_h T x s : heff T (new_h x) s.
Proof.
  intros F e. simpl. split; [|split; [|simpl; lia]].
  - intros h' HT' Hh. simpl. rewrite lookup_insert_ne; [done|]. intros <-. destruct (F _ Hh) as [?|?]; [done|lia].
  - intros h' [y Hy]. simpl in *. destruct (decide (h' = next_h s)) as [->|?]; [right; lia|]. rewrite lookup_insert_ne in Hy by done. destruct (F h') as [?|?]; [eauto|by left|right; lia].
Qed.
Create HintDb heff.
Ltac heff_step :=
  match goal with
  | |- heff _ (mbind (get_st _) _) _ => apply heff_bind_keeps; [apply keeps_get_st|intros]
  | |- heff _ (mbind (mcheck _ _) _) _ => apply heff_bind_keeps; [apply keeps_mcheck|intros]
  | |- heff _ (mbind (massert _) _) _ => apply heff_bind_keeps; [apply keeps_massert|intros]
  | |- heff _ (mbind (emit _) _) _ => apply heff_bind_keeps; [apply keeps_emit|intros]
  | |- heff _ (mbind (mret _) _) _ => apply heff_bind_keeps; [apply keeps_ret|intros]
  | |- heff _ (mbind (b_parts _) _) _ => apply heff_bind_keeps; [apply keeps_b_parts|intros]
  | |- heff _ (mbind (m_parts _) _) _ => apply heff_bind_keeps; [apply keeps_m_parts|intros]
  | |- heff _ (mbind (mread _ _ _) _) _ => apply heff_bind_keeps; [apply keeps_mread|intros]
  | |- heff _ (mbind mget _) _ => apply heff_mget
  | |- heff _ (mbind _ _) _ => apply heff_bind; [|intros]
  | |- heff _ (mret _) _ => apply heff_ret
  | |- heff _ mpanic _ => apply heff_panic
  | |- heff _ (mub _) _ => apply heff_ub
  | |- heff _ (emit _) _ => apply heff_of_hs_same, hs_emit
  | |- heff _ (get_st _) _ => apply heff_of_hs_same, hs_get_st
  | |- heff _ (put_st _ _) _ => apply heff_of_hs_same, hs_put_st
  | |- heff _ (get_h _) _ => apply heff_of_hs_same, hs_get_h
  | |- heff _ (massert _) _ => apply heff_of_hs_same, hs_massert
  | |- heff _ (mcheck _ _) _ => apply heff_of_hs_same, hs_mcheck
  | |- heff _ mget _ => apply heff_of_hs_same, hs_mget
  | |- heff _ (mput _) _ => apply heff_mput; reflexivity
  | |- heff _ (new_h _) _ => apply heff_new_h
  | |- heff _ (if ?c then _ else _) _ => destruct c eqn:?
  | |- heff _ (match ?x with _ => _ end) _ => destruct x eqn:?
  | |- heff _ (let '(_, _) := ?p in _) _ => destruct p
  end.
Ltac heff_auto := repeat (heff_step || (progress eauto with heff)).
Lemma heff_upd_st T k f s : heff T (upd_st k f) s. Proof. unfold upd_st. heff_auto. Qed.
Lemma heff_inc_rc T k s : heff T (inc_rc k) s. Proof. unfold inc_rc. heff_auto. Qed.
Lemma heff_get_rc T k s : heff T (get_rc k) s. Proof. unfold get_rc. heff_auto. Qed.
Lemma heff_mread T k o l s : heff T (mread k o l) s. Proof. unfold mread. heff_auto. Qed.
Lemma heff_mwrite T k o bs s : heff T (mwrite k o bs) s. Proof. unfold mwrite. heff_auto. Qed.
Lemma heff_free_buf T k sz s : heff T (free_buf k sz) s. Proof. unfold free_buf. heff_auto. Qed.
Global Hint Resolve heff_upd_st heff_inc_rc heff_get_rc heff_mread heff_mwrite heff_free_buf : heff.
Lemma heff_drop_vec T k c s : heff T (drop_vec k c) s. Proof. unfold drop_vec. heff_auto. Qed.
Lemma heff_alloc_buf T sz i s : heff T (alloc_buf sz i) s. Proof. unfold alloc_buf. heff_auto. Qed.
Global Hint Resolve heff_drop_vec heff_alloc_buf : heff.
Lemma heff_release T k s : heff T (release k) s.
Proof. unfold release. heff_auto. all: try (apply heff_mput; reflexivity). Qed.
Lemma heff_realloc_buf T orc k oc kp nd s : heff T (realloc_buf orc k oc kp nd) s. Proof. unfold realloc_buf. heff_auto. Qed.
Lemma heff_copy_to_front T k o l s : heff T (copy_to_front k o l) s. Proof. unfold copy_to_front. heff_auto. Qed.
Global Hint Resolve heff_release heff_realloc_buf heff_copy_to_front : heff.
Ltac heff_step2 :=
  first [ heff_step
        | match goal with
          | |- heff _ (put_h _ _) _ => apply heff_put_h; solve [simpl; auto]
          | |- heff _ (del_h _) _ => apply heff_del_h; solve [simpl; auto]
          end ].
Ltac heff_auto2 := repeat (heff_step2 || (progress eauto with heff)).
Lemma heff_bytes_from_vec T k l c s : heff T (bytes_from_vec k l c) s. Proof. unfold bytes_from_vec. heff_auto. Qed.
Lemma heff_shallow_clone_arc T k o l s : heff T (shallow_clone_arc k o l) s. Proof. unfold shallow_clone_arc. heff_auto. Qed.
Global Hint Resolve heff_bytes_from_vec heff_shallow_clone_arc : heff.
Lemma heff_bytes_clone (T : positive -> Prop) h s : T h -> heff T (bytes_clone h) s.
Proof. intros HT. unfold bytes_clone. heff_auto2. Qed.
Lemma heff_bytes_drop_rep T x s : heff T (bytes_drop_rep x) s. Proof. unfold bytes_drop_rep. heff_auto. Qed.
Lemma heff_to_vec T bs s : heff T (to_vec bs) s. Proof. unfold to_vec. heff_auto. Qed.
Lemma heff_bytes_contents T x s : heff T (bytes_contents x) s. Proof. unfold bytes_contents. heff_auto. Qed.
Lemma heff_adv_unchecked T c x s : heff T (adv_unchecked c x) s. Proof. unfold adv_unchecked. heff_auto. Qed.
Global Hint Resolve heff_bytes_drop_rep heff_to_vec heff_bytes_contents heff_adv_unchecked : heff.
Lemma heff_shared_to_vec T k o l s : heff T (shared_to_vec k o l) s. Proof. unfold shared_to_vec. heff_auto. Qed.
Lemma heff_shared_to_mut T k o l s : heff T (shared_to_mut k o l) s. Proof. unfold shared_to_mut, from_vec. heff_auto. Qed.
Global Hint Resolve heff_shared_to_vec heff_shared_to_mut : heff.
Lemma heff_bytes_into_vec_rep T x s : heff T (bytes_into_vec_rep x) s. Proof. unfold bytes_into_vec_rep. heff_auto. Qed.
Lemma heff_bytes_into_mut_rep T x s : heff T (bytes_into_mut_rep x) s. Proof. unfold bytes_into_mut_rep, from_vec. heff_auto. Qed.
Lemma heff_bytes_is_unique_rep T x s : heff T (bytes_is_unique_rep x) s. Proof. unfold bytes_is_unique_rep. heff_auto. Qed.
Lemma heff_promote T rc x s : heff T (promote rc x) s. Proof. unfold promote. heff_auto. Qed.
Global Hint Resolve heff_bytes_into_vec_rep heff_bytes_into_mut_rep heff_bytes_is_unique_rep heff_promote : heff.
Lemma heff_m_shallow_clone T x s : heff T (m_shallow_clone x) s. Proof. unfold m_shallow_clone. heff_auto. Qed.
Lemma heff_m_drop_rep T x s : heff T (m_drop_rep x) s. Proof. unfold m_drop_rep. heff_auto. Qed.
Lemma heff_m_freeze_rep T x s : heff T (m_freeze_rep x) s. Proof. unfold m_freeze_rep. heff_auto. Qed.
Lemma heff_m_into_vec_rep T x s : heff T (m_into_vec_rep x) s. Proof. unfold m_into_vec_rep. heff_auto. Qed.
Lemma heff_reserve_inner T orc n al x s : heff T (reserve_inner orc n al x) s. Proof. unfold reserve_inner. heff_auto. Qed.
Global Hint Resolve heff_m_shallow_clone heff_m_drop_rep heff_m_freeze_rep heff_m_into_vec_rep heff_reserve_inner : heff.
Lemma heff_m_reserve T orc n x s : heff T (m_reserve orc n x) s. Proof. unfold m_reserve. heff_auto. Qed.
Lemma heff_m_try_reclaim T orc n x s : heff T (m_try_reclaim orc n x) s. Proof. unfold m_try_reclaim. heff_auto. Qed.
Global Hint Resolve heff_m_reserve heff_m_try_reclaim : heff.
Lemma heff_m_extend T orc bs x s : heff T (m_extend orc bs x) s. Proof. unfold m_extend. heff_auto. Qed.
Global Hint Resolve heff_m_extend : heff.

Lemma heff_bytes_slice (T : positive -> Prop) h b e s : T h -> heff T (bytes_slice h b e) s.
Proof. intros HT. unfold bytes_slice. heff_auto2. all: by apply heff_bytes_clone. Qed.
Lemma heff_bytes_split_off_core (T : positive -> Prop) h a s : T h -> heff T (bytes_split_off_core h a) s.
Proof. intros HT. unfold bytes_split_off_core, empty_with_ptr. heff_auto2. all: by apply heff_bytes_clone. Qed.
Lemma heff_bytes_split_to (T : positive -> Prop) h a s : T h -> heff T (bytes_split_to h a) s.
Proof. intros HT. unfold bytes_split_to, empty_with_ptr. heff_auto2. all: by apply heff_bytes_clone. Qed.
Lemma heff_bytes_truncate (T : positive -> Prop) h l s : T h -> heff T (bytes_truncate h l) s.
Proof. intros HT. unfold bytes_truncate. heff_auto2. all: by apply heff_bytes_split_off_core. Qed.
Lemma heff_m_split_off (T : positive -> Prop) h a s : T h -> heff T (m_split_off h a) s. Proof. intros HT. unfold m_split_off. heff_auto2. Qed.
Lemma heff_m_split_to (T : positive -> Prop) h a s : T h -> heff T (m_split_to h a) s. Proof. intros HT. unfold m_split_to. heff_auto2. Qed.
Lemma heff_extend_loop (T : positive -> Prop) orc h d : T h -> forall (acc : M unit) s, heff T acc s ->
  heff T (fold_left (fun (acc : M unit) b => acc;; let! y := get_h h in let! y1 := m_extend orc [b] y in put_h h y1) d acc) s.
Proof.
  intros HT. induction d as [|b d IH]; intros acc s Hacc; simpl; [done|]. apply IH. apply heff_bind; [done|]. intros. heff_auto2.
Qed.
Lemma heff_hstep orc o s : heff (tch o) (hstep orc o) s.
Proof.
  destruct o; cbn [hstep]; try (by heff_auto2).
  all: try (heff_auto2; first [apply heff_bytes_clone|apply heff_bytes_slice|apply heff_bytes_split_off_core|apply heff_bytes_split_to|apply heff_bytes_truncate|apply heff_m_split_off|apply heff_m_split_to]; simpl; by auto).
  - unfold bytes_split_off. apply heff_bind; [apply heff_bytes_split_off_core; simpl; by auto|intros; heff_auto2].
  - apply heff_bind_keeps; [apply keeps_get_h|intros x]. apply heff_bind; [heff_auto2|]. intros. apply heff_bind; [heff_auto2|]. intros.
    apply heff_bind; [apply heff_extend_loop; [simpl; by auto|apply heff_ret]|intros; heff_auto2].
Qed.

(* ================================================================================================ the frame theorem *)
(* two different handles cannot both hold a storage whose control block says "one holder" *)
Lemma sole_excludes s h x h' y k : WF s -> hs s !! h = Some x -> hs s !! h' = Some y -> h' <> h -> holds x = Some k -> K_sole s k -> holds y <> Some k.
Proof.
  intros [L _] Hx Hy Hne Hh (st & Hs & Hc). eapply (refs_one_other (hs s) h x k h' y); eauto.
  destruct Hc as [Hc|[[c Hc]|(v & o & Hc)]].
  - exact (st_ok_sole_n _ _ _ _ _ _ L Hx Hh Hs Hc).
  - destruct (lwf_holder _ _ _ _ _ L Hx Hh) as (st' & Hs' & Hl & _). rewrite Hs in Hs'. injection Hs' as <-. eapply refs_of_rc1; eauto.
  - destruct (lwf_holder _ _ _ _ _ L Hx Hh) as (st' & Hs' & Hl & _). rewrite Hs in Hs'. injection Hs' as <-. eapply refs_of_rc1; eauto.
Qed.
Lemma view_empty sm ko o vt a : view sm (HB ko o 0 vt a) = [].
Proof. destruct ko; simpl; [|done]. destruct (sm !! p); [apply rd_zero|done]. Qed.
Definition frame_post (o : op) (s s' : hst) : Prop :=
  forall h y, ~ tch o h -> hs s !! h = Some y -> hs s' !! h = Some y /\ view (sts s') y = view (sts s) y.
Lemma hfreshT_of T s : hfresh s -> hfreshT T s. Proof. intros F h Hh. right. by apply F. Qed.
Theorem frame_quiet orc o s : WF s -> op_ok s o -> hm_writer o = false ->
  match run_op orc o s with OK _ s' _ | PANIC s' _ => frame_post o s s' | UB _ => True end.
Proof.
  intros W Hok Hw. pose proof W as [L Hf]. unfold run_op.
  pose proof (heff_hstep orc o s (hfreshT_of _ _ Hf) []) as HH.
  pose proof (deff_hstep_sole orc o s W Hok Hw (lwf_fresh _ _ L) []) as HD.
  destruct (hstep orc o s []) as [r s' e'|s' e'|]; [| |done].
  all: destruct HH as (Hkeep & _ & _); destruct HD as [D _]; intros h y Hnt Hy; (split; [rewrite Hkeep; eauto|]).
  all: eapply view_dsame; [exact D|by eapply (lwf_typed _ _ L)|]; intros k Hus (h0 & x & Ht0 & Hx & Hhx & Hsole).
  all: assert (h <> h0) as Hne by (intros ->; done).
  all: pose proof (sole_excludes s h0 x h y k W Hx Hy Hne Hhx Hsole) as Hnh.
  all: destruct Hsole as (st & Hs & _).
  all: pose proof (uses_static _ _ _ _ Hus Hnh (lwf_typed _ _ L _ _ Hy) Hs) as Hst.
  all: by pose proof (typed_holds_nonstatic _ _ _ _ (lwf_typed _ _ L _ _ Hx) Hhx Hs).
Qed.


(* ---- writes through a BytesMut's own window ---- *)
Definition vreg (y : handle) : option (positive * N * N) :=
  match y with HB (Some k) o l _ _ | HM k o l _ _ => Some (k, o, l) | HV k l _ => Some (k, 0, l) | HB None _ _ _ _ => None end.
Lemma view_vreg sm y : view sm y = match vreg y with Some (k, o, l) => match sm !! k with Some st => rd (s_data st) o l | None => [] end | None => [] end.
Proof. destruct y as [[k|] ? ? ? ?|? ? ? ? ?|? ? ?]; done. Qed.
(* whoever shares a buffer with a BytesMut is a shared BytesMut or a frozen Bytes, and reads inside its own window *)
Lemma other_holder_shared G s h k1 o1 l1 c1 kd1 h' y : LWF G s -> G !! h = Some (HM k1 o1 l1 c1 kd1) -> G !! h' = Some y -> h' <> h -> holds y = Some k1 ->
  kd1 = MArc /\ exists oy ly cy, vreg y = Some (k1, oy, ly) /\ rwin y = Some (k1, oy, cy) /\ ly <= cy.
Proof.
  intros L Hx Hy Hne Hh. pose proof (lwf_typed _ _ L _ _ Hx) as Htx. pose proof (lwf_typed _ _ L _ _ Hy) as Hty.
  assert (kd1 = MArc) as ->.
  { destruct kd1 as [ocr|]; [|done]. exfalso. destruct Htx as (st0 & Hs0 & _ & _ & Hc0 & _).
    eapply (refs_one_other G h _ k1 h' y); eauto. by eapply (st_ok_sole_n _ _ h _ k1 st0 L Hx). }
  split; [done|]. destruct Htx as (st & Hs & _ & _ & (ox & rcx & Hc) & _).
  destruct y as [[k'|] oy ly vt ay|k' oy ly cy kdy|k' ly cy]; simpl in Hh; try done.
  - destruct vt; try done; injection Hh as ->; simpl in Hty; destruct Hty as (st0 & Hs0 & _ & _ & _ & Hr0); rewrite Hs in Hs0; injection Hs0 as <-.
    + destruct Hr0 as (? & ? & ?); congruence.
    + destruct ay; [destruct Hr0 as [? ?]|destruct Hr0 as [? ?]]; congruence.
    + destruct ay; [destruct Hr0 as [? ?]|destruct Hr0 as [? ?]]; congruence.
    + destruct Hr0 as [? ?]; congruence.
    + exists oy, ly, ly. repeat split; done.
  - injection Hh as ->. destruct kdy as [ocr|]; simpl in Hty.
    + destruct Hty as (st0 & Hs0 & _ & _ & Hc0 & _). rewrite Hs in Hs0. injection Hs0 as <-. congruence.
    + destruct Hty as (st0 & Hs0 & _ & _ & _ & _ & Hle). exists oy, ly, cy. repeat split; done.
  - injection Hh as ->. destruct Hty as (st0 & Hs0 & _ & _ & Hc0 & _). rewrite Hs in Hs0. injection Hs0 as <-. congruence.
Qed.
Lemma hm_write_frame G s1 h k1 o1 l1 c1 kd1 a bs e s2 e2 :
  LWF G s1 -> dlen s1 -> G !! h = Some (HM k1 o1 l1 c1 kd1) -> o1 <= a -> a + lenN bs <= o1 + c1 ->
  mwrite k1 a bs s1 e = OK tt s2 e2 -> forall h' y, h' <> h -> G !! h' = Some y -> view (sts s2) y = view (sts s1) y.
Proof.
  intros L DL Hx Ha Hb Hw h' y Hne Hy. unfold mwrite in Hw. destruct (lenN bs =? 0) eqn:Ez; [by injection Hw as <- _|].
  unfold mbind, get_st in Hw. destruct (sts s1 !! k1) as [st|] eqn:Hs; [|done]. unfold mcheck in Hw. destruct (s_live st); [|done]. simpl in Hw.
  destruct (a + lenN bs <=? s_size st) eqn:Eb; [|done]. simpl in Hw. destruct (s_cls st) eqn:Hcl; try done. simpl in Hw. injection Hw as <- _. simpl.
  pose proof (DL _ _ Hs) as Hlen. rewrite !view_vreg. destruct (vreg y) as [[[k' oy] ly]|] eqn:Hv; [|done].
  destruct (decide (k' = k1)) as [->|?]; [|by rewrite lookup_insert_ne]. rewrite lookup_insert, Hs. simpl.
  destruct (decide (holds y = Some k1)) as [Hh|Hnh].
  - destruct (other_holder_shared _ _ _ _ _ _ _ _ _ _ L Hx Hy Hne Hh) as (-> & oy' & ly' & cy & Hv' & Hrw & Hle). rewrite Hv in Hv'. injection Hv' as <- <-.
    assert (c1 = 0 \/ cy = 0 \/ o1 + c1 <= oy \/ oy + cy <= o1) as Hd by (eapply (lwf_disj _ _ L h h'); eauto).
    apply rd_wr_at_disj; lia.
  - (* a static view of this heap block does not exist; an empty one reads nothing *)
    pose proof (lwf_typed _ _ L _ _ Hy) as Hty.
    destruct y as [[k'|] oy' ly' vt ay|k' oy' ly' cy kdy|k' ly' cy]; simpl in Hv, Hnh; try done; try (injection Hv as -> _ _; done).
    injection Hv as -> -> ->. destruct vt; try done. simpl in Hty. destruct Hty as [-> |(st0 & Hs0 & Hc0 & _)]; [by rewrite !rd_zero|]. rewrite Hs in Hs0. injection Hs0 as <-. congruence.
Qed.

(* data outside the storage the operating handle holds alone is untouched: so every other handle reads what it read *)
Lemma view_frame_sole s s1 h x h' y : WF s -> dsame (Kx s x) s s1 -> hs s !! h = Some x -> hs s !! h' = Some y -> h' <> h -> view (sts s1) y = view (sts s) y.
Proof.
  intros W D Hx Hy Hne. pose proof W as [L _]. eapply view_dsame; [exact D|by eapply (lwf_typed _ _ L)|]. intros k Hus [Hhx Hsole].
  pose proof (sole_excludes s h x h' y k W Hx Hy Hne Hhx Hsole) as Hnh. destruct Hsole as (st & Hs & _).
  pose proof (uses_static _ _ _ _ Hus Hnh (lwf_typed _ _ L _ _ Hy) Hs) as Hst.
  by pose proof (typed_holds_nonstatic _ _ _ _ (lwf_typed _ _ L _ _ Hx) Hhx Hs).
Qed.
(* everything one run of reserve establishes *)
Lemma m_reserve_facts orc n k o l c kd s e x1 s1 e1 h : WF s -> dlen s -> hs s !! h = Some (HM k o l c kd) ->
  m_reserve orc n (HM k o l c kd) s e = OK x1 s1 e1 ->
  LWF (<[h := x1]> (hs s)) s1 /\ sframe s s1 /\ dlen s1 /\ (exists k1 o1 c1 kd1, x1 = HM k1 o1 l c1 kd1 /\ n <= c1 - l /\ l <= c1) /\
  (forall h' y, h' <> h -> hs s !! h' = Some y -> view (sts s1) y = view (sts s) y).
Proof.
  intros W DL Hx E. pose proof W as [L Hf]. pose proof (lwf_typed _ _ L _ _ Hx) as Hty.
  pose proof (m_reserve_lwf _ _ h orc n _ _ _ _ _ L Hx e) as H1. rewrite E in H1. destruct H1 as (Hfr & L1 & (k1 & o1 & l1 & c1 & kd1 & ->)).
  pose proof (leff_m_reserve orc n (HM k o l c kd) s DL e) as H2. rewrite E in H2.
  pose proof (reserve_post orc n (HM k o l c kd) s e _ _ _ E) as H3. simpl in H3. destruct H3 as [H3a H3b]; [by eapply typed_hm_le|]. subst l1.
  pose proof (deff_m_reserve_sole orc n (HM k o l c kd) s Hty (lwf_fresh _ _ L) e) as H4. rewrite E in H4. destruct H4 as [D _].
  split; [done|]. split; [done|]. split; [done|]. split.
  - exists k1, o1, c1, kd1. split; [done|]. split; [done|]. by eapply (typed_hm_le _ _ _ _ _ _ (lwf_typed _ _ L1 h _ (lookup_insert _ _ _))).
  - intros h' y Hne Hy. by eapply (view_frame_sole s s1 h _ h' y).
Qed.
(* ... and one run of extend_from_slice *)
Lemma m_extend_facts orc bs k o l c kd s e x2 s2 e2 h : WF s -> dlen s -> hs s !! h = Some (HM k o l c kd) ->
  m_extend orc bs (HM k o l c kd) s e = OK x2 s2 e2 ->
  LWF (<[h := x2]> (hs s)) s2 /\ sframe s s2 /\ dlen s2 /\ (exists k1 o1 l1 c1 kd1, x2 = HM k1 o1 l1 c1 kd1) /\
  (forall h' y, h' <> h -> hs s !! h' = Some y -> view (sts s2) y = view (sts s) y).
Proof.
  intros W DL Hx E. pose proof W as [L Hf].
  pose proof (m_extend_lwf _ _ h orc bs _ _ _ _ _ L Hx e) as H1. rewrite E in H1. destruct H1 as (Hfr & L2 & Hm).
  pose proof (leff_m_extend orc bs (HM k o l c kd) s DL e) as H2. rewrite E in H2.
  split; [done|]. split; [done|]. split; [done|]. split; [destruct Hm as (? & ? & ? & ? & ? & ->); eauto 10|].
  unfold m_extend, mbind in E. destruct (m_reserve orc (lenN bs) (HM k o l c kd) s e) as [x1 s1 e1| |] eqn:Er; try done.
  destruct (m_reserve_facts orc (lenN bs) k o l c kd s e x1 s1 e1 h W DL Hx Er) as (L1 & Hfr1 & DL1 & (k1 & o1 & c1 & kd1 & -> & Hroom & Hle) & Hv1).
  unfold mcheck in E. destruct (lenN bs <=? c1 - l) eqn:Ec; [|done]. simpl in E.
  destruct (mwrite k1 (o1 + l) bs s1 e1) as [[] s2' e2'| |] eqn:Ew; try done. unfold mret in E. injection E as <- <- <-.
  intros h' y Hne Hy. rewrite <- (Hv1 h' y Hne Hy).
  eapply (hm_write_frame _ s1 h k1 o1 l c1 kd1 (o1 + l) bs e1 s2' e2' L1 DL1 (lookup_insert _ _ _)); [lia|lia|exact Ew|exact Hne|by rewrite lookup_insert_ne].
Qed.

Arguments m_reserve : simpl never. Arguments m_extend : simpl never. Arguments mwrite : simpl never. Arguments m_drop_rep : simpl never. Arguments mread : simpl never.
Lemma frame_OMExtend orc h d s r s' e' : WF s -> dlen s -> op_ok s (OMExtend h d) -> run_op orc (OMExtend h d) s = OK r s' e' -> frame_post (OMExtend h d) s s'.
Proof.
  intros W DL (k & o & l & c & kd & Hx) E. unfold run_op in E. cbn [hstep] in E. unfold mbind, get_h in E. rewrite Hx in E.
  destruct (m_extend orc d (HM k o l c kd) s []) as [x2 s2 e2| |] eqn:Ee; try done. simpl in E. injection E as _ <- _.
  destruct (m_extend_facts orc d k o l c kd s [] x2 s2 e2 h W DL Hx Ee) as (L2 & [Hh2 Hn2] & DL2 & _ & Hv).
  intros h' y Hnt Hy. simpl in Hnt. simpl. rewrite Hh2. split; [by rewrite lookup_insert_ne|]. by apply (Hv h' y).
Qed.
Lemma frame_OMWrite orc h i v s r s' e' : WF s -> dlen s -> op_ok s (OMWrite h i v) -> run_op orc (OMWrite h i v) s = OK r s' e' -> frame_post (OMWrite h i v) s s'.
Proof.
  intros W DL (k & o & l & c & kd & Hx) E. pose proof W as [L Hf]. unfold run_op in E. cbn [hstep] in E. unfold mbind, get_h in E. rewrite Hx in E. simpl in E.
  unfold massert in E. destruct (i <? l) eqn:Ei; [|done]. simpl in E.
  destruct (mwrite k (o + i) [v] s []) as [[] s2 e2| |] eqn:Ew; try done. simpl in E. injection E as _ <- _.
  pose proof (heff_mwrite (fun _ => False) k (o + i) [v] s (hfreshT_of _ _ Hf) []) as Hh. rewrite Ew in Hh. destruct Hh as (Hkeep & _ & _).
  pose proof (typed_hm_le _ _ _ _ _ _ (lwf_typed _ _ L _ _ Hx)) as Hle.
  intros h' y Hnt Hy. simpl in Hnt. split; [rewrite Hkeep; eauto|].
  eapply (hm_write_frame _ s h k o l c kd (o + i) [v] [] s2 e2 L DL Hx); [lia|change (lenN [v]) with 1; lia|exact Ew|exact Hnt|exact Hy].
Qed.

Definition fr1 (T : positive -> Prop) (s s1 : hst) : Prop :=
  forall h' y, ~ T h' -> hs s !! h' = Some y -> hs s1 !! h' = Some y /\ view (sts s1) y = view (sts s) y.
Lemma fr1_trans T s s1 s2 : fr1 T s s1 -> fr1 T s1 s2 -> fr1 T s s2.
Proof. intros H1 H2 h' y HT Hy. destruct (H1 h' y HT Hy) as [Hy1 Hv1]. destruct (H2 h' y HT Hy1) as [Hy2 Hv2]. split; [done|congruence]. Qed.
Lemma fr1_refl T s : fr1 T s s. Proof. intros h' y _ Hy. done. Qed.
(* no data change at all *)
Lemma fr1_of_quiet' {A} (T : positive -> Prop) (m : M A) s e a s1 e1 : sfresh s -> hfresh s -> (forall h' y, ~ T h' -> hs s !! h' = Some y -> typed (sts s) y) ->
  (forall K, deff K m s) -> heff T m s -> m s e = OK a s1 e1 -> fr1 T s s1.
Proof.
  intros Fs Hf Hty HD HH E. pose proof (HD (fun _ => False) Fs e) as D. rewrite E in D. destruct D as [D _].
  pose proof (HH (hfreshT_of _ _ Hf) e) as H. rewrite E in H. destruct H as (Hkeep & _ & _).
  intros h' y HT Hy. split; [rewrite Hkeep; eauto|]. eapply view_dsame; [exact D|by eapply Hty|]. intros k _ [].
Qed.
Lemma fr1_of_quiet {A} (T : positive -> Prop) (m : M A) s e a s1 e1 : WF s -> (forall K, deff K m s) -> heff T m s -> m s e = OK a s1 e1 -> fr1 T s s1.
Proof. intros [L Hf]. apply fr1_of_quiet'; [apply (lwf_fresh _ _ L)|done|]. intros h' y _ Hy. by eapply (lwf_typed _ _ L). Qed.

Lemma hs_mwrite k a bs : hs_same (mwrite k a bs).
Proof.
  intros s e. unfold mwrite, mbind, get_st, mcheck, put_st, mret. destruct (lenN bs =? 0); [done|]. destruct (sts s !! k); [|done]. destruct (s_live _); [|done]. simpl.
  destruct (_ <=? _); [|done]. simpl. destruct (match s_cls _ with SHeap => true | _ => false end); done.
Qed.
Lemma frame_OMResize orc h n v s r s' e' : WF s -> dlen s -> op_ok s (OMResize h n v) -> run_op orc (OMResize h n v) s = OK r s' e' -> frame_post (OMResize h n v) s s'.
Proof.
  intros W DL (k & o & l & c & kd & Hx) E. pose proof W as [L Hf]. unfold run_op in E. cbn [hstep] in E. unfold mbind, get_h in E. rewrite Hx in E. simpl in E.
  destruct (n <? l) eqn:E1.
  { simpl in E. injection E as _ <- _. intros h' y Hnt Hy. simpl in *. by rewrite lookup_insert_ne. }
  destruct (n =? l) eqn:E2. { unfold mret in E. injection E as _ <- _. intros h' y Hnt Hy. done. }
  destruct (m_reserve orc (n - l) (HM k o l c kd) s []) as [x1 s1 e1| |] eqn:Er; try done.
  destruct (m_reserve_facts orc (n - l) k o l c kd s [] x1 s1 e1 h W DL Hx Er) as (L1 & [Hh1 Hn1] & DL1 & (k1 & o1 & c1 & kd1 & -> & Hroom & Hle) & Hv1).
  simpl in E. unfold mcheck in E. destruct (n - l <=? c1 - l) eqn:Ec; [|done]. simpl in E.
  set (s1' := set_hs (<[h := HM k1 o1 l c1 kd1]>) s1) in *.
  destruct (mwrite k1 (o1 + l) (repeat v (N.to_nat (n - l))) s1' e1) as [[] s2 e2| |] eqn:Ew; try done. simpl in E. injection E as _ <- _.
  assert (LWF (<[h := HM k1 o1 l c1 kd1]> (hs s)) s1') as L1' by (by apply lwf_set_hs).
  assert (dlen s1') as DL1' by done.
  assert (lenN (repeat v (N.to_nat (n - l))) = n - l) as Hrep by (rewrite lenN_repeat; lia).
  pose proof (hs_mwrite k1 (o1 + l) (repeat v (N.to_nat (n - l))) s1' e1) as Hhs. rewrite Ew in Hhs. destruct Hhs as [Hh2 _].
  intros h' y Hnt Hy. simpl in Hnt. simpl. rewrite Hh2. unfold s1'. simpl. rewrite Hh1. rewrite lookup_insert_ne by done. rewrite lookup_insert_ne by done. split; [done|].
  rewrite <- (Hv1 h' y Hnt Hy).
  eapply (hm_write_frame _ s1' h k1 o1 l c1 kd1 (o1 + l) _ e1 s2 e2 L1' DL1' (lookup_insert _ _ _)); [lia|rewrite Hrep; lia|exact Ew|exact Hnt|by rewrite lookup_insert_ne].
Qed.

(* iterator extend: a loop of extend steps *)
Definition loop_inv (h : hid) (s0 s1 : hst) : Prop := WF s1 /\ dlen s1 /\ is_m s1 h /\ fr1 (fun h' => h' = h) s0 s1.
Lemma extend_step_frame orc h b s0 s : loop_inv h s0 s ->
  forall e, match (let! y := get_h h in let! y1 := m_extend orc [b] y in put_h h y1) s e with OK _ s2 _ => loop_inv h s0 s2 | _ => True end.
Proof.
  intros (W & DL & (k & o & l & c & kd & Hx) & Hfr) e. unfold mbind, get_h. rewrite Hx.
  destruct (m_extend orc [b] (HM k o l c kd) s e) as [x2 s2 e2| |] eqn:Ee; try done. simpl.
  destruct (m_extend_facts orc [b] k o l c kd s e x2 s2 e2 h W DL Hx Ee) as (L2 & [Hh2 Hn2] & DL2 & (k1 & o1 & l1 & c1 & kd1 & ->) & Hv).
  pose proof W as [L Hf]. split; [split|split; [|split]].
  - apply lwf_set_hs. simpl. by rewrite Hh2.
  - intros h' [y Hy]. simpl in *. rewrite Hh2 in Hy. rewrite Hn2. destruct (decide (h' = h)) as [->|?]; [apply Hf; eauto|]. rewrite lookup_insert_ne in Hy by done. apply Hf; eauto.
  - done.
  - exists k1, o1, l1, c1, kd1. simpl. apply lookup_insert.
  - eapply fr1_trans; [exact Hfr|]. intros h' y Hnt Hy. simpl. rewrite Hh2. split; [by rewrite lookup_insert_ne|]. by apply (Hv h' y).
Qed.
Lemma extend_loop_frame orc h d s0 : forall (acc : M unit) s, (forall e, match acc s e with OK _ s1 _ => loop_inv h s0 s1 | _ => True end) ->
  forall e, match fold_left (fun (acc : M unit) b => acc;; let! y := get_h h in let! y1 := m_extend orc [b] y in put_h h y1) d acc s e with OK _ s1 _ => loop_inv h s0 s1 | _ => True end.
Proof.
  induction d as [|b d IH]; intros acc s Hacc e; simpl; [apply Hacc|]. apply IH. intros e0. unfold mbind at 1. specialize (Hacc e0).
  destruct (acc s e0) as [[] s1 e1| |]; try done. by apply extend_step_frame.
Qed.
Lemma frame_OMExtendIter orc h d hint s r s' e' : WF s -> dlen s -> op_ok s (OMExtendIter h d hint) -> run_op orc (OMExtendIter h d hint) s = OK r s' e' ->
  frame_post (OMExtendIter h d hint) s s'.
Proof.
  intros W DL (k & o & l & c & kd & Hx) E. pose proof W as [L Hf]. unfold run_op in E. cbn [hstep] in E. unfold mbind at 1 2, get_h in E. rewrite Hx in E.
  destruct (m_reserve orc hint (HM k o l c kd) s []) as [x1 s1 e1| |] eqn:Er; try done.
  destruct (m_reserve_facts orc hint k o l c kd s [] x1 s1 e1 h W DL Hx Er) as (L1 & [Hh1 Hn1] & DL1 & (k1 & o1 & c1 & kd1 & -> & Hroom & Hle) & Hv1).
  unfold mbind at 1 in E. simpl in E. set (s1' := set_hs (<[h := HM k1 o1 l c1 kd1]>) s1) in *.
  assert (loop_inv h s s1') as Hinv.
  { split; [split|split; [|split]].
    - apply lwf_set_hs. simpl. by rewrite Hh1.
    - intros h' [y Hy]. simpl in *. rewrite Hh1 in Hy. rewrite Hn1. destruct (decide (h' = h)) as [->|?]; [apply Hf; eauto|]. rewrite lookup_insert_ne in Hy by done. apply Hf; eauto.
    - done.
    - exists k1, o1, l, c1, kd1. simpl. apply lookup_insert.
    - intros h' y Hnt Hy. simpl. rewrite Hh1. split; [by rewrite lookup_insert_ne|]. by apply (Hv1 h' y). }
  unfold mbind at 1 in E.
  pose proof (extend_loop_frame orc h d s (mret tt) s1' (fun e0 => Hinv) e1) as Hl.
  destruct (fold_left _ d (mret tt) s1' e1) as [[] s2 e2| |]; try done. unfold mret in E. injection E as _ <- _.
  destruct Hl as (_ & _ & _ & Hfr). exact Hfr.
Qed.

Lemma fr1_set_hs (T : positive -> Prop) s s1 f : fr1 T s s1 -> (forall h', ~ T h' -> f (hs s1) !! h' = hs s1 !! h') -> fr1 T s (set_hs f s1).
Proof. intros H Hf h' y HT Hy. destruct (H h' y HT Hy) as [Hy1 Hv]. simpl. rewrite Hf by done. done. Qed.
Lemma frame_OMUnsplit orc h other s r s' e' : WF s -> dlen s -> op_ok s (OMUnsplit h other) -> run_op orc (OMUnsplit h other) s = OK r s' e' ->
  frame_post (OMUnsplit h other) s s'.
Proof.
  intros W DL (Hne & (k & o & l & c & kd & Hx) & (k2 & o2 & l2 & c2 & kd2 & Hy)) E. pose proof W as [L Hf].
  set (T := fun h' : positive => h' = h \/ h' = other).
  assert (forall s1, fr1 T s s1 -> frame_post (OMUnsplit h other) s s1) as Hfin by (intros s1 H; exact H).
  unfold run_op in E. cbn [hstep] in E. destruct (Pos.eqb h other) eqn:Eh; [done|].
  unfold mbind at 1 2 3 4, get_h in E. rewrite Hx in E. cbn [m_parts mret] in E. rewrite Hy in E. cbn [m_parts mret] in E.
  assert (forall (x : handle) s0 e0 s1 e1, WF s0 -> m_drop_rep x s0 e0 = OK tt s1 e1 -> fr1 T s0 s1) as Hdrop.
  { intros x s0 e0 s1 e1 W0 Ed. eapply (fr1_of_quiet T (m_drop_rep x) s0 e0 tt s1 e1 W0); [intros; apply deff_m_drop_rep|apply heff_m_drop_rep|exact Ed]. }
  destruct (l =? 0) eqn:E0.
  { unfold mbind in E. destruct (m_drop_rep (HM k o l c kd) s []) as [[] s1 e1| |] eqn:Ed; try done. simpl in E. injection E as _ <- _.
    apply Hfin. apply fr1_set_hs; [apply fr1_set_hs; [by eapply Hdrop|]|].
    - intros h' HT. rewrite lookup_insert_ne; [done|]. intros <-. apply HT. by left.
    - intros h' HT. rewrite lookup_delete_ne; [done|]. intros <-. apply HT. by right. }
  destruct (c2 =? 0) eqn:E1.
  { unfold mbind in E. destruct (m_drop_rep (HM k2 o2 l2 c2 kd2) s []) as [[] s1 e1| |] eqn:Ed; try done. simpl in E. injection E as _ <- _.
    apply Hfin. apply fr1_set_hs; [by eapply Hdrop|]. intros h' HT. rewrite lookup_delete_ne; [done|]. intros <-. apply HT. by right. }
  (* the copy path *)
  assert (forall r0 s2 e2, (let! bs := mread k2 o2 l2 in let! x1 := m_extend orc bs (HM k o l c kd) in put_h h x1;; m_drop_rep (HM k2 o2 l2 c2 kd2);; del_h other;; mret RUnit) s [] = OK r0 s2 e2 -> fr1 T s s2) as Hcopy.
  { intros r0 s2 e2 Ec. unfold mbind at 1 in Ec. pose proof (keeps_mread k2 o2 l2 s []) as Hk. destruct (mread k2 o2 l2 s []) as [bs s0 e0| |]; try done. subst s0.
    unfold mbind at 1 in Ec. destruct (m_extend orc bs (HM k o l c kd) s e0) as [x2 s1 e1| |] eqn:Ee; try done.
    destruct (m_extend_facts orc bs k o l c kd s e0 x2 s1 e1 h W DL Hx Ee) as (L1 & [Hh1 Hn1] & DL1 & _ & Hv).
    unfold mbind at 1 in Ec. simpl in Ec. set (s1' := set_hs (<[h := x2]>) s1) in *.
    unfold mbind at 1 in Ec. destruct (m_drop_rep (HM k2 o2 l2 c2 kd2) s1' e1) as [[] s3 e3| |] eqn:Ed; try done. simpl in Ec. injection Ec as _ <- _.
    assert (WF s1') as W1.
    { split; [apply lwf_set_hs; simpl; by rewrite Hh1|]. intros h' [y' Hy']. simpl in *. rewrite Hh1 in Hy'. rewrite Hn1.
      destruct (decide (h' = h)) as [->|?]; [apply Hf; eauto|]. rewrite lookup_insert_ne in Hy' by done. apply Hf; eauto. }
    apply fr1_set_hs; [|intros h' HT; rewrite lookup_delete_ne; [done|]; intros <-; apply HT; by right].
    eapply fr1_trans; [|by eapply Hdrop].
    intros h' y' HT Hy'. simpl. rewrite Hh1. split; [rewrite lookup_insert_ne; [done|]; intros <-; apply HT; by left|]. apply (Hv h' y'); [|done]. intros ->. apply HT. by left. }
  destruct kd as [ocr|]; [apply Hfin; by eapply Hcopy|]. destruct kd2 as [ocr2|]; [apply Hfin; by eapply Hcopy|].
  destruct (Pos.eqb k k2 && (o + l =? o2)) eqn:Ec; [|apply Hfin; by eapply Hcopy].
  unfold mbind in E. simpl in E. set (s1 := set_hs (<[h := HM k o (l + l2) (c + c2) MArc]>) s) in *.
  destruct (m_drop_rep (HM k2 o2 l2 c2 MArc) s1 []) as [[] s2 e2| |] eqn:Ed; try done. simpl in E. injection E as _ <- _.
  apply Hfin. apply fr1_set_hs; [|intros h' HT; rewrite lookup_delete_ne; [done|]; intros <-; apply HT; by right].
  assert (fr1 T s s1) as H01. { intros h' y' HT Hy'. simpl. split; [|done]. rewrite lookup_insert_ne; [done|]. intros <-. apply HT. by left. }
  eapply fr1_trans; [exact H01|].
  eapply (fr1_of_quiet' T (m_drop_rep (HM k2 o2 l2 c2 MArc)) s1 [] tt s2 e2); [apply (lwf_fresh _ _ L)| | |intros; apply deff_m_drop_rep|apply heff_m_drop_rep|exact Ed].
  - intros h' [y' Hy']. simpl in *. destruct (decide (h' = h)) as [->|?]; [apply Hf; eauto|]. rewrite lookup_insert_ne in Hy' by done. apply Hf; eauto.
  - intros h' y' HT Hy'. simpl in *. rewrite lookup_insert_ne in Hy' by (intros <-; apply HT; by left). by eapply (lwf_typed _ _ L).
Qed.


(* ================================================================================================ summary *)
Lemma dlen0 odd : dlen (hst0 odd). Proof. intros k st H. unfold hst0 in H. cbn [sts] in H. by apply lookup_empty_Some in H. Qed.
Lemma reach_dlen orcs n s : reach orcs n s -> dlen s.
Proof.
  induction 1 as [odd|n s o r s' e Hr IH Hok Hrun|n s o s' e Hr IH Hok Hrun]; [apply dlen0| |].
  - pose proof (leff_hstep (orcs n) o s IH []) as H. unfold run_op in Hrun. by rewrite Hrun in H.
  - pose proof (leff_hstep (orcs n) o s IH []) as H. unfold run_op in Hrun. by rewrite Hrun in H.
Qed.
(* THE FRAME THEOREM of the representation model: from a WF state, an operation that returns leaves every handle it is not applied to
   exactly as it was, and that handle still reads exactly the same bytes - whatever the representations involved, shared buffers included *)
Theorem m2_frame orc o s r s' e' : WF s -> dlen s -> op_ok s o -> run_op orc o s = OK r s' e' -> frame_post o s s'.
Proof.
  intros W DL Hok E. destruct (hm_writer o) eqn:Hw.
  - destruct o; try discriminate Hw.
    + by eapply frame_OMResize. + by eapply frame_OMExtend. + by eapply frame_OMExtendIter. + by eapply frame_OMWrite. + by eapply frame_OMUnsplit.
  - pose proof (frame_quiet orc o s W Hok Hw) as H. by rewrite E in H.
Qed.
Theorem m2_frame_reachable orcs n s o r s' e' : reach orcs n s -> op_ok s o -> run_op (orcs n) o s = OK r s' e' -> frame_post o s s'.
Proof. intros Hr. apply m2_frame; [by eapply reach_wf|by eapply reach_dlen]. Qed.
(* a clean panic changes nothing at all *)
Theorem m2_frame_panic orc o s s' e' : clean_panic_op o = true -> run_op orc o s = PANIC s' e' -> s' = s.
Proof. intros Hc E. pose proof (panics_are_clean orc o Hc s []) as H. unfold run_op in E. rewrite E in H. by destruct H. Qed.

(* Lemmas about Codec: values of byte lists, zero padding, the crate's sign_extend, names. *)
From stdpp Require Import list.
From Coq Require Import NArith ZArith Lia ZifyN ZifyNat ZifyBool String.
From BV Require Import Base BaseLemmas Codec BufSpec.
Local Open Scope N_scope.
Ltac Zify.zify_post_hook ::= Z.div_mod_to_equations.
Arguments N.add : simpl never. Arguments N.mul : simpl never. Arguments N.pow : simpl never. Arguments N.sub : simpl never.

Lemma be_val_acc bs acc : fold_left (fun a b => a * 256 + b) bs acc = acc * 256 ^ lenN bs + be_val bs.
Proof.
  unfold be_val. revert acc; induction bs as [|b r IH]; intros acc; cbn [fold_left].
  - change (lenN (@nil N)) with 0. rewrite N.pow_0_r. lia.
  - rewrite IH. rewrite (IH (0 * 256 + b)). rewrite lenN_cons.
    rewrite N.pow_add_r. change (256 ^ 1) with 256. lia.
Qed.
Lemma be_val_cons b r : be_val (b :: r) = b * 256 ^ lenN r + be_val r.
Proof. unfold be_val at 1. cbn [fold_left]. rewrite be_val_acc. replace (0 * 256 + b) with b by lia. done. Qed.
Lemma be_val_zeros k bs : be_val (repeat 0 k ++ bs) = be_val bs.
Proof. induction k as [|k IH]; simpl; [done|]. rewrite be_val_cons, IH. lia. Qed.
Lemma le_val_zeros_nil k : le_val (repeat 0 k) = 0.
Proof. induction k as [|k IH]; simpl; [done|]. rewrite IH. lia. Qed.
Lemma le_val_zeros k bs : le_val (bs ++ repeat 0 k) = le_val bs.
Proof. induction bs as [|b r IH]; simpl; [apply le_val_zeros_nil|]. by rewrite IH. Qed.
Lemma be_val_bound bs : bytes_ok bs -> be_val bs < 256 ^ lenN bs.
Proof.
  induction 1 as [|b r Hb Hr IH]; [by compute|]. rewrite be_val_cons, lenN_cons.
  rewrite N.pow_add_r. change (256 ^ 1) with 256. nia.
Qed.
Lemma le_val_bound bs : bytes_ok bs -> le_val bs < 256 ^ lenN bs.
Proof.
  induction 1 as [|b r Hb Hr IH]; [by compute|]. cbn [le_val]. rewrite lenN_cons.
  rewrite N.pow_add_r. change (256 ^ 1) with 256. nia.
Qed.
Lemma uval_bound e bs : bytes_ok bs -> uval e bs < 256 ^ lenN bs.
Proof. destruct e; [apply be_val_bound|apply le_val_bound]. Qed.
Lemma uval_single e x : uval e [x] = x.
Proof. destruct e; simpl; [unfold be_val; simpl|]; lia. Qed.
Lemma dec_single e e' s x : dec e s [x] = dec e' s [x].
Proof. unfold dec. by rewrite !uval_single. Qed.

Lemma pow256 n : 256 ^ n = 2 ^ (8 * n).
Proof. replace 256 with (2 ^ 8) by done. by rewrite <- N.pow_mul_r. Qed.

Theorem sign_extend_ok u n : n <= 8 -> u < 2 ^ (8 * n) -> sign_extend_code u n = to_signed (8 * n) u.
Proof.
  intros Hn Hu. destruct (N.eq_dec n 0) as [->|Hn0]; [reflexivity|].
  unfold sign_extend_code, to_signed.
  set (s := (8 - n) * 8). assert (s < 64 /\ 8 * n + s = 64) as [Hs Hsum] by (unfold s; lia).
  replace (64 <=? s) with false by lia. replace (64 =? 0) with false by done. replace (8 * n =? 0) with false by lia.
  assert (2 ^ 64 = 2 ^ (8 * n) * 2 ^ s) as H64 by (rewrite <- N.pow_add_r; f_equal; lia).
  assert (2 ^ (8 * n) = 2 * 2 ^ (8 * n - 1)) as HQ by (rewrite <- N.pow_succ_r'; f_equal; lia).
  assert (2 ^ (64 - 1) = 2 ^ (8 * n - 1) * 2 ^ s) as H63 by (rewrite <- N.pow_add_r; f_equal; lia).
  rewrite H64, H63. rewrite HQ in *.
  assert (0 < 2 ^ s) as HP by (apply N.neq_0_lt_0, N.pow_nonzero; lia).
  rewrite Z.shiftr_div_pow2 by lia.
  replace (2 ^ Z.of_N s)%Z with (Z.of_N (2 ^ s)) by (rewrite N2Z.inj_pow; done).
  remember (2 ^ s) as P eqn:EP. remember (2 ^ (8 * n - 1)) as Q eqn:EQ. clear EP EQ H64 H63 HQ.
  rewrite N.mod_small by nia.
  destruct (u * P <? Q * P) eqn:E1; destruct (u <? Q) eqn:E3; nia.
Qed.

(* names *)
Lemma gdesc_eqb_eq a b : gdesc_eqb a b = true -> a = b.
Proof.
  destruct a as [t1 k1 s1 e1 g1], b as [t2 k2 s2 e2 g2]. unfold gdesc_eqb. simpl.
  rewrite !andb_true_iff. intros ((((Ht & Hk) & Hs) & He) & Hg).
  apply Bool.eqb_prop in Ht, Hg. apply N.eqb_eq in Hs.
  destruct k1, k2; try discriminate; destruct e1, e2; try discriminate; by subst.
Qed.
Lemma ty_spec_k8 ty sz sg : ty_spec ty = Some (GK8, sz, sg) -> sz = 1.
Proof.
  unfold ty_spec. repeat match goal with |- context [if ?c then _ else _] => destruct c end; intros H; by inversion H.
Qed.
Lemma spec_of_suffixed_k8 t rest d : spec_of_suffixed t rest = Some d -> g_kind d = GK8 -> g_size d = 1.
Proof.
  unfold spec_of_suffixed. destruct (match strip_suffix "_le" rest with Some _ => _ | None => _ end) as [ty e].
  destruct (ty_spec ty) as [[[k sz] sg]|] eqn:E; [|done]. intros H; inversion H; subst; simpl. intros ->. by eapply ty_spec_k8.
Qed.
Lemma spec_of_getter_k8 name d : spec_of_getter name = Some d -> g_kind d = GK8 -> g_size d = 1.
Proof.
  unfold spec_of_getter. destruct (strip_prefix "try_get_" name); [apply spec_of_suffixed_k8|].
  destruct (strip_prefix "get_" name); [apply spec_of_suffixed_k8|done].
Qed.
Lemma spec_of_putter_k8 name d : spec_of_putter name = Some d -> g_kind d = GK8 -> g_size d = 1.
Proof. unfold spec_of_putter. destruct (strip_prefix "put_" name); [apply spec_of_suffixed_k8|done]. Qed.
Lemma spec_of_suffixed_try t rest d : spec_of_suffixed t rest = Some d -> g_try d = t.
Proof.
  unfold spec_of_suffixed. destruct (match strip_suffix "_le" rest with Some _ => _ | None => _ end) as [ty e].
  destruct (ty_spec ty) as [[[k sz] sg]|]; [|done]. intros H; by inversion H.
Qed.

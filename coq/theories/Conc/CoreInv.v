From stdpp Require Import gmap list sets.
From Coq Require Import Lia.
From BV.Conc Require Import Core.

Definition held_sum (s : state) : nat := sum_list (t_held <$> ths s).
Definition Pub (s : state) : view := m_view (lastm s).
Definition closer (m : micro) : bool :=
  match m with DropLoad | DoFree | ExclCas | ExclLoad => true | _ => false end.

Definition phase_closer (s : state) (th : thread) : Prop :=
  match t_mic th with
  | DropLoad => m_val (lastm s) = 0 ∧ t_held th = 0 ∧ t_seen th = Lidx s
  | DoFree | ExclCas => m_val (lastm s) = 0 ∧ t_held th = 0 ∧ Pub s ⊆ t_K th
  | ExclLoad => m_val (lastm s) = 1 ∧ t_held th = 1 ∧ Pub s ⊆ t_K th
  | _ => False
  end.

Definition NoCloser (s : state) : Prop :=
  m_val (lastm s) = held_sum s ∧ ∀ i th, ths s !! i = Some th → closer (t_mic th) = false.
Definition HasCloser (s : state) : Prop :=
  ∃ i th, ths s !! i = Some th ∧ closer (t_mic th) = true ∧ phase_closer s th ∧
     ∀ i' th', ths s !! i' = Some th' → i' ≠ i → t_held th' = 0 ∧ t_mic th' = Idle.
Definition Phase (s : state) : Prop :=
  if cb_freed s then ∀ i th, ths s !! i = Some th → t_held th = 0 ∧ t_mic th = Idle
  else buf_freed s = false ∧ buf_w s = ∅ ∧ cb_w s = ∅ ∧ (NoCloser s ∨ HasCloser s).

Record Inv (s : state) : Prop := {
  inv_msgs : msgs s ≠ [];
  inv_seen : ∀ i th, ths s !! i = Some th → t_seen th ≤ Lidx s;
  inv_mine : ∀ i th, ths s !! i = Some th → t_mine th ⊆ t_K th;
  inv_evs : ∀ e, e ∈ buf_r s ∪ buf_w s ∪ cb_r s ∪ cb_w s → ∃ i th, ths s !! i = Some th ∧ e ∈ t_mine th;
  inv_pub : cb_freed s = false → ∀ i th, ths s !! i = Some th → t_held th = 0 → t_mic th = Idle → t_mine th ⊆ Pub s;
  inv_copy : ∀ i th, ths s !! i = Some th → (t_mic th = Copy ∨ t_mic th = RelDec) → t_held th ≥ 1;
  inv_i5 : ∀ i th j m, ths s !! i = Some th → t_held th ≥ 1 → t_seen th ≤ j → j < Lidx s →
            msgs s !! j = Some m → t_held th + 1 ≤ m_val m;
  inv_phase : Phase s
}.

(* ---------- helper lemmas ---------- *)
Lemma lastm_app ms m nx a b c d e f t :
  lastm {| msgs := ms ++ [m]; next_ev := nx; buf_r := a; buf_w := b; cb_r := c; cb_w := d; cb_freed := e; buf_freed := f; ths := t |} = m.
Proof. unfold lastm; simpl. by rewrite last_snoc. Qed.

Lemma sum_list_insert (l : list nat) i x y :
  l !! i = Some x → sum_list (<[i := y]> l) + x = sum_list l + y.
Proof.
  revert i. induction l as [|a l IH]; intros [|i] H; simplify_eq/=; [lia|].
  specialize (IH _ H). lia.
Qed.

Lemma held_sum_insert (l : list thread) i th th' :
  l !! i = Some th → sum_list (t_held <$> <[i := th']> l) + t_held th = sum_list (t_held <$> l) + t_held th'.
Proof.
  intros H. rewrite list_fmap_insert. apply sum_list_insert. by rewrite list_lookup_fmap, H.
Qed.

Lemma sum_list_ge (l : list nat) i x : l !! i = Some x → x ≤ sum_list l.
Proof. revert i; induction l as [|a l IH]; intros [|i] H; simplify_eq/=; [lia|]. specialize (IH _ H). lia. Qed.

Lemma sum_list_two (l : list nat) i j x y : i ≠ j → l !! i = Some x → l !! j = Some y → x + y ≤ sum_list l.
Proof.
  revert i j; induction l as [|a l IH]; intros [|i] [|j] Hne Hi Hj; simplify_eq/=.
  - pose proof (sum_list_ge _ _ _ Hj). lia.
  - pose proof (sum_list_ge _ _ _ Hi). lia.
  - assert (i ≠ j) by congruence. specialize (IH _ _ H Hi Hj). lia.
Qed.

Lemma held_two s i j th th' : i ≠ j → ths s !! i = Some th → ths s !! j = Some th' → t_held th + t_held th' ≤ held_sum s.
Proof.
  intros. unfold held_sum. eapply (sum_list_two _ i j); [done| |]; rewrite list_lookup_fmap; by simplify_option_eq.
Qed.
Lemma held_one s i th : ths s !! i = Some th → t_held th ≤ held_sum s.
Proof. intros. unfold held_sum. eapply (sum_list_ge _ i). rewrite list_lookup_fmap. by simplify_option_eq. Qed.

Lemma Lidx_lookup_last s : msgs s ≠ [] → msgs s !! Lidx s = Some (lastm s).
Proof.
  intros H. unfold Lidx, lastm. destruct (msgs s) as [|m0 ms0] using rev_ind; [done|]. clear IHms0.
  rewrite last_snoc. simpl. rewrite app_length. simpl.
  rewrite lookup_app_r by lia.
  replace (length ms0 + 1 - 1 - length ms0) with 0 by lia. done.
Qed.

Lemma lookup_lt_Lidx s j m : msgs s !! j = Some m → j ≤ Lidx s.
Proof. intros H. apply lookup_lt_Some in H. unfold Lidx. lia. Qed.

Lemma insert_cases {A} (l : list A) i i' x y z :
  l !! i = Some z → <[i := y]> l !! i' = Some x → (i' = i ∧ x = y) ∨ (i' ≠ i ∧ l !! i' = Some x).
Proof.
  intros Hz H. destruct (decide (i' = i)) as [->|Hne].
  - rewrite list_lookup_insert in H by (by eapply lookup_lt_Some). left. by simplify_eq.
  - rewrite list_lookup_insert_ne in H by done. by right.
Qed.

Lemma init_inv helds : Inv (init_state helds).
Proof.
  constructor; simpl; try done.
  - intros i th H. apply list_lookup_fmap_Some in H as (h & _ & ->). simpl. unfold Lidx; simpl; lia.
  - intros i th H. apply list_lookup_fmap_Some in H as (h & _ & ->). done.
  - intros _ i th H. apply list_lookup_fmap_Some in H as (h & _ & ->). simpl. done.
  - intros i th H [Hm|Hm]; apply list_lookup_fmap_Some in H as (h & _ & ->); done.
  - intros i th j m H _ _ Hj. unfold Lidx in Hj; simpl in Hj; lia.
  - unfold Phase; simpl. split_and!; try done. left. split.
    + unfold lastm, held_sum; simpl. rewrite <- list_fmap_compose. clear. induction helds as [|a l IH]; simpl; [done|]. f_equal. exact IH.
    + intros i th H. apply list_lookup_fmap_Some in H as (h & _ & ->). done.
Qed.

(* reading the buffer while holding a ref *)
Lemma read_inv s i th m s' :
  Inv s → ths s !! i = Some th → t_held th ≥ 1 →
  (t_mic th = Idle ∧ m = Idle ∨ t_mic th = Copy ∧ m = RelDec) →
  do_buf_read s i th m = St s' → Inv s'.
Proof.
  intros HI Hth Hheld Hm Hs. unfold do_buf_read in Hs.
  destruct (buf_freed s) eqn:Hbf; [done|]. destruct (decide _) as [Hk|]; [|done]. simplify_eq.
  destruct HI as [I1 I2 I3 I4 I5 I6 I7 I8].
  assert (Hclo : closer m = false) by (destruct Hm as [[_ ->]|[_ ->]]; done).
  constructor; simpl; try done.
  - intros i' th' H. destruct (insert_cases _ _ _ _ _ _ Hth H) as [[-> ->]|[? H']]; simpl; eauto.
  - intros i' th' H. destruct (insert_cases _ _ _ _ _ _ Hth H) as [[-> ->]|[? H']]; simpl; eauto.
    specialize (I3 _ _ Hth). set_solver.
  - intros e He. destruct (decide (e = next_ev s)) as [->|Hne].
    + exists i, (set_mic m (add_ev (next_ev s) th)). split; [|simpl; set_solver].
      apply list_lookup_insert. by eapply lookup_lt_Some.
    + destruct (I4 e) as (i0 & th0 & H0 & Hin); [set_solver|].
      destruct (decide (i0 = i)) as [->|Hn0].
      * simplify_eq. exists i, (set_mic m (add_ev (next_ev s) th)). split; [|simpl; set_solver].
        apply list_lookup_insert. by eapply lookup_lt_Some.
      * exists i0, th0. split; [|done]. by rewrite list_lookup_insert_ne.
  - intros Hcf i' th' H Hh Hmic. destruct (insert_cases _ _ _ _ _ _ Hth H) as [[-> ->]|[? H']]; simpl in *; [lia|].
    unfold Pub, lastm in *; simpl. eauto.
  - intros i' th' H Hmic. destruct (insert_cases _ _ _ _ _ _ Hth H) as [[-> ->]|[? H']]; simpl in *; [lia|eauto].
  - intros i' th' j m0 H Hh Hseen Hj Hl. unfold Lidx in *; simpl in *.
    destruct (insert_cases _ _ _ _ _ _ Hth H) as [[-> ->]|[? H']]; simpl in *; eauto.
  - unfold Phase in *; simpl. destruct (cb_freed s) eqn:Hcf.
    + destruct (I8 _ _ Hth). lia.
    + destruct I8 as (? & ? & ? & I8). split_and!; try done.
      destruct I8 as [[Hv Hnc]|(i0 & th0 & Hq0 & Hc0 & Hp0 & Hoth)].
      * left. split.
        -- unfold lastm, held_sum in *; simpl. rewrite Hv. 
           pose proof (held_sum_insert (ths s) i th (set_mic m (add_ev (next_ev s) th)) Hth) as Hs. simpl in Hs. lia.
        -- intros i' th' H'. destruct (insert_cases _ _ _ _ _ _ Hth H') as [[-> ->]|[? H'']]; simpl; eauto.
      * destruct (decide (i0 = i)) as [->|Hn0].
        -- simplify_eq. destruct Hm as [[Hm _]|[Hm _]]; rewrite Hm in Hc0; done.
        -- destruct (Hoth _ _ Hth) as [Hz _]; [done|]. lia.
Qed.

Lemma Lidx_app s m : msgs s ≠ [] → length (msgs s ++ [m]) - 1 = S (Lidx s).
Proof. intros H. unfold Lidx. rewrite app_length. simpl. destruct (msgs s); [done|simpl; lia]. Qed.

Lemma Lidx_len s : msgs s ≠ [] → length (msgs s) = S (Lidx s).
Proof. intros H. unfold Lidx. destruct (msgs s); [done|simpl; lia]. Qed.

(* Common part of every RMW by thread i (which holds a ref, so we are in the NoCloser phase). *)
Lemma rmw_common s i th K' h' m' mnew :
  Inv s → ths s !! i = Some th → cb_freed s = false → NoCloser s → t_held th ≥ 1 →
  t_K th ⊆ K' → m_view (lastm s) ⊆ m_view mnew →
  ((m' = Copy ∨ m' = RelDec) → h' ≥ 1) →
  (h' = 0 → m' = Idle → t_mine th ⊆ m_view mnew) →
  let thx := {| t_K := K'; t_seen := length (msgs s); t_held := h'; t_mic := m'; t_mine := t_mine th |} in
  let s' := upd s i thx (msgs s ++ [mnew]) in
  Phase s' → Inv s'.
Proof.
  intros HI Hth Hcf [Hv Hnc] Hheld HK Hmono Hcopy Hpub thx s' HP.
  destruct HI as [I1 I2 I3 I4 I5 I6 I7 I8].
  assert (HL : Lidx s' = S (Lidx s)) by (unfold Lidx at 1; simpl; by apply Lidx_app).
  constructor; simpl; try done.
  - by destruct (msgs s).
  - intros i' th' H. rewrite HL. destruct (insert_cases _ _ _ _ _ _ Hth H) as [[-> ->]|[? H']]; simpl.
    + rewrite Lidx_len by done. lia.
    + specialize (I2 _ _ H'). lia.
  - intros i' th' H. destruct (insert_cases _ _ _ _ _ _ Hth H) as [[-> ->]|[? H']]; simpl; eauto.
    specialize (I3 _ _ Hth). set_solver.
  - intros e He. destruct (I4 e He) as (i0 & th0 & Hq0 & Hin).
    destruct (decide (i0 = i)) as [->|Hn0].
    + simplify_eq. exists i, thx. split; [|done]. apply list_lookup_insert. by eapply lookup_lt_Some.
    + exists i0, th0. split; [|done]. by rewrite list_lookup_insert_ne.
  - intros _ i' th' H Hh Hmic. unfold Pub. unfold s', upd. rewrite lastm_app.
    destruct (insert_cases _ _ _ _ _ _ Hth H) as [[-> ->]|[? H']]; simpl in *; [eauto|].
    specialize (I5 Hcf _ _ H' Hh Hmic). unfold Pub in I5. set_solver.
  - intros i' th' H Hmic. destruct (insert_cases _ _ _ _ _ _ Hth H) as [[-> ->]|[? H']]; simpl in *; eauto.
  - intros i' th' j m0 H Hh Hseen Hj Hl. rewrite HL in Hj.
    destruct (insert_cases _ _ _ _ _ _ Hth H) as [[-> ->]|[Hne H']]; simpl in *.
    + rewrite Lidx_len in Hseen by done. lia.
    + rewrite lookup_app_l in Hl by (rewrite Lidx_len by done; lia).
      destruct (decide (j < Lidx s)) as [Hlt|Hge]; [eauto|].
      assert (j = Lidx s) as -> by lia. rewrite Lidx_lookup_last in Hl by done. simplify_eq.
      rewrite Hv. pose proof (held_two s i' i th' th Hne H' Hth). lia.
Qed.

(* Common part of every load by thread i reading message j. *)
Lemma load_common s i th K' j mj m' :
  Inv s → ths s !! i = Some th → msgs s !! j = Some mj → t_seen th ≤ j →
  t_K th ⊆ K' → m' ≠ Idle →
  ((m' = Copy ∨ m' = RelDec) → t_held th ≥ 1) →
  let thx := {| t_K := K'; t_seen := j; t_held := t_held th; t_mic := m'; t_mine := t_mine th |} in
  let s' := upd s i thx (msgs s) in
  Phase s' → Inv s'.
Proof.
  intros HI Hth Hj Hseen HK Hm' Hcopy thx s' HP.
  destruct HI as [I1 I2 I3 I4 I5 I6 I7 I8].
  constructor; simpl; try done.
  - intros i' th' H. destruct (insert_cases _ _ _ _ _ _ Hth H) as [[-> ->]|[? H']]; simpl; eauto.
    by eapply lookup_lt_Lidx.
  - intros i' th' H. destruct (insert_cases _ _ _ _ _ _ Hth H) as [[-> ->]|[? H']]; simpl; eauto.
    specialize (I3 _ _ Hth). set_solver.
  - intros e He. destruct (I4 e He) as (i0 & th0 & Hq0 & Hin).
    destruct (decide (i0 = i)) as [->|Hn0].
    + simplify_eq. exists i, thx. split; [|done]. apply list_lookup_insert. by eapply lookup_lt_Some.
    + exists i0, th0. split; [|done]. by rewrite list_lookup_insert_ne.
  - intros Hcf i' th' H Hh Hmic.
    destruct (insert_cases _ _ _ _ _ _ Hth H) as [[-> ->]|[? H']]; simpl in *; [done|].
    apply (I5 Hcf _ _ H' Hh Hmic).
  - intros i' th' H Hmic. destruct (insert_cases _ _ _ _ _ _ Hth H) as [[-> ->]|[? H']]; simpl in *; eauto.
  - intros i' th' j0 m0 H Hh Hs Hj0 Hl. unfold Lidx in Hj0; simpl in Hj0.
    destruct (insert_cases _ _ _ _ _ _ Hth H) as [[-> ->]|[Hne H']]; simpl in *.
    + eapply (I7 _ _ j0 m0 Hth); eauto. lia.
    + eapply I7; eauto.
Qed.

Lemma held_not_freed s i th : Inv s → ths s !! i = Some th → t_held th ≥ 1 → cb_freed s = false.
Proof.
  intros HI Hth Hh. pose proof (inv_phase _ HI) as HP. unfold Phase in HP.
  destruct (cb_freed s); [|done]. destruct (HP _ _ Hth). lia.
Qed.

Lemma nocloser_of_held s i th :
  Inv s → ths s !! i = Some th → t_held th ≥ 1 → closer (t_mic th) = false → NoCloser s.
Proof.
  intros HI Hth Hh Hc. pose proof (inv_phase _ HI) as HP. unfold Phase in HP.
  rewrite (held_not_freed _ _ _ HI Hth Hh) in HP. destruct HP as (_ & _ & _ & [HN|(i0 & th0 & Hq0 & Hc0 & _ & Hoth)]); [done|].
  destruct (decide (i0 = i)) as [->|Hne]; [simplify_eq; congruence|].
  destruct (Hoth _ _ Hth) as [? _]; [done|lia].
Qed.

Lemma sum_one_others s i th : held_sum s = 1 → ths s !! i = Some th → t_held th ≥ 1 →
  t_held th = 1 ∧ ∀ i' th', ths s !! i' = Some th' → i' ≠ i → t_held th' = 0.
Proof.
  intros Hs Hth Hh. split.
  - pose proof (held_one _ _ _ Hth). lia.
  - intros i' th' H' Hne. pose proof (held_two s i' i th' th Hne H' Hth). lia.
Qed.

Lemma noncloser_idle s i th : Inv s → ths s !! i = Some th → closer (t_mic th) = false → t_held th = 0 → t_mic th = Idle.
Proof.
  intros HI Hth Hc Hh. destruct (t_mic th) eqn:E; try done;
  pose proof (inv_copy _ HI _ _ Hth) as Hcp; rewrite E in Hcp; (assert (t_held th ≥ 1) by (apply Hcp; auto)); lia.
Qed.

Lemma phase_nofree s : cb_freed s = false → Phase s → buf_freed s = false ∧ buf_w s = ∅ ∧ cb_w s = ∅.
Proof. unfold Phase. intros ->. tauto. Qed.

(* ----- clone ----- *)
Lemma clone_inv o s i th :
  Inv s → ths s !! i = Some th → t_mic th = Idle → t_held th ≥ 1 →
  let '(th', ms, _) := rmw (o_inc o) S s th in
  Inv (upd s i (set_held (S (t_held th)) th') ms).
Proof.
  intros HI Hth Hmic Hh. unfold rmw, set_held; simpl.
  pose proof (held_not_freed _ _ _ HI Hth Hh) as Hcf.
  assert (HN : NoCloser s) by (eapply nocloser_of_held; eauto; by rewrite Hmic).
  rewrite Hmic.
  eapply (rmw_common s i th _ (S (t_held th)) Idle _ HI Hth Hcf HN Hh).
  - destruct (is_acq _); set_solver.
  - simpl. destruct (is_rel _); set_solver.
  - intros [?|?]; done.
  - lia.
  - unfold Phase, upd; simpl. rewrite Hcf.
    destruct (phase_nofree _ Hcf (inv_phase _ HI)) as (? & ? & ?). split_and!; try done. left.
    destruct HN as [Hv Hnc]. split.
    + rewrite lastm_app. simpl. rewrite Hv. unfold held_sum; simpl.
      pose proof (held_sum_insert (ths s) i th
        {| t_K := (if is_acq (o_inc o) then t_K th ∪ m_view (lastm s) else t_K th); t_seen := length (msgs s);
           t_held := S (t_held th); t_mic := Idle; t_mine := t_mine th |} Hth) as Hs. simpl in Hs. unfold held_sum. lia.
    + intros i' th' H'. destruct (insert_cases _ _ _ _ _ _ Hth H') as [[-> ->]|[? H'']]; simpl; eauto.
Qed.

(* ----- decrement (drop, or release after the copy path) ----- *)
Lemma dec_inv o s i th s' :
  ords_ok o = true → Inv s → ths s !! i = Some th → (t_mic th = Idle ∨ t_mic th = RelDec) → t_held th ≥ 1 →
  dec_step o s i (set_mic Idle th) = St s' → Inv s'.
Proof.
  intros Hok HI Hth Hmic Hh Hs. unfold dec_step in Hs.
  pose proof (held_not_freed _ _ _ HI Hth Hh) as Hcf. rewrite Hcf in Hs.
  assert (HN : NoCloser s) by (eapply nocloser_of_held; eauto; by destruct Hmic as [-> | ->]).
  unfold rmw, set_held, set_mic in Hs; simpl in Hs. simplify_eq.
  assert (Hrel : is_rel (o_dec o) = true) by (unfold ords_ok in Hok; repeat (apply andb_prop in Hok as [Hok ?]); done).
  rewrite Hrel.
  destruct (phase_nofree _ Hcf (inv_phase _ HI)) as (Hbf & Hbw & Hcw).
  destruct HN as [Hv Hnc].
  set (K' := if is_acq (o_dec o) then t_K th ∪ m_view (lastm s) else t_K th).
  assert (HK : t_K th ⊆ K') by (unfold K'; destruct (is_acq _); set_solver).
  eapply (rmw_common s i th K' (t_held th - 1) _ _ HI Hth Hcf (conj Hv Hnc) Hh HK).
  - simpl. set_solver.
  - intros [E|E]; destruct (decide _); done.
  - intros _ _. simpl. pose proof (inv_mine _ HI _ _ Hth). set_solver.
  - unfold Phase, upd; simpl. rewrite Hcf. split_and!; try done.
    destruct (decide (m_val (lastm s) = 1)) as [H1|Hn1].
    + right. rewrite Hv in H1. destruct (sum_one_others _ _ _ H1 Hth Hh) as [Hth1 Hoth].
      eexists i, _. split; [apply list_lookup_insert; by eapply lookup_lt_Some|]. simpl. split; [done|]. split.
      * unfold phase_closer; simpl. rewrite lastm_app. simpl. rewrite Hv, H1. split_and!; [done|lia|].
        unfold Lidx; simpl. rewrite app_length; simpl. lia.
      * intros i' th' H' Hne. rewrite list_lookup_insert_ne in H' by done.
        specialize (Hoth _ _ H' Hne). split; [done|]. eapply noncloser_idle; eauto.
    + left. split.
      * rewrite lastm_app. simpl. rewrite Hv. unfold held_sum. simpl.
        pose proof (held_sum_insert (ths s) i th
          {| t_K := K'; t_seen := length (msgs s); t_held := t_held th - 1; t_mic := Idle; t_mine := t_mine th |} Hth) as Hs.
        simpl in Hs. pose proof (held_one _ _ _ Hth). unfold held_sum in *. lia.
      * intros i' th' H'. destruct (insert_cases _ _ _ _ _ _ Hth H') as [[-> ->]|[? H'']]; simpl; eauto.
Qed.

Lemma ok_parts o : ords_ok o = true →
  is_rel (o_dec o) = true ∧ is_acq (o_decload o) = true ∧ is_acq (o_cas_s o) = true ∧ is_acq (o_uniq o) = true.
Proof. unfold ords_ok. rewrite !andb_true_iff. tauto. Qed.

(* ----- successful compare_exchange(1, 0) of `into Vec` ----- *)
Lemma cas_inv o s i th :
  ords_ok o = true → Inv s → ths s !! i = Some th → t_mic th = Idle → t_held th ≥ 1 → m_val (lastm s) = 1 →
  let '(th', ms, _) := rmw (o_cas_s o) (λ _, 0) s th in
  Inv (upd s i (set_mic ExclCas (set_held (t_held th - 1) th')) ms).
Proof.
  intros Hok HI Hth Hmic Hh H1. destruct (ok_parts _ Hok) as (_ & _ & Hacq & _).
  unfold rmw, set_held, set_mic; simpl. rewrite Hacq.
  pose proof (held_not_freed _ _ _ HI Hth Hh) as Hcf.
  assert (HN : NoCloser s) by (eapply nocloser_of_held; eauto; by rewrite Hmic).
  destruct (phase_nofree _ Hcf (inv_phase _ HI)) as (Hbf & Hbw & Hcw).
  eapply (rmw_common s i th _ (t_held th - 1) ExclCas _ HI Hth Hcf HN Hh).
  - set_solver.
  - simpl. destruct (is_rel _); set_solver.
  - intros [?|?]; done.
  - done.
  - unfold Phase, upd; simpl. rewrite Hcf. split_and!; try done. right.
    destruct HN as [Hv Hnc]. rewrite Hv in H1. destruct (sum_one_others _ _ _ H1 Hth Hh) as [Hth1 Hoth].
    eexists i, _. split; [apply list_lookup_insert; by eapply lookup_lt_Some|]. simpl. split; [done|]. split.
    + unfold phase_closer, Pub; simpl. rewrite lastm_app. simpl. split_and!; [done|lia|].
      destruct (is_rel _); set_solver.
    + intros i' th' H' Hne. rewrite list_lookup_insert_ne in H' by done.
      specialize (Hoth _ _ H' Hne). split; [done|]. eapply noncloser_idle; eauto.
Qed.

(* ----- a load that sends the thread to the copy path ----- *)
Lemma load_copy_inv s i th K' j mj :
  Inv s → ths s !! i = Some th → t_mic th = Idle → t_held th ≥ 1 →
  msgs s !! j = Some mj → t_seen th ≤ j → t_K th ⊆ K' →
  Inv (upd s i {| t_K := K'; t_seen := j; t_held := t_held th; t_mic := Copy; t_mine := t_mine th |} (msgs s)).
Proof.
  intros HI Hth Hmic Hh Hj Hseen HK.
  pose proof (held_not_freed _ _ _ HI Hth Hh) as Hcf.
  assert (HN : NoCloser s) by (eapply nocloser_of_held; eauto; by rewrite Hmic).
  destruct (phase_nofree _ Hcf (inv_phase _ HI)) as (Hbf & Hbw & Hcw).
  eapply (load_common s i th K' j mj Copy HI Hth Hj Hseen HK); [done|done|].
  unfold Phase, upd; simpl. rewrite Hcf. split_and!; try done. left. destruct HN as [Hv Hnc]. split.
  - unfold lastm in *; simpl. rewrite Hv. unfold held_sum; simpl.
    pose proof (held_sum_insert (ths s) i th
       {| t_K := K'; t_seen := j; t_held := t_held th; t_mic := Copy; t_mine := t_mine th |} Hth) as Hs.
    simpl in Hs. lia.
  - intros i' th' H'. destruct (insert_cases _ _ _ _ _ _ Hth H') as [[-> ->]|[? H'']]; simpl; eauto.
Qed.

(* ----- the uniqueness load of `into BytesMut` returning 1: it read the LAST message ----- *)
Lemma uniq_reads_last s i th j mj :
  Inv s → ths s !! i = Some th → t_held th ≥ 1 → msgs s !! j = Some mj → t_seen th ≤ j → m_val mj = 1 →
  j = Lidx s.
Proof.
  intros HI Hth Hh Hj Hseen H1. pose proof (lookup_lt_Lidx _ _ _ Hj).
  destruct (decide (j = Lidx s)); [done|].
  pose proof (inv_i5 _ HI _ _ j mj Hth Hh Hseen ltac:(lia) Hj). lia.
Qed.

Lemma load_excl_inv o s i th j mj :
  ords_ok o = true → Inv s → ths s !! i = Some th → t_mic th = Idle → t_held th ≥ 1 →
  msgs s !! j = Some mj → t_seen th ≤ j → m_val mj = 1 →
  Inv (upd s i {| t_K := (if is_acq (o_uniq o) then t_K th ∪ m_view mj else t_K th); t_seen := j;
                  t_held := t_held th; t_mic := ExclLoad; t_mine := t_mine th |} (msgs s)).
Proof.
  intros Hok HI Hth Hmic Hh Hj Hseen H1. destruct (ok_parts _ Hok) as (_ & _ & _ & Hacq). rewrite Hacq.
  pose proof (uniq_reads_last _ _ _ _ _ HI Hth Hh Hj Hseen H1) as ->.
  rewrite Lidx_lookup_last in Hj by apply HI. simplify_eq.
  pose proof (held_not_freed _ _ _ HI Hth Hh) as Hcf.
  assert (HN : NoCloser s) by (eapply nocloser_of_held; eauto; by rewrite Hmic).
  destruct (phase_nofree _ Hcf (inv_phase _ HI)) as (Hbf & Hbw & Hcw).
  eapply (load_common s i th _ (Lidx s) (lastm s) ExclLoad HI Hth); [by apply Lidx_lookup_last, HI|done|set_solver|done|intros [?|?]; done|].
  unfold Phase, upd; simpl. rewrite Hcf. split_and!; try done. right.
  destruct HN as [Hv Hnc]. rewrite Hv in H1. destruct (sum_one_others _ _ _ H1 Hth Hh) as [Hth1 Hoth].
  eexists i, _. split; [apply list_lookup_insert; by eapply lookup_lt_Some|]. simpl. split; [done|]. split.
  - unfold phase_closer, Pub, lastm in *; simpl. split_and!; [congruence|done|set_solver].
  - intros i' th' H' Hne. rewrite list_lookup_insert_ne in H' by done.
    specialize (Hoth _ _ H' Hne). split; [done|]. eapply noncloser_idle; eauto.
Qed.

Lemma closer_is_me s i th :
  Inv s → ths s !! i = Some th → closer (t_mic th) = true →
  cb_freed s = false ∧ buf_freed s = false ∧ buf_w s = ∅ ∧ cb_w s = ∅ ∧ phase_closer s th ∧
  ∀ i' th', ths s !! i' = Some th' → i' ≠ i → t_held th' = 0 ∧ t_mic th' = Idle.
Proof.
  intros HI Hth Hc. pose proof (inv_phase _ HI) as HP. unfold Phase in HP.
  destruct (cb_freed s).
  { destruct (HP _ _ Hth) as [_ E]. rewrite E in Hc. done. }
  destruct HP as (? & ? & ? & [[_ Hnc]|(i0 & th0 & Hq0 & Hc0 & Hp0 & Hoth)]).
  { rewrite (Hnc _ _ Hth) in Hc. done. }
  destruct (decide (i0 = i)) as [->|Hne]; [simplify_eq; done|].
  destruct (Hoth _ _ Hth) as [_ E]; [done|]. rewrite E in Hc. done.
Qed.

(* a closer knows every event once it has acquired Pub *)
Lemma closer_all_known s i th :
  Inv s → ths s !! i = Some th → closer (t_mic th) = true → Pub s ⊆ t_K th → all_known s th.
Proof.
  intros HI Hth Hc HPub. destruct (closer_is_me _ _ _ HI Hth Hc) as (Hcf & _ & _ & _ & _ & Hoth).
  unfold all_known. intros e He. destruct (inv_evs _ HI e He) as (i0 & th0 & Hq0 & Hin).
  destruct (decide (i0 = i)) as [->|Hne].
  - simplify_eq. by apply (inv_mine _ HI _ _ Hth).
  - destruct (Hoth _ _ Hq0 Hne) as [Hh0 Hm0]. apply HPub. by apply (inv_pub _ HI Hcf _ _ Hq0 Hh0 Hm0).
Qed.

(* ----- the Acquire load after fetch_sub returned 1 ----- *)
Lemma dropload_inv o s i th j mj :
  ords_ok o = true → Inv s → ths s !! i = Some th → t_mic th = DropLoad →
  msgs s !! j = Some mj → t_seen th ≤ j →
  Inv (upd s i {| t_K := (if is_acq (o_decload o) then t_K th ∪ m_view mj else t_K th); t_seen := j;
                  t_held := t_held th; t_mic := DoFree; t_mine := t_mine th |} (msgs s)).
Proof.
  intros Hok HI Hth Hmic Hj Hseen. destruct (ok_parts _ Hok) as (_ & Hacq & _ & _). rewrite Hacq.
  destruct (closer_is_me _ _ _ HI Hth ltac:(by rewrite Hmic)) as (Hcf & Hbf & Hbw & Hcw & Hp & Hoth).
  unfold phase_closer in Hp. rewrite Hmic in Hp. destruct Hp as (Hv & Hh & Hs).
  pose proof (lookup_lt_Lidx _ _ _ Hj). assert (j = Lidx s) as -> by lia.
  rewrite Lidx_lookup_last in Hj by apply HI. simplify_eq.
  eapply (load_common s i th _ (Lidx s) (lastm s) DoFree HI Hth); [by apply Lidx_lookup_last, HI|lia|set_solver|done|intros [?|?]; done|].
  unfold Phase, upd; simpl. rewrite Hcf. split_and!; try done. right.
  eexists i, _. split; [apply list_lookup_insert; by eapply lookup_lt_Some|]. simpl. split; [done|]. split.
  - unfold phase_closer, Pub, lastm in *; simpl. split_and!; [done|done|set_solver].
  - intros i' th' H' Hne. rewrite list_lookup_insert_ne in H' by done. eauto.
Qed.

(* ----- final steps: free everything / take the buffer exclusively ----- *)
Lemma final_inv s i th (bf : bool) :
  Inv s → ths s !! i = Some th → closer (t_mic th) = true → t_held th ≤ 1 →
  let e := next_ev s in
  Inv {| msgs := msgs s; next_ev := S e; buf_r := buf_r s; buf_w := {[e]} ∪ buf_w s; cb_r := cb_r s; cb_w := {[e]} ∪ cb_w s;
         cb_freed := true; buf_freed := bf;
         ths := <[i := set_mic Idle (set_held 0 (add_ev e th))]> (ths s) |}.
Proof.
  intros HI Hth Hc Hh e.
  destruct (closer_is_me _ _ _ HI Hth Hc) as (Hcf & Hbf & Hbw & Hcw & Hp & Hoth).
  destruct HI as [I1 I2 I3 I4 I5 I6 I7 I8].
  constructor; simpl; try done.
  - intros i' th' H. destruct (insert_cases _ _ _ _ _ _ Hth H) as [[-> ->]|[? H']]; simpl; eauto.
  - intros i' th' H. destruct (insert_cases _ _ _ _ _ _ Hth H) as [[-> ->]|[? H']]; simpl; eauto.
    specialize (I3 _ _ Hth). set_solver.
  - intros e0 He. destruct (decide (e0 = e)) as [->|Hne].
    + eexists i, _. split; [apply list_lookup_insert; by eapply lookup_lt_Some|]. simpl. set_solver.
    + destruct (I4 e0) as (i0 & th0 & Hq0 & Hin); [set_solver|].
      destruct (decide (i0 = i)) as [->|Hn0].
      * simplify_eq. eexists i, _. split; [apply list_lookup_insert; by eapply lookup_lt_Some|]. simpl. set_solver.
      * exists i0, th0. split; [|done]. by rewrite list_lookup_insert_ne.
  - intros i' th' H Hmic. destruct (insert_cases _ _ _ _ _ _ Hth H) as [[-> ->]|[? H']]; simpl in *; [|eauto].
    destruct Hmic; done.
  - intros i' th' j m0 H Hh' Hseen Hj Hl.
    destruct (insert_cases _ _ _ _ _ _ Hth H) as [[-> ->]|[Hne H']]; simpl in *; [lia|].
    destruct (Hoth _ _ H' Hne). lia.
  - unfold Phase; simpl. intros i' th' H.
    destruct (insert_cases _ _ _ _ _ _ Hth H) as [[-> ->]|[Hne H']]; simpl; [done|eauto].
Qed.

Lemma load_Some o j s th th' v :
  load o j s th = Some (th', v) →
  ∃ mj, msgs s !! j = Some mj ∧ t_seen th ≤ j ∧ v = m_val mj ∧
        th' = {| t_K := (if is_acq o then t_K th ∪ m_view mj else t_K th); t_seen := j;
                 t_held := t_held th; t_mic := t_mic th; t_mine := t_mine th |}.
Proof.
  unfold load. intros H. destruct (msgs s !! j) as [mj|] eqn:E; simpl in H; [|done].
  destruct (decide _); [|done]. simplify_eq. eauto.
Qed.

Theorem step_inv o s i a s' : ords_ok o = true → Inv s → tstep o s i a = Some (St s') → Inv s'.
Proof.
  intros Hok HI Hs. unfold tstep in Hs.
  destruct (ths s !! i) as [th|] eqn:Hth; simpl in Hs; [|done].
  destruct (t_mic th) eqn:Hmic; destruct a; try done.
  - (* clone *)
    destruct (decide (t_held th = 0)); [done|]. destruct (cb_freed s) eqn:Hcf; [done|].
    pose proof (clone_inv o s i th HI Hth Hmic ltac:(lia)) as H.
    unfold rmw, set_held, set_mic in *; simpl in *. rewrite Hmic in H. by simplify_eq.
  - (* read *)
    destruct (decide (t_held th = 0)); [done|]. simplify_eq.
    eapply (read_inv s i th Idle s' HI Hth); [lia|by left|done].
  - (* drop *)
    destruct (decide (t_held th = 0)); [done|]. simplify_eq.
    eapply (dec_inv o s i th s' Hok HI Hth); [by left|lia|].
    assert (set_mic Idle th = th) as -> by (destruct th; simpl in *; by subst). done.
  - (* into Vec: CAS succeeds *)
    destruct (decide (t_held th = 0)); [done|]. destruct (cb_freed s) eqn:Hcf; [done|].
    destruct (decide (m_val (lastm s) = 1)) as [H1|]; [|done].
    pose proof (cas_inv o s i th Hok HI Hth Hmic ltac:(lia) H1) as H.
    unfold rmw, set_held, set_mic in *; simpl in *. rewrite ?Hmic in H. by simplify_eq.
  - (* into Vec: CAS fails *)
    destruct (decide (t_held th = 0)); [done|]. destruct (cb_freed s) eqn:Hcf; [done|].
    destruct (load (o_cas_f o) j s th) as [[th' v]|] eqn:El; simpl in Hs; [|done].
    destruct (decide (v = 1)); [done|]. simplify_eq.
    apply load_Some in El as (mj & Hj & Hseen & -> & ->). unfold set_mic; simpl.
    eapply (load_copy_inv s i th _ j mj HI Hth Hmic); [lia|done|done|]. destruct (is_acq _); set_solver.
  - (* into BytesMut: uniqueness load *)
    destruct (decide (t_held th = 0)); [done|]. destruct (cb_freed s) eqn:Hcf; [done|].
    destruct (load (o_uniq o) j s th) as [[th' v]|] eqn:El; simpl in Hs; [|done]. simplify_eq.
    apply load_Some in El as (mj & Hj & Hseen & -> & ->). unfold set_mic; simpl.
    destruct (decide (m_val mj = 1)) as [H1|Hn1].
    + eapply (load_excl_inv o s i th j mj Hok HI Hth Hmic); [lia|done|done|done].
    + eapply (load_copy_inv s i th _ j mj HI Hth Hmic); [lia|done|done|]. destruct (is_acq _); set_solver.
  - (* load after the last decrement *)
    destruct (cb_freed s) eqn:Hcf; [done|].
    destruct (load (o_decload o) j s th) as [[th' v]|] eqn:El; simpl in Hs; [|done]. simplify_eq.
    apply load_Some in El as (mj & Hj & Hseen & -> & ->). unfold set_mic; simpl.
    eapply (dropload_inv o s i th j mj Hok HI Hth Hmic); done.
  - (* free *)
    destruct (cb_freed s || buf_freed s); [done|]. destruct (decide (all_known s th)); [|done]. simplify_eq.
    destruct (closer_is_me _ _ _ HI Hth ltac:(by rewrite Hmic)) as (_ & _ & _ & _ & Hp & _).
    unfold phase_closer in Hp; rewrite Hmic in Hp. destruct Hp as (_ & Hh & _).
    pose proof (final_inv s i th true HI Hth ltac:(by rewrite Hmic) ltac:(lia)) as H. simpl in H.
    assert (set_held 0 (add_ev (next_ev s) th) = add_ev (next_ev s) th) as E
      by (destruct th; simpl in *; by subst). by rewrite E in H.
  - (* exclusive owner after CAS *)
    destruct (cb_freed s || buf_freed s) eqn:E1; [done|]. destruct (decide (all_known s th)); [|done]. simplify_eq.
    apply orb_false_elim in E1 as [_ ->].
    destruct (closer_is_me _ _ _ HI Hth ltac:(by rewrite Hmic)) as (_ & _ & _ & _ & Hp & _).
    unfold phase_closer in Hp; rewrite Hmic in Hp. destruct Hp as (_ & Hh & _).
    apply (final_inv s i th false HI Hth ltac:(by rewrite Hmic) ltac:(lia)).
  - (* exclusive owner after uniqueness load *)
    destruct (cb_freed s || buf_freed s) eqn:E1; [done|]. destruct (decide (all_known s th)); [|done]. simplify_eq.
    apply orb_false_elim in E1 as [_ ->].
    destruct (closer_is_me _ _ _ HI Hth ltac:(by rewrite Hmic)) as (_ & _ & _ & _ & Hp & _).
    unfold phase_closer in Hp; rewrite Hmic in Hp. destruct Hp as (_ & Hh & _).
    apply (final_inv s i th false HI Hth ltac:(by rewrite Hmic) ltac:(lia)).
  - (* copy path: read *)
    simplify_eq.
    pose proof (inv_copy _ HI _ _ Hth ltac:(by left)) as Hh.
    eapply (read_inv s i th RelDec s' HI Hth Hh); [by right|done].
  - (* copy path: release *)
    simplify_eq. pose proof (inv_copy _ HI _ _ Hth ltac:(by right)) as Hh.
    eapply (dec_inv o s i th s' Hok HI Hth); [by right|done|done].
Qed.

Theorem reach_inv o helds s : ords_ok o = true → reach o helds s → Inv s.
Proof. intros Hok H. induction H; [apply init_inv|eapply step_inv; eauto]. Qed.

Theorem step_safe o s i a : ords_ok o = true → Inv s → tstep o s i a ≠ Some Race ∧ tstep o s i a ≠ Some UAF.
Proof.
  intros Hok HI. unfold tstep.
  destruct (ths s !! i) as [th|] eqn:Hth; [|done].
  assert (Hread : t_held th ≥ 1 → closer (t_mic th) = false → ∀ m, do_buf_read s i th m ≠ Race ∧ do_buf_read s i th m ≠ UAF).
  { intros Hh Hc m. unfold do_buf_read.
    pose proof (held_not_freed _ _ _ HI Hth Hh) as Hcf.
    destruct (phase_nofree _ Hcf (inv_phase _ HI)) as (-> & -> & _).
    destruct (decide (∅ ⊆ t_K th)) as [|Hn]; [done|]. exfalso. apply Hn. set_solver. }
  assert (Hdec : t_held th ≥ 1 → ∀ th0, dec_step o s i th0 ≠ Race ∧ dec_step o s i th0 ≠ UAF).
  { intros Hh th0. unfold dec_step. rewrite (held_not_freed _ _ _ HI Hth Hh). unfold rmw. done. }
  assert (Hfin : closer (t_mic th) = true → Pub s ⊆ t_K th → cb_freed s || buf_freed s = false ∧ all_known s th).
  { intros Hc HP. destruct (closer_is_me _ _ _ HI Hth Hc) as (-> & -> & _). split; [done|]. by eapply closer_all_known. }
  assert (Hload : ∀ oo j (f : thread * nat → option outcome),
            (∀ x, f x ≠ Some Race ∧ f x ≠ Some UAF) →
            (load oo j s th ≫= f) ≠ Some Race ∧ (load oo j s th ≫= f) ≠ Some UAF).
  { intros oo j f Hf. destruct (load oo j s th) as [x|]; simpl; [apply Hf|done]. }
  cbn [mbind option_bind].
  destruct (t_mic th) eqn:Hmic; destruct a; try done;
    try (destruct (decide (t_held th = 0)); [done|]);
    try (rewrite (held_not_freed _ _ _ HI Hth ltac:(lia))).
  - unfold rmw. done.
  - destruct (Hread ltac:(lia) eq_refl Idle). split; congruence.
  - destruct (Hdec ltac:(lia) th). split; congruence.
  - destruct (decide _); [|done]. unfold rmw. done.
  - apply Hload. intros [? ?]. destruct (decide _); done.
  - apply Hload. intros [? ?]. done.
  - destruct (closer_is_me _ _ _ HI Hth ltac:(by rewrite Hmic)) as (-> & _).
    apply Hload. intros [? ?]. done.
  - destruct (closer_is_me _ _ _ HI Hth ltac:(by rewrite Hmic)) as (_ & _ & _ & _ & Hp & _).
    unfold phase_closer in Hp; rewrite Hmic in Hp. destruct Hp as (_ & _ & HP).
    destruct (Hfin eq_refl HP) as [-> Hk]. destruct (decide (all_known s th)); done.
  - destruct (closer_is_me _ _ _ HI Hth ltac:(by rewrite Hmic)) as (_ & _ & _ & _ & Hp & _).
    unfold phase_closer in Hp; rewrite Hmic in Hp. destruct Hp as (_ & _ & HP).
    destruct (Hfin eq_refl HP) as [-> Hk]. destruct (decide (all_known s th)); done.
  - destruct (closer_is_me _ _ _ HI Hth ltac:(by rewrite Hmic)) as (_ & _ & _ & _ & Hp & _).
    unfold phase_closer in Hp; rewrite Hmic in Hp. destruct Hp as (_ & _ & HP).
    destruct (Hfin eq_refl HP) as [-> Hk]. destruct (decide (all_known s th)); done.
  - pose proof (inv_copy _ HI _ _ Hth ltac:(by left)) as Hh.
    destruct (Hread Hh eq_refl RelDec). split; congruence.
  - pose proof (inv_copy _ HI _ _ Hth ltac:(by right)) as Hh.
    destruct (Hdec Hh (set_mic Idle th)). split; congruence.
Qed.

(* The property for the core protocol: for ANY number of threads holding ANY number of handles,
   ANY programs, ANY interleaving and ANY stale reads: no data race, no use-after-free. *)
Theorem race_free o helds s i a :
  ords_ok o = true → reach o helds s → tstep o s i a ≠ Some Race ∧ tstep o s i a ≠ Some UAF.
Proof. intros Hok Hr. apply step_safe; [done|]. by eapply reach_inv. Qed.


(* tightness: with fetch_sub weakened to Relaxed a race is reachable *)
Fixpoint run (o : ords) (s : state) (tr : list (nat * act)) : option outcome :=
  match tr with
  | [] => Some (St s)
  | (i, a) :: tr => match tstep o s i a with Some (St s') => run o s' tr | r => r end
  end.
Definition code_ords := {| o_inc := Rlx; o_dec := Rel; o_decload := Acq; o_cas_s := AcqRel; o_cas_f := Rlx; o_uniq := Acq |}.
Definition weak_dec := {| o_inc := Rlx; o_dec := Rlx; o_decload := Acq; o_cas_s := AcqRel; o_cas_f := Rlx; o_uniq := Acq |}.
Definition racy_trace : list (nat * act) :=
  [(1, AToVecF 0); (1, AStep 0); (1, AStep 0); (0, ADrop); (0, AStep 2); (0, AStep 0)].
Example code_ok : ords_ok code_ords = true. Proof. reflexivity. Qed.
Example weak_dec_refuted : run weak_dec (init_state [1; 1]) racy_trace = Some Race.
Proof. vm_compute. reflexivity. Qed.
Example code_same_trace_fine : ∃ s, run code_ords (init_state [1; 1]) racy_trace = Some (St s) ∧ cb_freed s = true.
Proof. vm_compute. eexists. split; reflexivity. Qed.

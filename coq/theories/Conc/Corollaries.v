(* Corollaries of the core invariant used by the statements of C05. *)
From stdpp Require Import gmap list sets.
From Coq Require Import Lia.
From BV.Conc Require Import Core CoreInv.

(* at most one thread is ever on an exclusive / freeing path, and then nobody else holds a reference *)
Theorem at_most_one_closer o helds s i j th th' : ords_ok o = true -> reach o helds s ->
  ths s !! i = Some th -> ths s !! j = Some th' -> closer (t_mic th) = true -> closer (t_mic th') = true -> i = j.
Proof.
  intros Hok Hr Hi Hj Hc Hc'. pose proof (reach_inv _ _ _ Hok Hr) as HI. pose proof (inv_phase _ HI) as HP. unfold Phase in HP.
  destruct (cb_freed s).
  - destruct (HP _ _ Hi) as [_ Hm]. rewrite Hm in Hc. done.
  - destruct HP as (_ & _ & _ & [[_ Hno]|(i0 & th0 & H0 & _ & _ & Hoth)]).
    + specialize (Hno _ _ Hi). congruence.
    + destruct (decide (i = i0)) as [->|Hne]; [|destruct (Hoth _ _ Hi Hne) as [_ Hm]; rewrite Hm in Hc; done].
      destruct (decide (j = i0)) as [->|Hne]; [done|destruct (Hoth _ _ Hj Hne) as [_ Hm]; rewrite Hm in Hc'; done].
Qed.
Theorem exclusive_owner_is_alone o helds s i th j th' : ords_ok o = true -> reach o helds s ->
  ths s !! i = Some th -> closer (t_mic th) = true -> ths s !! j = Some th' -> j <> i -> t_held th' = 0 /\ t_mic th' = Idle.
Proof.
  intros Hok Hr Hi Hc Hj Hne. pose proof (reach_inv _ _ _ Hok Hr) as HI. pose proof (inv_phase _ HI) as HP. unfold Phase in HP.
  destruct (cb_freed s); [by apply (HP _ _ Hj)|].
  destruct HP as (_ & _ & _ & [[_ Hno]|(i0 & th0 & H0 & _ & _ & Hoth)]); [specialize (Hno _ _ Hi); congruence|].
  destruct (decide (i = i0)) as [->|Hn0]; [exact (Hoth _ _ Hj Hne)|]. destruct (Hoth _ _ Hi Hn0) as [_ Hm]. rewrite Hm in Hc. done.
Qed.
(* while the control block is alive nobody has written the buffer: every read returns the bytes the handles were created over *)
Theorem no_write_while_shared o helds s : ords_ok o = true -> reach o helds s -> cb_freed s = false -> buf_w s = ∅ /\ buf_freed s = false.
Proof.
  intros Hok Hr Hf. pose proof (reach_inv _ _ _ Hok Hr) as HI. pose proof (inv_phase _ HI) as HP. unfold Phase in HP. rewrite Hf in HP. tauto.
Qed.
(* once the control block is gone every thread has finished: no reference is left, nothing can touch the storage again *)
Theorem after_close_all_done o helds s i th : ords_ok o = true -> reach o helds s -> cb_freed s = true -> ths s !! i = Some th -> t_held th = 0 /\ t_mic th = Idle.
Proof.
  intros Hok Hr Hf Hi. pose proof (reach_inv _ _ _ Hok Hr) as HI. pose proof (inv_phase _ HI) as HP. unfold Phase in HP. rewrite Hf in HP. by apply (HP _ _ Hi).
Qed.

From stdpp Require Import gmap list sets.
From Coq Require Import Lia.
From BV.Conc Require Import Cells CellsInv.

(* ----- freeze ----- *)
Lemma freeze_inv s i th j h :
  Inv s → ths s !! i = Some th → t_mic th = Idle → t_hs th !! j = Some h →
  Inv (upd s i (mk (t_K th) (t_seen th) (<[j := {| h_cells := h_cells h; h_mut := false |}]> (t_hs th)) (t_next th) Idle (t_mine th)) (msgs s)).
Proof.
  intros HI Hth Hmic Hj.
  assert (Hheld : held th ≥ 1) by (by eapply held_pos_lookup).
  assert (HN : NoCloser s) by (eapply nocloser_of_idle_held; eauto).
  pose proof (held_not_freed _ _ _ HI Hth Hheld) as Hfr.
  assert (Hsz : size (<[j := {| h_cells := h_cells h; h_mut := false |}]> (t_hs th)) = held th) by (apply map_size_insert_Some; eauto).
  eapply (plain_common s i th _ _ _ Idle HI Hth); [done|apply (inv_seen _ HI _ _ Hth)|done| |done| | | |].
  - intros He. exfalso. apply (insert_non_empty _ _ _ He).
  - intros j0 h0 H0. destruct (decide (j0 = j)) as [->|?]; [by eapply (inv_keys _ HI)|].
    rewrite lookup_insert_ne in H0 by done. by eapply (inv_keys _ HI).
  - intros j0 h0 c H0 Hc. destruct (decide (j0 = j)) as [->|?].
    + rewrite lookup_insert in H0. simplify_eq. exists j, h. simpl in *. split_and!; done.
    + rewrite lookup_insert_ne in H0 by done. exists j0, h0. done.
  - intros j1 j2 h1 h2 Hne H1 H2 Hm1.
    destruct (decide (j1 = j)) as [->|?]; [rewrite lookup_insert in H1; by simplify_eq|]. rewrite lookup_insert_ne in H1 by done.
    destruct (decide (j2 = j)) as [->|?].
    + rewrite lookup_insert in H2. simplify_eq. simpl. by eapply (disj_in_old _ _ _ HI Hth j1 j).
    + rewrite lookup_insert_ne in H2 by done. by eapply (disj_in_old _ _ _ HI Hth j1 j2).
  - unfold Phase, upd; simpl. rewrite Hfr. left. destruct HN as [Hv Hnc]. split.
    + unfold lastm, held_sum in *; simpl. rewrite Hv.
      match goal with |- context [<[i := ?t]> (ths s)] =>
        pose proof (held_sum_insert (ths s) i th t Hth) as Hs; assert (Hsz2 : held t = held th) by (unfold held at 1; simpl; exact Hsz) end.
      lia.
    + intros i' th' H'. destruct (insert_cases _ _ _ _ _ _ Hth H') as [[-> ->]|[? H'']]; simpl; eauto.
Qed.

(* ----- drop ----- *)
Lemma drop_inv o s i th j h :
  ords_ok o = true → Inv s → ths s !! i = Some th → t_mic th = Idle → t_hs th !! j = Some h → freed s = false →
  let '(K', ms, old) := rmw (o_dec o) pred s th in
  Inv (upd s i (mk K' (length (msgs s)) (delete j (t_hs th)) (t_next th) (if decide (old = 1) then DropLoad else Idle) (t_mine th)) ms).
Proof.
  intros Hok HI Hth Hmic Hj Hfr. destruct (ok_parts _ Hok) as (Hrel & _ & _). unfold rmw. rewrite Hrel.
  assert (Hheld : held th ≥ 1) by (by eapply held_pos_lookup).
  assert (HN : NoCloser s) by (eapply nocloser_of_idle_held; eauto).
  set (K' := if is_acq (o_dec o) then t_K th ∪ m_view (lastm s) else t_K th).
  assert (HK : t_K th ⊆ K') by (unfold K'; destruct (is_acq _); set_solver).
  assert (Hsz : size (delete j (t_hs th)) = held th - 1) by (unfold held; rewrite map_size_delete, Hj; simpl; lia).
  eapply (rmw_common s i th K' _ _ _ _ HI Hth Hfr HN Hheld HK).
  - simpl. set_solver.
  - intros _ _. simpl. pose proof (inv_mine _ HI _ _ Hth). set_solver.
  - intros j0 h0 H0. apply lookup_delete_Some in H0 as [_ H0]. by eapply (inv_keys _ HI).
  - apply derived_self. intros j0 h0 H0. by apply lookup_delete_Some in H0 as [_ H0].
  - intros j1 j2 h1 h2 Hne H1 H2 Hm1. apply lookup_delete_Some in H1 as [_ H1]. apply lookup_delete_Some in H2 as [_ H2].
    by eapply (disj_in_old _ _ _ HI Hth j1 j2).
  - unfold Phase, upd; simpl. rewrite Hfr. destruct HN as [Hv Hnc].
    destruct (decide (m_val (lastm s) = 1)) as [H1|Hn1].
    + right. rewrite Hv in H1. destruct (sum_one_others _ _ _ H1 Hth Hheld) as [Hth1 Hoth].
      eexists i, _. split; [apply list_lookup_insert; by eapply lookup_lt_Some|]. simpl. split; [done|]. split.
      * unfold phase_closer; simpl. rewrite lastm_app. simpl. rewrite Hv, H1. split_and!; [done| |].
        -- apply map_size_empty_inv. rewrite Hsz. lia.
        -- unfold Lidx; simpl. rewrite app_length; simpl. lia.
      * intros i' th' H' Hne. rewrite list_lookup_insert_ne in H' by done. split; [by eapply Hoth|by eapply Hnc].
    + left. split.
      * rewrite lastm_app. simpl. rewrite Hv. unfold held_sum; simpl.
        match goal with |- context [<[i := ?t]> (ths s)] =>
          pose proof (held_sum_insert (ths s) i th t Hth) as Hs; assert (Hsz2 : held t = held th - 1) by (unfold held at 1; simpl; exact Hsz) end.
        pose proof (held_one _ _ _ Hth). unfold held_sum in *. lia.
      * intros i' th' H'. destruct (insert_cases _ _ _ _ _ _ Hth H') as [[-> ->]|[? H'']]; simpl; [|eauto].
        done.
Qed.

(* ----- BytesMut::unsplit: one handle of the thread absorbs another one's cells; one reference is released, never the last ----- *)
Lemma unsplit_inv o s i th j1 j2 h1 h2 :
  ords_ok o = true → Inv s → ths s !! i = Some th → t_mic th = Idle → t_hs th !! j1 = Some h1 → t_hs th !! j2 = Some h2 → j1 ≠ j2 →
  h_mut h1 = true → h_mut h2 = true → freed s = false →
  let '(K', ms, old) := rmw (o_dec o) pred s th in
  Inv (upd s i (mk K' (length (msgs s)) (<[j1 := {| h_cells := h_cells h1 ∪ h_cells h2; h_mut := true |}]> (delete j2 (t_hs th))) (t_next th)
         (if decide (old = 1) then DropLoad else Idle) (t_mine th)) ms).
Proof.
  intros Hok HI Hth Hmic Hj1 Hj2 Hne Hm1 Hm2 Hfr. destruct (ok_parts _ Hok) as (Hrel & _ & _). unfold rmw. rewrite Hrel.
  assert (Hheld : held th ≥ 2).
  { unfold held. rewrite <- (insert_id (t_hs th) j1 h1 Hj1). rewrite <- (insert_delete_insert (t_hs th)). rewrite map_size_insert_None by (by rewrite lookup_delete).
    assert (delete j1 (t_hs th) !! j2 = Some h2) as H2 by (by rewrite lookup_delete_ne). pose proof (map_size_empty_iff (delete j1 (t_hs th))) as He.
    destruct (size (delete j1 (t_hs th))) eqn:Es; [|lia]. destruct He as [He _]. rewrite (He eq_refl) in H2. by rewrite lookup_empty in H2. }
  assert (HN : NoCloser s) by (eapply nocloser_of_idle_held; eauto; lia).
  set (K' := if is_acq (o_dec o) then t_K th ∪ m_view (lastm s) else t_K th).
  assert (HK : t_K th ⊆ K') by (unfold K'; destruct (is_acq _); set_solver).
  set (hs' := <[j1 := {| h_cells := h_cells h1 ∪ h_cells h2; h_mut := true |}]> (delete j2 (t_hs th))).
  assert (Hsz : size hs' = held th - 1).
  { unfold hs', held. rewrite map_size_insert_Some by (rewrite lookup_delete_ne by done; eauto). rewrite map_size_delete, Hj2. simpl. lia. }
  assert (Hlk : ∀ j0 h0, hs' !! j0 = Some h0 → (j0 = j1 ∧ h0 = {| h_cells := h_cells h1 ∪ h_cells h2; h_mut := true |}) ∨ (j0 ≠ j1 ∧ j0 ≠ j2 ∧ t_hs th !! j0 = Some h0)).
  { intros j0 h0 H0. unfold hs' in H0. destruct (decide (j0 = j1)) as [->|?]; [rewrite lookup_insert in H0; simplify_eq; by left|].
    rewrite lookup_insert_ne in H0 by done. apply lookup_delete_Some in H0 as [? H0]. right. done. }
  assert (Hval : m_val (lastm s) ≠ 1). { destruct HN as [Hv _]. rewrite Hv. pose proof (held_one _ _ _ Hth). lia. }
  destruct (decide (m_val (lastm s) = 1)) as [?|_]; [done|].
  eapply (rmw_common s i th K' hs' _ Idle _ HI Hth Hfr HN ltac:(lia) HK).
  - simpl. set_solver.
  - intros He. exfalso. assert (size hs' = 0) by (by rewrite He, map_size_empty). lia.
  - intros j0 h0 H0. destruct (Hlk _ _ H0) as [[-> _]|(_ & _ & H1)]; by eapply (inv_keys _ HI).
  - intros j0 h0 c H0 Hc. destruct (Hlk _ _ H0) as [[-> ->]|(_ & _ & H1)]; [|exists j0, h0; done].
    simpl in Hc. apply elem_of_union in Hc as [Hc|Hc]; [exists j1, h1|exists j2, h2]; done.
  - intros ja jb ha hb Hab Ha Hb Hma.
    destruct (Hlk _ _ Ha) as [[-> ->]|(Ha1 & Ha2 & Ha')]; destruct (Hlk _ _ Hb) as [[-> ->]|(Hb1 & Hb2 & Hb')]; cbn [h_cells h_mut] in *.
    + done.
    + pose proof (disj_in_old _ _ _ HI Hth j1 jb h1 hb ltac:(done) Hj1 Hb' Hm1). pose proof (disj_in_old _ _ _ HI Hth j2 jb h2 hb ltac:(done) Hj2 Hb' Hm2). set_solver.
    + pose proof (disj_in_old _ _ _ HI Hth ja j1 ha h1 ltac:(done) Ha' Hj1 Hma). pose proof (disj_in_old _ _ _ HI Hth ja j2 ha h2 ltac:(done) Ha' Hj2 Hma). set_solver.
    + by eapply (disj_in_old _ _ _ HI Hth ja jb).
  - unfold Phase, upd; simpl. rewrite Hfr. destruct HN as [Hv Hnc]. left. split.
    + rewrite lastm_app. simpl. rewrite Hv. unfold held_sum; simpl.
      match goal with |- context [<[i := ?t]> (ths s)] =>
        pose proof (held_sum_insert (ths s) i th t Hth) as Hs; assert (Hsz2 : held t = held th - 1) by (unfold held at 1; simpl; exact Hsz) end.
      pose proof (held_one _ _ _ Hth). unfold held_sum in *. lia.
    + intros i' th' H'. destruct (insert_cases _ _ _ _ _ _ Hth H') as [[-> ->]|[? H'']]; simpl; [done|eauto].
Qed.

(* ----- the uniqueness load of try_reclaim / reserve ----- *)
Lemma uniq_reads_last s i th k m :
  Inv s → ths s !! i = Some th → held th ≥ 1 → msgs s !! k = Some m → t_seen th ≤ k → m_val m = 1 → k = Lidx s.
Proof.
  intros HI Hth Hh Hk Hseen H1. pose proof (lookup_lt_Lidx _ _ _ Hk). destruct (decide (k = Lidx s)); [done|].
  pose proof (inv_i5 _ HI _ _ k m Hth Hh Hseen ltac:(lia) Hk). lia.
Qed.

Lemma try_reclaim_inv o s i th j h k m :
  ords_ok o = true → Inv s → ths s !! i = Some th → t_mic th = Idle → t_hs th !! j = Some h →
  msgs s !! k = Some m → t_seen th ≤ k →
  Inv (upd s i (mk (if is_acq (o_uniq o) then t_K th ∪ m_view m else t_K th) k (t_hs th) (t_next th)
                   (if decide (m_val m = 1) then Reclaim else Idle) (t_mine th)) (msgs s)).
Proof.
  intros Hok HI Hth Hmic Hj Hk Hseen. destruct (ok_parts _ Hok) as (_ & _ & Hacq). rewrite Hacq.
  assert (Hheld : held th ≥ 1) by (by eapply held_pos_lookup).
  assert (HN : NoCloser s) by (eapply nocloser_of_idle_held; eauto).
  pose proof (held_not_freed _ _ _ HI Hth Hheld) as Hfr.
  eapply (plain_common s i th _ k _ _ HI Hth Hseen); [by eapply lookup_lt_Lidx|set_solver| |done| | | |].
  - intros He. rewrite He in Hj. done.
  - intros j0 h0 H0. by eapply (inv_keys _ HI).
  - by apply derived_self.
  - by eapply disj_in_old.
  - unfold Phase, upd; simpl. rewrite Hfr. destruct HN as [Hv Hnc].
    destruct (decide (m_val m = 1)) as [H1|Hn1].
    + pose proof (uniq_reads_last _ _ _ _ _ HI Hth Hheld Hk Hseen H1) as ->.
      rewrite Lidx_lookup_last in Hk by apply HI. simplify_eq. rewrite Hv in H1.
      destruct (sum_one_others _ _ _ H1 Hth Hheld) as [Hth1 Hoth].
      right. eexists i, _. split; [apply list_lookup_insert; by eapply lookup_lt_Some|]. simpl. split; [done|]. split.
      * unfold phase_closer, Pub, lastm, held in *; simpl. split_and!; [congruence|done|set_solver].
      * intros i' th' H' Hne. rewrite list_lookup_insert_ne in H' by done. split; [by eapply Hoth|by eapply Hnc].
    + left. split.
      * unfold lastm, held_sum in *; simpl. rewrite Hv.
        match goal with |- context [<[i := ?t]> (ths s)] =>
          pose proof (held_sum_insert (ths s) i th t Hth) as Hs; assert (Hsz2 : held t = held th) by done end.
        lia.
      * intros i' th' H'. destruct (insert_cases _ _ _ _ _ _ Hth H') as [[-> ->]|[? H'']]; simpl; eauto.
Qed.

(* ----- closer threads ----- *)
Lemma closer_is_me s i th :
  Inv s → ths s !! i = Some th → closer (t_mic th) = true →
  freed s = false ∧ phase_closer s th ∧ ∀ i' th', ths s !! i' = Some th' → i' ≠ i → t_hs th' = ∅ ∧ t_mic th' = Idle.
Proof.
  intros HI Hth Hc. pose proof (inv_phase _ HI) as HP. unfold Phase in HP.
  destruct (freed s).
  { destruct (HP _ _ Hth) as [_ E]. rewrite E in Hc. done. }
  destruct HP as [[_ Hnc]|(i0 & th0 & Hq0 & Hc0 & Hp0 & Hoth)].
  { rewrite (Hnc _ _ Hth) in Hc. done. }
  destruct (decide (i0 = i)) as [->|Hne]; [simplify_eq; done|].
  destruct (Hoth _ _ Hth) as [_ E]; [done|]. rewrite E in Hc. done.
Qed.

Lemma closer_knows_all s i th :
  Inv s → ths s !! i = Some th → closer (t_mic th) = true → Pub s ⊆ t_K th → ∀ c, acc s c ⊆ t_K th.
Proof.
  intros HI Hth Hc HPub c e He. destruct (closer_is_me _ _ _ HI Hth Hc) as (Hfr & _ & Hoth).
  destruct (inv_evs _ HI c e He) as (i0 & th0 & Hq0 & Hin). destruct (decide (i0 = i)) as [->|Hne].
  - simplify_eq. by apply (inv_mine _ HI _ _ Hth).
  - destruct (Hoth _ _ Hq0 Hne) as [Hh0 Hm0]. apply HPub. by apply (inv_pub _ HI Hfr _ _ Hq0 Hh0 Hm0).
Qed.

Lemma dropload_inv o s i th k m :
  ords_ok o = true → Inv s → ths s !! i = Some th → t_mic th = DropLoad → msgs s !! k = Some m → t_seen th ≤ k →
  Inv (upd s i (mk (if is_acq (o_decload o) then t_K th ∪ m_view m else t_K th) k (t_hs th) (t_next th) DoFree (t_mine th)) (msgs s)).
Proof.
  intros Hok HI Hth Hmic Hk Hseen. destruct (ok_parts _ Hok) as (_ & Hacq & _). rewrite Hacq.
  destruct (closer_is_me _ _ _ HI Hth ltac:(by rewrite Hmic)) as (Hfr & Hp & Hoth).
  unfold phase_closer in Hp. rewrite Hmic in Hp. destruct Hp as (Hv & Hh & Hs).
  pose proof (lookup_lt_Lidx _ _ _ Hk). assert (k = Lidx s) as -> by lia.
  rewrite Lidx_lookup_last in Hk by apply HI. simplify_eq.
  eapply (plain_common s i th _ (Lidx s) _ _ HI Hth); [lia|done|set_solver|done|done| | | |].
  - intros j0 h0 H0. by eapply (inv_keys _ HI).
  - by apply derived_self.
  - by eapply disj_in_old.
  - unfold Phase, upd; simpl. rewrite Hfr. right.
    eexists i, _. split; [apply list_lookup_insert; by eapply lookup_lt_Some|]. simpl. split; [done|]. split.
    + unfold phase_closer, Pub, lastm in *; simpl. split_and!; [done|done|set_solver].
    + intros i' th' H' Hne. rewrite list_lookup_insert_ne in H' by done. eauto.
Qed.

Lemma sum_list_single (l : list nat) i x :
  l !! i = Some x → (∀ i' y, l !! i' = Some y → i' ≠ i → y = 0) → sum_list l = x.
Proof.
  revert i. induction l as [|a l IH]; intros [|i] H Ho; simplify_eq/=.
  - assert (sum_list l = 0) as ->; [|lia]. clear IH. induction l as [|b l IH]; [done|]. simpl.
    rewrite (Ho 1 b eq_refl ltac:(lia)). simpl. apply IH. intros i' y Hy Hn. destruct i' as [|i']; [done|].
    apply (Ho (S (S i')) y); [done|lia].
  - rewrite (Ho 0 a eq_refl ltac:(lia)). simpl. apply (IH i); [done|]. intros i' y Hy Hn. apply (Ho (S i') y); [done|lia].
Qed.
Lemma size1_key `{Countable K} {A} (m : gmap K A) j1 j2 a b : size m = 1 → m !! j1 = Some a → m !! j2 = Some b → j1 = j2.
Proof.
  intros Hs H1 H2. destruct (decide (j1 = j2)); [done|exfalso].
  assert (size (delete j1 m) = 0) as Hz by (rewrite map_size_delete, H1, Hs; done).
  apply map_size_empty_inv in Hz. assert (delete j1 m !! j2 = Some b) as Hl by (by rewrite lookup_delete_ne).
  rewrite Hz in Hl. done.
Qed.

(* the closer's final write to every cell: either it frees the buffer (fr' = true, no handle left)
   or it takes the whole buffer in place (try_reclaim: one BytesMut handle on all cells) *)
Lemma final_inv s i th hs' (fr' : bool) s' :
  Inv s → ths s !! i = Some th → closer (t_mic th) = true → Pub s ⊆ t_K th →
  (if fr' then hs' = ∅
   else m_val (lastm s) = 1 ∧ held th = 1 ∧ size hs' = 1 ∧ (∀ j h, hs' !! j = Some h → j < t_next th ∧ h = {| h_cells := allc s; h_mut := true |})) →
  access s i th (allc s) true hs' Idle = St s' →
  Inv {| msgs := msgs s'; next_ev := next_ev s'; acc := acc s'; wr := wr s'; allc := allc s'; freed := fr'; ths := ths s' |}.
Proof.
  intros HI Hth Hc HPub Hfin Hs.
  destruct (closer_is_me _ _ _ HI Hth Hc) as (Hfr & _ & Hoth).
  pose proof (closer_knows_all _ _ _ HI Hth Hc HPub) as Hall.
  unfold access in Hs. rewrite Hfr in Hs. destruct (decide _) as [_|]; [|done]. injection Hs as <-.
  set (e := next_ev s).
  set (thx := mk ({[e]} ∪ t_K th) (t_seen th) hs' (t_next th) Idle ({[e]} ∪ t_mine th)).
  assert (Hlk : ∀ i1 t1, <[i := thx]> (ths s) !! i1 = Some t1 → (i1 = i ∧ t1 = thx) ∨ (i1 ≠ i ∧ ths s !! i1 = Some t1 ∧ t_hs t1 = ∅ ∧ t_mic t1 = Idle)).
  { intros i1 t1 H. destruct (insert_cases _ _ _ _ _ _ Hth H) as [[-> ->]|[Hn H']]; [by left|right]. destruct (Hoth _ _ H' Hn). done. }
  assert (Hhs : ∀ i1 t1 j1 h1, <[i := thx]> (ths s) !! i1 = Some t1 → t_hs t1 !! j1 = Some h1 →
            i1 = i ∧ fr' = false ∧ hs' !! j1 = Some h1 ∧ j1 < t_next th ∧ h1 = {| h_cells := allc s; h_mut := true |}).
  { intros i1 t1 j1 h1 H Hh. destruct (Hlk _ _ H) as [[-> ->]|(? & _ & He1 & _)]; [|rewrite He1 in Hh; done]. simpl in Hh.
    destruct fr'; [rewrite Hfin in Hh; done|]. destruct Hfin as (_ & _ & _ & Hx). destruct (Hx _ _ Hh). done. }
  destruct HI as [I1 I2 I3 I4 Iw I5 I7 Ik Ic Id Ikn I8].
  constructor; simpl; try done.
  - intros i1 t1 H. destruct (Hlk _ _ H) as [[-> ->]|(? & H' & _)]; simpl; eauto.
  - intros i1 t1 H. destruct (Hlk _ _ H) as [[-> ->]|(? & H' & _)]; simpl; eauto. specialize (I3 _ _ Hth). set_solver.
  - intros c e0 He0. unfold touch in He0. destruct (decide (c ∈ allc s)).
    + apply elem_of_union in He0 as [He0|He0].
      * apply elem_of_singleton in He0 as ->. exists i, thx. split; [apply list_lookup_insert; by eapply lookup_lt_Some|]. simpl. set_solver.
      * destruct (I4 _ _ He0) as (i0 & th0 & Hq0 & Hin). destruct (decide (i0 = i)) as [->|Hn0].
        -- simplify_eq. exists i, thx. split; [apply list_lookup_insert; by eapply lookup_lt_Some|]. simpl. set_solver.
        -- exists i0, th0. split; [|done]. by rewrite list_lookup_insert_ne.
    + destruct (I4 _ _ He0) as (i0 & th0 & Hq0 & Hin). destruct (decide (i0 = i)) as [->|Hn0].
      * simplify_eq. exists i, thx. split; [apply list_lookup_insert; by eapply lookup_lt_Some|]. simpl. set_solver.
      * exists i0, th0. split; [|done]. by rewrite list_lookup_insert_ne.
  - intros c. unfold touch. destruct (decide _); [|done]. specialize (Iw c). set_solver.
  - intros Hf i1 t1 H He Hm. subst fr'. destruct Hfin as (_ & _ & Hsz & _).
    destruct (Hlk _ _ H) as [[-> ->]|(? & H' & He1 & Hm1)]; simpl in *.
    + rewrite He in Hsz. rewrite map_size_empty in Hsz. done.
    + unfold Pub, lastm in *; simpl. eauto.
  - intros i1 t1 j0 m0 H Hh Hseen Hj0 Hl. unfold Lidx in *; simpl in *.
    destruct (Hlk _ _ H) as [[-> ->]|(? & H' & He1 & Hm1)].
    + destruct fr'.
      * unfold held, thx in Hh; simpl in Hh. rewrite Hfin, map_size_empty in Hh. lia.
      * destruct Hfin as (_ & Hh1 & Hsz & _). unfold held at 1, thx; simpl. rewrite Hsz.
        pose proof (I7 i th j0 m0 Hth ltac:(lia) Hseen Hj0 Hl). lia.
    + apply held_empty in He1. lia.
  - intros i1 t1 j1 h1 H Hh. destruct (Hhs _ _ _ _ H Hh) as (-> & _ & _ & ? & _).
    destruct (Hlk _ _ H) as [[_ ->]|(? & _)]; [done|done].
  - intros i1 t1 j1 h1 H Hh. destruct (Hhs _ _ _ _ H Hh) as (_ & _ & _ & _ & ->). done.
  - intros i1 t1 j1 h1 i2 t2 j2 h2 Hne H1 Hh1 H2 Hh2 Hm.
    destruct (Hhs _ _ _ _ H1 Hh1) as (-> & Hf & Hl1 & _). destruct (Hhs _ _ _ _ H2 Hh2) as (-> & _ & Hl2 & _).
    subst fr'. destruct Hfin as (_ & _ & Hsz & _). exfalso. apply Hne. f_equal. by eapply size1_key.
  - intros i1 t1 j1 h1 H Hh c Hc1. destruct (Hhs _ _ _ _ H Hh) as (-> & _ & _ & _ & ->). simpl in *.
    destruct (Hlk _ _ H) as [[_ ->]|(? & _)]; [|done]. simpl. unfold touch. rewrite decide_True by done.
    specialize (Hall c). set_solver.
  - unfold Phase; simpl. destruct fr'.
    + intros i1 t1 H. destruct (Hlk _ _ H) as [[-> ->]|(? & _ & ? & ?)]; simpl; done.
    + left. destruct Hfin as (Hv1 & Hh1 & Hsz & _). split.
      * unfold lastm, held_sum in *; simpl. rewrite Hv1. symmetry.
        apply (sum_list_single _ i 1).
        -- rewrite list_lookup_fmap, list_lookup_insert by (by eapply lookup_lt_Some). simpl. unfold held; simpl. by rewrite Hsz.
        -- intros i' y Hy Hn. rewrite list_lookup_fmap, list_lookup_insert_ne in Hy by done.
           destruct (ths s !! i') as [t'|] eqn:E; simpl in Hy; [|done]. simplify_eq.
           destruct (Hoth _ _ E Hn) as [He' _]. by apply held_empty.
      * intros i1 t1 H. destruct (Hlk _ _ H) as [[-> ->]|(? & _ & ? & ?)]; simpl; done.
Qed.

(* Probe: the promotion race of an unshared Vec-backed Bytes cloned through `&Bytes` by several threads.
   One atomic cell `data` (VecTag, later a pointer to the control block), one non-atomic object: the control block,
   initialised by the winner BEFORE its compare_exchange and accessed by everybody who obtains the pointer.
   Same view-based RA semantics as Conc.v. *)
From stdpp Require Import gmap list sets.
From Coq Require Import Lia.

Inductive ord := Rlx | Acq | Rel | AcqRel | SeqCst.
Definition is_acq (o : ord) : bool := match o with Acq | AcqRel | SeqCst => true | _ => false end.
Definition is_rel (o : ord) : bool := match o with Rel | AcqRel | SeqCst => true | _ => false end.
Record ords := { o_load : ord; o_cas_s : ord; o_cas_f : ord }.      (* promotable_*_clone load; shallow_clone_vec CAS *)
Definition ords_ok (o : ords) : bool := is_acq (o_load o) && is_rel (o_cas_s o) && is_acq (o_cas_f o).

Notation view := (gset nat).
(* thread micro-states of clone(&self) *)
Inductive micro :=
| Idle
| SawVec            (* loaded VecTag: has allocated and initialised ITS OWN control block (event id in t_own), will CAS *)
| HasPtr            (* holds the pointer to the shared control block: will fetch_add its counter *)
| Done.
Global Instance micro_eq_dec : EqDecision micro. Proof. solve_decision. Defined.
Record thread := { t_K : view; t_seen : bool (* has observed the promoted message *); t_mic : micro; t_own : nat }.
Record state := {
  promoted : option view;      (* the view attached to the Arc message, once some CAS has succeeded *)
  cb_init : option nat;        (* the event that initialised the PUBLISHED control block *)
  next_ev : nat;
  ths : list thread }.
Inductive outcome := St (s : state) | Race.

Definition upd (s : state) (i : nat) (th : thread) : state :=
  {| promoted := promoted s; cb_init := cb_init s; next_ev := next_ev s; ths := <[i := th]> (ths s) |}.
Definition with_mic (m : micro) (K : view) (seen : bool) (th : thread) : thread :=
  {| t_K := K; t_seen := seen; t_mic := m; t_own := t_own th |}.

Inductive act := ALoad (stale : bool) | ACas | AFetchAdd.

Definition tstep (o : ords) (s : state) (i : nat) (a : act) : option outcome :=
  th ← ths s !! i;
  match t_mic th, a with
  | Idle, ALoad stale =>
      match promoted s with
      | Some vw =>
          if stale && negb (t_seen th)
          then (* coherence allows reading the old VecTag message: allocate + initialise an own control block *)
               let e := next_ev s in
               Some (St {| promoted := promoted s; cb_init := cb_init s; next_ev := S e;
                           ths := <[i := {| t_K := {[e]} ∪ t_K th; t_seen := false; t_mic := SawVec; t_own := e |}]> (ths s) |})
          else Some (St (upd s i (with_mic HasPtr (if is_acq (o_load o) then t_K th ∪ vw else t_K th) true th)))
      | None =>
          let e := next_ev s in
          Some (St {| promoted := None; cb_init := None; next_ev := S e;
                      ths := <[i := {| t_K := {[e]} ∪ t_K th; t_seen := false; t_mic := SawVec; t_own := e |}]> (ths s) |})
      end
  | SawVec, ACas =>
      match promoted s with
      | None =>    (* wins: publishes its own control block; returns the new handle *)
          Some (St {| promoted := Some (if is_rel (o_cas_s o) then t_K th else ∅); cb_init := Some (t_own th);
                      next_ev := next_ev s; ths := <[i := with_mic Done (t_K th) true th]> (ths s) |})
      | Some vw => (* loses: frees its own block (private), reads the winner's pointer with the failure ordering *)
          Some (St (upd s i (with_mic HasPtr (if is_acq (o_cas_f o) then t_K th ∪ vw else t_K th) true th)))
      end
  | HasPtr, AFetchAdd =>
      (* first access to the shared control block: its (plain) initialisation must happen-before *)
      match cb_init s with
      | Some e => if decide (e ∈ t_K th) then Some (St (upd s i (with_mic Done (t_K th) true th))) else Some Race
      | None => Some Race
      end
  | _, _ => None
  end.

Definition init_state (n : nat) : state :=
  {| promoted := None; cb_init := None; next_ev := 0;
     ths := replicate n {| t_K := ∅; t_seen := false; t_mic := Idle; t_own := 0 |} |}.
Inductive reach (o : ords) (n : nat) : state → Prop :=
| reach_init : reach o n (init_state n)
| reach_step s i a s' : reach o n s → tstep o s i a = Some (St s') → reach o n s'.

Record Inv (s : state) : Prop := {
  inv_pub : ∀ vw, promoted s = Some vw → ∃ e, cb_init s = Some e ∧ e ∈ vw;
  inv_none : promoted s = None → cb_init s = None;
  inv_ptr : ∀ i th, ths s !! i = Some th → t_mic th = HasPtr → ∃ e, cb_init s = Some e ∧ e ∈ t_K th;
  inv_own : ∀ i th, ths s !! i = Some th → t_mic th = SawVec → t_own th ∈ t_K th
}.

Lemma insert_cases {A} (l : list A) i i' x y z :
  l !! i = Some z → <[i := y]> l !! i' = Some x → (i' = i ∧ x = y) ∨ (i' ≠ i ∧ l !! i' = Some x).
Proof.
  intros Hz H. destruct (decide (i' = i)) as [->|Hne].
  - rewrite list_lookup_insert in H by (by eapply lookup_lt_Some). left. by simplify_eq.
  - rewrite list_lookup_insert_ne in H by done. by right.
Qed.

Lemma init_inv n : Inv (init_state n).
Proof.
  constructor; simpl; try done.
  - intros i th H. apply lookup_replicate in H as [-> _]. done.
  - intros i th H. apply lookup_replicate in H as [-> _]. done.
Qed.

Lemma step_inv o s i a s' : ords_ok o = true → Inv s → tstep o s i a = Some (St s') → Inv s'.
Proof.
  unfold ords_ok. rewrite !andb_true_iff. intros [[Hl Hs] Hf] [I1 I2 I3 I4] Hstep. unfold tstep in Hstep.
  destruct (ths s !! i) as [th|] eqn:Hth; simpl in Hstep; [|done].
  (* generic treatment of the two per-thread fields for threads other than i *)
  assert (Hoth3 : ∀ thx, (t_mic thx = HasPtr → ∃ e, cb_init s = Some e ∧ e ∈ t_K thx) →
            ∀ i' th', <[i:=thx]> (ths s) !! i' = Some th' → t_mic th' = HasPtr → ∃ e, cb_init s = Some e ∧ e ∈ t_K th').
  { intros thx Hx i' th' H Hm. destruct (insert_cases _ _ _ _ _ _ Hth H) as [[-> ->]|[? H']]; eauto. }
  assert (Hoth4 : ∀ thx, (t_mic thx = SawVec → t_own thx ∈ t_K thx) →
            ∀ i' th', <[i:=thx]> (ths s) !! i' = Some th' → t_mic th' = SawVec → t_own th' ∈ t_K th').
  { intros thx Hx i' th' H Hm. destruct (insert_cases _ _ _ _ _ _ Hth H) as [[-> ->]|[? H']]; eauto. }
  destruct (t_mic th) eqn:Hmic; destruct a; try done.
  - (* load *)
    destruct (promoted s) as [vw|] eqn:Hp.
    + destruct (stale && negb (t_seen th)); simplify_eq.
      * constructor; simpl; [by rewrite ?Hp|by rewrite ?Hp| |].
        -- apply Hoth3. done.
        -- apply Hoth4. simpl. set_solver.
      * rewrite Hl. destruct (I1 _ eq_refl) as (e & He & Hin). constructor; simpl; [by rewrite ?Hp|by rewrite ?Hp| |].
        -- apply Hoth3. simpl. intros _. exists e. split; [done|set_solver].
        -- apply Hoth4. done.
    + simplify_eq. constructor; simpl; [done|done| |].
      -- intros i' th' H Hm. destruct (insert_cases _ _ _ _ _ _ Hth H) as [[-> ->]|[? H']]; [done|].
         destruct (I3 _ _ H' Hm) as (e & He & _). rewrite (I2 eq_refl) in He. done.
      -- apply Hoth4. simpl. set_solver.
  - (* CAS *)
    destruct (promoted s) as [vw|] eqn:Hp; simplify_eq.
    + rewrite Hf. destruct (I1 _ eq_refl) as (e & He & Hin). constructor; simpl; [by rewrite ?Hp|by rewrite ?Hp| |].
      -- apply Hoth3. simpl. intros _. exists e. split; [done|set_solver].
      -- apply Hoth4. done.
    + rewrite Hs. pose proof (I4 _ _ Hth Hmic) as Hown. constructor; simpl; [| | |].
      -- intros vw [= <-]. eauto.
      -- done.
      -- intros i' th' H Hm. destruct (insert_cases _ _ _ _ _ _ Hth H) as [[-> ->]|[? H']]; simpl in *; [done|].
         destruct (I3 _ _ H' Hm) as (e & He & _). rewrite (I2 eq_refl) in He. done.
      -- apply Hoth4. done.
  - (* fetch_add on the shared counter *)
    destruct (cb_init s) as [e|] eqn:Hc; [|done]. destruct (decide (e ∈ t_K th)); [|done]. simplify_eq.
    constructor; simpl; [rewrite Hc; exact I1|rewrite Hc; exact I2| |].
    + rewrite Hc. apply Hoth3. done.
    + apply Hoth4. done.
Qed.

Theorem promotion_race_free o n s i a :
  ords_ok o = true → reach o n s → tstep o s i a ≠ Some Race.
Proof.
  intros Hok Hr. assert (HI : Inv s) by (induction Hr; [apply init_inv|eapply step_inv; eauto]).
  unfold tstep. destruct (ths s !! i) as [th|] eqn:Hth; simpl; [|done].
  destruct (t_mic th) eqn:Hmic; destruct a; try done.
  - destruct (promoted s); [destruct (_ && _)|]; done.
  - destruct (promoted s); done.
  - destruct (inv_ptr _ HI _ _ Hth Hmic) as (e & -> & Hin). destruct (decide (e ∈ t_K th)); done.
Qed.


(* tightness: each of the three orderings is needed *)
Fixpoint run (o : ords) (s : state) (tr : list (nat * act)) : option outcome :=
  match tr with [] => Some (St s) | (i, a) :: tr => match tstep o s i a with Some (St s') => run o s' tr | r => r end end.
Definition code := {| o_load := Acq; o_cas_s := AcqRel; o_cas_f := Acq |}.
Example code_ok : ords_ok code = true. Proof. reflexivity. Qed.
Example weak_load : run {| o_load := Rlx; o_cas_s := AcqRel; o_cas_f := Acq |} (init_state 2)
  [(0, ALoad false); (0, ACas); (1, ALoad false); (1, AFetchAdd)] = Some Race.  Proof. vm_compute. reflexivity. Qed.
Example weak_cas_success : run {| o_load := Acq; o_cas_s := Acq; o_cas_f := Acq |} (init_state 2)
  [(0, ALoad false); (0, ACas); (1, ALoad false); (1, AFetchAdd)] = Some Race.  Proof. vm_compute. reflexivity. Qed.
Example weak_cas_failure : run {| o_load := Acq; o_cas_s := AcqRel; o_cas_f := Rlx |} (init_state 2)
  [(0, ALoad false); (1, ALoad false); (0, ACas); (1, ACas); (1, AFetchAdd)] = Some Race.  Proof. vm_compute. reflexivity. Qed.
Example code_same_traces : run code (init_state 2) [(0, ALoad false); (1, ALoad false); (0, ACas); (1, ACas); (1, AFetchAdd)] ≠ Some Race.
Proof. vm_compute. discriminate. Qed.

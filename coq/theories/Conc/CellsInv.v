From stdpp Require Import gmap list sets.
From Coq Require Import Lia.
From BV.Conc Require Import Cells.

Definition held (th : thread) : nat := size (t_hs th).
Definition held_sum (s : state) : nat := sum_list (held <$> ths s).
Definition Pub (s : state) : view := m_view (lastm s).
Definition closer (m : micro) : bool := match m with Idle => false | _ => true end.
Definition phase_closer (s : state) (th : thread) : Prop :=
  match t_mic th with
  | DropLoad => m_val (lastm s) = 0 ∧ t_hs th = ∅ ∧ t_seen th = Lidx s
  | DoFree => m_val (lastm s) = 0 ∧ t_hs th = ∅ ∧ Pub s ⊆ t_K th
  | Reclaim => m_val (lastm s) = 1 ∧ held th = 1 ∧ Pub s ⊆ t_K th
  | Idle => False
  end.
Definition NoCloser (s : state) : Prop :=
  m_val (lastm s) = held_sum s ∧ ∀ i th, ths s !! i = Some th → t_mic th = Idle.
Definition HasCloser (s : state) : Prop :=
  ∃ i th, ths s !! i = Some th ∧ closer (t_mic th) = true ∧ phase_closer s th ∧
     ∀ i' th', ths s !! i' = Some th' → i' ≠ i → t_hs th' = ∅ ∧ t_mic th' = Idle.
Definition Phase (s : state) : Prop :=
  if freed s then ∀ i th, ths s !! i = Some th → t_hs th = ∅ ∧ t_mic th = Idle
  else NoCloser s ∨ HasCloser s.

Definition hknow (s : state) (K : view) (h : handle) : Prop :=
  ∀ c, c ∈ h_cells h → (if h_mut h then acc s c else wr s c) ⊆ K.

Record Inv (s : state) : Prop := {
  inv_msgs : msgs s ≠ [];
  inv_seen : ∀ i th, ths s !! i = Some th → t_seen th ≤ Lidx s;
  inv_mine : ∀ i th, ths s !! i = Some th → t_mine th ⊆ t_K th;
  inv_evs : ∀ c e, e ∈ acc s c → ∃ i th, ths s !! i = Some th ∧ e ∈ t_mine th;
  inv_wr : ∀ c, wr s c ⊆ acc s c;
  inv_pub : freed s = false → ∀ i th, ths s !! i = Some th → t_hs th = ∅ → t_mic th = Idle → t_mine th ⊆ Pub s;
  inv_i5 : ∀ i th j m, ths s !! i = Some th → held th ≥ 1 → t_seen th ≤ j → j < Lidx s →
            msgs s !! j = Some m → held th + 1 ≤ m_val m;
  inv_keys : ∀ i th j h, ths s !! i = Some th → t_hs th !! j = Some h → j < t_next th;
  inv_cells : ∀ i th j h, ths s !! i = Some th → t_hs th !! j = Some h → h_cells h ⊆ allc s;
  inv_disj : ∀ i th j h i' th' j' h', (i, j) ≠ (i', j') →
               ths s !! i = Some th → t_hs th !! j = Some h → ths s !! i' = Some th' → t_hs th' !! j' = Some h' →
               h_mut h = true → h_cells h ## h_cells h';
  inv_know : ∀ i th j h, ths s !! i = Some th → t_hs th !! j = Some h → hknow s (t_K th) h;
  inv_phase : Phase s
}.

(* ---------- helpers (as in the core probe) ---------- *)
Lemma insert_cases {A} (l : list A) i i' x y z :
  l !! i = Some z → <[i := y]> l !! i' = Some x → (i' = i ∧ x = y) ∨ (i' ≠ i ∧ l !! i' = Some x).
Proof.
  intros Hz H. destruct (decide (i' = i)) as [->|Hne].
  - rewrite list_lookup_insert in H by (by eapply lookup_lt_Some). left. by simplify_eq.
  - rewrite list_lookup_insert_ne in H by done. by right.
Qed.
Lemma sum_list_insert (l : list nat) i x y : l !! i = Some x → sum_list (<[i := y]> l) + x = sum_list l + y.
Proof. revert i. induction l as [|a l IH]; intros [|i] H; simplify_eq/=; [lia|]. specialize (IH _ H). lia. Qed.
Lemma held_sum_insert (l : list thread) i th th' :
  l !! i = Some th → sum_list (held <$> <[i := th']> l) + held th = sum_list (held <$> l) + held th'.
Proof. intros H. rewrite list_fmap_insert. apply sum_list_insert. by rewrite list_lookup_fmap, H. Qed.
Lemma sum_list_ge (l : list nat) i x : l !! i = Some x → x ≤ sum_list l.
Proof. revert i; induction l as [|a l IH]; intros [|i] H; simplify_eq/=; [lia|]. specialize (IH _ H). lia. Qed.
Lemma sum_list_two (l : list nat) i j x y : i ≠ j → l !! i = Some x → l !! j = Some y → x + y ≤ sum_list l.
Proof.
  revert i j; induction l as [|a l IH]; intros [|i] [|j] Hne Hi Hj; simplify_eq/=.
  - pose proof (sum_list_ge _ _ _ Hj). lia.
  - pose proof (sum_list_ge _ _ _ Hi). lia.
  - assert (i ≠ j) by congruence. specialize (IH _ _ H Hi Hj). lia.
Qed.
Lemma held_two s i j th th' : i ≠ j → ths s !! i = Some th → ths s !! j = Some th' → held th + held th' ≤ held_sum s.
Proof. intros. unfold held_sum. eapply (sum_list_two _ i j); [done| |]; rewrite list_lookup_fmap; by simplify_option_eq. Qed.
Lemma held_one s i th : ths s !! i = Some th → held th ≤ held_sum s.
Proof. intros. unfold held_sum. eapply (sum_list_ge _ i). rewrite list_lookup_fmap. by simplify_option_eq. Qed.
Lemma Lidx_lookup_last s : msgs s ≠ [] → msgs s !! Lidx s = Some (lastm s).
Proof.
  intros H. unfold Lidx, lastm. destruct (msgs s) as [|m0 ms0] using rev_ind; [done|]. clear IHms0.
  rewrite last_snoc. simpl. rewrite app_length. simpl. rewrite lookup_app_r by lia.
  replace (length ms0 + 1 - 1 - length ms0) with 0 by lia. done.
Qed.
Lemma lookup_lt_Lidx s j m : msgs s !! j = Some m → j ≤ Lidx s.
Proof. intros H. apply lookup_lt_Some in H. unfold Lidx. lia. Qed.
Lemma Lidx_len s : msgs s ≠ [] → length (msgs s) = S (Lidx s).
Proof. intros H. unfold Lidx. destruct (msgs s); [done|simpl; lia]. Qed.
Lemma held_pos_lookup th j h : t_hs th !! j = Some h → held th ≥ 1.
Proof. intros H. unfold held. assert (t_hs th ≠ ∅) by (intros E; rewrite E in H; done). apply map_size_non_empty_iff in H0. lia. Qed.
Lemma held_empty th : t_hs th = ∅ → held th = 0.
Proof. intros H. unfold held. rewrite H. apply map_size_empty. Qed.
Lemma held_zero_empty th : held th = 0 → t_hs th = ∅.
Proof. unfold held. apply map_size_empty_inv. Qed.

Lemma held_not_freed s i th : Inv s → ths s !! i = Some th → held th ≥ 1 → freed s = false.
Proof.
  intros HI Hth Hh. pose proof (inv_phase _ HI) as HP. unfold Phase in HP.
  destruct (freed s); [|done]. destruct (HP _ _ Hth) as [E _]. apply held_empty in E. lia.
Qed.
Lemma nocloser_of_idle_held s i th : Inv s → ths s !! i = Some th → held th ≥ 1 → t_mic th = Idle → NoCloser s.
Proof.
  intros HI Hth Hh Hm. pose proof (inv_phase _ HI) as HP. unfold Phase in HP.
  rewrite (held_not_freed _ _ _ HI Hth Hh) in HP. destruct HP as [HN|(i0 & th0 & Hq0 & Hc0 & _ & Hoth)]; [done|].
  destruct (decide (i0 = i)) as [->|Hne]; [simplify_eq; rewrite Hm in Hc0; done|].
  destruct (Hoth _ _ Hth) as [E _]; [done|]. apply held_empty in E. lia.
Qed.

(* ---------- read / write through an own handle ---------- *)
Lemma touch_in f C e c : c ∈ C → touch f C e c = {[e]} ∪ f c.
Proof. intros H. unfold touch. by rewrite decide_True. Qed.
Lemma touch_out f C e c : c ∉ C → touch f C e c = f c.
Proof. intros H. unfold touch. by rewrite decide_False. Qed.
Lemma touch_mono f C e c : f c ⊆ touch f C e c.
Proof. unfold touch. destruct (decide _); set_solver. Qed.

Lemma access_ok s i th j h w :
  Inv s → ths s !! i = Some th → t_hs th !! j = Some h → (w = true → h_mut h = true) →
  ∃ s', access s i th (h_cells h) w (t_hs th) Idle = St s'.
Proof.
  intros HI Hth Hj Hw. unfold access.
  rewrite (held_not_freed _ _ _ HI Hth (held_pos_lookup _ _ _ Hj)).
  pose proof (inv_know _ HI _ _ _ _ Hth Hj) as Hk. unfold hknow in Hk.
  destruct (decide _) as [|Hn]; [eauto|]. exfalso. apply Hn. intros c Hc. specialize (Hk c Hc).
  destruct w.
  - rewrite (Hw eq_refl) in Hk. done.
  - destruct (h_mut h); [|done]. etrans; [apply (inv_wr _ HI)|done].
Qed.

Lemma access_inv s i th j h w s' :
  Inv s → ths s !! i = Some th → t_mic th = Idle → t_hs th !! j = Some h → (w = true → h_mut h = true) →
  access s i th (h_cells h) w (t_hs th) Idle = St s' → Inv s'.
Proof.
  intros HI Hth Hmic Hj Hw Hs. unfold access in Hs.
  destruct (freed s) eqn:Hfr; [done|]. destruct (decide _) as [Hk|]; [|done]. simplify_eq.
  set (e := next_ev s). set (C := h_cells h).
  set (thx := mk ({[e]} ∪ t_K th) (t_seen th) (t_hs th) (t_next th) Idle ({[e]} ∪ t_mine th)).
  assert (Hheld : held th ≥ 1) by (by eapply held_pos_lookup).
  assert (HN : NoCloser s) by (eapply nocloser_of_idle_held; eauto).
  destruct HI as [I1 I2 I3 I4 Iw I5 I7 Ik Ic Id Ikn I8].
  constructor; simpl; try done.
  - intros i' th' H. destruct (insert_cases _ _ _ _ _ _ Hth H) as [[-> ->]|[? H']]; simpl; eauto.
  - intros i' th' H. destruct (insert_cases _ _ _ _ _ _ Hth H) as [[-> ->]|[? H']]; simpl; eauto.
    specialize (I3 _ _ Hth). set_solver.
  - intros c e0 He0. destruct (decide (c ∈ C)) as [Hc|Hc].
    + rewrite touch_in in He0 by done. apply elem_of_union in He0 as [He0|He0].
      * apply elem_of_singleton in He0 as ->. exists i, thx. split; [apply list_lookup_insert; by eapply lookup_lt_Some|]. simpl. set_solver.
      * destruct (I4 _ _ He0) as (i0 & th0 & Hq0 & Hin). destruct (decide (i0 = i)) as [->|Hn0].
        -- simplify_eq. exists i, thx. split; [apply list_lookup_insert; by eapply lookup_lt_Some|]. simpl. set_solver.
        -- exists i0, th0. split; [|done]. by rewrite list_lookup_insert_ne.
    + rewrite touch_out in He0 by done. destruct (I4 _ _ He0) as (i0 & th0 & Hq0 & Hin). destruct (decide (i0 = i)) as [->|Hn0].
      * simplify_eq. exists i, thx. split; [apply list_lookup_insert; by eapply lookup_lt_Some|]. simpl. set_solver.
      * exists i0, th0. split; [|done]. by rewrite list_lookup_insert_ne.
  - intros c. destruct w; [|etrans; [apply Iw|apply touch_mono]].
    unfold touch. destruct (decide _); [|done]. specialize (Iw c). set_solver.
  - intros _ i' th' H He Hm. destruct (insert_cases _ _ _ _ _ _ Hth H) as [[-> ->]|[? H']]; simpl in *.
    + rewrite He in Hj. done.
    + unfold Pub, lastm in *; simpl. eauto.
  - intros i' th' j0 m0 H Hh Hseen Hj0 Hl. unfold Lidx in *; simpl in *.
    destruct (insert_cases _ _ _ _ _ _ Hth H) as [[-> ->]|[? H']].
    + exact (I7 i th j0 m0 Hth Hh Hseen Hj0 Hl).
    + exact (I7 _ _ j0 m0 H' Hh Hseen Hj0 Hl).
  - intros i' th' j0 h0 H Hh0. destruct (insert_cases _ _ _ _ _ _ Hth H) as [[-> ->]|[? H']]; simpl in *; eauto.
  - intros i' th' j0 h0 H Hh0. destruct (insert_cases _ _ _ _ _ _ Hth H) as [[-> ->]|[? H']]; simpl in *; eauto.
  - intros i1 th1 j1 h1 i2 th2 j2 h2 Hne H1 Hh1 H2 Hh2 Hm.
    assert (∃ t1, ths s !! i1 = Some t1 ∧ t_hs t1 !! j1 = Some h1) as (t1 & Ht1 & Hh1').
    { destruct (insert_cases _ _ _ _ _ _ Hth H1) as [[-> ->]|[? H']]; simpl in *; eauto. }
    assert (∃ t2, ths s !! i2 = Some t2 ∧ t_hs t2 !! j2 = Some h2) as (t2 & Ht2 & Hh2').
    { destruct (insert_cases _ _ _ _ _ _ Hth H2) as [[-> ->]|[? H']]; simpl in *; eauto. }
    eapply Id; eauto.
  - (* knowledge *)
    intros i2 th2 j2 h2 H2 Hh2 c Hc2.
    assert (∃ t2, ths s !! i2 = Some t2 ∧ t_hs t2 !! j2 = Some h2 ∧ t_K t2 ⊆ t_K th2) as (t2 & Ht2 & Hh2' & HK2).
    { destruct (insert_cases _ _ _ _ _ _ Hth H2) as [[-> ->]|[? H']]; simpl in *; [|eauto]. exists th. split_and!; [done|done|set_solver]. }
    pose proof (Ikn _ _ _ _ Ht2 Hh2' c Hc2) as Hold.
    destruct (decide (c ∈ C)) as [Hc|Hc].
    + destruct (decide ((i2, j2) = (i, j))) as [Heq|Hneq].
      * injection Heq as -> ->. assert (t2 = th) as -> by congruence. assert (h2 = h) as -> by congruence.
        rewrite list_lookup_insert in H2 by (by eapply lookup_lt_Some). injection H2 as <-. simpl.
        specialize (Hk c Hc). destruct (h_mut h) eqn:Em.
        -- rewrite touch_in by done. destruct w; [set_solver|].
           (* a read through a BytesMut handle: it already knows every access to its cells *) set_solver.
        -- destruct w; [specialize (Hw eq_refl); congruence|]. set_solver.
      * destruct (h_mut h2) eqn:Em.
        -- exfalso. pose proof (Id _ _ _ _ _ _ _ _ Hneq Ht2 Hh2' Hth Hj Em) as Hd. set_solver.
        -- destruct w; [|etrans; [apply Hold|done]].
           exfalso. assert ((i, j) ≠ (i2, j2)) as Hneq' by congruence.
           pose proof (Id _ _ _ _ _ _ _ _ Hneq' Hth Hj Ht2 Hh2' (Hw eq_refl)) as Hd. set_solver.
    + assert (Ha : touch (acc s) C e c = acc s c) by (by apply touch_out).
      assert (Hb : touch (wr s) C e c = wr s c) by (by apply touch_out).
      destruct w, (h_mut h2); rewrite ?Ha, ?Hb; set_solver.
  - unfold Phase; simpl. rewrite ?Hfr. left. destruct HN as [Hv Hnc]. split.
    + unfold lastm, held_sum in *; simpl. rewrite Hv.
      pose proof (held_sum_insert (ths s) i th thx Hth) as Hs. unfold held in *. simpl in Hs. lia.
    + intros i' th' H'. destruct (insert_cases _ _ _ _ _ _ Hth H') as [[-> ->]|[? H'']]; simpl; eauto.
Qed.

(* ---------- generic update of thread i: its handles are replaced by handles DERIVED from its old ones ---------- *)
(* every cell of a new handle comes from some handle the thread held before (of at least the same strength): slice, split and merge *)
Definition derived (th : thread) (hs' : gmap nat handle) : Prop :=
  ∀ j h c, hs' !! j = Some h → c ∈ h_cells h → ∃ j0 h0, t_hs th !! j0 = Some h0 ∧ c ∈ h_cells h0 ∧ (h_mut h = true → h_mut h0 = true).
Definition disj_in (hs' : gmap nat handle) : Prop :=
  ∀ j j' h h', j ≠ j' → hs' !! j = Some h → hs' !! j' = Some h' → h_mut h = true → h_cells h ## h_cells h'.

Lemma lastm_app ms m nx a b c d t :
  lastm {| msgs := ms ++ [m]; next_ev := nx; acc := a; wr := b; allc := c; freed := d; ths := t |} = m.
Proof. unfold lastm; simpl. by rewrite last_snoc. Qed.
Lemma Lidx_app s m : msgs s ≠ [] → length (msgs s ++ [m]) - 1 = S (Lidx s).
Proof. intros H. unfold Lidx. rewrite app_length. simpl. destruct (msgs s); [done|simpl; lia]. Qed.

(* fields that do not depend on the message list *)
Lemma handles_common s i th K' hs' :
  Inv s → ths s !! i = Some th → t_K th ⊆ K' → derived th hs' → disj_in hs' →
  let P := λ (i1 : nat) (t1 : thread) (j1 : nat) (h1 : handle),
             (i1 = i ∧ hs' !! j1 = Some h1) ∨ (i1 ≠ i ∧ ∃ t, ths s !! i1 = Some t ∧ t_hs t !! j1 = Some h1 ∧ t_K t = t_K t1) in
  (∀ i1 t1 j1 h1, P i1 t1 j1 h1 → h_cells h1 ⊆ allc s) ∧
  (∀ i1 t1 j1 h1 i2 t2 j2 h2, (i1, j1) ≠ (i2, j2) → P i1 t1 j1 h1 → P i2 t2 j2 h2 → h_mut h1 = true → h_cells h1 ## h_cells h2) ∧
  (∀ i1 t1 j1 h1, P i1 t1 j1 h1 → (i1 = i → t_K t1 = K') → hknow s (t_K t1) h1).
Proof.
  intros HI Hth HK Hder Hdin P.
  assert (Hanc : ∀ j h c, hs' !! j = Some h → c ∈ h_cells h → ∃ j0 h0, t_hs th !! j0 = Some h0 ∧ c ∈ h_cells h0 ∧ (h_mut h = true → h_mut h0 = true)) by exact Hder.
  split_and!.
  - intros i1 t1 j1 h1 [[-> Hh]|(Hne & t & Ht & Hh & _)].
    + intros c Hc. destruct (Hanc _ _ _ Hh Hc) as (j0 & h0 & H0 & Hsub & _). pose proof (inv_cells _ HI _ _ _ _ Hth H0). set_solver.
    + by eapply (inv_cells _ HI).
  - intros i1 t1 j1 h1 i2 t2 j2 h2 Hne [[-> Hh1]|(Hn1 & ta & Hta & Hh1 & _)] [[-> Hh2]|(Hn2 & tb & Htb & Hh2 & _)] Hm.
    + eapply Hdin; [|done|done|done]. congruence.
    + apply elem_of_disjoint. intros c Hc1 Hc2. destruct (Hanc _ _ _ Hh1 Hc1) as (j0 & h0 & H0 & Hsub & Hmut).
      assert ((i, j0) ≠ (i2, j2)) by congruence.
      pose proof (inv_disj _ HI _ _ _ _ _ _ _ _ H Hth H0 Htb Hh2 (Hmut Hm)). set_solver.
    + apply elem_of_disjoint. intros c Hc1 Hc2. destruct (Hanc _ _ _ Hh2 Hc2) as (j0 & h0 & H0 & Hsub & Hmut).
      assert ((i1, j1) ≠ (i, j0)) by congruence.
      pose proof (inv_disj _ HI _ _ _ _ _ _ _ _ H Hta Hh1 Hth H0 Hm). set_solver.
    + eapply (inv_disj _ HI); eauto.
  - intros i1 t1 j1 h1 [[-> Hh]|(Hne & t & Ht & Hh & HKt)] HKi c Hc.
    + rewrite (HKi eq_refl). destruct (Hanc _ _ _ Hh Hc) as (j0 & h0 & H0 & Hsub & Hmut).
      pose proof (inv_know _ HI _ _ _ _ Hth H0 c Hsub) as Hk0.
      destruct (h_mut h1) eqn:E1.
      * rewrite (Hmut eq_refl) in Hk0. set_solver.
      * destruct (h_mut h0); [|set_solver]. pose proof (inv_wr _ HI c). set_solver.
    + rewrite <- HKt. by eapply (inv_know _ HI).
Qed.

Lemma to_P s i th thx i1 t1 j1 h1 :
  ths s !! i = Some th → <[i := thx]> (ths s) !! i1 = Some t1 → t_hs t1 !! j1 = Some h1 →
  (i1 = i ∧ t1 = thx ∧ t_hs thx !! j1 = Some h1) ∨ (i1 ≠ i ∧ ths s !! i1 = Some t1).
Proof. intros Hth H Hh. destruct (insert_cases _ _ _ _ _ _ Hth H) as [[-> ->]|[? H']]; [left|right]; done. Qed.

Lemma rmw_common s i th K' hs' nx' m' mnew :
  Inv s → ths s !! i = Some th → freed s = false → NoCloser s → held th ≥ 1 →
  t_K th ⊆ K' → m_view (lastm s) ⊆ m_view mnew →
  (hs' = ∅ → m' = Idle → t_mine th ⊆ m_view mnew) →
  (∀ j h, hs' !! j = Some h → j < nx') → derived th hs' → disj_in hs' →
  let thx := mk K' (length (msgs s)) hs' nx' m' (t_mine th) in
  let s' := upd s i thx (msgs s ++ [mnew]) in
  Phase s' → Inv s'.
Proof.
  intros HI Hth Hfr [Hv Hnc] Hheld HK Hmono Hpub Hkeys Hder Hdin thx s' HP.
  destruct (handles_common s i th K' hs' HI Hth HK Hder Hdin) as (HC & HD & HKn).
  assert (HL : Lidx s' = S (Lidx s)) by (unfold Lidx at 1; simpl; apply Lidx_app, HI).
  assert (HtoP : ∀ i1 t1 j1 h1, <[i := thx]> (ths s) !! i1 = Some t1 → t_hs t1 !! j1 = Some h1 →
            (i1 = i ∧ hs' !! j1 = Some h1) ∨ (i1 ≠ i ∧ ∃ t, ths s !! i1 = Some t ∧ t_hs t !! j1 = Some h1 ∧ t_K t = t_K t1)).
  { intros i1 t1 j1 h1 H Hh. destruct (to_P _ _ _ _ _ _ _ _ Hth H Hh) as [(-> & -> & Hx)|[Hne H']]; [left; done|right; eauto]. }
  destruct HI as [I1 I2 I3 I4 Iw I5 I7 Ik Ic Id Ikn I8].
  constructor; simpl; try done.
  - by destruct (msgs s).
  - intros i' th' H. rewrite HL. destruct (insert_cases _ _ _ _ _ _ Hth H) as [[-> ->]|[? H']]; simpl.
    + rewrite Lidx_len by done. lia.
    + specialize (I2 _ _ H'). lia.
  - intros i' th' H. destruct (insert_cases _ _ _ _ _ _ Hth H) as [[-> ->]|[? H']]; simpl; eauto.
    specialize (I3 _ _ Hth). set_solver.
  - intros c e He. destruct (I4 c e He) as (i0 & th0 & Hq0 & Hin). destruct (decide (i0 = i)) as [->|Hn0].
    + simplify_eq. exists i, thx. split; [|done]. apply list_lookup_insert. by eapply lookup_lt_Some.
    + exists i0, th0. split; [|done]. by rewrite list_lookup_insert_ne.
  - intros _ i' th' H Hh Hmic. unfold Pub. unfold s', upd. rewrite lastm_app.
    destruct (insert_cases _ _ _ _ _ _ Hth H) as [[-> ->]|[? H']]; simpl in *; [eauto|].
    specialize (I5 Hfr _ _ H' Hh Hmic). unfold Pub in I5. set_solver.
  - intros i' th' j m0 H Hh Hseen Hj Hl. rewrite HL in Hj.
    destruct (insert_cases _ _ _ _ _ _ Hth H) as [[-> ->]|[Hne H']]; simpl in *.
    + rewrite Lidx_len in Hseen by done. lia.
    + rewrite lookup_app_l in Hl by (rewrite Lidx_len by done; lia).
      destruct (decide (j < Lidx s)) as [Hlt|Hge]; [eauto|].
      assert (j = Lidx s) as -> by lia. rewrite Lidx_lookup_last in Hl by done. simplify_eq.
      rewrite Hv. pose proof (held_two s i' i th' th Hne H' Hth). lia.
  - intros i1 t1 j1 h1 H Hh. destruct (to_P _ _ _ _ _ _ _ _ Hth H Hh) as [(-> & -> & Hx)|[Hne H']]; simpl in *; eauto.
  - intros i1 t1 j1 h1 H Hh. eapply (HC i1 t1 j1 h1). by apply HtoP.
  - intros i1 t1 j1 h1 i2 t2 j2 h2 Hne H1 Hh1 H2 Hh2 Hm. eapply (HD i1 t1 j1 h1 i2 t2 j2 h2); eauto.
  - intros i1 t1 j1 h1 H Hh. eapply (HKn i1 t1 j1 h1); [by apply HtoP|].
    intros ->. rewrite list_lookup_insert in H by (by eapply lookup_lt_Some). by simplify_eq.
Qed.

Lemma plain_common s i th K' k hs' m' :
  Inv s → ths s !! i = Some th → t_seen th ≤ k → k ≤ Lidx s → t_K th ⊆ K' →
  (hs' = ∅ → m' ≠ Idle) → size hs' = held th →
  (∀ j h, hs' !! j = Some h → j < t_next th) → derived th hs' → disj_in hs' →
  let thx := mk K' k hs' (t_next th) m' (t_mine th) in
  let s' := upd s i thx (msgs s) in
  Phase s' → Inv s'.
Proof.
  intros HI Hth Hseen Hk HK Hne Hsz Hkeys Hder Hdin thx s' HP.
  destruct (handles_common s i th K' hs' HI Hth HK Hder Hdin) as (HC & HD & HKn).
  assert (HtoP : ∀ i1 t1 j1 h1, <[i := thx]> (ths s) !! i1 = Some t1 → t_hs t1 !! j1 = Some h1 →
            (i1 = i ∧ hs' !! j1 = Some h1) ∨ (i1 ≠ i ∧ ∃ t, ths s !! i1 = Some t ∧ t_hs t !! j1 = Some h1 ∧ t_K t = t_K t1)).
  { intros i1 t1 j1 h1 H Hh. destruct (to_P _ _ _ _ _ _ _ _ Hth H Hh) as [(-> & -> & Hx)|[Hn H']]; [left; done|right; eauto]. }
  destruct HI as [I1 I2 I3 I4 Iw I5 I7 Ik Ic Id Ikn I8].
  constructor; simpl; try done.
  - intros i' th' H. destruct (insert_cases _ _ _ _ _ _ Hth H) as [[-> ->]|[? H']]; simpl; eauto.
  - intros i' th' H. destruct (insert_cases _ _ _ _ _ _ Hth H) as [[-> ->]|[? H']]; simpl; eauto.
    specialize (I3 _ _ Hth). set_solver.
  - intros c e He. destruct (I4 c e He) as (i0 & th0 & Hq0 & Hin). destruct (decide (i0 = i)) as [->|Hn0].
    + simplify_eq. exists i, thx. split; [|done]. apply list_lookup_insert. by eapply lookup_lt_Some.
    + exists i0, th0. split; [|done]. by rewrite list_lookup_insert_ne.
  - intros Hfr i' th' H Hh Hmic. destruct (insert_cases _ _ _ _ _ _ Hth H) as [[-> ->]|[? H']]; simpl in *; [by apply Hne in Hh|].
    apply (I5 Hfr _ _ H' Hh Hmic).
  - intros i' th' j m0 H Hh Hs Hj Hl. unfold Lidx in Hj; simpl in Hj.
    destruct (insert_cases _ _ _ _ _ _ Hth H) as [[-> ->]|[Hn H']]; simpl in *.
    + unfold held in Hh |- *. simpl in *. rewrite Hsz in *. eapply (I7 _ _ j m0 Hth); eauto. lia.
    + eapply I7; eauto.
  - intros i1 t1 j1 h1 H Hh. destruct (to_P _ _ _ _ _ _ _ _ Hth H Hh) as [(-> & -> & Hx)|[Hn H']]; simpl in *; eauto.
  - intros i1 t1 j1 h1 H Hh. eapply (HC i1 t1 j1 h1). by apply HtoP.
  - intros i1 t1 j1 h1 i2 t2 j2 h2 Hn H1 Hh1 H2 Hh2 Hm. eapply (HD i1 t1 j1 h1 i2 t2 j2 h2); eauto.
  - intros i1 t1 j1 h1 H Hh. eapply (HKn i1 t1 j1 h1); [by apply HtoP|].
    intros ->. rewrite list_lookup_insert in H by (by eapply lookup_lt_Some). by simplify_eq.
Qed.

Lemma ok_parts o : ords_ok o = true → is_rel (o_dec o) = true ∧ is_acq (o_decload o) = true ∧ is_acq (o_uniq o) = true.
Proof. unfold ords_ok. rewrite !andb_true_iff. tauto. Qed.
Lemma derived_self th hs' : (∀ j h, hs' !! j = Some h → t_hs th !! j = Some h) → derived th hs'.
Proof. intros H j h c Hh Hc. exists j, h. split_and!; [by apply H|done|done]. Qed.
Lemma disj_in_old s i th : Inv s → ths s !! i = Some th → disj_in (t_hs th).
Proof. intros HI Hth j j' h h' Hne Hj Hj' Hm. eapply (inv_disj _ HI i th j h i th j' h'); eauto. congruence. Qed.
Lemma sum_one_others s i th : held_sum s = 1 → ths s !! i = Some th → held th ≥ 1 →
  held th = 1 ∧ ∀ i' th', ths s !! i' = Some th' → i' ≠ i → t_hs th' = ∅.
Proof.
  intros Hs Hth Hh. split; [pose proof (held_one _ _ _ Hth); lia|].
  intros i' th' H' Hne. pose proof (held_two s i' i th' th Hne H' Hth). apply held_zero_empty. lia.
Qed.
Lemma phase_nc s i th thx ms :
  ths s !! i = Some th → (∀ i th, ths s !! i = Some th → t_mic th = Idle) → t_mic thx = Idle →
  ∀ i' th', ths (upd s i thx ms) !! i' = Some th' → t_mic th' = Idle.
Proof. intros Hth Hnc Hm i' th' H. simpl in H. destruct (insert_cases _ _ _ _ _ _ Hth H) as [[-> ->]|[? H']]; eauto. Qed.

(* ----- Bytes::clone / slice ----- *)
Lemma slice_inv o s i th j h C :
  Inv s → ths s !! i = Some th → t_mic th = Idle → t_hs th !! j = Some h → h_mut h = false → C ⊆ h_cells h → freed s = false →
  let '(K', ms, _) := rmw (o_inc o) S s th in
  Inv (upd s i (mk K' (length (msgs s)) (<[t_next th := {| h_cells := C; h_mut := false |}]> (t_hs th)) (S (t_next th)) Idle (t_mine th)) ms).
Proof.
  intros HI Hth Hmic Hj Hm HC Hfr. unfold rmw.
  assert (Hheld : held th ≥ 1) by (by eapply held_pos_lookup).
  assert (HN : NoCloser s) by (eapply nocloser_of_idle_held; eauto).
  assert (Hfresh : t_hs th !! t_next th = None).
  { destruct (t_hs th !! t_next th) eqn:E; [|done]. pose proof (inv_keys _ HI _ _ _ _ Hth E). lia. }
  eapply (rmw_common s i th _ _ _ Idle _ HI Hth Hfr HN Hheld).
  - destruct (is_acq _); set_solver.
  - simpl. destruct (is_rel _); set_solver.
  - intros He. exfalso. apply (insert_non_empty _ _ _ He).
  - intros j0 h0 H0. destruct (decide (j0 = t_next th)) as [->|?]; [lia|]. rewrite lookup_insert_ne in H0 by done.
    pose proof (inv_keys _ HI _ _ _ _ Hth H0). lia.
  - intros j0 h0 c H0 Hc. destruct (decide (j0 = t_next th)) as [->|?].
    + rewrite lookup_insert in H0. simplify_eq. exists j, h. simpl in *. split_and!; [done|set_solver|done].
    + rewrite lookup_insert_ne in H0 by done. exists j0, h0. done.
  - intros j1 j2 h1 h2 Hne H1 H2 Hm1.
    destruct (decide (j1 = t_next th)) as [->|?]; [rewrite lookup_insert in H1; by simplify_eq|].
    rewrite lookup_insert_ne in H1 by done.
    destruct (decide (j2 = t_next th)) as [->|?].
    + rewrite lookup_insert in H2. simplify_eq. simpl.
      assert (j1 ≠ j) by (intros ->; congruence).
      pose proof (disj_in_old _ _ _ HI Hth j1 j h1 h ltac:(done) H1 Hj Hm1). set_solver.
    + rewrite lookup_insert_ne in H2 by done. by eapply (disj_in_old _ _ _ HI Hth j1 j2).
  - unfold Phase, upd; simpl. rewrite Hfr. left. destruct HN as [Hv Hnc]. split.
    + rewrite lastm_app. simpl. rewrite Hv. unfold held_sum; simpl.
      match goal with |- context [<[i := ?t]> (ths s)] =>
        pose proof (held_sum_insert (ths s) i th t Hth) as Hs;
        assert (Hsz : held t = S (held th)) by (unfold held; simpl; by rewrite map_size_insert_None) end.
      unfold held_sum in *. lia.
    + intros i' th' H'. destruct (insert_cases _ _ _ _ _ _ Hth H') as [[-> ->]|[? H'']]; simpl; eauto.
Qed.

(* ----- BytesMut::split_* ----- *)
Lemma split_inv o s i th j h C :
  Inv s → ths s !! i = Some th → t_mic th = Idle → t_hs th !! j = Some h → h_mut h = true → C ⊆ h_cells h → freed s = false →
  let '(K', ms, _) := rmw (o_inc o) S s th in
  Inv (upd s i (mk K' (length (msgs s))
         (<[t_next th := {| h_cells := C; h_mut := true |}]> (<[j := {| h_cells := h_cells h ∖ C; h_mut := true |}]> (t_hs th)))
         (S (t_next th)) Idle (t_mine th)) ms).
Proof.
  intros HI Hth Hmic Hj Hm HC Hfr. unfold rmw.
  assert (Hheld : held th ≥ 1) by (by eapply held_pos_lookup).
  assert (HN : NoCloser s) by (eapply nocloser_of_idle_held; eauto).
  assert (Hfresh : t_hs th !! t_next th = None).
  { destruct (t_hs th !! t_next th) eqn:E; [|done]. pose proof (inv_keys _ HI _ _ _ _ Hth E). lia. }
  assert (Hjn : j ≠ t_next th) by (intros ->; congruence).
  assert (Hlk : ∀ j0 h0, <[t_next th := {| h_cells := C; h_mut := true |}]> (<[j := {| h_cells := h_cells h ∖ C; h_mut := true |}]> (t_hs th)) !! j0 = Some h0 →
            (j0 = t_next th ∧ h0 = {| h_cells := C; h_mut := true |}) ∨ (j0 = j ∧ h0 = {| h_cells := h_cells h ∖ C; h_mut := true |}) ∨
            (j0 ≠ t_next th ∧ j0 ≠ j ∧ t_hs th !! j0 = Some h0)).
  { intros j0 h0 H0. destruct (decide (j0 = t_next th)) as [->|?]; [rewrite lookup_insert in H0; simplify_eq; by left|].
    rewrite lookup_insert_ne in H0 by done. destruct (decide (j0 = j)) as [->|?]; [rewrite lookup_insert in H0; simplify_eq; right; by left|].
    rewrite lookup_insert_ne in H0 by done. right; right. done. }
  eapply (rmw_common s i th _ _ _ Idle _ HI Hth Hfr HN Hheld).
  - destruct (is_acq _); set_solver.
  - simpl. destruct (is_rel _); set_solver.
  - intros He. exfalso. apply (insert_non_empty _ _ _ He).
  - intros j0 h0 H0. destruct (Hlk _ _ H0) as [[-> _]|[[-> _]|(_ & _ & H1)]]; [lia| |].
    + pose proof (inv_keys _ HI _ _ _ _ Hth Hj). lia.
    + pose proof (inv_keys _ HI _ _ _ _ Hth H1). lia.
  - intros j0 h0 c H0 Hc. destruct (Hlk _ _ H0) as [[-> ->]|[[-> ->]|(_ & _ & H1)]].
    + exists j, h. simpl in *. split_and!; [done|set_solver|done].
    + exists j, h. simpl in *. split_and!; [done|set_solver|done].
    + exists j0, h0. done.
  - intros j1 j2 h1 h2 Hne H1 H2 Hm1.
    destruct (Hlk _ _ H1) as [[-> ->]|[[-> ->]|(Ha1 & Hb1 & H1')]]; destruct (Hlk _ _ H2) as [[-> ->]|[[-> ->]|(Ha2 & Hb2 & H2')]]; cbn [h_cells h_mut] in *.
    + done.
    + clear Hlk. set_solver.
    + pose proof (disj_in_old _ _ _ HI Hth j j2 h h2 ltac:(done) Hj H2' Hm) as Hd. clear Hlk H1 H2. set_solver.
    + clear Hlk. set_solver.
    + done.
    + pose proof (disj_in_old _ _ _ HI Hth j j2 h h2 ltac:(done) Hj H2' Hm) as Hd. clear Hlk H1 H2. set_solver.
    + pose proof (disj_in_old _ _ _ HI Hth j1 j h1 h ltac:(done) H1' Hj Hm1) as Hd. clear Hlk H1 H2. set_solver.
    + pose proof (disj_in_old _ _ _ HI Hth j1 j h1 h ltac:(done) H1' Hj Hm1) as Hd. clear Hlk H1 H2. set_solver.
    + by eapply (disj_in_old _ _ _ HI Hth j1 j2).
  - unfold Phase, upd; simpl. rewrite Hfr. left. destruct HN as [Hv Hnc]. split.
    + rewrite lastm_app. simpl. rewrite Hv. unfold held_sum; simpl.
      match goal with |- context [<[i := ?t]> (ths s)] =>
        pose proof (held_sum_insert (ths s) i th t Hth) as Hs;
        assert (Hsz : held t = S (held th)) end.
      { unfold held; simpl. rewrite map_size_insert_None by (by rewrite lookup_insert_ne).
        f_equal. apply map_size_insert_Some. eauto. }
      unfold held_sum in *. lia.
    + intros i' th' H'. destruct (insert_cases _ _ _ _ _ _ Hth H') as [[-> ->]|[? H'']]; simpl; eauto.
Qed.


(* M8 core: the reference-count protocol (one counter, Bytes-side handles: clone, read, drop, into Vec, into BytesMut) over a view-based release/acquire memory model; orderings are parameters. *)
From stdpp Require Import gmap list sets.
From Coq Require Import Lia.

Inductive ord := Rlx | Acq | Rel | AcqRel | SeqCst.
Definition is_acq (o : ord) : bool := match o with Acq | AcqRel | SeqCst => true | _ => false end.
Definition is_rel (o : ord) : bool := match o with Rel | AcqRel | SeqCst => true | _ => false end.
Record ords := { o_inc : ord; o_dec : ord; o_decload : ord; o_cas_s : ord; o_cas_f : ord; o_uniq : ord }.
Definition ords_ok (o : ords) : bool :=
  is_rel (o_dec o) && is_acq (o_decload o) && is_acq (o_cas_s o) && is_acq (o_uniq o).

Notation view := (gset nat).
Record msg := { m_val : nat; m_view : view }.
Inductive micro := Idle | DropLoad | DoFree | ExclCas | ExclLoad | Copy | RelDec.
Global Instance micro_eq_dec : EqDecision micro. Proof. solve_decision. Defined.
Record thread := { t_K : view; t_seen : nat; t_held : nat; t_mic : micro; t_mine : view (*ghost*) }.
Record state := {
  msgs : list msg; next_ev : nat;
  buf_r : view; buf_w : view; cb_r : view; cb_w : view;
  cb_freed : bool; buf_freed : bool;
  ths : list thread }.
Inductive outcome := St (s : state) | Race | UAF.

Definition lastm (s : state) : msg := default {| m_val := 0; m_view := ∅ |} (last (msgs s)).
Definition Lidx (s : state) : nat := length (msgs s) - 1.

(* an RMW by thread th: reads the last message *)
Definition rmw (o : ord) (f : nat → nat) (s : state) (th : thread) : thread * list msg * nat :=
  let m := lastm s in
  let K' := if is_acq o then t_K th ∪ m_view m else t_K th in
  let v' := if is_rel o then m_view m ∪ K' else m_view m in
  ({| t_K := K'; t_seen := length (msgs s); t_held := t_held th; t_mic := t_mic th; t_mine := t_mine th |},
   msgs s ++ [{| m_val := f (m_val m); m_view := v' |}], m_val m).

(* a load that reads message j (any j >= seen) *)
Definition load (o : ord) (j : nat) (s : state) (th : thread) : option (thread * nat) :=
  m ← msgs s !! j;
  if decide (t_seen th ≤ j) then
    Some ({| t_K := if is_acq o then t_K th ∪ m_view m else t_K th; t_seen := j;
             t_held := t_held th; t_mic := t_mic th; t_mine := t_mine th |}, m_val m)
  else None.

Definition set_mic (m : micro) (th : thread) : thread :=
  {| t_K := t_K th; t_seen := t_seen th; t_held := t_held th; t_mic := m; t_mine := t_mine th |}.
Definition set_held (n : nat) (th : thread) : thread :=
  {| t_K := t_K th; t_seen := t_seen th; t_held := n; t_mic := t_mic th; t_mine := t_mine th |}.
Definition add_ev (e : nat) (th : thread) : thread :=
  {| t_K := {[e]} ∪ t_K th; t_seen := t_seen th; t_held := t_held th; t_mic := t_mic th; t_mine := {[e]} ∪ t_mine th |}.

Definition upd (s : state) (i : nat) (th : thread) (ms : list msg) : state :=
  {| msgs := ms; next_ev := next_ev s; buf_r := buf_r s; buf_w := buf_w s; cb_r := cb_r s; cb_w := cb_w s;
     cb_freed := cb_freed s; buf_freed := buf_freed s; ths := <[i := th]> (ths s) |}.

Inductive act := AClone | ARead | ADrop | AToVecS | AToVecF (j : nat) | AToMut (j : nat) | AStep (j : nat).

(* read the buffer: race unless all buffer writes are known *)
Definition do_buf_read (s : state) (i : nat) (th : thread) (m : micro) : outcome :=
  if buf_freed s then UAF else
  if decide (buf_w s ⊆ t_K th) then
    let e := next_ev s in
    St {| msgs := msgs s; next_ev := S e; buf_r := {[e]} ∪ buf_r s; buf_w := buf_w s; cb_r := cb_r s; cb_w := cb_w s;
          cb_freed := cb_freed s; buf_freed := buf_freed s; ths := <[i := set_mic m (add_ev e th)]> (ths s) |}
  else Race.

Definition all_known (s : state) (th : thread) : Prop :=
  buf_r s ∪ buf_w s ∪ cb_r s ∪ cb_w s ⊆ t_K th.
Global Instance all_known_dec s th : Decision (all_known s th). Proof. unfold all_known. apply _. Defined.

Definition dec_step (o : ords) (s : state) (i : nat) (th : thread) : outcome :=
  if cb_freed s then UAF else
  let '(th', ms, old) := rmw (o_dec o) pred s th in
  let th'' := set_held (t_held th - 1) th' in
  St (upd s i (set_mic (if decide (old = 1) then DropLoad else Idle) th'') ms).

Definition tstep (o : ords) (s : state) (i : nat) (a : act) : option outcome :=
  th ← ths s !! i;
  match t_mic th, a with
  | Idle, AClone =>
      if decide (t_held th = 0) then None else
      if cb_freed s then Some UAF else
      let '(th', ms, _) := rmw (o_inc o) S s th in
      Some (St (upd s i (set_held (S (t_held th)) th') ms))
  | Idle, ARead =>
      if decide (t_held th = 0) then None else Some (do_buf_read s i th Idle)
  | Idle, ADrop =>
      if decide (t_held th = 0) then None else Some (dec_step o s i th)
  | Idle, AToVecS =>
      if decide (t_held th = 0) then None else
      if cb_freed s then Some UAF else
      if decide (m_val (lastm s) = 1) then
        let '(th', ms, _) := rmw (o_cas_s o) (λ _, 0) s th in
        Some (St (upd s i (set_mic ExclCas (set_held (t_held th - 1) th')) ms))
      else None
  | Idle, AToVecF j =>
      if decide (t_held th = 0) then None else
      if cb_freed s then Some UAF else
      '(th', v) ← load (o_cas_f o) j s th;
      if decide (v = 1) then None else Some (St (upd s i (set_mic Copy th') (msgs s)))
  | Idle, AToMut j =>
      if decide (t_held th = 0) then None else
      if cb_freed s then Some UAF else
      '(th', v) ← load (o_uniq o) j s th;
      Some (St (upd s i (set_mic (if decide (v = 1) then ExclLoad else Copy) th') (msgs s)))
  | DropLoad, AStep j =>
      if cb_freed s then Some UAF else
      '(th', _) ← load (o_decload o) j s th;
      Some (St (upd s i (set_mic DoFree th') (msgs s)))
  | DoFree, AStep _ =>
      if cb_freed s || buf_freed s then Some UAF else
      if decide (all_known s th) then
        let e := next_ev s in
        Some (St {| msgs := msgs s; next_ev := S e; buf_r := buf_r s; buf_w := {[e]} ∪ buf_w s; cb_r := cb_r s; cb_w := {[e]} ∪ cb_w s;
                    cb_freed := true; buf_freed := true; ths := <[i := set_mic Idle (add_ev e th)]> (ths s) |})
      else Some Race
  | ExclCas, AStep _ | ExclLoad, AStep _ =>
      (* read Shared fields, free the control block (no destructor), write the buffer as its new sole owner *)
      if cb_freed s || buf_freed s then Some UAF else
      if decide (all_known s th) then
        let e := next_ev s in
        Some (St {| msgs := msgs s; next_ev := S e; buf_r := buf_r s; buf_w := {[e]} ∪ buf_w s; cb_r := cb_r s; cb_w := {[e]} ∪ cb_w s;
                    cb_freed := true; buf_freed := buf_freed s;
                    ths := <[i := set_mic Idle (set_held 0 (add_ev e th))]> (ths s) |})
      else Some Race
  | Copy, AStep _ => Some (do_buf_read s i th RelDec)
  | RelDec, AStep _ => Some (dec_step o s i (set_mic Idle th))
  | _, _ => None
  end.

Definition init_state (helds : list nat) : state :=
  {| msgs := [{| m_val := sum_list helds; m_view := ∅ |}]; next_ev := 0;
     buf_r := ∅; buf_w := ∅; cb_r := ∅; cb_w := ∅; cb_freed := false; buf_freed := false;
     ths := (λ h, {| t_K := ∅; t_seen := 0; t_held := h; t_mic := Idle; t_mine := ∅ |}) <$> helds |}.

Inductive reach (o : ords) (helds : list nat) : state → Prop :=
| reach_init : reach o helds (init_state helds)
| reach_step s i a s' : reach o helds s → tstep o s i a = Some (St s') → reach o helds s'.

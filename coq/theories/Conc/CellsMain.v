From stdpp Require Import gmap list sets.
From Coq Require Import Lia.
From BV.Conc Require Import Cells CellsInv CellsSteps.

Lemma final_ok s i th hs' m :
  Inv s → ths s !! i = Some th → closer (t_mic th) = true → Pub s ⊆ t_K th →
  ∃ s', access s i th (allc s) true hs' m = St s' ∧ freed s' = false.
Proof.
  intros HI Hth Hc HP. destruct (closer_is_me _ _ _ HI Hth Hc) as (Hfr & _ & _).
  pose proof (closer_knows_all _ _ _ HI Hth Hc HP) as Hall.
  unfold access. rewrite Hfr. destruct (decide _) as [|Hn]; [eexists; split; [done|]; simpl; done|].
  exfalso. apply Hn. intros c _. apply Hall.
Qed.

Lemma closer_pub s i th : Inv s → ths s !! i = Some th → (t_mic th = Reclaim ∨ t_mic th = DoFree) → Pub s ⊆ t_K th.
Proof.
  intros HI Hth Hm. destruct (closer_is_me _ _ _ HI Hth ltac:(destruct Hm as [-> | ->]; done)) as (_ & Hp & _).
  unfold phase_closer in Hp. destruct Hm as [Hm|Hm]; rewrite Hm in Hp; tauto.
Qed.

Theorem step_inv o s i a s' : ords_ok o = true → Inv s → tstep o s i a = Some (St s') → Inv s'.
Proof.
  intros Hok HI Hs. unfold tstep in Hs.
  destruct (ths s !! i) as [th|] eqn:Hth; simpl in Hs; [|done].
  destruct (t_mic th) eqn:Hmic; destruct a as [j C|j|j|j C|j|j|j k|k|j1 j2]; try done.
  - (* slice *)
    destruct (t_hs th !! j) as [h|] eqn:Hj; simpl in Hs; [|done].
    destruct (h_mut h) eqn:Hm; [done|]. destruct (decide (C ⊆ h_cells h)); [|done].
    destruct (freed s) eqn:Hfr; [done|].
    pose proof (slice_inv o s i th j h C HI Hth Hmic Hj Hm ltac:(done) Hfr) as H.
    unfold rmw in *. simpl in *. by simplify_eq.
  - (* read *)
    destruct (t_hs th !! j) as [h|] eqn:Hj; simpl in Hs; [|done]. simplify_eq.
    eapply (access_inv s i th j h false s' HI Hth Hmic Hj); [done|]. by destruct (access _ _ _ _ _ _ _).
  - (* write *)
    destruct (t_hs th !! j) as [h|] eqn:Hj; simpl in Hs; [|done]. destruct (h_mut h) eqn:Hm; [|done]. simplify_eq.
    eapply (access_inv s i th j h true s' HI Hth Hmic Hj); [done|]. by destruct (access _ _ _ _ _ _ _).
  - (* split *)
    destruct (t_hs th !! j) as [h|] eqn:Hj; simpl in Hs; [|done].
    destruct (h_mut h) eqn:Hm; [|done]. destruct (decide (C ⊆ h_cells h)); [|done].
    destruct (freed s) eqn:Hfr; [done|].
    pose proof (split_inv o s i th j h C HI Hth Hmic Hj Hm ltac:(done) Hfr) as H.
    unfold rmw in *. simpl in *. by simplify_eq.
  - (* freeze *)
    destruct (t_hs th !! j) as [h|] eqn:Hj; simpl in Hs; [|done]. simplify_eq. by apply freeze_inv.
  - (* drop *)
    destruct (t_hs th !! j) as [h|] eqn:Hj; simpl in Hs; [|done]. destruct (freed s) eqn:Hfr; [done|].
    pose proof (drop_inv o s i th j h Hok HI Hth Hmic Hj Hfr) as H.
    unfold rmw in *. simpl in *. by simplify_eq.
  - (* try_reclaim *)
    destruct (t_hs th !! j) as [h|] eqn:Hj; simpl in Hs; [|done]. destruct (h_mut h); [|done].
    destruct (freed s) eqn:Hfr; [done|]. destruct (msgs s !! k) as [m|] eqn:Hk; simpl in Hs; [|done].
    destruct (decide (t_seen th ≤ k)); [|done]. simplify_eq. by eapply try_reclaim_inv.
  - (* unsplit *)
    destruct (t_hs th !! j1) as [h1|] eqn:Hj1; simpl in Hs; [|done]. destruct (t_hs th !! j2) as [h2|] eqn:Hj2; simpl in Hs; [|done].
    destruct (decide (j1 = j2)); [done|]. destruct (h_mut h1) eqn:Hm1; [|done]. destruct (h_mut h2) eqn:Hm2; [|done]. cbn [andb] in Hs.
    destruct (freed s) eqn:Hfr; [done|].
    pose proof (unsplit_inv o s i th j1 j2 h1 h2 Hok HI Hth Hmic Hj1 Hj2 ltac:(done) Hm1 Hm2 Hfr) as H.
    unfold rmw in *. simpl in *. by simplify_eq.
  - (* load after the last decrement *)
    destruct (freed s) eqn:Hfr; [done|]. destruct (msgs s !! k) as [m|] eqn:Hk; simpl in Hs; [|done].
    destruct (decide (t_seen th ≤ k)); [|done]. simplify_eq. by eapply dropload_inv.
  - (* free *)
    pose proof (closer_pub _ _ _ HI Hth ltac:(by right)) as HP.
    destruct (closer_is_me _ _ _ HI Hth ltac:(by rewrite Hmic)) as (_ & Hp & _).
    unfold phase_closer in Hp. rewrite Hmic in Hp. destruct Hp as (_ & He & _).
    destruct (access s i th (allc s) true (t_hs th) Idle) as [s1| |] eqn:Ha; try done. simplify_eq.
    eapply (final_inv s i th (t_hs th) true s1 HI Hth); [by rewrite Hmic|done|done|done].
  - (* try_reclaim succeeds: take the whole buffer in place *)
    pose proof (closer_pub _ _ _ HI Hth ltac:(by left)) as HP.
    destruct (closer_is_me _ _ _ HI Hth ltac:(by rewrite Hmic)) as (Hfr & Hp & _).
    unfold phase_closer in Hp. rewrite Hmic in Hp. destruct Hp as (Hv & Hh & _).
    simplify_eq.
    destruct (access s i th (allc s) true ((λ _, {| h_cells := allc s; h_mut := true |}) <$> t_hs th) Idle) as [s1| |] eqn:Ha; try done.
    simplify_eq.
    pose proof (final_inv s i th ((λ _, {| h_cells := allc s; h_mut := true |}) <$> t_hs th) false s' HI Hth ltac:(by rewrite Hmic) HP) as H.
    assert (Hcond : m_val (lastm s) = 1 ∧ held th = 1 ∧ size ((λ _, {| h_cells := allc s; h_mut := true |}) <$> t_hs th) = 1 ∧
              (∀ j h, ((λ _, {| h_cells := allc s; h_mut := true |}) <$> t_hs th) !! j = Some h → j < t_next th ∧ h = {| h_cells := allc s; h_mut := true |})).
    { split_and!; [done|done|by rewrite map_size_fmap|].
      intros j h Hl. apply lookup_fmap_Some in Hl as (h0 & <- & Hl). split; [by eapply (inv_keys _ HI)|done]. }
    specialize (H Hcond Ha).
    assert (freed s' = false) as Hf'. { unfold access in Ha. rewrite Hfr in Ha. destruct (decide _); [|done]. by simplify_eq. }
    destruct s'; simpl in *. by subst.
Qed.

Theorem step_safe o s i a : ords_ok o = true → Inv s → tstep o s i a ≠ Some Race ∧ tstep o s i a ≠ Some UAF.
Proof.
  intros Hok HI. unfold tstep.
  destruct (ths s !! i) as [th|] eqn:Hth; [|done]. cbn [mbind option_bind].
  assert (Hnf : ∀ j h, t_hs th !! j = Some h → freed s = false).
  { intros j h Hj. eapply held_not_freed; eauto. by eapply held_pos_lookup. }
  destruct (t_mic th) eqn:Hmic; destruct a as [j C|j|j|j C|j|j|j k|k|j j2]; try done;
    try (destruct (t_hs th !! j) as [h|] eqn:Hj; cbn [mbind option_bind]; [|done]; pose proof (Hnf _ _ Hj) as Hfr).
  - destruct (h_mut h); [done|]. destruct (decide _); [|done]. rewrite Hfr. unfold rmw. done.
  - destruct (access_ok s i th j h false HI Hth Hj ltac:(done)) as [s1 ->]. done.
  - destruct (h_mut h) eqn:Hm; [|done]. destruct (access_ok s i th j h true HI Hth Hj ltac:(done)) as [s1 ->]. done.
  - destruct (h_mut h); [|done]. destruct (decide _); [|done]. rewrite Hfr. unfold rmw. done.
  - done.
  - rewrite Hfr. unfold rmw. done.
  - destruct (h_mut h); [|done]. rewrite Hfr. destruct (msgs s !! k); cbn [mbind option_bind]; [|done]. destruct (decide _); done.
  - destruct (t_hs th !! j2) as [h2|]; cbn [mbind option_bind]; [|done]. destruct (decide _); [done|]. destruct (_ && _); [|done]. rewrite Hfr. unfold rmw. done.
  - destruct (closer_is_me _ _ _ HI Hth ltac:(by rewrite Hmic)) as (-> & _).
    destruct (msgs s !! k); cbn [mbind option_bind]; [|done]. destruct (decide _); done.
  - destruct (final_ok s i th (t_hs th) Idle HI Hth ltac:(by rewrite Hmic) (closer_pub _ _ _ HI Hth ltac:(by right))) as (s1 & -> & _). done.
  - destruct (final_ok s i th ((λ _, {| h_cells := allc s; h_mut := true |}) <$> t_hs th) Idle HI Hth ltac:(by rewrite Hmic) (closer_pub _ _ _ HI Hth ltac:(by left))) as (s1 & -> & _). done.
Qed.

(* BytesMut handles writing their own cells, Bytes handles reading shared cells, splits, freezes, drops and in-place
   reclaim by a sole holder, from ANY invariant-satisfying start, for any number of threads, any programs,
   every interleaving and every stale read: no data race and no use after free. *)
Theorem cells_race_free o s0 s i a :
  ords_ok o = true → Inv s0 → reach o s0 s → tstep o s i a ≠ Some Race ∧ tstep o s i a ≠ Some UAF.
Proof.
  intros Hok H0 Hr. apply step_safe; [done|]. induction Hr; [done|]. eapply step_inv; eauto.
Qed.


(* ---------- the invariant is satisfiable: every sensible initial distribution of handles satisfies it ---------- *)
Definition init_state (C : cellset) (tl : list (gmap nat handle * nat)) : state :=
  {| msgs := [{| m_val := sum_list ((λ p, size p.1) <$> tl); m_view := ∅ |}]; next_ev := 0;
     acc := λ _, ∅; wr := λ _, ∅; allc := C; freed := false;
     ths := (λ p, mk ∅ 0 p.1 p.2 Idle ∅) <$> tl |}.

Lemma init_inv C tl :
  (∀ i p j h, tl !! i = Some p → p.1 !! j = Some h → j < p.2 ∧ h_cells h ⊆ C) →
  (∀ i p j h i' p' j' h', (i, j) ≠ (i', j') → tl !! i = Some p → p.1 !! j = Some h → tl !! i' = Some p' → p'.1 !! j' = Some h' →
     h_mut h = true → h_cells h ## h_cells h') →
  Inv (init_state C tl).
Proof.
  intros Hk Hd.
  assert (Hth : ∀ i th, ths (init_state C tl) !! i = Some th → ∃ p, tl !! i = Some p ∧ th = mk ∅ 0 p.1 p.2 Idle ∅).
  { intros i th H. simpl in H. apply list_lookup_fmap_Some in H as (p & Hp & ->). eauto. }
  constructor; simpl.
  - done.
  - intros i th H. destruct (Hth _ _ H) as (p & _ & ->). simpl. lia.
  - intros i th H. destruct (Hth _ _ H) as (p & _ & ->). done.
  - intros c e He. set_solver.
  - done.
  - intros _ i th H _ _. destruct (Hth _ _ H) as (p & _ & ->). done.
  - intros i th j m H _ _ Hj. unfold Lidx in Hj. simpl in Hj. lia.
  - intros i th j h H Hh. destruct (Hth _ _ H) as (p & Hp & ->). simpl in *. by destruct (Hk _ _ _ _ Hp Hh).
  - intros i th j h H Hh. destruct (Hth _ _ H) as (p & Hp & ->). simpl in *. by destruct (Hk _ _ _ _ Hp Hh).
  - intros i th j h i' th' j' h' Hne H Hh H' Hh' Hm.
    destruct (Hth _ _ H) as (p & Hp & ->). destruct (Hth _ _ H') as (p' & Hp' & ->). simpl in *. eapply Hd; eauto.
  - intros i th j h H Hh c Hc. destruct (h_mut h); set_solver.
  - unfold Phase; simpl. left. split.
    + unfold lastm, held_sum; simpl. f_equal. rewrite <- list_fmap_compose. done.
    + intros i th H. destruct (Hth _ _ H) as (p & _ & ->). done.
Qed.

(* two threads, each owning a BytesMut half of a 4-cell buffer: a state from which concurrent writes, splits, freezes,
   drops and reclaim are all enabled *)
Example two_halves : Inv (init_state {[0; 1; 2; 3]}
  [ ({[ 0 := {| h_cells := {[0; 1]}; h_mut := true |} ]}, 1); ({[ 0 := {| h_cells := {[2; 3]}; h_mut := true |} ]}, 1) ]).
Proof.
  apply init_inv.
  - intros [|[|i]] p j h Hp Hh; simplify_eq/=; apply lookup_singleton_Some in Hh as [<- <-]; simpl; (split; [lia|set_solver]).
  - intros [|[|i]] p j h [|[|i']] p' j' h' Hne Hp Hh Hp' Hh' Hm; simplify_eq/=;
      apply lookup_singleton_Some in Hh as [<- <-]; apply lookup_singleton_Some in Hh' as [<- <-]; simpl; try done; set_solver.
Qed.

(* unsplit is enabled: a thread holding both BytesMut halves merges them (the step exists and is a plain state, not Race / UAF) *)
Example unsplit_enabled o : ∃ s', tstep o (init_state {[0; 1; 2; 3]}
  [ ({[ 0 := {| h_cells := {[0; 1]}; h_mut := true |}; 1 := {| h_cells := {[2; 3]}; h_mut := true |} ]}, 2) ]) 0 (AUnsplit 0 1) = Some (St s').
Proof. eexists. unfold tstep, init_state. simpl. rewrite lookup_insert. simpl. rewrite lookup_insert_ne by done. rewrite lookup_singleton. simpl. unfold rmw. simpl. reflexivity. Qed.

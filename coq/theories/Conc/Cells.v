(* Probe: M8 with buffer cells — BytesMut handles own pairwise disjoint cell sets and write them concurrently;
   Bytes handles read possibly overlapping cells; try_reclaim on a sole holder takes the whole buffer in place. *)
From stdpp Require Import gmap list sets.
From Coq Require Import Lia.

Inductive ord := Rlx | Acq | Rel | AcqRel | SeqCst.
Definition is_acq (o : ord) : bool := match o with Acq | AcqRel | SeqCst => true | _ => false end.
Definition is_rel (o : ord) : bool := match o with Rel | AcqRel | SeqCst => true | _ => false end.
Record ords := { o_inc : ord; o_dec : ord; o_decload : ord; o_uniq : ord }.
Definition ords_ok (o : ords) : bool := is_rel (o_dec o) && is_acq (o_decload o) && is_acq (o_uniq o).

Notation view := (gset nat).
Notation cellset := (gset nat).
Record msg := { m_val : nat; m_view : view }.
Record handle := { h_cells : cellset; h_mut : bool }.
Inductive micro := Idle | DropLoad | DoFree | Reclaim.
Global Instance micro_eq_dec : EqDecision micro. Proof. solve_decision. Defined.
Record thread := { t_K : view; t_seen : nat; t_hs : gmap nat handle; t_next : nat; t_mic : micro; t_mine : view }.
Record state := {
  msgs : list msg; next_ev : nat;
  acc : nat → view;      (* per cell: every access event so far *)
  wr : nat → view;       (* per cell: every write event so far *)
  allc : cellset;        (* the cells of the buffer *)
  freed : bool;
  ths : list thread }.
Inductive outcome := St (s : state) | Race | UAF.

Definition lastm (s : state) : msg := default {| m_val := 0; m_view := ∅ |} (last (msgs s)).
Definition Lidx (s : state) : nat := length (msgs s) - 1.

Definition rmw (o : ord) (f : nat → nat) (s : state) (th : thread) : view * list msg * nat :=
  let m := lastm s in
  let K' := if is_acq o then t_K th ∪ m_view m else t_K th in
  let v' := if is_rel o then m_view m ∪ K' else m_view m in
  (K', msgs s ++ [{| m_val := f (m_val m); m_view := v' |}], m_val m).

Definition mk (K : view) (seen : nat) (hs : gmap nat handle) (nx : nat) (m : micro) (mine : view) : thread :=
  {| t_K := K; t_seen := seen; t_hs := hs; t_next := nx; t_mic := m; t_mine := mine |}.

Definition upd (s : state) (i : nat) (th : thread) (ms : list msg) : state :=
  {| msgs := ms; next_ev := next_ev s; acc := acc s; wr := wr s; allc := allc s; freed := freed s; ths := <[i := th]> (ths s) |}.

(* an access event e on the cells C *)
Definition touch (f : nat → view) (C : cellset) (e : nat) : nat → view :=
  λ c, if decide (c ∈ C) then {[e]} ∪ f c else f c.
Definition access (s : state) (i : nat) (th : thread) (C : cellset) (w : bool) (hs' : gmap nat handle) (m : micro) : outcome :=
  if freed s then UAF else
  if decide (set_Forall (λ c, (if w then acc s c else wr s c) ⊆ t_K th) C) then
    let e := next_ev s in
    St {| msgs := msgs s; next_ev := S e; acc := touch (acc s) C e; wr := if w then touch (wr s) C e else wr s;
          allc := allc s; freed := freed s;
          ths := <[i := mk ({[e]} ∪ t_K th) (t_seen th) hs' (t_next th) m ({[e]} ∪ t_mine th)]> (ths s) |}
  else Race.

Inductive act :=
| ASlice (j : nat) (C : cellset)      (* Bytes::clone / slice: a read-only handle on a subset *)
| ARead (j : nat)
| AWrite (j : nat)                    (* BytesMut: write own cells *)
| ASplit (j : nat) (C : cellset)      (* BytesMut::split_*: partition own cells into two BytesMut handles *)
| AFreeze (j : nat)
| ADrop (j : nat)
| ATryReclaim (j : nat) (k : nat)     (* is_unique load reading message k *)
| AStep (k : nat)
| AUnsplit (j1 j2 : nat).             (* BytesMut::unsplit of two handles of one thread: j1 takes j2's cells, j2's reference is released *)

Definition tstep (o : ords) (s : state) (i : nat) (a : act) : option outcome :=
  th ← ths s !! i;
  match t_mic th, a with
  | Idle, ASlice j C =>
      h ← t_hs th !! j;
      if h_mut h then None else if decide (C ⊆ h_cells h) then
        if freed s then Some UAF else
        let '(K', ms, _) := rmw (o_inc o) S s th in
        Some (St (upd s i (mk K' (length (msgs s)) (<[t_next th := {| h_cells := C; h_mut := false |}]> (t_hs th)) (S (t_next th)) Idle (t_mine th)) ms))
      else None
  | Idle, ARead j => h ← t_hs th !! j; Some (access s i th (h_cells h) false (t_hs th) Idle)
  | Idle, AWrite j => h ← t_hs th !! j; if h_mut h then Some (access s i th (h_cells h) true (t_hs th) Idle) else None
  | Idle, ASplit j C =>
      h ← t_hs th !! j;
      if h_mut h then if decide (C ⊆ h_cells h) then
        if freed s then Some UAF else
        let '(K', ms, _) := rmw (o_inc o) S s th in
        Some (St (upd s i (mk K' (length (msgs s))
                    (<[t_next th := {| h_cells := C; h_mut := true |}]> (<[j := {| h_cells := h_cells h ∖ C; h_mut := true |}]> (t_hs th)))
                    (S (t_next th)) Idle (t_mine th)) ms))
      else None else None
  | Idle, AFreeze j =>
      h ← t_hs th !! j;
      Some (St (upd s i (mk (t_K th) (t_seen th) (<[j := {| h_cells := h_cells h; h_mut := false |}]> (t_hs th)) (t_next th) Idle (t_mine th)) (msgs s)))
  | Idle, ADrop j =>
      h ← t_hs th !! j;
      if freed s then Some UAF else
      let '(K', ms, old) := rmw (o_dec o) pred s th in
      Some (St (upd s i (mk K' (length (msgs s)) (delete j (t_hs th)) (t_next th) (if decide (old = 1) then DropLoad else Idle) (t_mine th)) ms))
  | Idle, ATryReclaim j k =>
      h ← t_hs th !! j;
      if h_mut h then
        if freed s then Some UAF else
        m ← msgs s !! k;
        if decide (t_seen th ≤ k) then
          let K' := if is_acq (o_uniq o) then t_K th ∪ m_view m else t_K th in
          Some (St (upd s i (mk K' k (t_hs th) (t_next th) (if decide (m_val m = 1) then Reclaim else Idle) (t_mine th)) (msgs s)))
        else None
      else None
  | Idle, AUnsplit j1 j2 =>
      h1 ← t_hs th !! j1; h2 ← t_hs th !! j2;
      if decide (j1 = j2) then None else
      if h_mut h1 && h_mut h2 then
        if freed s then Some UAF else
        let '(K', ms, old) := rmw (o_dec o) pred s th in
        Some (St (upd s i (mk K' (length (msgs s)) (<[j1 := {| h_cells := h_cells h1 ∪ h_cells h2; h_mut := true |}]> (delete j2 (t_hs th))) (t_next th)
                             (if decide (old = 1) then DropLoad else Idle) (t_mine th)) ms))
      else None
  | Reclaim, AStep _ =>
      (* sole holder: copy the view to the front and take the whole buffer: a write to every cell *)
      Some (access s i th (allc s) true ((λ _, {| h_cells := allc s; h_mut := true |}) <$> t_hs th) Idle)
  | DropLoad, AStep k =>
      if freed s then Some UAF else
      m ← msgs s !! k;
      if decide (t_seen th ≤ k) then
        Some (St (upd s i (mk (if is_acq (o_decload o) then t_K th ∪ m_view m else t_K th) k (t_hs th) (t_next th) DoFree (t_mine th)) (msgs s)))
      else None
  | DoFree, AStep _ =>
      match access s i th (allc s) true (t_hs th) Idle with
      | St s' => Some (St {| msgs := msgs s'; next_ev := next_ev s'; acc := acc s'; wr := wr s'; allc := allc s'; freed := true; ths := ths s' |})
      | r => Some r
      end
  | _, _ => None
  end.

Inductive reach (o : ords) (s0 : state) : state → Prop :=
| reach_init : reach o s0 s0
| reach_step s i a s' : reach o s0 s → tstep o s i a = Some (St s') → reach o s0 s'.

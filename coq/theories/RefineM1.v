(* M2 refines M1 on the handles an operation IS applied to (the other half is the frame theorem of HeapFrame.v):
   with abs s = "every handle of s as an independent value (kind, bytes it reads)", every step of M2 that returns is the step of
   M1 (Spec.sstep) on the abstractions. *)
From stdpp Require Import gmap.
From Coq Require Import NArith Lia String.
From BV Require Import Base BaseLemmas BufMut Heap HeapLaws HeapPanic HeapWF HeapWFPrim HeapWFOps HeapWFMain HeapFrame SizeInv Spec.
Local Open Scope N_scope.
Arguments N.add : simpl never. Arguments N.sub : simpl never. Arguments N.ltb : simpl never. Arguments N.leb : simpl never. Arguments N.eqb : simpl never.

Definition kind_of (y : handle) : skind := match y with HB _ _ _ _ _ => KB | HM _ _ _ _ _ => KM | HV _ _ _ => KV end.
Definition aval (sm : smap) (y : handle) : sval := {| sv_kind := kind_of y; sv_bytes := view sm y |}.
Definition abs (s : hst) : sst := {| vals := aval (sts s) <$> hs s; snext := next_h s |}.

(* ---- inversion of the monad ---- *)
Lemma bind_inv {A B} (m : M A) (f : A -> M B) s e b s2 e2 : mbind m f s e = OK b s2 e2 -> exists a s1 e1, m s e = OK a s1 e1 /\ f a s1 e1 = OK b s2 e2.
Proof. unfold mbind. destruct (m s e) as [a s1 e1| |]; [eauto|done|done]. Qed.
Lemma get_h_inv h s e x s1 e1 : get_h h s e = OK x s1 e1 -> s1 = s /\ e1 = e /\ hs s !! h = Some x.
Proof. unfold get_h. destruct (hs s !! h); [|done]. by intros [= -> -> ->]. Qed.
Lemma b_parts_inv x s e p s1 e1 : b_parts x s e = OK p s1 e1 -> s1 = s /\ e1 = e /\ exists k o l v a, x = HB k o l v a /\ p = (k, o, l, v, a).
Proof. destruct x; try done. intros [= <- <- <-]. eauto 10. Qed.
Lemma m_parts_inv x s e p s1 e1 : m_parts x s e = OK p s1 e1 -> s1 = s /\ e1 = e /\ exists k o l c kd, x = HM k o l c kd /\ p = (k, o, l, c, kd).
Proof. destruct x; try done. intros [= <- <- <-]. eauto 10. Qed.
Lemma massert_inv b s e u s1 e1 : massert b s e = OK u s1 e1 -> b = true /\ s1 = s /\ e1 = e.
Proof. destruct b; [|done]. by intros [= <- <- <-]. Qed.
Lemma mcheck_inv b w s e u s1 e1 : mcheck b w s e = OK u s1 e1 -> b = true /\ s1 = s /\ e1 = e.
Proof. destruct b; [|done]. by intros [= <- <- <-]. Qed.
Lemma mret_inv {A} (a : A) s e a1 s1 e1 : mret a s e = OK a1 s1 e1 -> a1 = a /\ s1 = s /\ e1 = e.
Proof. by intros [= <- <- <-]. Qed.
Lemma put_h_inv h x s e u s1 e1 : put_h h x s e = OK u s1 e1 -> s1 = set_hs (<[h := x]>) s /\ e1 = e.
Proof. by intros [= <- <-]. Qed.
Lemma del_h_inv h s e u s1 e1 : del_h h s e = OK u s1 e1 -> s1 = set_hs (delete h) s /\ e1 = e.
Proof. by intros [= <- <-]. Qed.
Lemma new_h_inv x s e r s1 e1 : new_h x s e = OK r s1 e1 -> r = next_h s /\ hs s1 = <[next_h s := x]> (hs s) /\ sts s1 = sts s /\ next_h s1 = Pos.succ (next_h s) /\ e1 = e.
Proof. unfold new_h. by intros [= <- <- <-]. Qed.

(* ---- computations that leave the handle table alone (state-indexed, so that mget/mput compose) ---- *)
Definition hsm {A} (m : M A) (s : hst) : Prop := forall e, match m s e with OK _ s1 _ | PANIC s1 _ => hs s1 = hs s /\ next_h s1 = next_h s | UB _ => True end.
Lemma hsm_ret {A} (a : A) s : hsm (mret a) s. Proof. intros e. done. Qed.
Lemma hsm_panic {A} s : hsm (@mpanic A) s. Proof. intros e. done. Qed.
Lemma hsm_ub {A} w s : hsm (@mub A w) s. Proof. intros e. done. Qed.
Lemma hsm_bind {A B} (m : M A) (f : A -> M B) s : hsm m s -> (forall a s1 e e1, m s e = OK a s1 e1 -> hsm (f a) s1) -> hsm (mbind m f) s.
Proof.
  intros Hm Hf e. unfold mbind. specialize (Hm e). destruct (m s e) as [a s1 e1|s1 e1|] eqn:E; [|done|done]. destruct Hm as [H1 H2].
  specialize (Hf a s1 e e1 E e1). destruct (f a s1 e1) as [b s2 e2|s2 e2|]; [| |done]; destruct Hf as [H3 H4]; split; congruence.
Qed.
Lemma hsm_of_same {A} (m : M A) s : hs_same m -> hsm m s. Proof. intros H e. apply H. Qed.
Lemma hsm_mget {B} (f : hst -> M B) s : hsm (f s) s -> hsm (mbind mget f) s. Proof. intros H e. unfold mbind, mget. apply H. Qed.
Lemma hsm_mput s s' : hs s' = hs s -> next_h s' = next_h s -> hsm (mput s') s. Proof. intros H1 H2 e. done. Qed.
Lemma hsm_bind_keeps {A B} (m : M A) (f : A -> M B) s : keeps m -> (forall a, hsm (f a) s) -> hsm (mbind m f) s.
Proof. intros Hk Hf e. unfold mbind. specialize (Hk s e). destruct (m s e) as [a s1 e1|s1 e1|]; [subst; by apply Hf|by subst|done]. Qed.
Create HintDb hsm.
Ltac hsm_step :=
  match goal with
  | |- hsm (mbind (get_st _) _) _ => apply hsm_bind_keeps; [apply keeps_get_st|intros]
  | |- hsm (mbind (mcheck _ _) _) _ => apply hsm_bind_keeps; [apply keeps_mcheck|intros]
  | |- hsm (mbind (massert _) _) _ => apply hsm_bind_keeps; [apply keeps_massert|intros]
  | |- hsm (mbind (emit _) _) _ => apply hsm_bind_keeps; [apply keeps_emit|intros]
  | |- hsm (mbind (mret _) _) _ => apply hsm_bind_keeps; [apply keeps_ret|intros]
  | |- hsm (mbind (mread _ _ _) _) _ => apply hsm_bind_keeps; [apply keeps_mread|intros]
  | |- hsm (mbind mget _) _ => apply hsm_mget
  | |- hsm (mbind _ _) _ => apply hsm_bind; [|intros]
  | |- hsm (mret _) _ => apply hsm_ret
  | |- hsm mpanic _ => apply hsm_panic
  | |- hsm (mub _) _ => apply hsm_ub
  | |- hsm (emit _) _ => apply hsm_of_same, hs_emit
  | |- hsm (get_st _) _ => apply hsm_of_same, hs_get_st
  | |- hsm (put_st _ _) _ => apply hsm_of_same, hs_put_st
  | |- hsm (get_h _) _ => apply hsm_of_same, hs_get_h
  | |- hsm (massert _) _ => apply hsm_of_same, hs_massert
  | |- hsm (mcheck _ _) _ => apply hsm_of_same, hs_mcheck
  | |- hsm mget _ => apply hsm_of_same, hs_mget
  | |- hsm (mput _) _ => apply hsm_mput; reflexivity
  | |- hsm (if ?c then _ else _) _ => destruct c eqn:?
  | |- hsm (match ?x with _ => _ end) _ => destruct x eqn:?
  | |- hsm (let '(_, _) := ?p in _) _ => destruct p
  end.
Ltac hsm_auto := repeat (hsm_step || (progress eauto with hsm)).
Lemma hsm_upd_st k f s : hsm (upd_st k f) s. Proof. unfold upd_st. hsm_auto. Qed.
Lemma hsm_inc_rc k s : hsm (inc_rc k) s. Proof. unfold inc_rc. hsm_auto. Qed.
Lemma hsm_get_rc k s : hsm (get_rc k) s. Proof. unfold get_rc. hsm_auto. Qed.
Lemma hsm_mread k o l s : hsm (mread k o l) s. Proof. unfold mread. hsm_auto. Qed.
Lemma hsm_mwrite k o bs s : hsm (mwrite k o bs) s. Proof. unfold mwrite. hsm_auto. Qed.
Lemma hsm_free_buf k sz s : hsm (free_buf k sz) s. Proof. unfold free_buf. hsm_auto. Qed.
Global Hint Resolve hsm_upd_st hsm_inc_rc hsm_get_rc hsm_mread hsm_mwrite hsm_free_buf : hsm.
Lemma hsm_drop_vec k c s : hsm (drop_vec k c) s. Proof. unfold drop_vec. hsm_auto. Qed.
Lemma hsm_alloc_buf sz i s : hsm (alloc_buf sz i) s. Proof. unfold alloc_buf. hsm_auto. Qed.
Global Hint Resolve hsm_drop_vec hsm_alloc_buf : hsm.
Lemma hsm_release k s : hsm (release k) s. Proof. unfold release. hsm_auto. Qed.
Lemma hsm_realloc_buf orc k oc kp nd s : hsm (realloc_buf orc k oc kp nd) s. Proof. unfold realloc_buf. hsm_auto. Qed.
Lemma hsm_copy_to_front k o l s : hsm (copy_to_front k o l) s. Proof. unfold copy_to_front. hsm_auto. Qed.
Global Hint Resolve hsm_release hsm_realloc_buf hsm_copy_to_front : hsm.
Lemma hsm_bytes_from_vec k l c s : hsm (bytes_from_vec k l c) s. Proof. unfold bytes_from_vec. hsm_auto. Qed.
Lemma hsm_shallow_clone_arc k o l s : hsm (shallow_clone_arc k o l) s. Proof. unfold shallow_clone_arc. hsm_auto. Qed.
Global Hint Resolve hsm_bytes_from_vec hsm_shallow_clone_arc : hsm.
Lemma hsm_bytes_drop_rep x s : hsm (bytes_drop_rep x) s. Proof. unfold bytes_drop_rep. hsm_auto. Qed.
Lemma hsm_to_vec bs s : hsm (to_vec bs) s. Proof. unfold to_vec. hsm_auto. Qed.
Lemma hsm_bytes_contents x s : hsm (bytes_contents x) s. Proof. unfold bytes_contents. hsm_auto. Qed.
Lemma hsm_adv_unchecked c x s : hsm (adv_unchecked c x) s. Proof. unfold adv_unchecked. hsm_auto. Qed.
Global Hint Resolve hsm_bytes_drop_rep hsm_to_vec hsm_bytes_contents hsm_adv_unchecked : hsm.
Lemma hsm_shared_to_vec k o l s : hsm (shared_to_vec k o l) s. Proof. unfold shared_to_vec. hsm_auto. Qed.
Lemma hsm_shared_to_mut k o l s : hsm (shared_to_mut k o l) s. Proof. unfold shared_to_mut, from_vec. hsm_auto. Qed.
Global Hint Resolve hsm_shared_to_vec hsm_shared_to_mut : hsm.
Lemma hsm_bytes_into_vec_rep x s : hsm (bytes_into_vec_rep x) s. Proof. unfold bytes_into_vec_rep. hsm_auto. Qed.
Lemma hsm_bytes_into_mut_rep x s : hsm (bytes_into_mut_rep x) s. Proof. unfold bytes_into_mut_rep, from_vec. hsm_auto. Qed.
Lemma hsm_bytes_is_unique_rep x s : hsm (bytes_is_unique_rep x) s. Proof. unfold bytes_is_unique_rep. hsm_auto. Qed.
Lemma hsm_promote rc x s : hsm (promote rc x) s. Proof. unfold promote. hsm_auto. Qed.
Global Hint Resolve hsm_bytes_into_vec_rep hsm_bytes_into_mut_rep hsm_bytes_is_unique_rep hsm_promote : hsm.
Lemma hsm_m_shallow_clone x s : hsm (m_shallow_clone x) s. Proof. unfold m_shallow_clone. hsm_auto. Qed.
Lemma hsm_m_drop_rep x s : hsm (m_drop_rep x) s. Proof. unfold m_drop_rep. hsm_auto. Qed.
Lemma hsm_m_freeze_rep x s : hsm (m_freeze_rep x) s. Proof. unfold m_freeze_rep. hsm_auto. Qed.
Lemma hsm_m_into_vec_rep x s : hsm (m_into_vec_rep x) s. Proof. unfold m_into_vec_rep. hsm_auto. Qed.
Lemma hsm_reserve_inner orc n al x s : hsm (reserve_inner orc n al x) s. Proof. unfold reserve_inner. hsm_auto. Qed.
Global Hint Resolve hsm_m_shallow_clone hsm_m_drop_rep hsm_m_freeze_rep hsm_m_into_vec_rep hsm_reserve_inner : hsm.
Lemma hsm_m_reserve orc n x s : hsm (m_reserve orc n x) s. Proof. unfold m_reserve. hsm_auto. Qed.
Lemma hsm_m_try_reclaim orc n x s : hsm (m_try_reclaim orc n x) s. Proof. unfold m_try_reclaim. hsm_auto. Qed.
Global Hint Resolve hsm_m_reserve hsm_m_try_reclaim : hsm.
Lemma hsm_m_extend orc bs x s : hsm (m_extend orc bs x) s. Proof. unfold m_extend. hsm_auto. Qed.
Global Hint Resolve hsm_m_extend : hsm.
Lemma hsm_run {A} (m : M A) s e a s1 e1 : hsm m s -> m s e = OK a s1 e1 -> hs s1 = hs s /\ next_h s1 = next_h s.
Proof. intros H E. specialize (H e). by rewrite E in H. Qed.

(* ---- running the existing effect systems ---- *)
Definition nK : positive -> Prop := fun _ => False.
Lemma deff_run {A} K (m : M A) s e a s1 e1 : deff K m s -> sfresh s -> m s e = OK a s1 e1 -> dsame K s s1 /\ sfresh s1.
Proof. intros H F E. specialize (H F e). by rewrite E in H. Qed.
Lemma leff_run {A} (m : M A) s e a s1 e1 : leff m s -> dlen s -> m s e = OK a s1 e1 -> dlen s1.
Proof. intros H D E. specialize (H D e). by rewrite E in H. Qed.
(* reading a region of a storage *)
Definition rdk (sm : smap) (k : positive) (o l : N) : list byte := match sm !! k with Some st => rd (s_data st) o l | None => [] end.
Lemma rdk_keep s s1 k o l : dsame nK s s1 -> is_Some (sts s !! k) -> rdk (sts s1) k o l = rdk (sts s) k o l.
Proof. intros D [st Hs]. unfold rdk. rewrite Hs. destruct (D k st Hs) as (st1 & -> & [[]| ->]). done. Qed.
Lemma rdk_zero sm k o : rdk sm k o 0 = []. Proof. unfold rdk. destruct (sm !! k); [apply rd_zero|done]. Qed.
Lemma rd_sub d o l b e : b <= e -> e <= l -> rd d (o + b) (e - b) = sub (rd d o l) b e.
Proof.
  intros H1 H2. unfold rd, sub. rewrite skipN_firstnN, skipN_skipN, firstnN_firstnN. f_equal. lia.
Qed.
Lemma rdk_sub sm k o l b e : b <= e -> e <= l -> rdk sm k (o + b) (e - b) = sub (rdk sm k o l) b e.
Proof. intros H1 H2. unfold rdk. destruct (sm !! k); [by apply rd_sub|]. unfold sub. by rewrite skipN_eq, firstnN_eq, drop_nil, take_nil. Qed.
Lemma sub_firstn bs a : sub bs 0 a = firstnN a bs. Proof. unfold sub. by rewrite skipN_0, N.sub_0_r. Qed.
Lemma sub_skip bs a : sub bs a (lenN bs) = skipN a bs. Proof. unfold sub. apply firstnN_all. rewrite lenN_skipN. lia. Qed.
Lemma lenN_rd d o l : o + l <= lenN d -> lenN (rd d o l) = l.
Proof. intros H. unfold rd. rewrite lenN_firstnN, lenN_skipN. lia. Qed.
Lemma view_hb sm k o l vt a : view sm (HB (Some k) o l vt a) = rdk sm k o l. Proof. done. Qed.
Lemma view_hm sm k o l c kd : view sm (HM k o l c kd) = rdk sm k o l. Proof. done. Qed.
Lemma view_hv sm k l c : view sm (HV k l c) = rdk sm k 0 l. Proof. done. Qed.
(* the length of what a typed handle reads *)
Lemma typed_stor_some sm x k : typed sm x -> stor x = Some k -> h_len x <> 0 -> is_Some (sm !! k).
Proof.
  intros Ht Hk Hl. destruct x as [[k'|] o l vt a|k' o l c kd|k' l c]; simpl in *; try done; injection Hk as ->.
  - destruct vt; simpl in Ht; [destruct Ht as [->|(st & -> & _)]; [done|eauto]|..]; destruct Ht as (st & -> & _); eauto.
  - destruct kd; destruct Ht as (st & -> & _); eauto.
  - destruct Ht as (st & -> & _); eauto.
Qed.
Lemma view_len s x : dlen s -> typed (sts s) x -> lenN (view (sts s) x) = h_len x.
Proof.
  intros D Ht. destruct x as [[k|] o l vt a|k o l c kd|k l c]; simpl in *.
  - destruct vt; simpl in Ht.
    + destruct Ht as [->|(st & Hs & _ & Hb)]; [destruct (sts s !! k); [by rewrite rd_zero|done]|]. rewrite Hs. apply lenN_rd. rewrite (D _ _ Hs). lia.
    + destruct Ht as (st & Hs & _ & Hb & _). rewrite Hs. apply lenN_rd. rewrite (D _ _ Hs). lia.
    + destruct Ht as (st & Hs & _ & Hb & _). rewrite Hs. apply lenN_rd. rewrite (D _ _ Hs). lia.
    + destruct Ht as (st & Hs & _ & Hb & _). rewrite Hs. apply lenN_rd. rewrite (D _ _ Hs). lia.
    + destruct Ht as (st & Hs & _ & Hb & _). rewrite Hs. apply lenN_rd. rewrite (D _ _ Hs). lia.
    + destruct Ht as (st & Hs & _ & Hb & _). rewrite Hs. apply lenN_rd. rewrite (D _ _ Hs). lia.
  - by destruct Ht as [-> _].
  - destruct kd; destruct Ht as (st & Hs & _ & _ & _ & Hb & Hl); rewrite Hs; apply lenN_rd; rewrite (D _ _ Hs); lia.
  - destruct Ht as (st & Hs & _ & _ & _ & Hb & Hl). rewrite Hs. apply lenN_rd. rewrite (D _ _ Hs). lia.
Qed.

(* ---- from the concrete handle table to the abstract one ---- *)
Lemma abs_lookup s h x : hs s !! h = Some x -> vals (abs s) !! h = Some (aval (sts s) x).
Proof. intros H. unfold abs. cbn [vals]. by rewrite lookup_fmap, H. Qed.
Lemma abs_frame o s s' h' : frame_post o s s' -> ~ tch o h' -> (aval (sts s') <$> hs s) !! h' = (aval (sts s) <$> hs s) !! h' /\ (forall y, hs s !! h' = Some y -> hs s' !! h' = Some y).
Proof.
  intros F Hn. rewrite !lookup_fmap. destruct (hs s !! h') as [y|] eqn:Hy; [|done]. destruct (F h' y Hn Hy) as [H1 H2]. split; [|by intros ? [= <-]].
  simpl. unfold aval. by rewrite H2.
Qed.
(* shapes of the change of the handle table *)
Lemma abs_shape_new o s s' y2 : frame_post o s s' -> (forall h', ~ tch o h') -> hs s' = <[next_h s := y2]> (hs s) -> next_h s' = Pos.succ (next_h s) ->
  abs s' = {| vals := <[next_h s := aval (sts s') y2]> (vals (abs s)); snext := Pos.succ (next_h s) |}.
Proof.
  intros F HT Hh Hn. unfold abs. rewrite Hn. f_equal. cbn [vals]. apply map_eq. intros h'. rewrite Hh, fmap_insert.
  destruct (decide (h' = next_h s)) as [->|Hne]; [by rewrite !lookup_insert|]. rewrite !lookup_insert_ne by done. by apply (abs_frame o s s' h' F).
Qed.
Lemma abs_shape_upd_new o s s' h yh y2 : frame_post o s s' -> (forall h', tch o h' -> h' = h) -> hs s' = <[next_h s := y2]> (<[h := yh]> (hs s)) -> next_h s' = Pos.succ (next_h s) ->
  abs s' = {| vals := <[next_h s := aval (sts s') y2]> (<[h := aval (sts s') yh]> (vals (abs s))); snext := Pos.succ (next_h s) |}.
Proof.
  intros F HT Hh Hn. unfold abs. rewrite Hn. f_equal. cbn [vals]. apply map_eq. intros h'. rewrite Hh, !fmap_insert.
  destruct (decide (h' = next_h s)) as [->|Hne]; [by rewrite !lookup_insert|]. rewrite !(lookup_insert_ne _ (next_h s)) by done.
  destruct (decide (h' = h)) as [->|Hne2]; [by rewrite !lookup_insert|]. rewrite !lookup_insert_ne by done. apply (abs_frame o s s' h' F). intros Ht. by apply HT in Ht.
Qed.
Lemma abs_shape_upd o s s' h yh : frame_post o s s' -> (forall h', tch o h' -> h' = h) -> hs s' = <[h := yh]> (hs s) -> next_h s' = next_h s ->
  abs s' = {| vals := <[h := aval (sts s') yh]> (vals (abs s)); snext := next_h s |}.
Proof.
  intros F HT Hh Hn. unfold abs. rewrite Hn. f_equal. cbn [vals]. apply map_eq. intros h'. rewrite Hh, !fmap_insert.
  destruct (decide (h' = h)) as [->|Hne2]; [by rewrite !lookup_insert|]. rewrite !lookup_insert_ne by done. apply (abs_frame o s s' h' F). intros Ht. by apply HT in Ht.
Qed.
Lemma abs_shape_del o s s' h : frame_post o s s' -> (forall h', tch o h' -> h' = h) -> hs s' = delete h (hs s) -> next_h s' = next_h s ->
  abs s' = {| vals := delete h (vals (abs s)); snext := next_h s |}.
Proof.
  intros F HT Hh Hn. unfold abs. rewrite Hn. f_equal. cbn [vals]. apply map_eq. intros h'. rewrite Hh, !fmap_delete.
  destruct (decide (h' = h)) as [->|Hne2]; [by rewrite !lookup_delete|]. rewrite !lookup_delete_ne by done. apply (abs_frame o s s' h' F). intros Ht. by apply HT in Ht.
Qed.
Lemma abs_shape_del_new o s s' h y2 : frame_post o s s' -> (forall h', tch o h' -> h' = h) -> hs s' = <[next_h s := y2]> (delete h (hs s)) -> next_h s' = Pos.succ (next_h s) ->
  abs s' = {| vals := <[next_h s := aval (sts s') y2]> (delete h (vals (abs s))); snext := Pos.succ (next_h s) |}.
Proof.
  intros F HT Hh Hn. unfold abs. rewrite Hn. f_equal. cbn [vals]. apply map_eq. intros h'. rewrite Hh, fmap_insert, fmap_delete.
  destruct (decide (h' = next_h s)) as [->|Hne]; [by rewrite !lookup_insert|]. rewrite !(lookup_insert_ne _ (next_h s)) by done.
  destruct (decide (h' = h)) as [->|Hne2]; [by rewrite !lookup_delete|]. rewrite !lookup_delete_ne by done. apply (abs_frame o s s' h' F). intros Ht. by apply HT in Ht.
Qed.

Ltac binv H := let a := fresh "a" in let s := fresh "s" in let e := fresh "e" in let H1 := fresh "R" in apply bind_inv in H as (a & s & e & H1 & H).
Tactic Notation "binvn" hyp(H) ident(a) := let s := fresh "s" in let e := fresh "e" in let H1 := fresh "R" in apply bind_inv in H as (a & s & e & H1 & H).
Ltac inv_get_h H := apply get_h_inv in H as (-> & -> & H).
Ltac inv_assert H := let Hb := fresh "Hb" in apply massert_inv in H as (Hb & -> & ->).

(* clone: the copy reads what the original reads; the original may get its KIND bit flipped *)
Lemma bytes_clone_inv h s e c s1 e1 ko o l vt a : sfresh s -> hs s !! h = Some (HB ko o l vt a) -> bytes_clone h s e = OK c s1 e1 ->
  exists vt' a' a'', c = HB ko o l vt' a' /\ hs s1 = <[h := HB ko o l vt a'']> (hs s) /\ next_h s1 = next_h s /\ dsame nK s s1 /\ sfresh s1.
Proof.
  intros F Hx E. destruct (deff_run nK _ _ _ _ _ _ (deff_bytes_clone nK h s) F E) as [D F1].
  assert (forall vt' a', c = HB ko o l vt' a' -> hs s1 = hs s -> next_h s1 = next_h s -> exists vt' a' a'', c = HB ko o l vt' a' /\ hs s1 = <[h := HB ko o l vt a'']> (hs s) /\ next_h s1 = next_h s /\ dsame nK s s1 /\ sfresh s1) as Hsame.
  { intros vt' a' -> H1 H2. exists vt', a', a. rewrite insert_id by done. done. }
  unfold bytes_clone in E. binv E. inv_get_h R. rewrite Hx in R. injection R as <-.
  destruct vt, ko as [k|]; try done.
  - injection E as <- <- <-. by eapply Hsame.
  - injection E as <- <- <-. by eapply Hsame.
  - binv E. apply mret_inv in E as (-> & -> & ->). destruct (hsm_run _ _ _ _ _ _ (hsm_inc_rc k s) R). by eapply Hsame.
  - destruct a.
    + unfold shallow_clone_arc in E. binv E. apply mret_inv in E as (-> & -> & ->). destruct (hsm_run _ _ _ _ _ _ (hsm_inc_rc k s) R). by eapply Hsame.
    + binv E. binv E. binv E. apply mret_inv in E as (-> & -> & ->). apply put_h_inv in R1 as (-> & ->).
      destruct (hsm_run _ _ _ _ _ _ (hsm_upd_st k _ s) R) as [H1 H2]. injection R0 as <- <-.
      exists VShared, false, true. cbn [hs set_hs next_h]. rewrite H1, H2. done.
  - destruct a.
    + unfold shallow_clone_arc in E. binv E. apply mret_inv in E as (-> & -> & ->). destruct (hsm_run _ _ _ _ _ _ (hsm_inc_rc k s) R). by eapply Hsame.
    + binv E. binv E. binv E. apply mret_inv in E as (-> & -> & ->). apply put_h_inv in R1 as (-> & ->).
      destruct (hsm_run _ _ _ _ _ _ (hsm_upd_st k _ s) R) as [H1 H2]. injection R0 as <- <-.
      exists VShared, false, true. cbn [hs set_hs next_h]. rewrite H1, H2. done.
  - unfold shallow_clone_arc in E. binv E. apply mret_inv in E as (-> & -> & ->). destruct (hsm_run _ _ _ _ _ _ (hsm_inc_rc k s) R). by eapply Hsame.
  - binv E. apply mret_inv in E as (-> & -> & ->). destruct (hsm_run _ _ _ _ _ _ (hsm_inc_rc k s) R). by eapply Hsame.
Qed.

Lemma rd_prefix d o l a : a <= l -> rd d o a = firstnN a (rd d o l).
Proof. intros H. unfold rd. rewrite firstnN_firstnN. f_equal. lia. Qed.
Lemma rd_suffix d o l a : rd d (o + a) (l - a) = skipN a (rd d o l).
Proof. unfold rd. by rewrite skipN_firstnN, skipN_skipN. Qed.
Lemma sub_nil b e : sub [] b e = []. Proof. unfold sub. by rewrite skipN_eq, firstnN_eq, drop_nil, take_nil. Qed.
Lemma firstnN_nil {A} n : firstnN n (@nil A) = []. Proof. by rewrite firstnN_eq, take_nil. Qed.
Lemma skipN_nil {A} n : skipN n (@nil A) = []. Proof. by rewrite skipN_eq, drop_nil. Qed.
(* views of Bytes handles derived from a typed one, in a later state that kept the data *)
Lemma hb_stor s k o l vt a : typed (sts s) (HB (Some k) o l vt a) -> l <> 0 -> is_Some (sts s !! k).
Proof. intros Ht Hl. by apply (typed_stor_some _ _ k Ht). Qed.
Lemma view_hb_keep s s1 ko o l vt a vt' a' : dsame nK s s1 -> typed (sts s) (HB ko o l vt a) -> view (sts s1) (HB ko o l vt' a') = view (sts s) (HB ko o l vt a).
Proof.
  intros D Ht. destruct ko as [k|]; [|done]. rewrite !view_hb. destruct (N.eq_dec l 0) as [->|Hl]; [by rewrite !rdk_zero|]. apply rdk_keep; [done|by eapply hb_stor].
Qed.
Lemma view_hb_sub s s1 ko o l vt a vt' a' b e : dsame nK s s1 -> typed (sts s) (HB ko o l vt a) -> b <= e -> e <= l ->
  view (sts s1) (HB ko (o + b) (e - b) vt' a') = sub (view (sts s) (HB ko o l vt a)) b e.
Proof.
  intros D Ht H1 H2. destruct ko as [k|]; [|cbn [view]; by rewrite sub_nil]. rewrite !view_hb. destruct (N.eq_dec l 0) as [->|Hl].
  - replace (e - b) with 0 by lia. rewrite !rdk_zero. by rewrite sub_nil.
  - rewrite (rdk_keep s s1); [by apply rdk_sub|done|by eapply hb_stor].
Qed.
Lemma view_hb_prefix s s1 ko o l vt a vt' a' n : dsame nK s s1 -> typed (sts s) (HB ko o l vt a) -> n <= l ->
  view (sts s1) (HB ko o n vt' a') = firstnN n (view (sts s) (HB ko o l vt a)).
Proof.
  intros D Ht H1. destruct ko as [k|]; [|cbn [view]; by rewrite firstnN_nil]. rewrite !view_hb. destruct (N.eq_dec l 0) as [->|Hl].
  - replace n with 0 by lia. by rewrite !rdk_zero.
  - rewrite (rdk_keep s s1); [|done|by eapply hb_stor]. unfold rdk. destruct (sts s !! k); [by apply rd_prefix|by rewrite firstnN_nil].
Qed.
Lemma view_hb_suffix s s1 ko o l vt a vt' a' n : dsame nK s s1 -> typed (sts s) (HB ko o l vt a) -> n <= l ->
  view (sts s1) (HB ko (o + n) (l - n) vt' a') = skipN n (view (sts s) (HB ko o l vt a)).
Proof.
  intros D Ht H1. destruct ko as [k|]; [|cbn [view]; by rewrite skipN_nil]. rewrite !view_hb. destruct (N.eq_dec l 0) as [->|Hl].
  - replace (0 - n) with 0 by lia. by rewrite !rdk_zero, skipN_nil.
  - rewrite (rdk_keep s s1); [|done|by eapply hb_stor]. unfold rdk. destruct (sts s !! k); [by apply rd_suffix|by rewrite skipN_nil].
Qed.
Lemma dsame_set_hs K s s1 f : dsame K s s1 -> dsame K s (set_hs f s1). Proof. done. Qed.
Lemma aval_eq sm sm' y y' : kind_of y' = kind_of y -> view sm' y' = view sm y -> aval sm' y' = aval sm y.
Proof. intros H1 H2. unfold aval. by rewrite H1, H2. Qed.

(* the M1 result forms, from the shape of the concrete change *)
Lemma fin_new o s s' y2 K b : frame_post o s s' -> (forall h', ~ tch o h') -> hs s' = <[next_h s := y2]> (hs s) -> next_h s' = Pos.succ (next_h s) ->
  kind_of y2 = K -> view (sts s') y2 = b -> snew (abs s) K b = SOk (abs s') (RH (next_h s)).
Proof. intros F HT Hh Hn <- <-. unfold snew. by rewrite (abs_shape_new o s s' y2 F HT Hh Hn). Qed.
Lemma fin_upd_new o s s' h yh y2 K1 b1 K2 b2 : frame_post o s s' -> (forall h', tch o h' -> h' = h) -> hs s' = <[next_h s := y2]> (<[h := yh]> (hs s)) -> next_h s' = Pos.succ (next_h s) ->
  kind_of yh = K1 -> view (sts s') yh = b1 -> kind_of y2 = K2 -> view (sts s') y2 = b2 -> snew (sset (abs s) h K1 b1) K2 b2 = SOk (abs s') (RH (next_h s)).
Proof. intros F HT Hh Hn <- <- <- <-. unfold snew, sset. by rewrite (abs_shape_upd_new o s s' h yh y2 F HT Hh Hn). Qed.
Lemma fin_keep_new o s s' h x yh y2 K2 b2 : frame_post o s s' -> (forall h', tch o h' -> h' = h) -> hs s !! h = Some x -> hs s' = <[next_h s := y2]> (<[h := yh]> (hs s)) -> next_h s' = Pos.succ (next_h s) ->
  kind_of yh = kind_of x -> view (sts s') yh = view (sts s) x -> kind_of y2 = K2 -> view (sts s') y2 = b2 -> snew (abs s) K2 b2 = SOk (abs s') (RH (next_h s)).
Proof.
  intros F HT Hx Hh Hn Hk Hv <- <-. unfold snew. rewrite (abs_shape_upd_new o s s' h yh y2 F HT Hh Hn).
  rewrite (aval_eq (sts s) (sts s') x yh Hk Hv). by rewrite (insert_id _ h); [|by apply abs_lookup].
Qed.
Lemma fin_upd o s s' h yh K b r : frame_post o s s' -> (forall h', tch o h' -> h' = h) -> hs s' = <[h := yh]> (hs s) -> next_h s' = next_h s ->
  kind_of yh = K -> view (sts s') yh = b -> SOk (sset (abs s) h K b) r = SOk (abs s') r.
Proof. intros F HT Hh Hn <- <-. unfold sset. by rewrite (abs_shape_upd o s s' h yh F HT Hh Hn). Qed.
Lemma fin_keep o s s' h x yh r : frame_post o s s' -> (forall h', tch o h' -> h' = h) -> hs s !! h = Some x -> hs s' = <[h := yh]> (hs s) -> next_h s' = next_h s ->
  kind_of yh = kind_of x -> view (sts s') yh = view (sts s) x -> SOk (abs s) r = SOk (abs s') r.
Proof.
  intros F HT Hx Hh Hn Hk Hv. rewrite (abs_shape_upd o s s' h yh F HT Hh Hn). rewrite (aval_eq (sts s) (sts s') x yh Hk Hv). rewrite (insert_id _ h); [|by apply abs_lookup]. done.
Qed.
Lemma fin_del o s s' h r : frame_post o s s' -> (forall h', tch o h' -> h' = h) -> hs s' = delete h (hs s) -> next_h s' = next_h s -> SOk (sdel (abs s) h) r = SOk (abs s') r.
Proof. intros F HT Hh Hn. unfold sdel. by rewrite (abs_shape_del o s s' h F HT Hh Hn). Qed.
Lemma fin_del_new o s s' h y2 K b : frame_post o s s' -> (forall h', tch o h' -> h' = h) -> hs s' = <[next_h s := y2]> (delete h (hs s)) -> next_h s' = Pos.succ (next_h s) ->
  kind_of y2 = K -> view (sts s') y2 = b -> snew (sdel (abs s) h) K b = SOk (abs s') (RH (next_h s)).
Proof. intros F HT Hh Hn <- <-. unfold snew, sdel. by rewrite (abs_shape_del_new o s s' h y2 F HT Hh Hn). Qed.

Section Ops.
Variable orc : oracle.
Ltac start W D Hok E F :=
  pose proof (m2_frame orc _ _ _ _ _ W D Hok E) as F; unfold run_op in E; cbn [hstep] in E.

Lemma ref_OBNew s r s' e' : WF s -> dlen s -> run_op orc OBNew s = OK r s' e' -> forall cap uniq, sstep cap uniq OBNew (abs s) = SOk (abs s') r.
Proof.
  intros W D E cap uniq. pose proof (m2_frame orc OBNew s r s' e' W D I E) as F. unfold run_op in E; cbn [hstep] in E. binv E. apply new_h_inv in R as (-> & Hh & Hs & Hn & _). apply mret_inv in E as (-> & <- & _).
  cbn [sstep]. unfold snew. rewrite (abs_shape_new OBNew s s' b_static_empty F); [reflexivity|intros ? []|done|done].
Qed.
Lemma ref_OBClone h s r s' e' : WF s -> dlen s -> op_ok s (OBClone h) -> run_op orc (OBClone h) s = OK r s' e' -> forall cap uniq, sstep cap uniq (OBClone h) (abs s) = SOk (abs s') r.
Proof.
  intros W D Hok E cap uniq. start W D Hok E F. destruct Hok as (ko & o & l & vt & a & Hx). pose proof W as [L Hf]. pose proof (lwf_fresh _ _ L) as Fs. pose proof (lwf_typed _ _ L _ _ Hx) as Hty.
  binv E. destruct (bytes_clone_inv _ _ _ _ _ _ _ _ _ _ _ Fs Hx R) as (vt' & a' & a'' & -> & Hh1 & Hn1 & D1 & F1). binv E. apply new_h_inv in R0 as (-> & Hh2 & Hs2 & Hn2 & _). apply mret_inv in E as (-> & <- & _).
  cbn [sstep]. unfold with_b. rewrite (abs_lookup _ _ _ Hx). cbn [aval sv_kind kind_of sv_bytes].
  rewrite Hn1 in *. eapply (fin_keep_new (OBClone h) s s' h _ (HB ko o l vt a'') (HB ko o l vt' a') _ _ F); [by intros ? ->|done|by rewrite Hh2, Hh1|done|done| |done|]; rewrite Hs2; by apply view_hb_keep.
Qed.
Lemma sub_same bs b : sub bs b b = []. Proof. unfold sub. by rewrite N.sub_diag, firstnN_0. Qed.
Lemma slice_core o h b e s ev r s' e' ko ofs l vt a : WF s -> hs s !! h = Some (HB ko ofs l vt a) -> bytes_slice h b e s ev = OK r s' e' ->
  frame_post o s s' -> (forall h', tch o h' -> h' = h) ->
  (b <=? e) = true /\ (e <=? l) = true /\ snew (abs s) KB (sub (view (sts s) (HB ko ofs l vt a)) b e) = SOk (abs s') r.
Proof.
  intros W Hx E F HT. pose proof W as [L Hf]. pose proof (lwf_fresh _ _ L) as Fs. pose proof (lwf_typed _ _ L _ _ Hx) as Hty.
  unfold bytes_slice in E. binv E. inv_get_h R. rewrite Hx in R. injection R as <-. binv E. apply mret_inv in R as (-> & -> & ->).
  binv E. inv_assert R. binv E. inv_assert R. split; [done|]. split; [done|]. destruct (e =? b) eqn:Eeb.
  - binv E. apply new_h_inv in R as (-> & Hh & Hs & Hn & _). apply mret_inv in E as (-> & <- & _). replace e with b by lia. rewrite sub_same.
    eapply (fin_keep_new o s s' h _ (HB ko ofs l vt a) b_static_empty _ _ F HT Hx); [by rewrite (insert_id _ h)|done|done|by rewrite Hs|done|done].
  - binv E. destruct (bytes_clone_inv _ _ _ _ _ _ _ _ _ _ _ Fs Hx R) as (vt' & a' & a'' & -> & Hh1 & Hn1 & D1 & F1).
    binv E. apply new_h_inv in R0 as (-> & Hh2 & Hs2 & Hn2 & _). apply mret_inv in E as (-> & <- & _). rewrite Hn1 in *.
    eapply (fin_keep_new o s s' h _ (HB ko ofs l vt a'') (HB ko (ofs + b) (e - b) vt' a') _ _ F HT Hx); [by rewrite Hh2, Hh1|done|done| |done|]; rewrite Hs2; [by apply view_hb_keep|apply view_hb_sub; [done|done|lia|lia]].
Qed.
Lemma ref_OBSlice h b e s r s' e' : WF s -> dlen s -> op_ok s (OBSlice h b e) -> run_op orc (OBSlice h b e) s = OK r s' e' -> forall cap uniq, sstep cap uniq (OBSlice h b e) (abs s) = SOk (abs s') r.
Proof.
  intros W D Hok E cap uniq. start W D Hok E F. destruct Hok as (ko & o & l & vt & a & Hx). pose proof W as [L Hf]. pose proof (lwf_typed _ _ L _ _ Hx) as Hty.
  destruct (slice_core _ _ _ _ _ _ _ _ _ _ _ _ _ _ W Hx E F ltac:(by intros ? ->)) as (H1 & H2 & H3).
  cbn [sstep]. unfold with_b. rewrite (abs_lookup _ _ _ Hx). cbn [aval sv_kind kind_of sv_bytes]. rewrite (view_len s _ D Hty). cbn [h_len]. by rewrite H1, H2.
Qed.
Lemma ref_OBSliceIncl h b e s r s' e' : WF s -> dlen s -> op_ok s (OBSliceIncl h b e) -> run_op orc (OBSliceIncl h b e) s = OK r s' e' -> forall cap uniq, sstep cap uniq (OBSliceIncl h b e) (abs s) = SOk (abs s') r.
Proof.
  intros W D Hok E cap uniq. start W D Hok E F. destruct Hok as (ko & o & l & vt & a & Hx). pose proof W as [L Hf]. pose proof (lwf_typed _ _ L _ _ Hx) as Hty.
  binv E. inv_assert R.
  destruct (slice_core _ _ _ _ _ _ _ _ _ _ _ _ _ _ W Hx E F ltac:(by intros ? ->)) as (H1 & H2 & H3).
  cbn [sstep]. unfold with_b. rewrite (abs_lookup _ _ _ Hx). cbn [aval sv_kind kind_of sv_bytes]. rewrite (view_len s _ D Hty). cbn [h_len]. by rewrite Hb, H1, H2.
Qed.
Lemma ref_OBSliceRef h sub0 s r s' e' : WF s -> dlen s -> op_ok s (OBSliceRef h sub0) -> run_op orc (OBSliceRef h sub0) s = OK r s' e' -> forall cap uniq, sstep cap uniq (OBSliceRef h sub0) (abs s) = SOk (abs s') r.
Proof.
  intros W D Hok E cap uniq. start W D Hok E F. destruct Hok as (ko & o & l & vt & a & Hx). pose proof W as [L Hf]. pose proof (lwf_typed _ _ L _ _ Hx) as Hty.
  binv E. inv_get_h R. rewrite Hx in R. injection R as <-. binv E. apply mret_inv in R as (-> & -> & ->).
  destruct sub0 as [[so sl]|]; [|done]. cbn [sstep]. unfold with_b. rewrite (abs_lookup _ _ _ Hx). cbn [aval sv_kind kind_of sv_bytes]. destruct (sl =? 0) eqn:Esl.
  - binv E. apply new_h_inv in R as (-> & Hh & Hs & Hn & _). apply mret_inv in E as (-> & <- & _).
    eapply (fin_keep_new _ s s' h _ (HB ko o l vt a) b_static_empty _ _ F ltac:(by intros ? ->) Hx); [by rewrite (insert_id _ h)|done|done|by rewrite Hs|done|done].
  - binv E. inv_assert R. destruct (slice_core _ _ _ _ _ _ _ _ _ _ _ _ _ _ W Hx E F ltac:(by intros ? ->)) as (H1 & H2 & H3).
    rewrite (view_len s _ D Hty). cbn [h_len]. by rewrite Hb.
Qed.
Lemma view_len_le sm x : lenN (view sm x) <= h_len x.
Proof.
  assert (forall d o l, lenN (rd d o l) <= l) as Hrd by (intros; unfold rd; rewrite lenN_firstnN; lia).
  destruct x as [[k|] o l vt a|k o l c kd|k l c]; simpl; try (destruct (sm !! k); [apply Hrd|rewrite lenN_nil; lia]). rewrite lenN_nil; lia.
Qed.
Lemma dsame_some K s s1 k : dsame K s s1 -> is_Some (sts s !! k) -> is_Some (sts s1 !! k).
Proof. intros D [st Hs]. destruct (D k st Hs) as (st1 & -> & _). eauto. Qed.
Lemma view_keep_gen s1 s2 y : dsame nK s1 s2 -> (forall k, stor y = Some k -> h_len y <> 0 -> is_Some (sts s1 !! k)) -> view (sts s2) y = view (sts s1) y.
Proof.
  intros D Hk. assert (forall k o l, (l <> 0 -> is_Some (sts s1 !! k)) -> rdk (sts s2) k o l = rdk (sts s1) k o l) as H.
  { intros k o l Hs. destruct (N.eq_dec l 0) as [->|Hl]; [by rewrite !rdk_zero|]. apply (rdk_keep s1 s2 k _ l D). by apply Hs. }
  destruct y as [[k|] o l vt a|k o l c kd|k l c]; simpl in *; try done.
  - apply (H k o l). intros Hl. by apply Hk.
  - apply (H k o l). intros Hl. by apply Hk.
  - apply (H k 0 l). intros Hl. by apply Hk.
Qed.
(* split_off on a Bytes, without the registration of the returned half *)
Lemma split_off_core_inv h at_ s ev y s1 e1 ko o l vt a : WF s -> hs s !! h = Some (HB ko o l vt a) -> bytes_split_off_core h at_ s ev = OK y s1 e1 ->
  at_ <= l /\ exists yh, hs s1 = <[h := yh]> (hs s) /\ next_h s1 = next_h s /\ dsame nK s s1 /\ sfresh s1 /\ kind_of yh = KB /\ kind_of y = KB /\
    view (sts s1) yh = firstnN at_ (view (sts s) (HB ko o l vt a)) /\ view (sts s1) y = skipN at_ (view (sts s) (HB ko o l vt a)) /\
    (forall k, stor yh = Some k -> h_len yh <> 0 -> is_Some (sts s !! k)) /\ (forall k, stor y = Some k -> h_len y <> 0 -> is_Some (sts s !! k)).
Proof.
  intros W Hx E. pose proof W as [L Hf]. pose proof (lwf_fresh _ _ L) as Fs. pose proof (lwf_typed _ _ L _ _ Hx) as Hty.
  pose proof (view_len_le (sts s) (HB ko o l vt a)) as Hle. cbn [h_len] in Hle.
  unfold bytes_split_off_core in E. binv E. inv_get_h R. rewrite Hx in R. injection R as <-. binv E. apply mret_inv in R as (-> & -> & ->).
  destruct (at_ =? l) eqn:E1.
  - apply mret_inv in E as (-> & <- & _). split; [lia|]. exists (HB ko o l vt a). rewrite insert_id by done. split_and!; try done; try apply dsame_refl; try (apply dsame_set_hs, dsame_refl).
    + rewrite firstnN_all; [done|lia].
    + rewrite skipN_all by lia. unfold empty_with_ptr. apply view_empty.
    + intros k Hk Hl. by eapply (typed_stor_some _ _ k Hty).
  - destruct (at_ =? 0) eqn:E2.
    + binv E. apply put_h_inv in R as (-> & ->). apply mret_inv in E as (-> & -> & _). split; [lia|]. exists (empty_with_ptr ko o). split_and!; try done; try apply dsame_refl; try (apply dsame_set_hs, dsame_refl).
      * replace at_ with 0 by lia. rewrite firstnN_0. apply view_empty.
      * replace at_ with 0 by lia. by rewrite skipN_0.
      * intros k Hk Hl. by eapply (typed_stor_some _ _ k Hty).
    + binv E. inv_assert R. binv E. destruct (bytes_clone_inv _ _ _ _ _ _ _ _ _ _ _ Fs Hx R) as (vt' & a' & a'' & -> & Hh1 & Hn1 & D1 & F1).
      binv E. inv_get_h R0. rewrite Hh1, lookup_insert in R0. injection R0 as <-. binv E. apply mret_inv in R0 as (-> & -> & ->).
      binv E. apply put_h_inv in R0 as (-> & ->). apply mret_inv in E as (-> & -> & _). split; [lia|].
      assert (forall k, ko = Some k -> is_Some (sts s !! k)) as Hst by (intros k ->; eapply hb_stor; [done|lia]).
      exists (HB ko o at_ vt a''). cbn [hs set_hs next_h sts]. rewrite Hh1, insert_insert. split_and!; try done.
      * apply view_hb_prefix; [done|done|lia].
      * apply view_hb_suffix; [done|done|lia].
      * intros k Hk _. by apply Hst.
      * intros k Hk _. by apply Hst.
Qed.
Lemma ref_OBSplitOff h a0 s r s' e' : WF s -> dlen s -> op_ok s (OBSplitOff h a0) -> run_op orc (OBSplitOff h a0) s = OK r s' e' -> forall cap uniq, sstep cap uniq (OBSplitOff h a0) (abs s) = SOk (abs s') r.
Proof.
  intros W D Hok E cap uniq. start W D Hok E F. destruct Hok as (ko & o & l & vt & a & Hx). pose proof W as [L Hf]. pose proof (lwf_typed _ _ L _ _ Hx) as Hty.
  unfold bytes_split_off in E. binv E. destruct (split_off_core_inv _ _ _ _ _ _ _ _ _ _ _ _ W Hx R) as (Hle & yh & Hh1 & Hn1 & D1 & F1 & K1 & K2 & V1 & V2 & _).
  binv E. apply new_h_inv in R0 as (-> & Hh2 & Hs2 & Hn2 & _). apply mret_inv in E as (-> & <- & _). rewrite Hn1 in *.
  cbn [sstep]. unfold with_b. rewrite (abs_lookup _ _ _ Hx). cbn [aval sv_kind kind_of sv_bytes]. rewrite (view_len s _ D Hty). cbn [h_len]. replace (a0 <=? l) with true by lia.
  eapply (fin_upd_new _ s s' h yh _ _ _ _ _ F ltac:(by intros ? ->)); [by rewrite Hh2, Hh1|done|done|by rewrite Hs2|done|by rewrite Hs2].
Qed.
Lemma ref_OBSplitTo h a0 s r s' e' : WF s -> dlen s -> op_ok s (OBSplitTo h a0) -> run_op orc (OBSplitTo h a0) s = OK r s' e' -> forall cap uniq, sstep cap uniq (OBSplitTo h a0) (abs s) = SOk (abs s') r.
Proof.
  intros W D Hok E cap uniq. start W D Hok E F. destruct Hok as (ko & o & l & vt & a & Hx). pose proof W as [L Hf]. pose proof (lwf_fresh _ _ L) as Fs. pose proof (lwf_typed _ _ L _ _ Hx) as Hty.
  pose proof (view_len s _ D Hty) as Hlen. cbn [h_len] in Hlen.
  cbn [sstep]. unfold with_b. rewrite (abs_lookup _ _ _ Hx). cbn [aval sv_kind kind_of sv_bytes]. rewrite Hlen.
  unfold bytes_split_to in E. binv E. inv_get_h R. rewrite Hx in R. injection R as <-. binv E. apply mret_inv in R as (-> & -> & ->).
  destruct (a0 =? l) eqn:E1.
  - binv E. apply put_h_inv in R as (-> & _). binv E. apply new_h_inv in R as (-> & Hh2 & Hs2 & Hn2 & _). apply mret_inv in E as (-> & <- & _). cbn [hs set_hs next_h sts] in *.
    replace (a0 <=? l) with true by lia.
    eapply (fin_upd_new _ s s' h (empty_with_ptr ko (o + a0)) _ _ _ _ _ F ltac:(by intros ? ->)); [done|done|done| |done|].
    + rewrite skipN_all by lia. apply view_empty.
    + rewrite Hs2. rewrite firstnN_all; [done|lia].
  - destruct (a0 =? 0) eqn:E2.
    + binv E. apply new_h_inv in R as (-> & Hh2 & Hs2 & Hn2 & _). apply mret_inv in E as (-> & <- & _). replace (a0 <=? l) with true by lia.
      eapply (fin_upd_new _ s s' h (HB ko o l vt a) _ _ _ _ _ F ltac:(by intros ? ->)); [by rewrite (insert_id _ h)|done|done| |done|].
      * replace a0 with 0 by lia. by rewrite skipN_0, Hs2.
      * replace a0 with 0 by lia. rewrite firstnN_0. apply view_empty.
    + binv E. inv_assert R. binv E. destruct (bytes_clone_inv _ _ _ _ _ _ _ _ _ _ _ Fs Hx R) as (vt' & a' & a'' & -> & Hh1 & Hn1 & D1 & F1).
      binv E. inv_get_h R0. rewrite Hh1, lookup_insert in R0. injection R0 as <-. binv E. apply mret_inv in R0 as (-> & -> & ->).
      binv E. apply put_h_inv in R0 as (-> & _). binv E. apply new_h_inv in R0 as (-> & Hh2 & Hs2 & Hn2 & _). apply mret_inv in E as (-> & <- & _). cbn [hs set_hs next_h sts] in *.
      rewrite Hn1 in *. rewrite Hb.
      eapply (fin_upd_new _ s s' h (HB ko (o + a0) (l - a0) vt a'') (HB ko o a0 vt' a') _ _ _ _ F ltac:(by intros ? ->)); [by rewrite Hh2, Hh1, insert_insert|done|done| |done|]; rewrite Hs2.
      * apply view_hb_suffix; [done|done|lia].
      * apply view_hb_prefix; [done|done|lia].
Qed.
(* truncate(len') / clear() *)
Lemma truncate_core o h n s ev r s' e' ko ofs l vt a : WF s -> hs s !! h = Some (HB ko ofs l vt a) -> bytes_truncate h n s ev = OK r s' e' ->
  frame_post o s s' -> (forall h', tch o h' -> h' = h) -> SOk (sset (abs s) h KB (firstnN n (view (sts s) (HB ko ofs l vt a)))) RUnit = SOk (abs s') r.
Proof.
  intros W Hx E F HT. pose proof W as [L Hf]. pose proof (lwf_fresh _ _ L) as Fs. pose proof (lwf_typed _ _ L _ _ Hx) as Hty.
  pose proof (view_len_le (sts s) (HB ko ofs l vt a)) as Hle. cbn [h_len] in Hle.
  unfold bytes_truncate in E. binv E. inv_get_h R. rewrite Hx in R. injection R as <-. binv E. apply mret_inv in R as (-> & -> & ->).
  destruct (n <? l) eqn:E1.
  - assert (forall s1 e1, (put_h h (HB ko ofs n vt a);; mret RUnit) s ev = OK r s1 e1 -> frame_post o s s1 -> SOk (sset (abs s) h KB (firstnN n (view (sts s) (HB ko ofs l vt a)))) RUnit = SOk (abs s1) r) as Hput.
    { intros s1 e1 E' F'. binv E'. apply put_h_inv in R as (-> & _). apply mret_inv in E' as (-> & -> & _).
      eapply (fin_upd o s _ h (HB ko ofs n vt a) _ _ _ F' HT); [done|done|done|]. cbn [sts set_hs]. apply view_hb_prefix; [apply dsame_refl|done|lia]. }
    assert (forall s1 e1, (let! y := bytes_split_off_core h n in bytes_drop_rep y;; mret RUnit) s ev = OK r s1 e1 -> frame_post o s s1 -> SOk (sset (abs s) h KB (firstnN n (view (sts s) (HB ko ofs l vt a)))) RUnit = SOk (abs s1) r) as Hsp.
    { intros s1 e1 E' F'. binv E'. destruct (split_off_core_inv _ _ _ _ _ _ _ _ _ _ _ _ W Hx R) as (Hle' & yh & Hh1 & Hn1 & D1 & F1 & K1 & K2 & V1 & V2 & S1 & S2).
      binv E'. apply mret_inv in E' as (-> & -> & _). destruct (hsm_run _ _ _ _ _ _ (hsm_bytes_drop_rep _ _) R0) as [Hh2 Hn2].
      destruct (deff_run nK _ _ _ _ _ _ (deff_bytes_drop_rep nK _ _) F1 R0) as [D2 F2].
      eapply (fin_upd o s _ h yh _ _ _ F' HT); [by rewrite Hh2, Hh1|by rewrite Hn2, Hn1|done|]. rewrite <- V1. apply view_keep_gen; [done|]. intros k Hk Hl. eapply dsame_some; [exact D1|by apply S1]. }
    destruct vt; eauto.
  - apply mret_inv in E as (-> & -> & _). rewrite firstnN_all by lia.
    eapply (fin_upd o s s h (HB ko ofs l vt a) _ _ _ F HT); [by rewrite (insert_id _ h)|done|done|done].
Qed.
Lemma ref_OBTruncate h n s r s' e' : WF s -> dlen s -> op_ok s (OBTruncate h n) -> run_op orc (OBTruncate h n) s = OK r s' e' -> forall cap uniq, sstep cap uniq (OBTruncate h n) (abs s) = SOk (abs s') r.
Proof.
  intros W D Hok E cap uniq. start W D Hok E F. destruct Hok as (ko & o & l & vt & a & Hx).
  cbn [sstep]. unfold with_b. rewrite (abs_lookup _ _ _ Hx). cbn [aval sv_kind kind_of sv_bytes]. by eapply truncate_core; [| | |exact F|intros ? ->].
Qed.
Lemma ref_OBClear h s r s' e' : WF s -> dlen s -> op_ok s (OBClear h) -> run_op orc (OBClear h) s = OK r s' e' -> forall cap uniq, sstep cap uniq (OBClear h) (abs s) = SOk (abs s') r.
Proof.
  intros W D Hok E cap uniq. start W D Hok E F. destruct Hok as (ko & o & l & vt & a & Hx).
  cbn [sstep]. unfold with_b. rewrite (abs_lookup _ _ _ Hx). cbn [aval sv_kind kind_of sv_bytes].
  rewrite <- (firstnN_0 (view (sts s) (HB ko o l vt a))). by eapply truncate_core; [| | |exact F|intros ? ->].
Qed.
Lemma ref_OBAdvance h c s r s' e' : WF s -> dlen s -> op_ok s (OBAdvance h c) -> run_op orc (OBAdvance h c) s = OK r s' e' -> forall cap uniq, sstep cap uniq (OBAdvance h c) (abs s) = SOk (abs s') r.
Proof.
  intros W D Hok E cap uniq. start W D Hok E F. destruct Hok as (ko & o & l & vt & a & Hx). pose proof W as [L Hf]. pose proof (lwf_typed _ _ L _ _ Hx) as Hty.
  pose proof (view_len s _ D Hty) as Hlen. cbn [h_len] in Hlen.
  cbn [sstep]. unfold with_b. rewrite (abs_lookup _ _ _ Hx). cbn [aval sv_kind kind_of sv_bytes]. rewrite Hlen.
  binv E. inv_get_h R. rewrite Hx in R. injection R as <-. binv E. apply mret_inv in R as (-> & -> & ->). binv E. inv_assert R. rewrite Hb.
  binv E. apply put_h_inv in R as (-> & _). apply mret_inv in E as (-> & -> & _).
  eapply (fin_upd _ s _ h (HB ko (o + c) (l - c) vt a) _ _ _ F ltac:(by intros ? ->)); [done|done|done|]. cbn [sts set_hs]. apply view_hb_suffix; [apply dsame_refl|done|lia].
Qed.
Lemma ref_OBIsUnique h s r s' e' : WF s -> dlen s -> op_ok s (OBIsUnique h) -> run_op orc (OBIsUnique h) s = OK r s' e' -> forall cap, exists uniq, sstep cap uniq (OBIsUnique h) (abs s) = SOk (abs s') r.
Proof.
  intros W D Hok E cap. start W D Hok E F. destruct Hok as (ko & o & l & vt & a & Hx). pose proof W as [L Hf]. pose proof (lwf_fresh _ _ L) as Fs. pose proof (lwf_typed _ _ L _ _ Hx) as Hty.
  binv E. inv_get_h R. rewrite Hx in R. injection R as <-. binv E. apply mret_inv in E as (-> & <- & _). exists a0.
  cbn [sstep]. unfold with_b. rewrite (abs_lookup _ _ _ Hx). cbn [aval sv_kind kind_of sv_bytes].
  destruct (hsm_run _ _ _ _ _ _ (hsm_bytes_is_unique_rep _ s) R) as [Hh2 Hn2]. destruct (deff_run nK _ _ _ _ _ _ (deff_bytes_is_unique_rep nK _ s) Fs R) as [D2 F2].
  eapply (fin_keep _ s s' h _ (HB ko o l vt a) _ F ltac:(by intros ? ->) Hx); [by rewrite Hh2, (insert_id _ h)|done|done|]. by apply view_hb_keep.
Qed.
Lemma ref_OBDrop h s r s' e' : WF s -> dlen s -> op_ok s (OBDrop h) -> run_op orc (OBDrop h) s = OK r s' e' -> forall cap uniq, sstep cap uniq (OBDrop h) (abs s) = SOk (abs s') r.
Proof.
  intros W D Hok E cap uniq. start W D Hok E F. destruct Hok as (ko & o & l & vt & a & Hx).
  binv E. inv_get_h R. rewrite Hx in R. injection R as <-. binv E. binv E. apply del_h_inv in R0 as (-> & _). apply mret_inv in E as (-> & -> & _).
  cbn [sstep]. unfold with_b. rewrite (abs_lookup _ _ _ Hx). cbn [aval sv_kind kind_of sv_bytes].
  destruct (hsm_run _ _ _ _ _ _ (hsm_bytes_drop_rep _ s) R) as [Hh2 Hn2].
  eapply (fin_del _ s _ h _ F ltac:(by intros ? ->)); cbn [hs set_hs next_h]; [by rewrite Hh2|done].
Qed.
(* ---- constructors ---- *)
Lemma rd_all d : rd d 0 (lenN d) = d. Proof. unfold rd. rewrite skipN_0. by apply firstnN_all. Qed.
Lemma rd_pad init size : lenN init <= size -> rd (pad init size) 0 (lenN init) = init.
Proof.
  intros H. unfold rd, pad. rewrite skipN_0, firstnN_firstnN. replace (N.min (lenN init) size) with (lenN init) by lia.
  rewrite firstnN_app_le by lia. by apply firstnN_all.
Qed.
Lemma alloc_buf_inv size init s e k s1 e1 : sfresh s -> alloc_buf size init s e = OK k s1 e1 -> lenN init <= size ->
  sts s !! k = None /\ hs s1 = hs s /\ next_h s1 = next_h s /\ dsame nK s s1 /\ sfresh s1 /\ is_Some (sts s1 !! k) /\ rdk (sts s1) k 0 (lenN init) = init.
Proof.
  intros Fs E Hl. destruct (hsm_run _ _ _ _ _ _ (hsm_alloc_buf size init s) E) as [H1 H2]. destruct (deff_run nK _ _ _ _ _ _ (deff_alloc_buf nK size init s) Fs E) as [D1 F1].
  destruct Fs as (Fa & Fb & Fc & Fd).
  assert (sts s !! k = None /\ is_Some (sts s1 !! k) /\ rdk (sts s1) k 0 (lenN init) = init) as (A1 & A2 & A3); [|done].
  unfold alloc_buf, mbind, mget, mput, emit, mret in E. destruct (size =? 0) eqn:Ez.
  - injection E as <- <- <-. cbn [sts]. rewrite lookup_insert. split; [|split; [by eexists|]].
    + destruct (sts s !! xI (next_pseudo s)) eqn:Hk; [|done]. assert (next_pseudo s < next_pseudo s)%positive by (apply Fb; eauto). lia.
    + assert (init = []) as -> by (apply lenN_zero; lia). apply rdk_zero.
  - destruct (isize_max <? size); [done|]. injection E as <- <- <-. cbn [sts]. split; [|split; [rewrite lookup_insert; by eexists|]].
    + destruct (sts s !! xO (next_real s)) eqn:Hk; [|done]. assert (next_real s < next_real s)%positive by (apply Fa; eauto). lia.
    + unfold rdk. rewrite lookup_insert. cbn [s_data]. by apply rd_pad.
Qed.
Lemma fin_new0 o s s' y2 K b r : frame_post o s s' -> (forall h', ~ tch o h') -> hs s' = <[next_h s := y2]> (hs s) -> next_h s' = Pos.succ (next_h s) ->
  r = RH (next_h s) -> kind_of y2 = K -> view (sts s') y2 = b -> snew (abs s) K b = SOk (abs s') r.
Proof. intros F HT Hh Hn -> Hk Hv. by eapply fin_new. Qed.
Lemma ref_OMNew s r s' e' : WF s -> dlen s -> run_op orc OMNew s = OK r s' e' -> forall cap uniq, sstep cap uniq OMNew (abs s) = SOk (abs s') r.
Proof.
  intros W D E cap uniq. pose proof (m2_frame orc OMNew s r s' e' W D I E) as F. unfold run_op in E; cbn [hstep] in E. pose proof W as [L Hf]. pose proof (lwf_fresh _ _ L) as Fs.
  binv E. destruct (alloc_buf_inv _ _ _ _ _ _ _ Fs R ltac:(rewrite lenN_nil; lia)) as (_ & Hh1 & Hn1 & D1 & F1 & _ & _).
  binv E. apply new_h_inv in R0 as (-> & Hh & Hs & Hn & _). apply mret_inv in E as (-> & <- & _). rewrite Hn1, Hh1 in *.
  cbn [sstep]. eapply (fin_new0 _ s s' _ _ _ _ F); [intros ? []|done|done|done|done|]. unfold from_vec. rewrite view_hm. apply rdk_zero.
Qed.
Lemma ref_OMWithCapacity c s r s' e' : WF s -> dlen s -> run_op orc (OMWithCapacity c) s = OK r s' e' -> forall cap uniq, sstep cap uniq (OMWithCapacity c) (abs s) = SOk (abs s') r.
Proof.
  intros W D E cap uniq. pose proof (m2_frame orc (OMWithCapacity c) s r s' e' W D I E) as F. unfold run_op in E; cbn [hstep] in E. pose proof W as [L Hf]. pose proof (lwf_fresh _ _ L) as Fs.
  binv E. destruct (alloc_buf_inv _ _ _ _ _ _ _ Fs R ltac:(rewrite lenN_nil; lia)) as (_ & Hh1 & Hn1 & D1 & F1 & _ & _).
  assert ((isize_max <? c) = false) as Hc. { unfold alloc_buf, mbind, mget in R. destruct (c =? 0) eqn:E0; [lia|]. by destruct (isize_max <? c). }
  binv E. apply new_h_inv in R0 as (-> & Hh & Hs & Hn & _). apply mret_inv in E as (-> & <- & _). rewrite Hn1, Hh1 in *.
  cbn [sstep]. rewrite Hc. eapply (fin_new0 _ s s' _ _ _ _ F); [intros ? []|done|done|done|done|]. unfold from_vec. rewrite view_hm. apply rdk_zero.
Qed.
Lemma ref_OMZeroed n s r s' e' : WF s -> dlen s -> run_op orc (OMZeroed n) s = OK r s' e' -> forall cap uniq, sstep cap uniq (OMZeroed n) (abs s) = SOk (abs s') r.
Proof.
  intros W D E cap uniq. pose proof (m2_frame orc (OMZeroed n) s r s' e' W D I E) as F. unfold run_op in E; cbn [hstep] in E. pose proof W as [L Hf]. pose proof (lwf_fresh _ _ L) as Fs.
  assert (lenN (repeat 0 (N.to_nat n)) = n) as Hrl by (rewrite lenN_repeat; lia).
  binv E. assert (lenN (repeat 0 (N.to_nat n)) <= n) as Hrl2 by lia. destruct (alloc_buf_inv _ _ _ _ _ _ _ Fs R Hrl2) as (_ & Hh1 & Hn1 & D1 & F1 & _ & Hv).
  assert ((isize_max <? n) = false) as Hc. { unfold alloc_buf, mbind, mget in R. destruct (n =? 0) eqn:E0; [lia|]. by destruct (isize_max <? n). }
  binv E. apply new_h_inv in R0 as (-> & Hh & Hs & Hn & _). apply mret_inv in E as (-> & <- & _). rewrite Hn1, Hh1 in *.
  cbn [sstep]. rewrite Hc. eapply (fin_new0 _ s s' _ _ _ _ F); [intros ? []|done|done|done|done|]. unfold from_vec. rewrite view_hm, Hs. etrans; [|exact Hv]. f_equal. done.
Qed.
Lemma to_vec_inv bs s e k c s1 e1 : sfresh s -> to_vec bs s e = OK (k, c) s1 e1 ->
  c = lenN bs /\ sts s !! k = None /\ hs s1 = hs s /\ next_h s1 = next_h s /\ dsame nK s s1 /\ sfresh s1 /\ is_Some (sts s1 !! k) /\ rdk (sts s1) k 0 c = bs.
Proof.
  intros Fs E. unfold to_vec in E. binv E. apply mret_inv in E as ([= -> ->] & -> & _).
  assert (lenN bs <= lenN bs) as Hll by lia. destruct (alloc_buf_inv _ _ _ _ _ _ _ Fs R Hll) as (H1 & H2 & H3 & H4 & H5 & H6 & H7). done.
Qed.
Lemma ref_OMFromSlice d s r s' e' : WF s -> dlen s -> run_op orc (OMFromSlice d) s = OK r s' e' -> forall cap uniq, sstep cap uniq (OMFromSlice d) (abs s) = SOk (abs s') r.
Proof.
  intros W D E cap uniq. pose proof (m2_frame orc (OMFromSlice d) s r s' e' W D I E) as F. unfold run_op in E; cbn [hstep] in E. pose proof W as [L Hf]. pose proof (lwf_fresh _ _ L) as Fs.
  binv E. destruct a as [k c]. destruct (to_vec_inv _ _ _ _ _ _ _ Fs R) as (-> & _ & Hh1 & Hn1 & D1 & F1 & _ & Hv).
  binv E. apply new_h_inv in R0 as (-> & Hh & Hs & Hn & _). apply mret_inv in E as (-> & <- & _). rewrite Hn1, Hh1 in *.
  cbn [sstep]. eapply (fin_new0 _ s s' _ _ _ _ F); [intros ? []|done|done|done|done|]. unfold from_vec. by rewrite view_hm, Hs.
Qed.
Lemma bytes_from_vec_inv k len cap s e b s1 e1 : sfresh s -> bytes_from_vec k len cap s e = OK b s1 e1 ->
  hs s1 = hs s /\ next_h s1 = next_h s /\ dsame nK s s1 /\ sfresh s1 /\ kind_of b = KB /\ view (sts s1) b = rdk (sts s1) k 0 len.
Proof.
  intros Fs E. destruct (hsm_run _ _ _ _ _ _ (hsm_bytes_from_vec k len cap s) E) as [H1 H2]. destruct (deff_run nK _ _ _ _ _ _ (deff_bytes_from_vec nK k len cap s) Fs E) as [D1 F1].
  split_and!; try done.
  - unfold bytes_from_vec in E. destruct (len =? cap); [destruct (len =? 0)|].
    + by apply mret_inv in E as (-> & _).
    + binv E. by apply mret_inv in E as (-> & _).
    + binv E. binv E. by apply mret_inv in E as (-> & _).
  - unfold bytes_from_vec in E. destruct (len =? cap); [destruct (len =? 0) eqn:E0|].
    + apply mret_inv in E as (-> & _). replace len with 0 by lia. by rewrite rdk_zero.
    + binv E. by apply mret_inv in E as (-> & _).
    + binv E. binv E. by apply mret_inv in E as (-> & _).
Qed.
Lemma ref_OBFromVec d c s r s' e' : WF s -> dlen s -> run_op orc (OBFromVec d c) s = OK r s' e' -> forall cap uniq, sstep cap uniq (OBFromVec d c) (abs s) = SOk (abs s') r.
Proof.
  intros W D E cap uniq. pose proof (m2_frame orc (OBFromVec d c) s r s' e' W D I E) as F. unfold run_op in E; cbn [hstep] in E. pose proof W as [L Hf]. pose proof (lwf_fresh _ _ L) as Fs.
  binv E. assert (lenN d <= N.max c (lenN d)) as Hll by lia. destruct (alloc_buf_inv _ _ _ _ _ _ _ Fs R Hll) as (_ & Hh1 & Hn1 & D1 & F1 & S1 & Hv).
  binv E. destruct (bytes_from_vec_inv _ _ _ _ _ _ _ _ F1 R0) as (Hh2 & Hn2 & D2 & F2 & K2 & V2).
  binv E. apply new_h_inv in R1 as (-> & Hh & Hs & Hn & _). apply mret_inv in E as (-> & <- & _). rewrite Hn2, Hh2, Hn1, Hh1 in *.
  cbn [sstep]. eapply (fin_new0 _ s s' _ _ _ _ F); [intros ? []|done|done|done|done|]. rewrite Hs, V2. by rewrite (rdk_keep _ _ _ _ _ D2 S1).
Qed.
Lemma ref_OBFromStatic d s r s' e' : WF s -> dlen s -> run_op orc (OBFromStatic d) s = OK r s' e' -> forall cap uniq, sstep cap uniq (OBFromStatic d) (abs s) = SOk (abs s') r.
Proof.
  intros W D E cap uniq. pose proof (m2_frame orc (OBFromStatic d) s r s' e' W D I E) as F. unfold run_op in E; cbn [hstep] in E.
  cbn [sstep]. unfold mbind, mget, mput, mret, new_h in E. destruct (lenN d =? 0) eqn:E0; injection E as <- <- _.
  - eapply (fin_new0 _ s _ _ _ _ _ F); [intros ? []|done|done|done|done|]. symmetry. apply lenN_zero. lia.
  - eapply (fin_new0 _ s _ _ _ _ _ F); [intros ? []|done|done|done|done|]. cbn [sts]. rewrite view_hb. unfold rdk. rewrite lookup_insert. apply rd_all.
Qed.
Lemma ref_OBFromOwner d p s r s' e' : WF s -> dlen s -> run_op orc (OBFromOwner d p) s = OK r s' e' -> forall cap uniq, sstep cap uniq (OBFromOwner d p) (abs s) = SOk (abs s') r.
Proof.
  intros W D E cap uniq. pose proof (m2_frame orc (OBFromOwner d p) s r s' e' W D I E) as F. unfold run_op in E; cbn [hstep] in E.
  cbn [sstep]. destruct p.
  - exfalso. repeat binv E. done.
  - unfold mbind, mget, mput, emit, mret, new_h, set_owners in E. cbn [owners] in E.
    destruct (lenN d =? 0) eqn:E0; cbn [owners] in E; rewrite lookup_insert in E; injection E as <- <- _.
    + eapply (fin_new0 _ s _ _ _ _ _ F); [intros ? []|done|done|done|done|]. cbn [sts]. rewrite view_hb. unfold rdk. rewrite lookup_insert. apply rd_all.
    + eapply (fin_new0 _ s _ _ _ _ _ F); [intros ? []|done|done|done|done|]. cbn [sts]. rewrite view_hb. unfold rdk. rewrite lookup_insert. apply rd_all.
Qed.
(* ---- BytesMut: operations that move no bytes ---- *)
Lemma rdk_prefix sm k o l n : n <= l -> rdk sm k o n = firstnN n (rdk sm k o l).
Proof. intros H. unfold rdk. destruct (sm !! k); [by apply rd_prefix|by rewrite firstnN_nil]. Qed.
Lemma rdk_suffix sm k o l n : rdk sm k (o + n) (l - n) = skipN n (rdk sm k o l).
Proof. unfold rdk. destruct (sm !! k); [by apply rd_suffix|by rewrite skipN_nil]. Qed.
Lemma rdk_len_le sm k o l : lenN (rdk sm k o l) <= l.
Proof. unfold rdk. destruct (sm !! k); [unfold rd; rewrite lenN_firstnN; lia|rewrite lenN_nil; lia]. Qed.
Lemma hm_stor s k o l c kd : typed (sts s) (HM k o l c kd) -> is_Some (sts s !! k).
Proof. intros Ht. destruct kd; destruct Ht as (st & -> & _); eauto. Qed.
Lemma hm_le s k o l c kd : typed (sts s) (HM k o l c kd) -> l <= c.
Proof. intros Ht. destruct kd; destruct Ht as (st & _ & _ & _ & _ & _ & ?); done. Qed.
Lemma adv_unchecked_inv cnt k o l c kd s e x1 s1 e1 : sfresh s -> adv_unchecked cnt (HM k o l c kd) s e = OK x1 s1 e1 ->
  hs s1 = hs s /\ next_h s1 = next_h s /\ dsame nK s s1 /\ sfresh s1 /\ exists o' l' c' kd', x1 = HM k o' l' c' kd' /\ o' = o + cnt /\ l' = l - cnt.
Proof.
  intros Fs E. destruct (hsm_run _ _ _ _ _ _ (hsm_adv_unchecked cnt _ s) E) as [H1 H2]. destruct (deff_run nK _ _ _ _ _ _ (deff_adv_unchecked nK cnt _ s) Fs E) as [D1 F1].
  split_and!; try done. unfold adv_unchecked in E. destruct (cnt =? 0) eqn:E0.
  - apply mret_inv in E as (-> & _). exists o, l, c, kd. split; [done|]. lia.
  - binv E. destruct kd as [ocr|].
    + destruct (o + cnt <=? MAX_VEC_POS); [apply mret_inv in E as (-> & _); eauto 10|]. binv E. binv E. apply mret_inv in E as (-> & _). eauto 10.
    + apply mret_inv in E as (-> & _). eauto 10.
Qed.
Lemma m_shallow_clone_inv k o l c kd s e x1 x2 s1 e1 : sfresh s -> m_shallow_clone (HM k o l c kd) s e = OK (x1, x2) s1 e1 ->
  hs s1 = hs s /\ next_h s1 = next_h s /\ dsame nK s s1 /\ sfresh s1 /\ x1 = HM k o l c MArc /\ x2 = HM k o l c MArc.
Proof.
  intros Fs E. destruct (hsm_run _ _ _ _ _ _ (hsm_m_shallow_clone _ s) E) as [H1 H2]. destruct (deff_run nK _ _ _ _ _ _ (deff_m_shallow_clone nK _ s) Fs E) as [D1 F1].
  split_and!; try done; destruct kd as [ocr|]; cbn [m_shallow_clone] in E.
  - binv E. unfold promote in R. binv R. binv R. apply mret_inv in R as (-> & _). by apply mret_inv in E as ([= <- _] & _).
  - binv E. by apply mret_inv in E as ([= <- _] & _).
  - binv E. unfold promote in R. binv R. binv R. apply mret_inv in R as (-> & _). by apply mret_inv in E as ([= _ <-] & _).
  - binv E. by apply mret_inv in E as ([= _ <-] & _).
Qed.
Ltac hm_start W D Hok E F Hx L Hf Fs Hty k o l c kd :=
  start W D Hok E F; destruct Hok as (k & o & l & c & kd & Hx); pose proof W as [L Hf]; pose proof (lwf_fresh _ _ L) as Fs; pose proof (lwf_typed _ _ L _ _ Hx) as Hty.

Lemma ref_OMSplitTo h a0 s r s' e' : WF s -> dlen s -> op_ok s (OMSplitTo h a0) -> run_op orc (OMSplitTo h a0) s = OK r s' e' -> forall cap uniq, sstep cap uniq (OMSplitTo h a0) (abs s) = SOk (abs s') r.
Proof.
  intros W D Hok E cap uniq. hm_start W D Hok E F Hx L Hf Fs Hty k o l c kd.
  pose proof (view_len s _ D Hty) as Hlen. cbn [h_len] in Hlen. pose proof (hm_stor _ _ _ _ _ _ Hty) as Hst.
  cbn [sstep]. unfold with_b. rewrite (abs_lookup _ _ _ Hx). cbn [aval sv_kind kind_of sv_bytes]. rewrite Hlen.
  unfold m_split_to in E. binv E. inv_get_h R. rewrite Hx in R. injection R as <-. binv E. apply mret_inv in R as (-> & -> & ->). binv E. inv_assert R. rewrite Hb.
  binvn E pr. destruct pr as [x1 x2]. destruct (m_shallow_clone_inv _ _ _ _ _ _ _ _ _ _ _ Fs R) as (Hh1 & Hn1 & D1 & F1 & -> & ->).
  binv E. destruct (adv_unchecked_inv _ _ _ _ _ _ _ _ _ _ _ F1 R0) as (Hh2 & Hn2 & D2 & F2 & o' & l' & c' & kd' & -> & -> & ->).
  binv E. apply put_h_inv in R1 as (-> & _). binv E. apply mret_inv in R1 as (-> & -> & _). binv E. apply new_h_inv in R1 as (-> & Hh & Hs & Hn & _). apply mret_inv in E as (-> & <- & _).
  cbn [hs set_hs next_h sts] in *. rewrite Hn2, Hh2, Hn1, Hh1 in *.
  assert (dsame nK s s1) as D12 by (by eapply dsame_trans).
  eapply (fin_upd_new _ s s' h _ _ _ _ _ _ F ltac:(by intros ? ->)); [done|done|done| |done|]; rewrite Hs, view_hm, (rdk_keep s s1) by done.
  - apply rdk_suffix.
  - apply rdk_prefix. lia.
Qed.
Lemma ref_OMSplit h s r s' e' : WF s -> dlen s -> op_ok s (OMSplit h) -> run_op orc (OMSplit h) s = OK r s' e' -> forall cap uniq, sstep cap uniq (OMSplit h) (abs s) = SOk (abs s') r.
Proof.
  intros W D Hok E cap uniq. pose proof Hok as (k & o & l & c & kd & Hx). pose proof W as [L Hf]. pose proof (lwf_typed _ _ L _ _ Hx) as Hty.
  pose proof (view_len s _ D Hty) as Hlen. cbn [h_len] in Hlen.
  assert (run_op orc (OMSplitTo h l) s = OK r s' e') as E2.
  { unfold run_op in *. cbn [hstep] in *. binv E. inv_get_h R. rewrite Hx in R. injection R as <-. binv E. by apply mret_inv in R as (-> & -> & ->). }
  pose proof (ref_OMSplitTo h l s r s' e' W D Hok E2 cap uniq) as H. cbn [sstep] in *. unfold with_b in *. rewrite (abs_lookup _ _ _ Hx) in *. cbn [aval sv_kind kind_of sv_bytes] in *.
  rewrite Hlen in H. replace (l <=? l) with true in H by lia. rewrite skipN_all in H by lia. rewrite firstnN_all in H by lia. done.
Qed.
Lemma ref_OMSplitOff h a0 s r s' e' : WF s -> dlen s -> op_ok s (OMSplitOff h a0) -> run_op orc (OMSplitOff h a0) s = OK r s' e' ->
  forall uniq, sstep (match hs s !! h with Some x => h_cap x | None => 0 end) uniq (OMSplitOff h a0) (abs s) = SOk (abs s') r.
Proof.
  intros W D Hok E uniq. hm_start W D Hok E F Hx L Hf Fs Hty k o l c kd. rewrite Hx. cbn [h_cap].
  pose proof (view_len s _ D Hty) as Hlen. cbn [h_len] in Hlen. pose proof (hm_stor _ _ _ _ _ _ Hty) as Hst.
  cbn [sstep]. unfold with_b. rewrite (abs_lookup _ _ _ Hx). cbn [aval sv_kind kind_of sv_bytes].
  unfold m_split_off in E. binv E. inv_get_h R. rewrite Hx in R. injection R as <-. binv E. apply mret_inv in R as (-> & -> & ->). binv E. inv_assert R. rewrite Hb.
  binvn E pr. destruct pr as [x1 x2]. destruct (m_shallow_clone_inv _ _ _ _ _ _ _ _ _ _ _ Fs R) as (Hh1 & Hn1 & D1 & F1 & -> & ->).
  binv E. destruct (adv_unchecked_inv _ _ _ _ _ _ _ _ _ _ _ F1 R0) as (Hh2 & Hn2 & D2 & F2 & o' & l' & c' & kd' & -> & -> & ->).
  binv E. apply mret_inv in R1 as (-> & -> & _). binv E. apply put_h_inv in R1 as (-> & _). binv E. apply new_h_inv in R1 as (-> & Hh & Hs & Hn & _). apply mret_inv in E as (-> & <- & _).
  cbn [hs set_hs next_h sts] in *. rewrite Hn2, Hh2, Hn1, Hh1 in *.
  assert (dsame nK s s1) as D12 by (by eapply dsame_trans).
  eapply (fin_upd_new _ s s' h _ _ _ _ _ _ F ltac:(by intros ? ->)); [done|done|done| |done|]; rewrite Hs, view_hm, (rdk_keep s s1) by done.
  - destruct (N.le_gt_cases a0 l) as [Hle|Hgt]; [replace (N.min l a0) with a0 by lia; by apply rdk_prefix|].
    replace (N.min l a0) with l by lia. rewrite view_hm. rewrite firstnN_all; [done|]. rewrite view_hm in Hlen. lia.
  - apply rdk_suffix.
Qed.
Lemma ref_OMTruncate h n s r s' e' : WF s -> dlen s -> op_ok s (OMTruncate h n) -> run_op orc (OMTruncate h n) s = OK r s' e' -> forall cap uniq, sstep cap uniq (OMTruncate h n) (abs s) = SOk (abs s') r.
Proof.
  intros W D Hok E cap uniq. hm_start W D Hok E F Hx L Hf Fs Hty k o l c kd.
  pose proof (view_len s _ D Hty) as Hlen. cbn [h_len] in Hlen.
  cbn [sstep]. unfold with_b. rewrite (abs_lookup _ _ _ Hx). cbn [aval sv_kind kind_of sv_bytes].
  binv E. inv_get_h R. rewrite Hx in R. injection R as <-. binv E. apply mret_inv in R as (-> & -> & ->). binv E. apply mret_inv in E as (-> & -> & _). destruct (n <=? l) eqn:En.
  - apply put_h_inv in R as (-> & _). eapply (fin_upd _ s _ h (HM k o n c kd) _ _ _ F ltac:(by intros ? ->)); [done|done|done|]. cbn [sts set_hs]. rewrite !view_hm. apply rdk_prefix. lia.
  - apply mret_inv in R as (_ & -> & _). rewrite firstnN_all by lia. eapply (fin_upd _ s s h (HM k o l c kd) _ _ _ F ltac:(by intros ? ->)); [by rewrite (insert_id _ h)|done|done|done].
Qed.
Lemma ref_OMClear h s r s' e' : WF s -> dlen s -> op_ok s (OMClear h) -> run_op orc (OMClear h) s = OK r s' e' -> forall cap uniq, sstep cap uniq (OMClear h) (abs s) = SOk (abs s') r.
Proof.
  intros W D Hok E cap uniq. hm_start W D Hok E F Hx L Hf Fs Hty k o l c kd.
  cbn [sstep]. unfold with_b. rewrite (abs_lookup _ _ _ Hx). cbn [aval sv_kind kind_of sv_bytes].
  binv E. inv_get_h R. rewrite Hx in R. injection R as <-. binv E. apply mret_inv in R as (-> & -> & ->). binv E. apply mret_inv in E as (-> & -> & _). apply put_h_inv in R as (-> & _).
  eapply (fin_upd _ s _ h (HM k o 0 c kd) _ _ _ F ltac:(by intros ? ->)); [done|done|done|]. cbn [sts set_hs]. rewrite view_hm. apply rdk_zero.
Qed.
Lemma ref_OMAdvance h cnt s r s' e' : WF s -> dlen s -> op_ok s (OMAdvance h cnt) -> run_op orc (OMAdvance h cnt) s = OK r s' e' -> forall cap uniq, sstep cap uniq (OMAdvance h cnt) (abs s) = SOk (abs s') r.
Proof.
  intros W D Hok E cap uniq. hm_start W D Hok E F Hx L Hf Fs Hty k o l c kd.
  pose proof (view_len s _ D Hty) as Hlen. cbn [h_len] in Hlen. pose proof (hm_stor _ _ _ _ _ _ Hty) as Hst.
  cbn [sstep]. unfold with_b. rewrite (abs_lookup _ _ _ Hx). cbn [aval sv_kind kind_of sv_bytes]. rewrite Hlen.
  binv E. inv_get_h R. rewrite Hx in R. injection R as <-. binv E. apply mret_inv in R as (-> & -> & ->). binv E. inv_assert R. rewrite Hb.
  binv E. destruct (adv_unchecked_inv _ _ _ _ _ _ _ _ _ _ _ Fs R) as (Hh2 & Hn2 & D2 & F2 & o' & l' & c' & kd' & -> & -> & ->).
  binv E. apply put_h_inv in R0 as (-> & _). apply mret_inv in E as (-> & -> & _).
  eapply (fin_upd _ s _ h _ _ _ _ F ltac:(by intros ? ->)); [by cbn [hs set_hs]; rewrite Hh2|done|done|]. cbn [sts set_hs]. rewrite !view_hm, (rdk_keep s s0) by done. apply rdk_suffix.
Qed.
Lemma ref_OMDrop h s r s' e' : WF s -> dlen s -> op_ok s (OMDrop h) -> run_op orc (OMDrop h) s = OK r s' e' -> forall cap uniq, sstep cap uniq (OMDrop h) (abs s) = SOk (abs s') r.
Proof.
  intros W D Hok E cap uniq. hm_start W D Hok E F Hx L Hf Fs Hty k o l c kd.
  binv E. inv_get_h R. rewrite Hx in R. injection R as <-. binv E. binv E. apply del_h_inv in R0 as (-> & _). apply mret_inv in E as (-> & -> & _).
  cbn [sstep]. unfold with_b. rewrite (abs_lookup _ _ _ Hx). cbn [aval sv_kind kind_of sv_bytes].
  destruct (hsm_run _ _ _ _ _ _ (hsm_m_drop_rep _ s) R) as [Hh2 Hn2].
  eapply (fin_del _ s _ h _ F ltac:(by intros ? ->)); cbn [hs set_hs next_h]; [by rewrite Hh2|done].
Qed.
Lemma ref_OVDrop h s r s' e' : WF s -> dlen s -> op_ok s (OVDrop h) -> run_op orc (OVDrop h) s = OK r s' e' -> forall cap uniq, sstep cap uniq (OVDrop h) (abs s) = SOk (abs s') r.
Proof.
  intros W D Hok E cap uniq. start W D Hok E F. destruct Hok as (k & l & c & Hx).
  binv E. inv_get_h R. rewrite Hx in R. injection R as <-. binv E. binv E. apply del_h_inv in R0 as (-> & _). apply mret_inv in E as (-> & -> & _).
  cbn [sstep]. unfold with_b. rewrite (abs_lookup _ _ _ Hx). cbn [aval sv_kind kind_of sv_bytes].
  destruct (hsm_run _ _ _ _ _ _ (hsm_drop_vec _ _ s) R) as [Hh2 Hn2].
  eapply (fin_del _ s _ h _ F ltac:(by intros ? ->)); cbn [hs set_hs next_h]; [by rewrite Hh2|done].
Qed.
Lemma m_freeze_rep_inv k o l c kd s e b s1 e1 : sfresh s -> is_Some (sts s !! k) -> m_freeze_rep (HM k o l c kd) s e = OK b s1 e1 ->
  hs s1 = hs s /\ next_h s1 = next_h s /\ dsame nK s s1 /\ sfresh s1 /\ kind_of b = KB /\ view (sts s1) b = rdk (sts s) k o l.
Proof.
  intros Fs Hst E. destruct (hsm_run _ _ _ _ _ _ (hsm_m_freeze_rep _ s) E) as [H1 H2]. destruct (deff_run nK _ _ _ _ _ _ (deff_m_freeze_rep nK _ s) Fs E) as [D1 F1].
  split_and!; try done; destruct kd as [ocr|]; cbn [m_freeze_rep] in E.
  - binv E. destruct (bytes_from_vec_inv _ _ _ _ _ _ _ _ Fs R) as (_ & _ & _ & _ & K & _). destruct a; try done. binv E. by apply mret_inv in E as (-> & _).
  - by apply mret_inv in E as (-> & _).
  - binv E. destruct (bytes_from_vec_inv _ _ _ _ _ _ _ _ Fs R) as (_ & _ & D2 & _ & K & V). destruct a as [ko' o' l' vt' a'| |]; try done. binv E. inv_assert R0. apply mret_inv in E as (-> & <- & _).
    rewrite <- (rdk_keep s s1 k o l D1 Hst).
    unfold bytes_from_vec in R. destruct (l + o =? c + o); [destruct (l + o =? 0) eqn:E0|].
    + apply mret_inv in R as ([= -> -> -> -> ->] & _). cbn [view]. replace l with 0 by lia. by rewrite rdk_zero.
    + binv R. apply mret_inv in R as ([= -> -> -> -> ->] & _). rewrite view_hb. f_equal; lia.
    + binv R. binv R. apply mret_inv in R as ([= -> -> -> -> ->] & _). rewrite view_hb. f_equal; lia.
  - apply mret_inv in E as (-> & -> & _). by rewrite view_hb.
Qed.
Lemma ref_OMFreeze h s r s' e' : WF s -> dlen s -> op_ok s (OMFreeze h) -> run_op orc (OMFreeze h) s = OK r s' e' -> forall cap uniq, sstep cap uniq (OMFreeze h) (abs s) = SOk (abs s') r.
Proof.
  intros W D Hok E cap uniq. hm_start W D Hok E F Hx L Hf Fs Hty k o l c kd. pose proof (hm_stor _ _ _ _ _ _ Hty) as Hst.
  binv E. inv_get_h R. rewrite Hx in R. injection R as <-. binv E. destruct (m_freeze_rep_inv _ _ _ _ _ _ _ _ _ _ Fs Hst R) as (Hh1 & Hn1 & D1 & F1 & K1 & V1).
  binv E. apply del_h_inv in R0 as (-> & _). binv E. apply new_h_inv in R0 as (-> & Hh & Hs & Hn & _). apply mret_inv in E as (-> & <- & _). cbn [hs set_hs next_h sts] in *.
  cbn [sstep]. unfold with_b. rewrite (abs_lookup _ _ _ Hx). cbn [aval sv_kind kind_of sv_bytes]. rewrite Hn1, Hh1 in *.
  eapply (fin_del_new _ s s' h _ _ _ F ltac:(by intros ? ->)); [done|done|done|]. by rewrite Hs, V1.
Qed.
Lemma mread_inv k o l s e bs s1 e1 : mread k o l s e = OK bs s1 e1 -> s1 = s /\ bs = rdk (sts s) k o l.
Proof.
  intros E. pose proof (keeps_mread k o l s e) as Hk. rewrite E in Hk. split; [done|]. unfold mread in E. destruct (l =? 0) eqn:E0.
  - apply mret_inv in E as (-> & _). replace l with 0 by lia. by rewrite rdk_zero.
  - binv E. unfold get_st in R. unfold rdk. destruct (sts s !! k); [|done]. injection R as <- <- <-. binv E. binv E. by apply mret_inv in E as (-> & _).
Qed.
Lemma mread_bound k o l s e bs s1 e1 : mread k o l s e = OK bs s1 e1 -> l = 0 \/ exists st, sts s !! k = Some st /\ o + l <= s_size st.
Proof.
  intros E. unfold mread in E. destruct (l =? 0) eqn:E0; [left; lia|right].
  binv E. unfold get_st in R. destruct (sts s !! k) as [st|]; [|done]. injection R as <- <- <-. binv E. apply mcheck_inv in R as (_ & -> & ->). binv E. apply mcheck_inv in R as (Hb & -> & ->).
  exists st. split; [done|lia].
Qed.
Lemma bytes_contents_inv x s e bs s1 e1 : bytes_contents x s e = OK bs s1 e1 -> s1 = s /\ bs = view (sts s) x.
Proof.
  intros E. destruct x as [[k|] o l vt a|k o l c kd|k l c]; cbn [bytes_contents] in E; try (by apply mread_inv in E).
  destruct (l =? 0); [by apply mret_inv in E as (-> & -> & _)|done].
Qed.
Lemma ref_OMClone h s r s' e' : WF s -> dlen s -> op_ok s (OMClone h) -> run_op orc (OMClone h) s = OK r s' e' -> forall cap uniq, sstep cap uniq (OMClone h) (abs s) = SOk (abs s') r.
Proof.
  intros W D Hok E cap uniq. hm_start W D Hok E F Hx L Hf Fs Hty k o l c kd.
  binv E. inv_get_h R. rewrite Hx in R. injection R as <-. binv E. apply bytes_contents_inv in R as (-> & ->).
  binvn E pr. destruct pr as [k' c']. destruct (to_vec_inv _ _ _ _ _ _ _ Fs R) as (-> & _ & Hh1 & Hn1 & D1 & F1 & _ & Hv).
  binv E. apply new_h_inv in R0 as (-> & Hh & Hs & Hn & _). apply mret_inv in E as (-> & <- & _).
  cbn [sstep]. unfold with_b. rewrite (abs_lookup _ _ _ Hx). cbn [aval sv_kind kind_of sv_bytes]. rewrite Hn1, Hh1 in *.
  eapply (fin_keep_new _ s s' h _ (HM k o l c kd) _ _ _ F ltac:(by intros ? ->) Hx); [by rewrite (insert_id _ h)|done|done| |done|].
  - rewrite Hs. apply view_keep_gen; [done|]. intros k0 [= <-] _. by eapply hm_stor.
  - unfold from_vec. by rewrite view_hm, Hs.
Qed.
Lemma ref_OVIntoBytes h s r s' e' : WF s -> dlen s -> op_ok s (OVIntoBytes h) -> run_op orc (OVIntoBytes h) s = OK r s' e' -> forall cap uniq, sstep cap uniq (OVIntoBytes h) (abs s) = SOk (abs s') r.
Proof.
  intros W D Hok E cap uniq. start W D Hok E F. destruct Hok as (k & l & c & Hx). pose proof W as [L Hf]. pose proof (lwf_fresh _ _ L) as Fs. pose proof (lwf_typed _ _ L _ _ Hx) as Hty.
  assert (is_Some (sts s !! k)) as Hst by (destruct Hty as (st & -> & _); eauto).
  binv E. inv_get_h R. rewrite Hx in R. injection R as <-. binv E. destruct (bytes_from_vec_inv _ _ _ _ _ _ _ _ Fs R) as (Hh1 & Hn1 & D1 & F1 & K1 & V1).
  binv E. assert (hs s1 = hs s0 /\ next_h s1 = next_h s0 /\ dsame nK s0 s1 /\ sfresh s1) as (Hh2 & Hn2 & D2 & F2).
  { destruct ((l =? c) && (l =? 0)).
    - destruct (hsm_run _ _ _ _ _ _ (hsm_drop_vec _ _ _) R0) as [? ?]. destruct (deff_run nK _ _ _ _ _ _ (deff_drop_vec nK _ _ _) F1 R0) as [? ?]. done.
    - apply mret_inv in R0 as (_ & -> & _). split_and!; try done. apply dsame_refl. }
  binv E. apply del_h_inv in R1 as (-> & _). binv E. apply new_h_inv in R1 as (-> & Hh & Hs & Hn & _). apply mret_inv in E as (-> & <- & _). cbn [hs set_hs next_h sts] in *.
  cbn [sstep]. unfold with_b. rewrite (abs_lookup _ _ _ Hx). cbn [aval sv_kind kind_of sv_bytes]. rewrite Hn2, Hh2, Hn1, Hh1 in *.
  eapply (fin_del_new _ s s' h _ _ _ F ltac:(by intros ? ->)); [done|done|done|]. rewrite Hs, view_hv.
  rewrite <- (rdk_keep s s0 k 0 l D1 Hst). rewrite <- V1. apply view_keep_gen; [done|]. intros k0 Hk0 Hl0.
  assert (k0 = k) as ->. { unfold bytes_from_vec in R. destruct (l =? c); [destruct (l =? 0)|]; [apply mret_inv in R as (-> & _); done|binv R; apply mret_inv in R as (-> & _); by injection Hk0|binv R; binv R; apply mret_inv in R as (-> & _); by injection Hk0]. }
  by eapply dsame_some.
Qed.
(* ---- writes ---- *)
Lemma rd_wr_at_same d a bs : a + lenN bs <= lenN d -> rd (wr_at d a bs) a (lenN bs) = bs.
Proof.
  intros H. unfold rd, wr_at. rewrite skipN_app_ge by (rewrite lenN_firstnN; lia). rewrite lenN_firstnN. replace (a - N.min a (lenN d)) with 0 by lia. rewrite skipN_0.
  rewrite firstnN_app_le by lia. by apply firstnN_all.
Qed.
Lemma rd_app d o l1 l2 : rd d o (l1 + l2) = rd d o l1 ++ rd d (o + l1) l2.
Proof. unfold rd. rewrite firstnN_add. by rewrite skipN_skipN. Qed.
Lemma mwrite_inv k a bs s e s1 e1 : mwrite k a bs s e = OK tt s1 e1 ->
  (lenN bs = 0 /\ s1 = s) \/ exists st, sts s !! k = Some st /\ a + lenN bs <= s_size st /\ s1 = set_sts (<[k := with_data (wr_at (s_data st) a bs) st]>) s.
Proof.
  unfold mwrite. destruct (lenN bs =? 0) eqn:E0; [intros [= <- _]; left; split; [lia|done]|]. intros E. right.
  binv E. unfold get_st in R. destruct (sts s !! k) as [st|]; [|done]. injection R as <- <- <-. binv E. apply mcheck_inv in R as (Hb1 & -> & ->). binv E. apply mcheck_inv in R as (Hb2 & -> & ->).
  binv E. apply mcheck_inv in R as (Hb3 & -> & ->). injection E as <- _. exists st. split; [done|]. split; [lia|done].
Qed.
(* a write into a storage: what is read afterwards *)
Lemma mwrite_rdk k a bs s e s1 e1 : dlen s -> mwrite k a bs s e = OK tt s1 e1 ->
  hs s1 = hs s /\ next_h s1 = next_h s /\ dlen s1 /\
  (lenN bs <> 0 -> rdk (sts s1) k a (lenN bs) = bs) /\
  (forall k2 o l, (k2 <> k \/ o + l <= a \/ a + lenN bs <= o \/ l = 0) -> rdk (sts s1) k2 o l = rdk (sts s) k2 o l) /\
  (forall k2, is_Some (sts s !! k2) -> is_Some (sts s1 !! k2)).
Proof.
  intros D E. pose proof (leff_run _ _ _ _ _ _ (leff_mwrite k a bs s) D E) as D1. destruct (hsm_run _ _ _ _ _ _ (hsm_mwrite k a bs s) E) as [H1 H2].
  split; [done|]. split; [done|]. split; [done|]. apply mwrite_inv in E as [[Hz ->]|(st & Hs & Hb & ->)].
  - split; [lia|]. split; [done|done].
  - pose proof (D _ _ Hs) as Hl. split; [|split].
    + intros _. unfold rdk. cbn [sts set_sts]. rewrite lookup_insert. cbn [with_data s_data]. apply rd_wr_at_same. lia.
    + intros k2 o l Hd. unfold rdk. cbn [sts set_sts]. destruct (decide (k2 = k)) as [->|Hne]; [|by rewrite lookup_insert_ne].
      rewrite lookup_insert, Hs. cbn [with_data s_data]. apply rd_wr_at_disj; [lia|]. destruct Hd as [?|?]; [done|done].
    + intros k2 Hk2. cbn [sts set_sts]. destruct (decide (k2 = k)) as [->|Hne]; [rewrite lookup_insert; by eexists|by rewrite lookup_insert_ne].
Qed.
(* ptr::copy to the front of the buffer *)
Lemma copy_to_front_inv k o l s e s1 e1 : dlen s -> copy_to_front k o l s e = OK tt s1 e1 ->
  hs s1 = hs s /\ next_h s1 = next_h s /\ dlen s1 /\ rdk (sts s1) k 0 l = rdk (sts s) k o l /\
  (forall k2 o2 l2, k2 <> k -> rdk (sts s1) k2 o2 l2 = rdk (sts s) k2 o2 l2) /\ (forall k2, is_Some (sts s !! k2) -> is_Some (sts s1 !! k2)).
Proof.
  intros D E. unfold copy_to_front in E. destruct ((l =? 0) || (o =? 0)) eqn:E0.
  - apply mret_inv in E as (_ & -> & _). split_and!; try done. destruct (l =? 0) eqn:El; [replace l with 0 by lia; by rewrite !rdk_zero|]. by replace o with 0 by lia.
  - binv E. pose proof (mread_bound _ _ _ _ _ _ _ _ R) as Hbd. apply mread_inv in R as (-> & ->).
    assert (lenN (rdk (sts s) k o l) = l) as Hlen.
    { destruct Hbd as [->|(st & Hs & Hb)]; [by rewrite rdk_zero|]. unfold rdk. rewrite Hs. apply lenN_rd. by rewrite (D _ _ Hs). }
    destruct (mwrite_rdk _ _ _ _ _ _ _ D E) as (H1 & H2 & D1 & V1 & V2 & S1). rewrite Hlen in *. split_and!; try done.
    + apply V1. lia.
    + intros k2 o2 l2 Hne. apply V2. by left.
Qed.
(* ---- steps that change control blocks only ---- *)
Definition ckeep (s s1 : hst) : Prop := hs s1 = hs s /\ next_h s1 = next_h s /\ dsame nK s s1 /\ sfresh s1 /\ dlen s1.
Lemma ckeep_refl s : sfresh s -> dlen s -> ckeep s s. Proof. intros. split_and!; try done. apply dsame_refl. Qed.
Lemma ckeep_trans s s1 s2 : ckeep s s1 -> ckeep s1 s2 -> ckeep s s2.
Proof. intros (A1 & A2 & A3 & A4 & A5) (B1 & B2 & B3 & B4 & B5). split_and!; try congruence; try done. by eapply dsame_trans. Qed.
Lemma ckeep_run {A} (m : M A) s e a s1 e1 : hsm m s -> deff nK m s -> leff m s -> sfresh s -> dlen s -> m s e = OK a s1 e1 -> ckeep s s1.
Proof.
  intros H1 H2 H3 Fs D E. destruct (hsm_run _ _ _ _ _ _ H1 E). destruct (deff_run nK _ _ _ _ _ _ H2 Fs E). pose proof (leff_run _ _ _ _ _ _ H3 D E). done.
Qed.
Lemma ckeep_rdk s s1 k o l : ckeep s s1 -> is_Some (sts s !! k) -> rdk (sts s1) k o l = rdk (sts s) k o l.
Proof. intros (_ & _ & D & _) Hs. by apply rdk_keep. Qed.
Lemma ckeep_some s s1 k : ckeep s s1 -> is_Some (sts s !! k) -> is_Some (sts s1 !! k).
Proof. intros (_ & _ & D & _) Hs. by eapply dsame_some. Qed.
Lemma ckeep_put_ctrl k y c s e u s1 e1 : sfresh s -> dlen s -> sts s !! k = Some y -> put_st k (with_ctrl c y) s e = OK u s1 e1 -> ckeep s s1.
Proof.
  intros Fs D Hy E. eapply (ckeep_run _ s e u s1 e1); try done.
  - apply hsm_of_same, hs_put_st.
  - eapply deff_put_st; [done|by right].
  - eapply leff_put_st; [done|]. cbn [with_ctrl s_data s_size]. by eapply D.
Qed.
Lemma ckeep_release k s e u s1 e1 : sfresh s -> dlen s -> release k s e = OK u s1 e1 -> ckeep s s1.
Proof. intros Fs D E. eapply (ckeep_run _ s e u s1 e1); try done; [apply hsm_release|apply deff_release|apply leff_release]. Qed.
Lemma ckeep_emit x s e u s1 e1 : sfresh s -> dlen s -> emit x s e = OK u s1 e1 -> ckeep s s1.
Proof. intros Fs D E. unfold emit in E. injection E as _ <- _. by apply ckeep_refl. Qed.
(* "copy out": read the view, allocate an exact Vec for it, give up the reference *)
Lemma copy_out_inv k o l (mk : sid -> N -> handle) s e v s1 e1 : sfresh s -> dlen s ->
  (let! bs := mread k o l in let! (k', c) := to_vec bs in release k;; mret (mk k' c)) s e = OK v s1 e1 ->
  hs s1 = hs s /\ next_h s1 = next_h s /\ exists k' c, v = mk k' c /\ rdk (sts s1) k' 0 c = rdk (sts s) k o l.
Proof.
  intros Fs D E. binv E. apply mread_inv in R as (-> & ->). binvn E pr. destruct pr as [k' c].
  destruct (to_vec_inv _ _ _ _ _ _ _ Fs R) as (-> & _ & Hh1 & Hn1 & D1 & F1 & S1 & Hv).
  pose proof (leff_run _ _ _ _ _ _ (leff_to_vec _ s) D R) as DL1.
  binv E. apply mret_inv in E as (-> & <- & _). destruct (ckeep_release _ _ _ _ _ _ F1 DL1 R0) as (Hh2 & Hn2 & D2 & _).
  split; [congruence|]. split; [congruence|]. eexists _, _. split; [done|]. by rewrite (rdk_keep s0 s1).
Qed.
Lemma get_st_inv k s e y s1 e1 : get_st k s e = OK y s1 e1 -> s1 = s /\ e1 = e /\ sts s !! k = Some y.
Proof. unfold get_st. destruct (sts s !! k); [|done]. by intros [= -> -> ->]. Qed.
(* in place: control block changes (ckeep), then the view is moved to the front *)
Lemma inplace_front s s0 k o l e0 s1 e1 : ckeep s s0 -> is_Some (sts s !! k) -> copy_to_front k o l s0 e0 = OK tt s1 e1 ->
  hs s1 = hs s /\ next_h s1 = next_h s /\ rdk (sts s1) k 0 l = rdk (sts s) k o l.
Proof.
  intros C Hs E. pose proof C as (A1 & A2 & A3 & A4 & A5). destruct (copy_to_front_inv _ _ _ _ _ _ _ A5 E) as (B1 & B2 & _ & B4 & _).
  split; [congruence|]. split; [congruence|]. rewrite B4. by apply ckeep_rdk.
Qed.
Lemma shared_to_vec_view k o l s e v s1 e1 : sfresh s -> dlen s -> shared_to_vec k o l s e = OK v s1 e1 ->
  hs s1 = hs s /\ next_h s1 = next_h s /\ kind_of v = KV /\ view (sts s1) v = rdk (sts s) k o l.
Proof.
  intros Fs D E. unfold shared_to_vec in E. binvn E y. apply get_st_inv in R as (-> & -> & Hy). destruct (s_ctrl y) as [|cap rc| | |]; try done. destruct (rc =? 1).
  - binv E. pose proof (ckeep_put_ctrl _ _ _ _ _ _ _ _ Fs D Hy R) as C1. pose proof C1 as (_ & _ & _ & F1 & D1).
    binv E. pose proof (ckeep_emit _ _ _ _ _ _ F1 D1 R0) as C2. binvn E uu. apply mret_inv in E as (-> & <- & _). destruct uu.
    destruct (inplace_front s s2 k o l _ _ _ (ckeep_trans _ _ _ C1 C2) ltac:(by eexists) R1) as (H1 & H2 & H3). by rewrite view_hv.
  - destruct (copy_out_inv k o l (fun k' c => HV k' c c) _ _ _ _ _ Fs D E) as (H1 & H2 & k' & c & -> & H3). by rewrite view_hv.
Qed.
Lemma shared_to_mut_view k o l s e v s1 e1 : sfresh s -> dlen s -> shared_to_mut k o l s e = OK v s1 e1 ->
  hs s1 = hs s /\ next_h s1 = next_h s /\ kind_of v = KM /\ view (sts s1) v = rdk (sts s) k o l.
Proof.
  intros Fs D E. unfold shared_to_mut in E. binvn E y. apply get_st_inv in R as (-> & -> & Hy). destruct (s_ctrl y) as [|cap rc| | |]; try done. destruct (rc =? 1).
  - binv E. pose proof (ckeep_put_ctrl _ _ _ _ _ _ _ _ Fs D Hy R) as C1. pose proof C1 as (_ & _ & _ & F1 & D1).
    binv E. pose proof (ckeep_emit _ _ _ _ _ _ F1 D1 R0) as C2. pose proof (ckeep_trans _ _ _ C1 C2) as (A1 & A2 & A3 & A4 & A5).
    unfold from_vec in E. destruct (adv_unchecked_inv _ _ _ _ _ _ _ _ _ _ _ A4 E) as (B1 & B2 & B3 & B4 & o' & l' & c' & kd' & -> & -> & ->).
    split; [congruence|]. split; [congruence|]. split; [done|]. rewrite view_hm. etrans; [apply (rdk_keep _ _ _ _ _ B3); eapply dsame_some; [exact A3|by eexists]|]. etrans; [apply (rdk_keep _ _ _ _ _ A3); by eexists|]. f_equal; lia.
  - destruct (copy_out_inv k o l (fun k' c => from_vec k' c c) _ _ _ _ _ Fs D E) as (H1 & H2 & k' & c & -> & H3). unfold from_vec. by rewrite view_hm.
Qed.
Lemma hb_stor' s k o l vt a : typed (sts s) (HB (Some k) o l vt a) -> vt <> VStatic -> is_Some (sts s !! k).
Proof. intros Ht Hv. destruct vt; try done; destruct Ht as (st & -> & _); eauto. Qed.
Lemma bytes_into_vec_view x s e v s1 e1 : sfresh s -> dlen s -> typed (sts s) x -> bytes_into_vec_rep x s e = OK v s1 e1 ->
  hs s1 = hs s /\ next_h s1 = next_h s /\ kind_of v = KV /\ view (sts s1) v = view (sts s) x.
Proof.
  intros Fs D Ht E. destruct x as [ko o l vt a| |]; try done. cbn [bytes_into_vec_rep] in E.
  assert ((let! bs := bytes_contents (HB ko o l vt a) in let! (k', c) := to_vec bs in mret (HV k' c c)) s e = OK v s1 e1 ->
          hs s1 = hs s /\ next_h s1 = next_h s /\ kind_of v = KV /\ view (sts s1) v = view (sts s) (HB ko o l vt a)) as Hstatic.
  { intros E'. binv E'. apply bytes_contents_inv in R as (-> & ->). binvn E' pr. destruct pr as [k' c]. destruct (to_vec_inv _ _ _ _ _ _ _ Fs R) as (-> & _ & Hh1 & Hn1 & D1 & F1 & S1 & Hv).
    apply mret_inv in E' as (-> & <- & _). by rewrite view_hv. }
  destruct vt, ko as [k|]; try done; try (by apply Hstatic).
  - destruct (copy_out_inv k o l (fun k' c => HV k' c c) _ _ _ _ _ Fs D E) as (H1 & H2 & k' & c & -> & H3). by rewrite view_hv, view_hb.
  - destruct a; [by eapply shared_to_vec_view|]. binvn E uu. apply mret_inv in E as (-> & <- & _). destruct uu.
    destruct (inplace_front s s k o l _ _ _ (ckeep_refl _ Fs D) ltac:(by eapply hb_stor') R) as (H1 & H2 & H3). by rewrite view_hv, view_hb.
  - destruct a; [by eapply shared_to_vec_view|]. binvn E uu. apply mret_inv in E as (-> & <- & _). destruct uu.
    destruct (inplace_front s s k o l _ _ _ (ckeep_refl _ Fs D) ltac:(by eapply hb_stor') R) as (H1 & H2 & H3). by rewrite view_hv, view_hb.
  - by eapply shared_to_vec_view.
  - binvn E y. apply get_st_inv in R as (-> & -> & Hy). destruct (s_ctrl y) as [| |vcap oc rc| |]; try done. destruct (rc =? 1).
    + binv E. pose proof (ckeep_put_ctrl _ _ _ _ _ _ _ _ Fs D Hy R) as C1. pose proof C1 as (_ & _ & _ & F1 & D1).
      binv E. pose proof (ckeep_release _ _ _ _ _ _ F1 D1 R0) as C2. binvn E uu. apply mret_inv in E as (-> & <- & _). destruct uu.
      destruct (inplace_front s s2 k o l _ _ _ (ckeep_trans _ _ _ C1 C2) ltac:(by eexists) R1) as (H1 & H2 & H3). by rewrite view_hv, view_hb.
    + destruct (copy_out_inv k o l (fun k' c => HV k' c c) _ _ _ _ _ Fs D E) as (H1 & H2 & k' & c & -> & H3). by rewrite view_hv, view_hb.
Qed.
Lemma bytes_into_mut_view x s e v s1 e1 : sfresh s -> dlen s -> typed (sts s) x -> bytes_into_mut_rep x s e = OK v s1 e1 ->
  hs s1 = hs s /\ next_h s1 = next_h s /\ kind_of v = KM /\ view (sts s1) v = view (sts s) x.
Proof.
  intros Fs D Ht E. destruct x as [ko o l vt a| |]; try done. cbn [bytes_into_mut_rep] in E.
  assert ((let! bs := bytes_contents (HB ko o l vt a) in let! (k', c) := to_vec bs in mret (from_vec k' c c)) s e = OK v s1 e1 ->
          hs s1 = hs s /\ next_h s1 = next_h s /\ kind_of v = KM /\ view (sts s1) v = view (sts s) (HB ko o l vt a)) as Hstatic.
  { intros E'. binv E'. apply bytes_contents_inv in R as (-> & ->). binvn E' pr. destruct pr as [k' c]. destruct (to_vec_inv _ _ _ _ _ _ _ Fs R) as (-> & _ & Hh1 & Hn1 & D1 & F1 & S1 & Hv).
    apply mret_inv in E' as (-> & <- & _). unfold from_vec. by rewrite view_hm. }
  assert (forall k, is_Some (sts s !! k) -> adv_unchecked o (from_vec k (o + l) (o + l)) s e = OK v s1 e1 ->
          hs s1 = hs s /\ next_h s1 = next_h s /\ kind_of v = KM /\ view (sts s1) v = rdk (sts s) k o l) as Hadv.
  { intros k Hs E'. unfold from_vec in E'. destruct (adv_unchecked_inv _ _ _ _ _ _ _ _ _ _ _ Fs E') as (B1 & B2 & B3 & B4 & o' & l' & c' & kd' & -> & -> & ->).
    split_and!; try done. rewrite view_hm, (rdk_keep s s1) by done. f_equal; lia. }
  destruct vt, ko as [k|]; try done; try (by apply Hstatic).
  - destruct (copy_out_inv k o l (fun k' c => from_vec k' c c) _ _ _ _ _ Fs D E) as (H1 & H2 & k' & c & -> & H3). unfold from_vec. by rewrite view_hm, view_hb.
  - destruct a; [by eapply shared_to_mut_view|]. rewrite view_hb. apply Hadv; [by eapply hb_stor'|done].
  - destruct a; [by eapply shared_to_mut_view|]. rewrite view_hb. apply Hadv; [by eapply hb_stor'|done].
  - by eapply shared_to_mut_view.
  - binvn E y. apply get_st_inv in R as (-> & -> & Hy). destruct (s_ctrl y) as [| |vcap oc rc| |]; try done. destruct (rc =? 1).
    + by apply mret_inv in E as (-> & -> & _).
    + destruct (copy_out_inv k o l (fun k' c => from_vec k' c c) _ _ _ _ _ Fs D E) as (H1 & H2 & k' & c & -> & H3). unfold from_vec. by rewrite view_hm, view_hb.
Qed.
Lemma m_into_vec_view x s e v s1 e1 : sfresh s -> dlen s -> typed (sts s) x -> m_into_vec_rep x s e = OK v s1 e1 ->
  hs s1 = hs s /\ next_h s1 = next_h s /\ kind_of v = KV /\ view (sts s1) v = view (sts s) x.
Proof.
  intros Fs D Ht E. destruct x as [|k o l c kd|]; try done. pose proof (hm_stor _ _ _ _ _ _ Ht) as Hst. cbn [m_into_vec_rep] in E. destruct kd as [ocr|].
  - binvn E uu. apply mret_inv in E as (-> & <- & _). destruct uu.
    destruct (inplace_front s s k o l _ _ _ (ckeep_refl _ Fs D) Hst R) as (H1 & H2 & H3). by rewrite view_hv, view_hm.
  - binvn E y. apply get_st_inv in R as (-> & -> & Hy). destruct (s_ctrl y) as [| |vcap oc rc| |]; try done. destruct (rc =? 1).
    + binv E. pose proof (ckeep_put_ctrl _ _ _ _ _ _ _ _ Fs D Hy R) as C1. pose proof C1 as (_ & _ & _ & F1 & D1).
      binv E. pose proof (ckeep_release _ _ _ _ _ _ F1 D1 R0) as C2. binvn E uu. apply mret_inv in E as (-> & <- & _). destruct uu.
      destruct (inplace_front s s2 k o l _ _ _ (ckeep_trans _ _ _ C1 C2) Hst R1) as (H1 & H2 & H3). by rewrite view_hv, view_hm.
    + destruct (copy_out_inv k o l (fun k' c => HV k' c c) _ _ _ _ _ Fs D E) as (H1 & H2 & k' & c' & -> & H3). by rewrite view_hv, view_hm.
Qed.
Lemma ref_OBIntoVec h s r s' e' : WF s -> dlen s -> op_ok s (OBIntoVec h) -> run_op orc (OBIntoVec h) s = OK r s' e' -> forall cap uniq, sstep cap uniq (OBIntoVec h) (abs s) = SOk (abs s') r.
Proof.
  intros W D Hok E cap uniq. start W D Hok E F. destruct Hok as (ko & o & l & vt & a & Hx). pose proof W as [L Hf]. pose proof (lwf_fresh _ _ L) as Fs. pose proof (lwf_typed _ _ L _ _ Hx) as Hty.
  binv E. inv_get_h R. rewrite Hx in R. injection R as <-. binv E. destruct (bytes_into_vec_view _ _ _ _ _ _ Fs D Hty R) as (Hh1 & Hn1 & K1 & V1).
  binv E. apply del_h_inv in R0 as (-> & _). binv E. apply new_h_inv in R0 as (-> & Hh & Hs & Hn & _). apply mret_inv in E as (-> & <- & _). cbn [hs set_hs next_h sts] in *.
  cbn [sstep]. unfold with_b. rewrite (abs_lookup _ _ _ Hx). cbn [aval sv_kind kind_of sv_bytes]. rewrite Hn1, Hh1 in *.
  eapply (fin_del_new _ s s' h _ _ _ F ltac:(by intros ? ->)); [done|done|done|]. by rewrite Hs.
Qed.
Lemma ref_OBIntoMut h s r s' e' : WF s -> dlen s -> op_ok s (OBIntoMut h) -> run_op orc (OBIntoMut h) s = OK r s' e' -> forall cap uniq, sstep cap uniq (OBIntoMut h) (abs s) = SOk (abs s') r.
Proof.
  intros W D Hok E cap uniq. start W D Hok E F. destruct Hok as (ko & o & l & vt & a & Hx). pose proof W as [L Hf]. pose proof (lwf_fresh _ _ L) as Fs. pose proof (lwf_typed _ _ L _ _ Hx) as Hty.
  binv E. inv_get_h R. rewrite Hx in R. injection R as <-. binv E. destruct (bytes_into_mut_view _ _ _ _ _ _ Fs D Hty R) as (Hh1 & Hn1 & K1 & V1).
  binv E. apply del_h_inv in R0 as (-> & _). binv E. apply new_h_inv in R0 as (-> & Hh & Hs & Hn & _). apply mret_inv in E as (-> & <- & _). cbn [hs set_hs next_h sts] in *.
  cbn [sstep]. unfold with_b. rewrite (abs_lookup _ _ _ Hx). cbn [aval sv_kind kind_of sv_bytes]. rewrite Hn1, Hh1 in *.
  eapply (fin_del_new _ s s' h _ _ _ F ltac:(by intros ? ->)); [done|done|done|]. by rewrite Hs.
Qed.
Lemma keeps_is_unique x : keeps (bytes_is_unique_rep x).
Proof.
  intros s e. unfold bytes_is_unique_rep, get_rc, mbind, get_st, mret, mub. destruct x as [ko o l vt a| |]; try done.
  destruct vt, ko as [k|]; try done; try destruct a; try done; destruct (sts s !! k) as [st|]; try done; by destruct (s_ctrl st).
Qed.
Lemma ref_OBTryIntoMut h s r s' e' : WF s -> dlen s -> op_ok s (OBTryIntoMut h) -> run_op orc (OBTryIntoMut h) s = OK r s' e' -> forall cap, exists uniq, sstep cap uniq (OBTryIntoMut h) (abs s) = SOk (abs s') r.
Proof.
  intros W D Hok E cap. start W D Hok E F. destruct Hok as (ko & o & l & vt & a & Hx). pose proof W as [L Hf]. pose proof (lwf_fresh _ _ L) as Fs. pose proof (lwf_typed _ _ L _ _ Hx) as Hty.
  binv E. inv_get_h R. rewrite Hx in R. injection R as <-. binvn E b. exists b.
  pose proof (ckeep_run _ _ _ _ _ _ (hsm_bytes_is_unique_rep _ s) (deff_bytes_is_unique_rep nK _ s) (leff_bytes_is_unique_rep _ s) Fs D R) as (Hh0 & Hn0 & D0 & F0 & DL0).
  cbn [sstep]. unfold with_b. rewrite (abs_lookup _ _ _ Hx). cbn [aval sv_kind kind_of sv_bytes]. destruct b.
  - assert (typed (sts s0) (HB ko o l vt a)) as Hty0.
    { pose proof (keeps_is_unique (HB ko o l vt a) s []) as Hk. rewrite R in Hk. by subst. }
    binv E. destruct (bytes_into_mut_view _ _ _ _ _ _ F0 DL0 Hty0 R0) as (Hh1 & Hn1 & K1 & V1).
    binv E. apply del_h_inv in R1 as (-> & _). binv E. apply new_h_inv in R1 as (-> & Hh & Hs & Hn & _). apply mret_inv in E as (-> & <- & _). cbn [hs set_hs next_h sts] in *.
    rewrite Hn1, Hh1, Hn0, Hh0 in *.
    eapply (fin_del_new _ s s' h _ _ _ F ltac:(by intros ? ->)); [done|done|done|]. rewrite Hs, V1. by apply view_hb_keep.
  - apply mret_inv in E as (-> & <- & _).
    eapply (fin_keep _ s s' h _ (HB ko o l vt a) _ F ltac:(by intros ? ->) Hx); [by rewrite Hh0, (insert_id _ h)|done|done|by apply view_hb_keep].
Qed.
(* ---- reserve: the handle reads the same bytes afterwards ---- *)
Lemma move_front_inv k o l s e s1 e1 : dlen s -> (if l =? 0 then mret tt else let! bs := mread k o l in mwrite k 0 bs) s e = OK tt s1 e1 ->
  hs s1 = hs s /\ next_h s1 = next_h s /\ rdk (sts s1) k 0 l = rdk (sts s) k o l /\ (is_Some (sts s !! k) -> is_Some (sts s1 !! k)).
Proof.
  intros D E. destruct (l =? 0) eqn:E0.
  - apply mret_inv in E as (_ & -> & _). split_and!; try done. replace l with 0 by lia. by rewrite !rdk_zero.
  - binv E. pose proof (mread_bound _ _ _ _ _ _ _ _ R) as Hbd. apply mread_inv in R as (-> & ->).
    assert (lenN (rdk (sts s) k o l) = l) as Hlen.
    { destruct Hbd as [->|(st & Hs & Hb)]; [by rewrite rdk_zero|]. unfold rdk. rewrite Hs. apply lenN_rd. by rewrite (D _ _ Hs). }
    destruct (mwrite_rdk _ _ _ _ _ _ _ D E) as (H1 & H2 & D1 & V1 & V2 & S1). rewrite Hlen in *. split_and!; try done; [apply V1; lia|apply S1].
Qed.
Lemma rd_firstn d keep o l : o + l <= keep -> rd (firstnN keep d) o l = rd d o l.
Proof. intros H. unfold rd. rewrite skipN_firstnN, firstnN_firstnN. f_equal. lia. Qed.
Lemma rd_pad_in init size o l : o + l <= lenN init -> rd (pad init size) o l = rd (firstnN size init) o l.
Proof.
  intros H. unfold pad. destruct (N.le_gt_cases size (lenN init)) as [Hle|Hgt].
  - by rewrite firstnN_app_le by lia.
  - rewrite firstnN_app_ge by lia. rewrite (firstnN_all size init) by lia. unfold rd. rewrite skipN_app_le by lia. rewrite firstnN_app_le; [done|]. rewrite lenN_skipN. lia.
Qed.
Lemma realloc_buf_inv k oldcap keep need s e k' c s1 e1 : sfresh s -> dlen s -> realloc_buf orc k oldcap keep need s e = OK (k', c) s1 e1 ->
  (forall st, sts s !! k = Some st -> keep <= s_size st /\ (s_cls st = SDangling -> s_size st = 0)) -> keep <= need ->
  hs s1 = hs s /\ next_h s1 = next_h s /\ is_Some (sts s1 !! k') /\ forall o l, o + l <= keep -> rdk (sts s1) k' o l = rdk (sts s) k o l.
Proof.
  intros Fs D E Hk Hkn. destruct (hsm_run _ _ _ _ _ _ (hsm_realloc_buf orc k oldcap keep need s) E) as [H1 H2]. split; [done|]. split; [done|].
  unfold realloc_buf in E. destruct (isize_max <? need); [done|]. set (newcap := N.max (or_pick orc need) need) in *. assert (need <= newcap) as Hnc by (unfold newcap; lia).
  binvn E x. apply get_st_inv in R as (-> & -> & Hx). destruct (Hk _ Hx) as [Hk1 Hk2]. pose proof (D _ _ Hx) as Hdl. binv E. apply mret_inv in R as (-> & -> & ->). destruct (s_cls x) eqn:Hcl; try done.
  - binv E. apply mcheck_inv in R as (_ & -> & ->). binv E. apply mcheck_inv in R as (_ & -> & ->). binv E. injection R as _ <- _. binv E. apply mret_inv in E as ([= -> ->] & <- & _). injection R as _ <- _.
    cbn [sts]. rewrite lookup_insert. split; [by eexists|]. intros o l Hol. unfold rdk. rewrite lookup_insert, Hx. cbn [s_data].
    rewrite rd_pad_in by (rewrite lenN_firstnN; lia). rewrite (firstnN_all newcap) by (rewrite lenN_firstnN; lia). by apply rd_firstn.
  - binvn E k2. assert (lenN (@nil byte) <= newcap) as Hl0 by (rewrite lenN_nil; lia). destruct (alloc_buf_inv _ _ _ _ _ _ _ Fs R Hl0) as (Hn & _ & _ & D1 & F1 & S1 & _).
    binv E. binv E. apply mret_inv in E as ([= -> ->] & <- & _).
    assert (is_Some (sts s2 !! k2)) as S2. { unfold upd_st in R0. binvn R0 y. apply get_st_inv in R2 as (-> & -> & Hy). injection R0 as _ <- _. cbn [sts set_sts]. rewrite lookup_insert. by eexists. }
    split. { unfold put_st in R1. injection R1 as _ <- _. cbn [sts set_sts]. destruct (decide (k2 = k)) as [->|?]; [rewrite lookup_insert; by eexists|by rewrite lookup_insert_ne]. }
    intros o l Hol. specialize (Hk2 eq_refl). replace l with 0 by lia. by rewrite !rdk_zero.
Qed.
Definition dang_ok (s : hst) : Prop := forall k st, sts s !! k = Some st -> s_cls st = SDangling -> s_size st = 0.
Lemma wf_dang s : WF s -> dang_ok s.
Proof. intros [L _] k st Hs Hc. pose proof (lwf_st _ _ L _ _ Hs) as Hok. unfold st_ok in Hok. rewrite Hc in Hok. by destruct Hok. Qed.
Lemma rdk_len s k o l st : dlen s -> sts s !! k = Some st -> o + l <= s_size st -> lenN (rdk (sts s) k o l) = l.
Proof. intros D Hs Hb. unfold rdk. rewrite Hs. apply lenN_rd. by rewrite (D _ _ Hs). Qed.
Lemma reserve_inner_view n al k o l c kd s e x' b s1 e1 : sfresh s -> dlen s -> dang_ok s -> typed (sts s) (HM k o l c kd) ->
  reserve_inner orc n al (HM k o l c kd) s e = OK (x', b) s1 e1 ->
  hs s1 = hs s /\ next_h s1 = next_h s /\ exists k1 o1 c1 kd1, x' = HM k1 o1 l c1 kd1 /\ rdk (sts s1) k1 o1 l = rdk (sts s) k o l /\ is_Some (sts s1 !! k1).
Proof.
  intros Fs D Hd Ht E. pose proof (hm_stor _ _ _ _ _ _ Ht) as Hst. destruct (hsm_run _ _ _ _ _ _ (hsm_reserve_inner orc n al _ s) E) as [H1 H2]. split; [done|]. split; [done|].
  unfold reserve_inner in E. destruct kd as [ocr|].
  - destruct Ht as (st & Hs & Hlv & Hcl & Hct & Hcap & Hle).
    destruct ((n <=? c - l + o) && (l <=? o)).
    + binvn E uu. destruct uu. apply mret_inv in E as ([= -> ->] & <- & _). destruct (move_front_inv _ _ _ _ _ _ _ D R) as (_ & _ & V & S). eauto 10.
    + destruct (negb al); [apply mret_inv in E as ([= -> ->] & <- & _); eauto 10|].
      binvn E pr. destruct pr as [k' vcap]. apply mret_inv in E as ([= -> ->] & <- & _).
      destruct (realloc_buf_inv _ _ _ _ _ _ _ _ _ _ Fs D R) as (_ & _ & S & V); [intros st' Hs'; rewrite Hs in Hs'; injection Hs' as <-; split; [lia|by apply (Hd k)]|lia|].
      exists k', o, (vcap - o), (MVec ocr). split; [done|]. split; [apply V; lia|done].
  - destruct Ht as (st & Hs & Hlv & Hcl & (ocr & rc & Hct) & Hb & Hle).
    destruct (usize_max <? l + n); [destruct al; [done|apply mret_inv in E as ([= -> ->] & <- & _); eauto 10]|].
    binvn E y. apply get_st_inv in R as (-> & -> & Hy). rewrite Hs in Hy. injection Hy as <-. rewrite Hct in E. destruct (rc =? 1).
    + destruct ((l + n + o <=? usize_max) && (l + n + o <=? s_size st)); [apply mret_inv in E as ([= -> ->] & <- & _); eauto 10|].
      destruct ((l + n <=? s_size st) && (l <=? o)).
      * binvn E uu. destruct uu. apply mret_inv in E as ([= -> ->] & <- & _). destruct (move_front_inv _ _ _ _ _ _ _ D R) as (_ & _ & V & S). eauto 10.
      * destruct (negb al); [apply mret_inv in E as ([= -> ->] & <- & _); eauto 10|]. destruct (usize_max <? l + n + o); [done|].
        binvn E pr. destruct pr as [k' vcap]. binv E. apply mret_inv in E as ([= -> ->] & <- & _).
        destruct (realloc_buf_inv _ _ _ _ _ _ _ _ _ _ Fs D R) as (_ & _ & S & V); [intros st' Hs'; rewrite Hs in Hs'; injection Hs' as <-; split; [lia|by apply (Hd k)]|lia|].
        unfold upd_st in R0. binvn R0 y. apply get_st_inv in R1 as (-> & -> & Hy). injection R0 as _ <- _.
        exists k', o, (vcap - o), MArc. split; [done|]. cbn [sts set_sts]. split; [|rewrite lookup_insert; by eexists].
        rewrite <- (V o l) by lia. unfold rdk. rewrite lookup_insert, Hy. done.
    + destruct (negb al); [apply mret_inv in E as ([= -> ->] & <- & _); eauto 10|].
      binv E. pose proof (mread_bound _ _ _ _ _ _ _ _ R) as Hbd. apply mread_inv in R as (-> & ->).
      binvn E k'. binv E. apply mret_inv in E as ([= -> ->] & <- & _).
      assert (lenN (rdk (sts s) k o l) = l) as Hlen by (eapply rdk_len; [done|done|lia]).
      assert (lenN (rdk (sts s) k o l) <= N.max (l + n) (ocr_from_repr ocr)) as Hll by lia.
      destruct (alloc_buf_inv _ _ _ _ _ _ _ Fs R Hll) as (_ & _ & _ & D1 & F1 & S1 & V1). rewrite Hlen in V1.
      pose proof (leff_run _ _ _ _ _ _ (leff_alloc_buf _ _ s) D R) as DL1. destruct (ckeep_release _ _ _ _ _ _ F1 DL1 R0) as (_ & _ & D2 & _).
      exists k', 0, (N.max (l + n) (ocr_from_repr ocr)), (MVec ocr). split; [done|]. split; [by rewrite (rdk_keep s0 s1)|by eapply dsame_some].
Qed.
Lemma realloc_need k oldcap keep need s e r s1 e1 : realloc_buf orc k oldcap keep need s e = OK r s1 e1 -> need <= isize_max.
Proof. unfold realloc_buf. destruct (isize_max <? need) eqn:E; [done|lia]. Qed.
Lemma alloc_size size init s e k s1 e1 : alloc_buf size init s e = OK k s1 e1 -> size <= isize_max.
Proof. unfold alloc_buf, mbind, mget. destruct (size =? 0) eqn:E0; [unfold isize_max; lia|]. destruct (isize_max <? size) eqn:E; [done|lia]. Qed.
Lemma reserve_inner_total n al k o l c kd s e x' s1 e1 : hsz s -> typed (sts s) (HM k o l c kd) ->
  reserve_inner orc n al (HM k o l c kd) s e = OK (x', true) s1 e1 -> l + n <= isize_max.
Proof.
  intros Hz Ht E. unfold reserve_inner in E. destruct kd as [ocr|].
  - destruct Ht as (st & Hs & Hlv & Hcl & Hct & Hcap & Hle). pose proof (Hz _ _ Hs Hcl) as Hsz.
    destruct ((n <=? c - l + o) && (l <=? o)) eqn:E1; [lia|].
    destruct (negb al); [by apply mret_inv in E as ([= _ ?] & _)|]. binvn E pr. apply realloc_need in R. lia.
  - destruct Ht as (st & Hs & Hlv & Hcl & (ocr & rc & Hct) & Hb & Hle). pose proof (Hz _ _ Hs Hcl) as Hsz.
    destruct (usize_max <? l + n); [destruct al; [done|by apply mret_inv in E as ([= _ ?] & _)]|].
    binvn E y. apply get_st_inv in R as (-> & -> & Hy). rewrite Hs in Hy. injection Hy as <-. rewrite Hct in E. destruct (rc =? 1).
    + destruct ((l + n + o <=? usize_max) && (l + n + o <=? s_size st)) eqn:E1; [lia|].
      destruct ((l + n <=? s_size st) && (l <=? o)) eqn:E2; [lia|].
      destruct (negb al); [by apply mret_inv in E as ([= _ ?] & _)|]. destruct (usize_max <? l + n + o); [done|]. binvn E pr. apply realloc_need in R. lia.
    + destruct (negb al); [by apply mret_inv in E as ([= _ ?] & _)|]. binv E. binvn E k'. apply alloc_size in R0. lia.
Qed.
Lemma m_reserve_view n k o l c kd s e x' s1 e1 : sfresh s -> dlen s -> dang_ok s -> hsz s -> typed (sts s) (HM k o l c kd) ->
  m_reserve orc n (HM k o l c kd) s e = OK x' s1 e1 ->
  hs s1 = hs s /\ next_h s1 = next_h s /\ sfresh s1 /\ dlen s1 /\ ((n <=? c - l) || (l + n <=? isize_max)) = true /\
  exists k1 o1 c1 kd1, x' = HM k1 o1 l c1 kd1 /\ n <= c1 - l /\ rdk (sts s1) k1 o1 l = rdk (sts s) k o l /\ is_Some (sts s1 !! k1).
Proof.
  intros Fs D Hd Hz Ht E. pose proof (hm_stor _ _ _ _ _ _ Ht) as Hst.
  assert (deff (fun _ => True) (m_reserve orc n (HM k o l c kd)) s) as Hde by (by apply deff_m_reserve). destruct (deff_run _ _ _ _ _ _ _ Hde Fs E) as [_ F1]. pose proof (leff_run _ _ _ _ _ _ (leff_m_reserve orc n _ s) D E) as D1.
  pose proof (reserve_post orc n _ s e _ _ _ E (hm_le _ _ _ _ _ _ Ht)) as [Hp1 Hp2].
  unfold m_reserve in E. destruct (n <=? c - l) eqn:E0.
  - apply mret_inv in E as (-> & <- & _). split_and!; try done. eauto 10.
  - binvn E pr. destruct pr as [x1 b]. apply mret_inv in E as (-> & <- & _).
    pose proof (reserve_inner_allocating _ _ _ _ _ _ _ _ _ R) as ->. pose proof (reserve_inner_total _ _ _ _ _ _ _ _ _ _ _ _ Hz Ht R) as Htot.
    destruct (reserve_inner_view _ _ _ _ _ _ _ _ _ _ _ _ _ Fs D Hd Ht R) as (H1 & H2 & k1 & o1 & c1 & kd1 & -> & V & S).
    split_and!; try done; [lia|]. cbn [h_len h_cap] in *. eauto 10.
Qed.
Lemma rdk_app sm k o l1 l2 : rdk sm k o (l1 + l2) = rdk sm k o l1 ++ rdk sm k (o + l1) l2.
Proof. unfold rdk. destruct (sm !! k); [apply rd_app|done]. Qed.
(* a write right behind the view: the handle grown by the written bytes reads old ++ new *)
Lemma write_behind k o l bs s e s1 e1 : dlen s -> mwrite k (o + l) bs s e = OK tt s1 e1 ->
  hs s1 = hs s /\ next_h s1 = next_h s /\ dlen s1 /\ rdk (sts s1) k o (l + lenN bs) = rdk (sts s) k o l ++ bs.
Proof.
  intros D E. destruct (mwrite_rdk _ _ _ _ _ _ _ D E) as (H1 & H2 & D1 & V1 & V2 & _). split_and!; try done.
  rewrite rdk_app. rewrite (V2 k o l) by (right; left; lia). f_equal. destruct (N.eq_dec (lenN bs) 0) as [Hz|Hnz]; [|by apply V1].
  rewrite Hz, rdk_zero. symmetry. by apply lenN_zero.
Qed.
Lemma m_extend_view d k o l c kd s e x2 s2 e2 : sfresh s -> dlen s -> dang_ok s -> hsz s -> typed (sts s) (HM k o l c kd) ->
  m_extend orc d (HM k o l c kd) s e = OK x2 s2 e2 ->
  hs s2 = hs s /\ next_h s2 = next_h s /\ sfresh s2 /\ dlen s2 /\ exists k1 o1 c1 kd1, x2 = HM k1 o1 (l + lenN d) c1 kd1 /\ rdk (sts s2) k1 o1 (l + lenN d) = rdk (sts s) k o l ++ d /\ is_Some (sts s2 !! k1).
Proof.
  intros Fs D Hd Hz Ht E. unfold m_extend in E. binvn E x1.
  destruct (m_reserve_view _ _ _ _ _ _ _ _ _ _ _ Fs D Hd Hz Ht R) as (H1 & H2 & F1 & D1 & _ & k1 & o1 & c1 & kd1 & -> & Hroom & V & S).
  binv E. apply mcheck_inv in R0 as (_ & -> & ->). binvn E uu. destruct uu. apply mret_inv in E as (-> & <- & _).
  destruct (write_behind _ _ _ _ _ _ _ _ D1 R0) as (H3 & H4 & D2 & V2). destruct (mwrite_rdk _ _ _ _ _ _ _ D1 R0) as (_ & _ & _ & _ & _ & S2).
  assert (deff (fun _ => True) (mwrite k1 (o1 + l) d) s0) as Hde by (by apply deff_mwrite). destruct (deff_run _ _ _ _ _ _ _ Hde F1 R0) as [_ F2].
  split; [congruence|]. split; [congruence|]. split; [done|]. split; [done|]. exists k1, o1, c1, kd1. split; [done|]. split; [by rewrite V2, V|by apply S2].
Qed.
Lemma ref_OMReserve h n s r s' e' : WF s -> dlen s -> hsz s -> op_ok s (OMReserve h n) -> run_op orc (OMReserve h n) s = OK r s' e' ->
  forall uniq, sstep (match hs s !! h with Some x => h_cap x | None => 0 end) uniq (OMReserve h n) (abs s) = SOk (abs s') r.
Proof.
  intros W D Hz Hok E uniq. hm_start W D Hok E F Hx L Hf Fs Hty k o l c kd. rewrite Hx. cbn [h_cap].
  pose proof (view_len s _ D Hty) as Hlen. cbn [h_len] in Hlen.
  cbn [sstep]. unfold with_b. rewrite (abs_lookup _ _ _ Hx). cbn [aval sv_kind kind_of sv_bytes]. rewrite Hlen.
  binv E. inv_get_h R. rewrite Hx in R. injection R as <-. binvn E x1.
  destruct (m_reserve_view _ _ _ _ _ _ _ _ _ _ _ Fs D (wf_dang _ W) Hz Hty R) as (H1 & H2 & F1 & D1 & Hc & k1 & o1 & c1 & kd1 & -> & Hroom & V & S).
  rewrite Hc. binv E. apply put_h_inv in R0 as (-> & _). apply mret_inv in E as (-> & -> & _).
  eapply (fin_keep _ s _ h _ (HM k1 o1 l c1 kd1) _ F ltac:(by intros ? ->) Hx); [by cbn [hs set_hs]; rewrite H1|done|done|]. cbn [sts set_hs]. by rewrite !view_hm.
Qed.
Lemma ref_OMExtend h d s r s' e' : WF s -> dlen s -> hsz s -> op_ok s (OMExtend h d) -> run_op orc (OMExtend h d) s = OK r s' e' ->
  forall cap uniq, sstep cap uniq (OMExtend h d) (abs s) = SOk (abs s') r.
Proof.
  intros W D Hz Hok E cap uniq. hm_start W D Hok E F Hx L Hf Fs Hty k o l c kd.
  cbn [sstep]. unfold with_b. rewrite (abs_lookup _ _ _ Hx). cbn [aval sv_kind kind_of sv_bytes].
  binv E. inv_get_h R. rewrite Hx in R. injection R as <-. binvn E x1.
  destruct (m_extend_view _ _ _ _ _ _ _ _ _ _ _ Fs D (wf_dang _ W) Hz Hty R) as (H1 & H2 & _ & _ & k1 & o1 & c1 & kd1 & -> & V & _).
  binv E. apply put_h_inv in R0 as (-> & _). apply mret_inv in E as (-> & -> & _).
  eapply (fin_upd _ s _ h _ _ _ _ F ltac:(by intros ? ->)); [by cbn [hs set_hs]; rewrite H1|done|done|]. cbn [sts set_hs]. by rewrite !view_hm.
Qed.
Lemma ref_OMWrite h i v s r s' e' : WF s -> dlen s -> op_ok s (OMWrite h i v) -> run_op orc (OMWrite h i v) s = OK r s' e' ->
  forall cap uniq, sstep cap uniq (OMWrite h i v) (abs s) = SOk (abs s') r.
Proof.
  intros W D Hok E cap uniq. hm_start W D Hok E F Hx L Hf Fs Hty k o l c kd.
  pose proof (view_len s _ D Hty) as Hlen. cbn [h_len] in Hlen.
  cbn [sstep]. unfold with_b. rewrite (abs_lookup _ _ _ Hx). cbn [aval sv_kind kind_of sv_bytes]. rewrite Hlen.
  binv E. inv_get_h R. rewrite Hx in R. injection R as <-. binv E. apply mret_inv in R as (-> & -> & ->). binv E. inv_assert R. rewrite Hb.
  binvn E uu. destruct uu. apply mret_inv in E as (-> & <- & _).
  destruct (mwrite_rdk _ _ _ _ _ _ _ D R) as (H1 & H2 & D1 & V1 & V2 & _). change (lenN [v]) with 1 in *.
  eapply (fin_upd _ s s' h (HM k o l c kd) _ _ _ F ltac:(by intros ? ->)); [by rewrite H1, (insert_id _ h)|done|done|].
  rewrite !view_hm. replace l with (i + (1 + (l - (i + 1)))) at 1 by lia. rewrite !rdk_app. rewrite V1 by lia. rewrite (V2 k o i) by (right; left; lia).
  rewrite (V2 k (o + i + 1) (l - (i + 1))) by (right; right; left; lia).
  rewrite (rdk_prefix _ _ _ l i) by lia. f_equal. f_equal. replace (o + i + 1) with (o + (i + 1)) by lia. apply rdk_suffix.
Qed.
Lemma ref_OMIntoVec h s r s' e' : WF s -> dlen s -> op_ok s (OMIntoVec h) -> run_op orc (OMIntoVec h) s = OK r s' e' -> forall cap uniq, sstep cap uniq (OMIntoVec h) (abs s) = SOk (abs s') r.
Proof.
  intros W D Hok E cap uniq. hm_start W D Hok E F Hx L Hf Fs Hty k o l c kd.
  binv E. inv_get_h R. rewrite Hx in R. injection R as <-. binv E. destruct (m_into_vec_view _ _ _ _ _ _ Fs D Hty R) as (Hh1 & Hn1 & K1 & V1).
  binv E. apply del_h_inv in R0 as (-> & _). binv E. apply new_h_inv in R0 as (-> & Hh & Hs & Hn & _). apply mret_inv in E as (-> & <- & _). cbn [hs set_hs next_h sts] in *.
  cbn [sstep]. unfold with_b. rewrite (abs_lookup _ _ _ Hx). cbn [aval sv_kind kind_of sv_bytes]. rewrite Hn1, Hh1 in *.
  eapply (fin_del_new _ s s' h _ _ _ F ltac:(by intros ? ->)); [done|done|done|]. by rewrite Hs.
Qed.
Lemma ref_OMTryReclaim h n s r s' e' : WF s -> dlen s -> op_ok s (OMTryReclaim h n) -> run_op orc (OMTryReclaim h n) s = OK r s' e' ->
  forall cap, exists uniq, sstep cap uniq (OMTryReclaim h n) (abs s) = SOk (abs s') r.
Proof.
  intros W D Hok E cap. hm_start W D Hok E F Hx L Hf Fs Hty k o l c kd.
  binv E. inv_get_h R. rewrite Hx in R. injection R as <-. binvn E pr. destruct pr as [x1 b]. binv E. apply put_h_inv in R0 as (-> & _). apply mret_inv in E as (-> & -> & _). exists b.
  cbn [sstep]. unfold with_b. rewrite (abs_lookup _ _ _ Hx). cbn [aval sv_kind kind_of sv_bytes].
  assert (hs s0 = hs s /\ next_h s0 = next_h s /\ exists k1 o1 c1 kd1, x1 = HM k1 o1 l c1 kd1 /\ rdk (sts s0) k1 o1 l = rdk (sts s) k o l) as (H1 & H2 & k1 & o1 & c1 & kd1 & -> & V).
  { unfold m_try_reclaim in R. destruct (n <=? c - l).
    - apply mret_inv in R as ([= -> ->] & <- & _). eauto 10.
    - destruct (reserve_inner_view _ _ _ _ _ _ _ _ _ _ _ _ _ Fs D (wf_dang _ W) Hty R) as (H1 & H2 & k1 & o1 & c1 & kd1 & -> & V & _). eauto 10. }
  eapply (fin_keep _ s _ h _ (HM k1 o1 l c1 kd1) _ F ltac:(by intros ? ->) Hx); [by cbn [hs set_hs]; rewrite H1|done|done|]. cbn [sts set_hs]. by rewrite !view_hm.
Qed.
Lemma ref_OMResize h n v s r s' e' : WF s -> dlen s -> hsz s -> op_ok s (OMResize h n v) -> run_op orc (OMResize h n v) s = OK r s' e' ->
  forall uniq, sstep (match hs s !! h with Some x => h_cap x | None => 0 end) uniq (OMResize h n v) (abs s) = SOk (abs s') r.
Proof.
  intros W D Hz Hok E uniq. hm_start W D Hok E F Hx L Hf Fs Hty k o l c kd. rewrite Hx. cbn [h_cap].
  pose proof (view_len s _ D Hty) as Hlen. cbn [h_len] in Hlen.
  cbn [sstep]. unfold with_b. rewrite (abs_lookup _ _ _ Hx). cbn [aval sv_kind kind_of sv_bytes]. rewrite Hlen.
  binv E. inv_get_h R. rewrite Hx in R. injection R as <-. binv E. apply mret_inv in R as (-> & -> & ->). destruct (n <? l) eqn:E1; [|destruct (n =? l) eqn:E2].
  - binv E. apply put_h_inv in R as (-> & _). apply mret_inv in E as (-> & -> & _). replace (n <=? l) with true by lia.
    eapply (fin_upd _ s _ h (HM k o n c kd) _ _ _ F ltac:(by intros ? ->)); [done|done|done|]. cbn [sts set_hs]. rewrite !view_hm. apply rdk_prefix. lia.
  - apply mret_inv in E as (-> & -> & _). replace (n <=? l) with true by lia. rewrite firstnN_all by lia.
    eapply (fin_upd _ s s h (HM k o l c kd) _ _ _ F ltac:(by intros ? ->)); [by rewrite (insert_id _ h)|done|done|done].
  - replace (n <=? l) with false by lia. binvn E x1.
    destruct (m_reserve_view _ _ _ _ _ _ _ _ _ _ _ Fs D (wf_dang _ W) Hz Hty R) as (H1 & H2 & F1 & D1 & Hc & k1 & o1 & c1 & kd1 & -> & Hroom & V & S).
    replace (l + (n - l)) with n in Hc by lia. rewrite Hc.
    binv E. apply put_h_inv in R0 as (-> & _). binv E. apply mret_inv in R0 as (-> & -> & _). binv E. apply mcheck_inv in R0 as (_ & -> & ->).
    binvn E uu. destruct uu. binv E. apply put_h_inv in R1 as (-> & _). apply mret_inv in E as (-> & -> & _).
    assert (dlen (set_hs <[h:=HM k1 o1 l c1 kd1]> s0)) as D1' by done.
    destruct (write_behind _ _ _ _ _ _ _ _ D1' R0) as (H3 & H4 & _ & V2). cbn [hs set_hs next_h sts] in *.
    assert (lenN (repeat v (N.to_nat (n - l))) = n - l) as Hrl by (rewrite lenN_repeat; lia). rewrite Hrl in V2. replace (l + (n - l)) with n in V2 by lia.
    eapply (fin_upd _ s _ h (HM k1 o1 n c1 kd1) _ _ _ F ltac:(by intros ? ->)); [by cbn [hs set_hs]; rewrite H3, H1, !insert_insert|by cbn [next_h set_hs]; rewrite H4|done|].
    cbn [sts set_hs]. by rewrite !view_hm, V2, V.
Qed.
Lemma abs_shape_upd_del o s s' h o2 yh : frame_post o s s' -> (forall h', tch o h' -> h' = h \/ h' = o2) -> hs s' = delete o2 (<[h := yh]> (hs s)) -> next_h s' = next_h s ->
  abs s' = {| vals := delete o2 (<[h := aval (sts s') yh]> (vals (abs s))); snext := next_h s |}.
Proof.
  intros F HT Hh Hn. unfold abs. rewrite Hn. f_equal. cbn [vals]. apply map_eq. intros h'. rewrite Hh, fmap_delete, !fmap_insert.
  destruct (decide (h' = o2)) as [->|Hne]; [by rewrite !lookup_delete|]. rewrite !lookup_delete_ne by done.
  destruct (decide (h' = h)) as [->|Hne2]; [by rewrite !lookup_insert|]. rewrite !lookup_insert_ne by done. apply (abs_frame o s s' h' F). intros Ht. apply HT in Ht as [?|?]; done.
Qed.
Lemma fin_upd_del o s s' h o2 yh K b r : frame_post o s s' -> (forall h', tch o h' -> h' = h \/ h' = o2) -> hs s' = delete o2 (<[h := yh]> (hs s)) -> next_h s' = next_h s ->
  kind_of yh = K -> view (sts s') yh = b -> SOk (sdel (sset (abs s) h K b) o2) r = SOk (abs s') r.
Proof. intros F HT Hh Hn <- <-. unfold sdel, sset. cbn [vals snext]. by rewrite (abs_shape_upd_del o s s' h o2 yh F HT Hh Hn). Qed.
Lemma ckeep_m_drop_rep x s e u s1 e1 : sfresh s -> dlen s -> m_drop_rep x s e = OK u s1 e1 -> ckeep s s1.
Proof. intros Fs D E. eapply (ckeep_run _ s e u s1 e1); try done; [apply hsm_m_drop_rep|apply deff_m_drop_rep|apply leff_m_drop_rep]. Qed.
Lemma ref_OMUnsplit h o2 s r s' e' : WF s -> dlen s -> hsz s -> op_ok s (OMUnsplit h o2) -> run_op orc (OMUnsplit h o2) s = OK r s' e' ->
  forall cap uniq, sstep cap uniq (OMUnsplit h o2) (abs s) = SOk (abs s') r.
Proof.
  intros W D Hz Hok E cap uniq. start W D Hok E F. destruct Hok as (Hne & (k & o & l & c & kd & Hx) & (k2 & ofs2 & l2 & c2 & kd2 & Hy)).
  pose proof W as [L Hf]. pose proof (lwf_fresh _ _ L) as Fs. pose proof (lwf_typed _ _ L _ _ Hx) as Hty. pose proof (lwf_typed _ _ L _ _ Hy) as Hty2.
  pose proof (hm_stor _ _ _ _ _ _ Hty) as Hst. pose proof (hm_stor _ _ _ _ _ _ Hty2) as Hst2. pose proof (hm_le _ _ _ _ _ _ Hty2) as Hle2.
  assert (forall h', tch (OMUnsplit h o2) h' -> h' = h \/ h' = o2) as HT by (by intros ?).
  cbn [sstep]. replace (Pos.eqb h o2) with false in * by (symmetry; by apply Pos.eqb_neq).
  unfold with_b. rewrite (abs_lookup _ _ _ Hx), (abs_lookup _ _ _ Hy). cbn [aval sv_kind kind_of sv_bytes].
  binv E. inv_get_h R. rewrite Hx in R. injection R as <-. binv E. apply mret_inv in R as (-> & -> & ->).
  binv E. inv_get_h R. rewrite Hy in R. injection R as <-. binv E. apply mret_inv in R as (-> & -> & ->).
  destruct (l =? 0) eqn:El; [|destruct (c2 =? 0) eqn:Ec2].
  - binv E. pose proof (ckeep_m_drop_rep _ _ _ _ _ _ Fs D R) as C1. pose proof C1 as (H1 & H2 & _). binv E. apply put_h_inv in R0 as (-> & _). binv E. apply del_h_inv in R0 as (-> & _). apply mret_inv in E as (-> & -> & _).
    eapply (fin_upd_del _ s _ h o2 (HM k2 ofs2 l2 c2 kd2) _ _ _ F HT); [by cbn [hs set_hs]; rewrite H1|by cbn [next_h set_hs]; rewrite H2|done|].
    cbn [sts set_hs]. rewrite !view_hm. rewrite (ckeep_rdk _ _ _ _ _ C1 Hst2). replace l with 0 by lia. by rewrite rdk_zero.
  - binv E. pose proof (ckeep_m_drop_rep _ _ _ _ _ _ Fs D R) as C1. pose proof C1 as (H1 & H2 & _). binv E. apply del_h_inv in R0 as (-> & _). apply mret_inv in E as (-> & -> & _).
    eapply (fin_upd_del _ s _ h o2 (HM k o l c kd) _ _ _ F HT); [by cbn [hs set_hs]; rewrite H1, (insert_id _ h)|by cbn [next_h set_hs]; rewrite H2|done|].
    cbn [sts set_hs]. rewrite !view_hm. rewrite (ckeep_rdk _ _ _ _ _ C1 Hst). replace l2 with 0 by lia. by rewrite rdk_zero, app_nil_r.
  - assert (forall s1 e1, (let! bs := mread k2 ofs2 l2 in let! x1 := m_extend orc bs (HM k o l c kd) in put_h h x1;; m_drop_rep (HM k2 ofs2 l2 c2 kd2);; del_h o2;; mret RUnit) s [] = OK r s1 e1 -> frame_post (OMUnsplit h o2) s s1 ->
      SOk (sdel (sset (abs s) h KM (view (sts s) (HM k o l c kd) ++ view (sts s) (HM k2 ofs2 l2 c2 kd2))) o2) RUnit = SOk (abs s1) r) as Hcopy.
    { intros s1 e1 E' F'. binv E'. pose proof (mread_bound _ _ _ _ _ _ _ _ R) as Hbd. apply mread_inv in R as (-> & ->).
      assert (lenN (rdk (sts s) k2 ofs2 l2) = l2) as Hlen2. { destruct Hbd as [->|(st & Hs & Hb)]; [by rewrite rdk_zero|]. by eapply rdk_len. }
      binvn E' x1. destruct (m_extend_view _ _ _ _ _ _ _ _ _ _ _ Fs D (wf_dang _ W) Hz Hty R) as (H1 & H2 & F1 & D1 & k1 & o1 & c1 & kd1 & -> & V & S1). rewrite Hlen2 in *.
      binv E'. apply put_h_inv in R0 as (-> & _). binv E'. assert (sfresh (set_hs <[h:=HM k1 o1 (l + l2) c1 kd1]> s0)) as F1' by done. assert (dlen (set_hs <[h:=HM k1 o1 (l + l2) c1 kd1]> s0)) as D1' by done.
      pose proof (ckeep_m_drop_rep _ _ _ _ _ _ F1' D1' R0) as C1. pose proof C1 as (H3 & H4 & D2 & _).
      binv E'. apply del_h_inv in R1 as (-> & _). apply mret_inv in E' as (-> & -> & _).
      eapply (fin_upd_del _ s _ h o2 (HM k1 o1 (l + l2) c1 kd1) _ _ _ F' HT); [by cbn [hs set_hs]; rewrite H3; cbn [hs set_hs]; rewrite H1|by cbn [next_h set_hs]; rewrite H4; cbn [next_h set_hs]|done|].
      cbn [sts set_hs]. rewrite !view_hm. rewrite (rdk_keep _ _ _ _ _ D2) by done. cbn [sts set_hs]. done. }
    destruct kd, kd2; try (by eapply Hcopy). destruct (Pos.eqb k k2 && (o + l =? ofs2)) eqn:Eadj; [|by eapply Hcopy].
    apply andb_prop in Eadj as [Ek Eo]. apply Pos.eqb_eq in Ek as <-. assert (ofs2 = o + l) as -> by lia.
    binv E. apply put_h_inv in R as (-> & _). binv E. assert (sfresh (set_hs <[h:=HM k o (l + l2) (c + c2) MArc]> s)) as Fs' by done. assert (dlen (set_hs <[h:=HM k o (l + l2) (c + c2) MArc]> s)) as D' by done.
    pose proof (ckeep_m_drop_rep _ _ _ _ _ _ Fs' D' R) as C1. pose proof C1 as (H1 & H2 & _). binv E. apply del_h_inv in R0 as (-> & _). apply mret_inv in E as (-> & -> & _).
    eapply (fin_upd_del _ s _ h o2 (HM k o (l + l2) (c + c2) MArc) _ _ _ F HT); [by cbn [hs set_hs]; rewrite H1|by cbn [next_h set_hs]; rewrite H2|done|].
    cbn [sts set_hs]. rewrite !view_hm. rewrite (ckeep_rdk _ _ _ _ _ C1) by done. cbn [sts set_hs]. apply rdk_app.
Qed.
(* ---- Extend<u8> from an iterator: reserve(lower bound), then one put_u8 per item ---- *)
Section Iter.
Hypothesis Ho : oracle_sane orc.
Variables (h : hid) (s : hst).
Definition IterInv (bs : list byte) (s1 : hst) : Prop :=
  WF s1 /\ dlen s1 /\ hsz s1 /\ next_h s1 = next_h s /\ exists y, hs s1 = <[h := y]> (hs s) /\ kind_of y = KM /\ view (sts s1) y = bs.
Definition iter_body (b : byte) : M unit := let! y := get_h h in let! y1 := m_extend orc [b] y in put_h h y1.
Lemma iter_step bs b s1 e u s2 e2 : IterInv bs s1 -> iter_body b s1 e = OK u s2 e2 -> IterInv (bs ++ [b]) s2.
Proof.
  intros (W & D & Hz & Hn & y & Hh & Hk & Hv) E. assert (hs s1 !! h = Some y) as Hy by (rewrite Hh; apply lookup_insert).
  destruct y as [|k o l c kd|]; try done. pose proof W as [L Hf]. pose proof (lwf_fresh _ _ L) as Fs. pose proof (lwf_typed _ _ L _ _ Hy) as Hty.
  pose proof (extend_step_frame orc h b s1 s1 ltac:(split; [done|split; [done|split; [by exists k, o, l, c, kd|apply fr1_refl]]]) e) as Hl. unfold iter_body in E. rewrite E in Hl. destruct Hl as (W2 & D2 & _ & _).
  binv E. inv_get_h R. rewrite Hy in R. injection R as <-. binvn E x2.
  destruct (m_extend_view _ _ _ _ _ _ _ _ _ _ _ Fs D (wf_dang _ W) Hz Hty R) as (H1 & H2 & F2 & _ & k1 & o1 & c1 & kd1 & -> & V & _).
  pose proof (zeff_m_extend orc Ho [b] (HM k o l c kd) s1 Hz e) as Hz2. rewrite R in Hz2. apply put_h_inv in E as (-> & _).
  split; [done|]. split; [done|]. split; [done|]. split; [cbn [next_h set_hs]; congruence|]. exists (HM k1 o1 (l + lenN [b]) c1 kd1). cbn [hs set_hs sts].
  split; [by rewrite H1, Hh, insert_insert|]. split; [done|]. rewrite view_hm, V. by rewrite view_hm in Hv; rewrite Hv.
Qed.
Lemma iter_loop d : forall (acc : M unit) bs s0 e0, (forall u s1 e1, acc s0 e0 = OK u s1 e1 -> IterInv bs s1) ->
  forall u s' e', fold_left (fun (acc : M unit) b => acc;; iter_body b) d acc s0 e0 = OK u s' e' -> IterInv (bs ++ d) s'.
Proof.
  induction d as [|b d IH]; intros acc bs s0 e0 Hacc u s' e' E; cbn [fold_left] in E.
  - rewrite app_nil_r. by eapply Hacc.
  - replace (bs ++ b :: d) with ((bs ++ [b]) ++ d) by (by rewrite <- app_assoc). eapply (IH _ (bs ++ [b]) s0 e0); [|exact E].
    intros u1 s1 e1 E1. binv E1. eapply iter_step; [by eapply Hacc|done].
Qed.
End Iter.
Lemma ref_OMExtendIter h d hint s r s' e' : oracle_sane orc -> WF s -> dlen s -> hsz s -> op_ok s (OMExtendIter h d hint) -> run_op orc (OMExtendIter h d hint) s = OK r s' e' ->
  forall uniq, sstep (match hs s !! h with Some x => h_cap x | None => 0 end) uniq (OMExtendIter h d hint) (abs s) = SOk (abs s') r.
Proof.
  intros Ho W D Hz Hok E uniq. hm_start W D Hok E F Hx L Hf Fs Hty k o l c kd. rewrite Hx. cbn [h_cap].
  pose proof (view_len s _ D Hty) as Hlen. cbn [h_len] in Hlen.
  cbn [sstep]. unfold with_b. rewrite (abs_lookup _ _ _ Hx). cbn [aval sv_kind kind_of sv_bytes]. rewrite Hlen.
  binv E. inv_get_h R. rewrite Hx in R. injection R as <-. binvn E x0.
  destruct (m_reserve_view _ _ _ _ _ _ _ _ _ _ _ Fs D (wf_dang _ W) Hz Hty R) as (H1 & H2 & F1 & D1 & Hc & k1 & o1 & c1 & kd1 & -> & Hroom & V & S).
  rewrite Hc. binv E. apply put_h_inv in R0 as (-> & _). binvn E uu. apply mret_inv in E as (-> & <- & _).
  assert (IterInv h s (view (sts s) (HM k o l c kd)) (set_hs <[h:=HM k1 o1 l c1 kd1]> s0)) as HI.
  { assert (hstep orc (OMReserve h hint) s [] = OK RUnit (set_hs <[h:=HM k1 o1 l c1 kd1]> s0) e) as Er.
    { cbn [hstep]. unfold mbind at 1, get_h. rewrite Hx. unfold mbind at 1. rewrite R. done. }
    pose proof (all_wfstep orc (OMReserve h hint) s W ltac:(by exists k, o, l, c, kd) []) as Hw. rewrite Er in Hw.
    pose proof (zeff_hstep orc Ho (OMReserve h hint) s Hz []) as Hz1. rewrite Er in Hz1.
    split; [done|]. split; [done|]. split; [done|]. split; [done|]. exists (HM k1 o1 l c1 kd1). cbn [hs set_hs sts]. split; [by rewrite H1|]. split; [done|]. by rewrite !view_hm. }
  pose proof (iter_loop Ho h s d (mret tt) _ _ _ ltac:(intros ? ? ? [= _ <- _]; exact HI) _ _ _ R0) as (W' & D' & Hz' & Hn' & y & Hh' & Hk' & Hv').
  eapply (fin_upd _ s s' h y _ _ _ F ltac:(by intros ? ->)); done.
Qed.
End Ops.

(* ---- the refinement theorem ---- *)
(* the capacity the concrete handle reports, for the operations whose contract mentions it *)
Definition cap_of (s : hst) (o : op) : N :=
  match o with
  | OMSplitOff h _ | OMReserve h _ | OMResize h _ _ | OMExtendIter h _ _ => match hs s !! h with Some x => h_cap x | None => 0 end
  | _ => 0
  end.
Theorem m2_refines_m1 orc o s r s' e' : oracle_sane orc -> WF s -> dlen s -> hsz s -> op_ok s o -> run_op orc o s = OK r s' e' ->
  exists uniq, sstep (cap_of s o) uniq o (abs s) = SOk (abs s') r.
Proof.
  intros Ho W D Hz Hok E. destruct o; cbn [cap_of].
  - exists false. by eapply ref_OBNew.
  - exists false. by eapply ref_OBFromStatic.
  - exists false. by eapply ref_OBFromVec.
  - exists false. by eapply ref_OBFromOwner.
  - exists false. by eapply ref_OMNew.
  - exists false. by eapply ref_OMWithCapacity.
  - exists false. by eapply ref_OMZeroed.
  - exists false. by eapply ref_OMFromSlice.
  - exists false. by eapply ref_OBClone.
  - exists false. by eapply ref_OBSlice.
  - exists false. by eapply ref_OBSliceIncl.
  - exists false. by eapply ref_OBSliceRef.
  - exists false. by eapply ref_OBSplitOff.
  - exists false. by eapply ref_OBSplitTo.
  - exists false. by eapply ref_OBTruncate.
  - exists false. by eapply ref_OBClear.
  - exists false. by eapply ref_OBAdvance.
  - by eapply ref_OBIsUnique.
  - by eapply ref_OBTryIntoMut.
  - exists false. by eapply ref_OBIntoMut.
  - exists false. by eapply ref_OBIntoVec.
  - exists false. by eapply ref_OBDrop.
  - exists false. by eapply ref_OMSplitOff.
  - exists false. by eapply ref_OMSplitTo.
  - exists false. by eapply ref_OMSplit.
  - exists false. by eapply ref_OMTruncate.
  - exists false. by eapply ref_OMClear.
  - exists false. by eapply ref_OMResize.
  - exists false. by eapply ref_OMReserve.
  - by eapply ref_OMTryReclaim.
  - exists false. by eapply ref_OMExtend.
  - exists false. by eapply ref_OMExtendIter.
  - exists false. by eapply ref_OMWrite.
  - exists false. by eapply ref_OMUnsplit.
  - exists false. by eapply ref_OMFreeze.
  - exists false. by eapply ref_OMIntoVec.
  - exists false. by eapply ref_OMAdvance.
  - exists false. by eapply ref_OMClone.
  - exists false. by eapply ref_OMDrop.
  - exists false. by eapply ref_OVIntoBytes.
  - exists false. by eapply ref_OVDrop.
Qed.
(* every reachable state of every history (any length, any sane oracle, both address parities) *)
Theorem m2_refines_m1_reachable orcs n s o r s' e' : (forall i, oracle_sane (orcs i)) -> reach orcs n s -> op_ok s o -> run_op (orcs n) o s = OK r s' e' ->
  exists uniq, sstep (cap_of s o) uniq o (abs s) = SOk (abs s') r.
Proof. intros Ho Hr. eapply m2_refines_m1; [done|by eapply reach_wf|by eapply reach_dlen|by eapply reach_hsz]. Qed.
(* whole histories: the abstraction of the state M2 reaches is the state M1 reaches on the same operations *)
Lemma abs0 odd : abs (hst0 odd) = sst0.
Proof. unfold abs, hst0, sst0. cbn. by rewrite fmap_empty. Qed.

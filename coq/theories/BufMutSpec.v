(* The readable specification the BufMut laws are stated against.  `wr bs t` is the target tree after it has
   accepted the bytes bs: in a chain the first half takes what it has room for and the second half the rest (C12),
   every Limit drops by the number of bytes that went through it, fixed regions keep their untouched tail;
   capacities of growable leaves are policy (oracle) and erased by `ecap` before comparing. *)
From BV Require Import Base BufMut.
Local Open Scope N_scope.

(* room without the saturation of remaining_mut's usize arithmetic *)
Fixpoint roomZ (t : tgt) : N :=
  match t with
  | TLeaf l => tleaf_remaining_mut l
  | ChainM a b => roomZ a + roomZ b
  | LimitM n x => N.min (roomZ x) n
  | FwdM x => roomZ x
  end.
Definition tleaf_wr (bs : list byte) (l : tleaf) : tleaf :=
  match l with
  | TVec d c => TVec (d ++ bs) c
  | TBytesMut d c => TBytesMut (d ++ bs) c
  | TSlice w r => TSlice (w ++ bs) (skipN (lenN bs) r)
  | TUninit w r => TUninit (w ++ bs) (skipN (lenN bs) r)
  end.
Fixpoint wr (bs : list byte) (t : tgt) : tgt :=
  match t with
  | TLeaf l => TLeaf (tleaf_wr bs l)
  | ChainM a b => let ka := N.min (lenN bs) (roomZ a) in ChainM (wr (firstnN ka bs) a) (wr (skipN ka bs) b)
  | LimitM n x => LimitM (n - lenN bs) (wr bs x)
  | FwdM x => FwdM (wr bs x)
  end.
Definition tleaf_ecap (l : tleaf) : tleaf := match l with TVec d _ => TVec d 0 | TBytesMut d _ => TBytesMut d 0 | x => x end.
Fixpoint ecap (t : tgt) : tgt :=
  match t with TLeaf l => TLeaf (tleaf_ecap l) | ChainM a b => ChainM (ecap a) (ecap b) | LimitM n x => LimitM n (ecap x) | FwdM x => FwdM (ecap x) end.
(* the contiguous writable chunk chunk_mut hands out when no growth is needed *)
Definition tleaf_spare (l : tleaf) : N := match l with TVec d c | TBytesMut d c => c - lenN d | TSlice _ r | TUninit _ r => lenN r end.
Fixpoint spare (t : tgt) : N :=
  match t with
  | TLeaf l => tleaf_spare l
  | ChainM a b => if roomZ a =? 0 then spare b else spare a
  | LimitM n x => N.min (spare x) n
  | FwdM x => spare x
  end.
(* well-formedness + head room: every growable leaf can take k more bytes plus one chunk_mut growth step R without
   exceeding isize::MAX (beyond that Vec::reserve panics with "capacity overflow", which is outside the laws) *)
Fixpoint headroom (R k : N) (t : tgt) : Prop :=
  match t with
  | TLeaf (TVec d c) | TLeaf (TBytesMut d c) => lenN d <= c /\ c <= isize_max /\ lenN d + k + R <= isize_max
  | TLeaf (TSlice _ r) | TLeaf (TUninit _ r) => lenN r <= isize_max
  | ChainM a b => headroom R k a /\ headroom R k b
  | LimitM _ x | FwdM x => headroom R k x
  end.
Fixpoint chain_free (t : tgt) : Prop :=
  match t with TLeaf _ => True | ChainM _ _ => False | LimitM _ x | FwdM x => chain_free x end.

(* Extraction of the executable models for the correspondence runner `modelrun`.
   Directives used: exactly those of ExtrOcamlBasic (bool, option, unit, list, prod, sumbool,
   sumor to their OCaml counterparts); N, Z, positive, nat, ascii, string stay extracted inductives. *)
Require Extraction.
Require ExtrOcamlBasic.
From Coq Require Import List NArith ZArith String.
From BV Require Import Base Fmt Gen.Escapes Buf Codec Get Gen.GetPut Cmp BufMut Heap Spec Recycle Adversary EntryDef.
Extraction Language OCaml.
Extraction "model.ml"
  Fmt.parse_lit Fmt.debug_fmt Fmt.hex_fmt Fmt.unhex Fmt.tbl_of Fmt.visit Fmt.serialize Fmt.is_lower_hex Fmt.is_upper_hex
  Gen.Escapes.bytes_debug_codes Gen.Escapes.bytesmut_debug_codes Gen.Escapes.bytes_lower_codes
  Gen.Escapes.bytesmut_lower_codes Gen.Escapes.bytes_upper_codes Gen.Escapes.bytesmut_upper_codes
  N.of_nat N.to_nat N.add N.mul N.eqb N.compare N.leb N.ltb N.sub N.min Z.of_N
  Base.lenN Base.firstnN Base.skipN Base.usize_max
  Buf.den Buf.remaining Buf.has_remaining Buf.chunk Buf.advance Buf.cv Buf.copy_to_slice Buf.try_copy_to_slice_d
  Buf.copy_to_bytes Buf.iter_take Buf.reader_read Buf.set_limit_at
  BufMut.written BufMut.remaining_mut BufMut.has_remaining_mut BufMut.chunk_mut BufMut.advance_mut BufMut.put_slice BufMut.put_bytes
  BufMut.put_buf BufMut.put BufMut.put_tables_ok BufMut.writer_write BufMut.set_limit_at_m BufMut.std_grow BufMut.tleaf_written
  Gen.GetPut.vec_reserve Gen.GetPut.bytesmut_reserve
  Heap.hst0 Heap.run_op Heap.handles_of Heap.storages_of Heap.owners_of Heap.handle_unique Heap.handle_contents
  Spec.sst0 Spec.sstep Spec.svals_of
  EntryDef.expand EntryDef.view1 EntryDef.view2
  Recycle.bound Recycle.run Recycle.init
  Adversary.k0 Adversary.try_get_fixed Adversary.try_get_u8 Adversary.xtry_copy_to_slice Adversary.xcopy_to_slice Adversary.xcopy_to_bytes
  Adversary.xreader_read Adversary.xiter_next Adversary.bm_put Adversary.vec_put Adversary.sl_put Adversary.take_chunks_vectored Adversary.bm_extend_iter Adversary.from_owner
  Cmp.cmp_bytes Cmp.eq_bytes
  Codec.dec Codec.spec_of_getter Codec.spec_of_putter Codec.enc
  Get.get Get.tables_ok
  Gen.GetPut.getters Gen.GetPut.putters Gen.GetPut.buf_forward Gen.GetPut.bufmut_forward Gen.GetPut.take_len.

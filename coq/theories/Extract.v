(* Extraction of the executable models for the correspondence runner `modelrun`.
   Directives used: exactly those of ExtrOcamlBasic (bool, option, unit, list, prod, sumbool,
   sumor to their OCaml counterparts); N, Z, positive, nat, ascii stay extracted inductives. *)
Require Extraction.
Require ExtrOcamlBasic.
From Coq Require Import List NArith.
From BV Require Import Fmt Gen.Escapes.
Extraction Language OCaml.
Extraction "model.ml"
  Fmt.parse_lit Fmt.debug_fmt Fmt.hex_fmt Fmt.unhex Fmt.tbl_of Fmt.visit Fmt.serialize Fmt.is_lower_hex Fmt.is_upper_hex
  Gen.Escapes.bytes_debug_codes Gen.Escapes.bytesmut_debug_codes Gen.Escapes.bytes_lower_codes
  Gen.Escapes.bytesmut_lower_codes Gen.Escapes.bytes_upper_codes Gen.Escapes.bytesmut_upper_codes
  N.of_nat N.to_nat N.add N.mul N.eqb N.compare.

(* M7 (comparison half): the slice-level meaning of ==, partial_cmp/cmp on byte strings, and the
   obligation that every comparison impl found in the source is one the correspondence engine exercises. *)
From BV Require Import Base.
From Coq Require Import String.
Local Open Scope N_scope.

Fixpoint cmp_bytes (x y : list byte) : comparison :=
  match x, y with
  | [], [] => Eq
  | [], _ :: _ => Lt
  | _ :: _, [] => Gt
  | a :: x', b :: y' => match a ?= b with Eq => cmp_bytes x' y' | c => c end
  end.
Definition eq_bytes (x y : list byte) : bool := match cmp_bytes x y with Eq => true | _ => false end.

(* impl headers: (trait, Self type, Rhs type or "" ) as strings *)
Definition impl := (string * string * string)%type.
Definition impl_eqb (a b : impl) : bool :=
  let '(t1, s1, r1) := a in let '(t2, s2, r2) := b in String.eqb t1 t2 && String.eqb s1 s2 && String.eqb r1 r2.
Definition covered (harness_table : list impl) (i : impl) : bool := existsb (impl_eqb i) harness_table.
Definition all_covered (source_impls harness_table : list impl) : bool := forallb (covered harness_table) source_impls.

(* M2: representation-level model of src/bytes.rs and src/bytes_mut.rs.
   A block memory organised per STORAGE (one byte buffer + the control block managing it, if any); handles are the
   crate's structs with pointers as (storage id, offset).  Every function of the two files that touches
   representation is transliterated branch for branch, in source order.  Definitions only (executable). *)
From stdpp Require Import gmap.
From Coq Require Import NArith String.
From BV Require Import Base BufMut.
Local Open Scope string_scope.
Local Open Scope N_scope.

Notation sid := positive (only parsing).
Notation hid := positive (only parsing).
Notation oid := positive (only parsing).

(* ---- constants of bytes_mut.rs (64-bit target) ---- *)
Definition MAX_ORIG_CAP_WIDTH : N := 17.
Definition MIN_ORIG_CAP_WIDTH : N := 10.
Definition MAX_VEC_POS : N := N.shiftr usize_max 5.
Definition bitlen (n : N) : N := match n with 0 => 0 | N.pos p => N.succ (N.log2 (N.pos p)) end.
Definition ocr_to_repr (cap : N) : N := N.min (bitlen (N.shiftr cap MIN_ORIG_CAP_WIDTH)) (MAX_ORIG_CAP_WIDTH - MIN_ORIG_CAP_WIDTH).
Definition ocr_from_repr (r : N) : N := if r =? 0 then 0 else N.shiftl 1 (r + (MIN_ORIG_CAP_WIDTH - 1)).

(* ---- memory ---- *)
Inductive scls := SHeap | SStatic | SOwnerMem | SDangling.     (* SDangling: the pointer of a zero-capacity Vec: never allocated or freed *)
Inductive ctrl :=
| CNone
| CShared (cap : N) (rc : N)                        (* bytes.rs  struct Shared { buf, cap, ref_cnt } *)
| CSharedV (vcap : N) (ocr : N) (rc : N)            (* bytes_mut.rs struct Shared { vec, original_capacity_repr, ref_count }; vec.ptr = storage base *)
| CSharedVEmpty (ocr : N) (rc : N)                  (* ... after mem::replace(&mut shared.vec, Vec::new()) *)
| COwned (rc : N) (owner : oid).                    (* Owned<T> { OwnedLifetime { ref_cnt, drop }, owner } *)
Record storage := { s_size : N; s_data : list byte; s_live : bool; s_odd : bool; s_cls : scls; s_ctrl : ctrl }.
Record owner := { o_dropped : bool; o_asref : N; o_drops : N; o_mem : sid }.

Inductive bvt := VStatic | VOwned | VPromEven | VPromOdd | VShared | VSharedV.
Inductive mkind := MVec (ocr : N) | MArc.
Inductive handle :=
| HB (s : option sid) (ofs len : N) (vt : bvt) (arc : bool)     (* Bytes {ptr, len, data, vtable}; arc = KIND bit of the data cell *)
| HM (s : sid) (ofs len cap : N) (k : mkind)                   (* BytesMut {ptr, len, cap, data} *)
| HV (s : sid) (len cap : N).                                  (* Vec<u8> handed out by the crate / handed in by the user *)

Inductive ev :=
| EAlloc (s : sid) (size : N) | EFree (s : sid) (size : N) | ERealloc (old new : sid) (size : N)
| EAllocCtrl | EFreeCtrl | EOwnerDrop (o : oid) | EOwnerAsRef (o : oid).

Record hst := { sts : gmap sid storage; hs : gmap hid handle; owners : gmap oid owner;
                next_real : positive; next_pseudo : positive; next_h : positive; next_o : positive; odd_mode : bool }.
Definition hst0 (odd : bool) : hst := {| sts := ∅; hs := ∅; owners := ∅; next_real := 1; next_pseudo := 1; next_h := 1; next_o := 1; odd_mode := odd |}.

(* oracle inputs of one step: what std / the allocator decided (DESIGN §2.2) *)
Record oracle := { or_caps : list N }.    (* the capacities std's Vec::reserve delivered in this step (observed); see or_pick *)
(* capacity delivered for a request of `need` bytes: the smallest observed one that satisfies it *)
Definition or_pick (orc : oracle) (need : N) : N := fold_left (fun acc c => if (need <=? c) && ((acc <? need) || (c <? acc)) then c else acc) (or_caps orc) 0.

(* ---- outcome monad ---- *)
Inductive out (A : Type) := OK (a : A) (s : hst) (e : list ev) | PANIC (s : hst) (e : list ev) | UB (why : string).
Arguments OK {A} a s e. Arguments PANIC {A} s e. Arguments UB {A} why.
Definition M (A : Type) := hst -> list ev -> out A.
Definition mret {A} (a : A) : M A := fun s e => OK a s e.
Definition mbind {A B} (m : M A) (f : A -> M B) : M B := fun s e => match m s e with OK a s' e' => f a s' e' | PANIC s' e' => PANIC s' e' | UB w => UB w end.
Definition mpanic {A} : M A := fun s e => PANIC s e.
Definition mub {A} (w : string) : M A := fun _ _ => UB w.
Definition mget : M hst := fun s e => OK s s e.
Definition mput (s : hst) : M unit := fun _ e => OK tt s e.
Definition emit (x : ev) : M unit := fun s e => OK tt s (e ++ [x]).
Notation "'let!' x := m 'in' k" := (mbind m (fun x => k)) (at level 200, x pattern, m at level 100, k at level 200, right associativity).
Notation "m ;; k" := (mbind m (fun _ => k)) (at level 100, k at level 200, right associativity).
Definition massert (b : bool) : M unit := if b then mret tt else mpanic.
Definition mcheck (b : bool) (w : string) : M unit := if b then mret tt else mub w.

Definition set_sts (f : gmap sid storage -> gmap sid storage) (s : hst) : hst :=
  {| sts := f (sts s); hs := hs s; owners := owners s; next_real := next_real s; next_pseudo := next_pseudo s; next_h := next_h s; next_o := next_o s; odd_mode := odd_mode s |}.
Definition set_hs (f : gmap hid handle -> gmap hid handle) (s : hst) : hst :=
  {| sts := sts s; hs := f (hs s); owners := owners s; next_real := next_real s; next_pseudo := next_pseudo s; next_h := next_h s; next_o := next_o s; odd_mode := odd_mode s |}.
Definition set_owners (f : gmap oid owner -> gmap oid owner) (s : hst) : hst :=
  {| sts := sts s; hs := hs s; owners := f (owners s); next_real := next_real s; next_pseudo := next_pseudo s; next_h := next_h s; next_o := next_o s; odd_mode := odd_mode s |}.

Definition get_st (k : sid) : M storage := fun s e => match sts s !! k with Some x => OK x s e | None => UB "unknown storage" end.
Definition put_st (k : sid) (x : storage) : M unit := fun s e => OK tt (set_sts (<[k := x]>) s) e.
Definition upd_st (k : sid) (f : storage -> storage) : M unit := let! x := get_st k in put_st k (f x).
Definition with_ctrl (c : ctrl) (x : storage) : storage := {| s_size := s_size x; s_data := s_data x; s_live := s_live x; s_odd := s_odd x; s_cls := s_cls x; s_ctrl := c |}.
Definition with_data (d : list byte) (x : storage) : storage := {| s_size := s_size x; s_data := d; s_live := s_live x; s_odd := s_odd x; s_cls := s_cls x; s_ctrl := s_ctrl x |}.
Definition dead (x : storage) : storage := {| s_size := s_size x; s_data := s_data x; s_live := false; s_odd := s_odd x; s_cls := s_cls x; s_ctrl := CNone |}.

(* reads / writes through raw pointers: bounds and liveness are the unsafe preconditions *)
Definition rd (d : list byte) (ofs len : N) : list byte := firstnN len (skipN ofs d).
Definition wr_at (d : list byte) (ofs : N) (bs : list byte) : list byte := firstnN ofs d ++ bs ++ skipN (ofs + lenN bs) d.
Definition mread (k : sid) (ofs len : N) : M (list byte) :=
  if len =? 0 then mret [] else
  let! x := get_st k in
  mcheck (s_live x) "read of a freed block";; mcheck (ofs + len <=? s_size x) "read outside the allocation";; mret (rd (s_data x) ofs len).
Definition mwrite (k : sid) (ofs : N) (bs : list byte) : M unit :=
  if lenN bs =? 0 then mret tt else
  let! x := get_st k in
  mcheck (s_live x) "write to a freed block";; mcheck (ofs + lenN bs <=? s_size x) "write outside the allocation";;
  mcheck (match s_cls x with SHeap => true | _ => false end) "write to static / owner memory";;
  put_st k (with_data (wr_at (s_data x) ofs bs) x).

(* allocation of a byte buffer of exactly `size` bytes holding `init` (padded with zeros: uninitialised contents are not observable) *)
Definition pad (init : list byte) (size : N) : list byte := firstnN size (init ++ repeat 0 (N.to_nat (size - lenN init))).
Definition alloc_buf (size : N) (init : list byte) : M sid :=
  let! s := mget in
  if size =? 0 then
    let k := xI (next_pseudo s) in
    mput {| sts := <[k := {| s_size := 0; s_data := []; s_live := true; s_odd := true; s_cls := SDangling; s_ctrl := CNone |}]> (sts s); hs := hs s; owners := owners s;
            next_real := next_real s; next_pseudo := Pos.succ (next_pseudo s); next_h := next_h s; next_o := next_o s; odd_mode := odd_mode s |};; mret k
  else if isize_max <? size then mpanic                    (* capacity overflow *)
  else
    let k := xO (next_real s) in
    mput {| sts := <[k := {| s_size := size; s_data := pad init size; s_live := true; s_odd := odd_mode s; s_cls := SHeap; s_ctrl := CNone |}]> (sts s); hs := hs s; owners := owners s;
            next_real := Pos.succ (next_real s); next_pseudo := next_pseudo s; next_h := next_h s; next_o := next_o s; odd_mode := odd_mode s |};;
    emit (EAlloc k size);; mret k.
(* dealloc(ptr = base of k, Layout(size, 1)) *)
Definition free_buf (k : sid) (size : N) : M unit :=
  let! x := get_st k in
  match s_cls x with
  | SDangling => mcheck (size =? 0) "dealloc of a dangling pointer with non-zero size"
  | SHeap => mcheck (s_live x) "double free";; mcheck (size =? s_size x) "dealloc with a size different from the allocation's";;
             put_st k (dead x);; emit (EFree k size)
  | _ => mub "dealloc of static / owner memory"
  end.
(* a Vec<u8> (base of k, _, cap) is dropped *)
Definition drop_vec (k : sid) (cap : N) : M unit := if cap =? 0 then mret tt else free_buf k cap.
(* Vec::reserve had to grow: realloc to the oracle's capacity, keeping the first `keep` bytes *)
Definition realloc_buf (orc : oracle) (k : sid) (oldcap keep need : N) : M (sid * N) :=
  if isize_max <? need then mpanic else
  let newcap := N.max (or_pick orc need) need in
  let! x := get_st k in
  let! s := mget in
  match s_cls x with
  | SDangling => (* a zero-capacity Vec grows: a first allocation; a control block owning the Vec now owns the new buffer *)
      let! k' := alloc_buf newcap [] in upd_st k' (with_ctrl (s_ctrl x));; put_st k (with_ctrl CNone x);; mret (k', newcap)
  | SHeap =>
      mcheck (s_live x) "realloc of a freed block";; mcheck (oldcap =? s_size x) "realloc with a size different from the allocation's";;
      let k' := xO (next_real s) in
      mput {| sts := <[k' := {| s_size := newcap; s_data := pad (firstnN keep (s_data x)) newcap; s_live := true; s_odd := odd_mode s; s_cls := SHeap; s_ctrl := s_ctrl x |}]> (<[k := dead x]> (sts s));
              hs := hs s; owners := owners s; next_real := Pos.succ (next_real s); next_pseudo := next_pseudo s; next_h := next_h s; next_o := next_o s; odd_mode := odd_mode s |};;
      emit (ERealloc k k' newcap);; mret (k', newcap)
  | _ => mub "realloc of static / owner memory"
  end.

(* ---- handles ---- *)
Definition get_h (h : hid) : M handle := fun s e => match hs s !! h with Some x => OK x s e | None => UB "stuck: no such handle" end.
Definition put_h (h : hid) (x : handle) : M unit := fun s e => OK tt (set_hs (<[h := x]>) s) e.
Definition del_h (h : hid) : M unit := fun s e => OK tt (set_hs (delete h) s) e.
Definition new_h (x : handle) : M hid := fun s e =>
  let h := next_h s in
  OK h {| sts := sts s; hs := <[h := x]> (hs s); owners := owners s; next_real := next_real s; next_pseudo := next_pseudo s; next_h := Pos.succ h; next_o := next_o s; odd_mode := odd_mode s |} e.

(* ---- reference counting (sequential semantics of the atomics) ---- *)
Definition inc_rc (k : sid) : M unit :=
  let! x := get_st k in
  match s_ctrl x with
  | CShared c rc => put_st k (with_ctrl (CShared c (rc + 1)) x)
  | CSharedV c o rc => put_st k (with_ctrl (CSharedV c o (rc + 1)) x)
  | CSharedVEmpty o rc => put_st k (with_ctrl (CSharedVEmpty o (rc + 1)) x)
  | COwned rc o => put_st k (with_ctrl (COwned (rc + 1) o) x)
  | CNone => mub "reference count of a missing control block"
  end.
Definition get_rc (k : sid) : M N :=
  let! x := get_st k in
  match s_ctrl x with
  | CShared _ rc | CSharedV _ _ rc | CSharedVEmpty _ rc | COwned rc _ => mret rc
  | CNone => mub "reference count of a missing control block"
  end.
(* release_shared (bytes.rs) / release_shared (bytes_mut.rs) / owned_drop_impl: decrement; the last one frees *)
Definition release (k : sid) : M unit :=
  let! x := get_st k in
  match s_ctrl x with
  | CShared c rc =>
      mcheck (0 <? rc) "reference count underflow";;
      if rc =? 1 then (* drop(Box<Shared>): dealloc(buf, cap) *)
        put_st k (with_ctrl CNone x);; free_buf k c;; emit EFreeCtrl
      else put_st k (with_ctrl (CShared c (rc - 1)) x)
  | CSharedV c o rc =>
      mcheck (0 <? rc) "reference count underflow";;
      if rc =? 1 then put_st k (with_ctrl CNone x);; drop_vec k c;; emit EFreeCtrl
      else put_st k (with_ctrl (CSharedV c o (rc - 1)) x)
  | CSharedVEmpty o rc =>
      mcheck (0 <? rc) "reference count underflow";;
      if rc =? 1 then put_st k (with_ctrl CNone x);; emit EFreeCtrl
      else put_st k (with_ctrl (CSharedVEmpty o (rc - 1)) x)
  | COwned rc o =>
      mcheck (0 <? rc) "reference count underflow";;
      if rc =? 1 then
        (* drop(Box<Owned<T>>): the owner is dropped (its memory goes with it), then the box is freed *)
        let! s := mget in
        match owners s !! o with
        | None => mub "unknown owner"
        | Some w =>
            mcheck (negb (o_dropped w)) "owner dropped twice";;
            mput (set_owners (<[o := {| o_dropped := true; o_asref := o_asref w; o_drops := o_drops w + 1; o_mem := o_mem w |}]>) s);;
            emit (EOwnerDrop o);;
            let! y := get_st k in put_st k (dead y);; (if s_size y =? 0 then mret tt else emit (EFree k (s_size y)));; emit EFreeCtrl
        end
      else put_st k (with_ctrl (COwned (rc - 1) o) x)
  | CNone => mub "release of a missing control block"
  end.

(* ================================================================================================ bytes.rs *)
Definition b_static_empty : handle := HB None 0 0 VStatic false.                    (* Bytes::new() *)
Definition empty_with_ptr (k : option sid) (ofs : N) : handle := HB k ofs 0 VStatic false.   (* new_empty_with_ptr *)

(* From<Vec<u8>> for Bytes / From<Box<[u8]>> for Bytes *)
Definition bytes_from_vec (k : sid) (len cap : N) : M handle :=
  if len =? cap then
    (* into_boxed_slice (no realloc: len == cap), then From<Box<[u8]>> *)
    if len =? 0 then mret b_static_empty
    else let! x := get_st k in mret (HB (Some k) 0 len (if s_odd x then VPromOdd else VPromEven) false)
  else
    upd_st k (with_ctrl (CShared cap 1));; emit EAllocCtrl;; mret (HB (Some k) 0 len VShared false).

(* shallow_clone_arc: fetch_add, new handle on the SHARED vtable *)
Definition shallow_clone_arc (k : sid) (ofs len : N) : M handle := inc_rc k;; mret (HB (Some k) ofs len VShared false).

(* (vtable.clone)(&self.data, ptr, len); may flip the KIND bit of THIS handle's data cell *)
Definition bytes_clone (h : hid) : M handle :=
  let! x := get_h h in
  match x with
  | HB ko ofs len vt arc =>
      match vt, ko with
      | VStatic, _ => mret (HB ko ofs len VStatic false)
      | VOwned, Some k => inc_rc k;; mret (HB (Some k) ofs len VOwned false)
      | (VPromEven | VPromOdd), Some k =>
          if arc then shallow_clone_arc k ofs len
          else (* shallow_clone_vec: Shared { buf, cap: offset_from(offset, buf) + len, ref_cnt: 2 }, CAS into the data cell *)
            upd_st k (with_ctrl (CShared (ofs + len) 2));; emit EAllocCtrl;;
            put_h h (HB (Some k) ofs len vt true);; mret (HB (Some k) ofs len VShared false)
      | VShared, Some k => shallow_clone_arc k ofs len
      | VSharedV, Some k => inc_rc k;; mret (HB (Some k) ofs len VSharedV false)
      | _, None => mub "owning vtable without storage"
      end
  | _ => mub "stuck: not a Bytes"
  end.

(* (vtable.drop)(&mut self.data, ptr, len) *)
Definition bytes_drop_rep (x : handle) : M unit :=
  match x with
  | HB ko ofs len vt arc =>
      match vt, ko with
      | VStatic, _ => mret tt
      | (VPromEven | VPromOdd), Some k => if arc then release k else free_buf k (ofs + len)     (* free_boxed_slice: cap RECOMPUTED *)
      | (VOwned | VShared | VSharedV), Some k => release k
      | _, None => mub "owning vtable without storage"
      end
  | _ => mub "stuck: not a Bytes"
  end.

Definition to_vec (bs : list byte) : M (sid * N) := let! k := alloc_buf (lenN bs) bs in mret (k, lenN bs).
Definition bytes_contents (x : handle) : M (list byte) :=
  match x with
  | HB (Some k) ofs len _ _ => mread k ofs len
  | HB None _ len _ _ => if len =? 0 then mret [] else mub "non-empty view without storage"
  | HM k ofs len _ _ => mread k ofs len
  | HV k len _ => mread k 0 len
  end.
(* ptr::copy(ptr, buf, len): memmove of the view to the start of the storage *)
Definition copy_to_front (k : sid) (ofs len : N) : M unit :=
  if (len =? 0) || (ofs =? 0) then mret tt else let! bs := mread k ofs len in mwrite k 0 bs.

(* shared_to_vec_impl *)
Definition shared_to_vec (k : sid) (ofs len : N) : M handle :=
  let! x := get_st k in
  match s_ctrl x with
  | CShared cap rc =>
      if rc =? 1 then (* compare_exchange(1, 0) succeeded: free the Shared box without running its destructor *)
        put_st k (with_ctrl CNone x);; emit EFreeCtrl;; copy_to_front k ofs len;; mret (HV k len cap)
      else let! bs := mread k ofs len in let! (k', c) := to_vec bs in release k;; mret (HV k' c c)
  | _ => mub "SHARED vtable without a Shared control block"
  end.
(* BytesMut::from_vec *)
Definition from_vec (k : sid) (len cap : N) : handle := HM k 0 len cap (MVec (ocr_to_repr cap)).
(* BytesMut::advance_unchecked *)
Definition adv_unchecked (count : N) (x : handle) : M handle :=
  match x with
  | HM k ofs len cap kd =>
      if count =? 0 then mret x
      else mcheck (count <=? cap) "advance_unchecked beyond the capacity (debug_assert)";;
           match kd with
           | MVec o =>
               if ofs + count <=? MAX_VEC_POS then mret (HM k (ofs + count) (len - count) (cap - count) kd)
               else (* promote_to_shared(1): "will never happen on 64 bit systems" - modelled all the same *)
                 upd_st k (with_ctrl (CSharedV (cap + ofs) o 1));; emit EAllocCtrl;; mret (HM k (ofs + count) (len - count) (cap - count) MArc)
           | MArc => mret (HM k (ofs + count) (len - count) (cap - count) kd)
           end
  | _ => mub "stuck: not a BytesMut"
  end.
(* shared_to_mut_impl *)
Definition shared_to_mut (k : sid) (ofs len : N) : M handle :=
  let! x := get_st k in
  match s_ctrl x with
  | CShared cap rc =>
      if rc =? 1 then
        put_st k (with_ctrl CNone x);; emit EFreeCtrl;;
        (* Vec::from_raw_parts(buf, len + off, cap); from_vec; advance_unchecked(off) *)
        adv_unchecked ofs (from_vec k (len + ofs) cap)
      else let! bs := mread k ofs len in let! (k', c) := to_vec bs in release k;; mret (from_vec k' c c)
  | _ => mub "SHARED vtable without a Shared control block"
  end.

(* (vtable.into_vec) *)
Definition bytes_into_vec_rep (x : handle) : M handle :=
  match x with
  | HB ko ofs len vt arc =>
      match vt, ko with
      | VStatic, _ => let! bs := bytes_contents x in let! (k', c) := to_vec bs in mret (HV k' c c)
      | VOwned, Some k => let! bs := mread k ofs len in let! (k', c) := to_vec bs in release k;; mret (HV k' c c)
      | (VPromEven | VPromOdd), Some k =>
          if arc then shared_to_vec k ofs len
          else copy_to_front k ofs len;; mret (HV k len (ofs + len))          (* cap = offset_from(ptr, buf) + len *)
      | VShared, Some k => shared_to_vec k ofs len
      | VSharedV, Some k =>
          let! y := get_st k in
          match s_ctrl y with
          | CSharedV vcap o rc =>
              if rc =? 1 then (* mem::replace(&mut shared.vec, Vec::new()); release_shared; copy back; set_len *)
                put_st k (with_ctrl (CSharedVEmpty o 1) y);; release k;; copy_to_front k ofs len;; mret (HV k len vcap)
              else let! bs := mread k ofs len in let! (k', c) := to_vec bs in release k;; mret (HV k' c c)
          | _ => mub "SHARED_V vtable without its control block"
          end
      | _, None => mub "owning vtable without storage"
      end
  | _ => mub "stuck: not a Bytes"
  end.
(* (vtable.into_mut) *)
Definition bytes_into_mut_rep (x : handle) : M handle :=
  match x with
  | HB ko ofs len vt arc =>
      match vt, ko with
      | VStatic, _ => let! bs := bytes_contents x in let! (k', c) := to_vec bs in mret (from_vec k' c c)
      | VOwned, Some k => let! bs := mread k ofs len in let! (k', c) := to_vec bs in release k;; mret (from_vec k' c c)
      | (VPromEven | VPromOdd), Some k =>
          if arc then shared_to_mut k ofs len
          else adv_unchecked ofs (from_vec k (ofs + len) (ofs + len))       (* Vec::from_raw_parts(buf, cap, cap), cap = off + len *)
      | VShared, Some k => shared_to_mut k ofs len
      | VSharedV, Some k =>
          let! y := get_st k in
          match s_ctrl y with
          | CSharedV vcap o rc =>
              if rc =? 1 then mret (HM k ofs len (vcap - ofs) MArc)
              else let! bs := mread k ofs len in let! (k', c) := to_vec bs in release k;; mret (from_vec k' c c)
          | _ => mub "SHARED_V vtable without its control block"
          end
      | _, None => mub "owning vtable without storage"
      end
  | _ => mub "stuck: not a Bytes"
  end.
Definition bytes_is_unique_rep (x : handle) : M bool :=
  match x with
  | HB ko _ _ vt arc =>
      match vt, ko with
      | (VStatic | VOwned), _ => mret false
      | (VPromEven | VPromOdd), Some k => if arc then let! rc := get_rc k in mret (rc =? 1) else mret true
      | (VShared | VSharedV), Some k => let! rc := get_rc k in mret (rc =? 1)
      | _, None => mub "owning vtable without storage"
      end
  | _ => mub "stuck: not a Bytes"
  end.

(* ================================================================================================ bytes_mut.rs *)
(* promote_to_shared(ref_cnt) *)
Definition promote (rc : N) (x : handle) : M handle :=
  match x with
  | HM k ofs len cap (MVec o) => upd_st k (with_ctrl (CSharedV (cap + ofs) o rc));; emit EAllocCtrl;; mret (HM k ofs len cap MArc)
  | _ => mub "promote_to_shared of a shared BytesMut (debug_assert)"
  end.
(* shallow_clone(&mut self): returns (self', copy) *)
Definition m_shallow_clone (x : handle) : M (handle * handle) :=
  match x with
  | HM k _ _ _ MArc => inc_rc k;; mret (x, x)
  | HM _ _ _ _ (MVec _) => let! x' := promote 2 x in mret (x', x')
  | _ => mub "stuck: not a BytesMut"
  end.
Definition m_drop_rep (x : handle) : M unit :=
  match x with
  | HM k ofs len cap (MVec _) => drop_vec k (cap + ofs)            (* rebuild_vec(ptr, len, cap, off) dropped *)
  | HM k _ _ _ MArc => release k
  | _ => mub "stuck: not a BytesMut"
  end.

(* reserve_inner(additional, allocate) -> (self', result) *)
Definition reserve_inner (orc : oracle) (additional : N) (allocate : bool) (x : handle) : M (handle * bool) :=
  match x with
  | HM k off len cap (MVec o) =>
      if (additional <=? cap - len + off) && (len <=? off) then
        (* enough space in front: move the data back to the start *)
        (if len =? 0 then mret tt else let! bs := mread k off len in mwrite k 0 bs);;
        mret (HM k 0 len (cap + off) (MVec o), true)
      else if negb allocate then mret (x, false)
      else (* rebuild_vec(ptr, len, cap, off).reserve(additional) *)
        let! (k', vcap) := realloc_buf orc k (cap + off) (len + off) (len + off + additional) in
        mret (HM k' off len (vcap - off) (MVec o), true)
  | HM k offset len cap MArc =>
      if usize_max <? len + additional then (if allocate then mpanic else mret (x, false))        (* len.checked_add(additional) *)
      else
        let new_cap := len + additional in
        let! y := get_st k in
        match s_ctrl y with
        | CSharedV v_capacity o rc =>
            if rc =? 1 then
              if (new_cap + offset <=? usize_max) && (new_cap + offset <=? v_capacity) then mret (HM k offset len new_cap MArc, true)
              else if (new_cap <=? v_capacity) && (len <=? offset) then
                (if len =? 0 then mret tt else let! bs := mread k offset len in mwrite k 0 bs);;
                mret (HM k 0 len v_capacity MArc, true)
              else if negb allocate then mret (x, false)
              else if usize_max <? new_cap + offset then mpanic                       (* checked_add(off).expect("overflow") *)
              else
                let new_cap2 := N.max (N.land (N.shiftl v_capacity 1) usize_max) (new_cap + offset) in
                (* v.set_len(off + len); v.reserve(new_cap - v.len()) *)
                let! (k', vcap) := realloc_buf orc k v_capacity (offset + len) new_cap2 in
                upd_st k' (with_ctrl (CSharedV vcap o 1));;
                mret (HM k' offset len (vcap - offset) MArc, true)
            else if negb allocate then mret (x, false)
            else
              let new_cap2 := N.max new_cap (ocr_from_repr o) in
              let! bs := mread k offset len in
              let! k' := alloc_buf new_cap2 bs in                       (* Vec::with_capacity(new_cap); extend_from_slice(self) *)
              release k;;
              mret (HM k' 0 len new_cap2 (MVec o), true)
        | _ => mub "shared BytesMut without its control block"
        end
  | _ => mub "stuck: not a BytesMut"
  end.
Definition m_reserve (orc : oracle) (additional : N) (x : handle) : M handle :=
  match x with
  | HM _ _ len cap _ => if additional <=? cap - len then mret x else let! (x', _) := reserve_inner orc additional true x in mret x'
  | _ => mub "stuck: not a BytesMut"
  end.
Definition m_try_reclaim (orc : oracle) (additional : N) (x : handle) : M (handle * bool) :=
  match x with
  | HM _ _ len cap _ => if additional <=? cap - len then mret (x, true) else reserve_inner orc additional false x
  | _ => mub "stuck: not a BytesMut"
  end.
(* extend_from_slice: reserve(cnt); copy into the spare capacity; advance_mut(cnt) *)
Definition m_extend (orc : oracle) (bs : list byte) (x : handle) : M handle :=
  let! x1 := m_reserve orc (lenN bs) x in
  match x1 with
  | HM k ofs len cap kd =>
      mcheck (lenN bs <=? cap - len) "spare capacity smaller than reserved (debug_assert)";;
      mwrite k (ofs + len) bs;; mret (HM k ofs (len + lenN bs) cap kd)
  | _ => mub "stuck: not a BytesMut"
  end.

(* ================================================================================================ the API *)
Inductive op :=
(* constructors *)
| OBNew | OBFromStatic (d : list byte) | OBFromVec (d : list byte) (cap : N) | OBFromOwner (d : list byte) (panics : bool)
| OMNew | OMWithCapacity (cap : N) | OMZeroed (len : N) | OMFromSlice (d : list byte)
(* Bytes *)
| OBClone (h : hid) | OBSlice (h : hid) (b e : N) | OBSliceIncl (h : hid) (b e : N) | OBSliceRef (h : hid) (sub : option (N * N))
| OBSplitOff (h : hid) (at_ : N) | OBSplitTo (h : hid) (at_ : N) | OBTruncate (h : hid) (len : N) | OBClear (h : hid)
| OBAdvance (h : hid) (cnt : N) | OBIsUnique (h : hid) | OBTryIntoMut (h : hid) | OBIntoMut (h : hid) | OBIntoVec (h : hid) | OBDrop (h : hid)
(* BytesMut *)
| OMSplitOff (h : hid) (at_ : N) | OMSplitTo (h : hid) (at_ : N) | OMSplit (h : hid) | OMTruncate (h : hid) (len : N) | OMClear (h : hid)
| OMResize (h : hid) (new_len : N) (v : byte) | OMReserve (h : hid) (n : N) | OMTryReclaim (h : hid) (n : N)
| OMExtend (h : hid) (d : list byte) | OMExtendIter (h : hid) (d : list byte) (hint : N) | OMWrite (h : hid) (i : N) (v : byte) | OMUnsplit (h other : hid) | OMFreeze (h : hid)
| OMIntoVec (h : hid) | OMAdvance (h : hid) (cnt : N) | OMClone (h : hid) | OMDrop (h : hid)
(* Vec *)
| OVIntoBytes (h : hid) | OVDrop (h : hid).
Inductive retv := RUnit | RBool (b : bool) | RH (h : hid) | RErr (h : hid).

Definition b_parts (x : handle) : M (option sid * N * N * bvt * bool) :=
  match x with HB k o l v a => mret (k, o, l, v, a) | _ => mub "stuck: not a Bytes" end.
Definition m_parts (x : handle) : M (sid * N * N * N * mkind) :=
  match x with HM k o l c kd => mret (k, o, l, c, kd) | _ => mub "stuck: not a BytesMut" end.

Definition bytes_slice (h : hid) (b e : N) : M retv :=
  let! x := get_h h in let! (k, ofs, len, vt, arc) := b_parts x in
  massert (b <=? e);; massert (e <=? len);;
  if e =? b then let! r := new_h b_static_empty in mret (RH r)
  else let! c := bytes_clone h in
       match c with
       | HB k' o' _ vt' a' => let! r := new_h (HB k' (o' + b) (e - b) vt' a') in mret (RH r)
       | _ => mub "clone of a Bytes is not a Bytes"
       end.
(* split_off: updates self in place and returns the representation of the returned half *)
Definition bytes_split_off_core (h : hid) (at_ : N) : M handle :=
  let! x := get_h h in let! (k, ofs, len, vt, arc) := b_parts x in
  if at_ =? len then mret (empty_with_ptr k (ofs + at_))
  else if at_ =? 0 then put_h h (empty_with_ptr k ofs);; mret x
  else massert (at_ <=? len);;
       let! c := bytes_clone h in
       let! x' := get_h h in let! (k1, o1, l1, v1, a1) := b_parts x' in
       put_h h (HB k1 o1 at_ v1 a1);;
       match c with
       | HB k' o' l' vt' a' => mret (HB k' (o' + at_) (l' - at_) vt' a')
       | _ => mub "clone of a Bytes is not a Bytes"
       end.
Definition bytes_split_off (h : hid) (at_ : N) : M retv := let! y := bytes_split_off_core h at_ in let! r := new_h y in mret (RH r).
Definition bytes_split_to (h : hid) (at_ : N) : M retv :=
  let! x := get_h h in let! (k, ofs, len, vt, arc) := b_parts x in
  if at_ =? len then put_h h (empty_with_ptr k (ofs + at_));; let! r := new_h x in mret (RH r)
  else if at_ =? 0 then let! r := new_h (empty_with_ptr k ofs) in mret (RH r)
  else massert (at_ <=? len);;
       let! c := bytes_clone h in
       let! x' := get_h h in let! (k1, o1, l1, v1, a1) := b_parts x' in
       put_h h (HB k1 (o1 + at_) (l1 - at_) v1 a1);;
       match c with
       | HB k' o' l' vt' a' => let! r := new_h (HB k' o' at_ vt' a') in mret (RH r)
       | _ => mub "clone of a Bytes is not a Bytes"
       end.
Definition bytes_truncate (h : hid) (len' : N) : M retv :=
  let! x := get_h h in let! (k, ofs, len, vt, arc) := b_parts x in
  if len' <? len then
    match vt with
    | VPromEven | VPromOdd =>
        (* drop(self.split_off(len)) *)
        let! y := bytes_split_off_core h len' in bytes_drop_rep y;; mret RUnit
    | _ => put_h h (HB k ofs len' vt arc);; mret RUnit
    end
  else mret RUnit.

Definition m_split_off (h : hid) (at_ : N) : M retv :=
  let! x := get_h h in let! (k, ofs, len, cap, kd) := m_parts x in
  massert (at_ <=? cap);;
  let! (x1, other) := m_shallow_clone x in
  let! other' := adv_unchecked at_ other in
  let! (k1, o1, l1, c1, kd1) := m_parts x1 in
  put_h h (HM k1 o1 (N.min l1 at_) at_ kd1);;
  let! r := new_h other' in mret (RH r).
Definition m_split_to (h : hid) (at_ : N) : M retv :=
  let! x := get_h h in let! (k, ofs, len, cap, kd) := m_parts x in
  massert (at_ <=? len);;
  let! (x1, other) := m_shallow_clone x in
  let! x2 := adv_unchecked at_ x1 in
  put_h h x2;;
  let! (k1, o1, l1, c1, kd1) := m_parts other in
  let! r := new_h (HM k1 o1 at_ at_ kd1) in mret (RH r).
Definition m_freeze_rep (x : handle) : M handle :=
  match x with
  | HM k off len cap (MVec _) =>
      (* rebuild_vec; Bytes::from(vec); b.advance(off) *)
      let! b := bytes_from_vec k (len + off) (cap + off) in
      match b with
      | HB k' o' l' vt' a' => massert (off <=? l');; mret (HB k' (o' + off) (l' - off) vt' a')
      | _ => mub "From<Vec> did not give a Bytes"
      end
  | HM k ofs len cap MArc => mret (HB (Some k) ofs len VSharedV false)
  | _ => mub "stuck: not a BytesMut"
  end.
Definition m_into_vec_rep (x : handle) : M handle :=
  match x with
  | HM k off len cap (MVec _) => copy_to_front k off len;; mret (HV k len (cap + off))
  | HM k ofs len cap MArc =>
      let! y := get_st k in
      match s_ctrl y with
      | CSharedV vcap o rc =>
          if rc =? 1 then put_st k (with_ctrl (CSharedVEmpty o 1) y);; release k;; copy_to_front k ofs len;; mret (HV k len vcap)
          else let! bs := mread k ofs len in let! (k', c) := to_vec bs in release k;; mret (HV k' c c)
      | _ => mub "shared BytesMut without its control block"
      end
  | _ => mub "stuck: not a BytesMut"
  end.

Definition hstep (orc : oracle) (o : op) : M retv :=
  match o with
  | OBNew => let! r := new_h b_static_empty in mret (RH r)
  | OBFromStatic d =>
      let! s := mget in
      let k := xO (next_real s) in
      (if lenN d =? 0 then mret tt else
       mput {| sts := <[k := {| s_size := lenN d; s_data := d; s_live := true; s_odd := false; s_cls := SStatic; s_ctrl := CNone |}]> (sts s); hs := hs s; owners := owners s;
               next_real := Pos.succ (next_real s); next_pseudo := next_pseudo s; next_h := next_h s; next_o := next_o s; odd_mode := odd_mode s |});;
      let! r := new_h (if lenN d =? 0 then b_static_empty else HB (Some k) 0 (lenN d) VStatic false) in mret (RH r)
  | OBFromVec d cap =>
      let cap := N.max cap (lenN d) in
      let! k := alloc_buf cap d in let! b := bytes_from_vec k (lenN d) cap in let! r := new_h b in mret (RH r)
  | OBFromOwner d panics =>
      (* the owner (a Vec<u8> inside a counting wrapper) is built by the caller; Box<Owned<T>> allocated; then as_ref() *)
      let! s := mget in
      let empty := lenN d =? 0 in
      let k := if empty then xI (next_pseudo s) else xO (next_real s) in let o := next_o s in
      mput {| sts := <[k := {| s_size := lenN d; s_data := d; s_live := true; s_odd := odd_mode s; s_cls := SOwnerMem; s_ctrl := COwned 1 o |}]> (sts s); hs := hs s;
              owners := <[o := {| o_dropped := false; o_asref := 0; o_drops := 0; o_mem := k |}]> (owners s);
              next_real := (if empty then next_real s else Pos.succ (next_real s)); next_pseudo := (if empty then Pos.succ (next_pseudo s) else next_pseudo s);
              next_h := next_h s; next_o := Pos.succ o; odd_mode := odd_mode s |};;
      (if empty then mret tt else emit (EAlloc k (lenN d)));; emit EAllocCtrl;;
      let! s1 := mget in
      match owners s1 !! o with
      | None => mub "owner vanished"
      | Some w => mput (set_owners (<[o := {| o_dropped := o_dropped w; o_asref := o_asref w + 1; o_drops := o_drops w; o_mem := o_mem w |}]>) s1);; emit (EOwnerAsRef o)
      end;;
      if panics then (* unwinding drops `ret`: owned_drop *) release k;; mpanic
      else let! r := new_h (HB (Some k) 0 (lenN d) VOwned false) in mret (RH r)
  | OMNew => let! k := alloc_buf 0 [] in let! r := new_h (from_vec k 0 0) in mret (RH r)
  | OMWithCapacity cap => let! k := alloc_buf cap [] in let! r := new_h (from_vec k 0 cap) in mret (RH r)
  | OMZeroed len => let! k := alloc_buf len (repeat 0 (N.to_nat len)) in let! r := new_h (from_vec k len len) in mret (RH r)
  | OMFromSlice d => let! (k, c) := to_vec d in let! r := new_h (from_vec k c c) in mret (RH r)

  | OBClone h => let! c := bytes_clone h in let! r := new_h c in mret (RH r)
  | OBSlice h b e => bytes_slice h b e
  | OBSliceIncl h b e => massert (e <? usize_max);; bytes_slice h b (e + 1)           (* Included(n): n.checked_add(1).expect *)
  | OBSliceRef h sub =>
      let! x := get_h h in let! (k, ofs, len, vt, arc) := b_parts x in
      match sub with
      | Some (so, sl) => if sl =? 0 then let! r := new_h b_static_empty in mret (RH r)
                         else massert (so + sl <=? len);; bytes_slice h so (so + sl)
      | None => mpanic                                              (* a non-empty slice that is not inside self *)
      end
  | OBSplitOff h a => bytes_split_off h a
  | OBSplitTo h a => bytes_split_to h a
  | OBTruncate h l => bytes_truncate h l
  | OBClear h => bytes_truncate h 0
  | OBAdvance h cnt =>
      let! x := get_h h in let! (k, ofs, len, vt, arc) := b_parts x in
      massert (cnt <=? len);; put_h h (HB k (ofs + cnt) (len - cnt) vt arc);; mret RUnit
  | OBIsUnique h => let! x := get_h h in let! b := bytes_is_unique_rep x in mret (RBool b)
  | OBTryIntoMut h =>
      let! x := get_h h in let! b := bytes_is_unique_rep x in
      if b then let! m := bytes_into_mut_rep x in del_h h;; let! r := new_h m in mret (RH r) else mret (RErr h)
  | OBIntoMut h => let! x := get_h h in let! m := bytes_into_mut_rep x in del_h h;; let! r := new_h m in mret (RH r)
  | OBIntoVec h => let! x := get_h h in let! v := bytes_into_vec_rep x in del_h h;; let! r := new_h v in mret (RH r)
  | OBDrop h => let! x := get_h h in bytes_drop_rep x;; del_h h;; mret RUnit

  | OMSplitOff h a => m_split_off h a
  | OMSplitTo h a => m_split_to h a
  | OMSplit h => let! x := get_h h in let! (k, ofs, len, cap, kd) := m_parts x in m_split_to h len
  | OMTruncate h l => let! x := get_h h in let! (k, ofs, len, cap, kd) := m_parts x in
                      (if l <=? len then put_h h (HM k ofs l cap kd) else mret tt);; mret RUnit
  | OMClear h => let! x := get_h h in let! (k, ofs, len, cap, kd) := m_parts x in put_h h (HM k ofs 0 cap kd);; mret RUnit
  | OMResize h new_len v =>
      let! x := get_h h in let! (k, ofs, len, cap, kd) := m_parts x in
      if new_len <? len then put_h h (HM k ofs new_len cap kd);; mret RUnit
      else if new_len =? len then mret RUnit
      else let additional := new_len - len in
           let! x1 := m_reserve orc additional x in put_h h x1;;
           let! (k1, o1, l1, c1, kd1) := m_parts x1 in
           mcheck (additional <=? c1 - l1) "spare capacity smaller than reserved";;
           mwrite k1 (o1 + l1) (repeat v (N.to_nat additional));; put_h h (HM k1 o1 new_len c1 kd1);; mret RUnit
  | OMReserve h n => let! x := get_h h in let! x1 := m_reserve orc n x in put_h h x1;; mret RUnit
  | OMTryReclaim h n => let! x := get_h h in let! (x1, b) := m_try_reclaim orc n x in put_h h x1;; mret (RBool b)
  | OMExtend h d => let! x := get_h h in let! x1 := m_extend orc d x in put_h h x1;; mret RUnit
  | OMExtendIter h d hint =>
      (* Extend<u8>: self.reserve(lower); for b in iter { self.put_u8(b) } *)
      (* `self` is updated in place by every call, so the handle is stored back after each step (matters only when a later step panics) *)
      let! x := get_h h in let! x0 := m_reserve orc hint x in put_h h x0;;
      fold_left (fun (acc : M unit) b => acc;; let! y := get_h h in let! y1 := m_extend orc [b] y in put_h h y1) d (mret tt);; mret RUnit
  | OMWrite h i v =>
      let! x := get_h h in let! (k, ofs, len, cap, kd) := m_parts x in
      massert (i <? len);; mwrite k (ofs + i) [v];; mret RUnit
  | OMUnsplit h other =>
      if Pos.eqb h other then mub "stuck: unsplit with itself" else
      let! x := get_h h in let! (k, ofs, len, cap, kd) := m_parts x in
      let! y := get_h other in let! (k2, ofs2, len2, cap2, kd2) := m_parts y in
      if len =? 0 then (* *self = other: the old self is dropped *)
        m_drop_rep x;; put_h h y;; del_h other;; mret RUnit
      else if cap2 =? 0 then m_drop_rep y;; del_h other;; mret RUnit
      else
        match kd, kd2 with
        | MArc, MArc =>
            if Pos.eqb k k2 && (ofs + len =? ofs2) then
              put_h h (HM k ofs (len + len2) (cap + cap2) MArc);; m_drop_rep y;; del_h other;; mret RUnit
            else let! bs := mread k2 ofs2 len2 in let! x1 := m_extend orc bs x in put_h h x1;; m_drop_rep y;; del_h other;; mret RUnit
        | _, _ => let! bs := mread k2 ofs2 len2 in let! x1 := m_extend orc bs x in put_h h x1;; m_drop_rep y;; del_h other;; mret RUnit
        end
  | OMFreeze h => let! x := get_h h in let! b := m_freeze_rep x in del_h h;; let! r := new_h b in mret (RH r)
  | OMIntoVec h => let! x := get_h h in let! v := m_into_vec_rep x in del_h h;; let! r := new_h v in mret (RH r)
  | OMAdvance h cnt =>
      let! x := get_h h in let! (k, ofs, len, cap, kd) := m_parts x in
      massert (cnt <=? len);; let! x1 := adv_unchecked cnt x in put_h h x1;; mret RUnit
  | OMClone h => let! x := get_h h in let! bs := bytes_contents x in let! (k, c) := to_vec bs in let! r := new_h (from_vec k c c) in mret (RH r)
  | OMDrop h => let! x := get_h h in m_drop_rep x;; del_h h;; mret RUnit

  | OVIntoBytes h =>
      let! x := get_h h in
      match x with
      | HV k len cap => let! b := bytes_from_vec k len cap in
                        (if (len =? cap) && (len =? 0) then drop_vec k cap else mret tt);;
                        del_h h;; let! r := new_h b in mret (RH r)
      | _ => mub "stuck: not a Vec"
      end
  | OVDrop h =>
      let! x := get_h h in
      match x with HV k len cap => drop_vec k cap;; del_h h;; mret RUnit | _ => mub "stuck: not a Vec" end
  end.

(* observations *)
Definition contents_of (s : hst) (h : hid) : option (list byte) :=
  match hs s !! h with
  | Some x => match bytes_contents x s [] with OK bs _ _ => Some bs | _ => None end
  | None => None
  end.
Definition run_op (orc : oracle) (o : op) (s : hst) : out retv := hstep orc o s [].

(* accessors for the evaluators *)
Definition handles_of (s : hst) : list (hid * handle) := map_to_list (hs s).
Definition storages_of (s : hst) : list (sid * storage) := map_to_list (sts s).
Definition owners_of (s : hst) : list (oid * owner) := map_to_list (owners s).
Definition handle_unique (s : hst) (x : handle) : option bool :=
  match x with HB _ _ _ _ _ => match bytes_is_unique_rep x s [] with OK b _ _ => Some b | _ => None end | _ => None end.
Definition handle_contents (s : hst) (x : handle) : option (list byte) := match bytes_contents x s [] with OK bs _ _ => Some bs | _ => None end.

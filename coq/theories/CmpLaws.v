From stdpp Require Import list.
From Coq Require Import NArith Lia.
From BV Require Import Base Cmp.
Local Open Scope N_scope.

Lemma cmp_bytes_refl x : cmp_bytes x x = Eq.
Proof. induction x as [|a x IH]; simpl; [done|]. by rewrite N.compare_refl. Qed.
Theorem cmp_bytes_eq x y : cmp_bytes x y = Eq <-> x = y.
Proof.
  split; [|intros ->; apply cmp_bytes_refl].
  revert y; induction x as [|a x IH]; intros [|b y]; simpl; try done.
  destruct (a ?= b) eqn:E; try done. apply N.compare_eq in E. intros H. f_equal; [done|by apply IH].
Qed.
Theorem cmp_bytes_antisym x y : cmp_bytes y x = CompOpp (cmp_bytes x y).
Proof.
  revert y; induction x as [|a x IH]; intros [|b y]; simpl; try done.
  rewrite (N.compare_antisym a b). destruct (a ?= b); simpl; done.
Qed.
Theorem cmp_bytes_trans x y z c : cmp_bytes x y = c -> cmp_bytes y z = c -> cmp_bytes x z = c.
Proof.
  revert y z; induction x as [|a x IH]; intros [|b y] [|d z]; simpl; try congruence.
  destruct (a ?= b) eqn:E1, (b ?= d) eqn:E2; intros H1 H2; subst; try congruence.
  - apply N.compare_eq in E1, E2. subst. rewrite N.compare_refl. by eapply IH.
  - apply N.compare_eq in E1. subst. by rewrite E2.
  - apply N.compare_eq in E1. subst. by rewrite E2.
  - apply N.compare_eq in E2. subst. by rewrite E1.
  - rewrite N.compare_lt_iff in *. assert (a < d) as H by lia. apply N.compare_lt_iff in H. by rewrite H.
  - apply N.compare_eq in E2. subst. by rewrite E1.
  - rewrite N.compare_gt_iff in *. assert (d < a) as H by lia. apply N.compare_gt_iff in H. by rewrite H.
Qed.
Theorem cmp_bytes_prefix x s : s <> [] -> cmp_bytes x (x ++ s) = Lt.
Proof. intros Hs. induction x as [|a x IH]; simpl; [by destruct s|]. by rewrite N.compare_refl. Qed.
Theorem cmp_bytes_lt_gt x y : cmp_bytes x y = Lt <-> cmp_bytes y x = Gt.
Proof. rewrite (cmp_bytes_antisym x y). destruct (cmp_bytes x y); simpl; split; congruence. Qed.
Theorem eq_bytes_spec x y : eq_bytes x y = true <-> x = y.
Proof. unfold eq_bytes. rewrite <- cmp_bytes_eq. destruct (cmp_bytes x y); split; congruence. Qed.
Theorem covered_sound src tbl i : all_covered src tbl = true -> In i src -> exists j, In j tbl /\ impl_eqb i j = true.
Proof. unfold all_covered, covered. rewrite forallb_forall. intros H Hi. specialize (H i Hi). apply existsb_exists in H. exact H. Qed.

(* Laws of M4, part 1: remaining / chunk / advance for arbitrary trees. *)
From stdpp Require Import list.
From Coq Require Import NArith Lia ZifyN ZifyNat ZifyBool.
From BV Require Import Base BaseLemmas Buf BufSpec.
Local Open Scope N_scope.
Arguments N.add : simpl never. Arguments N.sub : simpl never. Arguments N.min : simpl never.
Arguments N.ltb : simpl never. Arguments N.leb : simpl never. Arguments N.eqb : simpl never.

Lemma usize_max_val : usize_max = 18446744073709551615. Proof. reflexivity. Qed.
Global Opaque usize_max.

Lemma skipN_min {A} n (l : list A) : skipN (N.min n (lenN l)) l = skipN n l.
Proof. unfold skipN. f_equal. lia. Qed.

(* ---- remaining ---- *)
Lemma leaf_remaining_den l : leaf_remaining l = lenN (leaf_den l).
Proof. destruct l; simpl; try done. unfold sat_sub. by rewrite lenN_skipN. Qed.
Lemma remaining_den b : wf b -> remaining b = lenN (den b).
Proof.
  induction b as [l|a IHa c IHc|n x IH|x IH]; simpl.
  - intros _. apply leaf_remaining_den.
  - intros (Ha & Hc & Hl). rewrite IHa, IHc by done. rewrite lenN_app in *. unfold sat_add. lia.
  - intros (Hx & _). rewrite IH by done. rewrite lenN_firstnN. lia.
  - done.
Qed.
Lemma has_remaining_den b : wf b -> has_remaining b = negb (lenN (den b) =? 0).
Proof. intros H. unfold has_remaining. rewrite remaining_den by done. lia. Qed.

(* ---- chunk ---- *)
Lemma first_nonempty_prefix cs : first_nonempty cs `prefix_of` concat cs.
Proof. induction cs as [|c cs IH]; simpl; [done|]. destruct c as [|x c]; simpl; [done|]. by exists (concat cs). Qed.
Lemma first_nonempty_nil cs : first_nonempty cs = [] <-> concat cs = [].
Proof. induction cs as [|c cs IH]; simpl; [done|]. destruct c; simpl; [done|]. split; done. Qed.

Lemma leaf_wf_den l : wf (Leaf l) -> lenN (leaf_den l) <= usize_max.
Proof.
  destruct l; simpl; try done.
  - intros [H _]. rewrite lenN_skipN. lia.
  - by intros [_ H].
Qed.
Lemma wf_den b : wf b -> lenN (den b) <= usize_max.
Proof.
  induction b as [l|a IHa c IHc|n x IH|x IH]; simpl.
  - apply leaf_wf_den.
  - by intros (_ & _ & H).
  - intros (Hx & Hn). rewrite lenN_firstnN. lia.
  - done.
Qed.

Lemma chunk_prefix b : wf b -> chunk b `prefix_of` den b.
Proof.
  induction b as [l|a IHa c IHc|n x IH|x IH]; simpl.
  - destruct l as [l|l|l|l pos|s1 s2|cs]; simpl; intros Hwf; try done.
    + by rewrite skipN_min.
    + destruct s1; [destruct Hwf as [Hwf _]; by rewrite Hwf|]. by apply prefix_app_r.
    + apply first_nonempty_prefix.
  - intros (Ha & Hc & _). rewrite has_remaining_den by done. destruct (lenN (den a) =? 0) eqn:E; simpl.
    + assert (den a = []) as -> by (apply lenN_zero; lia). by apply IHc.
    + by apply prefix_app_r, IHa.
  - intros (Hx & _). specialize (IH Hx). destruct IH as [k Hk]. rewrite Hk.
    rewrite !firstnN_eq. destruct (decide (N.to_nat n <= length (chunk x))%nat).
    + rewrite take_app_le by lia. replace (N.to_nat (N.min (lenN (chunk x)) n)) with (N.to_nat n) by (unfold lenN; lia). done.
    + rewrite take_app_ge by lia. rewrite take_ge by (unfold lenN; lia). by apply prefix_app_r.
  - done.
Qed.
Lemma chunk_nil b : wf b -> (chunk b = [] <-> den b = []).
Proof.
  induction b as [l|a IHa c IHc|n x IH|x IH]; simpl.
  - destruct l as [l|l|l|l pos|s1 s2|cs]; simpl; intros Hwf; try done.
    + by rewrite skipN_min.
    + destruct s1; simpl; [|done]. destruct Hwf as [Hwf _]. by rewrite Hwf.
    + apply first_nonempty_nil.
  - intros (Ha & Hc & _). rewrite has_remaining_den by done. destruct (lenN (den a) =? 0) eqn:E; simpl.
    + assert (den a = []) as -> by (apply lenN_zero; lia). by apply IHc.
    + rewrite (IHa Ha). destruct (den a); simpl in *; [unfold lenN in E; simpl in E; lia|done].
  - intros (Hx & _). specialize (IH Hx).
    rewrite <- !lenN_zero, !lenN_firstnN. rewrite <- !lenN_zero in IH. lia.
  - done.
Qed.
Lemma chunk_nonempty b : wf b -> 0 < lenN (den b) -> 0 < lenN (chunk b).
Proof. intros Hwf H. pose proof (chunk_nil b Hwf) as Hn. rewrite <- !lenN_zero in Hn. lia. Qed.

(* ---- adv: denotation, well-formedness, zero, additivity ---- *)
Lemma gen_adv_concat k cs : concat (gen_adv k cs) = skipN k (concat cs).
Proof.
  revert k; induction cs as [|c r IH]; intros k; simpl; [by rewrite skipN_eq, drop_nil|].
  destruct (k =? 0) eqn:E0; [replace k with 0 by lia; by rewrite skipN_0|].
  destruct (lenN c <=? k) eqn:E.
  - rewrite IH. by rewrite skipN_app_ge by lia.
  - simpl. by rewrite skipN_app_le by lia.
Qed.
Lemma leaf_den_adv k l : leaf_den (leaf_adv k l) = skipN k (leaf_den l).
Proof.
  destruct l as [l|l|l|l pos|s1 s2|cs]; simpl; try done.
  - by rewrite skipN_skipN.
  - destruct (k <? lenN s1) eqn:E; simpl.
    + by rewrite skipN_app_le by lia.
    + rewrite app_nil_r. by rewrite skipN_app_ge by lia.
  - apply gen_adv_concat.
Qed.
Lemma den_adv k b : den (adv k b) = skipN k (den b).
Proof.
  revert k; induction b as [l|a IHa c IHc|n x IH|x IH]; intros k; simpl.
  - apply leaf_den_adv.
  - rewrite IHa, IHc. destruct (decide (k <= lenN (den a))).
    + replace (N.min k (lenN (den a))) with k by lia. replace (k - k) with 0 by lia.
      rewrite skipN_0. by rewrite skipN_app_le.
    + replace (N.min k (lenN (den a))) with (lenN (den a)) by lia.
      rewrite (skipN_all (lenN (den a))) by lia. simpl. by rewrite skipN_app_ge by lia.
  - rewrite IH. by rewrite skipN_firstnN.
  - apply IH.
Qed.
Lemma len_adv k b : lenN (den (adv k b)) = lenN (den b) - k.
Proof. by rewrite den_adv, lenN_skipN. Qed.

Lemma wf_adv k b : wf b -> k <= lenN (den b) -> wf (adv k b).
Proof.
  revert k; induction b as [l|a IHa c IHc|n x IH|x IH]; intros k; simpl.
  - destruct l as [l|l|l|l pos|s1 s2|cs]; simpl; intros Hwf Hk; rewrite ?lenN_skipN; try lia.
    + rewrite lenN_skipN in Hk. destruct Hwf. split; [done|]. lia.
    + destruct Hwf as [Hw Hl]. destruct (k <? lenN s1) eqn:E; simpl.
      * split; [|rewrite lenN_app, lenN_skipN in *; lia]. intros Hn. apply lenN_zero in Hn. rewrite lenN_skipN in Hn. lia.
      * split; [done|]. rewrite app_nil_r, lenN_skipN. rewrite lenN_app in Hl. lia.
    + rewrite gen_adv_concat, lenN_skipN. lia.
  - intros (Ha & Hc & Hl) Hk. rewrite lenN_app in *. split; [apply IHa; [done|lia]|]. split; [apply IHc; [done|lia]|].
    rewrite !len_adv. lia.
  - intros (Hx & Hn) Hk. rewrite lenN_firstnN in Hk. split; [apply IH; [done|lia]|lia].
  - apply IH.
Qed.

Lemma gen_adv_0 cs : gen_adv 0 cs = cs.
Proof. destruct cs; done. Qed.
Lemma adv_zero b : wf b -> adv 0 b = b.
Proof.
  induction b as [l|a IHa c IHc|n x IH|x IH]; simpl.
  - destruct l as [l|l|l|l pos|s1 s2|cs]; simpl; intros Hwf; rewrite ?skipN_0, ?gen_adv_0; try done.
    + f_equal. f_equal. lia.
    + destruct Hwf as [Hw _]. destruct (0 <? lenN s1) eqn:E; [done|].
      assert (s1 = []) as -> by (apply lenN_zero; lia). rewrite Hw by done. done.
  - intros (Ha & Hc & _). replace (N.min 0 _) with 0 by lia. replace (0 - 0) with 0 by lia. by rewrite IHa, IHc.
  - intros (Hx & _). rewrite IH by done. f_equal. lia.
  - intros Hx. by rewrite IH.
Qed.

Lemma gen_adv_add x y cs : gen_adv y (gen_adv x cs) = gen_adv (x + y) cs.
Proof.
  revert x; induction cs as [|c r IH]; intros x; simpl; [by destruct (gen_adv y [])|].
  destruct (x =? 0) eqn:Ex.
  - replace (x + y) with y by lia. done.
  - replace (x + y =? 0) with false by lia. destruct (lenN c <=? x) eqn:E.
    + replace (lenN c <=? x + y) with true by lia. rewrite IH. f_equal. lia.
    + simpl. destruct (y =? 0) eqn:Ey.
      * replace (lenN c <=? x + y) with false by lia. replace (x + y) with x by lia. done.
      * rewrite lenN_skipN. destruct (lenN c - x <=? y) eqn:E2.
        -- replace (lenN c <=? x + y) with true by lia. f_equal. lia.
        -- replace (lenN c <=? x + y) with false by lia. by rewrite skipN_skipN.
Qed.
Lemma leaf_adv_add x y l : leaf_adv y (leaf_adv x l) = leaf_adv (x + y) l.
Proof.
  destruct l as [l|l|l|l pos|s1 s2|cs]; simpl; rewrite ?skipN_skipN, ?gen_adv_add; try done.
  - f_equal. lia.
  - destruct (x <? lenN s1) eqn:E; simpl.
    + rewrite lenN_skipN. destruct (y <? lenN s1 - x) eqn:E2.
      * replace (x + y <? lenN s1) with true by lia. by rewrite skipN_skipN.
      * replace (x + y <? lenN s1) with false by lia. f_equal. f_equal. lia.
    + replace (x + y <? lenN s1) with false by lia. rewrite lenN_skipN.
      destruct (y <? lenN s2 - (x - lenN s1)) eqn:E2.
      * rewrite skipN_skipN. f_equal. f_equal. lia.
      * rewrite (skipN_eq _ []), drop_nil. f_equal.
        symmetry. apply skipN_all. lia.
Qed.
Lemma adv_add x y b : adv y (adv x b) = adv (x + y) b.
Proof.
  revert x y; induction b as [l|a IHa c IHc|n z IH|z IH]; intros x y; simpl.
  - f_equal. apply leaf_adv_add.
  - rewrite len_adv. rewrite IHa, IHc. f_equal; f_equal; lia.
  - rewrite IH. f_equal. lia.
  - by rewrite IH.
Qed.

(* ---- advance = adv inside the contract, Panic outside ---- *)
Lemma leaf_advance_ok k l : wf (Leaf l) -> k <= lenN (leaf_den l) -> leaf_advance k l = Ok (leaf_adv k l).
Proof.
  destruct l as [l|l|l|l pos|s1 s2|cs]; simpl; intros Hwf Hk.
  - replace (lenN l <? k) with false by lia. done.
  - replace (k <=? lenN l) with true by lia. done.
  - replace (k <=? lenN l) with true by lia. done.
  - rewrite lenN_skipN in Hk. unfold sat_sub. replace (lenN l - pos <? k) with false by lia. done.
  - replace (lenN (s1 ++ s2) <? k) with false by lia. by destruct (k <? lenN s1).
  - replace (lenN (concat cs) <? k) with false by lia. done.
Qed.
Lemma leaf_advance_panic k l : lenN (leaf_den l) < k -> leaf_advance k l = Panic.
Proof.
  destruct l as [l|l|l|l pos|s1 s2|cs]; simpl; intros Hk.
  - replace (lenN l <? k) with true by lia. done.
  - replace (k <=? lenN l) with false by lia. done.
  - replace (k <=? lenN l) with false by lia. done.
  - rewrite lenN_skipN in Hk. unfold sat_sub. replace (lenN l - pos <? k) with true by lia. done.
  - replace (lenN (s1 ++ s2) <? k) with true by lia. done.
  - replace (lenN (concat cs) <? k) with true by lia. done.
Qed.
Theorem advance_ok k b : wf b -> k <= lenN (den b) -> advance k b = Ok (adv k b).
Proof.
  revert k; induction b as [l|a IHa c IHc|n x IH|x IH]; intros k; simpl.
  - intros Hwf Hk. by rewrite leaf_advance_ok.
  - intros (Ha & Hc & Hl) Hk. rewrite lenN_app in Hk. rewrite remaining_den by done.
    destruct (lenN (den a) =? 0) eqn:E0; simpl.
    + replace (N.min k (lenN (den a))) with 0 by lia. rewrite adv_zero by done.
      replace (k - 0) with k by lia. rewrite IHc by (done || lia). done.
    + destruct (k <=? lenN (den a)) eqn:E.
      * replace (N.min k (lenN (den a))) with k by lia. rewrite IHa by (done || lia). simpl.
        replace (k - k) with 0 by lia. by rewrite adv_zero.
      * replace (N.min k (lenN (den a))) with (lenN (den a)) by lia.
        rewrite IHa by (done || lia). simpl. rewrite IHc by (done || lia). done.
  - intros (Hx & Hn) Hk. rewrite lenN_firstnN in Hk. replace (k <=? n) with true by lia.
    rewrite IH by (done || lia). done.
  - intros Hx Hk. by rewrite IH.
Qed.
Theorem advance_panic k b : wf b -> lenN (den b) < k -> advance k b = Panic.
Proof.
  revert k; induction b as [l|a IHa c IHc|n x IH|x IH]; intros k; simpl.
  - intros _ Hk. by rewrite leaf_advance_panic.
  - intros (Ha & Hc & Hl) Hk. rewrite lenN_app in Hk. rewrite remaining_den by done.
    destruct (lenN (den a) =? 0) eqn:E0; simpl.
    + rewrite IHc by (done || lia). done.
    + replace (k <=? lenN (den a)) with false by lia. rewrite advance_ok by (done || lia). simpl.
      rewrite IHc by (done || lia). done.
  - intros (Hx & Hn) Hk. rewrite lenN_firstnN in Hk. destruct (k <=? n) eqn:E; [|done].
    rewrite IH by (done || lia). done.
  - intros Hx Hk. by rewrite IH.
Qed.

(* C13 on M2, the converse of "out of contract => does not return" (RefineM1.v): for the operations whose panics are argument checks,
   M2 panics ONLY when M1 says the call is out of contract.  Together: these calls panic exactly when the documented precondition fails.
   (Capacity-overflow panics of the allocating operations - reserve, resize, extend, conversions that copy - are not covered: M1 states
   them approximately, see DESIGN 12.5.) *)
From stdpp Require Import gmap.
From Coq Require Import NArith Lia String.
From BV Require Import Base BaseLemmas BufMut Heap HeapLaws HeapPanic HeapWF HeapWFPrim HeapWFOps HeapWFMain HeapFrame SizeInv Spec RefineM1.
Local Open Scope N_scope.
Arguments N.add : simpl never. Arguments N.sub : simpl never. Arguments N.ltb : simpl never. Arguments N.leb : simpl never. Arguments N.eqb : simpl never.

Lemma bind_pinv {A B} (m : M A) (f : A -> M B) s e s' e' : mbind m f s e = PANIC s' e' ->
  m s e = PANIC s' e' \/ exists a s1 e1, m s e = OK a s1 e1 /\ f a s1 e1 = PANIC s' e'.
Proof. unfold mbind. destruct (m s e) as [a s1 e1|s1 e1|]; [right; eauto|intros [= -> ->]; by left|done]. Qed.
Lemma np_no {A} (m : M A) s e s' e' : np m -> m s e = PANIC s' e' -> False.
Proof. intros H E. specialize (H s e). by rewrite E in H. Qed.
Lemma bind_pinv_np {A B} (m : M A) (f : A -> M B) s e s' e' : np m -> mbind m f s e = PANIC s' e' -> exists a s1 e1, m s e = OK a s1 e1 /\ f a s1 e1 = PANIC s' e'.
Proof. intros Hn E. apply bind_pinv in E as [E|E]; [by apply np_no in E|done]. Qed.
Lemma massert_pinv b s e s' e' : massert b s e = PANIC s' e' -> b = false. Proof. by destruct b. Qed.
Ltac pnp H lem := let a := fresh "a" in let s := fresh "s" in let e := fresh "e" in let R := fresh "R" in (apply bind_pinv_np in H; [|by apply lem]); destruct H as (a & s & e & R & H).
Ltac passert H := let R := fresh "R" in apply bind_pinv in H as [R|(? & ? & ? & R & H)]; [apply massert_pinv in R|apply massert_inv in R as (R & -> & ->)].

(* operations whose only panics are argument checks (or that never panic) *)
Definition arg_checked (o : op) : bool :=
  match o with
  | OBNew | OBFromStatic _ | OBFromOwner _ _ | OMWithCapacity _ | OMZeroed _
  | OBClone _ | OBSlice _ _ _ | OBSliceIncl _ _ _ | OBSliceRef _ _ | OBSplitOff _ _ | OBSplitTo _ _ | OBTruncate _ _ | OBClear _ | OBAdvance _ _ | OBIsUnique _ | OBDrop _
  | OMSplitOff _ _ | OMSplitTo _ _ | OMSplit _ | OMTruncate _ _ | OMClear _ | OMWrite _ _ _ | OMFreeze _ | OMAdvance _ _ | OMDrop _ | OVDrop _ => true
  | _ => false
  end.

Ltac npa := repeat (np_auto; try (first [apply np_bytes_clone|apply np_bytes_drop_rep|apply np_m_shallow_clone|apply np_adv_unchecked|apply np_m_parts|apply np_mwrite|apply np_m_drop_rep|apply np_drop_vec|apply np_bytes_is_unique_rep|apply np_b_parts|apply np_get_h])).
Section P.
Variable orc : oracle.
Lemma slice_panics h b e s ev s' e' ko o l vt a : hs s !! h = Some (HB ko o l vt a) -> bytes_slice h b e s ev = PANIC s' e' -> ((b <=? e) && (e <=? l)) = false.
Proof.
  intros Hx E. unfold bytes_slice in E. pnp E np_get_h. inv_get_h R. rewrite Hx in R. injection R as <-. pnp E np_b_parts. apply mret_inv in R as (-> & -> & ->).
  passert E; [by rewrite R|]. passert E; [rewrite R0; by rewrite andb_false_r|]. exfalso. revert E. apply np_no. destruct (e =? b); npa.
Qed.
Lemma split_core_panics h at_ s ev s' e' ko o l vt a : hs s !! h = Some (HB ko o l vt a) -> bytes_split_off_core h at_ s ev = PANIC s' e' -> (at_ <=? l) = false.
Proof.
  intros Hx E. unfold bytes_split_off_core in E. pnp E np_get_h. inv_get_h R. rewrite Hx in R. injection R as <-. pnp E np_b_parts. apply mret_inv in R as (-> & -> & ->).
  destruct (at_ =? l); [by apply np_no in E; [|np_auto]|]. destruct (at_ =? 0); [by apply np_no in E; [|np_auto]|]. passert E; [done|].
  exfalso. revert E. apply np_no. npa.
Qed.
Lemma truncate_no_panic h n s ev s' e' ko o l vt a : hs s !! h = Some (HB ko o l vt a) -> bytes_truncate h n s ev = PANIC s' e' -> False.
Proof.
  intros Hx E. unfold bytes_truncate in E. pnp E np_get_h. inv_get_h R. rewrite Hx in R. injection R as <-. pnp E np_b_parts. apply mret_inv in R as (-> & -> & ->).
  destruct (n <? l) eqn:En; [|by apply np_no in E; [|npa]].
  assert ((let! y := bytes_split_off_core h n in bytes_drop_rep y;; mret RUnit) s ev = PANIC s' e' -> False) as Hc.
  { intros E'. apply bind_pinv in E' as [E'|(y & s1 & e1 & R & E')]; [apply (split_core_panics _ _ _ _ _ _ _ _ _ _ _ Hx) in E'; lia|]. revert E'. apply np_no. npa. }
  destruct vt; try (by apply Hc); revert E; apply np_no; npa.
Qed.
Theorem panic_only_out_of_contract o s s' e' : WF s -> dlen s -> op_ok s o -> arg_checked o = true -> run_op orc o s = PANIC s' e' ->
  forall uniq, sstep (cap_of s o) uniq o (abs s) = SPanic.
Proof.
  intros W D Hok Ha E uniq. pose proof W as [L Hf]. unfold run_op in E. destruct o; try discriminate Ha; cbn [hstep] in E; cbn [sstep cap_of].
  - exfalso. revert E. apply np_no. np_auto.
  - exfalso. revert E. apply np_no. np_auto.
  - destruct panics; [done|]. exfalso. revert E. apply np_no. np_auto. all: try (destruct (owners _ !! _); np_auto).
  - destruct (isize_max <? cap) eqn:Ec; [done|]. exfalso. revert E. apply np_no. apply np_bind; [|intros; np_auto]. intros s0 e0. unfold alloc_buf, mbind, mget. destruct (cap =? 0); [done|]. by rewrite Ec.
  - destruct (isize_max <? len) eqn:Ec; [done|]. exfalso. revert E. apply np_no. apply np_bind; [|intros; np_auto]. intros s0 e0. unfold alloc_buf, mbind, mget. destruct (len =? 0); [done|]. by rewrite Ec.
  - exfalso. revert E. apply np_no. npa.
  - destruct Hok as (ko & o & l & vt & a & Hx). pose proof (view_len s _ D (lwf_typed _ _ L _ _ Hx)) as Hlen. cbn [h_len] in Hlen.
    unfold with_b. rewrite (abs_lookup _ _ _ Hx). cbn [aval sv_kind kind_of sv_bytes]. rewrite Hlen. by rewrite (slice_panics _ _ _ _ _ _ _ _ _ _ _ _ Hx E).
  - destruct Hok as (ko & o & l & vt & a & Hx). pose proof (view_len s _ D (lwf_typed _ _ L _ _ Hx)) as Hlen. cbn [h_len] in Hlen.
    unfold with_b. rewrite (abs_lookup _ _ _ Hx). cbn [aval sv_kind kind_of sv_bytes]. rewrite Hlen. passert E; [by rewrite R|].
    pose proof (slice_panics _ _ _ _ _ _ _ _ _ _ _ _ Hx E) as Hs. rewrite R. cbn [andb]. by rewrite Hs.
  - destruct Hok as (ko & o & l & vt & a & Hx). pose proof (view_len s _ D (lwf_typed _ _ L _ _ Hx)) as Hlen. cbn [h_len] in Hlen.
    pnp E np_get_h. inv_get_h R. rewrite Hx in R. injection R as <-. pnp E np_b_parts. apply mret_inv in R as (-> & -> & ->).
    destruct sub as [[so sl]|]; unfold with_b; rewrite (abs_lookup _ _ _ Hx); cbn [aval sv_kind kind_of sv_bytes]; [|done]. rewrite Hlen.
    destruct (sl =? 0); [by apply np_no in E; [|np_auto]|]. passert E; [by rewrite R|]. pose proof (slice_panics _ _ _ _ _ _ _ _ _ _ _ _ Hx E) as Hs. rewrite R in Hs. rewrite andb_true_r in Hs. lia.
  - destruct Hok as (ko & o & l & vt & a & Hx). pose proof (view_len s _ D (lwf_typed _ _ L _ _ Hx)) as Hlen. cbn [h_len] in Hlen.
    unfold with_b. rewrite (abs_lookup _ _ _ Hx). cbn [aval sv_kind kind_of sv_bytes]. rewrite Hlen.
    unfold bytes_split_off in E. apply bind_pinv in E as [E|(y & s1 & e1 & R & E)]; [by rewrite (split_core_panics _ _ _ _ _ _ _ _ _ _ _ Hx E)|]. exfalso. revert E. apply np_no. np_auto.
  - destruct Hok as (ko & o & l & vt & a & Hx). pose proof (view_len s _ D (lwf_typed _ _ L _ _ Hx)) as Hlen. cbn [h_len] in Hlen.
    unfold with_b. rewrite (abs_lookup _ _ _ Hx). cbn [aval sv_kind kind_of sv_bytes]. rewrite Hlen.
    unfold bytes_split_to in E. pnp E np_get_h. inv_get_h R. rewrite Hx in R. injection R as <-. pnp E np_b_parts. apply mret_inv in R as (-> & -> & ->).
    destruct (at_ =? l); [by apply np_no in E; [|np_auto]|]. destruct (at_ =? 0); [by apply np_no in E; [|np_auto]|]. passert E; [by rewrite R|].
    exfalso. revert E. apply np_no. npa.
  - exfalso. destruct Hok as (ko & o & l & vt & a & Hx). eapply (truncate_no_panic _ _ _ _ _ _ _ _ _ _ _ Hx E).
  - exfalso. destruct Hok as (ko & o & l & vt & a & Hx). eapply (truncate_no_panic _ _ _ _ _ _ _ _ _ _ _ Hx E).
  - destruct Hok as (ko & o & l & vt & a & Hx). pose proof (view_len s _ D (lwf_typed _ _ L _ _ Hx)) as Hlen. cbn [h_len] in Hlen.
    unfold with_b. rewrite (abs_lookup _ _ _ Hx). cbn [aval sv_kind kind_of sv_bytes]. rewrite Hlen.
    pnp E np_get_h. inv_get_h R. rewrite Hx in R. injection R as <-. pnp E np_b_parts. apply mret_inv in R as (-> & -> & ->). passert E; [by rewrite R|]. exfalso. revert E. apply np_no. np_auto.
  - exfalso. revert E. apply np_no. npa.
  - exfalso. revert E. apply np_no. npa.
  - destruct Hok as (k & o & l & c & kd & Hx). rewrite Hx. cbn [h_cap]. unfold with_b. rewrite (abs_lookup _ _ _ Hx). cbn [aval sv_kind kind_of sv_bytes].
    unfold m_split_off in E. pnp E np_get_h. inv_get_h R. rewrite Hx in R. injection R as <-. pnp E np_m_parts. apply mret_inv in R as (-> & -> & ->). passert E; [by rewrite R|].
    exfalso. revert E. apply np_no. npa.
  - destruct Hok as (k & o & l & c & kd & Hx). pose proof (view_len s _ D (lwf_typed _ _ L _ _ Hx)) as Hlen. cbn [h_len] in Hlen.
    unfold with_b. rewrite (abs_lookup _ _ _ Hx). cbn [aval sv_kind kind_of sv_bytes]. rewrite Hlen.
    unfold m_split_to in E. pnp E np_get_h. inv_get_h R. rewrite Hx in R. injection R as <-. pnp E np_m_parts. apply mret_inv in R as (-> & -> & ->). passert E; [by rewrite R|].
    exfalso. revert E. apply np_no. npa.
  - destruct Hok as (k & o & l & c & kd & Hx). exfalso.
    pnp E np_get_h. inv_get_h R. rewrite Hx in R. injection R as <-. pnp E np_m_parts. apply mret_inv in R as (-> & -> & ->).
    unfold m_split_to in E. pnp E np_get_h. inv_get_h R. rewrite Hx in R. injection R as <-. pnp E np_m_parts. apply mret_inv in R as (-> & -> & ->). passert E; [lia|].
    revert E. apply np_no. npa.
  - exfalso. revert E. apply np_no. npa.
  - exfalso. revert E. apply np_no. npa.
  - destruct Hok as (k & o & l & c & kd & Hx). pose proof (view_len s _ D (lwf_typed _ _ L _ _ Hx)) as Hlen. cbn [h_len] in Hlen.
    unfold with_b. rewrite (abs_lookup _ _ _ Hx). cbn [aval sv_kind kind_of sv_bytes]. rewrite Hlen.
    pnp E np_get_h. inv_get_h R. rewrite Hx in R. injection R as <-. pnp E np_m_parts. apply mret_inv in R as (-> & -> & ->). passert E; [by rewrite R|].
    exfalso. revert E. apply np_no. npa.
  - exfalso. revert E. apply np_no. apply (freeze_never_panics orc).
  - destruct Hok as (k & o & l & c & kd & Hx). pose proof (view_len s _ D (lwf_typed _ _ L _ _ Hx)) as Hlen. cbn [h_len] in Hlen.
    unfold with_b. rewrite (abs_lookup _ _ _ Hx). cbn [aval sv_kind kind_of sv_bytes]. rewrite Hlen.
    pnp E np_get_h. inv_get_h R. rewrite Hx in R. injection R as <-. pnp E np_m_parts. apply mret_inv in R as (-> & -> & ->). passert E; [by rewrite R|].
    exfalso. revert E. apply np_no. npa.
  - exfalso. revert E. apply np_no. npa.
  - exfalso. revert E. apply np_no. npa.
Qed.
End P.

(* an argument-checked call panics exactly when M1 says it is out of contract; otherwise it returns (it never gets stuck) *)
Theorem panics_exactly orcs n s o : (forall i, oracle_sane (orcs i)) -> reach orcs n s -> op_ok s o -> arg_checked o = true ->
  (exists s' e', run_op (orcs n) o s = PANIC s' e') <-> (forall uniq, sstep (cap_of s o) uniq o (abs s) = SPanic).
Proof.
  intros Ho R Hok Ha. pose proof (reach_wf _ _ _ R) as W. pose proof (reach_dlen _ _ _ R) as D. split.
  - intros (s' & e' & E). by eapply panic_only_out_of_contract.
  - intros Hp. pose proof (wf_preserved (orcs n) o s W Hok) as Hw. destruct (run_op (orcs n) o s) as [r s' e'|s' e'|] eqn:E; [|eauto|done].
    destruct (m2_refines_m1_reachable _ _ _ _ _ _ _ Ho R Hok E) as [u Hu]. by rewrite Hp in Hu.
Qed.

(* M6 — consumers of user-supplied SAFE trait implementations, under an adversary (C17).
   A `Buf` leaf whose remaining()/chunk()/advance()/chunks_vectored() answers are arbitrary functions of the call number
   (the x-prefixed names avoid clashes with M4 in the extracted code) (so: mutually inconsistent, different per call even through &self, or panicking), an iterator with an arbitrary size
   hint.  The crate-side consumers are transliterated in state-passing form; each of their `unsafe` blocks is one of the
   primitives raw_* below, whose precondition failing is the outcome AUB.  Definitions only (proofs: AdversaryLaws.v). *)
From Coq Require Import Lia.
From BV Require Import Base.
Local Open Scope N_scope.

Inductive ares (A : Type) := AOk (a : A) | APanic | AUB | AHang.
Arguments AOk {A} a. Arguments APanic {A}. Arguments AUB {A}. Arguments AHang {A}.
Definition abind {A B} (r : ares A) (f : A -> ares B) : ares B :=
  match r with AOk a => f a | APanic => APanic | AUB => AUB | AHang => AHang end.
Notation "'ado' x <- r ; k" := (abind r (fun x => k)) (at level 200, x pattern, r at level 100, k at level 200, right associativity).

Definition xisize_max : N := 9223372036854775807.

(* ---- the adversary: every answer is a function of how many calls of that kind came before ---- *)
Record adversary := {
  a_rem : nat -> option N;                          (* None: the call panics *)
  a_chunk : nat -> option (list byte);              (* the slice handed out; its length is REAL (safe code cannot fake a slice) *)
  a_adv : nat -> N -> bool;                         (* true: xadvance(cnt) panics *)
  a_vec : nat -> option (N * list (list byte)) }.   (* chunks_vectored: the count it claims, the slices it stores into the scratch *)
Record ctr := { k_rem : nat; k_chunk : nat; k_adv : nat; k_vec : nat }.
Definition k0 : ctr := {| k_rem := 0; k_chunk := 0; k_adv := 0; k_vec := 0 |}.
Definition tick_rem k := {| k_rem := S (k_rem k); k_chunk := k_chunk k; k_adv := k_adv k; k_vec := k_vec k |}.
Definition tick_chunk k := {| k_rem := k_rem k; k_chunk := S (k_chunk k); k_adv := k_adv k; k_vec := k_vec k |}.
Definition tick_adv k := {| k_rem := k_rem k; k_chunk := k_chunk k; k_adv := S (k_adv k); k_vec := k_vec k |}.
Definition tick_vec k := {| k_rem := k_rem k; k_chunk := k_chunk k; k_adv := k_adv k; k_vec := S (k_vec k) |}.

(* adapter trees around adversarial leaves (all leaves draw from the one adversary: since the consumers are deterministic
   this loses no generality); TGood is an honest &[u8] *)
Inductive tree := TAdv | TGood (bs : list byte) | TTake (limit : N) (t : tree) | TChain (a b : tree).

Section WithAdversary.
Variable A : adversary.

Fixpoint xremaining (t : tree) (k : ctr) : ares (N * ctr) :=
  match t with
  | TAdv => match a_rem A (k_rem k) with Some n => AOk (n, tick_rem k) | None => APanic end
  | TGood bs => AOk (lenN bs, k)
  | TTake l t => ado (r, k) <- xremaining t k; AOk (N.min r l, k)                                  (* take.rs *)
  | TChain a b => ado (ra, k) <- xremaining a k; ado (rb, k) <- xremaining b k; AOk (sat_add ra rb, k)   (* chain.rs *)
  end.
Fixpoint xchunk (t : tree) (k : ctr) : ares (list byte * ctr) :=
  match t with
  | TAdv => match a_chunk A (k_chunk k) with Some c => AOk (c, tick_chunk k) | None => APanic end
  | TGood bs => AOk (bs, k)
  | TTake l t => ado (c, k) <- xchunk t k; AOk (firstnN (N.min (lenN c) l) c, k)                  (* &bytes[..min(len, limit)] *)
  | TChain a b => ado (ra, k) <- xremaining a k; if 0 <? ra then xchunk a k else xchunk b k
  end.
Fixpoint xadvance (t : tree) (cnt : N) (k : ctr) {struct t} : ares (tree * ctr) :=
  match t with
  | TAdv => if a_adv A (k_adv k) cnt then APanic else AOk (TAdv, tick_adv k)
  | TGood bs => if lenN bs <? cnt then APanic else AOk (TGood (skipN cnt bs), k)                  (* panic_advance *)
  | TTake l t => if l <? cnt then APanic                                                          (* assert!(cnt <= self.limit) *)
                 else ado (t', k) <- xadvance t cnt k; AOk (TTake (l - cnt) t', k)
  | TChain a b =>
      ado (ra, k) <- xremaining a k;
      if negb (ra =? 0) then
        if cnt <=? ra then ado (a', k) <- xadvance a cnt k; AOk (TChain a' b, k)
        else ado (a', k) <- xadvance a ra k; ado (b', k) <- xadvance b (cnt - ra) k; AOk (TChain a' b', k)
      else ado (b', k) <- xadvance b cnt k; AOk (TChain a b', k)
  end.

(* ---- the unsafe primitives: the ONLY sources of AUB ---- *)
(* `*(src as *const [_; SIZE])`: reads SIZE bytes at src *)
Definition raw_read_array (src : list byte) (size : N) : ares (list byte) :=
  if size <=? lenN src then AOk (firstnN size src) else AUB.
(* ptr::copy_nonoverlapping(src, dst, cnt): cnt bytes must be readable at src and writable at dst *)
Definition raw_copy (dst_room src_len cnt : N) : ares unit :=
  if (cnt <=? dst_room) && (cnt <=? src_len) then AOk tt else AUB.

(* ---- Buf consumers (buf_impl.rs) ---- *)
Inductive tcs A := TcsOk (a : A) | TcsErr (requested available : N).
Arguments TcsOk {A} a. Arguments TcsErr {A}.

(* the loop of xtry_copy_to_slice: safe code (slice indexing by min of the two real lengths) *)
Fixpoint xtcs_loop (fuel : nat) (need : N) (acc : list byte) (t : tree) (k : ctr) : ares (tree * list byte * ctr) :=
  if need =? 0 then AOk (t, acc, k) else
  match fuel with O => AHang | S fuel =>
    ado (c, k) <- xchunk t k;
    let cnt := N.min (lenN c) need in
    ado (t, k) <- xadvance t cnt k;
    xtcs_loop fuel (need - cnt) (acc ++ firstnN cnt c) t k
  end.
Definition xtry_copy_to_slice (fuel : nat) (t : tree) (n : N) (k : ctr) : ares (tcs (tree * list byte) * ctr) :=
  ado (r, k) <- xremaining t k;
  if r <? n then ado (r2, k) <- xremaining t k; AOk (TcsErr n r2, k)
  else ado (t, bs, k) <- xtcs_loop fuel n [] t k; AOk (TcsOk (t, bs), k).
Definition xcopy_to_slice (fuel : nat) (t : tree) (n : N) (k : ctr) : ares (tree * list byte * ctr) :=
  ado (r, k) <- xtry_copy_to_slice fuel t n k;
  match r with TcsOk (t, bs) => AOk (t, bs, k) | TcsErr _ _ => APanic end.
(* buf_try_get_impl!, first arm: the fixed-size getters *)
Definition try_get_fixed (fuel : nat) (t : tree) (size : N) (k : ctr) : ares (tcs (tree * list byte) * ctr) :=
  ado (r, k) <- xremaining t k;
  if r <? size then ado (r2, k) <- xremaining t k; AOk (TcsErr size r2, k)
  else
    ado (c, k) <- xchunk t k;
    if size <=? lenN c                                   (* .get(..SIZE) is Some *)
    then ado v <- raw_read_array c size; ado (t, k) <- xadvance t size k; AOk (TcsOk (t, v), k)
    else ado (t, bs, k) <- xcopy_to_slice fuel t size k; AOk (TcsOk (t, bs), k).
(* try_get_u8 is written by hand in buf_impl.rs: chunk()[0] *)
Definition try_get_u8 (t : tree) (k : ctr) : ares (tcs (tree * list byte) * ctr) :=
  ado (r, k) <- xremaining t k;
  if r <? 1 then ado (r2, k) <- xremaining t k; AOk (TcsErr 1 r2, k)
  else ado (c, k) <- xchunk t k;
       match c with [] => APanic | b :: _ => ado (t, k) <- xadvance t 1 k; AOk (TcsOk (t, [b]), k) end.
(* Reader::read(dst) *)
Definition xreader_read (fuel : nat) (t : tree) (dst_len : N) (k : ctr) : ares (tree * list byte * ctr) :=
  ado (r, k) <- xremaining t k; xcopy_to_slice fuel t (N.min r dst_len) k.
(* IntoIter::next *)
Definition xiter_next (t : tree) (k : ctr) : ares (option (tree * byte) * ctr) :=
  ado (r, k) <- xremaining t k;
  if r =? 0 then AOk (None, k) else
  ado (c, k) <- xchunk t k;
  match c with [] => APanic | b :: _ => ado (t, k) <- xadvance t 1 k; AOk (Some (t, b), k) end.

(* ---- BytesMut as a target (bytes_mut.rs): contents, capacity; `grow` is the slack the allocator/policy adds ---- *)
Record bm := { bm_data : list byte; bm_cap : N }.
Variable grow : N -> N.
Definition bm_reserve (n : N) (b : bm) : ares bm :=
  if n <=? bm_cap b - lenN (bm_data b) then AOk b
  else if xisize_max <? lenN (bm_data b) + n then APanic                       (* capacity overflow *)
  else AOk {| bm_data := bm_data b; bm_cap := lenN (bm_data b) + n + grow (lenN (bm_data b) + n) |}.   (* C04: reserve_post *)
Definition bm_advance_mut (s : list byte) (b : bm) : ares bm :=
  if bm_cap b - lenN (bm_data b) <? lenN s then APanic else AOk {| bm_data := bm_data b ++ s; bm_cap := bm_cap b |}.
Definition bm_extend_from_slice (s : list byte) (b : bm) : ares bm :=
  ado b <- bm_reserve (lenN s) b;
  ado _ <- raw_copy (bm_cap b - lenN (bm_data b)) (lenN s) (lenN s);
  bm_advance_mut s b.
(* BufMut::put for BytesMut (specialised) *)
Fixpoint bm_put (fuel : nat) (t : tree) (b : bm) (k : ctr) : ares (tree * bm * ctr) :=
  match fuel with O => AHang | S fuel =>
    ado (r, k) <- xremaining t k;
    if r =? 0 then AOk (t, b, k) else
    ado (s, k) <- xchunk t k;
    ado b <- bm_extend_from_slice s b;
    ado (t, k) <- xadvance t (lenN s) k;
    bm_put fuel t b k
  end.
Definition bm_with_capacity (n : N) : ares bm := if xisize_max <? n then APanic else AOk {| bm_data := []; bm_cap := n |}.

(* default Buf::xcopy_to_bytes *)
Definition copy_to_bytes_default (fuel : nat) (t : tree) (len : N) (k : ctr) : ares (tree * list byte * ctr) :=
  ado (r, k) <- xremaining t k;
  if r <? len then ado (_, k) <- xremaining t k; APanic else
  ado b <- bm_with_capacity len;
  ado (t', b, k) <- bm_put fuel (TTake len t) b k;
  match t' with TTake _ t => AOk (t, bm_data b, k) | _ => APanic end.
(* with the overrides of Take and Chain *)
Fixpoint xcopy_to_bytes (fuel : nat) (t : tree) (len : N) (k : ctr) {struct t} : ares (tree * list byte * ctr) :=
  match t with
  | TAdv | TGood _ => copy_to_bytes_default fuel t len k
  | TTake l t' =>
      ado (r, k) <- xremaining t k;
      if r <? len then APanic else
      ado (t', bs, k) <- xcopy_to_bytes fuel t' len k; AOk (TTake (l - len) t', bs, k)
  | TChain a b =>
      ado (ra, k) <- xremaining a k;
      if len <=? ra then ado (a', bs, k) <- xcopy_to_bytes fuel a len k; AOk (TChain a' b, bs, k)
      else if ra =? 0 then ado (b', bs, k) <- xcopy_to_bytes fuel b len k; AOk (TChain a b', bs, k)
      else
        ado (rb, k) <- xremaining b k;
        if rb <? len - ra then APanic else
        ado ret <- bm_with_capacity len;
        ado (a', ret, k) <- bm_put fuel a ret k;
        ado (tb, ret, k) <- bm_put fuel (TTake (len - ra) b) ret k;
        match tb with TTake _ b' => AOk (TChain a' b', bm_data ret, k) | _ => APanic end
  end.

(* ---- Vec<u8> as a target (buf_mut.rs): std's reserve / extend_from_slice are safe code ---- *)
Fixpoint vec_put_loop (fuel : nat) (t : tree) (v : list byte) (k : ctr) : ares (tree * list byte * ctr) :=
  match fuel with O => AHang | S fuel =>
    ado (r, k) <- xremaining t k;
    if r =? 0 then AOk (t, v, k) else
    ado (s, k) <- xchunk t k;
    if xisize_max <? lenN v + lenN s then APanic else
    ado (t, k) <- xadvance t (lenN s) k;
    vec_put_loop fuel t (v ++ s) k
  end.
Definition vec_put (fuel : nat) (t : tree) (v : list byte) (k : ctr) : ares (tree * list byte * ctr) :=
  ado (r, k) <- xremaining t k;
  if xisize_max <? lenN v + r then APanic else vec_put_loop fuel t v k.

(* ---- &mut [u8] as a target: the default BufMut::put with UninitSlice::copy_from_slice ---- *)
Record sl := { s_room : N; s_written : list byte }.
Definition uninit_copy_from_slice (dst_len : N) (src : list byte) : ares unit :=
  if negb (dst_len =? lenN src) then APanic                       (* assert_eq!(self.len(), src.len()) *)
  else raw_copy dst_len (lenN src) dst_len.
Definition sl_advance_mut (s : list byte) (d : sl) : ares sl :=
  if s_room d <? lenN s then APanic else AOk {| s_room := s_room d - lenN s; s_written := s_written d ++ s |}.
Fixpoint sl_put_loop (fuel : nat) (t : tree) (d : sl) (k : ctr) : ares (tree * sl * ctr) :=
  match fuel with O => AHang | S fuel =>
    ado (r, k) <- xremaining t k;
    if r =? 0 then AOk (t, d, k) else
    ado (s, k) <- xchunk t k;
    let cnt := N.min (lenN s) (s_room d) in
    ado _ <- uninit_copy_from_slice (N.min cnt (s_room d)) (firstnN cnt s);        (* d[..cnt].copy_from_slice(&s[..cnt]) *)
    ado d <- sl_advance_mut (firstnN cnt s) d;
    ado (t, k) <- xadvance t cnt k;
    sl_put_loop fuel t d k
  end.
Definition sl_put (fuel : nat) (t : tree) (d : sl) (k : ctr) : ares (tree * sl * ctr) :=
  ado (r, k) <- xremaining t k;
  if s_room d <? r then ado (_, k) <- xremaining t k; APanic else sl_put_loop fuel t d k.

(* ---- Take::chunks_vectored over an adversarial inner buffer ---- *)
Definition TAKE_LEN : N := 16.
Fixpoint pad_to (n : nat) (l : list (list byte)) : list (list byte) :=
  match n with O => [] | S n => match l with [] => [] :: pad_to n [] | x :: l => x :: pad_to n l end end.
(* the loop over dst[..cnt].zip(slices): returns the slices stored into dst and, when a slice reaches the limit, the early count *)
Fixpoint tv_loop (cnt : nat) (slices : list (list byte)) (limit : N) (i : N) (out : list (list byte)) : list (list byte) * option N :=
  match cnt, slices with
  | S cnt, s :: slices =>
      if limit <=? lenN s then (out ++ [firstnN limit s], Some (i + 1))                  (* slice.get(..limit) is Some *)
      else tv_loop cnt slices (limit - lenN s) (i + 1) (out ++ [s])
  | _, _ => (out, None)
  end.
Definition take_chunks_vectored (limit dst_len : N) (k : ctr) : ares (N * list (list byte) * ctr) :=
  if limit =? 0 then AOk (0, [], k) else
  match a_vec A (k_vec k) with
  | None => APanic
  | Some (cnt, written) =>
      let k := tick_vec k in
      let scratch := N.min dst_len TAKE_LEN in
      let slices := pad_to (N.to_nat TAKE_LEN) (firstnN scratch written) in       (* it can only store into the scratch it was given *)
      if dst_len <? cnt then APanic                                              (* dst[..cnt] *)
      else let '(out, early) := tv_loop (N.to_nat cnt) slices limit 0 [] in
           AOk (match early with Some n => n | None => cnt end, out, k)
  end.

(* ---- iterators with arbitrary hints (Extend<u8> for BytesMut) ---- *)
Record iadv := { i_hint : option N; i_next : nat -> option (option byte) }.   (* None: that call panics; Some None: end of iteration *)
Fixpoint bm_extend_loop (fuel : nat) (I : iadv) (i : nat) (b : bm) : ares bm :=
  match fuel with O => AHang | S fuel =>
    match i_next I i with
    | None => APanic
    | Some None => AOk b
    | Some (Some x) => ado b <- bm_extend_from_slice [x] b; bm_extend_loop fuel I (S i) b     (* put_u8 -> put_slice -> extend_from_slice *)
    end
  end.
Definition bm_extend_iter (fuel : nat) (I : iadv) (b : bm) : ares bm :=
  match i_hint I with None => APanic | Some lower => ado b <- bm_reserve lower b; bm_extend_loop fuel I 0 b end.

End WithAdversary.

(* ---- Bytes::from_owner with an owner whose as_ref() answers differently per call (or panics) ---- *)
(* an answer is a region the owner really holds: (region id, its length); the stored view is (pointer-of, length-of) *)
Record oadv := { o_ref : nat -> option (N * N) }.
Record oview := { ov_region : N; ov_len : N; ov_calls : nat; ov_owner_drops : nat }.
Definition from_owner (O : oadv) : ares oview :=
  match o_ref O 0%nat with
  | None => APanic                                         (* `ret` is dropped while unwinding: owned_drop -> the owner is dropped once *)
  | Some (p, l) => AOk {| ov_region := p; ov_len := l; ov_calls := 1; ov_owner_drops := 0 |}
  end.
(* reading the view is in bounds iff the owner handed out that region with at least that length *)
Definition view_in_bounds (O : oadv) (v : oview) : Prop := exists i l, o_ref O i = Some (ov_region v, l) /\ ov_len v <= l.

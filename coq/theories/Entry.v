(* Theorems about the entry points of EntryDef.v: the two models compute the same expansion on related states, and the refinement of histories
   carries over to every entry point. *)
From stdpp Require Import gmap.
From Coq Require Import NArith Lia String.
From BV Require Import Base BaseLemmas BufMut Heap HeapLaws HeapPanic HeapWF HeapWFPrim HeapWFOps HeapWFMain HeapFrame SizeInv Spec RefineM1 RefineCor EntryDef.
Local Open Scope N_scope.

Lemma hlen_eq x : hlen x = h_len x. Proof. reflexivity. Qed.
Lemma hview_eq sm x : hview sm x = view sm x. Proof. reflexivity. Qed.
Lemma view_len sm x : (forall k st, sm !! k = Some st -> lenN (s_data st) = s_size st) -> typed sm x -> lenN (view sm x) = h_len x.
Proof.
  intros D Ht. destruct x as [[k|] o l vt a|k o l c kd|k l c]; cbn [view h_len].
  - destruct vt; cbn [typed] in Ht.
    1: { destruct Ht as [-> | (st & Hs & _ & Hb)]; [destruct (sm !! k); [by rewrite rd_zero|done]|]. rewrite Hs. apply lenN_rd. by rewrite (D _ _ Hs). }
    all: destruct Ht as (st & Hs & _ & Hb & _); rewrite Hs; apply lenN_rd; by rewrite (D _ _ Hs).
  - by destruct Ht as [-> _].
  - destruct kd; cbn [typed] in Ht.
    + destruct Ht as (st & Hs & _ & _ & _ & Hc & Hl). rewrite Hs. apply lenN_rd. rewrite (D _ _ Hs). lia.
    + destruct Ht as (st & Hs & _ & _ & _ & Hc & Hl). rewrite Hs. apply lenN_rd. rewrite (D _ _ Hs). lia.
  - destruct Ht as (st & Hs & _ & _ & _ & Hc & Hl). rewrite Hs. apply lenN_rd. rewrite (D _ _ Hs). lia.
Qed.
Lemma expand_agree s x : WF s -> dlen s -> expand (view2 s) x = expand (view1 (abs s)) x.
Proof.
  intros [W _] D. destruct x; cbn [expand]; try reflexivity.
  - (* put_bytes *) f_equal. f_equal. f_equal. unfold view2, view1, abs. cbn [xv_len vals]. rewrite lookup_fmap.
    destruct (hs s !! h) as [y|] eqn:Hh; cbn [from_option fmap option_fmap option_map]; [|done].
    cbn [aval sv_bytes]. rewrite hlen_eq. symmetry. apply view_len; [exact D|]. by eapply lwf_typed.
  - (* put(Bytes) *) f_equal. f_equal. unfold view2, view1, abs. cbn [xv_bytes vals]. rewrite lookup_fmap. destruct (hs s !! j); [|done]. cbn [from_option fmap option_fmap option_map aval sv_bytes]. apply hview_eq.
Qed.
(* the refinement of histories (RefineCor.history_refinement) for the operations an entry point stands for *)
Theorem entry_refinement orcs n s x rs s' : (forall i, oracle_sane (orcs i)) -> reach orcs n s ->
  m2steps orcs n s (expand (view2 s) x) rs s' -> m1steps (abs s) (expand (view1 (abs s)) x) rs (abs s').
Proof.
  intros Ho R H. rewrite <- expand_agree; [|by eapply reach_wf|by eapply reach_dlen]. by eapply history_refinement.
Qed.
(* non-vacuity: Buf::copy_to_bytes on a BytesMut built from a slice runs in M2 through its expansion, the returned Bytes reads the first two
   bytes and the BytesMut the rest *)
Definition orc0 : oracle := {| or_caps := [] |}.
Fixpoint eqbl (a b : list byte) : bool := match a, b with [], [] => true | x :: a, y :: b => (x =? y) && eqbl a b | _, _ => false end.
Definition entry_demo : bool :=
  match run_op orc0 (OMFromSlice [1; 2; 3]) (hst0 false) with
  | OK (RH h1) s1 _ =>
    match expand (view2 s1) (XMCopyToBytes h1 2) with
    | [o1; o2] =>
      match run_op orc0 o1 s1 with
      | OK _ s2 _ => match run_op orc0 o2 s2 with
                     | OK (RH h3) s3 _ => eqbl (xv_bytes (view2 s3) h3) [1; 2] && eqbl (xv_bytes (view2 s3) h1) [3]
                     | _ => false end
      | _ => false end
    | _ => false end
  | _ => false end.
Example entry_runs : entry_demo = true.
Proof. vm_compute. reflexivity. Qed.

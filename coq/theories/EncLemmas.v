(* Encoding lemmas: le_bytes/be_bytes, truncation of the 8-byte encoding (put_uint/put_int), put-get round trip. *)
From stdpp Require Import list.
From Coq Require Import NArith ZArith Lia ZifyN ZifyNat ZifyBool.
From BV Require Import Base BaseLemmas Codec CodecLemmas BufSpec.
Local Open Scope N_scope.
Ltac Zify.zify_post_hook ::= Z.div_mod_to_equations.
Arguments N.add : simpl never. Arguments N.mul : simpl never. Arguments N.pow : simpl never. Arguments N.sub : simpl never.
Arguments N.div : simpl never. Arguments N.modulo : simpl never.

Lemma le_bytes_length n v : length (le_bytes n v) = n.
Proof. revert v; induction n as [|n IH]; intros v; simpl; [done|]. by rewrite IH. Qed.
Lemma lenN_le_bytes n v : lenN (le_bytes n v) = N.of_nat n.
Proof. unfold lenN. by rewrite le_bytes_length. Qed.
Lemma le_bytes_ok n v : bytes_ok (le_bytes n v).
Proof. revert v; induction n as [|n IH]; intros v; simpl; constructor; [|apply IH]. apply N.mod_lt. lia. Qed.
Lemma le_bytes_app n m v : le_bytes (n + m) v = le_bytes n v ++ le_bytes m (v / 256 ^ N.of_nat n).
Proof.
  revert v; induction n as [|n IH]; intros v; cbn [le_bytes Nat.add app].
  - change (256 ^ N.of_nat 0) with 1. by rewrite N.div_1_r.
  - rewrite IH. do 3 f_equal. rewrite Nat2N.inj_succ, N.pow_succ_r', N.div_div by (try apply N.pow_nonzero; lia). done.
Qed.
Lemma le_bytes_mod n v : le_bytes n (v mod 256 ^ N.of_nat n) = le_bytes n v.
Proof.
  revert v; induction n as [|n IH]; intros v; cbn [le_bytes]; [done|].
  rewrite Nat2N.inj_succ, N.pow_succ_r'.
  assert (256 ^ N.of_nat n <> 0) as Hp by (apply N.pow_nonzero; lia).
  rewrite (N.mod_mul_r v 256 (256 ^ N.of_nat n)) by lia. rewrite (N.mul_comm 256).
  f_equal.
  - rewrite N.mod_add by lia. apply N.mod_mod. lia.
  - rewrite N.div_add by lia. rewrite (N.div_small (v mod 256)) by (apply N.mod_lt; lia). rewrite N.add_0_l. apply IH.
Qed.
Lemma le_val_le_bytes n v : le_val (le_bytes n v) = v mod 256 ^ N.of_nat n.
Proof.
  revert v; induction n as [|n IH]; intros v; cbn [le_bytes le_val]; [change (256 ^ N.of_nat 0) with 1; by rewrite N.mod_1_r|].
  rewrite IH. rewrite Nat2N.inj_succ, N.pow_succ_r'.
  assert (256 ^ N.of_nat n <> 0) as Hp by (apply N.pow_nonzero; lia).
  rewrite (N.mod_mul_r v 256) by lia. done.
Qed.
Lemma be_val_rev l : be_val (rev l) = le_val l.
Proof.
  induction l as [|b r IH]; cbn [rev le_val]; [done|]. unfold be_val. rewrite fold_left_app. cbn [fold_left].
  change (fold_left (fun acc b0 : N => acc * 256 + b0) (rev r) 0) with (be_val (rev r)). rewrite IH. lia.
Qed.
Lemma uval_enc e size z : uval e (enc e size z) = to_unsigned (8 * size) z mod 256 ^ size.
Proof.
  unfold enc, uval. destruct e.
  - unfold be_bytes. rewrite be_val_rev, le_val_le_bytes. by rewrite N2Nat.id.
  - rewrite le_val_le_bytes. by rewrite N2Nat.id.
Qed.
Lemma to_unsigned_lt bits z : to_unsigned bits z < 2 ^ bits.
Proof. unfold to_unsigned. assert (0 < 2 ^ bits) by (apply N.neq_0_lt_0, N.pow_nonzero; lia). lia. Qed.
Lemma lenN_enc e size z : lenN (enc e size z) = size.
Proof. unfold enc, be_bytes. destruct e; unfold lenN; rewrite ?rev_length, le_bytes_length; lia. Qed.
Lemma enc_ok e size z : bytes_ok (enc e size z).
Proof. unfold enc, be_bytes. destruct e; [apply Forall_rev|]; apply le_bytes_ok. Qed.

(* put then get: the value comes back when it is representable in `size` bytes *)
Theorem roundtrip_unsigned e size z : (0 <= z < Z.of_N (2 ^ (8 * size)))%Z -> dec e false (enc e size z) = z.
Proof.
  intros Hz. unfold dec. rewrite uval_enc, pow256. rewrite N.mod_small by apply to_unsigned_lt.
  unfold to_unsigned. rewrite Z.mod_small by exact Hz. apply Z2N.id. apply Hz.
Qed.
Theorem roundtrip_signed e size z : 0 < size -> (- Z.of_N (2 ^ (8 * size - 1)) <= z < Z.of_N (2 ^ (8 * size - 1)))%Z ->
  dec e true (enc e size z) = z.
Proof.
  intros Hs Hz. unfold dec. rewrite lenN_enc, uval_enc, pow256. pose proof (to_unsigned_lt (8 * size) z).
  rewrite N.mod_small by done. unfold to_signed, to_unsigned. replace (8 * size =? 0) with false by lia.
  assert (2 ^ (8 * size) = 2 * 2 ^ (8 * size - 1)) as HQ by (rewrite <- N.pow_succ_r'; f_equal; lia).
  rewrite HQ in *. remember (2 ^ (8 * size - 1)) as Q eqn:EQ. clear EQ HQ.
  assert (0 < Q) by lia.
  assert ((z mod Z.of_N (2 * Q))%Z = if (z <? 0)%Z then (z + Z.of_N (2 * Q))%Z else z) as Hm.
  { destruct (z <? 0)%Z eqn:Ez.
    - rewrite <- (Z.mod_add z 1 (Z.of_N (2 * Q))) by lia. rewrite Z.mul_1_l. apply Z.mod_small. lia.
    - apply Z.mod_small. lia. }
  rewrite Hm. destruct (z <? 0)%Z eqn:Ez; destruct (_ <? Q) eqn:E; lia.
Qed.

(* put_uint / put_int: the low-order nbytes of the 8-byte encoding ARE the nbytes encoding *)
Lemma to_unsigned_mod a b z : a <= b -> to_unsigned b z mod 2 ^ a = to_unsigned a z.
Proof.
  intros Hab. unfold to_unsigned.
  assert (2 ^ b = 2 ^ a * 2 ^ (b - a)) as Hb by (rewrite <- N.pow_add_r; f_equal; lia).
  assert (0 < 2 ^ a) as HP by (apply N.neq_0_lt_0, N.pow_nonzero; lia).
  assert (0 < 2 ^ (b - a)) as HQ by (apply N.neq_0_lt_0, N.pow_nonzero; lia).
  rewrite Hb. remember (2 ^ a) as P eqn:EP. remember (2 ^ (b - a)) as Q eqn:EQ. clear EP EQ Hb.
  apply N2Z.inj. rewrite N2Z.inj_mod, N2Z.inj_mul.
  assert (0 < Z.of_N P)%Z as HPz by lia. assert (0 < Z.of_N Q)%Z as HQz by lia.
  rewrite !Z2N.id by (apply Z.mod_pos_bound; lia).
  rewrite Z.rem_mul_r by lia. rewrite (Z.mul_comm (Z.of_N P)), Z.mod_add by lia. apply Z.mod_mod. lia.
Qed.
Theorem enc_le_truncate n z : n <= 8 -> firstnN n (enc LE 8 z) = enc LE n z.
Proof.
  intros Hn. unfold enc. rewrite firstnN_eq.
  replace (N.to_nat 8) with (N.to_nat n + (8 - N.to_nat n))%nat by lia.
  rewrite le_bytes_app. rewrite take_app_le by (rewrite le_bytes_length; lia). rewrite take_ge by (rewrite le_bytes_length; lia).
  rewrite <- (le_bytes_mod _ (to_unsigned (8 * 8) z)). rewrite N2Nat.id, pow256.
  by rewrite to_unsigned_mod by lia.
Qed.
Theorem enc_be_truncate n z : n <= 8 -> skipN (8 - n) (enc BE 8 z) = enc BE n z.
Proof.
  intros Hn. unfold enc, be_bytes.
  replace (N.to_nat 8) with (N.to_nat n + (8 - N.to_nat n))%nat by lia.
  rewrite le_bytes_app, rev_app_distr.
  rewrite skipN_app_ge by (unfold lenN; rewrite rev_length, le_bytes_length; lia).
  replace (8 - n - lenN _) with 0 by (unfold lenN; rewrite rev_length, le_bytes_length; lia).
  rewrite skipN_0. f_equal.
  rewrite <- (le_bytes_mod _ (to_unsigned (8 * 8) z)). rewrite N2Nat.id, pow256.
  by rewrite to_unsigned_mod by lia.
Qed.

(* The reserve policy of Recycle.v (M3) is what M2's transliterated m_reserve / reserve_inner computes on the abstraction of the
   recycling handle: V = size of the storage it sits on, off/len/cap as in the struct, vec = inline-Vec form, uniq = reference count 1. *)
From stdpp Require Import gmap.
From Coq Require Import NArith ZArith Lia String.
From BV Require Import Base BaseLemmas BufMut Heap HeapLaws HeapPanic HeapWF HeapWFPrim HeapWFOps Recycle.
Local Open Scope N_scope.
Arguments N.add : simpl never. Arguments N.sub : simpl never. Arguments N.ltb : simpl never. Arguments N.leb : simpl never. Arguments N.eqb : simpl never.

Definition nalloc (e : list ev) : Z := Z.of_nat (length (List.filter is_buf_alloc e)).
Lemma nalloc_app a b : nalloc (a ++ b) = (nalloc a + nalloc b)%Z.
Proof. unfold nalloc. rewrite filter_app, app_length. lia. Qed.
Definition rc_of (c : ctrl) : N := match c with CShared _ rc | CSharedV _ _ rc | CSharedVEmpty _ rc | COwned rc _ => rc | CNone => 0 end.
(* the abstract recycler state of a BytesMut handle *)
Definition absr (s : hst) (x : handle) (al : Z) : option Recycle.st :=
  match x with
  | HM k o l c kd =>
      match sts s !! k with
      | Some st => Some {| V := Z.of_N (s_size st); off := Z.of_N o; len := Z.of_N l; cap := Z.of_N c;
                           uniq := match kd with MVec _ => true | MArc => rc_of (s_ctrl st) =? 1 end;
                           vec := match kd with MVec _ => true | MArc => false end; allocs := al |}
      | None => None
      end
  | _ => None
  end.
Definition orig_of (s : hst) (x : handle) : Z :=
  match x with
  | HM k _ _ _ (MVec o) => Z.of_N (ocr_from_repr o)
  | HM k _ _ _ MArc => match sts s !! k with Some st => match s_ctrl st with CSharedV _ o _ => Z.of_N (ocr_from_repr o) | _ => 0%Z end | None => 0%Z end
  | _ => 0%Z
  end.

(* ---- what the allocation primitives return ---- *)
Lemma alloc_buf_res size init s e k' s1 e1 : alloc_buf size init s e = OK k' s1 e1 -> sts s !! k' = None ->
  exists st', sts s1 = <[k' := st']> (sts s) /\ s_size st' = size /\ s_ctrl st' = CNone /\ nalloc e1 = (nalloc e + (if (size =? 0)%N then 0 else 1))%Z.
Proof.
  unfold alloc_buf, mbind, mget, mput, emit, mret. destruct (size =? 0) eqn:Ez.
  - intros [= <- <- <-] _. eexists. split; [reflexivity|]. simpl. repeat split; [lia|lia].
  - destruct (isize_max <? size); [done|]. intros [= <- <- <-] _. eexists. split; [reflexivity|]. simpl. repeat split; try done.
    rewrite nalloc_app. unfold nalloc at 2. simpl. lia.
Qed.
Lemma realloc_buf_res orc k oldcap keep need s e k' c s1 e1 x : sfresh s -> sts s !! k = Some x -> need <> 0 ->
  realloc_buf orc k oldcap keep need s e = OK (k', c) s1 e1 ->
  k' <> k /\ sts s !! k' = None /\ c = N.max (or_pick orc need) need /\ nalloc e1 = (nalloc e + 1)%Z /\
  exists st', sts s1 !! k' = Some st' /\ s_size st' = c /\ s_ctrl st' = s_ctrl x /\ (forall k2, k2 <> k' -> k2 <> k -> sts s1 !! k2 = sts s !! k2).
Proof.
  intros (F1 & F2 & F3 & F4) Hx Hnz. unfold realloc_buf. destruct (isize_max <? need); [done|].
  set (newcap := N.max (or_pick orc need) need). assert (need <= newcap) as Hnc by (unfold newcap; lia). assert (newcap =? 0 = false) as Hc0 by lia.
  assert (sts s !! xO (next_real s) = None) as Hfr.
  { destruct (sts s !! xO (next_real s)) eqn:E; [|done]. assert (next_real s < next_real s)%positive by (apply F1; eauto). lia. }
  assert (xO (next_real s) <> k) as Hkk by (intros <-; congruence).
  unfold mbind at 1, get_st. rewrite Hx. unfold mbind at 1, mget. destruct (s_cls x) eqn:Hcl; try done.
  - unfold mbind, mcheck, mput, emit, mret. destruct (s_live x); [|done]. simpl. destruct (oldcap =? s_size x); [|done]. simpl.
    intros [= <- <- <- <-]. repeat split; try done.
    + rewrite nalloc_app. unfold nalloc at 2. simpl. lia.
    + eexists. cbn [sts]. rewrite lookup_insert. split; [reflexivity|]. cbn [s_size s_ctrl]. repeat split; try done. intros k2 H1 H2. by rewrite !lookup_insert_ne.
  - unfold mbind at 1. unfold alloc_buf, mbind, mget, mput, emit, mret, upd_st, get_st, put_st. rewrite Hc0. destruct (isize_max <? newcap); [done|]. simpl. unfold mbind. cbn [sts].
    rewrite lookup_insert. simpl. intros [= <- <- <- <-]. repeat split; try done.
    + rewrite nalloc_app. unfold nalloc at 2. simpl. lia.
    + eexists. unfold set_sts. cbn [sts]. rewrite lookup_insert_ne by congruence. rewrite lookup_insert. split; [reflexivity|]. cbn [with_ctrl s_size s_ctrl]. repeat split; try done. intros k2 H1 H2. by rewrite !lookup_insert_ne.
Qed.
Lemma keeps_mread_ev k o l s e : match mread k o l s e with OK _ s1 e1 => s1 = s /\ e1 = e | _ => True end.
Proof.
  unfold mread, mbind, get_st, mcheck, mret. destruct (l =? 0); [done|]. destruct (sts s !! k); [|done]. destruct (s_live _); [|done]. simpl. by destruct (_ <=? _).
Qed.
(* a write changes neither sizes nor control blocks nor the event log *)
Lemma mwrite_res k a bs s e s1 e1 : mwrite k a bs s e = OK tt s1 e1 ->
  e1 = e /\ forall k2, match sts s !! k2 with Some st => exists st1, sts s1 !! k2 = Some st1 /\ s_size st1 = s_size st /\ s_ctrl st1 = s_ctrl st | None => sts s1 !! k2 = None end.
Proof.
  unfold mwrite, mbind, get_st, mcheck, put_st, mret. destruct (lenN bs =? 0).
  { intros [= <- <-]. split; [done|]. intros k2. destruct (sts s !! k2); eauto. }
  destruct (sts s !! k) as [x|] eqn:Hx; [|done]. destruct (s_live x); [|done]. simpl. destruct (_ <=? _); [|done]. simpl.
  destruct (match s_cls x with SHeap => true | _ => false end); [|done]. simpl. intros [= <- <-]. split; [done|]. intros k2. simpl.
  destruct (decide (k2 = k)) as [->|?]; [rewrite Hx, lookup_insert; eauto|]. rewrite lookup_insert_ne by done. destruct (sts s !! k2); eauto.
Qed.
Lemma move_front_res k off l s e s1 e1 : (if l =? 0 then mret tt else let! bs := mread k off l in mwrite k 0 bs) s e = OK tt s1 e1 ->
  e1 = e /\ forall k2, match sts s !! k2 with Some st => exists st1, sts s1 !! k2 = Some st1 /\ s_size st1 = s_size st /\ s_ctrl st1 = s_ctrl st | None => sts s1 !! k2 = None end.
Proof.
  destruct (l =? 0). { intros [= <- <-]. split; [done|]. intros k2. destruct (sts s !! k2); eauto. }
  unfold mbind. pose proof (keeps_mread_ev k off l s e) as Hk. destruct (mread k off l s e) as [bs s0 e0| |]; try done. destruct Hk as [-> ->]. apply mwrite_res.
Qed.

Lemma land_usize v : 2 * v <= usize_max -> N.land (N.shiftl v 1) usize_max = 2 * v.
Proof.
  intros H. rewrite N.shiftl_mul_pow2. change usize_max with (N.ones 64). rewrite N.land_ones. rewrite N.mod_small; [lia|].
  change (2 ^ 64) with (usize_max + 1). change (2 ^ 1) with 2. lia.
Qed.
Local Open Scope Z_scope.
(* THE SIMULATION: one reserve of M2 on the recycling handle is one step of the abstract policy, with g the capacity the oracle delivered *)
Theorem m_reserve_sim orc a h x s e x1 s1 e1 r al :
  WF s -> hs s !! h = Some x -> absr s x al = Some r -> m_reserve orc a x s e = OK x1 s1 e1 ->
  Recycle.len r + Z.of_N a + Recycle.off r <= Z.of_N usize_max -> 2 * Recycle.V r <= Z.of_N usize_max ->
  (forall need, Z.of_N (or_pick orc need) <= Z.max (Z.max (2 * Recycle.V r) (Z.of_N need)) 8) ->
  exists g, absr s1 x1 (al + (nalloc e1 - nalloc e)) = Some (Recycle.reserve r (Z.of_N a) g) /\ Recycle.reserve_grow_ok (orig_of s x) r (Z.of_N a) g /\ orig_of s1 x1 = orig_of s x.
Proof.
  intros [L Hf] Hx Habs E Hov Hov2 Horc. destruct x as [|k o l c kd|]; try discriminate. pose proof (lwf_typed _ _ L _ _ Hx) as Hty.
  unfold absr in Habs. destruct (sts s !! k) as [st|] eqn:Hs; [|done]. injection Habs as <-. cbn [Recycle.len Recycle.off Recycle.V] in Hov, Hov2, Horc.
  unfold m_reserve in E. unfold Recycle.reserve, Recycle.reserve_grow_ok. cbn [Recycle.cap Recycle.len Recycle.off Recycle.V Recycle.vec Recycle.uniq Recycle.allocs].
  destruct (a <=? c - l)%N eqn:E0.
  { injection E as <- <- <-. exists 0. replace (Z.of_N a <=? Z.of_N c - Z.of_N l) with true by (destruct kd; simpl in Hty; destruct Hty as (? & ? & ? & ? & ? & ? & ?); lia).
    split; [|split; [exact I|done]]. unfold absr. rewrite Hs. do 2 f_equal. lia. }
  replace (Z.of_N a <=? Z.of_N c - Z.of_N l) with false by (destruct kd; simpl in Hty; destruct Hty as (? & ? & ? & ? & ? & ? & ?); lia).
  unfold mbind in E. destruct (reserve_inner orc a true (HM k o l c kd) s e) as [[x' b] s' e'| |] eqn:Er; try done. injection E as <- <- <-.
  pose proof (lwf_fresh _ _ L) as Fs.
  unfold reserve_inner in Er. destruct kd as [ocr|]; simpl in Hty.
  - (* inline Vec *)
    destruct Hty as (st0 & Hs0 & Hlv & Hcl & Hc & Hcap & Hle). rewrite Hs in Hs0. injection Hs0 as <-.
    destruct ((a <=? c - l + o) && (l <=? o))%N eqn:E1.
    + replace ((Z.of_N a <=? Z.of_N c - Z.of_N l + Z.of_N o) && (Z.of_N l <=? Z.of_N o))%bool with true by lia.
      unfold mbind at 1 in Er. destruct ((if (l =? 0)%N then mret tt else let! bs := mread k o l in mwrite k 0 bs) s e) as [[] s2 e2| |] eqn:Em; try done.
      unfold mret in Er. injection Er as <- _ <- <-. destruct (move_front_res _ _ _ _ _ _ _ Em) as [-> Hk]. specialize (Hk k). rewrite Hs in Hk. destruct Hk as (st1 & Hs1 & Hsz & Hct).
      exists (Z.of_N o + Z.of_N l + Z.of_N a). split; [|split; [unfold Recycle.grow_ok; lia|reflexivity]]. unfold absr. rewrite Hs1, Hsz. do 2 f_equal; lia.
    + replace ((Z.of_N a <=? Z.of_N c - Z.of_N l + Z.of_N o) && (Z.of_N l <=? Z.of_N o))%bool with false by lia.
      cbn [negb] in Er. unfold mbind in Er.
      destruct (realloc_buf orc k (c + o) (l + o) (l + o + a) s e) as [[k' vcap] s2 e2| |] eqn:Erl; try done. unfold mret in Er. injection Er as <- _ <- <-.
      assert (l + o + a <> 0)%N as Hnz by lia. destruct (realloc_buf_res _ _ _ _ _ _ _ _ _ _ _ st Fs Hs Hnz Erl) as (Hkk & Hfrk & Hnc & Hna & st' & Hs' & Hsz' & Hct' & _).
      exists (Z.of_N vcap). split; [|split; [unfold Recycle.grow_ok; specialize (Horc (l + o + a)%N); lia|reflexivity]]. unfold absr. rewrite Hs', Hsz'. do 2 f_equal; lia.
  - (* shared *)
    destruct Hty as (st0 & Hs0 & Hlv & Hcl & (ocr & rc & Hc) & Hb & Hle). rewrite Hs in Hs0. injection Hs0 as <-.
    destruct (usize_max <? l + a)%N eqn:E1; [lia|].
    unfold mbind at 1, get_st in Er. rewrite Hs in Er. rewrite Hc in Er. rewrite Hc. cbn [rc_of].
    destruct (rc =? 1)%N eqn:Erc.
    + destruct ((l + a + o <=? usize_max) && (l + a + o <=? s_size st))%N eqn:E2.
      * injection Er as <- _ <- <-. replace (Z.of_N l + Z.of_N a + Z.of_N o <=? Z.of_N (s_size st)) with true by lia.
        exists (Z.max (2 * Z.of_N (s_size st)) (Z.of_N l + Z.of_N a + Z.of_N o)). split; [|split; [unfold Recycle.grow_ok; lia|reflexivity]]. unfold absr. rewrite Hs, Hc. cbn [rc_of]. rewrite Erc. do 2 f_equal; lia.
      * replace (Z.of_N l + Z.of_N a + Z.of_N o <=? Z.of_N (s_size st)) with false by lia.
        destruct ((l + a <=? s_size st) && (l <=? o))%N eqn:E3.
        -- replace ((Z.of_N l + Z.of_N a <=? Z.of_N (s_size st)) && (Z.of_N l <=? Z.of_N o))%bool with true by lia.
           unfold mbind at 1 in Er. destruct ((if (l =? 0)%N then mret tt else let! bs := mread k o l in mwrite k 0 bs) s e) as [[] s2 e2| |] eqn:Em; try done.
           unfold mret in Er. injection Er as <- _ <- <-. destruct (move_front_res _ _ _ _ _ _ _ Em) as [-> Hk]. specialize (Hk k). rewrite Hs in Hk. destruct Hk as (st1 & Hs1 & Hsz & Hct).
           exists (Z.max (2 * Z.of_N (s_size st)) (Z.of_N l + Z.of_N a + Z.of_N o)). split; [|split; [unfold Recycle.grow_ok; lia|unfold orig_of; rewrite Hs1, Hs, Hct; done]]. unfold absr. rewrite Hs1, Hsz, Hct, Hc. cbn [rc_of]. rewrite Erc. do 2 f_equal; lia.
        -- replace ((Z.of_N l + Z.of_N a <=? Z.of_N (s_size st)) && (Z.of_N l <=? Z.of_N o))%bool with false by lia.
           cbn [negb] in Er. destruct (usize_max <? l + a + o)%N eqn:E4; [lia|].
           unfold mbind at 1 in Er. rewrite (land_usize (s_size st)) in Er by lia.
           destruct (realloc_buf orc k (s_size st) (o + l) (N.max (2 * s_size st) (l + a + o)) s e) as [[k' vcap] s2 e2| |] eqn:Erl; try done.
           assert (N.max (2 * s_size st) (l + a + o) <> 0)%N as Hnz by lia. destruct (realloc_buf_res _ _ _ _ _ _ _ _ _ _ _ st Fs Hs Hnz Erl) as (Hkk & Hfrk & Hnc & Hna & st' & Hs' & Hsz' & Hct' & _).
           unfold upd_st in Er. unfold mbind, get_st, put_st, mret in Er. rewrite Hs' in Er. injection Er as <- _ <- <-.
           exists (Z.of_N vcap). split; [|split; [unfold Recycle.grow_ok; specialize (Horc (N.max (2 * s_size st) (l + a + o))%N); lia|unfold orig_of, set_sts; cbn [sts]; rewrite lookup_insert, Hs, Hc; done]]. unfold absr, set_sts. cbn [sts]. rewrite lookup_insert. cbn [with_ctrl s_size s_ctrl rc_of]. rewrite Hsz'. do 2 f_equal; lia.
    + (* not alone: copy into a fresh buffer *)
      cbn [negb] in Er. unfold mbind at 1 in Er. pose proof (keeps_mread_ev k o l s e) as Hk. destruct (mread k o l s e) as [bs s0 e0| |]; try done. destruct Hk as [-> ->].
      unfold mbind at 1 in Er. destruct (alloc_buf (N.max (l + a) (ocr_from_repr ocr)) bs s e) as [k' s2 e2| |] eqn:Ea; try done.
      unfold mbind at 1 in Er. destruct (release k s2 e2) as [[] s3 e3| |] eqn:Erel; try done. unfold mret in Er. injection Er as <- _ <- <-.
      pose proof (alloc_buf_lwf _ _ (N.max (l + a) (ocr_from_repr ocr)) bs L e) as Hap. rewrite Ea in Hap. destruct Hap as (_ & st0' & (Hfr' & _) & _).
      destruct (alloc_buf_res _ _ _ _ _ _ _ Ea Hfr') as (st' & Hsts2 & Hsz2 & Hct2 & Hna).
      assert (k' <> k) as Hkk by (intros ->; congruence).
      assert (sts s2 !! k = Some st) as Hs2 by (rewrite Hsts2, lookup_insert_ne by done; exact Hs).
      unfold release in Erel. unfold mbind at 1, get_st in Erel. rewrite Hs2, Hc in Erel. unfold mbind, mcheck in Erel.
      destruct (0 <? rc)%N; [|done]. rewrite Erc in Erel. unfold put_st in Erel. injection Erel as <- <-.
      exists (Z.of_N (N.max (l + a) (ocr_from_repr ocr))). split; [|split; [unfold orig_of; rewrite Hs, Hc; lia|unfold orig_of; rewrite Hs, Hc; done]]. unfold absr, set_sts. cbn [sts]. rewrite lookup_insert_ne by done. rewrite Hsts2, lookup_insert, Hsz2.
      replace ((N.max (l + a) (ocr_from_repr ocr) =? 0)%N) with false in Hna by lia. do 2 f_equal; lia.
Qed.

(* ---------------------------------------------------------------------------------------------- whole API steps on the recycling handle h *)
Definition absh (s : hst) (h : hid) (al : Z) : option Recycle.st := match hs s !! h with Some x => absr s x al | None => None end.
Lemma absr_sts s s' x al : sts s' = sts s -> absr s' x al = absr s x al.
Proof. intros H. unfold absr. by rewrite H. Qed.
Lemma absh_put s h x al : absh (set_hs (<[h := x]>) s) h al = absr s x al.
Proof. unfold absh, set_hs. cbn [hs]. rewrite lookup_insert. by apply absr_sts. Qed.
Lemma rc_pos s h k o l c st ocr rc : WF s -> hs s !! h = Some (HM k o l c MArc) -> sts s !! k = Some st -> s_ctrl st = CSharedV (s_size st) ocr rc -> (1 <= rc)%N.
Proof.
  intros [L _] Hx Hs Hc. pose proof (lwf_typed _ _ L _ _ Hx) as (st0 & Hs0 & Hlv & Hcl & _). rewrite Hs in Hs0. injection Hs0 as <-.
  pose proof (lwf_st _ _ L _ _ Hs) as Hok. unfold st_ok in Hok. rewrite Hlv, Hc in Hok. destruct Hcl as [Hcl|Hcl]; rewrite Hcl in Hok.
  - destruct Hok as (_ & _ & -> & ?). lia.
  - destruct Hok as (_ & _ & _ & -> & ?). lia.
Qed.

Definition orig_h (s : hst) (h : hid) : Z := match hs s !! h with Some x => orig_of s x | None => 0 end.
Lemma orig_of_sts s s' x : sts s' = sts s -> orig_of s' x = orig_of s x.
Proof. intros H. unfold orig_of. by rewrite H. Qed.
Lemma orig_h_put s h x : orig_h (set_hs (<[h := x]>) s) h = orig_of s x.
Proof. unfold orig_h, set_hs. cbn [hs]. rewrite lookup_insert. by apply orig_of_sts. Qed.
Lemma orig_of_kd s k o l c o' l' c' kd : orig_of s (HM k o' l' c' kd) = orig_of s (HM k o l c kd).
Proof. done. Qed.

(* reserve(additional) *)
Theorem sim_reserve orc h a s e rv s1 e1 r al :
  WF s -> absh s h al = Some r -> hstep orc (OMReserve h a) s e = OK rv s1 e1 ->
  Recycle.len r + Z.of_N a + Recycle.off r <= Z.of_N usize_max -> 2 * Recycle.V r <= Z.of_N usize_max ->
  (forall need, Z.of_N (or_pick orc need) <= Z.max (Z.max (2 * Recycle.V r) (Z.of_N need)) 8) ->
  exists g, absh s1 h (al + (nalloc e1 - nalloc e)) = Some (Recycle.step r (Recycle.Reserve (Z.of_N a) g)) /\
            Recycle.reserve_grow_ok (orig_h s h) r (Z.of_N a) g /\ orig_h s1 h = orig_h s h.
Proof.
  intros W Ha E H1 H2 H3. unfold absh in Ha. unfold orig_h at 1 3. destruct (hs s !! h) as [x|] eqn:Hx; [|done].
  cbn [hstep] in E. unfold mbind at 1, get_h in E. rewrite Hx in E. unfold mbind at 1 in E.
  destruct (m_reserve orc a x s e) as [x1 s2 e2| |] eqn:Er; try done. unfold mbind, put_h, mret in E. injection E as _ <- <-.
  destruct (m_reserve_sim _ _ _ _ _ _ _ _ _ _ _ W Hx Ha Er H1 H2 H3) as (g & Hg & Hok & Hor). exists g. split; [|split; [done|by rewrite orig_h_put]].
  rewrite absh_put. exact Hg.
Qed.
(* truncate(len) and clear() *)
Theorem sim_truncate orc h n s e rv s1 e1 r al :
  absh s h al = Some r -> hstep orc (OMTruncate h n) s e = OK rv s1 e1 -> absh s1 h al = Some (Recycle.step r (Recycle.Truncate (Z.of_N n))) /\ e1 = e /\ orig_h s1 h = orig_h s h.
Proof.
  intros Ha E. unfold absh in Ha. unfold orig_h at 2. destruct (hs s !! h) as [x|] eqn:Hx; [|done]. destruct x as [|k o l c kd|]; try discriminate.
  cbn [hstep] in E. unfold mbind at 1, get_h in E. rewrite Hx in E. unfold mbind at 1, m_parts, mret in E. unfold absr in Ha. destruct (sts s !! k) as [st|] eqn:Hs; [|done]. injection Ha as <-.
  cbn [Recycle.step Recycle.len]. destruct (n <=? l)%N eqn:En.
  - unfold mbind, put_h, mret in E. injection E as _ <- <-. split; [|split; [done|by rewrite orig_h_put]]. rewrite absh_put. unfold absr. rewrite Hs.
    replace ((0 <=? Z.of_N n) && (Z.of_N n <=? Z.of_N l))%bool with true by lia. done.
  - unfold mbind, mret in E. injection E as _ <- <-. split; [|split; [done|by unfold orig_h; rewrite Hx]]. unfold absh. rewrite Hx. unfold absr. rewrite Hs.
    replace ((0 <=? Z.of_N n) && (Z.of_N n <=? Z.of_N l))%bool with false by lia. done.
Qed.
Theorem sim_clear orc h s e rv s1 e1 r al :
  absh s h al = Some r -> hstep orc (OMClear h) s e = OK rv s1 e1 -> absh s1 h al = Some (Recycle.step r (Recycle.Truncate 0)) /\ e1 = e /\ orig_h s1 h = orig_h s h.
Proof.
  intros Ha E. unfold absh in Ha. unfold orig_h at 2. destruct (hs s !! h) as [x|] eqn:Hx; [|done]. destruct x as [|k o l c kd|]; try discriminate.
  cbn [hstep] in E. unfold mbind at 1, get_h in E. rewrite Hx in E. unfold mbind, m_parts, put_h, mret in E. injection E as _ <- <-.
  unfold absr in Ha. destruct (sts s !! k) as [st|] eqn:Hs; [|done]. injection Ha as <-. split; [|split; [done|by rewrite orig_h_put]]. rewrite absh_put. unfold absr. rewrite Hs.
  cbn [Recycle.step Recycle.len]. replace ((0 <=? 0) && (0 <=? Z.of_N l))%bool with true by lia. done.
Qed.
(* advance(cnt): the front is given up, nothing stays alive *)
Lemma adv_sim cnt k o l c kd s e x1 s1 e1 : (cnt <= l)%N -> (l <= c)%N ->
  (match kd with MVec _ => o + cnt <= MAX_VEC_POS | MArc => True end)%N ->
  adv_unchecked cnt (HM k o l c kd) s e = OK x1 s1 e1 ->
  s1 = s /\ e1 = e /\ x1 = HM k (o + cnt) (l - cnt) (c - cnt) kd.
Proof.
  intros H1 H2 H3. unfold adv_unchecked. destruct (cnt =? 0)%N eqn:E0.
  - intros [= <- <- <-]. repeat split. f_equal; lia.
  - unfold mbind, mcheck. replace (cnt <=? c)%N with true by lia. destruct kd as [ocr|].
    + replace (o + cnt <=? MAX_VEC_POS)%N with true by lia. by intros [= <- <- <-].
    + by intros [= <- <- <-].
Qed.
Theorem sim_advance orc h cnt s e rv s1 e1 r al :
  WF s -> absh s h al = Some r -> hstep orc (OMAdvance h cnt) s e = OK rv s1 e1 ->
  (Recycle.vec r = true -> Recycle.off r + Z.of_N cnt <= Z.of_N MAX_VEC_POS) ->
  absh s1 h al = Some (Recycle.step r (Recycle.Consume (Z.of_N cnt) false)) /\ e1 = e /\ orig_h s1 h = orig_h s h.
Proof.
  intros [L _] Ha E Hv. unfold absh in Ha. unfold orig_h at 2. destruct (hs s !! h) as [x|] eqn:Hx; [|done]. destruct x as [|k o l c kd|]; try discriminate.
  pose proof (lwf_typed _ _ L _ _ Hx) as Hty.
  cbn [hstep] in E. unfold mbind at 1, get_h in E. rewrite Hx in E. unfold mbind at 1, m_parts, mret in E. unfold absr in Ha. destruct (sts s !! k) as [st|] eqn:Hs; [|done]. injection Ha as <-.
  cbn [Recycle.vec Recycle.off] in Hv. unfold mbind at 1, massert in E. destruct (cnt <=? l)%N eqn:Ec; [|done]. unfold mret at 1 in E.
  unfold mbind at 1 in E. destruct (adv_unchecked cnt (HM k o l c kd) s e) as [x1 s2 e2| |] eqn:Ead; try done.
  assert (l <= c)%N as Hlc by (destruct kd; simpl in Hty; destruct Hty as (? & ? & ? & ? & ? & ? & ?); lia).
  apply adv_sim in Ead; [|lia|done|destruct kd; [specialize (Hv eq_refl); lia|done]].
  destruct Ead as (-> & -> & ->). unfold mbind, put_h, mret in E. injection E as _ <- <-. split; [|split; [done|by rewrite orig_h_put]]. rewrite absh_put. unfold absr. rewrite Hs.
  cbn [Recycle.step Recycle.len]. replace ((0 <=? Z.of_N cnt) && (Z.of_N cnt <=? Z.of_N l))%bool with true by lia.
  cbn [Recycle.off Recycle.len Recycle.cap Recycle.uniq Recycle.vec Recycle.V Recycle.allocs]. do 2 f_equal; lia.
Qed.
Lemma shallow_clone_res k o l c kd s e st : sts s !! k = Some st ->
  (match kd with MArc => exists ocr rc, s_ctrl st = CSharedV (s_size st) ocr rc /\ (1 <= rc)%N | _ => True end) ->
  exists s' e' ct, m_shallow_clone (HM k o l c kd) s e = OK (HM k o l c MArc, HM k o l c MArc) s' e' /\
    sts s' = <[k := with_ctrl ct st]> (sts s) /\ hs s' = hs s /\ next_h s' = next_h s /\ nalloc e' = nalloc e /\ (rc_of ct =? 1)%N = false /\
    orig_of s' (HM k o l c MArc) = orig_of s (HM k o l c kd).
Proof.
  intros Hs Hk. destruct kd as [ocr|]; cbn [m_shallow_clone].
  - unfold promote, upd_st, mbind, get_st. rewrite Hs. unfold put_st, emit, mret. do 3 eexists. split; [reflexivity|]. cbn [set_sts sts hs next_h].
    do 3 (split; [reflexivity|]). split; [|split; [done|]]. { rewrite nalloc_app. unfold nalloc at 2. simpl. lia. }
    unfold orig_of. cbn [sts set_sts]. by rewrite lookup_insert.
  - destruct Hk as (ocr & rc & Hc & Hrc). unfold inc_rc, mbind, get_st. rewrite Hs, Hc. unfold put_st, mret. do 3 eexists. split; [reflexivity|]. cbn [set_sts sts hs next_h].
    do 3 (split; [reflexivity|]). split; [done|]. split; [cbn [rc_of]; lia|]. unfold orig_of. cbn [sts set_sts]. by rewrite lookup_insert, Hs, Hc.
Qed.
(* split_to(at): the front leaves as a handle of its own that stays alive *)
Theorem sim_split_to orc h cnt s e rv s1 e1 r al :
  WF s -> absh s h al = Some r -> hstep orc (OMSplitTo h cnt) s e = OK rv s1 e1 ->
  absh s1 h al = Some (Recycle.step r (Recycle.Consume (Z.of_N cnt) true)) /\ nalloc e1 = nalloc e /\ orig_h s1 h = orig_h s h.
Proof.
  intros W Ha E. pose proof W as [L Hf]. unfold absh in Ha. unfold orig_h at 2. destruct (hs s !! h) as [x|] eqn:Hx; [|done]. destruct x as [|k o l c kd|]; try discriminate.
  pose proof (lwf_typed _ _ L _ _ Hx) as Hty.
  cbn [hstep] in E. unfold m_split_to in E. unfold mbind at 1, get_h in E. rewrite Hx in E. unfold mbind at 1, m_parts, mret in E. unfold absr in Ha. destruct (sts s !! k) as [st|] eqn:Hs; [|done]. injection Ha as <-.
  unfold mbind at 1, massert in E. destruct (cnt <=? l)%N eqn:Ec; [|done]. unfold mret at 1 in E.
  assert (l <= c)%N as Hlc by (destruct kd; simpl in Hty; destruct Hty as (? & ? & ? & ? & ? & ? & ?); lia).
  assert (h <> next_h s) as Hne. { intros ->. assert (next_h s < next_h s)%positive by (apply Hf; eauto). lia. }
  cbn [Recycle.step Recycle.len]. replace ((0 <=? Z.of_N cnt) && (Z.of_N cnt <=? Z.of_N l))%bool with true by lia.
  cbn [Recycle.off Recycle.len Recycle.cap Recycle.uniq Recycle.vec Recycle.V Recycle.allocs].
  destruct (shallow_clone_res k o l c kd s e st Hs) as (s' & e' & ct & Esc & Hsts & Hhs & Hnh & Hna & Hct & Hor).
  { destruct kd as [|]; [done|]. destruct Hty as (st0 & Hs0 & Hlv & Hcl & (ocr & rc & Hc) & Hb & Hle). rewrite Hs in Hs0. injection Hs0 as <-.
    exists ocr, rc. split; [done|]. eapply rc_pos; eauto. }
  unfold mbind at 1 in E. rewrite Esc in E. unfold mbind at 1 in E.
  destruct (adv_unchecked cnt (HM k o l c MArc) s' e') as [x2 s2 e2| |] eqn:Ead; try done.
  apply adv_sim in Ead; [|lia|done|done]. destruct Ead as (-> & -> & ->).
  unfold mbind, put_h, m_parts, new_h, mret in E. injection E as _ <- <-. split; [|split; [done|]].
  2:{ unfold orig_h. cbn [hs set_hs]. rewrite Hnh. rewrite lookup_insert_ne by done. rewrite lookup_insert. rewrite <- Hor. done. }
  unfold absh. cbn [hs set_hs set_sts sts]. rewrite Hnh. rewrite lookup_insert_ne by done. rewrite lookup_insert. unfold absr. cbn [sts]. rewrite Hsts, lookup_insert. cbn [with_ctrl s_size s_ctrl].
  rewrite Hct. do 2 f_equal; lia.
Qed.
(* extend_from_slice(d) = reserve(d.len()) followed by the write into the spare capacity *)
Theorem sim_extend orc h d s e rv s1 e1 r al :
  WF s -> absh s h al = Some r -> hstep orc (OMExtend h d) s e = OK rv s1 e1 ->
  Recycle.len r + Z.of_N (lenN d) + Recycle.off r <= Z.of_N usize_max -> 2 * Recycle.V r <= Z.of_N usize_max ->
  (forall need, Z.of_N (or_pick orc need) <= Z.max (Z.max (2 * Recycle.V r) (Z.of_N need)) 8) ->
  exists g, absh s1 h (al + (nalloc e1 - nalloc e)) = Some (Recycle.step (Recycle.step r (Recycle.Reserve (Z.of_N (lenN d)) g)) (Recycle.Write (Z.of_N (lenN d)))) /\
            Recycle.reserve_grow_ok (orig_h s h) r (Z.of_N (lenN d)) g /\ orig_h s1 h = orig_h s h.
Proof.
  intros W Ha E H1 H2 H3. unfold absh in Ha. unfold orig_h at 1 3. destruct (hs s !! h) as [x|] eqn:Hx; [|done].
  cbn [hstep] in E. unfold mbind at 1, get_h in E. rewrite Hx in E. unfold mbind at 1, m_extend in E. unfold mbind at 1 in E.
  destruct (m_reserve orc (lenN d) x s e) as [x1 s2 e2| |] eqn:Er; try done.
  destruct (m_reserve_sim _ _ _ _ _ _ _ _ _ _ _ W Hx Ha Er H1 H2 H3) as (g & Hg & Hok & Hor). exists g. split; [|split; [done|]].
  2:{ destruct x1 as [|k1 o1 l1 c1 kd1|]; try discriminate. unfold mcheck in E. destruct (lenN d <=? c1 - l1)%N; [|done]. unfold mbind, mret, put_h in E. cbn beta iota in E.
      destruct (mwrite k1 (o1 + l1) d s2 e2) as [[] s3 e3| |] eqn:Ew; try done. destruct (mwrite_res _ _ _ _ _ _ _ Ew) as [-> Hk]. injection E as _ <- <-. rewrite orig_h_put. rewrite <- Hor.
      unfold absr in Hg. destruct (sts s2 !! k1) as [st2|] eqn:Hs2; [|done]. specialize (Hk k1). rewrite Hs2 in Hk. destruct Hk as (st3 & Hs3 & Hsz3 & Hct3).
      unfold orig_of. destruct kd1; [done|]. by rewrite Hs3, Hs2, Hct3. }
  destruct x1 as [|k1 o1 l1 c1 kd1|]; try discriminate. unfold absr in Hg. destruct (sts s2 !! k1) as [st2|] eqn:Hs2; [|done]. injection Hg as Hg.
  unfold mcheck in E. destruct (lenN d <=? c1 - l1)%N eqn:Efit; [|done]. unfold mbind, mret, put_h in E. cbn beta iota in E.
  destruct (mwrite k1 (o1 + l1) d s2 e2) as [[] s3 e3| |] eqn:Ew; try done.
  destruct (mwrite_res _ _ _ _ _ _ _ Ew) as [-> Hk]. specialize (Hk k1). rewrite Hs2 in Hk. destruct Hk as (st3 & Hs3 & Hsz3 & Hct3).
  injection E as _ <- <-. rewrite absh_put. unfold absr. rewrite Hs3, Hsz3, Hct3.
  cbn [Recycle.step]. rewrite <- Hg. cbn [Recycle.off Recycle.len Recycle.cap Recycle.uniq Recycle.vec Recycle.V Recycle.allocs].
  assert (l1 <= c1)%N as Hlc.
  { destruct W as [L _]. destruct x as [|k o l c kd|]; try discriminate.
    pose proof (m_reserve_lwf _ _ h orc (lenN d) _ _ _ _ _ L Hx e) as Hsp. rewrite Er in Hsp. destruct Hsp as (_ & L1 & _).
    pose proof (lwf_typed _ _ L1 h _ (lookup_insert _ _ _)) as Hty. destruct kd1; simpl in Hty; destruct Hty as (? & ? & ? & ? & ? & ? & ?); lia. }
  replace (Z.of_N (lenN d) <=? Z.of_N c1 - Z.of_N l1) with true by lia. do 2 f_equal; lia.
Qed.

(* ---- another handle (a part split off earlier) is dropped ---- *)
Local Close Scope Z_scope.
Definition others_same (k' : positive) (s s1 : hst) (e e1 : list ev) : Prop := nalloc e1 = nalloc e /\ hs s1 = hs s /\ forall k2, k2 <> k' -> sts s1 !! k2 = sts s !! k2.
Lemma nalloc_snoc e x : is_buf_alloc x = false -> nalloc (e ++ [x]) = nalloc e.
Proof. intros H. rewrite nalloc_app. unfold nalloc at 2. simpl. rewrite H. simpl. lia. Qed.
Lemma free_buf_res k' c s e s1 e1 : free_buf k' c s e = OK tt s1 e1 -> others_same k' s s1 e e1.
Proof.
  unfold free_buf, mbind, get_st, mcheck, put_st, emit, mret. destruct (sts s !! k') as [x|]; [|done]. destruct (s_cls x); try done.
  - destruct (s_live x); [|done]. simpl. destruct (c =? s_size x); [|done]. simpl. intros [= <- <-]. split; [by apply nalloc_snoc|]. split; [done|]. intros k2 Hk. simpl. by rewrite lookup_insert_ne.
  - destruct (c =? 0); [|done]. simpl. by intros [= <- <-].
Qed.
Lemma drop_vec_res k' c s e s1 e1 : drop_vec k' c s e = OK tt s1 e1 -> others_same k' s s1 e e1.
Proof. unfold drop_vec. destruct (c =? 0); [by intros [= <- <-]|apply free_buf_res]. Qed.
Lemma others_same_trans k' s s1 s2 e e1 e2 : others_same k' s s1 e e1 -> others_same k' s1 s2 e1 e2 -> others_same k' s s2 e e2.
Proof. intros (A1 & A2 & A3) (B1 & B2 & B3). split; [congruence|]. split; [congruence|]. intros k2 Hk. rewrite B3, A3; done. Qed.
Lemma put_st_same k' x s e : others_same k' s (set_sts (<[k' := x]>) s) e e.
Proof. split; [done|]. split; [done|]. intros k2 Hk. simpl. by rewrite lookup_insert_ne. Qed.
Lemma release_res k' s e s1 e1 : release k' s e = OK tt s1 e1 -> others_same k' s s1 e e1.
Proof.
  unfold release. unfold mbind at 1, get_st. destruct (sts s !! k') as [x|]; [|done]. destruct (s_ctrl x) as [|c rc|c o rc|o rc|rc o].
  - done.
  - unfold mbind at 1, mcheck. destruct (0 <? rc); [|done]. unfold mret at 1. cbn beta iota. destruct (rc =? 1).
    + unfold mbind, put_st, emit. match goal with |- context [free_buf k' c ?s0 ?e0] => destruct (free_buf k' c s0 e0) as [[] s2 e2| |] eqn:Ef; try done; apply free_buf_res in Ef end.
      intros [= <- <-]. eapply others_same_trans; [apply put_st_same|]. destruct Ef as (A1 & A2 & A3). split; [by rewrite nalloc_snoc|done].
    + unfold put_st. intros [= <- <-]. apply put_st_same.
  - unfold mbind at 1, mcheck. destruct (0 <? rc); [|done]. unfold mret at 1. cbn beta iota. destruct (rc =? 1).
    + unfold mbind, put_st, emit. match goal with |- context [drop_vec k' c ?s0 ?e0] => destruct (drop_vec k' c s0 e0) as [[] s2 e2| |] eqn:Ef; try done; apply drop_vec_res in Ef end.
      intros [= <- <-]. eapply others_same_trans; [apply put_st_same|]. destruct Ef as (A1 & A2 & A3). split; [by rewrite nalloc_snoc|done].
    + unfold put_st. intros [= <- <-]. apply put_st_same.
  - unfold mbind at 1, mcheck. destruct (0 <? rc); [|done]. unfold mret at 1. cbn beta iota. destruct (rc =? 1).
    + unfold mbind, put_st, emit. intros [= <- <-]. destruct (put_st_same k' (with_ctrl CNone x) s e) as (A1 & A2 & A3). split; [by rewrite nalloc_snoc|done].
    + unfold put_st. intros [= <- <-]. apply put_st_same.
  - unfold mbind at 1, mcheck. destruct (0 <? rc); [|done]. unfold mret at 1. cbn beta iota. destruct (rc =? 1).
    + unfold mbind at 1, mget. destruct (owners s !! o) as [ow|]; [|done]. unfold mbind at 1, mcheck. destruct (negb (o_dropped ow)); [|done]. cbn beta iota.
      unfold mbind, mput, emit, get_st, put_st, mret. cbn [sts set_owners]. destruct (sts s !! k') as [y|]; [|done].
      destruct (s_size y =? 0); intros [= <- <-]; (split; [rewrite ?nalloc_snoc; done|]; split; [done|]; intros k2 Hk; simpl; by rewrite lookup_insert_ne).
    + unfold put_st. intros [= <- <-]. apply put_st_same.
Qed.
Lemma two_holders s h h' x x' k st : WF s -> h' <> h -> hs s !! h = Some x -> hs s !! h' = Some x' -> holds x = Some k -> holds x' = Some k ->
  sts s !! k = Some st -> s_live st = true -> heapish (s_cls st) ->
  match s_ctrl st with CNone => False | CSharedV _ _ rc => rc <> 1 /\ 0 < rc | _ => True end.
Proof.
  intros [L _] Hne Hx Hx' Hk Hk' Hs Hlv Hcl. pose proof (lwf_st _ _ L _ _ Hs) as Hok. unfold st_ok in Hok. rewrite Hlv in Hok.
  assert (refs (hs s) k <> 1%nat) as Hn1. { intros H1. by eapply (refs_one_other _ _ _ _ _ _ H1 Hx Hk Hx' Hne). }
  pose proof (refs_pos _ _ _ _ Hx Hk) as Hp.
  destruct Hcl as [Hcl|Hcl]; rewrite Hcl in Hok.
  - destruct Hok as (_ & Hok). destruct (s_ctrl st); try done. destruct Hok as (_ & -> & _). lia.
  - destruct Hok as (_ & _ & Hok). destruct (s_ctrl st); try done; [lia|]. destruct Hok as (_ & -> & _). lia.
Qed.
Lemma release_dec k s e st c o rc : sts s !! k = Some st -> s_ctrl st = CSharedV c o rc -> rc <> 1 -> 0 < rc ->
  release k s e = OK tt (set_sts (<[k := with_ctrl (CSharedV c o (rc - 1)) st]>) s) e.
Proof.
  intros Hs Hc H1 H0. unfold release, mbind, get_st. rewrite Hs, Hc. unfold mcheck. replace (0 <? rc) with true by lia. unfold mret. replace (rc =? 1) with false by lia. done.
Qed.
(* what dropping the representation of another handle does to the storage k of the recycling handle *)
Definition drop_effect (k : positive) (st : storage) (s s2 : hst) (e e2 : list ev) : Prop :=
  nalloc e2 = nalloc e /\ hs s2 = hs s /\
  (sts s2 !! k = Some st \/ exists c o rc, s_ctrl st = CSharedV c o rc /\ rc <> 1 /\ sts s2 !! k = Some (with_ctrl (CSharedV c o (rc - 1)) st)).
Lemma others_drop_effect k' k st s s2 e e2 : k' <> k -> sts s !! k = Some st -> others_same k' s s2 e e2 -> drop_effect k st s s2 e e2.
Proof. intros Hne Hs (A1 & A2 & A3). split; [done|]. split; [done|]. left. rewrite A3; done. Qed.
Lemma drop_rep_effect s h h' k o l c kd x' st e s2 e2 : WF s -> h' <> h -> hs s !! h = Some (HM k o l c kd) -> hs s !! h' = Some x' -> sts s !! k = Some st ->
  (m_drop_rep x' s e = OK tt s2 e2 \/ bytes_drop_rep x' s e = OK tt s2 e2) -> drop_effect k st s s2 e e2.
Proof.
  intros W Hne Hx Hx' Hs E. pose proof W as [L _]. pose proof (lwf_typed _ _ L _ _ Hx) as Hty. pose proof (lwf_typed _ _ L _ _ Hx') as Hty'.
  assert (s_live st = true /\ heapish (s_cls st) /\ match kd with MVec _ => s_ctrl st = CNone | MArc => exists o rc, s_ctrl st = CSharedV (s_size st) o rc end) as (Hlv & Hcl & Hct).
  { destruct kd; simpl in Hty; destruct Hty as (st0 & Hs0 & ? & ? & ? & _); rewrite Hs in Hs0; injection Hs0 as <-; done. }
  assert (s_ctrl st = CNone \/ exists o rc, s_ctrl st = CSharedV (s_size st) o rc) as Hct' by (destruct kd; [by left|by right]).
  assert (forall kk, holds x' = Some kk -> kk = k -> match s_ctrl st with CNone => False | CSharedV _ _ rc => rc <> 1 /\ 0 < rc | _ => True end) as H2.
  { intros kk Hh ->. eapply (two_holders s h h'); eauto. }
  assert (drop_effect k st s s e e) as Hsame by (split; [done|]; split; [done|]; by left).
  destruct x' as [ko o' l' vt arc|k' o' l' c' kd'|k' l' c'].
  - destruct E as [E|E]; [done|]. cbn [bytes_drop_rep] in E. destruct ko as [k'|].
    2:{ destruct vt; try done. by injection E as <- <-. }
    destruct (decide (k' = k)) as [->|Hkk].
    + destruct vt; simpl in Hty'.
      * by injection E as <- <-.
      * destruct Hty' as (st0 & Hs0 & _ & _ & _ & rc & ow & Hc). rewrite Hs in Hs0. injection Hs0 as <-. (destruct Hct' as [Hq|(? & ? & Hq)]; congruence).
      * destruct Hty' as (st0 & Hs0 & _ & _ & _ & Hv). rewrite Hs in Hs0. injection Hs0 as <-. specialize (H2 k eq_refl eq_refl).
        destruct arc; [destruct Hv as (rc & Hc); (destruct Hct' as [Hq|(? & ? & Hq)]; congruence)|destruct Hv as [Hc _]; by rewrite Hc in H2].
      * destruct Hty' as (st0 & Hs0 & _ & _ & _ & Hv). rewrite Hs in Hs0. injection Hs0 as <-. specialize (H2 k eq_refl eq_refl).
        destruct arc; [destruct Hv as (rc & Hc); (destruct Hct' as [Hq|(? & ? & Hq)]; congruence)|destruct Hv as [Hc _]; by rewrite Hc in H2].
      * destruct Hty' as (st0 & Hs0 & _ & _ & _ & rc & Hc). rewrite Hs in Hs0. injection Hs0 as <-. (destruct Hct' as [Hq|(? & ? & Hq)]; congruence).
      * destruct Hty' as (st0 & Hs0 & _ & _ & _ & ocr & rc & Hc). rewrite Hs in Hs0. injection Hs0 as <-. specialize (H2 k eq_refl eq_refl). rewrite Hc in H2. destruct H2 as [H1 H0].
        rewrite (release_dec _ _ _ _ _ _ _ Hs Hc H1 H0) in E. injection E as <- <-. split; [done|]. split; [done|]. right. exists (s_size st), ocr, rc. simpl. by rewrite lookup_insert.
    + destruct vt; try (by injection E as <- <-); try (apply release_res in E; by eapply others_drop_effect).
      * destruct arc; [apply release_res in E|apply free_buf_res in E]; by eapply others_drop_effect.
      * destruct arc; [apply release_res in E|apply free_buf_res in E]; by eapply others_drop_effect.
  - destruct E as [E|E]; [|done]. cbn [m_drop_rep] in E. destruct (decide (k' = k)) as [->|Hkk].
    + specialize (H2 k eq_refl eq_refl). destruct kd' as [ocr'|]; simpl in Hty'.
      * destruct Hty' as (st0 & Hs0 & _ & _ & Hc & _). rewrite Hs in Hs0. injection Hs0 as <-. by rewrite Hc in H2.
      * destruct Hty' as (st0 & Hs0 & _ & _ & (ocr & rc & Hc) & _). rewrite Hs in Hs0. injection Hs0 as <-. rewrite Hc in H2. destruct H2 as [H1 H0].
        rewrite (release_dec _ _ _ _ _ _ _ Hs Hc H1 H0) in E. injection E as <- <-. split; [done|]. split; [done|]. right. exists (s_size st), ocr, rc. simpl. by rewrite lookup_insert.
    + destruct kd'; [apply drop_vec_res in E|apply release_res in E]; by eapply others_drop_effect.
  - destruct E as [E|E]; done.
Qed.
Local Open Scope Z_scope.
Theorem sim_drop_other orc h h' op s e rv s1 e1 r al :
  WF s -> h' <> h -> absh s h al = Some r -> op = OMDrop h' \/ op = OBDrop h' -> hstep orc op s e = OK rv s1 e1 ->
  nalloc e1 = nalloc e /\ (absh s1 h al = Some r \/ absh s1 h al = Some (Recycle.step r Recycle.PartsDropped)) /\ orig_h s1 h = orig_h s h.
Proof.
  intros W Hne Ha Hop E. unfold absh in Ha. unfold orig_h at 2. destruct (hs s !! h) as [x|] eqn:Hx; [|done]. destruct x as [|k o l c kd|]; try discriminate.
  unfold absr in Ha. destruct (sts s !! k) as [st|] eqn:Hs; [|done]. injection Ha as <-.
  assert (exists x' s2, hs s !! h' = Some x' /\ (m_drop_rep x' s e = OK tt s2 e1 \/ bytes_drop_rep x' s e = OK tt s2 e1) /\ s1 = set_hs (delete h') s2) as (x' & s2 & Hx' & Ed & ->).
  { destruct Hop as [-> | ->]; cbn [hstep] in E; unfold mbind at 1, get_h in E; destruct (hs s !! h') as [x'|]; try done; unfold mbind at 1 in E.
    - destruct (m_drop_rep x' s e) as [[] s2 e2| |] eqn:Ed; try done. unfold mbind, del_h, mret in E. injection E as _ <- <-. eauto 10.
    - destruct (bytes_drop_rep x' s e) as [[] s2 e2| |] eqn:Ed; try done. unfold mbind, del_h, mret in E. injection E as _ <- <-. eauto 10. }
  destruct (drop_rep_effect _ _ _ _ _ _ _ _ _ _ _ _ _ W Hne Hx Hx' Hs Ed) as (Hna & Hhs & Hk). split; [done|]. split.
  2:{ unfold orig_h. cbn [hs set_hs]. rewrite lookup_delete_ne by done. rewrite Hhs, Hx. unfold orig_of. destruct kd; [done|]. cbn [sts set_hs]. rewrite Hs.
      destruct Hk as [Hk|(c0 & o0 & rc & Hc & Hrc & Hk)]; rewrite Hk; [done|]. cbn [with_ctrl s_ctrl]. by rewrite Hc. }
  unfold absh. cbn [hs set_hs]. rewrite lookup_delete_ne by done. rewrite Hhs, Hx. unfold absr. cbn [sts set_hs].
  destruct Hk as [Hk|(c0 & o0 & rc & Hc & Hrc & Hk)]; rewrite Hk; [by left|].
  cbn [with_ctrl s_size s_ctrl rc_of Recycle.step Recycle.off Recycle.len Recycle.cap Recycle.uniq Recycle.vec Recycle.V Recycle.allocs].
  destruct kd as [ocr|]; [by left|]. rewrite Hc. cbn [rc_of]. replace (rc =? 1)%N with false by lia. destruct (rc - 1 =? 1)%N; [by right|by left].
Qed.

(* Codec: byte-order decoding/encoding of integers, the crate's sign_extend, and the meaning of a
   getter/putter NAME.  Definitions only. *)
From BV Require Import Base.
From Coq Require Import String Ascii.
Local Open Scope N_scope.

Inductive endian := BE | LE.
Definition be_val (bs : list byte) : N := fold_left (fun acc b => acc * 256 + b) bs 0.
Fixpoint le_val (bs : list byte) : N := match bs with [] => 0 | b :: r => b + 256 * le_val r end.
Definition to_signed (bits : N) (v : N) : Z :=
  if bits =? 0 then 0%Z else if v <? 2 ^ (bits - 1) then Z.of_N v else (Z.of_N v - Z.of_N (2 ^ bits))%Z.
Definition uval (e : endian) (bs : list byte) : N := match e with BE => be_val bs | LE => le_val bs end.
(* the value the next bytes denote, by width = length bs, byte order and signedness *)
Definition dec (e : endian) (signed : bool) (bs : list byte) : Z :=
  if signed then to_signed (8 * lenN bs) (uval e bs) else Z.of_N (uval e bs).

(* buf_impl.rs sign_extend (after the D3 repair): checked_shl/checked_shr with unwrap_or(0) *)
Definition sign_extend_code (val nbytes : N) : Z :=
  let shift := (8 - nbytes) * 8 in
  if 64 <=? shift then 0%Z
  else Z.shiftr (to_signed 64 ((val * 2 ^ shift) mod 2 ^ 64)) (Z.of_N shift).

(* encoding (BufMut side): to_be_bytes / to_le_bytes of the two's-complement representation *)
Fixpoint le_bytes (n : nat) (v : N) : list byte :=
  match n with O => [] | S n => (v mod 256) :: le_bytes n (v / 256) end.
Definition be_bytes (n : nat) (v : N) : list byte := rev (le_bytes n v).
Definition to_unsigned (bits : N) (z : Z) : N := Z.to_N (z mod Z.of_N (2 ^ bits)).
Definition enc (e : endian) (size : N) (z : Z) : list byte :=
  let v := to_unsigned (8 * size) z in
  match e with BE => be_bytes (N.to_nat size) v | LE => le_bytes (N.to_nat size) v end.

(* what a method body does, as resolved by translator T3 from the source text *)
Inductive gkind := GK8 | GKFixed | GKVar.
Record gdesc := { g_try : bool; g_kind : gkind; g_size : N; g_endian : endian; g_signed : bool }.
Definition endian_eqb (a b : endian) : bool := match a, b with BE, BE | LE, LE => true | _, _ => false end.
Definition gkind_eqb (a b : gkind) : bool := match a, b with GK8, GK8 | GKFixed, GKFixed | GKVar, GKVar => true | _, _ => false end.
Definition gdesc_eqb (a b : gdesc) : bool :=
  Bool.eqb (g_try a) (g_try b) && gkind_eqb (g_kind a) (g_kind b) && (g_size a =? g_size b)
  && endian_eqb (g_endian a) (g_endian b) && Bool.eqb (g_signed a) (g_signed b).

(* the meaning of a method NAME: [try_]get_<ty>[_le|_ne] and put_<ty>[_le|_ne]; native endian is
   little endian on the modelled target.  Written independently of the bodies. *)
Local Open Scope string_scope.
Definition strip_prefix (p s : string) : option string :=
  if String.prefix p s then Some (String.substring (String.length p) (String.length s - String.length p) s) else None.
Definition strip_suffix (suf s : string) : option string :=
  let ls := String.length s in let lf := String.length suf in
  if Nat.leb lf ls then
    if String.eqb (String.substring (ls - lf) lf s) suf then Some (String.substring 0 (ls - lf) s) else None
  else None.
Definition ty_spec (ty : string) : option (gkind * N * bool) :=
  if ty =? "u8" then Some (GK8, 1%N, false) else if ty =? "i8" then Some (GK8, 1%N, true)
  else if ty =? "u16" then Some (GKFixed, 2%N, false) else if ty =? "i16" then Some (GKFixed, 2%N, true)
  else if ty =? "u32" then Some (GKFixed, 4%N, false) else if ty =? "i32" then Some (GKFixed, 4%N, true)
  else if ty =? "u64" then Some (GKFixed, 8%N, false) else if ty =? "i64" then Some (GKFixed, 8%N, true)
  else if ty =? "u128" then Some (GKFixed, 16%N, false) else if ty =? "i128" then Some (GKFixed, 16%N, true)
  else if ty =? "f32" then Some (GKFixed, 4%N, false) else if ty =? "f64" then Some (GKFixed, 8%N, false)
  else if ty =? "uint" then Some (GKVar, 8%N, false) else if ty =? "int" then Some (GKVar, 8%N, true)
  else None.
Definition spec_of_suffixed (try : bool) (rest : string) : option gdesc :=
  let '(ty, e) := match strip_suffix "_le" rest with
                  | Some t => (t, LE)
                  | None => match strip_suffix "_ne" rest with Some t => (t, LE) | None => (rest, BE) end
                  end in
  match ty_spec ty with
  | Some (k, sz, sg) => Some {| g_try := try; g_kind := k; g_size := sz; g_endian := e; g_signed := sg |}
  | None => None
  end.
Definition spec_of_getter (name : string) : option gdesc :=
  match strip_prefix "try_get_" name with
  | Some rest => spec_of_suffixed true rest
  | None => match strip_prefix "get_" name with Some rest => spec_of_suffixed false rest | None => None end
  end.
Definition spec_of_putter (name : string) : option gdesc :=
  match strip_prefix "put_" name with Some rest => spec_of_suffixed false rest | None => None end.

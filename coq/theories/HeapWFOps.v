(* WF is preserved by the operations of M2 and no operation reaches UB from a WF state: representation-level lemmas and
   the per-operation theorems (bytes.rs family first). *)
From stdpp Require Import gmap.
From Coq Require Import NArith Lia String.
From BV Require Import Base BaseLemmas BufMut Heap HeapLaws HeapPanic HeapWF HeapWFPrim.
Local Open Scope N_scope.
Arguments N.add : simpl never. Arguments N.sub : simpl never. Arguments N.ltb : simpl never. Arguments N.leb : simpl never. Arguments N.eqb : simpl never.

(* LWF looks at the state only through the storages, the owners and their counters *)
Lemma lwf_same_store HM s s' : sts s' = sts s -> owners s' = owners s -> next_real s' = next_real s -> next_pseudo s' = next_pseudo s -> next_o s' = next_o s ->
  LWF HM s -> LWF HM s'.
Proof.
  intros H1 H2 H3 H4 H5 [T S D F]. constructor; rewrite ?H1, ?H2; try done. unfold sfresh in *. by rewrite H1, H2, H3, H4, H5.
Qed.
Lemma lwf_set_hs f HM s : LWF HM s -> LWF HM (set_hs f s).
Proof. by apply lwf_same_store. Qed.

(* ---- disjointness bookkeeping ---- *)
Lemma disj_insert_nowin HM t c : rwin c = None -> disj HM -> disj (<[t := c]> HM).
Proof.
  intros Hc D h1 h2 x1 x2 k o1 c1 o2 c2 Hne H1 H2 W1 W2. pose proof (rwin_none_mwin _ Hc) as Hm.
  apply lookup_insert_Some in H1 as [[<- <-]|[? H1]]; [congruence|]. apply lookup_insert_Some in H2 as [[<- <-]|[? H2]]; [congruence|]. eauto.
Qed.
(* a handle whose view lies inside the view the handle under the same key had *)
Definition rwin_sub (x x' : handle) : Prop :=
  rwin x' = None \/ exists k o c o' c', rwin x = Some (k, o, c) /\ rwin x' = Some (k, o', c') /\ mwin x' = None /\ o <= o' /\ o' + c' <= o + c.
Lemma disj_replace_read HM h x x' : disj HM -> HM !! h = Some x -> rwin_sub x x' -> disj (<[h := x']> HM).
Proof.
  intros D Hx [Hn|(k & o & c & o' & c' & Hr & Hr' & Hm' & Ha & Hb)]; [by apply disj_insert_nowin|].
  intros h1 h2 x1 x2 k0 o1 c1 o2 c2 Hne H1 H2 W1 W2.
  apply lookup_insert_Some in H1 as [[<- <-]|[? H1]]; [congruence|]. apply lookup_insert_Some in H2 as [[<- <-]|[? H2]]; [|eauto].
  rewrite Hr' in W2. injection W2 as <- <- <-.
  assert (c1 = 0 \/ c = 0 \/ o1 + c1 <= o \/ o + c <= o1) by (eapply (D h1 h); eauto). lia.
Qed.
(* a new handle with the same view as an existing Bytes handle *)
Lemma disj_insert_copy HM t c h0 x0 : disj HM -> HM !! t = None -> HM !! h0 = Some x0 -> mwin x0 = None -> mwin c = None -> rwin c = rwin x0 -> disj (<[t := c]> HM).
Proof.
  intros D Ht H0 Hm0 Hmc Hrc h1 h2 x1 x2 k o1 c1 o2 c2 Hne H1 H2 W1 W2.
  apply lookup_insert_Some in H1 as [[<- <-]|[? H1]]; [congruence|]. apply lookup_insert_Some in H2 as [[<- <-]|[? H2]]; [|eauto].
  rewrite Hrc in W2. assert (h1 <> h0) by (intros ->; congruence). eapply (D h1 h0); eauto.
Qed.
Lemma disj_delete HM h : disj HM -> disj (delete h HM).
Proof.
  intros D h1 h2 x1 x2 k o1 c1 o2 c2 Hne H1 H2 W1 W2. apply lookup_delete_Some in H1 as [? H1]. apply lookup_delete_Some in H2 as [? H2]. eauto.
Qed.
Lemma refs_insert_same HM h x x' k : HM !! h = Some x -> holds x' = holds x -> refs (<[h := x']> HM) k = refs HM k.
Proof. intros Hx Hh. pose proof (refs_insert HM h x x' k Hx) as H. unfold w in H. rewrite Hh in H. lia. Qed.
Lemma w_hold x k : holds x = Some k -> w x k = 1%nat. Proof. intros H. unfold w. by rewrite decide_True. Qed.
Lemma w_nohold x k : holds x <> Some k -> w x k = 0%nat. Proof. intros H. unfold w. by rewrite decide_False. Qed.

(* a handle-only change: same storage held, still typed, its view (if it matters) inside the old one *)
Lemma lwf_rehandle_sub HM s h x x' : LWF HM s -> HM !! h = Some x -> holds x' = holds x -> typed (sts s) x' -> rwin_sub x x' -> LWF (<[h := x']> HM) s.
Proof.
  intros L Hx Hh Ht Hw. eapply lwf_step0; [exact L| | |].
  - intros h' y Hy. apply lookup_insert_Some in Hy as [[<- <-]|[? Hy]]; [done|]. by eapply (lwf_typed _ _ L).
  - intros k. by eapply refs_insert_same.
  - eapply disj_replace_read; [apply (lwf_disj _ _ L)|exact Hx|done].
Qed.
Lemma lwf_rehandle HM s h x x' : LWF HM s -> HM !! h = Some x -> holds x' = holds x -> typed (sts s) x' -> rwin x' = None -> LWF (<[h := x']> HM) s.
Proof. intros L Hx Hh Ht Hw. eapply lwf_rehandle_sub; eauto. by left. Qed.
Lemma rwin_sub_hb ko o l vt a o' l' a' : o <= o' -> o' + l' <= o + l -> rwin_sub (HB ko o l vt a) (HB ko o' l' vt a').
Proof.
  intros H1 H2. destruct ko as [k|]; [|by left]. destruct vt; try (by left). right. exists k, o, l, o', l'. repeat split; done.
Qed.
(* a new handle that holds nothing *)
Lemma lwf_add_free HM s t c : LWF HM s -> HM !! t = None -> holds c = None -> typed (sts s) c -> LWF (<[t := c]> HM) s.
Proof.
  intros L Ht Hh Hty. eapply lwf_step0; [exact L| | |].
  - intros h' y Hy. apply lookup_insert_Some in Hy as [[<- <-]|[? Hy]]; [done|]. by eapply (lwf_typed _ _ L).
  - intros k. rewrite refs_insert_fresh by done. rewrite w_nohold; [done|]. by rewrite Hh.
  - apply disj_insert_nowin; [|apply (lwf_disj _ _ L)]. destruct c as [[?|] ? ? [] ?|? ? ? ? []|]; simpl in *; done.
Qed.
(* a handle that holds nothing disappears *)
Lemma lwf_del_free HM s h x : LWF HM s -> HM !! h = Some x -> holds x = None -> LWF (delete h HM) s.
Proof.
  intros L Hx Hh. eapply lwf_step0; [exact L| | |].
  - intros h' y Hy. apply lookup_delete_Some in Hy as [? Hy]. by eapply (lwf_typed _ _ L).
  - intros k. rewrite (refs_delete HM h x k Hx). rewrite w_nohold; [done|]. by rewrite Hh.
  - apply disj_delete, (lwf_disj _ _ L).
Qed.

(* ---- finishing an operation ---- *)
Lemma wf_new_h s x' (Q : hid -> hst -> Prop) : hfresh s -> LWF (<[next_h s := x']> (hs s)) s -> (forall s1, WF s1 -> Q (next_h s) s1) -> spec (new_h x') s Q.
Proof.
  intros Hf L HQ e. unfold new_h. apply HQ. split.
  - apply (lwf_same_store _ s); [reflexivity..|exact L].
  - intros h [y Hy]. simpl in *. destruct (decide (h = next_h s)) as [->|Hne]; [lia|]. rewrite lookup_insert_ne in Hy by done.
    assert (h < next_h s)%positive by (apply Hf; eauto). lia.
Qed.
Lemma hfresh_next s : hfresh s -> hs s !! next_h s = None.
Proof. intros Hf. destruct (hs s !! next_h s) eqn:E; [|done]. assert (next_h s < next_h s)%positive by (apply Hf; eauto). lia. Qed.
Lemma wf_put_h s h x x' : hfresh s -> hs s !! h = Some x -> LWF (<[h := x']> (hs s)) s -> WF (set_hs (<[h := x']>) s).
Proof.
  intros Hf Hx L. split; [by apply lwf_set_hs|]. intros h' [y Hy]. simpl in *. destruct (decide (h' = h)) as [->|Hne]; [apply Hf; eauto|].
  rewrite lookup_insert_ne in Hy by done. apply Hf; eauto.
Qed.
Lemma wf_del_h s h : hfresh s -> LWF (delete h (hs s)) s -> WF (set_hs (delete h) s).
Proof.
  intros Hf L. split; [by apply lwf_set_hs|]. intros h' [y Hy]. simpl in *. apply lookup_delete_Some in Hy as [? Hy]. apply Hf; eauto.
Qed.
Lemma hfresh_frame s s1 : sframe s s1 -> hfresh s -> hfresh s1.
Proof. intros [H1 H2] Hf. unfold hfresh. rewrite H1, H2. done. Qed.

(* ---- bytes.rs: clone ---- *)
Definition sub_of (x c : handle) : Prop :=
  match x, c with HB ko ofs len vt arc, HB ko' ofs' len' vt' arc' => ko' = ko /\ ofs' = ofs /\ len' = len | _, _ => False end.
Lemma typed_hb_sub sm k o l vt a o2 l2 : typed sm (HB (Some k) o l vt a) -> (vt = VPromEven \/ vt = VPromOdd -> a = true) -> o <= o2 -> o2 + l2 <= o + l ->
  typed sm (HB (Some k) o2 l2 vt a).
Proof.
  intros Ht Ha H1 H2. destruct vt; simpl in *.
  - destruct Ht as [->|(st & Hs & Hc & Hb)]; [left; lia|]. right. exists st. repeat split; try done. lia.
  - destruct Ht as (st & Hs & Hl & Hb & Hr). exists st. split; [done|]. split; [done|]. split; [lia|]. exact Hr.
  - destruct Ht as (st & Hs & Hl & Hb & Hc & Hr). exists st. rewrite Ha in * by auto. split; [done|]. split; [done|]. split; [lia|]. split; [done|exact Hr].
  - destruct Ht as (st & Hs & Hl & Hb & Hc & Hr). exists st. rewrite Ha in * by auto. split; [done|]. split; [done|]. split; [lia|]. split; [done|exact Hr].
  - destruct Ht as (st & Hs & Hl & Hb & Hr). exists st. split; [done|]. split; [done|]. split; [lia|]. exact Hr.
  - destruct Ht as (st & Hs & Hl & Hb & Hr). exists st. split; [done|]. split; [done|]. split; [lia|]. exact Hr.
Qed.

(* one more reference, materialised as the new handle c under a fresh key *)
Lemma clone_by_inc HM s t k st c : LWF HM s -> HM !! t = None -> sts s !! k = Some st -> s_live st = true -> s_ctrl st <> CNone ->
  holds c = Some k -> disj (<[t := c]> HM) -> typed (sts s) c ->
  spec (inc_rc k) s (fun _ s1 => sframe s s1 /\ LWF (<[t := c]> HM) s1).
Proof.
  intros L Ht Hs Hl Hc Hh Hw Hty. eapply (inc_rc_lwf HM _ s k st L Hs Hl Hc).
  - intros h' y Hy. apply lookup_insert_Some in Hy as [[<- <-]|[? Hy]]; [done|by eapply (lwf_typed _ _ L)].
  - rewrite refs_insert_fresh by done. by rewrite w_hold.
  - intros k2 Hk2. rewrite refs_insert_fresh by done. rewrite w_nohold; [done|]. congruence.
  - done.
Qed.

(* bytes_clone on the REAL table (it may flip the KIND bit of the handle's data cell): afterwards the clone c, put under any fresh key t,
   extends the invariant; c views the same window on a shareable representation *)
Definition clone_post (s : hst) (h t : hid) (ko : option positive) (ofs len : N) (c : handle) (s1 : hst) : Prop :=
  next_h s1 = next_h s /\ hfresh s1 /\ hs s1 !! t = None /\
  (exists vt1 a1, hs s1 = <[h := HB ko ofs len vt1 a1]> (hs s) /\ (vt1 = VPromEven \/ vt1 = VPromOdd -> a1 = true \/ ko = None)) /\
  exists vt', c = HB ko ofs len vt' false /\ (vt' = VPromEven \/ vt' = VPromOdd -> False) /\ LWF (<[t := c]> (hs s1)) s1.
Lemma clone_post_same s h t ko ofs len vt arc vt' s1 :
  hfresh s -> hs s !! h = Some (HB ko ofs len vt arc) -> hs s !! t = None -> (vt = VPromEven \/ vt = VPromOdd -> arc = true \/ ko = None) -> (vt' = VPromEven \/ vt' = VPromOdd -> False) ->
  sframe s s1 -> LWF (<[t := HB ko ofs len vt' false]> (hs s)) s1 -> clone_post s h t ko ofs len (HB ko ofs len vt' false) s1.
Proof.
  intros Hf Hx Ht Ha Hv [Hh1 Hn1] L1. unfold clone_post. rewrite Hh1, Hn1. split; [done|]. split; [|split; [done|split]].
  - unfold hfresh. by rewrite Hh1, Hn1.
  - exists vt, arc. split; [symmetry; by apply insert_id|done].
  - exists vt'. split; [done|split; [exact Hv|exact L1]].
Qed.
(* first clone of an unshared promotable Bytes: the control block appears with count 2, the handle's KIND bit flips *)
Lemma clone_promote_lwf s h t k ofs len vt arc0 :
  WF s -> hs s !! h = Some (HB (Some k) ofs len vt false) -> (vt = VPromEven \/ vt = VPromOdd) -> hs s !! t = None -> t <> h -> arc0 = false ->
  spec (upd_st k (with_ctrl (CShared (ofs + len) 2));; emit EAllocCtrl;; put_h h (HB (Some k) ofs len vt true);; mret (HB (Some k) ofs len VShared false)) s
       (clone_post s h t (Some k) ofs len).
Proof.
  intros [L Hf] Hx Hvt Ht Hne _. pose proof (lwf_typed _ _ L _ _ Hx) as Hty.
  assert (exists st, sts s !! k = Some st /\ s_live st = true /\ ofs + len <= s_size st /\ s_cls st = SHeap /\ s_ctrl st = CNone /\ ofs + len = s_size st) as (st & Hs & Hl & Hb & Hcl & Hc & He).
  { destruct Hvt as [-> | ->]; simpl in Hty; destruct Hty as (st & ? & ? & ? & ? & ? & ?); exists st; done. }
  assert (holds (HB (Some k) ofs len vt false) = Some k) as Hh by (destruct Hvt as [-> | ->]; done).
  pose proof (st_ok_sole_n _ _ _ _ _ _ L Hx Hh Hs Hc) as Hn1.
  set (flip := HB (Some k) ofs len vt true). set (c := HB (Some k) ofs len VShared false).
  assert (holds flip = Some k) as Hhf by (destruct Hvt as [-> | ->]; done).
  eapply spec_bind.
  { eapply (upd_ctrl_lwf (hs s) (<[t := c]> (<[h := flip]> (hs s))) s k st _ L Hs).
    - intros h' y Hy. apply lookup_insert_Some in Hy as [[<- <-]|[? Hy]]; [|apply lookup_insert_Some in Hy as [[<- <-]|[? Hy]]].
      + simpl. eexists. rewrite lookup_insert. split; [done|]. simpl. rewrite Hl, Hcl, He. repeat split; try done; try lia. by exists 2.
      + unfold flip. destruct Hvt as [-> | ->]; simpl; eexists; rewrite lookup_insert; (split; [done|]); simpl; rewrite Hl, Hcl, He; repeat split; try done; try lia; by exists 2.
      + eapply typed_upd_nothold; [exact Hs|by rewrite Hcl| |by eapply (lwf_typed _ _ L)]. by eapply (refs_one_other (hs s) h).
    - assert (refs (<[t := c]> (<[h := flip]> (hs s))) k = 2%nat) as ->.
      { rewrite refs_insert_fresh by (by rewrite lookup_insert_ne). rewrite w_hold by done. rewrite (refs_insert_same _ _ _ _ _ Hx) by (by rewrite Hhf, Hh). lia. }
      unfold st_ok. simpl. rewrite Hcl, Hl. pose proof (lwf_st _ _ L _ _ Hs) as Hok. unfold st_ok in Hok. rewrite Hcl in Hok. destruct Hok as [Hnz _].
      repeat split; try done; lia.
    - intros k2 Hk2. rewrite refs_insert_fresh by (by rewrite lookup_insert_ne). rewrite w_nohold by (simpl; congruence).
      by rewrite (refs_insert_same _ _ _ _ _ Hx) by (by rewrite Hhf, Hh).
    - apply disj_insert_nowin; [done|]. apply disj_insert_nowin; [by destruct Hvt as [-> | ->]|apply (lwf_disj _ _ L)]. }
  intros [] s1 [[Hh1 Hn] L1].
  eapply spec_bind; [apply spec_emit'|]. intros [] s2 ->.
  eapply spec_bind; [apply spec_put_h'|]. intros [] s2 ->. apply spec_ret.
  unfold clone_post. simpl. rewrite Hh1, Hn. split; [done|]. split; [|split; [by rewrite lookup_insert_ne|split]].
  - intros h' [y Hy]. simpl in Hy. rewrite Hh1 in Hy. simpl. rewrite Hn. destruct (decide (h' = h)) as [->|?]; [apply Hf; eauto|]. rewrite lookup_insert_ne in Hy by done. apply Hf; eauto.
  - exists vt, true. split; [done|]. by left.
  - exists VShared. split; [done|]. split; [naive_solver|]. apply lwf_set_hs. exact L1.
Qed.
Lemma bytes_clone_lwf s h t ko ofs len vt arc :
  WF s -> hs s !! h = Some (HB ko ofs len vt arc) -> hs s !! t = None -> t <> h ->
  spec (bytes_clone h) s (clone_post s h t ko ofs len).
Proof.
  intros [L Hf] Hx Ht Hne. pose proof (lwf_typed _ _ L _ _ Hx) as Hty.
  unfold bytes_clone. eapply spec_bind; [apply (spec_get_h' _ _ _ Hx)|]. intros x s1 [-> ->].
  destruct vt; destruct ko as [k|]; simpl in Hty; try (by destruct Hty as [_ ?]).
  - (* static *)
    apply spec_ret. eapply clone_post_same; try done; [naive_solver|naive_solver|]. apply lwf_add_free; done.
  - apply spec_ret. eapply clone_post_same; try done; [naive_solver|naive_solver|]. apply lwf_add_free; done.
  - (* owned *)
    destruct Hty as (st & Hs & Hl & Hb & Hcl & rc & o & Hc).
    eapply spec_bind. { eapply (clone_by_inc _ s t k st (HB (Some k) ofs len VOwned false) L Ht Hs Hl); try done. - by rewrite Hc. - apply disj_insert_nowin; [done|apply (lwf_disj _ _ L)]. - simpl. exists st. repeat split; eauto. }
    intros [] s1 [Hfr L1]. apply spec_ret. eapply clone_post_same; try done; naive_solver.
  - (* promotable, even *)
    destruct arc.
    + destruct Hty as (st & Hs & Hl & Hb & Hcl & rc & Hc). unfold shallow_clone_arc.
      eapply spec_bind. { eapply (clone_by_inc _ s t k st (HB (Some k) ofs len VShared false) L Ht Hs Hl); try done. - by rewrite Hc. - apply disj_insert_nowin; [done|apply (lwf_disj _ _ L)]. - simpl. exists st. repeat split; eauto. }
      intros [] s1 [Hfr L1]. apply spec_ret. eapply clone_post_same; try done; naive_solver.
    + eapply clone_promote_lwf; try done. by left.
  - destruct arc.
    + destruct Hty as (st & Hs & Hl & Hb & Hcl & rc & Hc). unfold shallow_clone_arc.
      eapply spec_bind. { eapply (clone_by_inc _ s t k st (HB (Some k) ofs len VShared false) L Ht Hs Hl); try done. - by rewrite Hc. - apply disj_insert_nowin; [done|apply (lwf_disj _ _ L)]. - simpl. exists st. repeat split; eauto. }
      intros [] s1 [Hfr L1]. apply spec_ret. eapply clone_post_same; try done; naive_solver.
    + eapply clone_promote_lwf; try done. by right.
  - (* shared *)
    destruct Hty as (st & Hs & Hl & Hb & Hcl & rc & Hc). unfold shallow_clone_arc.
    eapply spec_bind. { eapply (clone_by_inc _ s t k st (HB (Some k) ofs len VShared false) L Ht Hs Hl); try done. - by rewrite Hc. - apply disj_insert_nowin; [done|apply (lwf_disj _ _ L)]. - simpl. exists st. repeat split; eauto. }
    intros [] s1 [Hfr L1]. apply spec_ret. eapply clone_post_same; try done; naive_solver.
  - destruct Hty as (st & Hs & Hl & Hb & Hcl & o & rc & Hc).
    eapply spec_bind. { eapply (clone_by_inc _ s t k st (HB (Some k) ofs len VSharedV false) L Ht Hs Hl); try done. - by rewrite Hc. - eapply (disj_insert_copy _ t _ h); [apply (lwf_disj _ _ L)|done|exact Hx|done|done|done]. - simpl. exists st. repeat split; eauto. }
    intros [] s1 [Hfr L1]. apply spec_ret. eapply clone_post_same; try done; naive_solver.
Qed.

(* ---- giving a handle's reference back ---- *)
Lemma refs_delete_hold HM h x k : HM !! h = Some x -> holds x = Some k -> S (refs (delete h HM) k) = refs HM k.
Proof. intros Hx Hh. rewrite (refs_delete HM h x k Hx), w_hold by done. lia. Qed.
Lemma refs_delete_other HM h x k : HM !! h = Some x -> holds x <> Some k -> refs (delete h HM) k = refs HM k.
Proof. intros Hx Hh. rewrite (refs_delete HM h x k Hx), w_nohold by done. lia. Qed.
Lemma typed_delete HM s h : LWF HM s -> forall h' y, delete h HM !! h' = Some y -> typed (sts s) y.
Proof. intros L h' y Hy. apply lookup_delete_Some in Hy as [? Hy]. by eapply (lwf_typed _ _ L). Qed.
Lemma drop_token_release HM s h x k st : LWF HM s -> HM !! h = Some x -> holds x = Some k -> sts s !! k = Some st -> s_live st = true -> s_ctrl st <> CNone ->
  spec (release k) s (fun _ s1 => sframe s s1 /\ LWF (delete h HM) s1).
Proof.
  intros L Hx Hh Hs Hl Hc. eapply (release_lwf HM _ s k st L Hs Hl Hc).
  - by apply typed_delete.
  - by eapply refs_delete_hold.
  - intros k2 Hk2. eapply refs_delete_other; [done|]. congruence.
  - apply disj_delete, (lwf_disj _ _ L).
Qed.
Lemma drop_token_free HM s h x k st size : LWF HM s -> HM !! h = Some x -> holds x = Some k -> sts s !! k = Some st -> s_live st = true -> heapish (s_cls st) -> s_ctrl st = CNone -> size = s_size st ->
  spec (free_buf k size) s (fun _ s1 => sframe s s1 /\ LWF (delete h HM) s1).
Proof.
  intros L Hx Hh Hs Hl Hcl Hc Hsz. eapply (free_buf_sole_lwf HM _ s k st size L Hs Hl Hcl Hc Hsz).
  - by apply typed_delete.
  - pose proof (st_ok_sole_n _ _ _ _ _ _ L Hx Hh Hs Hc) as H1. pose proof (refs_delete_hold _ _ _ _ Hx Hh). lia.
  - intros k2 Hk2. eapply refs_delete_other; [done|]. congruence.
  - apply disj_delete, (lwf_disj _ _ L).
Qed.
Lemma drop_token_vec HM s h x k st cap : LWF HM s -> HM !! h = Some x -> holds x = Some k -> sts s !! k = Some st -> s_live st = true -> heapish (s_cls st) -> s_ctrl st = CNone -> cap = s_size st ->
  spec (drop_vec k cap) s (fun _ s1 => sframe s s1 /\ LWF (delete h HM) s1).
Proof.
  intros L Hx Hh Hs Hl Hcl Hc Hsz. eapply (drop_vec_sole_lwf HM _ s k st cap L Hs Hl Hcl Hc Hsz).
  - by apply typed_delete.
  - pose proof (st_ok_sole_n _ _ _ _ _ _ L Hx Hh Hs Hc) as H1. pose proof (refs_delete_hold _ _ _ _ Hx Hh). lia.
  - intros k2 Hk2. eapply refs_delete_other; [done|]. congruence.
  - apply disj_delete, (lwf_disj _ _ L).
Qed.

Lemma bytes_drop_rep_lwf HM s h ko ofs len vt arc : LWF HM s -> HM !! h = Some (HB ko ofs len vt arc) ->
  spec (bytes_drop_rep (HB ko ofs len vt arc)) s (fun _ s1 => sframe s s1 /\ LWF (delete h HM) s1).
Proof.
  intros L Hx. pose proof (lwf_typed _ _ L _ _ Hx) as Hty. unfold bytes_drop_rep.
  destruct vt; destruct ko as [k|]; simpl in Hty; try (by destruct Hty as [_ ?]).
  - apply spec_ret. split; [done|]. by eapply lwf_del_free.
  - apply spec_ret. split; [done|]. by eapply lwf_del_free.
  - destruct Hty as (st & Hs & Hl & Hb & Hcl & rc & o & Hc). eapply drop_token_release; try done. by rewrite Hc.
  - destruct Hty as (st & Hs & Hl & Hb & Hcl & Hk). destruct arc.
    + destruct Hk as [rc Hc]. eapply drop_token_release; try done. by rewrite Hc.
    + destruct Hk as [Hc He]. eapply drop_token_free; try done. by left.
  - destruct Hty as (st & Hs & Hl & Hb & Hcl & Hk). destruct arc.
    + destruct Hk as [rc Hc]. eapply drop_token_release; try done. by rewrite Hc.
    + destruct Hk as [Hc He]. eapply drop_token_free; try done. by left.
  - destruct Hty as (st & Hs & Hl & Hb & Hcl & rc & Hc). eapply drop_token_release; try done. by rewrite Hc.
  - destruct Hty as (st & Hs & Hl & Hb & Hcl & o & rc & Hc). eapply drop_token_release; try done. by rewrite Hc.
Qed.

(* ================================================================================================ the operations *)
Definition is_b (s : hst) (h : hid) : Prop := exists ko ofs len vt arc, hs s !! h = Some (HB ko ofs len vt arc).
Definition is_m (s : hst) (h : hid) : Prop := exists k ofs len cap kd, hs s !! h = Some (HM k ofs len cap kd).
Definition is_v (s : hst) (h : hid) : Prop := exists k len cap, hs s !! h = Some (HV k len cap).
Definition op_ok (s : hst) (o : op) : Prop :=
  match o with
  | OBNew | OBFromStatic _ | OBFromVec _ _ | OBFromOwner _ _ | OMNew | OMWithCapacity _ | OMZeroed _ | OMFromSlice _ => True
  | OBClone h | OBSlice h _ _ | OBSliceIncl h _ _ | OBSliceRef h _ | OBSplitOff h _ | OBSplitTo h _ | OBTruncate h _ | OBClear h | OBAdvance h _
  | OBIsUnique h | OBTryIntoMut h | OBIntoMut h | OBIntoVec h | OBDrop h => is_b s h
  | OMSplitOff h _ | OMSplitTo h _ | OMSplit h | OMTruncate h _ | OMClear h | OMResize h _ _ | OMReserve h _ | OMTryReclaim h _ | OMExtend h _ | OMExtendIter h _ _
  | OMWrite h _ _ | OMFreeze h | OMIntoVec h | OMAdvance h _ | OMClone h | OMDrop h => is_m s h
  | OMUnsplit h o2 => h <> o2 /\ is_m s h /\ is_m s o2
  | OVIntoBytes h | OVDrop h => is_v s h
  end.
Definition wfstep (orc : oracle) (o : op) : Prop := forall s, WF s -> op_ok s o -> spec (hstep orc o) s (fun _ s1 => WF s1).
Ltac sbind H := eapply spec_bind; [apply H|].
Lemma spec_ret' {A} (a : A) s : spec (mret a) s (fun x s1 => x = a /\ s1 = s).
Proof. by apply spec_ret. Qed.
Ltac sret := eapply spec_bind; [apply spec_ret'|]; intros ? ? [-> ->]; cbn beta iota.

Lemma typed_hb_adv sm ko o l vt a cnt : typed sm (HB ko o l vt a) -> cnt <= l -> typed sm (HB ko (o + cnt) (l - cnt) vt a).
Proof.
  intros Ht Hc. destruct ko as [k|]; simpl in *; [|destruct Ht as [-> ->]; split; [lia|done]].
  destruct vt; simpl in *.
  - destruct Ht as [->|(st & Hs & Hcl & Hb)]; [left; lia|]. right. exists st. repeat split; try done. lia.
  - destruct Ht as (st & Hs & Hl & Hb & Hr). exists st. split; [done|]. split; [done|]. split; [lia|]. exact Hr.
  - destruct Ht as (st & Hs & Hl & Hb & Hcl & Hr). exists st. split; [done|]. split; [done|]. split; [lia|]. split; [done|]. destruct a; [done|]. destruct Hr. split; [done|lia].
  - destruct Ht as (st & Hs & Hl & Hb & Hcl & Hr). exists st. split; [done|]. split; [done|]. split; [lia|]. split; [done|]. destruct a; [done|]. destruct Hr. split; [done|lia].
  - destruct Ht as (st & Hs & Hl & Hb & Hr). exists st. split; [done|]. split; [done|]. split; [lia|]. exact Hr.
  - destruct Ht as (st & Hs & Hl & Hb & Hr). exists st. split; [done|]. split; [done|]. split; [lia|]. exact Hr.
Qed.
Lemma typed_empty_ptr sm ko ofs : typed sm (empty_with_ptr ko ofs).
Proof. unfold empty_with_ptr. destruct ko; simpl; [by left|done]. Qed.
Lemma typed_static_empty sm : typed sm b_static_empty. Proof. done. Qed.

Lemma wf_OBNew orc : wfstep orc OBNew.
Proof.
  intros s [L Hf] _. simpl. sbind (wf_new_h s b_static_empty (fun _ s1 => WF s1) Hf); [|done|].
  - apply lwf_add_free; try done. by apply hfresh_next.
  - intros r s1 W. by apply spec_ret.
Qed.
Lemma wf_OBDrop orc h : wfstep orc (OBDrop h).
Proof.
  intros s [L Hf] (ko & ofs & len & vt & arc & Hx). simpl. sbind (spec_get_h' _ _ _ Hx). intros x s1 [-> ->].
  sbind (bytes_drop_rep_lwf _ _ _ _ _ _ _ _ L Hx). intros [] s1 [[Hh1 Hn1] L1].
  sbind spec_del_h'. intros [] s2 ->. apply spec_ret. apply wf_del_h; [by eapply hfresh_frame|by rewrite Hh1].
Qed.
Lemma wf_OBClone orc h : wfstep orc (OBClone h).
Proof.
  intros s W (ko & ofs & len & vt & arc & Hx). simpl. pose proof W as [L Hf].
  assert (next_h s <> h) as Hne. { intros E. rewrite <- E in Hx. by rewrite (hfresh_next _ Hf) in Hx. }
  sbind (bytes_clone_lwf s h (next_h s) ko ofs len vt arc W Hx (hfresh_next _ Hf) Hne).
  intros c s1 (Hn & Hf1 & Ht1 & _ & vt' & -> & _ & L1).
  eapply spec_bind; [eapply (wf_new_h s1 _ (fun _ s2 => WF s2) Hf1); [by rewrite Hn|done]|]. intros r s2 W2. by apply spec_ret.
Qed.
Lemma wf_OBAdvance orc h cnt : wfstep orc (OBAdvance h cnt).
Proof.
  intros s [L Hf] (ko & ofs & len & vt & arc & Hx). simpl. sbind (spec_get_h' _ _ _ Hx). intros x s1 [-> ->]. cbn [b_parts]. sret.
  sbind spec_assert'. intros [] s1 [Hc ->]. sbind spec_put_h'. intros [] s1 ->. apply spec_ret.
  eapply wf_put_h; [done|exact Hx|]. eapply lwf_rehandle_sub; [done|exact Hx|done| |apply rwin_sub_hb; lia].
  apply typed_hb_adv; [by eapply (lwf_typed _ _ L)|lia].
Qed.

(* ---- uniqueness query: reads the count, changes nothing ---- *)
Lemma get_rc_spec s k st : sts s !! k = Some st -> s_ctrl st <> CNone -> spec (get_rc k) s (fun _ s1 => s1 = s).
Proof.
  intros Hs Hc. unfold get_rc. sbind (spec_get_st' _ _ _ Hs). intros x s1 [-> ->]. destruct (s_ctrl st); try done; by apply spec_ret.
Qed.
Lemma bytes_is_unique_spec HM s h ko ofs len vt arc : LWF HM s -> HM !! h = Some (HB ko ofs len vt arc) ->
  spec (bytes_is_unique_rep (HB ko ofs len vt arc)) s (fun _ s1 => s1 = s).
Proof.
  intros L Hx. pose proof (lwf_typed _ _ L _ _ Hx) as Hty. unfold bytes_is_unique_rep.
  destruct vt; destruct ko as [k|]; simpl in Hty; try (by destruct Hty as [_ ?]); try (by apply spec_ret).
  - destruct Hty as (st & Hs & Hl & Hb & Hcl & Hk). destruct arc; [|by apply spec_ret]. destruct Hk as [rc Hc].
    sbind (get_rc_spec s k st Hs). { by rewrite Hc. } intros r s1 ->. by apply spec_ret.
  - destruct Hty as (st & Hs & Hl & Hb & Hcl & Hk). destruct arc; [|by apply spec_ret]. destruct Hk as [rc Hc].
    sbind (get_rc_spec s k st Hs). { by rewrite Hc. } intros r s1 ->. by apply spec_ret.
  - destruct Hty as (st & Hs & Hl & Hb & Hcl & rc & Hc). sbind (get_rc_spec s k st Hs). { by rewrite Hc. } intros r s1 ->. by apply spec_ret.
  - destruct Hty as (st & Hs & Hl & Hb & Hcl & o & rc & Hc). sbind (get_rc_spec s k st Hs). { by rewrite Hc. } intros r s1 ->. by apply spec_ret.
Qed.
Lemma wf_OBIsUnique orc h : wfstep orc (OBIsUnique h).
Proof.
  intros s [L Hf] (ko & ofs & len & vt & arc & Hx). simpl. sbind (spec_get_h' _ _ _ Hx). intros x s1 [-> ->].
  sbind (bytes_is_unique_spec _ _ _ _ _ _ _ _ L Hx). intros b s1 ->. by apply spec_ret.
Qed.

(* ---- slicing ---- *)
Lemma wf_new_empty s : WF s -> spec (let! r := new_h b_static_empty in mret (RH r)) s (fun _ s1 => WF s1).
Proof.
  intros [L Hf]. eapply spec_bind; [eapply (wf_new_h s _ (fun _ s2 => WF s2) Hf); [|done]|].
  - apply lwf_add_free; try done. by apply hfresh_next.
  - intros r s1 W. by apply spec_ret.
Qed.
Lemma bytes_slice_wf s h b e : WF s -> is_b s h -> spec (bytes_slice h b e) s (fun _ s1 => WF s1).
Proof.
  intros W (ko & ofs & len & vt & arc & Hx). pose proof W as [L Hf]. unfold bytes_slice.
  sbind (spec_get_h' _ _ _ Hx). intros x s1 [-> ->]. cbn [b_parts]. sret.
  sbind spec_assert'. intros [] s1 [Hbe ->]. sbind spec_assert'. intros [] s1 [Hel ->].
  destruct (e =? b) eqn:Eeb; [by apply wf_new_empty|].
  assert (next_h s <> h) as Hne. { intros E. rewrite <- E in Hx. by rewrite (hfresh_next _ Hf) in Hx. }
  sbind (bytes_clone_lwf s h (next_h s) ko ofs len vt arc W Hx (hfresh_next _ Hf) Hne).
  intros c s1 (Hn & Hf1 & Ht1 & _ & vt' & -> & Hv' & L1).
  eapply spec_bind; [eapply (wf_new_h s1 _ (fun _ s2 => WF s2) Hf1); [|done]|intros r s2 W2; by apply spec_ret].
  rewrite Hn. rewrite <- (insert_insert (hs s1) (next_h s) (HB ko (ofs + b) (e - b) vt' false) (HB ko ofs len vt' false)).
  eapply lwf_rehandle_sub; [exact L1|apply lookup_insert|done| |apply rwin_sub_hb; lia].
  pose proof (lwf_typed _ _ L1 (next_h s) _ (lookup_insert _ _ _)) as Hc.
  destruct ko as [k|]; [|simpl in Hc; destruct Hc as [-> ->]; lia].
  eapply typed_hb_sub; [exact Hc|naive_solver|lia|lia].
Qed.
Lemma wf_OBSlice orc h b e : wfstep orc (OBSlice h b e).
Proof. intros s W Hok. simpl. by apply bytes_slice_wf. Qed.
Lemma wf_OBSliceIncl orc h b e : wfstep orc (OBSliceIncl h b e).
Proof. intros s W Hok. simpl. sbind spec_assert'. intros [] s1 [_ ->]. by apply bytes_slice_wf. Qed.
Lemma wf_OBSliceRef orc h sub : wfstep orc (OBSliceRef h sub).
Proof.
  intros s W Hok. pose proof Hok as (ko & ofs & len & vt & arc & Hx). simpl. sbind (spec_get_h' _ _ _ Hx). intros x s1 [-> ->]. cbn [b_parts]. sret.
  destruct sub as [[so sl]|]; [|apply spec_panic]. destruct (sl =? 0); [by apply wf_new_empty|].
  sbind spec_assert'. intros [] s1 [_ ->]. by apply bytes_slice_wf.
Qed.

(* ---- split_off / split_to / truncate ---- *)
(* moving a handle to another key *)
Lemma lwf_move HM s h t x e0 : LWF HM s -> HM !! h = Some x -> HM !! t = None -> t <> h -> holds e0 = None -> typed (sts s) e0 -> mwin e0 = None -> mwin x = None ->
  LWF (<[t := x]> (<[h := e0]> HM)) s.
Proof.
  intros L Hx Ht Hne He Hty Hw Hwx. eapply lwf_step0; [exact L| | |].
  - intros h' y Hy. apply lookup_insert_Some in Hy as [[<- <-]|[? Hy]]; [by eapply (lwf_typed _ _ L)|].
    apply lookup_insert_Some in Hy as [[<- <-]|[? Hy]]; [done|by eapply (lwf_typed _ _ L)].
  - intros k. rewrite refs_insert_fresh by (by rewrite lookup_insert_ne). pose proof (refs_insert HM h x e0 k Hx) as H. rewrite (w_nohold e0 k) in H by (by rewrite He). lia.
  - assert (rwin e0 = None) as Hre by (destruct e0 as [[?|] ? ? [] ?|? ? ? ? []|]; simpl in *; done).
    pose proof (lwf_disj _ _ L) as D. intros h1 h2 x1 x2 k o1 c1 o2 c2 Hn12 H1 H2 W1 W2.
    apply lookup_insert_Some in H1 as [[<- <-]|[? H1]]; [congruence|]. apply lookup_insert_Some in H1 as [[<- <-]|[? H1]]; [congruence|].
    apply lookup_insert_Some in H2 as [[<- <-]|[? H2]]; [eapply (D h1 h); eauto|]. apply lookup_insert_Some in H2 as [[<- <-]|[? H2]]; [congruence|]. eapply (D h1 h2); eauto.
Qed.
(* the common part of split_off / split_to / truncate: clone, re-read self; afterwards self may keep any sub-window [o1, o1+l1) and the
   new handle (under the next key) any sub-window [o2, o2+l2) *)
Definition split_post (s : hst) (h : hid) (ko : option positive) (ofs len : N) (vt' v1 : bvt) (a1 : bool) (s1 : hst) : Prop :=
  hfresh s1 /\ next_h s1 = next_h s /\ hs s1 !! h = Some (HB ko ofs len v1 a1) /\
  forall o1 l1 o2 l2, ofs <= o1 -> o1 + l1 <= ofs + len -> ofs <= o2 -> o2 + l2 <= ofs + len ->
    LWF (<[next_h s := HB ko o2 l2 vt' false]> (<[h := HB ko o1 l1 v1 a1]> (hs s1))) s1.
Lemma bytes_split_general {B} s h ko ofs len vt arc (f : handle -> option positive * N * N * bvt * bool -> M B) Q :
  WF s -> hs s !! h = Some (HB ko ofs len vt arc) -> len <> 0 ->
  (forall vt' v1 a1 s1, split_post s h ko ofs len vt' v1 a1 s1 -> spec (f (HB ko ofs len vt' false) (ko, ofs, len, v1, a1)) s1 Q) ->
  spec (let! c := bytes_clone h in let! x' := get_h h in let! p := b_parts x' in f c p) s Q.
Proof.
  intros W Hx Hlen HK. pose proof W as [L Hf].
  assert (next_h s <> h) as Hne. { intros E. rewrite <- E in Hx. by rewrite (hfresh_next _ Hf) in Hx. }
  sbind (bytes_clone_lwf s h (next_h s) ko ofs len vt arc W Hx (hfresh_next _ Hf) Hne).
  intros c s1 (Hn & Hf1 & Ht1 & (vt1 & a1 & Hh1 & Ha1) & vt' & -> & Hv' & L1).
  assert (hs s1 !! h = Some (HB ko ofs len vt1 a1)) as Hx1 by (rewrite Hh1; apply lookup_insert).
  sbind (spec_get_h' _ _ _ Hx1). intros x s2 [-> ->]. cbn [b_parts]. sret. apply HK.
  split; [done|]. split; [done|]. split; [done|]. intros o1 l1 o2 l2 H1 H2 H3 H4.
  assert (exists k, ko = Some k) as [k ->].
  { destruct ko as [k|]; [eauto|]. pose proof (lwf_typed _ _ L _ _ Hx) as Hty. simpl in Hty. destruct Hty as [-> _]. done. }
  set (M0 := <[next_h s := HB (Some k) ofs len vt' false]> (hs s1)) in *.
  assert (M0 !! h = Some (HB (Some k) ofs len vt1 a1)) as HM0h by (unfold M0; by rewrite lookup_insert_ne).
  assert (LWF (<[h := HB (Some k) o1 l1 vt1 a1]> M0) s1) as L2.
  { eapply lwf_rehandle_sub; [exact L1|exact HM0h|done| |apply rwin_sub_hb; lia]. eapply typed_hb_sub; [by eapply (lwf_typed _ _ L1)|naive_solver|lia|lia]. }
  assert (<[h := HB (Some k) o1 l1 vt1 a1]> M0 !! next_h s = Some (HB (Some k) ofs len vt' false)) as Ht2 by (rewrite lookup_insert_ne by done; apply lookup_insert).
  assert (LWF (<[next_h s := HB (Some k) o2 l2 vt' false]> (<[h := HB (Some k) o1 l1 vt1 a1]> M0)) s1) as L3.
  { eapply lwf_rehandle_sub; [exact L2|exact Ht2|done| |apply rwin_sub_hb; lia]. eapply typed_hb_sub; [by eapply (lwf_typed _ _ L2)|naive_solver|lia|lia]. }
  unfold M0 in L3. rewrite (insert_commute _ h (next_h s)) in L3 by done. rewrite insert_insert in L3. exact L3.
Qed.

Lemma len0_of_none s h ofs len vt arc : LWF (hs s) s -> hs s !! h = Some (HB None ofs len vt arc) -> len = 0.
Proof. intros L Hx. pose proof (lwf_typed _ _ L _ _ Hx) as Hty. by destruct Hty as [-> _]. Qed.
(* split_off_core leaves the returned half as a pending handle y: the invariant holds with y under the next key *)
Lemma bytes_split_off_core_wf {B} s h at_ (f : handle -> M B) Q :
  WF s -> is_b s h ->
  (forall y s1, hfresh s1 -> next_h s1 = next_h s -> is_b s1 h -> LWF (<[next_h s := y]> (hs s1)) s1 -> (exists k o l v a, y = HB k o l v a) -> spec (f y) s1 Q) ->
  spec (let! y := bytes_split_off_core h at_ in f y) s Q.
Proof.
  intros W (ko & ofs & len & vt & arc & Hx) HK. pose proof W as [L Hf]. unfold bytes_split_off_core.
  assert (next_h s <> h) as Hne. { intros E. rewrite <- E in Hx. by rewrite (hfresh_next _ Hf) in Hx. }
  eapply spec_bind; [|intros y s1 Hy; apply Hy].
  sbind (spec_get_h' _ _ _ Hx). intros x s1 [-> ->]. cbn [b_parts]. sret.
  destruct (at_ =? len) eqn:E1.
  { apply spec_ret. apply HK; try done; [by exists ko, ofs, len, vt, arc| |unfold empty_with_ptr; eauto 10].
    apply lwf_add_free; try done; [by apply hfresh_next|by destruct ko|apply typed_empty_ptr]. }
  destruct (at_ =? 0) eqn:E2.
  { sbind spec_put_h'. intros [] s1 ->. apply spec_ret. apply HK; simpl; try done.
    - intros h' [y Hy]. simpl in Hy. destruct (decide (h' = h)) as [->|?]; [apply Hf; eauto|]. rewrite lookup_insert_ne in Hy by done. apply Hf; eauto.
    - exists ko, ofs, 0, VStatic, false. apply lookup_insert.
    - apply lwf_set_hs. eapply lwf_move; try done; [by apply hfresh_next|by destruct ko|apply typed_empty_ptr].
    - eauto 10. }
  sbind spec_assert'. intros [] s1 [Hle ->].
  eapply (bytes_split_general s h ko ofs len vt arc _ _ W Hx); [lia|].
  intros vt' v1 a1 s1 (Hf1 & Hn1 & Hx1 & HL). cbn beta iota.
  sbind spec_put_h'. intros [] s2 ->. apply spec_ret. apply HK; simpl; try done.
  - intros h' [y Hy]. simpl in Hy. destruct (decide (h' = h)) as [->|?]; [apply Hf1; eauto|]. rewrite lookup_insert_ne in Hy by done. apply Hf1; eauto.
  - exists ko, ofs, at_, v1, a1. apply lookup_insert.
  - apply lwf_set_hs. apply HL; lia.
  - eauto 10.
Qed.
Lemma wf_OBSplitOff orc h at_ : wfstep orc (OBSplitOff h at_).
Proof.
  intros s W Hok. simpl. unfold bytes_split_off. eapply bytes_split_off_core_wf; [done|done|].
  intros y s1 Hf1 Hn1 _ L1 _. eapply spec_bind; [eapply (wf_new_h s1 _ (fun _ s2 => WF s2) Hf1); [by rewrite Hn1|done]|]. intros r s2 W2. by apply spec_ret.
Qed.
Lemma wf_OBSplitTo orc h at_ : wfstep orc (OBSplitTo h at_).
Proof.
  intros s W (ko & ofs & len & vt & arc & Hx). pose proof W as [L Hf]. simpl. unfold bytes_split_to.
  assert (next_h s <> h) as Hne. { intros E. rewrite <- E in Hx. by rewrite (hfresh_next _ Hf) in Hx. }
  sbind (spec_get_h' _ _ _ Hx). intros x s1 [-> ->]. cbn [b_parts]. sret.
  destruct (at_ =? len) eqn:E1.
  { sbind spec_put_h'. intros [] s1 ->.
    eapply spec_bind; [eapply (wf_new_h _ _ (fun _ s2 => WF s2)); [| |done]|intros r s2 W2; by apply spec_ret].
    - intros h' [y Hy]. simpl in *. destruct (decide (h' = h)) as [->|?]; [apply Hf; eauto|]. rewrite lookup_insert_ne in Hy by done. apply Hf; eauto.
    - simpl. apply lwf_set_hs. eapply lwf_move; try done; [by apply hfresh_next|by destruct ko|apply typed_empty_ptr]. }
  destruct (at_ =? 0) eqn:E2.
  { eapply spec_bind; [eapply (wf_new_h _ _ (fun _ s2 => WF s2) Hf); [|done]|intros r s2 W2; by apply spec_ret].
    apply lwf_add_free; try done; [by apply hfresh_next|by destruct ko|apply typed_empty_ptr]. }
  sbind spec_assert'. intros [] s1 [Hle ->].
  eapply (bytes_split_general s h ko ofs len vt arc _ _ W Hx); [lia|].
  intros vt' v1 a1 s1 (Hf1 & Hn1 & Hx1 & HL). cbn beta iota.
  sbind spec_put_h'. intros [] s2 ->.
  eapply spec_bind; [eapply (wf_new_h _ _ (fun _ s3 => WF s3)); [| |done]|intros r s3 W3; by apply spec_ret].
  - intros h' [y Hy]. simpl in *. destruct (decide (h' = h)) as [->|?]; [apply Hf1; eauto|]. rewrite lookup_insert_ne in Hy by done. apply Hf1; eauto.
  - simpl. rewrite Hn1. apply lwf_set_hs. apply HL; lia.
Qed.
Lemma wf_bytes_truncate s h len' : WF s -> is_b s h -> spec (bytes_truncate h len') s (fun _ s1 => WF s1).
Proof.
  intros W Hok. pose proof Hok as (ko & ofs & len & vt & arc & Hx). pose proof W as [L Hf]. unfold bytes_truncate.
  sbind (spec_get_h' _ _ _ Hx). intros x s1 [-> ->]. cbn [b_parts]. sret.
  destruct (len' <? len) eqn:E1; [|by apply spec_ret].
  assert (forall vt0, vt0 = vt -> (vt = VPromEven \/ vt = VPromOdd -> False) -> spec (put_h h (HB ko ofs len' vt arc);; mret RUnit) s (fun _ s1 => WF s1)) as Hplain.
  { intros vt0 _ Hnp. sbind spec_put_h'. intros [] s1 ->. apply spec_ret. eapply wf_put_h; [done|exact Hx|].
    eapply lwf_rehandle_sub; [done|exact Hx|done| |apply rwin_sub_hb; lia]. destruct ko as [k|].
    - eapply typed_hb_sub; [by eapply (lwf_typed _ _ L)|naive_solver|lia|lia].
    - pose proof (len0_of_none _ _ _ _ _ _ L Hx). lia. }
  assert (spec (let! y := bytes_split_off_core h len' in bytes_drop_rep y;; mret RUnit) s (fun _ s1 => WF s1)) as Hprom.
  { eapply bytes_split_off_core_wf; [done|done|]. intros y s1 Hf1 Hn1 Hb1 L1 (k0 & o0 & l0 & v0 & a0 & ->).
    sbind (bytes_drop_rep_lwf _ _ (next_h s) _ _ _ _ _ L1 (lookup_insert _ _ _)). intros [] s2 [[Hh2 Hn2] L2]. apply spec_ret.
    rewrite delete_insert in L2 by (rewrite <- Hn1; by apply hfresh_next). split; [by rewrite Hh2|]. by eapply hfresh_frame. }
  destruct vt; try (apply (Hplain _ eq_refl); naive_solver); exact Hprom.
Qed.
Lemma wf_OBTruncate orc h l : wfstep orc (OBTruncate h l).
Proof. intros s W Hok. simpl. by apply wf_bytes_truncate. Qed.
Lemma wf_OBClear orc h : wfstep orc (OBClear h).
Proof. intros s W Hok. simpl. by apply wf_bytes_truncate. Qed.

(* ---- constructors, Vec handles ---- *)
(* a sole token on a freshly allocated buffer *)
Lemma alloc_token HM s size k' s1 t x' : LWF HM s -> alloc_post HM s size k' s1 -> HM !! t = None -> holds x' = Some k' -> rwin x' = None ->
  (forall st', sts s1 !! k' = Some st' -> s_live st' = true -> s_ctrl st' = CNone -> s_size st' = size -> s_cls st' = (if size =? 0 then SDangling else SHeap) -> typed (sts s1) x') ->
  LWF (<[t := x']> HM) s1.
Proof.
  intros L (Hfr & st' & (Hn & Hl & Hc & Hsz & Hcl) & Hs1 & HK) Ht Hh Hw Hty. apply HK.
  - intros h y Hy. apply lookup_insert_Some in Hy as [[<- <-]|[? Hy]].
    + apply (Hty st'); try done. rewrite Hs1. apply lookup_insert.
    + rewrite Hs1. apply typed_ins_fresh; [done|by eapply (lwf_typed _ _ L)].
  - rewrite refs_insert_fresh by done. rewrite w_hold by done. rewrite (refs_fresh_storage _ _ _ L Hn). lia.
  - intros _. rewrite refs_insert_fresh by done. rewrite w_hold by done. rewrite (refs_fresh_storage _ _ _ L Hn). lia.
  - intros k2 Hk2. rewrite refs_insert_fresh by done. rewrite w_nohold; [done|congruence].
  - apply disj_insert_nowin; [done|apply (lwf_disj _ _ L)].
Qed.
Lemma heapish_of_size size : heapish (if size =? 0 then SDangling else SHeap).
Proof. destruct (size =? 0); [by right|by left]. Qed.
Lemma typed_fresh_hv sm k' st' size len : sm !! k' = Some st' -> s_live st' = true -> s_ctrl st' = CNone -> s_size st' = size -> s_cls st' = (if size =? 0 then SDangling else SHeap) ->
  len <= size -> typed sm (HV k' len size).
Proof. intros Hs Hl Hc Hsz Hcl Hle. simpl. exists st'. rewrite Hcl, Hsz. repeat split; try done. apply heapish_of_size. Qed.
Lemma typed_fresh_hm sm k' st' size len o : sm !! k' = Some st' -> s_live st' = true -> s_ctrl st' = CNone -> s_size st' = size -> s_cls st' = (if size =? 0 then SDangling else SHeap) ->
  len <= size -> typed sm (HM k' 0 len size (MVec o)).
Proof. intros Hs Hl Hc Hsz Hcl Hle. simpl. exists st'. rewrite Hcl, Hsz. repeat split; try done; [apply heapish_of_size|lia]. Qed.

(* new_h of a handle on a fresh buffer *)
Lemma wf_alloc_new s size init (mk : positive -> handle) :
  WF s -> (forall k', holds (mk k') = Some k' /\ rwin (mk k') = None) ->
  (forall sm k' st', sm !! k' = Some st' -> s_live st' = true -> s_ctrl st' = CNone -> s_size st' = size -> s_cls st' = (if size =? 0 then SDangling else SHeap) -> typed sm (mk k')) ->
  spec (let! k := alloc_buf size init in let! r := new_h (mk k) in mret (RH r)) s (fun _ s1 => WF s1).
Proof.
  intros [L Hf] Hmk Hty. sbind (alloc_buf_lwf _ s size init L). intros k' s1 Hpost. pose proof Hpost as ([Hh1 Hn1] & _).
  eapply spec_bind; [eapply (wf_new_h s1 _ (fun _ s2 => WF s2)); [by eapply hfresh_frame| |done]|intros r s2 W2; by apply spec_ret].
  rewrite Hh1, Hn1. destruct (Hmk k') as [Hh Hw]. eapply alloc_token; try done; [by apply hfresh_next|]. intros st' ? ? ? ? ?. by eapply Hty.
Qed.
Lemma wf_OMNew orc : wfstep orc OMNew.
Proof.
  intros s W _. simpl. apply (wf_alloc_new s 0 [] (fun k => from_vec k 0 0) W); [done|].
  intros sm k' st' ? ? ? ? ?. unfold from_vec. eapply typed_fresh_hm; eauto; lia.
Qed.
Lemma wf_OMWithCapacity orc cap : wfstep orc (OMWithCapacity cap).
Proof.
  intros s W _. simpl. apply (wf_alloc_new s cap [] (fun k => from_vec k 0 cap) W); [done|].
  intros sm k' st' ? ? ? ? ?. unfold from_vec. eapply typed_fresh_hm; eauto; lia.
Qed.
Lemma wf_OMZeroed orc len : wfstep orc (OMZeroed len).
Proof.
  intros s W _. simpl. apply (wf_alloc_new s len _ (fun k => from_vec k len len) W); [done|].
  intros sm k' st' ? ? ? ? ?. unfold from_vec. eapply typed_fresh_hm; eauto; lia.
Qed.
Lemma wf_to_vec_new s bs (mk : positive -> N -> handle) :
  WF s -> (forall k', holds (mk k' (lenN bs)) = Some k' /\ rwin (mk k' (lenN bs)) = None) ->
  (forall sm k' st', sm !! k' = Some st' -> s_live st' = true -> s_ctrl st' = CNone -> s_size st' = lenN bs -> s_cls st' = (if lenN bs =? 0 then SDangling else SHeap) -> typed sm (mk k' (lenN bs))) ->
  spec (let! (k, c) := to_vec bs in let! r := new_h (mk k c) in mret (RH r)) s (fun _ s1 => WF s1).
Proof.
  intros [L Hf] Hmk Hty. unfold to_vec. eapply spec_bind with (Q1 := fun p s1 => alloc_post (hs s) s (lenN bs) p.1 s1 /\ p.2 = lenN bs).
  { sbind (alloc_buf_lwf _ s (lenN bs) bs L). intros k' s1 Hpost. apply spec_ret. by split. }
  intros [k' c] s1 [Hpost Hc]. simpl in Hc, Hpost. subst c. cbn beta iota. pose proof Hpost as ([Hh1 Hn1] & _).
  eapply spec_bind; [eapply (wf_new_h s1 _ (fun _ s2 => WF s2)); [by eapply hfresh_frame| |done]|intros r s2 W2; by apply spec_ret].
  rewrite Hh1, Hn1. destruct (Hmk k') as [Hh Hw]. eapply alloc_token; try done; [by apply hfresh_next|]. intros st' ? ? ? ? ?. by eapply Hty.
Qed.

Lemma wf_OMFromSlice orc d : wfstep orc (OMFromSlice d).
Proof.
  intros s W _. simpl. apply (wf_to_vec_new s d (fun k c => from_vec k c c) W); [done|].
  intros sm k' st' ? ? ? ? ?. unfold from_vec. eapply typed_fresh_hm; eauto; lia.
Qed.
(* reading a handle's own window never faults *)
Lemma bytes_contents_spec HM s h x : LWF HM s -> HM !! h = Some x -> spec (bytes_contents x) s (fun _ s1 => s1 = s).
Proof.
  intros L Hx. pose proof (lwf_typed _ _ L _ _ Hx) as Hty. unfold bytes_contents.
  destruct x as [[k|] ofs len vt arc|k ofs len cap [o|]|k len cap]; simpl in Hty.
  - destruct vt.
    + destruct Hty as [->|(st & Hs & Hc & Hb)]; [apply mread_spec0|]. pose proof (lwf_st _ _ L _ _ Hs) as Hok. unfold st_ok in Hok. rewrite Hc in Hok. eapply mread_spec; [exact Hs|apply Hok|done].
    + destruct Hty as (st & Hs & Hl & Hb & _). by eapply mread_spec.
    + destruct Hty as (st & Hs & Hl & Hb & _). by eapply mread_spec.
    + destruct Hty as (st & Hs & Hl & Hb & _). by eapply mread_spec.
    + destruct Hty as (st & Hs & Hl & Hb & _). by eapply mread_spec.
    + destruct Hty as (st & Hs & Hl & Hb & _). by eapply mread_spec.
  - destruct Hty as [-> _]. change (0 =? 0) with true. cbn iota. by apply spec_ret.
  - destruct Hty as (st & Hs & Hl & _ & _ & Hb & Hle). eapply mread_spec; [exact Hs|done|lia].
  - destruct Hty as (st & Hs & Hl & _ & _ & Hb & Hle). eapply mread_spec; [exact Hs|done|lia].
  - destruct Hty as (st & Hs & Hl & _ & _ & Hb & Hle). eapply mread_spec; [exact Hs|done|lia].
Qed.
Lemma wf_OMClone orc h : wfstep orc (OMClone h).
Proof.
  intros s W (k & ofs & len & cap & kd & Hx). pose proof W as [L Hf]. simpl. sbind (spec_get_h' _ _ _ Hx). intros x s1 [-> ->].
  sbind (bytes_contents_spec _ _ _ _ L Hx). intros bs s1 ->.
  apply (wf_to_vec_new s bs (fun k c => from_vec k c c) W); [done|].
  intros sm k' st' ? ? ? ? ?. unfold from_vec. eapply typed_fresh_hm; eauto; lia.
Qed.

Lemma wf_OBFromStatic orc d : wfstep orc (OBFromStatic d).
Proof.
  intros s [L Hf] _. simpl. sbind spec_mget'. intros x s1 [-> ->]. destruct (lenN d =? 0) eqn:Ez.
  { sret. by apply wf_new_empty. }
  sbind spec_mput'. intros [] s1 ->.
  destruct L as [T S D (F1 & F2 & F3 & F4)] eqn:EL.
  assert (sts s !! xO (next_real s) = None) as Hfr.
  { destruct (sts s !! xO (next_real s)) eqn:E; [|done]. assert (next_real s < next_real s)%positive by (apply F1; eauto). lia. }
  set (st' := {| s_size := lenN d; s_data := d; s_live := true; s_odd := false; s_cls := SStatic; s_ctrl := CNone |}).
  eapply spec_bind; [eapply (wf_new_h _ _ (fun _ s2 => WF s2)); [done| |done]|intros r s2 W2; by apply spec_ret].
  cbn [hs next_h]. constructor; cbn [sts owners hs].
  - intros h y Hy. apply lookup_insert_Some in Hy as [[<- <-]|[? Hy]].
    + simpl. right. exists st'. rewrite lookup_insert. repeat split; try done; simpl; lia.
    + apply typed_ins_fresh; [done|by eapply T].
  - intros k st. destruct (decide (k = xO (next_real s))) as [->|Hne].
    + rewrite lookup_insert. intros [= <-]. done.
    + rewrite lookup_insert_ne by done. intros Hk. rewrite refs_insert_fresh by (by apply hfresh_next). rewrite w_nohold by done. by apply S.
  - apply disj_insert_nowin; [done|exact D].
  - repeat split; simpl.
    + intros p [st Hp]. destruct (decide (p = next_real s)) as [->|Hne]; [lia|]. rewrite lookup_insert_ne in Hp by congruence.
      assert (p < next_real s)%positive by (apply F1; eauto). lia.
    + intros p [st Hp]. rewrite lookup_insert_ne in Hp by done. apply F2; eauto.
    + done.
    + by rewrite lookup_insert_ne.
Qed.

(* forgetting the handle of a zero-capacity Vec: its dangling pseudo-storage is simply never used again *)
Lemma lwf_forget_dangling HM s t x k st : LWF HM s -> HM !! t = Some x -> holds x = Some k -> sts s !! k = Some st -> s_cls st = SDangling -> s_ctrl st = CNone ->
  LWF (delete t HM) s.
Proof.
  intros L Hx Hh Hs Hcl Hc. pose proof (lwf_st _ _ L _ _ Hs) as Hok. unfold st_ok in Hok. rewrite Hcl, Hc in Hok. destruct Hok as (Hz & Hl & Hn).
  assert (LWF (delete t HM) (set_sts (<[k := st]>) s)) as Hx'; [|by rewrite (set_sts_id s k st Hs) in Hx'].
  eapply lwf_step1; try exact L; try exact Hs; try reflexivity.
  - intros h y Hy. simpl. rewrite insert_id by done. by eapply typed_delete.
  - unfold st_ok. rewrite Hcl, Hc. pose proof (refs_delete_hold _ _ _ _ Hx Hh). repeat split; try done. lia.
  - intros k2 Hk2. eapply refs_delete_other; [done|congruence].
  - apply disj_delete, (lwf_disj _ _ L).
Qed.

(* From<Vec<u8>> for Bytes: the Vec's handle (under key t) becomes the Bytes, or - for an empty zero-capacity Vec - the static empty Bytes *)
Lemma bytes_from_vec_lwf HM s t k len cap : LWF HM s -> HM !! t = Some (HV k len cap) ->
  spec (bytes_from_vec k len cap) s (fun b s1 => sframe s s1 /\ (exists ko o l v a, b = HB ko o l v a /\ o = 0 /\ l = len) /\
        if (len =? cap) && (len =? 0) then b = b_static_empty /\ s1 = s else LWF (<[t := b]> HM) s1).
Proof.
  intros L Hx. pose proof (lwf_typed _ _ L _ _ Hx) as (st & Hs & Hl & Hcl & Hc & Hcap & Hle). unfold bytes_from_vec.
  assert (holds (HV k len cap) = Some k) as Hh by done.
  pose proof (st_ok_sole_n _ _ _ _ _ _ L Hx Hh Hs Hc) as Hn1.
  destruct (len =? cap) eqn:E1.
  - destruct (len =? 0) eqn:E2; cbn [andb].
    + apply spec_ret. split; [done|]. split; [exists None, 0, 0, VStatic, false; repeat split; lia|done].
    + sbind (spec_get_st' _ _ _ Hs). intros x s1 [-> ->]. apply spec_ret. split; [done|]. split; [eauto 10|].
      assert (s_cls st = SHeap) as Hheap. { destruct Hcl as [?|Hd]; [done|]. pose proof (lwf_st _ _ L _ _ Hs) as Hok. unfold st_ok in Hok. rewrite Hd in Hok. lia. }
      eapply lwf_rehandle; [done|exact Hx|by destruct (s_odd st)| |by destruct (s_odd st)].
      destruct (s_odd st); simpl; exists st; repeat split; try done; lia.
  - cbn [andb].
    assert (s_cls st = SHeap) as Hheap. { destruct Hcl as [?|Hd]; [done|]. pose proof (lwf_st _ _ L _ _ Hs) as Hok. unfold st_ok in Hok. rewrite Hd in Hok. lia. }
    eapply spec_bind.
    { eapply (upd_ctrl_lwf HM (<[t := HB (Some k) 0 len VShared false]> HM) s k st _ L Hs).
      - intros h y Hy. apply lookup_insert_Some in Hy as [[<- <-]|[? Hy]].
        + simpl. eexists. rewrite lookup_insert. split; [done|]. simpl. rewrite Hl, Hheap, Hcap. repeat split; try done; try lia. eauto.
        + eapply typed_upd_nothold; [exact Hs|by rewrite Hheap| |by eapply (lwf_typed _ _ L)]. by eapply (refs_one_other HM t).
      - rewrite (refs_insert_same _ _ _ _ _ Hx) by done. rewrite Hn1. unfold st_ok. simpl. rewrite Hheap, Hl.
        pose proof (lwf_st _ _ L _ _ Hs) as Hok. unfold st_ok in Hok. rewrite Hheap in Hok. destruct Hok as [Hnz _]. repeat split; try done.
      - intros k2 Hk2. by rewrite (refs_insert_same _ _ _ _ _ Hx).
      - apply disj_insert_nowin; [done|apply (lwf_disj _ _ L)]. }
    intros [] s1 [Hfr L1]. sbind spec_emit'. intros [] s2 ->. apply spec_ret. split; [done|]. split; [eauto 10|done].
Qed.

(* a handle changes its key (it is consumed and its representation re-emerges under the next identifier) *)
Lemma lwf_rekey HM s h t x : LWF HM s -> HM !! h = Some x -> HM !! t = None -> LWF (<[t := x]> (delete h HM)) s.
Proof.
  intros L Hx Ht. assert (t <> h) as Hne by (intros ->; congruence). eapply lwf_step0; [exact L| | |].
  - intros h' y Hy. apply lookup_insert_Some in Hy as [[<- <-]|[? Hy]]; [by eapply (lwf_typed _ _ L)|]. by eapply typed_delete.
  - intros k. rewrite refs_insert_fresh by (by rewrite lookup_delete_ne). by rewrite <- (refs_delete HM h x k Hx).
  - intros h1 h2 x1 x2 k o1 c1 o2 c2 Hn12 H1 H2 W1 W2. pose proof (lwf_disj _ _ L) as D.
    apply lookup_insert_Some in H1 as [[<- <-]|[? H1]]; apply lookup_insert_Some in H2 as [[<- <-]|[? H2]]; try done.
    + apply lookup_delete_Some in H2 as [? H2]. eapply (D h h2); eauto.
    + apply lookup_delete_Some in H1 as [? H1]. eapply (D h1 h); eauto.
    + apply lookup_delete_Some in H1 as [? H1]. apply lookup_delete_Some in H2 as [? H2]. eapply (D h1 h2); eauto.
Qed.
Lemma wf_finish_rekey s s1 h x b : hfresh s -> sframe s s1 -> hs s !! h = Some x -> LWF (<[h := b]> (hs s)) s1 ->
  spec (del_h h;; let! r := new_h b in mret (RH r)) s1 (fun _ s2 => WF s2).
Proof.
  intros Hf [Hh1 Hn1] Hx L1. sbind spec_del_h'. intros [] s2 ->.
  eapply spec_bind; [eapply (wf_new_h _ _ (fun _ s3 => WF s3)); [| |done]|intros r s3 W3; by apply spec_ret].
  - intros h' [y Hy]. simpl in *. rewrite Hh1 in Hy. rewrite Hn1. apply lookup_delete_Some in Hy as [? Hy]. apply Hf; eauto.
  - simpl. rewrite Hh1, Hn1. apply lwf_set_hs.
    rewrite <- (delete_insert_delete (hs s) h b). eapply lwf_rekey; [exact L1|apply lookup_insert|].
    rewrite lookup_insert_ne; [by apply hfresh_next|]. intros E. rewrite E in Hx. by rewrite (hfresh_next _ Hf) in Hx.
Qed.
Lemma wf_OVDrop orc h : wfstep orc (OVDrop h).
Proof.
  intros s [L Hf] (k & len & cap & Hx). simpl. sbind (spec_get_h' _ _ _ Hx). intros x s1 [-> ->].
  pose proof (lwf_typed _ _ L _ _ Hx) as (st & Hs & Hl & Hcl & Hc & Hcap & Hle).
  sbind (drop_token_vec _ _ _ _ _ _ _ L Hx eq_refl Hs Hl Hcl Hc Hcap). intros [] s1 [[Hh1 Hn1] L1].
  sbind spec_del_h'. intros [] s2 ->. apply spec_ret. apply wf_del_h; [by eapply hfresh_frame|by rewrite Hh1].
Qed.
Lemma wf_OVIntoBytes orc h : wfstep orc (OVIntoBytes h).
Proof.
  intros s [L Hf] (k & len & cap & Hx). simpl. sbind (spec_get_h' _ _ _ Hx). intros x s1 [-> ->].
  sbind (bytes_from_vec_lwf _ _ _ _ _ _ L Hx). intros b s1 (Hfr & _ & Hb).
  destruct ((len =? cap) && (len =? 0)) eqn:E.
  - destruct Hb as [-> ->]. pose proof (lwf_typed _ _ L _ _ Hx) as (st & Hs & Hl & Hcl & Hc & Hcap & Hle).
    sbind (drop_token_vec _ _ _ _ _ _ _ L Hx eq_refl Hs Hl Hcl Hc Hcap). intros [] s1 [Hfr1 L1].
    eapply (wf_finish_rekey s s1 h); try done.
    rewrite <- (insert_delete_insert (hs s)). apply lwf_add_free; try done. apply lookup_delete.
  - sret. by eapply (wf_finish_rekey s s1 h).
Qed.
Lemma wf_OBFromVec orc d cap : wfstep orc (OBFromVec d cap).
Proof.
  intros s [L Hf] _. simpl. set (cap' := N.max cap (lenN d)).
  sbind (alloc_buf_lwf _ s cap' d L). intros k' s1 Hpost. pose proof Hpost as ([Hh1 Hn1] & _).
  assert (LWF (<[next_h s := HV k' (lenN d) cap']> (hs s)) s1) as L1.
  { eapply alloc_token; try done; [by apply hfresh_next|]. intros st' ? ? ? ? ?. eapply typed_fresh_hv; eauto. unfold cap'. lia. }
  sbind (bytes_from_vec_lwf _ _ (next_h s) _ _ _ L1 (lookup_insert _ _ _)). intros b s2 ([Hh2 Hn2] & _ & Hb).
  assert (hfresh s2) as Hf2. { unfold hfresh. rewrite Hh2, Hh1, Hn2, Hn1. done. }
  eapply spec_bind; [eapply (wf_new_h s2 _ (fun _ s3 => WF s3) Hf2); [|done]|intros r s3 W3; by apply spec_ret].
  rewrite Hn2, Hn1, Hh2, Hh1. destruct ((lenN d =? cap') && (lenN d =? 0)) eqn:E.
  - destruct Hb as [-> ->]. apply lwf_add_free; try done; [|by apply hfresh_next].
    assert (cap' = 0) as Hz by lia. destruct Hpost as (_ & st' & (Hn & Hl & Hc & Hsz & Hcl) & Hs1 & _).
    assert (LWF (delete (next_h s) (<[next_h s := HV k' (lenN d) cap']> (hs s))) s1) as L2.
    { eapply (lwf_forget_dangling _ _ _ _ k' st' L1 (lookup_insert _ _ _)); try done; [by rewrite Hs1, lookup_insert|]. rewrite Hcl, Hz. done. }
    by rewrite delete_insert in L2 by (by apply hfresh_next).
  - by rewrite insert_insert in Hb.
Qed.

(* ---- from_owner: the one operation whose panic (a panicking as_ref) is not a no-op: the panic state is WF as well ---- *)
Definition specp {A} (m : M A) (s : hst) (Q : A -> hst -> Prop) (P : hst -> Prop) : Prop :=
  forall e, match m s e with OK a s1 _ => Q a s1 | PANIC s1 _ => P s1 | UB _ => False end.
Lemma specp_bind {A B} (m : M A) (f : A -> M B) s Q1 Q P : specp m s Q1 P -> (forall a s1, Q1 a s1 -> specp (f a) s1 Q P) -> specp (mbind m f) s Q P.
Proof. intros H1 H2 e. unfold mbind. specialize (H1 e). destruct (m s e) as [a s1 e1|s1 e1|]; [|done|done]. apply H2. exact H1. Qed.
Lemma specp_of_spec {A} (m : M A) s Q P : spec m s Q -> np m -> specp m s Q P.
Proof. intros H1 H2 e. specialize (H1 e). specialize (H2 s e). destruct (m s e); done. Qed.
Lemma specp_to_spec {A} (m : M A) s Q P : specp m s Q P -> spec m s Q.
Proof. intros H e. specialize (H e). destruct (m s e); done. Qed.
Lemma specp_panic {A} s (Q : A -> hst -> Prop) (P : hst -> Prop) : P s -> specp mpanic s Q P.
Proof. intros H e. exact H. Qed.

Lemma specp_ret_or_emit (b : bool) x s P : specp (if b then mret tt else emit x) s (fun _ s1 => s1 = s) P.
Proof. destruct b; intros e; done. Qed.
Lemma specp_put_emit s s' x P : specp (mput s';; emit x) s (fun _ s1 => s1 = s') P.
Proof. intros e; done. Qed.
Lemma from_owner_wf orc d panics s : WF s -> specp (hstep orc (OBFromOwner d panics)) s (fun _ s1 => WF s1) WF.
Proof.
  intros [L Hf]. destruct L as [T S D (F1 & F2 & F3 & F4)] eqn:EL. cbn [hstep].
  eapply specp_bind; [apply specp_of_spec; [apply spec_mget'|apply np_get]|]. intros x s1 [-> ->].
  set (empty := lenN d =? 0). set (k := if empty then xI (next_pseudo s) else xO (next_real s)). set (o := next_o s).
  set (st' := {| s_size := lenN d; s_data := d; s_live := true; s_odd := odd_mode s; s_cls := SOwnerMem; s_ctrl := COwned 1 o |}).
  set (w1 := {| o_dropped := false; o_asref := 0 + 1; o_drops := 0; o_mem := k |}).
  eapply specp_bind; [apply specp_of_spec; [apply spec_mput'|apply np_put]|]. intros [] s1 ->.
  eapply specp_bind; [apply specp_ret_or_emit|]. intros [] s1 ->.
  eapply specp_bind; [apply specp_of_spec; [apply spec_emit'|apply np_emit]|]. intros [] s1 ->.
  eapply specp_bind; [apply specp_of_spec; [apply spec_mget'|apply np_get]|]. intros x s1 [-> ->].
  cbn [owners]. rewrite lookup_insert.
  eapply specp_bind; [apply specp_put_emit|]. intros [] s1 ->. unfold set_owners. cbn [sts hs owners next_real next_pseudo next_h next_o odd_mode o_dropped o_asref o_drops o_mem]. rewrite insert_insert. fold w1.
  set (s2 := {| sts := <[k := st']> (sts s); hs := hs s; owners := <[o := w1]> (owners s);
               next_real := if empty then next_real s else Pos.succ (next_real s); next_pseudo := if empty then Pos.succ (next_pseudo s) else next_pseudo s;
               next_h := next_h s; next_o := Pos.succ o; odd_mode := odd_mode s |}).
  assert (sts s !! k = None) as Hfr.
  { unfold k. destruct empty.
    - destruct (sts s !! xI (next_pseudo s)) eqn:E; [|done]. assert (next_pseudo s < next_pseudo s)%positive by (apply F2; eauto). lia.
    - destruct (sts s !! xO (next_real s)) eqn:E; [|done]. assert (next_real s < next_real s)%positive by (apply F1; eauto). lia. }
  assert (owners s !! o = None) as Hfo. { destruct (owners s !! o) eqn:E; [|done]. assert (o < next_o s)%positive by (apply F3; eauto). unfold o in *. lia. }
  set (tok := HB (Some k) 0 (lenN d) VOwned false).
  assert (LWF (<[next_h s := tok]> (hs s)) s2) as L2.
  { constructor; cbn [sts owners hs s2].
    - intros h y Hy. apply lookup_insert_Some in Hy as [[<- <-]|[? Hy]].
      + simpl. exists st'. rewrite lookup_insert. repeat split; try done; try (simpl; lia); eauto.
      + apply typed_ins_fresh; [done|by eapply T].
    - intros k2 st2. destruct (decide (k2 = k)) as [->|Hne].
      + rewrite lookup_insert. intros [= <-]. unfold st_ok. simpl.
        assert (refs (<[next_h s := tok]> (hs s)) k = 1%nat) as ->.
        { rewrite refs_insert_fresh by (by apply hfresh_next). rewrite w_hold by done. rewrite (refs_fresh_storage _ _ _ L Hfr). lia. }
        exists 1, o. repeat split; try done. exists w1. by rewrite lookup_insert.
      + rewrite lookup_insert_ne by done. intros Hk2. rewrite refs_insert_fresh by (by apply hfresh_next). rewrite w_nohold by (simpl; congruence).
        eapply st_ok_om; [|by apply S]. intros o2 (w2 & Hw2 & ? & ?). exists w2. rewrite lookup_insert_ne; [done|]. intros <-. by rewrite Hfo in Hw2.
    - apply disj_insert_nowin; [done|exact D].
    - repeat split; simpl.
      + intros p [st Hp]. unfold k in Hp. destruct empty.
        * rewrite lookup_insert_ne in Hp by done. apply F1; eauto.
        * destruct (decide (p = next_real s)) as [->|Hne]; [lia|]. rewrite lookup_insert_ne in Hp by congruence. assert (p < next_real s)%positive by (apply F1; eauto). lia.
      + intros p [st Hp]. unfold k in Hp. destruct empty.
        * destruct (decide (p = next_pseudo s)) as [->|Hne]; [lia|]. rewrite lookup_insert_ne in Hp by congruence. assert (p < next_pseudo s)%positive by (apply F2; eauto). lia.
        * rewrite lookup_insert_ne in Hp by done. apply F2; eauto.
      + intros o2 [w2 Ho2]. destruct (decide (o2 = o)) as [->|Hne]; [lia|]. rewrite lookup_insert_ne in Ho2 by done. assert (o2 < next_o s)%positive by (apply F3; eauto). unfold o. lia.
      + unfold k. destruct empty; by rewrite lookup_insert_ne. }
  destruct panics.
  - eapply specp_bind; [apply specp_of_spec; [|apply np_release]|].
    { eapply (drop_token_release _ s2 (next_h s) tok k st' L2 (lookup_insert _ _ _)); try done. apply lookup_insert. }
    intros [] s3 [[Hh3 Hn3] L3]. apply specp_panic. rewrite delete_insert in L3 by (by apply hfresh_next). split; [by rewrite Hh3|].
    unfold hfresh. rewrite Hh3, Hn3. exact Hf.
  - eapply specp_bind with (Q1 := fun _ s3 => WF s3); [apply specp_of_spec; [|apply np_new_h]|intros r s3 W3; apply specp_of_spec; [by apply spec_ret|apply np_ret]].
    eapply (wf_new_h s2 _ (fun _ s3 => WF s3)); [exact Hf|exact L2|done].
Qed.
Lemma wf_OBFromOwner orc d panics : wfstep orc (OBFromOwner d panics).
Proof. intros s W _. eapply specp_to_spec. by apply from_owner_wf. Qed.

(* ================================================================================================ bytes_mut.rs *)
Lemma m_drop_rep_lwf G s h k ofs len cap kd : LWF G s -> G !! h = Some (HM k ofs len cap kd) ->
  spec (m_drop_rep (HM k ofs len cap kd)) s (fun _ s1 => sframe s s1 /\ LWF (delete h G) s1).
Proof.
  intros L Hx. pose proof (lwf_typed _ _ L _ _ Hx) as Hty. unfold m_drop_rep. destruct kd as [o|]; simpl in Hty.
  - destruct Hty as (st & Hs & Hl & Hcl & Hc & Hcap & Hle). eapply drop_token_vec; try done.
  - destruct Hty as (st & Hs & Hl & Hcl & (o & rc & Hc) & Hb & Hle). eapply drop_token_release; try done. by rewrite Hc.
Qed.
Lemma wf_OMDrop orc h : wfstep orc (OMDrop h).
Proof.
  intros s [L Hf] (k & ofs & len & cap & kd & Hx). simpl. sbind (spec_get_h' _ _ _ Hx). intros x s1 [-> ->].
  sbind (m_drop_rep_lwf _ _ _ _ _ _ _ _ L Hx). intros [] s1 [[Hh1 Hn1] L1].
  sbind spec_del_h'. intros [] s2 ->. apply spec_ret. apply wf_del_h; [by eapply hfresh_frame|by rewrite Hh1].
Qed.
(* a BytesMut handle changes only its length (within its capacity) *)
Lemma typed_hm_len sm k ofs len cap kd len' : typed sm (HM k ofs len cap kd) -> len' <= cap -> typed sm (HM k ofs len' cap kd).
Proof.
  destruct kd as [o|]; simpl.
  - intros (st & Hs & Hl & Hcl & Hc & Hcap & Hle) H. exists st. repeat split; done.
  - intros (st & Hs & Hl & Hcl & Hc & Hb & Hle) H. exists st. repeat split; done.
Qed.
Lemma lwf_hm_len G s h k ofs len cap kd len' : LWF G s -> G !! h = Some (HM k ofs len cap kd) -> len' <= cap -> LWF (<[h := HM k ofs len' cap kd]> G) s.
Proof.
  intros L Hx Hle. eapply lwf_step0; [exact L| | |].
  - intros h' y Hy. apply lookup_insert_Some in Hy as [[<- <-]|[? Hy]]; [|by eapply (lwf_typed _ _ L)]. eapply typed_hm_len; [by eapply (lwf_typed _ _ L)|done].
  - intros k2. by eapply refs_insert_same.
  - intros h1 h2 x1 x2 k0 o1 c1 o2 c2 Hne H1 H2 W1 W2. pose proof (lwf_disj _ _ L) as D.
    apply lookup_insert_Some in H1 as [[<- <-]|[? H1]]; apply lookup_insert_Some in H2 as [[<- <-]|[? H2]]; try done.
    + eapply (D h h2); eauto; destruct kd; simpl in *; done.
    + eapply (D h1 h); eauto; destruct kd; simpl in *; done.
    + eapply (D h1 h2); eauto.
Qed.
Lemma typed_hm_le sm k ofs len cap kd : typed sm (HM k ofs len cap kd) -> len <= cap.
Proof. destruct kd; simpl; intros (st & ? & ? & ? & ? & ? & ?); done. Qed.
Lemma wf_OMTruncate orc h l : wfstep orc (OMTruncate h l).
Proof.
  intros s [L Hf] (k & ofs & len & cap & kd & Hx). simpl. sbind (spec_get_h' _ _ _ Hx). intros x s1 [-> ->]. cbn [m_parts]. sret.
  pose proof (typed_hm_le _ _ _ _ _ _ (lwf_typed _ _ L _ _ Hx)) as Hle.
  destruct (l <=? len) eqn:E.
  - sbind spec_put_h'. intros [] s1 ->. apply spec_ret. eapply wf_put_h; [done|exact Hx|]. eapply lwf_hm_len; [done|exact Hx|lia].
  - sret. by apply spec_ret.
Qed.
Lemma wf_OMClear orc h : wfstep orc (OMClear h).
Proof.
  intros s [L Hf] (k & ofs & len & cap & kd & Hx). simpl. sbind (spec_get_h' _ _ _ Hx). intros x s1 [-> ->]. cbn [m_parts]. sret.
  sbind spec_put_h'. intros [] s1 ->. apply spec_ret. eapply wf_put_h; [done|exact Hx|]. eapply lwf_hm_len; [done|exact Hx|lia].
Qed.
(* a BytesMut may write anywhere inside its window *)
Lemma hm_write_lwf G s h k ofs len cap kd o' bs : LWF G s -> G !! h = Some (HM k ofs len cap kd) -> ofs <= o' -> o' + lenN bs <= ofs + cap ->
  spec (mwrite k o' bs) s (fun _ s1 => sframe s s1 /\ LWF G s1).
Proof.
  intros L Hx H1 H2. pose proof (lwf_typed _ _ L _ _ Hx) as Hty. destruct kd as [o|]; simpl in Hty.
  - destruct Hty as (st & Hs & Hl & Hcl & Hc & Hcap & Hle). eapply mwrite_lwf; try done. lia.
  - destruct Hty as (st & Hs & Hl & Hcl & Hc & Hb & Hle). eapply mwrite_lwf; try done. lia.
Qed.
Lemma wf_OMWrite orc h i v : wfstep orc (OMWrite h i v).
Proof.
  intros s [L Hf] (k & ofs & len & cap & kd & Hx). simpl. sbind (spec_get_h' _ _ _ Hx). intros x s1 [-> ->]. cbn [m_parts]. sret.
  sbind spec_assert'. intros [] s1 [Hi ->]. pose proof (typed_hm_le _ _ _ _ _ _ (lwf_typed _ _ L _ _ Hx)) as Hle.
  sbind (hm_write_lwf _ _ _ _ _ _ _ _ (ofs + i) [v] L Hx). { lia. } { change (lenN [v]) with 1. lia. }
  intros [] s1 [[Hh1 Hn1] L1]. apply spec_ret. split; [by rewrite Hh1|]. unfold hfresh. by rewrite Hh1, Hn1.
Qed.

(* ---- windows of shared BytesMut handles ---- *)
Definition win_in (o c o' c' : N) : Prop := o <= o' /\ o' + c' <= o + c.      (* [o', o'+c') inside [o, o+c) *)
Lemma rwin_holds x k o c : rwin x = Some (k, o, c) -> holds x = Some k.
Proof. destruct x as [[?|] ? ? [] ?| ? ? ? ? []|]; simpl; try done; by intros [= -> _ _]. Qed.
Lemma disj_replace_sub G h k o l c kd x' : disj G -> G !! h = Some (HM k o l c kd) ->
  (forall k' o' c', rwin x' = Some (k', o', c') -> k' = k /\ ((kd = MArc /\ win_in o c o' c') \/ (forall h2 y, h2 <> h -> G !! h2 = Some y -> holds y <> Some k))) ->
  disj (<[h := x']> G).
Proof.
  intros D Hx Hsub h1 h2 x1 x2 k0 o1 c1 o2 c2 Hne H1 H2 W1 W2.
  apply lookup_insert_Some in H1 as [[<- <-]|[? H1]]; apply lookup_insert_Some in H2 as [[<- <-]|[? H2]]; try done.
  - destruct (Hsub _ _ _ (mwin_rwin _ _ W1)) as [-> [[-> [Ha Hb]]|Hsole]].
    + assert (c = 0 \/ c2 = 0 \/ o + c <= o2 \/ o2 + c2 <= o) as Hd by (eapply (D h h2); eauto). lia.
    + exfalso. eapply (Hsole h2 x2); eauto. by eapply rwin_holds.
  - destruct (Hsub _ _ _ W2) as [-> [[-> [Ha Hb]]|Hsole]].
    + assert (c1 = 0 \/ c = 0 \/ o1 + c1 <= o \/ o + c <= o1) as Hd by (eapply (D h1 h); eauto). lia.
    + exfalso. eapply (Hsole h1 x1); eauto. eapply rwin_holds. by apply mwin_rwin.
  - eapply (D h1 h2); eauto.
Qed.
Lemma lwf_hm_subwin G s h k o l c o' l' c' : LWF G s -> G !! h = Some (HM k o l c MArc) -> win_in o c o' c' -> l' <= c' ->
  LWF (<[h := HM k o' l' c' MArc]> G) s.
Proof.
  intros L Hx [Ha Hb] Hl. eapply lwf_step0; [exact L| | |].
  - intros h' y Hy. apply lookup_insert_Some in Hy as [[<- <-]|[? Hy]]; [|by eapply (lwf_typed _ _ L)].
    pose proof (lwf_typed _ _ L _ _ Hx) as (st & Hs & Hlv & Hcl & Hc & Hbd & Hle). exists st. repeat split; try done. lia.
  - intros k2. by eapply refs_insert_same.
  - eapply disj_replace_sub; [apply (lwf_disj _ _ L)|exact Hx|]. intros k' o2 c2 [= <- <- <-]. split; [done|]. left. done.
Qed.
Lemma lwf_hm_vecmove G s h k o l c ocr o' l' c' : LWF G s -> G !! h = Some (HM k o l c (MVec ocr)) -> c' + o' = c + o -> l' <= c' ->
  LWF (<[h := HM k o' l' c' (MVec ocr)]> G) s.
Proof.
  intros L Hx He Hl. eapply lwf_step0; [exact L| | |].
  - intros h' y Hy. apply lookup_insert_Some in Hy as [[<- <-]|[? Hy]]; [|by eapply (lwf_typed _ _ L)].
    pose proof (lwf_typed _ _ L _ _ Hx) as (st & Hs & Hlv & Hcl & Hc & Hbd & Hle). exists st. repeat split; try done. lia.
  - intros k2. by eapply refs_insert_same.
  - eapply disj_replace_sub; [apply (lwf_disj _ _ L)|exact Hx|]. intros k' o2 c2 [=].
Qed.
(* promotion of the inline-Vec form by its only holder: one or two shared handles take its place *)
Lemma promote_lwf G s h t k o l c ocr (rc : N) self' other' :
  LWF G s -> G !! h = Some (HM k o l c (MVec ocr)) -> G !! t = None ->
  (rc = 1 /\ other' = None) \/ (rc = 2 /\ exists oo ol oc, other' = Some (HM k oo ol oc MArc) /\ win_in o c oo oc /\ ol <= oc) ->
  (exists so sl sc, self' = HM k so sl sc MArc /\ win_in o c so sc /\ sl <= sc /\
     match other' with Some (HM _ oo _ oc _) => so + sc <= oo \/ oo + oc <= so | _ => True end) ->
  spec (upd_st k (with_ctrl (CSharedV (c + o) ocr rc))) s (fun _ s1 => sframe s s1 /\
     LWF (match other' with Some y => <[t := y]> (<[h := self']> G) | None => <[h := self']> G end) s1).
Proof.
  intros L Hx Ht Hrc (so & sl & sc & -> & Hws & Hsl & Hdis). pose proof Hws as [Hs1 Hs2].
  pose proof (lwf_typed _ _ L _ _ Hx) as (st & Hs & Hlv & Hcl & Hc & Hbd & Hle).
  assert (holds (HM k o l c (MVec ocr)) = Some k) as Hh by done.
  pose proof (st_ok_sole_n _ _ _ _ _ _ L Hx Hh Hs Hc) as Hn1.
  assert (t <> h) as Hne by (intros ->; congruence).
  assert (forall h2 y, h2 <> h -> G !! h2 = Some y -> holds y <> Some k) as Hsole by (intros; by eapply (refs_one_other G h)).
  set (st1 := with_ctrl (CSharedV (c + o) ocr rc) st).
  assert (forall oo ol oc, win_in o c oo oc -> ol <= oc -> typed (<[k := st1]> (sts s)) (HM k oo ol oc MArc)) as Htok.
  { intros oo ol oc [Ha Hb] Hol. exists st1. rewrite lookup_insert. unfold st1. simpl. rewrite Hlv. repeat split; try done; [|lia]. exists ocr, rc. by rewrite Hbd. }
  assert (forall h' y, h <> h' -> G !! h' = Some y -> typed (<[k := st1]> (sts s)) y) as Hold.
  { intros h' y Hn Hy. eapply typed_upd_nothold; [exact Hs| | |by eapply (lwf_typed _ _ L)]; [|eapply Hsole; [|exact Hy]; congruence].
    destruct Hcl as [E|E]; rewrite E; done. }
  pose proof (lwf_st _ _ L _ _ Hs) as Hok.
  destruct Hrc as [[-> ->]|[-> (oo & ol & oc & -> & Hw & Hol)]].
  - eapply (upd_ctrl_lwf G _ s k st _ L Hs).
    + intros h' y Hy. apply lookup_insert_Some in Hy as [[<- <-]|[? Hy]]; [apply Htok; assumption|eapply Hold; eauto].
    + rewrite (refs_insert_same _ _ _ _ _ Hx) by done. rewrite Hn1. unfold st_ok in *. simpl. rewrite Hlv, Hc in *. destruct Hcl as [E|E]; rewrite E in *.
      * destruct Hok as [Hnz _]. repeat split; try done; lia.
      * destruct Hok as (Hz & _ & _). repeat split; try done; lia.
    + intros k2 Hk2. by rewrite (refs_insert_same _ _ _ _ _ Hx).
    + eapply disj_replace_sub; [apply (lwf_disj _ _ L)|exact Hx|]. intros k' o2 c2 [= <- <- <-]. split; [done|]. by right.
  - eapply (upd_ctrl_lwf G _ s k st _ L Hs).
    + intros h' y Hy. apply lookup_insert_Some in Hy as [[<- <-]|[? Hy]]; [apply Htok; assumption|]. apply lookup_insert_Some in Hy as [[<- <-]|[? Hy]]; [apply Htok; assumption|eapply Hold; eauto].
    + rewrite refs_insert_fresh by (by rewrite lookup_insert_ne). rewrite w_hold by done. rewrite (refs_insert_same _ _ _ _ _ Hx) by done. rewrite Hn1.
      unfold st_ok in *. simpl. rewrite Hlv, Hc in *. destruct Hcl as [E|E]; rewrite E in *.
      * destruct Hok as [Hnz _]. repeat split; try done; lia.
      * destruct Hok as (Hz & _ & _). repeat split; try done; lia.
    + intros k2 Hk2. rewrite refs_insert_fresh by (by rewrite lookup_insert_ne). rewrite w_nohold by (simpl; congruence). by rewrite (refs_insert_same _ _ _ _ _ Hx).
    + intros h1 h2 x1 x2 k0 o1 c1 o2 c2 Hn12 H1 H2 W1 W2.
      apply lookup_insert_Some in H1 as [[<- <-]|[? H1]]; apply lookup_insert_Some in H2 as [[<- <-]|[? H2]]; try done.
      * apply lookup_insert_Some in H2 as [[<- <-]|[? H2]].
        -- injection W1 as <- <- <-. injection W2 as <- <-. lia.
        -- exfalso. injection W1 as <- _ _. eapply (Hsole h2 x2); eauto. by eapply rwin_holds.
      * apply lookup_insert_Some in H1 as [[<- <-]|[? H1]].
        -- injection W1 as <- <- <-. injection W2 as <- <-. lia.
        -- exfalso. injection W2 as <- _ _. eapply (Hsole h1 x1); eauto. eapply rwin_holds; by apply mwin_rwin.
      * apply lookup_insert_Some in H1 as [[<- <-]|[? H1]]; apply lookup_insert_Some in H2 as [[<- <-]|[? H2]]; try done.
        -- exfalso. injection W1 as <- _ _. eapply (Hsole h2 x2); eauto. by eapply rwin_holds.
        -- exfalso. injection W2 as <- _ _. eapply (Hsole h1 x1); eauto. eapply rwin_holds; by apply mwin_rwin.
        -- eapply (lwf_disj _ _ L h1 h2); eauto.
Qed.

(* ---- advance_unchecked on the handle under key h ---- *)
Definition adv_result (x' : handle) k ofs len cap count : Prop :=
  exists kd', x' = HM k (ofs + count) (len - count) (cap - count) kd'.
Lemma adv_unchecked_lwf G s h k ofs len cap kd count : LWF G s -> G !! h = Some (HM k ofs len cap kd) -> count <= cap ->
  spec (adv_unchecked count (HM k ofs len cap kd)) s (fun x' s1 => sframe s s1 /\ LWF (<[h := x']> G) s1 /\ adv_result x' k ofs len cap count).
Proof.
  intros L Hx Hc. pose proof (typed_hm_le _ _ _ _ _ _ (lwf_typed _ _ L _ _ Hx)) as Hle. unfold adv_unchecked.
  destruct (count =? 0) eqn:E0.
  { apply spec_ret. split; [done|]. split; [by rewrite insert_id|]. exists kd. f_equal; lia. }
  sbind spec_check'. { lia. } intros [] s1 ->. destruct kd as [o|].
  - destruct (ofs + count <=? MAX_VEC_POS) eqn:Em.
    + apply spec_ret. split; [done|]. split; [|by eexists]. eapply lwf_hm_vecmove; [done|exact Hx|lia|lia].
    + assert (G !! fresh (dom G) = None) as Hfr by (apply not_elem_of_dom, is_fresh).
      eapply spec_bind.
      { eapply (promote_lwf G s h (fresh (dom G)) k ofs len cap o 1 (HM k (ofs + count) (len - count) (cap - count) MArc) None L Hx Hfr).
        - left. done.
        - exists (ofs + count), (len - count), (cap - count). repeat split; try lia. }
      intros [] s1 [Hfr1 L1]. sbind spec_emit'. intros [] s2 ->. apply spec_ret. split; [done|]. split; [done|by eexists].
  - apply spec_ret. split; [done|]. split; [|by eexists]. eapply lwf_hm_subwin; [done|exact Hx|split; lia|lia].
Qed.

Lemma wf_OMAdvance orc h cnt : wfstep orc (OMAdvance h cnt).
Proof.
  intros s [L Hf] (k & ofs & len & cap & kd & Hx). simpl. sbind (spec_get_h' _ _ _ Hx). intros x s1 [-> ->]. cbn [m_parts]. sret.
  sbind spec_assert'. intros [] s1 [Hc ->]. pose proof (typed_hm_le _ _ _ _ _ _ (lwf_typed _ _ L _ _ Hx)) as Hle.
  sbind (adv_unchecked_lwf _ _ _ _ _ _ _ _ cnt L Hx). { lia. } intros x' s1 ([Hh1 Hn1] & L1 & _).
  sbind spec_put_h'. intros [] s2 ->. apply spec_ret.
  eapply wf_put_h; [by eapply hfresh_frame|by rewrite Hh1|by rewrite Hh1].
Qed.

(* ---- split_off / split_to on BytesMut: the handle is shallow-cloned and both halves shrink to a partition of its window ---- *)
(* the logical effect of m_shallow_clone followed by the window adjustments, for any partition (self', other') of the old window *)
Lemma m_split_lwf G s h t k ofs len cap kd so sl sc oo ol oc :
  LWF G s -> G !! h = Some (HM k ofs len cap kd) -> G !! t = None ->
  win_in ofs cap so sc -> win_in ofs cap oo oc -> sl <= sc -> ol <= oc -> (so + sc <= oo \/ oo + oc <= so) ->
  spec (m_shallow_clone (HM k ofs len cap kd)) s (fun r s1 => sframe s s1 /\ r = (HM k ofs len cap MArc, HM k ofs len cap MArc) /\
     LWF (<[t := HM k oo ol oc MArc]> (<[h := HM k so sl sc MArc]> G)) s1).
Proof.
  intros L Hx Ht Hws Hwo Hsl Hol Hdis. unfold m_shallow_clone. assert (t <> h) as Hne by (intros ->; congruence). destruct kd as [o|].
  - (* inline Vec: promote with count 2 *)
    unfold promote. eapply spec_bind with (Q1 := fun x' s1 => x' = HM k ofs len cap MArc /\ sframe s s1 /\ LWF (<[t := HM k oo ol oc MArc]> (<[h := HM k so sl sc MArc]> G)) s1).
    { eapply spec_bind.
      { eapply (promote_lwf G s h t k ofs len cap o 2 (HM k so sl sc MArc) (Some (HM k oo ol oc MArc)) L Hx Ht).
        - right. split; [done|]. eauto 10.
        - exists so, sl, sc. repeat split; try done; apply Hws. }
      intros [] s1 [Hfr L1]. sbind spec_emit'. intros [] s2 ->. apply spec_ret. done. }
    intros x' s1 (-> & Hfr & L1). apply spec_ret. done.
  - pose proof (lwf_typed _ _ L _ _ Hx) as (st & Hs & Hlv & Hcl & (o & rc & Hc) & Hbd & Hle). destruct Hws as [Hs1 Hs2]. destruct Hwo as [Ho1 Ho2].
    eapply spec_bind.
    { eapply (inc_rc_lwf G (<[t := HM k oo ol oc MArc]> (<[h := HM k so sl sc MArc]> G)) s k st L Hs Hlv).
      - by rewrite Hc.
      - intros h' y Hy. apply lookup_insert_Some in Hy as [[<- <-]|[? Hy]]; [|apply lookup_insert_Some in Hy as [[<- <-]|[? Hy]]; [|by eapply (lwf_typed _ _ L)]].
        + exists st. repeat split; try done; [eauto|lia].
        + exists st. repeat split; try done; [eauto|lia].
      - rewrite refs_insert_fresh by (by rewrite lookup_insert_ne). rewrite w_hold by done. by rewrite (refs_insert_same _ _ _ _ _ Hx).
      - intros k2 Hk2. rewrite refs_insert_fresh by (by rewrite lookup_insert_ne). rewrite w_nohold by (simpl; congruence). by rewrite (refs_insert_same _ _ _ _ _ Hx).
      - intros h1 h2 x1 x2 k0 o1 c1 o2 c2 Hn12 H1 H2 W1 W2. pose proof (lwf_disj _ _ L) as D.
        apply lookup_insert_Some in H1 as [[<- <-]|[? H1]]; apply lookup_insert_Some in H2 as [[<- <-]|[? H2]]; try done.
        + apply lookup_insert_Some in H2 as [[<- <-]|[? H2]].
          * injection W1 as <- <- <-. injection W2 as <- <-. lia.
          * injection W1 as <- <- <-. assert (cap = 0 \/ c2 = 0 \/ ofs + cap <= o2 \/ o2 + c2 <= ofs) by (eapply (D h h2); eauto). lia.
        + apply lookup_insert_Some in H1 as [[<- <-]|[? H1]].
          * injection W1 as <- <- <-. injection W2 as <- <-. lia.
          * injection W2 as <- <- <-. assert (c1 = 0 \/ cap = 0 \/ o1 + c1 <= ofs \/ ofs + cap <= o1) by (eapply (D h1 h); eauto). lia.
        + apply lookup_insert_Some in H1 as [[<- <-]|[? H1]]; apply lookup_insert_Some in H2 as [[<- <-]|[? H2]]; try done.
          * injection W1 as <- <- <-. assert (cap = 0 \/ c2 = 0 \/ ofs + cap <= o2 \/ o2 + c2 <= ofs) by (eapply (D h h2); eauto). lia.
          * injection W2 as <- <- <-. assert (c1 = 0 \/ cap = 0 \/ o1 + c1 <= ofs \/ ofs + cap <= o1) by (eapply (D h1 h); eauto). lia.
          * eapply (D h1 h2); eauto. }
    intros [] s1 [Hfr L1]. apply spec_ret. done.
Qed.

Lemma adv_unchecked_marc_spec s k o l c count : count <= c ->
  spec (adv_unchecked count (HM k o l c MArc)) s (fun x' s1 => s1 = s /\ x' = HM k (o + count) (l - count) (c - count) MArc).
Proof.
  intros Hc. unfold adv_unchecked. destruct (count =? 0) eqn:E0.
  - apply spec_ret. split; [done|]. f_equal; lia.
  - sbind spec_check'. { lia. } intros [] s1 ->. by apply spec_ret.
Qed.
Lemma wf_finish_put_new s s1 h x self' other' : hfresh s -> sframe s s1 -> hs s !! h = Some x ->
  LWF (<[next_h s := other']> (<[h := self']> (hs s))) s1 ->
  spec (put_h h self';; let! r := new_h other' in mret (RH r)) s1 (fun _ s2 => WF s2).
Proof.
  intros Hf [Hh1 Hn1] Hx L1. sbind spec_put_h'. intros [] s2 ->.
  eapply spec_bind; [eapply (wf_new_h _ _ (fun _ s3 => WF s3)); [| |done]|intros r s3 W3; by apply spec_ret].
  - intros h' [y Hy]. simpl in *. rewrite Hh1 in Hy. rewrite Hn1. destruct (decide (h' = h)) as [->|?]; [apply Hf; eauto|]. rewrite lookup_insert_ne in Hy by done. apply Hf; eauto.
  - simpl. rewrite Hh1, Hn1. by apply lwf_set_hs.
Qed.
Lemma wf_m_split_off s h at_ : WF s -> is_m s h -> spec (m_split_off h at_) s (fun _ s1 => WF s1).
Proof.
  intros [L Hf] (k & ofs & len & cap & kd & Hx). unfold m_split_off. sbind (spec_get_h' _ _ _ Hx). intros x s1 [-> ->]. cbn [m_parts]. sret.
  sbind spec_assert'. intros [] s1 [Hc ->]. pose proof (typed_hm_le _ _ _ _ _ _ (lwf_typed _ _ L _ _ Hx)) as Hle.
  sbind (m_split_lwf _ _ h (next_h s) _ _ _ _ _ ofs (N.min len at_) at_ (ofs + at_) (len - at_) (cap - at_) L Hx (hfresh_next _ Hf)); try (split; lia); try lia.
  intros [x1 other] s1 (Hfr & [= -> ->] & L1). cbn beta iota.
  sbind (adv_unchecked_marc_spec s1 k ofs len cap at_). { lia. } intros other' s2 [-> ->]. cbn [m_parts]. sret.
  by eapply (wf_finish_put_new s s1 h).
Qed.
Lemma wf_m_split_to s h at_ : WF s -> is_m s h -> spec (m_split_to h at_) s (fun _ s1 => WF s1).
Proof.
  intros [L Hf] (k & ofs & len & cap & kd & Hx). unfold m_split_to. sbind (spec_get_h' _ _ _ Hx). intros x s1 [-> ->]. cbn [m_parts]. sret.
  sbind spec_assert'. intros [] s1 [Hc ->]. pose proof (typed_hm_le _ _ _ _ _ _ (lwf_typed _ _ L _ _ Hx)) as Hle.
  sbind (m_split_lwf _ _ h (next_h s) _ _ _ _ _ (ofs + at_) (len - at_) (cap - at_) ofs at_ at_ L Hx (hfresh_next _ Hf)); try (split; lia); try lia.
  intros [x1 other] s1 (Hfr & [= -> ->] & L1). cbn beta iota.
  sbind (adv_unchecked_marc_spec s1 k ofs len cap at_). { lia. } intros x2 s2 [-> ->].
  sbind spec_put_h'. intros [] s2 ->. cbn [m_parts]. sret. destruct Hfr as [Hh1 Hn1].
  eapply spec_bind; [eapply (wf_new_h _ _ (fun _ s3 => WF s3)); [| |done]|intros r s3 W3; by apply spec_ret].
  - intros h' [y Hy]. simpl in *. rewrite Hh1 in Hy. rewrite Hn1. destruct (decide (h' = h)) as [->|?]; [apply Hf; eauto|]. rewrite lookup_insert_ne in Hy by done. apply Hf; eauto.
  - simpl. rewrite Hh1, Hn1. by apply lwf_set_hs.
Qed.
Lemma wf_OMSplitOff orc h a : wfstep orc (OMSplitOff h a). Proof. intros s W Hok. simpl. by apply wf_m_split_off. Qed.
Lemma wf_OMSplitTo orc h a : wfstep orc (OMSplitTo h a). Proof. intros s W Hok. simpl. by apply wf_m_split_to. Qed.
Lemma wf_OMSplit orc h : wfstep orc (OMSplit h).
Proof.
  intros s W Hok. pose proof Hok as (k & ofs & len & cap & kd & Hx). simpl. sbind (spec_get_h' _ _ _ Hx). intros x s1 [-> ->]. cbn [m_parts]. sret. by apply wf_m_split_to.
Qed.

(* ---- freeze ---- *)
Lemma m_freeze_rep_lwf G s h k ofs len cap kd : LWF G s -> G !! h = Some (HM k ofs len cap kd) ->
  spec (m_freeze_rep (HM k ofs len cap kd)) s (fun b s1 => sframe s s1 /\ LWF (<[h := b]> G) s1).
Proof.
  intros L Hx. pose proof (lwf_typed _ _ L _ _ Hx) as Hty. unfold m_freeze_rep. destruct kd as [o|]; simpl in Hty.
  - destruct Hty as (st & Hs & Hlv & Hcl & Hc & Hcap & Hle).
    assert (LWF (<[h := HV k (len + ofs) (cap + ofs)]> G) s) as L0.
    { eapply lwf_rehandle; [done|exact Hx|done| |done]. exists st. repeat split; try done; lia. }
    sbind (bytes_from_vec_lwf _ _ h _ _ _ L0 (lookup_insert _ _ _)). intros b s1 (Hfr & (ko & o' & l' & vt' & a' & -> & -> & ->) & Hb).
    sbind spec_assert'. intros [] s2 [_ ->]. apply spec_ret. split; [done|].
    destruct ((len + ofs =? cap + ofs) && (len + ofs =? 0)) eqn:E.
    + destruct Hb as [[= -> -> ->] ->]. assert (ofs = 0 /\ len = 0 /\ cap = 0) as (-> & -> & ->) by lia.
      assert (s_cls st = SDangling) as Hd. { destruct Hcl as [Hh|?]; [|done]. pose proof (lwf_st _ _ L _ _ Hs) as Hok. unfold st_ok in Hok. rewrite Hh in Hok. lia. }
      pose proof (lwf_forget_dangling _ _ h _ k st L0 (lookup_insert _ _ _) eq_refl Hs Hd Hc) as L1. rewrite delete_insert_delete in L1.
      rewrite <- (insert_delete_insert G). apply lwf_add_free; try done. apply lookup_delete.
    + rewrite insert_insert in Hb. rewrite <- (insert_insert G h (HB ko (0 + ofs) (len + ofs - ofs) vt' a') (HB ko 0 (len + ofs) vt' a')).
      pose proof (lwf_typed _ _ Hb h _ (lookup_insert _ _ _)) as Htb.
      eapply lwf_rehandle_sub; [exact Hb|apply lookup_insert|done| |apply rwin_sub_hb; lia]. apply typed_hb_adv; [done|lia].
  - destruct Hty as (st & Hs & Hlv & Hcl & (o & rc & Hc) & Hb & Hle). apply spec_ret. split; [done|].
    eapply lwf_rehandle_sub; [done|exact Hx|done| |right; exists k, ofs, cap, ofs, len; repeat split; try done; lia]. exists st. repeat split; try done; [lia|eauto].
Qed.
Lemma wf_OMFreeze orc h : wfstep orc (OMFreeze h).
Proof.
  intros s [L Hf] (k & ofs & len & cap & kd & Hx). simpl. sbind (spec_get_h' _ _ _ Hx). intros x s1 [-> ->].
  sbind (m_freeze_rep_lwf _ _ _ _ _ _ _ _ L Hx). intros b s1 [Hfr L1]. by eapply (wf_finish_rekey s s1 h).
Qed.

(* ---- conversions: Bytes / BytesMut -> Vec / BytesMut ---- *)
Lemma lenN_rd d ofs len : lenN (rd d ofs len) <= len.
Proof. unfold rd. rewrite lenN_firstnN. lia. Qed.
Lemma copy_to_front_lwf G s k ofs len st : LWF G s -> sts s !! k = Some st -> s_live st = true -> heapish (s_cls st) -> ofs + len <= s_size st ->
  spec (copy_to_front k ofs len) s (fun _ s1 => sframe s s1 /\ LWF G s1).
Proof.
  intros L Hs Hl Hcl Hb. unfold copy_to_front. destruct ((len =? 0) || (ofs =? 0)) eqn:E; [by apply spec_ret|].
  eapply spec_bind with (Q1 := fun bs s1 => s1 = s /\ lenN bs <= len).
  { intros e. pose proof (mread_spec s k ofs len st Hs Hl Hb e) as H. pose proof (mread_ok k ofs len s e) as H2.
    destruct (mread k ofs len s e) as [bs s1 e1| |]; try done. split; [done|]. destruct (H2 bs s1 e1 eq_refl) as (x & Hx & _ & _ & -> & _); [lia|]. apply lenN_rd. }
  intros bs s1 [-> Hbs]. eapply mwrite_lwf; try done. lia.
Qed.
(* copy the window out into a fresh Vec, then give the reference back: the new handle (built by mk) replaces the old one *)
Lemma copy_out_lwf G s h t x k ofs len st (mk : positive -> N -> handle) :
  LWF G s -> G !! h = Some x -> G !! t = None -> holds x = Some k -> sts s !! k = Some st -> s_live st = true -> s_ctrl st <> CNone -> ofs + len <= s_size st ->
  (forall k' c, holds (mk k' c) = Some k' /\ rwin (mk k' c) = None) ->
  (forall sm k' st' c, sm !! k' = Some st' -> s_live st' = true -> s_ctrl st' = CNone -> s_size st' = c -> s_cls st' = (if c =? 0 then SDangling else SHeap) -> typed sm (mk k' c)) ->
  spec (let! bs := mread k ofs len in let! (k', c) := to_vec bs in release k;; mret (mk k' c)) s (fun v s1 => sframe s s1 /\ LWF (<[t := v]> (delete h G)) s1).
Proof.
  intros L Hx Ht Hh Hs Hl Hc Hb Hmk Hty. assert (t <> h) as Hne by (intros ->; congruence).
  sbind (mread_spec s k ofs len st Hs Hl Hb). intros bs s1 ->.
  unfold to_vec. eapply spec_bind with (Q1 := fun p s1 => alloc_post G s (lenN bs) p.1 s1 /\ p.2 = lenN bs).
  { sbind (alloc_buf_lwf _ s (lenN bs) bs L). intros k' s1 Hpost. apply spec_ret. by split. }
  intros [k' c] s1 [Hpost Hcc]. simpl in Hcc, Hpost. subst c. cbn beta iota. pose proof Hpost as (Hfr1 & st' & (Hn' & _) & Hs1 & _).
  assert (LWF (<[t := mk k' (lenN bs)]> G) s1) as L1.
  { destruct (Hmk k' (lenN bs)) as [Hh' Hw']. eapply alloc_token; try done. intros st2 ? ? ? ? ?. by eapply Hty. }
  assert (k' <> k) as Hkk by (intros ->; congruence).
  assert (sts s1 !! k = Some st) as Hs1k by (rewrite Hs1; by rewrite lookup_insert_ne).
  sbind (drop_token_release _ s1 h x k st L1). { by rewrite lookup_insert_ne. } { done. } { done. } { done. } { done. }
  intros [] s2 [Hfr2 L2]. apply spec_ret. split; [by eapply sframe_trans|]. by rewrite delete_insert_ne in L2.
Qed.
Lemma typed_fresh_hm' sm k' st' c : sm !! k' = Some st' -> s_live st' = true -> s_ctrl st' = CNone -> s_size st' = c -> s_cls st' = (if c =? 0 then SDangling else SHeap) -> typed sm (from_vec k' c c).
Proof. intros. unfold from_vec. eapply typed_fresh_hm; eauto; lia. Qed.
Lemma typed_fresh_hv' sm k' st' c : sm !! k' = Some st' -> s_live st' = true -> s_ctrl st' = CNone -> s_size st' = c -> s_cls st' = (if c =? 0 then SDangling else SHeap) -> typed sm (HV k' c c).
Proof. intros. eapply typed_fresh_hv; eauto; lia. Qed.
(* the same for a handle that holds nothing (static): no release *)
Lemma copy_static_lwf G s h t x (mk : positive -> N -> handle) :
  LWF G s -> G !! h = Some x -> G !! t = None -> holds x = None ->
  (forall k' c, holds (mk k' c) = Some k' /\ rwin (mk k' c) = None) ->
  (forall sm k' st' c, sm !! k' = Some st' -> s_live st' = true -> s_ctrl st' = CNone -> s_size st' = c -> s_cls st' = (if c =? 0 then SDangling else SHeap) -> typed sm (mk k' c)) ->
  spec (let! bs := bytes_contents x in let! (k', c) := to_vec bs in mret (mk k' c)) s (fun v s1 => sframe s s1 /\ LWF (<[t := v]> (delete h G)) s1).
Proof.
  intros L Hx Ht Hh Hmk Hty. assert (t <> h) as Hne by (intros ->; congruence).
  sbind (bytes_contents_spec _ _ _ _ L Hx). intros bs s1 ->.
  pose proof (lwf_del_free _ _ _ _ L Hx Hh) as L0.
  unfold to_vec. eapply spec_bind with (Q1 := fun p s1 => alloc_post (delete h G) s (lenN bs) p.1 s1 /\ p.2 = lenN bs).
  { sbind (alloc_buf_lwf _ s (lenN bs) bs L0). intros k' s1 Hpost. apply spec_ret. by split. }
  intros [k' c] s1 [Hpost Hcc]. simpl in Hcc, Hpost. subst c. cbn beta iota. pose proof Hpost as (Hfr1 & _). apply spec_ret. split; [done|].
  destruct (Hmk k' (lenN bs)) as [Hh' Hw']. eapply alloc_token; try done; [by rewrite lookup_delete_ne|]. intros st2 ? ? ? ? ?. by eapply Hty.
Qed.

(* the only holder replaces the control block (or removes it) and re-types its handle *)
Lemma sole_reshape_lwf G s h x k st c1 x' :
  LWF G s -> G !! h = Some x -> holds x = Some k -> refs G k = 1%nat -> sts s !! k = Some st -> holds x' = Some k -> rwin x' = None ->
  typed (<[k := with_ctrl c1 st]> (sts s)) x' -> st_ok (owners s) k (with_ctrl c1 st) 1 ->
  spec (put_st k (with_ctrl c1 st)) s (fun _ s1 => sframe s s1 /\ LWF (<[h := x']> G) s1).
Proof.
  intros L Hx Hh Hn Hs Hh' Hw Hty Hok. eapply (put_ctrl_lwf G _ s k st c1 L Hs).
  - intros h' y Hy. apply lookup_insert_Some in Hy as [[<- <-]|[Hne Hy]]; [done|].
    eapply typed_upd_nothold; [exact Hs|by eapply typed_holds_nonstatic; [eapply (lwf_typed _ _ L); exact Hx|exact Hh|exact Hs]| |by eapply (lwf_typed _ _ L)].
    eapply (refs_one_other G h); eauto.
  - rewrite (refs_insert_same _ _ _ _ _ Hx) by congruence. by rewrite Hn.
  - intros k2 Hk2. rewrite (refs_insert_same _ _ _ _ _ Hx); [done|congruence].
  - apply disj_insert_nowin; [done|apply (lwf_disj _ _ L)].
Qed.
Lemma refs_of_rc1 G s k st : LWF G s -> sts s !! k = Some st -> s_live st = true ->
  (exists cap, s_ctrl st = CShared cap 1) \/ (exists v o, s_ctrl st = CSharedV v o 1) -> refs G k = 1%nat.
Proof.
  intros L Hs Hl Hc. pose proof (lwf_st _ _ L _ _ Hs) as Hok. unfold st_ok in Hok. rewrite Hl in Hok.
  destruct Hc as [[cap Hc]|(v & o & Hc)]; rewrite Hc in Hok; destruct (s_cls st); try (exfalso; clear -Hok; naive_solver); destruct_and!; lia.
Qed.
(* mem::replace(&mut shared.vec, Vec::new()); release_shared(shared): the unique holder takes the Vec out of the control block *)
Lemma take_vec_out_lwf G s h x k st vcap o x' :
  LWF G s -> G !! h = Some x -> holds x = Some k -> sts s !! k = Some st -> s_live st = true -> s_ctrl st = CSharedV vcap o 1 ->
  holds x' = Some k -> rwin x' = None -> typed (<[k := with_ctrl CNone st]> (sts s)) x' ->
  spec (put_st k (with_ctrl (CSharedVEmpty o 1) st);; release k) s (fun _ s1 => sframe s s1 /\ LWF (<[h := x']> G) s1).
Proof.
  intros L Hx Hh Hs Hl Hc Hh' Hw Hty. pose proof (refs_of_rc1 _ _ _ _ L Hs Hl (or_intror (ex_intro _ vcap (ex_intro _ o Hc)))) as Hn.
  sbind spec_put_st'. intros [] s1 ->. unfold release.
  eapply spec_bind; [eapply spec_get_st'; simpl; apply lookup_insert|]. intros y s1 [-> ->]. cbn [with_ctrl s_ctrl].
  sbind spec_check'. { done. } intros [] s1 ->. change (1 =? 1) with true. cbn iota.
  sbind spec_put_st'. intros [] s1 ->. apply spec_emit. split; [done|].
  unfold set_sts. cbn [sts hs owners next_real next_pseudo next_h next_o odd_mode]. rewrite insert_insert.
  assert (with_ctrl CNone (with_ctrl (CSharedVEmpty o 1) st) = with_ctrl CNone st) as -> by done.
  pose proof (lwf_st _ _ L _ _ Hs) as Hok.
  eapply lwf_step1; try exact L; try exact Hs; try reflexivity.
  - intros h' y Hy. simpl. apply lookup_insert_Some in Hy as [[<- <-]|[Hne Hy]]; [done|].
    eapply typed_upd_nothold; [exact Hs|by eapply typed_holds_nonstatic; [eapply (lwf_typed _ _ L); exact Hx|exact Hh|exact Hs]| |by eapply (lwf_typed _ _ L)].
    eapply (refs_one_other G h); eauto.
  - rewrite (refs_insert_same _ _ _ _ _ Hx) by congruence. rewrite Hn. unfold st_ok in *. simpl. rewrite Hl, Hc in *.
    destruct (s_cls st); try (exfalso; clear -Hok; naive_solver); destruct_and!; repeat split; try done; lia.
  - intros k2 Hk2. rewrite (refs_insert_same _ _ _ _ _ Hx); [done|congruence].
  - apply disj_insert_nowin; [done|apply (lwf_disj _ _ L)].
Qed.

Lemma spec_assoc {A B C} (m : M A) (f : A -> M B) (g : B -> M C) s Q : spec (mbind (mbind m f) g) s Q -> spec (mbind m (fun a => mbind (f a) g)) s Q.
Proof. intros H e. specialize (H e). unfold mbind in *. destruct (m s e); done. Qed.
Definition conv_post (G : hmap) (s : hst) (h t : hid) (v : handle) (s1 : hst) : Prop := sframe s s1 /\ LWF (<[t := v]> (delete h G)) s1.
Lemma conv_inplace G s s1 h t v : G !! t = None -> sframe s s1 -> LWF (<[h := v]> G) s1 -> conv_post G s h t v s1.
Proof.
  intros Ht Hfr L1. split; [done|]. assert (t <> h \/ t = h) as [Hne| ->] by (destruct (decide (t = h)); auto).
  - rewrite <- (delete_insert_delete G h v). eapply lwf_rekey; [exact L1|apply lookup_insert|by rewrite lookup_insert_ne].
  - by rewrite insert_delete_insert.
Qed.
Lemma m_into_vec_rep_lwf G s h t k ofs len cap kd : LWF G s -> G !! h = Some (HM k ofs len cap kd) -> G !! t = None ->
  spec (m_into_vec_rep (HM k ofs len cap kd)) s (conv_post G s h t).
Proof.
  intros L Hx Ht. pose proof (lwf_typed _ _ L _ _ Hx) as Hty. unfold m_into_vec_rep. destruct kd as [o|]; simpl in Hty.
  - destruct Hty as (st & Hs & Hlv & Hcl & Hc & Hcap & Hle).
    sbind (copy_to_front_lwf _ _ k ofs len st L Hs Hlv Hcl). { lia. } intros [] s1 [Hfr L1]. apply spec_ret.
    apply conv_inplace; [done|done|]. eapply lwf_rehandle; [done|exact Hx|done| |done].
    destruct Hfr as [_ _]. pose proof (lwf_typed _ _ L1 _ _ Hx) as (st1 & Hs1 & Hlv1 & Hcl1 & Hc1 & Hcap1 & Hle1). exists st1. repeat split; try done; lia.
  - destruct Hty as (st & Hs & Hlv & Hcl & (o & rc & Hc) & Hb & Hle).
    sbind (spec_get_st' _ _ _ Hs). intros y s1 [-> ->]. rewrite Hc. destruct (rc =? 1) eqn:E1.
    + assert (rc = 1) as -> by lia.
      apply spec_assoc. eapply spec_bind.
      { eapply (take_vec_out_lwf G s h _ k st (s_size st) o (HV k len (s_size st)) L Hx eq_refl Hs Hlv Hc eq_refl eq_refl).
        exists (with_ctrl CNone st). rewrite lookup_insert. simpl. repeat split; try done. lia. }
      intros [] s1 [Hfr L1].
      pose proof (lwf_typed _ _ L1 h _ (lookup_insert _ _ _)) as (st1 & Hs1 & Hlv1 & Hcl1 & Hc1 & Hcap1 & Hle1).
      sbind (copy_to_front_lwf _ _ k ofs len st1 L1 Hs1 Hlv1 Hcl1). { lia. } intros [] s2 [Hfr2 L2]. apply spec_ret.
      apply conv_inplace; [done|by eapply sframe_trans|done].
    + eapply (copy_out_lwf G s h t _ k ofs len st (fun k' c => HV k' c c) L Hx Ht eq_refl Hs Hlv); try done; [by rewrite Hc|lia|].
      intros. by eapply typed_fresh_hv'.
Qed.
Lemma wf_finish_conv s s1 h t x v : hfresh s -> hs s !! h = Some x -> t = next_h s -> conv_post (hs s) s h t v s1 ->
  spec (del_h h;; let! r := new_h v in mret (RH r)) s1 (fun _ s2 => WF s2).
Proof.
  intros Hf Hx -> [[Hh1 Hn1] L1]. sbind spec_del_h'. intros [] s2 ->.
  eapply spec_bind; [eapply (wf_new_h _ _ (fun _ s3 => WF s3)); [| |done]|intros r s3 W3; by apply spec_ret].
  - intros h' [y Hy]. simpl in *. rewrite Hh1 in Hy. rewrite Hn1. apply lookup_delete_Some in Hy as [? Hy]. apply Hf; eauto.
  - simpl. rewrite Hh1, Hn1. by apply lwf_set_hs.
Qed.
Lemma wf_OMIntoVec orc h : wfstep orc (OMIntoVec h).
Proof.
  intros s [L Hf] (k & ofs & len & cap & kd & Hx). simpl. sbind (spec_get_h' _ _ _ Hx). intros x s1 [-> ->].
  sbind (m_into_vec_rep_lwf _ _ h (next_h s) _ _ _ _ _ L Hx (hfresh_next _ Hf)). intros v s1 Hpost. by eapply (wf_finish_conv s s1 h (next_h s)).
Qed.

Lemma st_ok_cnone_heap om k st : s_cls st = SHeap -> s_live st = true -> s_size st <> 0 -> st_ok om k (with_ctrl CNone st) 1.
Proof. intros Hc Hl Hz. unfold st_ok. simpl. rewrite Hc, Hl. done. Qed.
Lemma shared_to_vec_lwf G s h t x k ofs len st rc : LWF G s -> G !! h = Some x -> G !! t = None -> holds x = Some k ->
  sts s !! k = Some st -> s_live st = true -> s_cls st = SHeap -> s_ctrl st = CShared (s_size st) rc -> ofs + len <= s_size st ->
  spec (shared_to_vec k ofs len) s (conv_post G s h t).
Proof.
  intros L Hx Ht Hh Hs Hl Hcl Hc Hb. unfold shared_to_vec. sbind (spec_get_st' _ _ _ Hs). intros y s1 [-> ->]. rewrite Hc.
  pose proof (lwf_st _ _ L _ _ Hs) as Hok. unfold st_ok in Hok. rewrite Hcl in Hok. destruct Hok as [Hnz _].
  destruct (rc =? 1) eqn:E1.
  - assert (rc = 1) as -> by lia. pose proof (refs_of_rc1 _ _ _ _ L Hs Hl (or_introl (ex_intro _ _ Hc))) as Hn.
    eapply spec_bind.
    { eapply (sole_reshape_lwf G s h x k st CNone (HV k len (s_size st)) L Hx Hh Hn Hs eq_refl eq_refl).
      - exists (with_ctrl CNone st). rewrite lookup_insert. simpl. rewrite Hcl. repeat split; try done; [by left|lia].
      - by apply st_ok_cnone_heap. }
    intros [] s1 [Hfr L1]. sbind spec_emit'. intros [] s2 ->.
    pose proof (lwf_typed _ _ L1 h _ (lookup_insert _ _ _)) as (st1 & Hs1 & Hlv1 & Hcl1 & Hc1 & Hcap1 & Hle1).
    sbind (copy_to_front_lwf _ _ k ofs len st1 L1 Hs1 Hlv1 Hcl1). { lia. } intros [] s2 [Hfr2 L2]. apply spec_ret.
    apply conv_inplace; [done|by eapply sframe_trans|done].
  - eapply (copy_out_lwf G s h t _ k ofs len st (fun k' c => HV k' c c) L Hx Ht Hh Hs Hl); try done; [by rewrite Hc|]. intros. by eapply typed_fresh_hv'.
Qed.
Lemma shared_to_mut_lwf G s h t x k ofs len st rc : LWF G s -> G !! h = Some x -> G !! t = None -> holds x = Some k ->
  sts s !! k = Some st -> s_live st = true -> s_cls st = SHeap -> s_ctrl st = CShared (s_size st) rc -> ofs + len <= s_size st ->
  spec (shared_to_mut k ofs len) s (conv_post G s h t).
Proof.
  intros L Hx Ht Hh Hs Hl Hcl Hc Hb. unfold shared_to_mut. sbind (spec_get_st' _ _ _ Hs). intros y s1 [-> ->]. rewrite Hc.
  pose proof (lwf_st _ _ L _ _ Hs) as Hok. unfold st_ok in Hok. rewrite Hcl in Hok. destruct Hok as [Hnz _].
  destruct (rc =? 1) eqn:E1.
  - assert (rc = 1) as -> by lia. pose proof (refs_of_rc1 _ _ _ _ L Hs Hl (or_introl (ex_intro _ _ Hc))) as Hn.
    eapply spec_bind.
    { eapply (sole_reshape_lwf G s h x k st CNone (from_vec k (len + ofs) (s_size st)) L Hx Hh Hn Hs eq_refl eq_refl).
      - exists (with_ctrl CNone st). rewrite lookup_insert. simpl. rewrite Hcl. repeat split; try done; [by left|lia|lia].
      - by apply st_ok_cnone_heap. }
    intros [] s1 [Hfr L1]. sbind spec_emit'. intros [] s2 ->.
    unfold from_vec in *. eapply spec_mono; [eapply (adv_unchecked_lwf _ _ h _ _ _ _ _ ofs L1 (lookup_insert _ _ _)); lia|]. intros x' s2 (Hfr2 & L2 & _).
    rewrite insert_insert in L2. apply conv_inplace; [done|by eapply sframe_trans|done].
  - eapply (copy_out_lwf G s h t _ k ofs len st (fun k' c => from_vec k' c c) L Hx Ht Hh Hs Hl); try done; [by rewrite Hc|]. intros. by eapply typed_fresh_hm'.
Qed.

Lemma bytes_into_vec_rep_lwf G s h t ko ofs len vt arc : LWF G s -> G !! h = Some (HB ko ofs len vt arc) -> G !! t = None ->
  spec (bytes_into_vec_rep (HB ko ofs len vt arc)) s (conv_post G s h t).
Proof.
  intros L Hx Ht. pose proof (lwf_typed _ _ L _ _ Hx) as Hty. unfold bytes_into_vec_rep.
  destruct vt; destruct ko as [k|]; simpl in Hty; try (by destruct Hty as [_ ?]).
  - eapply (copy_static_lwf G s h t _ (fun k' c => HV k' c c) L Hx Ht eq_refl); [done|]. intros. by eapply typed_fresh_hv'.
  - eapply (copy_static_lwf G s h t _ (fun k' c => HV k' c c) L Hx Ht eq_refl); [done|]. intros. by eapply typed_fresh_hv'.
  - destruct Hty as (st & Hs & Hl & Hb & Hcl & rc & o & Hc).
    eapply (copy_out_lwf G s h t _ k ofs len st (fun k' c => HV k' c c) L Hx Ht eq_refl Hs Hl); try done; [by rewrite Hc|]. intros. by eapply typed_fresh_hv'.
  - destruct Hty as (st & Hs & Hl & Hb & Hcl & Hk). destruct arc.
    + destruct Hk as [rc Hc]. by eapply (shared_to_vec_lwf G s h t _ k ofs len st rc L Hx Ht).
    + destruct Hk as [Hc He]. sbind (copy_to_front_lwf _ _ k ofs len st L Hs Hl (or_introl Hcl) Hb). intros [] s1 [Hfr L1]. apply spec_ret.
      apply conv_inplace; [done|done|]. eapply lwf_rehandle; [done|exact Hx|done| |done].
      pose proof (lwf_typed _ _ L1 _ _ Hx) as (st1 & Hs1 & Hl1 & Hb1 & Hcl1 & Hc1 & He1). exists st1. repeat split; try done; [by left|lia].
  - destruct Hty as (st & Hs & Hl & Hb & Hcl & Hk). destruct arc.
    + destruct Hk as [rc Hc]. by eapply (shared_to_vec_lwf G s h t _ k ofs len st rc L Hx Ht).
    + destruct Hk as [Hc He]. sbind (copy_to_front_lwf _ _ k ofs len st L Hs Hl (or_introl Hcl) Hb). intros [] s1 [Hfr L1]. apply spec_ret.
      apply conv_inplace; [done|done|]. eapply lwf_rehandle; [done|exact Hx|done| |done].
      pose proof (lwf_typed _ _ L1 _ _ Hx) as (st1 & Hs1 & Hl1 & Hb1 & Hcl1 & Hc1 & He1). exists st1. repeat split; try done; [by left|lia].
  - destruct Hty as (st & Hs & Hl & Hb & Hcl & rc & Hc). by eapply (shared_to_vec_lwf G s h t _ k ofs len st rc L Hx Ht).
  - destruct Hty as (st & Hs & Hl & Hb & Hcl & o & rc & Hc).
    sbind (spec_get_st' _ _ _ Hs). intros y s1 [-> ->]. rewrite Hc. destruct (rc =? 1) eqn:E1.
    + assert (rc = 1) as -> by lia. apply spec_assoc. eapply spec_bind.
      { eapply (take_vec_out_lwf G s h _ k st (s_size st) o (HV k len (s_size st)) L Hx eq_refl Hs Hl Hc eq_refl eq_refl).
        exists (with_ctrl CNone st). rewrite lookup_insert. simpl. repeat split; try done. lia. }
      intros [] s1 [Hfr L1].
      pose proof (lwf_typed _ _ L1 h _ (lookup_insert _ _ _)) as (st1 & Hs1 & Hlv1 & Hcl1 & Hc1 & Hcap1 & Hle1).
      sbind (copy_to_front_lwf _ _ k ofs len st1 L1 Hs1 Hlv1 Hcl1). { lia. } intros [] s2 [Hfr2 L2]. apply spec_ret.
      apply conv_inplace; [done|by eapply sframe_trans|done].
    + eapply (copy_out_lwf G s h t _ k ofs len st (fun k' c => HV k' c c) L Hx Ht eq_refl Hs Hl); try done; [by rewrite Hc|]. intros. by eapply typed_fresh_hv'.
Qed.
Lemma bytes_into_mut_rep_lwf G s h t ko ofs len vt arc : LWF G s -> G !! h = Some (HB ko ofs len vt arc) -> G !! t = None ->
  spec (bytes_into_mut_rep (HB ko ofs len vt arc)) s (conv_post G s h t).
Proof.
  intros L Hx Ht. pose proof (lwf_typed _ _ L _ _ Hx) as Hty. unfold bytes_into_mut_rep.
  destruct vt; destruct ko as [k|]; simpl in Hty; try (by destruct Hty as [_ ?]).
  - eapply (copy_static_lwf G s h t _ (fun k' c => from_vec k' c c) L Hx Ht eq_refl); [done|]. intros. by eapply typed_fresh_hm'.
  - eapply (copy_static_lwf G s h t _ (fun k' c => from_vec k' c c) L Hx Ht eq_refl); [done|]. intros. by eapply typed_fresh_hm'.
  - destruct Hty as (st & Hs & Hl & Hb & Hcl & rc & o & Hc).
    eapply (copy_out_lwf G s h t _ k ofs len st (fun k' c => from_vec k' c c) L Hx Ht eq_refl Hs Hl); try done; [by rewrite Hc|]. intros. by eapply typed_fresh_hm'.
  - destruct Hty as (st & Hs & Hl & Hb & Hcl & Hk). destruct arc.
    + destruct Hk as [rc Hc]. by eapply (shared_to_mut_lwf G s h t _ k ofs len st rc L Hx Ht).
    + destruct Hk as [Hc He].
      assert (LWF (<[h := HM k 0 (ofs + len) (ofs + len) (MVec (ocr_to_repr (ofs + len)))]> G) s) as L0.
      { eapply lwf_rehandle; [done|exact Hx|done| |done]. exists st. repeat split; try done; [by left|lia]. }
      unfold from_vec. eapply spec_mono; [eapply (adv_unchecked_lwf _ _ h _ _ _ _ _ ofs L0 (lookup_insert _ _ _)); lia|]. intros x' s2 (Hfr2 & L2 & _).
      rewrite insert_insert in L2. by apply conv_inplace.
  - destruct Hty as (st & Hs & Hl & Hb & Hcl & Hk). destruct arc.
    + destruct Hk as [rc Hc]. by eapply (shared_to_mut_lwf G s h t _ k ofs len st rc L Hx Ht).
    + destruct Hk as [Hc He].
      assert (LWF (<[h := HM k 0 (ofs + len) (ofs + len) (MVec (ocr_to_repr (ofs + len)))]> G) s) as L0.
      { eapply lwf_rehandle; [done|exact Hx|done| |done]. exists st. repeat split; try done; [by left|lia]. }
      unfold from_vec. eapply spec_mono; [eapply (adv_unchecked_lwf _ _ h _ _ _ _ _ ofs L0 (lookup_insert _ _ _)); lia|]. intros x' s2 (Hfr2 & L2 & _).
      rewrite insert_insert in L2. by apply conv_inplace.
  - destruct Hty as (st & Hs & Hl & Hb & Hcl & rc & Hc). by eapply (shared_to_mut_lwf G s h t _ k ofs len st rc L Hx Ht).
  - destruct Hty as (st & Hs & Hl & Hb & Hcl & o & rc & Hc).
    sbind (spec_get_st' _ _ _ Hs). intros y s1 [-> ->]. rewrite Hc. destruct (rc =? 1) eqn:E1.
    + apply spec_ret. apply conv_inplace; [done|done|].
      (* the unique frozen BytesMut becomes a BytesMut again, over the rest of the allocation *)
      eapply lwf_step0; [exact L| | |].
      * intros h' y Hy. apply lookup_insert_Some in Hy as [[<- <-]|[? Hy]]; [|by eapply (lwf_typed _ _ L)]. exists st. repeat split; try done; [eauto|lia|lia].
      * intros k2. by eapply refs_insert_same.
      * assert (rc = 1) as -> by lia. pose proof (refs_of_rc1 _ _ _ _ L Hs Hl (or_intror (ex_intro _ _ (ex_intro _ _ Hc)))) as Hn.
        intros h1 h2 x1 x2 k0 o1 c1 o2 c2 Hn12 H1 H2 W1 W2. pose proof (lwf_disj _ _ L) as D.
        apply lookup_insert_Some in H1 as [[<- <-]|[? H1]]; apply lookup_insert_Some in H2 as [[<- <-]|[? H2]]; try done.
        -- exfalso. injection W1 as <- _ _. eapply (refs_one_other G h _ k h2 x2 Hn Hx eq_refl H2); [congruence|]. by eapply rwin_holds.
        -- exfalso. injection W2 as <- _ _. eapply (refs_one_other G h _ k h1 x1 Hn Hx eq_refl H1); [congruence|]. eapply rwin_holds; by apply mwin_rwin.
        -- eapply (D h1 h2); eauto.
    + eapply (copy_out_lwf G s h t _ k ofs len st (fun k' c => from_vec k' c c) L Hx Ht eq_refl Hs Hl); try done; [by rewrite Hc|]. intros. by eapply typed_fresh_hm'.
Qed.
Lemma wf_OBIntoVec orc h : wfstep orc (OBIntoVec h).
Proof.
  intros s [L Hf] (ko & ofs & len & vt & arc & Hx). simpl. sbind (spec_get_h' _ _ _ Hx). intros x s1 [-> ->].
  sbind (bytes_into_vec_rep_lwf _ _ h (next_h s) _ _ _ _ _ L Hx (hfresh_next _ Hf)). intros v s1 Hpost. by eapply (wf_finish_conv s s1 h (next_h s)).
Qed.
Lemma wf_OBIntoMut orc h : wfstep orc (OBIntoMut h).
Proof.
  intros s [L Hf] (ko & ofs & len & vt & arc & Hx). simpl. sbind (spec_get_h' _ _ _ Hx). intros x s1 [-> ->].
  sbind (bytes_into_mut_rep_lwf _ _ h (next_h s) _ _ _ _ _ L Hx (hfresh_next _ Hf)). intros v s1 Hpost. by eapply (wf_finish_conv s s1 h (next_h s)).
Qed.
Lemma wf_OBTryIntoMut orc h : wfstep orc (OBTryIntoMut h).
Proof.
  intros s [L Hf] (ko & ofs & len & vt & arc & Hx). simpl. sbind (spec_get_h' _ _ _ Hx). intros x s1 [-> ->].
  sbind (bytes_is_unique_spec _ _ _ _ _ _ _ _ L Hx). intros b s1 ->. destruct b; [|by apply spec_ret].
  sbind (bytes_into_mut_rep_lwf _ _ h (next_h s) _ _ _ _ _ L Hx (hfresh_next _ Hf)). intros v s1 Hpost. by eapply (wf_finish_conv s s1 h (next_h s)).
Qed.

(* ---- Vec::reserve had to grow: the only holder of k moves to a new buffer k' (which inherits the control block, if any) ---- *)
(* the state after realloc_buf, described storage by storage *)
Definition realloc_post (G : hmap) (s : hst) (h : hid) (k : positive) (st : storage) (need : N) (r : positive * N) (s1 : hst) : Prop :=
  let '(k', c) := r in
  sframe s s1 /\ need <= c /\ k' <> k /\ sts s !! k' = None /\ owners s1 = owners s /\
  exists st', sts s1 !! k' = Some st' /\ s_live st' = true /\ s_size st' = c /\ s_cls st' = (if c =? 0 then SDangling else SHeap) /\ s_ctrl st' = s_ctrl st /\
  (* any re-typing of the holder's handle onto k', with any control block of the right shape, re-establishes the invariant *)
  forall c1 x', holds x' = Some k' -> typed (<[k' := with_ctrl c1 st']> (sts s1)) x' -> st_ok (owners s) k' (with_ctrl c1 st') 1 ->
    LWF (<[h := x']> G) (set_sts (<[k' := with_ctrl c1 st']>) s1).
Lemma realloc_buf_lwf G s h x k st orc oldcap keep need :
  LWF G s -> G !! h = Some x -> holds x = Some k -> refs G k = 1%nat -> sts s !! k = Some st -> s_live st = true -> heapish (s_cls st) ->
  oldcap = s_size st -> need <> 0 ->
  spec (realloc_buf orc k oldcap keep need) s (realloc_post G s h k st need).
Proof.
  intros L Hx Hh Hn Hs Hl Hcl -> Hnz. destruct L as [T S D (F1 & F2 & F3 & F4)] eqn:EL.
  assert (forall h2 y, h2 <> h -> G !! h2 = Some y -> holds y <> Some k) as Hsole by (intros; by eapply (refs_one_other G h)).
  assert (s_cls st <> SStatic) as Hns by (destruct Hcl as [E|E]; rewrite E; done).
  unfold realloc_buf. destruct (isize_max <? need) eqn:Ei; [apply spec_panic|].
  set (newcap := N.max (or_pick orc need) need). assert (need <= newcap) as Hnc by (unfold newcap; lia). assert (newcap =? 0 = false) as Hc0 by lia.
  sbind (spec_get_st' _ _ _ Hs). intros y s1 [-> ->]. sbind spec_mget'. intros y s1 [-> ->].
  pose proof (S _ _ Hs) as Hok.
  destruct Hcl as [Hcl|Hcl]; rewrite Hcl.
  - (* a real buffer is reallocated *)
    sbind spec_check'. { done. } intros [] s1 ->. sbind spec_check'. { lia. } intros [] s1 ->.
    assert (sts s !! xO (next_real s) = None) as Hfr.
    { destruct (sts s !! xO (next_real s)) eqn:E; [|done]. assert (next_real s < next_real s)%positive by (apply F1; eauto). lia. }
    assert (xO (next_real s) <> k) as Hkk by (intros <-; congruence).
    sbind spec_mput'. intros [] s1 ->. sbind spec_emit'. intros [] s1 ->. apply spec_ret.
    unfold realloc_post. split; [done|]. split; [done|]. split; [done|]. split; [done|]. split; [done|].
    eexists. split; [simpl; apply lookup_insert|]. cbn [s_live s_size s_cls s_ctrl]. rewrite Hc0. split; [done|]. split; [done|]. split; [done|]. split; [done|].
    intros cnew xn Hh' Hty Hok'. unfold set_sts. cbn [sts hs owners next_real next_pseudo next_h next_o odd_mode]. rewrite insert_insert.
    set (stn := with_ctrl cnew _). set (k' := xO (next_real s)) in *.
    constructor; cbn [sts owners].
    + intros h' y Hy. apply lookup_insert_Some in Hy as [[<- <-]|[Hne Hy]].
      * cbn [sts] in Hty. by rewrite insert_insert in Hty.
      * apply typed_ins_fresh; [by rewrite lookup_insert_ne|]. eapply typed_upd_nothold; [exact Hs|done|eapply Hsole; eauto|by eapply T].
    + intros k2 st2 Hk2. destruct (decide (k2 = k')) as [->|Hn1].
      * rewrite lookup_insert in Hk2. injection Hk2 as <-.
        assert (refs (<[h := xn]> G) k' = 1%nat) as ->; [|exact Hok'].
        pose proof (refs_insert G h x xn k' Hx) as HH. rewrite (w_hold xn k' Hh') in HH. rewrite (w_nohold x k') in HH by congruence.
        rewrite (refs_fresh_storage _ _ _ L Hfr) in HH. lia.
      * rewrite lookup_insert_ne in Hk2 by done. destruct (decide (k2 = k)) as [->|Hn2].
        -- rewrite lookup_insert in Hk2. injection Hk2 as <-.
           assert (refs (<[h := xn]> G) k = 0%nat) as ->.
           { pose proof (refs_insert G h x xn k Hx) as HH. rewrite (w_hold x k Hh) in HH. rewrite (w_nohold xn k) in HH by congruence. lia. }
           unfold st_ok in *. simpl. rewrite Hcl in *. split; [apply Hok|done].
        -- rewrite lookup_insert_ne in Hk2 by done.
           assert (refs (<[h := xn]> G) k2 = refs G k2) as ->; [|by apply S].
           pose proof (refs_insert G h x xn k2 Hx) as HH. rewrite (w_nohold xn k2) in HH by congruence. rewrite (w_nohold x k2) in HH by congruence. lia.
    + intros h1 h2 x1 x2 k0 o1 cc1 o2 c2 Hn12 H1 H2 W1 W2.
      apply lookup_insert_Some in H1 as [[<- <-]|[? H1]]; apply lookup_insert_Some in H2 as [[<- <-]|[? H2]]; try done.
      * exfalso. pose proof (rwin_holds _ _ _ _ (mwin_rwin _ _ W1)) as Hk0. rewrite Hh' in Hk0. injection Hk0 as <-.
        destruct (typed_holds _ _ _ (T _ _ H2) (rwin_holds _ _ _ _ W2)) as (sty & Hsy & _). congruence.
      * exfalso. pose proof (rwin_holds _ _ _ _ W2) as Hk0. rewrite Hh' in Hk0. injection Hk0 as <-.
        destruct (typed_holds _ _ _ (T _ _ H1) (rwin_holds _ _ _ _ (mwin_rwin _ _ W1))) as (sty & Hsy & _). congruence.
      * eapply (D h1 h2); eauto.
    + repeat split; simpl.
      * intros p [st0 Hp]. destruct (decide (p = next_real s)) as [->|Hne]; [lia|]. rewrite lookup_insert_ne in Hp by (unfold k'; congruence).
        assert (is_Some (sts s !! xO p)) as Hi. { destruct (decide (xO p = k)) as [<-|?]; [eauto|]. rewrite lookup_insert_ne in Hp by done. eauto. }
        assert (p < next_real s)%positive by (by apply F1). lia.
      * intros p [st0 Hp]. rewrite lookup_insert_ne in Hp by done. apply F2. destruct (decide (xI p = k)) as [<-|?]; [eauto|]. rewrite lookup_insert_ne in Hp by done. eauto.
      * done.
      * rewrite lookup_insert_ne by done. destruct (decide (1%positive = k)) as [<-|?]; [congruence|]. by rewrite lookup_insert_ne.
  - (* a zero-capacity Vec: first allocation *)
    assert (sts s !! xO (next_real s) = None) as Hfr.
    { destruct (sts s !! xO (next_real s)) eqn:E; [|done]. assert (next_real s < next_real s)%positive by (apply F1; eauto). lia. }
    assert (xO (next_real s) <> k) as Hkk by (intros <-; congruence).
    set (k' := xO (next_real s)) in *.
    set (stn0 := {| s_size := newcap; s_data := pad [] newcap; s_live := true; s_odd := odd_mode s; s_cls := SHeap; s_ctrl := CNone |}).
    eapply spec_bind with (Q1 := fun r s1 => r = k' /\ s1 = {| sts := <[k' := stn0]> (sts s); hs := hs s; owners := owners s; next_real := Pos.succ (next_real s);
                                   next_pseudo := next_pseudo s; next_h := next_h s; next_o := next_o s; odd_mode := odd_mode s |}).
    { unfold alloc_buf. sbind spec_mget'. intros y s1 [-> ->]. rewrite Hc0. destruct (isize_max <? newcap); [apply spec_panic|].
      sbind spec_mput'. intros [] s1 ->. sbind spec_emit'. intros [] s1 ->. by apply spec_ret. }
    intros r s1 [-> ->].
    eapply spec_bind; [unfold upd_st; eapply spec_bind; [eapply spec_get_st'; simpl; apply lookup_insert|]; intros y s1 [-> ->]; apply spec_put_st'|]. intros [] s1 ->.
    sbind spec_put_st'. intros [] s1 ->. apply spec_ret.
    unfold realloc_post, set_sts. cbn [sts hs owners next_real next_pseudo next_h next_o odd_mode]. rewrite insert_insert.
    split; [done|]. split; [done|]. split; [done|]. split; [done|]. split; [done|].
    exists (with_ctrl (s_ctrl st) stn0). split; [rewrite lookup_insert_ne by done; apply lookup_insert|].
    cbn [with_ctrl s_live s_size s_cls s_ctrl stn0]. rewrite Hc0. split; [done|]. split; [done|]. split; [done|]. split; [done|].
    intros cnew xn Hh' Hty Hok'. rewrite (insert_commute _ k k') by done. rewrite insert_insert.
    unfold st_ok in Hok. rewrite Hcl in Hok. destruct Hok as (Hz & _ & Hctl).
    constructor; cbn [sts owners].
    + intros h' y Hy. apply lookup_insert_Some in Hy as [[<- <-]|[Hne Hy]].
      * cbn [sts] in Hty. rewrite (insert_commute _ k k') in Hty by done. by rewrite insert_insert in Hty.
      * apply typed_ins_fresh; [by rewrite lookup_insert_ne|]. eapply typed_upd_nothold; [exact Hs|done|eapply Hsole; eauto|by eapply T].
    + intros k2 st2 Hk2. destruct (decide (k2 = k')) as [->|Hn1].
      * rewrite lookup_insert in Hk2. injection Hk2 as <-.
        assert (refs (<[h := xn]> G) k' = 1%nat) as ->; [|exact Hok'].
        pose proof (refs_insert G h x xn k' Hx) as HH. rewrite (w_hold xn k' Hh') in HH. rewrite (w_nohold x k') in HH by congruence.
        rewrite (refs_fresh_storage _ _ _ L Hfr) in HH. lia.
      * rewrite lookup_insert_ne in Hk2 by done. destruct (decide (k2 = k)) as [->|Hn2].
        -- rewrite lookup_insert in Hk2. injection Hk2 as <-.
           assert (refs (<[h := xn]> G) k = 0%nat) as ->.
           { pose proof (refs_insert G h x xn k Hx) as HH. rewrite (w_hold x k Hh) in HH. rewrite (w_nohold xn k) in HH by congruence. lia. }
           unfold st_ok. simpl. rewrite Hcl, Hl. repeat split; try done; lia.
        -- rewrite lookup_insert_ne in Hk2 by done.
           assert (refs (<[h := xn]> G) k2 = refs G k2) as ->; [|by apply S].
           pose proof (refs_insert G h x xn k2 Hx) as HH. rewrite (w_nohold xn k2) in HH by congruence. rewrite (w_nohold x k2) in HH by congruence. lia.
    + intros h1 h2 x1 x2 k0 o1 cc1 o2 c2 Hn12 H1 H2 W1 W2.
      apply lookup_insert_Some in H1 as [[<- <-]|[? H1]]; apply lookup_insert_Some in H2 as [[<- <-]|[? H2]]; try done.
      * exfalso. pose proof (rwin_holds _ _ _ _ (mwin_rwin _ _ W1)) as Hk0. rewrite Hh' in Hk0. injection Hk0 as <-.
        destruct (typed_holds _ _ _ (T _ _ H2) (rwin_holds _ _ _ _ W2)) as (sty & Hsy & _). congruence.
      * exfalso. pose proof (rwin_holds _ _ _ _ W2) as Hk0. rewrite Hh' in Hk0. injection Hk0 as <-.
        destruct (typed_holds _ _ _ (T _ _ H1) (rwin_holds _ _ _ _ (mwin_rwin _ _ W1))) as (sty & Hsy & _). congruence.
      * eapply (D h1 h2); eauto.
    + repeat split; simpl.
      * intros p [st0 Hp]. destruct (decide (p = next_real s)) as [->|Hne]; [lia|]. rewrite lookup_insert_ne in Hp by (unfold k'; congruence).
        assert (is_Some (sts s !! xO p)) as Hi. { destruct (decide (xO p = k)) as [<-|?]; [eauto|]. rewrite lookup_insert_ne in Hp by done. eauto. }
        assert (p < next_real s)%positive by (by apply F1). lia.
      * intros p [st0 Hp]. rewrite lookup_insert_ne in Hp by done. apply F2. destruct (decide (xI p = k)) as [<-|?]; [eauto|]. rewrite lookup_insert_ne in Hp by done. eauto.
      * done.
      * rewrite lookup_insert_ne by done. destruct (decide (1%positive = k)) as [<-|?]; [congruence|]. by rewrite lookup_insert_ne.
Qed.

Lemma with_ctrl_id st c : s_ctrl st = c -> with_ctrl c st = st.
Proof. intros <-. by destruct st. Qed.
Lemma mread_len_spec s k ofs len st : sts s !! k = Some st -> s_live st = true -> ofs + len <= s_size st ->
  spec (mread k ofs len) s (fun bs s1 => s1 = s /\ lenN bs <= len).
Proof.
  intros Hs Hl Hb e. pose proof (mread_spec s k ofs len st Hs Hl Hb e) as H. pose proof (mread_ok k ofs len s e) as H2.
  destruct (mread k ofs len s e) as [bs s1 e1| |] eqn:E; try done. split; [done|].
  destruct (len =? 0) eqn:E0.
  - unfold mread in E. rewrite E0 in E. injection E as <- _ _. change (lenN (@nil byte)) with 0. lia.
  - destruct (H2 bs s1 e1 eq_refl) as (x & Hx & _ & _ & -> & _); [lia|]. apply lenN_rd.
Qed.
(* a sole shared BytesMut may take any window of its buffer *)
Lemma lwf_hm_sole_window G s h k o l c st o' l' c' : LWF G s -> G !! h = Some (HM k o l c MArc) -> refs G k = 1%nat -> sts s !! k = Some st ->
  o' + c' <= s_size st -> l' <= c' -> LWF (<[h := HM k o' l' c' MArc]> G) s.
Proof.
  intros L Hx Hn Hs Hb Hl. eapply lwf_step0; [exact L| | |].
  - intros h' y Hy. apply lookup_insert_Some in Hy as [[<- <-]|[? Hy]]; [|by eapply (lwf_typed _ _ L)].
    pose proof (lwf_typed _ _ L _ _ Hx) as (st0 & Hs0 & Hlv & Hcl & Hc & Hbd & Hle). rewrite Hs in Hs0. injection Hs0 as <-. exists st. repeat split; done.
  - intros k2. by eapply refs_insert_same.
  - eapply disj_replace_sub; [apply (lwf_disj _ _ L)|exact Hx|]. intros k' o2 c2 [= <- <- <-]. split; [done|]. right.
    intros h2 y Hne Hy. by eapply (refs_one_other G h).
Qed.

Lemma spec_and {A} (m : M A) s (Q1 Q2 : A -> hst -> Prop) : spec m s Q1 -> spec m s Q2 -> spec m s (fun a s1 => Q1 a s1 /\ Q2 a s1).
Proof. intros H1 H2 e. specialize (H1 e). specialize (H2 e). destruct (m s e); done. Qed.
Lemma mwrite_size s k ofs bs st : sts s !! k = Some st -> s_live st = true -> heapish (s_cls st) -> ofs + lenN bs <= s_size st -> (s_cls st = SDangling -> s_size st = 0) ->
  spec (mwrite k ofs bs) s (fun _ s1 => exists st1, sts s1 !! k = Some st1 /\ s_size st1 = s_size st).
Proof.
  intros Hs Hl Hcl Hb Hd. unfold mwrite. destruct (lenN bs =? 0) eqn:Ez; [apply spec_ret; eauto|].
  sbind (spec_get_st' _ _ _ Hs). intros x s1 [-> ->]. sbind spec_check'. { done. } intros [] s1 ->. sbind spec_check'. { lia. } intros [] s1 ->.
  assert (s_cls st = SHeap) as Hh. { destruct Hcl as [?|Hd']; [done|]. specialize (Hd Hd'). lia. }
  sbind spec_check'. { by rewrite Hh. } intros [] s1 ->. apply spec_put_st. simpl. eexists. rewrite lookup_insert. done.
Qed.
(* moving the live bytes to the front of the buffer: the invariant and the buffer's size survive *)
Lemma move_front_lwf G s k off len st : LWF G s -> sts s !! k = Some st -> s_live st = true -> heapish (s_cls st) -> off + len <= s_size st ->
  spec (if len =? 0 then mret tt else let! bs := mread k off len in mwrite k 0 bs) s (fun _ s1 => sframe s s1 /\ LWF G s1 /\ exists st1, sts s1 !! k = Some st1 /\ s_size st1 = s_size st).
Proof.
  intros L Hs Hlv Hcl Hb. destruct (len =? 0); [apply spec_ret; split; [done|split; [done|eauto]]|].
  sbind (mread_len_spec s k off len st Hs Hlv Hb). intros bs s1 [-> Hbs].
  pose proof (lwf_st _ _ L _ _ Hs) as Hok.
  eapply spec_mono; [apply spec_and; [eapply (mwrite_lwf G s k 0 bs st L Hs Hlv Hcl); lia|eapply (mwrite_size s k 0 bs st Hs Hlv Hcl); [lia|]]|].
  - intros Hd. unfold st_ok in Hok. rewrite Hd in Hok. apply Hok.
  - intros [] s1 [[Hfr L1] Hst]. done.
Qed.
Definition is_hm (x : handle) : Prop := exists k o l c kd, x = HM k o l c kd.
Lemma reserve_inner_lwf G s h orc additional allocate k off len cap kd :
  LWF G s -> G !! h = Some (HM k off len cap kd) ->
  spec (reserve_inner orc additional allocate (HM k off len cap kd)) s (fun r s1 => sframe s s1 /\ LWF (<[h := r.1]> G) s1 /\ is_hm r.1).
Proof.
  intros L Hx. pose proof (lwf_typed _ _ L _ _ Hx) as Hty. unfold reserve_inner. destruct kd as [o|]; simpl in Hty.
  - destruct Hty as (st & Hs & Hlv & Hcl & Hc & Hcap & Hle).
    destruct ((additional <=? cap - len + off) && (len <=? off)) eqn:E1.
    + sbind (move_front_lwf G s k off len st L Hs Hlv Hcl). { lia. }
      intros [] s1 (Hfr & L1 & _). apply spec_ret. split; [done|]. split; [|unfold is_hm; eauto 10]. simpl. eapply lwf_hm_vecmove; [done|exact Hx|lia|lia].
    + destruct allocate; cbn [negb]; [|apply spec_ret; split; [done|]; split; [by rewrite insert_id|unfold is_hm; eauto 10]].
      assert (holds (HM k off len cap (MVec o)) = Some k) as Hh by done.
      pose proof (st_ok_sole_n _ _ _ _ _ _ L Hx Hh Hs Hc) as Hn.
      sbind (realloc_buf_lwf G s h _ k st orc (cap + off) (len + off) (len + off + additional) L Hx Hh Hn Hs Hlv Hcl). { lia. } { lia. }
      intros [k' vcap] s1 (Hfr & Hnc & Hkk & Hfrk & Hown & st' & Hs' & Hl' & Hsz' & Hcl' & Hct' & HK). apply spec_ret. split; [done|]. split; [|unfold is_hm; eauto 10].
      cbn [fst]. rewrite Hc in Hct'.
      assert (LWF (<[h := HM k' off len (vcap - off) (MVec o)]> G) (set_sts (<[k' := with_ctrl CNone st']>) s1)) as L1.
      { apply HK; try done.
        - exists (with_ctrl CNone st'). rewrite lookup_insert. simpl. rewrite Hl', Hcl', Hsz'. repeat split; try done; [apply heapish_of_size|lia|lia].
        - unfold st_ok. simpl. rewrite Hcl', Hl'. destruct (vcap =? 0) eqn:Ev; [lia|]. repeat split; try done. lia. }
      rewrite (with_ctrl_id st' CNone Hct') in L1. by rewrite (set_sts_id s1 k' st' Hs') in L1.
  - destruct Hty as (st & Hs & Hlv & Hcl & (o & rc & Hc) & Hb & Hle).
    destruct (usize_max <? len + additional) eqn:E0.
    { destruct allocate; [apply spec_panic|]. apply spec_ret. split; [done|]. split; [by rewrite insert_id|unfold is_hm; eauto 10]. }
    sbind (spec_get_st' _ _ _ Hs). intros y s1 [-> ->]. rewrite Hc.
    destruct (rc =? 1) eqn:Erc.
    + assert (rc = 1) as -> by lia. pose proof (refs_of_rc1 _ _ _ _ L Hs Hlv (or_intror (ex_intro _ _ (ex_intro _ _ Hc)))) as Hn.
      destruct ((len + additional + off <=? usize_max) && (len + additional + off <=? s_size st)) eqn:E1.
      { apply spec_ret. split; [done|]. split; [|unfold is_hm; eauto 10]. simpl. eapply lwf_hm_sole_window; try done; lia. }
      destruct ((len + additional <=? s_size st) && (len <=? off)) eqn:E2.
      { sbind (move_front_lwf G s k off len st L Hs Hlv Hcl). { lia. }
        intros [] s1 (Hfr & L1 & st1 & Hs1 & Hsz). apply spec_ret. split; [done|]. split; [|unfold is_hm; eauto 10]. simpl.
        eapply lwf_hm_sole_window; try done; lia. }
      destruct allocate; cbn [negb]; [|apply spec_ret; split; [done|]; split; [by rewrite insert_id|unfold is_hm; eauto 10]].
      destruct (usize_max <? len + additional + off) eqn:E3; [apply spec_panic|].
      set (need := N.max (N.land (N.shiftl (s_size st) 1) usize_max) (len + additional + off)).
      assert (len + additional + off <= need) as Hneed by (unfold need; lia).
      assert (need <> 0) as Hnz by lia.
      sbind (realloc_buf_lwf G s h _ k st orc (s_size st) (off + len) need L Hx eq_refl Hn Hs Hlv Hcl eq_refl Hnz).
      intros [k' vcap] s1 (Hfr & Hnc & Hkk & Hfrk & Hown & st' & Hs' & Hl' & Hsz' & Hcl' & Hct' & HK).
      eapply spec_bind with (Q1 := fun _ s2 => s2 = set_sts (<[k' := with_ctrl (CSharedV vcap o 1) st']>) s1).
      { unfold upd_st. sbind (spec_get_st' _ _ _ Hs'). intros y s2 [-> ->]. apply spec_put_st'. }
      intros [] s2 ->. apply spec_ret. split; [done|]. split; [|unfold is_hm; eauto 10]. cbn [fst].
      destruct (vcap =? 0) eqn:Ev; [lia|].
      apply HK; try done.
      { exists (with_ctrl (CSharedV vcap o 1) st'). rewrite lookup_insert. simpl. rewrite Hl', Hcl', Hsz'.
        split; [done|]. split; [done|]. split; [by left|]. split; [eauto|]. split; lia. }
      { unfold st_ok. simpl. rewrite Hcl', Hl', Hsz'. repeat split; try done; lia. }
    + destruct allocate; cbn [negb]; [|apply spec_ret; split; [done|]; split; [by rewrite insert_id|unfold is_hm; eauto 10]].
      set (ncap := N.max (len + additional) (ocr_from_repr o)).
      sbind (mread_spec s k off len st Hs Hlv). { lia. } intros bs s1 ->.
      assert (G !! fresh (dom G) = None) as Hfr by (apply not_elem_of_dom, is_fresh). set (t := fresh (dom G)) in *.
      assert (t <> h) as Hne by (intros ->; congruence).
      sbind (alloc_buf_lwf _ s ncap bs L). intros k' s1 Hpost. pose proof Hpost as (Hfr1 & st' & (Hn' & _) & Hs1 & _).
      assert (LWF (<[t := HM k' 0 len ncap (MVec o)]> G) s1) as L1.
      { eapply alloc_token; try done. intros st2 ? ? ? ? ?. eapply typed_fresh_hm; eauto. unfold ncap. lia. }
      assert (k' <> k) as Hkk by (intros ->; congruence).
      assert (sts s1 !! k = Some st) as Hs1k by (rewrite Hs1; by rewrite lookup_insert_ne).
      sbind (drop_token_release _ s1 h (HM k off len cap MArc) k st L1). { by rewrite lookup_insert_ne. } { done. } { done. } { done. } { by rewrite Hc. }
      intros [] s2 [Hfr2 L2]. apply spec_ret. split; [by eapply sframe_trans|]. split; [|unfold is_hm; eauto 10]. cbn [fst].
      rewrite delete_insert_ne in L2 by done.
      pose proof (lwf_rekey _ _ t h _ L2 (lookup_insert _ _ _)) as L3. rewrite lookup_insert_ne in L3 by done. rewrite lookup_delete in L3. specialize (L3 eq_refl).
      rewrite delete_insert in L3 by (by rewrite lookup_delete_ne). by rewrite insert_delete_insert in L3.
Qed.

Lemma m_reserve_lwf G s h orc n k off len cap kd : LWF G s -> G !! h = Some (HM k off len cap kd) ->
  spec (m_reserve orc n (HM k off len cap kd)) s (fun x' s1 => sframe s s1 /\ LWF (<[h := x']> G) s1 /\ is_hm x').
Proof.
  intros L Hx. unfold m_reserve. destruct (n <=? cap - len); [apply spec_ret; split; [done|]; split; [by rewrite insert_id|unfold is_hm; eauto 10]|].
  sbind (reserve_inner_lwf G s h orc n true _ _ _ _ _ L Hx). intros [x' b] s1 (Hfr & L1 & Hm). by apply spec_ret.
Qed.
Lemma wf_after_put s s1 h x x' : hfresh s -> sframe s s1 -> hs s !! h = Some x -> LWF (<[h := x']> (hs s)) s1 -> WF (set_hs (<[h := x']>) s1).
Proof.
  intros Hf [Hh1 Hn1] Hx L1. eapply wf_put_h; [by eapply hfresh_frame|by rewrite Hh1|by rewrite Hh1].
Qed.
Lemma wf_OMReserve orc h n : wfstep orc (OMReserve h n).
Proof.
  intros s [L Hf] (k & ofs & len & cap & kd & Hx). simpl. sbind (spec_get_h' _ _ _ Hx). intros x s1 [-> ->].
  sbind (m_reserve_lwf _ _ _ orc n _ _ _ _ _ L Hx). intros x' s1 (Hfr & L1 & _). sbind spec_put_h'. intros [] s2 ->. apply spec_ret. by eapply wf_after_put.
Qed.
Lemma wf_OMTryReclaim orc h n : wfstep orc (OMTryReclaim h n).
Proof.
  intros s [L Hf] (k & ofs & len & cap & kd & Hx). simpl. sbind (spec_get_h' _ _ _ Hx). intros x s1 [-> ->]. unfold m_try_reclaim.
  eapply spec_bind with (Q1 := fun r s1 => sframe s s1 /\ LWF (<[h := r.1]> (hs s)) s1).
  { destruct (n <=? cap - len); [apply spec_ret; split; [done|]; by rewrite insert_id|].
    eapply spec_mono; [apply (reserve_inner_lwf _ s h orc n false _ _ _ _ _ L Hx)|]. intros r s1 (? & ? & _). done. }
  intros [x' b] s1 [Hfr L1]. sbind spec_put_h'. intros [] s2 ->. apply spec_ret. by eapply wf_after_put.
Qed.
(* extend_from_slice: reserve, write into the spare capacity, the length grows *)
Lemma m_extend_lwf G s h orc bs k off len cap kd : LWF G s -> G !! h = Some (HM k off len cap kd) ->
  spec (m_extend orc bs (HM k off len cap kd)) s (fun x' s1 => sframe s s1 /\ LWF (<[h := x']> G) s1 /\ is_hm x').
Proof.
  intros L Hx. pose proof (typed_hm_le _ _ _ _ _ _ (lwf_typed _ _ L _ _ Hx)) as Hle. unfold m_extend.
  eapply spec_bind with (Q1 := fun x1 s1 => (sframe s s1 /\ LWF (<[h := x1]> G) s1 /\ is_hm x1) /\ (h_len x1 = len /\ lenN bs <= h_cap x1 - h_len x1)).
  { apply spec_and; [by apply m_reserve_lwf|]. intros e. pose proof (reserve_post orc (lenN bs) (HM k off len cap kd) s e) as Hp.
    destruct (m_reserve orc (lenN bs) (HM k off len cap kd) s e) as [x1 s1 e1| |] eqn:E; try done; [|by (pose proof (m_reserve_lwf G s h orc (lenN bs) _ _ _ _ _ L Hx e) as HH; rewrite E in HH)].
    by apply (Hp x1 s1 e1). }
  intros x1 s1 [(Hfr & L1 & (k1 & o1 & l1 & c1 & kd1 & ->)) [Hl1 Hroom]]. simpl in Hl1, Hroom. subst l1.
  pose proof (typed_hm_le _ _ _ _ _ _ (lwf_typed _ _ L1 h _ (lookup_insert _ _ _))) as Hle1.
  sbind spec_check'. { lia. } intros [] s2 ->.
  sbind (hm_write_lwf _ _ h _ _ _ _ _ (o1 + len) bs L1 (lookup_insert _ _ _)). { lia. } { lia. }
  intros [] s2 [Hfr2 L2]. apply spec_ret. split; [by eapply sframe_trans|]. split; [|unfold is_hm; eauto 10].
  rewrite <- (insert_insert G h (HM k1 o1 (len + lenN bs) c1 kd1) (HM k1 o1 len c1 kd1)). eapply lwf_hm_len; [exact L2|apply lookup_insert|lia].
Qed.
Lemma wf_OMExtend orc h d : wfstep orc (OMExtend h d).
Proof.
  intros s [L Hf] (k & ofs & len & cap & kd & Hx). simpl. sbind (spec_get_h' _ _ _ Hx). intros x s1 [-> ->].
  sbind (m_extend_lwf _ _ _ orc d _ _ _ _ _ L Hx). intros x' s1 (Hfr & L1 & _). sbind spec_put_h'. intros [] s2 ->. apply spec_ret. by eapply wf_after_put.
Qed.
Lemma wf_OMResize orc h new_len v : wfstep orc (OMResize h new_len v).
Proof.
  intros s [L Hf] (k & ofs & len & cap & kd & Hx). simpl. sbind (spec_get_h' _ _ _ Hx). intros x s1 [-> ->]. cbn [m_parts]. sret.
  pose proof (typed_hm_le _ _ _ _ _ _ (lwf_typed _ _ L _ _ Hx)) as Hle.
  destruct (new_len <? len) eqn:E1.
  { sbind spec_put_h'. intros [] s1 ->. apply spec_ret. eapply wf_put_h; [done|exact Hx|]. eapply lwf_hm_len; [done|exact Hx|lia]. }
  destruct (new_len =? len) eqn:E2; [by apply spec_ret|].
  eapply spec_bind with (Q1 := fun x1 s1 => (sframe s s1 /\ LWF (<[h := x1]> (hs s)) s1 /\ is_hm x1) /\ (h_len x1 = len /\ new_len - len <= h_cap x1 - h_len x1)).
  { apply spec_and; [by apply m_reserve_lwf|]. intros e. pose proof (reserve_post orc (new_len - len) (HM k ofs len cap kd) s e) as Hp.
    destruct (m_reserve orc (new_len - len) (HM k ofs len cap kd) s e) as [x1 s1 e1| |] eqn:E; try done; [|by (pose proof (m_reserve_lwf _ s h orc (new_len - len) _ _ _ _ _ L Hx e) as HH; rewrite E in HH)].
    by apply (Hp x1 s1 e1). }
  intros x1 s1 [(Hfr & L1 & (k1 & o1 & l1 & c1 & kd1 & ->)) [Hl1 Hroom]]. simpl in Hl1, Hroom. subst l1.
  pose proof (typed_hm_le _ _ _ _ _ _ (lwf_typed _ _ L1 h _ (lookup_insert _ _ _))) as Hle1.
  sbind spec_put_h'. intros [] s2 ->. cbn [m_parts]. sret.
  sbind spec_check'. { lia. } intros [] s3 ->.
  assert (lenN (repeat v (N.to_nat (new_len - len))) = new_len - len) as Hrep. { unfold lenN. rewrite repeat_length. lia. }
  assert (LWF (<[h := HM k1 o1 len c1 kd1]> (hs s)) (set_hs (<[h := HM k1 o1 len c1 kd1]>) s1)) as L1' by (by apply lwf_set_hs).
  sbind (hm_write_lwf _ _ h _ _ _ _ _ (o1 + len) (repeat v (N.to_nat (new_len - len))) L1' (lookup_insert _ _ _)). { lia. } { rewrite Hrep. lia. }
  intros [] s3 [[Hh3 Hn3] L3]. sbind spec_put_h'. intros [] s4 ->. apply spec_ret.
  destruct Hfr as [Hh1 Hn1]. split.
  - apply lwf_set_hs. simpl. rewrite Hh3. simpl. rewrite Hh1. rewrite insert_insert.
    rewrite <- (insert_insert (hs s) h (HM k1 o1 new_len c1 kd1) (HM k1 o1 len c1 kd1)). eapply lwf_hm_len; [exact L3|apply lookup_insert|lia].
  - intros h' [y Hy]. simpl in *. rewrite Hh3 in Hy. simpl in Hy. rewrite Hh1 in Hy. rewrite Hn3. simpl. rewrite Hn1. rewrite insert_insert in Hy.
    destruct (decide (h' = h)) as [->|?]; [apply Hf; eauto|]. rewrite lookup_insert_ne in Hy by done. apply Hf; eauto.
Qed.

(* ---- Extend<u8> from an iterator: reserve the hint, then one put_u8 per item, the handle stored back each time ---- *)
Lemma extend_step_wf orc h b s : WF s -> is_m s h ->
  spec (let! y := get_h h in let! y1 := m_extend orc [b] y in put_h h y1) s (fun _ s1 => WF s1 /\ is_m s1 h).
Proof.
  intros [L Hf] (k & ofs & len & cap & kd & Hx). sbind (spec_get_h' _ _ _ Hx). intros x s1 [-> ->].
  sbind (m_extend_lwf _ _ _ orc [b] _ _ _ _ _ L Hx). intros x' s1 (Hfr & L1 & (k1 & o1 & l1 & c1 & kd1 & ->)). apply spec_put_h. split; [by eapply wf_after_put|].
  exists k1, o1, l1, c1, kd1. simpl. apply lookup_insert.
Qed.
Lemma extend_loop_wf orc h d : forall (acc : M unit) s, spec acc s (fun _ s1 => WF s1 /\ is_m s1 h) ->
  spec (fold_left (fun (acc : M unit) b => acc;; let! y := get_h h in let! y1 := m_extend orc [b] y in put_h h y1) d acc) s (fun _ s1 => WF s1 /\ is_m s1 h).
Proof.
  induction d as [|b d IH]; intros acc s Hacc; simpl; [done|]. apply IH. eapply spec_bind; [exact Hacc|]. intros [] s1 [W1 Hm1]. by apply extend_step_wf.
Qed.
Lemma wf_OMExtendIter orc h d hint : wfstep orc (OMExtendIter h d hint).
Proof.
  intros s [L Hf] (k & ofs & len & cap & kd & Hx). simpl. sbind (spec_get_h' _ _ _ Hx). intros x s1 [-> ->].
  sbind (m_reserve_lwf _ _ _ orc hint _ _ _ _ _ L Hx). intros x' s1 (Hfr & L1 & (k1 & o1 & l1 & c1 & kd1 & ->)).
  sbind spec_put_h'. intros [] s2 ->.
  eapply spec_bind; [apply extend_loop_wf|intros [] s3 [W3 _]; by apply spec_ret].
  apply spec_ret. split; [by eapply wf_after_put|]. exists k1, o1, l1, c1, kd1. simpl. apply lookup_insert.
Qed.

(* ---- unsplit ---- *)
Lemma hm_read_spec G s h k o l c kd : LWF G s -> G !! h = Some (HM k o l c kd) -> spec (mread k o l) s (fun _ s1 => s1 = s).
Proof.
  intros L Hx. pose proof (lwf_typed _ _ L _ _ Hx) as Hty. destruct kd as [oc|]; simpl in Hty.
  - destruct Hty as (st & Hs & Hl & _ & _ & Hb & Hle). eapply mread_spec; [exact Hs|done|lia].
  - destruct Hty as (st & Hs & Hl & _ & _ & Hb & Hle). eapply mread_spec; [exact Hs|done|lia].
Qed.
Lemma wf_of_parts s sF : LWF (hs sF) sF -> next_h sF = next_h s -> (forall h', is_Some (hs sF !! h') -> is_Some (hs s !! h')) -> hfresh s -> WF sF.
Proof. intros L Hn Hsub Hf. split; [done|]. intros h' Hh'. rewrite Hn. apply Hf. by apply Hsub. Qed.
Lemma wf_OMUnsplit orc h other : wfstep orc (OMUnsplit h other).
Proof.
  intros s [L Hf] (Hne & (k & ofs & len & cap & kd & Hx) & (k2 & ofs2 & len2 & cap2 & kd2 & Hy)). simpl.
  destruct (Pos.eqb h other) eqn:Eh; [apply Pos.eqb_eq in Eh; done|].
  sbind (spec_get_h' _ _ _ Hx). intros x s1 [-> ->]. cbn [m_parts]. sret. sbind (spec_get_h' _ _ _ Hy). intros y s1 [-> ->]. cbn [m_parts]. sret.
  destruct (len =? 0) eqn:E0.
  { (* *self = other *)
    sbind (m_drop_rep_lwf _ _ _ _ _ _ _ _ L Hx). intros [] s1 [[Hh1 Hn1] L1]. sbind spec_put_h'. intros [] s2 ->. sbind spec_del_h'. intros [] s3 ->. apply spec_ret.
    apply (wf_of_parts s); simpl; try done.
    - apply lwf_set_hs. apply lwf_set_hs. rewrite Hh1.
      pose proof (lwf_rekey _ _ other h (HM k2 ofs2 len2 cap2 kd2) L1) as L2. rewrite lookup_delete_ne in L2 by done. specialize (L2 Hy (lookup_delete _ _)).
      rewrite delete_insert_ne by done. rewrite <- (insert_delete_insert (delete other (hs s))). by rewrite delete_commute.
    - rewrite Hh1. intros h' [z Hz]. apply lookup_delete_Some in Hz as [? Hz]. apply lookup_insert_Some in Hz as [[<- _]|[? Hz]]; eauto. }
  destruct (cap2 =? 0) eqn:E1.
  { sbind (m_drop_rep_lwf _ _ _ _ _ _ _ _ L Hy). intros [] s1 [[Hh1 Hn1] L1]. sbind spec_del_h'. intros [] s2 ->. apply spec_ret.
    apply (wf_of_parts s); simpl; try done.
    - apply lwf_set_hs. by rewrite Hh1.
    - rewrite Hh1. intros h' [z Hz]. apply lookup_delete_Some in Hz as [? Hz]. eauto. }
  (* the general path: copy other's bytes behind self *)
  assert (spec (let! bs := mread k2 ofs2 len2 in let! x1 := m_extend orc bs (HM k ofs len cap kd) in put_h h x1;; m_drop_rep (HM k2 ofs2 len2 cap2 kd2);; del_h other;; mret RUnit) s (fun _ s1 => WF s1)) as Hcopy.
  { sbind (hm_read_spec _ _ other _ _ _ _ _ L Hy). intros bs s1 ->.
    sbind (m_extend_lwf _ _ _ orc bs _ _ _ _ _ L Hx). intros x1 s1 ([Hh1 Hn1] & L1 & _). sbind spec_put_h'. intros [] s2 ->.
    assert (LWF (<[h := x1]> (hs s)) (set_hs (<[h := x1]>) s1)) as L1' by (by apply lwf_set_hs).
    sbind (m_drop_rep_lwf _ _ other k2 ofs2 len2 cap2 kd2 L1'). { by rewrite lookup_insert_ne. } intros [] s3 [[Hh3 Hn3] L3]. sbind spec_del_h'. intros [] s4 ->. apply spec_ret.
    apply (wf_of_parts s); simpl; try done.
    - apply lwf_set_hs. rewrite Hh3. simpl. by rewrite Hh1.
    - simpl in Hn3. congruence.
    - rewrite Hh3. simpl. rewrite Hh1. intros h' [z Hz]. apply lookup_delete_Some in Hz as [? Hz]. apply lookup_insert_Some in Hz as [[<- _]|[? Hz]]; eauto. }
  destruct kd as [o|]; [exact Hcopy|]. destruct kd2 as [o2|]; [exact Hcopy|].
  destruct (Pos.eqb k k2 && (ofs + len =? ofs2)) eqn:Ec; [|exact Hcopy].
  apply andb_true_iff in Ec as [Ek Eo]. apply Pos.eqb_eq in Ek. subst k2. assert (ofs2 = ofs + len) as -> by lia.
  (* contiguous halves of one buffer: the windows merge in place *)
  pose proof (lwf_typed _ _ L _ _ Hx) as (st & Hs & Hlv & Hcl & (oc & rc & Hc) & Hb & Hle).
  pose proof (lwf_typed _ _ L _ _ Hy) as (st2 & Hs2 & _ & _ & _ & Hb2 & Hle2). rewrite Hs in Hs2. injection Hs2 as <-.
  assert (cap = len) as ->.
  { assert (cap = 0 \/ cap2 = 0 \/ ofs + cap <= ofs + len \/ ofs + len + cap2 <= ofs) as [?|[?|[?|?]]] by (eapply (lwf_disj _ _ L h other); eauto); lia. }
  (* logically: self takes the union of the two windows while other keeps an empty window at its end; then other is dropped *)
  set (merged := HM k ofs (len + len2) (len + cap2) MArc). set (oth' := HM k (ofs + len + cap2) 0 0 MArc).
  assert (LWF (<[h := merged]> (<[other := oth']> (hs s))) s) as L1.
  { pose proof (lwf_disj _ _ L) as D. eapply lwf_step0; [exact L| | |].
    - intros h' z Hz. apply lookup_insert_Some in Hz as [[<- <-]|[? Hz]]; [|apply lookup_insert_Some in Hz as [[<- <-]|[? Hz]]; [|by eapply (lwf_typed _ _ L)]].
      + exists st. repeat split; try done; [eauto|lia|lia].
      + exists st. repeat split; try done; [eauto|lia].
    - intros k0. rewrite (refs_insert_same _ h (HM k ofs len len MArc)) by (by rewrite ?lookup_insert_ne). by rewrite (refs_insert_same _ other (HM k (ofs + len) len2 cap2 MArc)).
    - intros h1 h2 x1 x2 k0 o1 c1 o2' c2 Hn12 H1 H2 W1 W2.
      apply lookup_insert_Some in H1 as [[<- <-]|[? H1]]; apply lookup_insert_Some in H2 as [[<- <-]|[? H2]]; try done.
      + injection W1 as <- <- <-. apply lookup_insert_Some in H2 as [[<- <-]|[? H2]]; [injection W2 as <- <-; lia|].
        assert (len = 0 \/ c2 = 0 \/ ofs + len <= o2' \/ o2' + c2 <= ofs) by (eapply (D h h2); eauto).
        assert (cap2 = 0 \/ c2 = 0 \/ ofs + len + cap2 <= o2' \/ o2' + c2 <= ofs + len) by (eapply (D other h2); eauto). lia.
      + injection W2 as <- <- <-. apply lookup_insert_Some in H1 as [[<- <-]|[? H1]]; [injection W1 as <- <-; lia|].
        assert (c1 = 0 \/ len = 0 \/ o1 + c1 <= ofs \/ ofs + len <= o1) by (eapply (D h1 h); eauto).
        assert (c1 = 0 \/ cap2 = 0 \/ o1 + c1 <= ofs + len \/ ofs + len + cap2 <= o1) by (eapply (D h1 other); eauto). lia.
      + apply lookup_insert_Some in H1 as [[<- <-]|[? H1]]; apply lookup_insert_Some in H2 as [[<- <-]|[? H2]]; try done.
        * injection W1 as <- <- <-. lia.
        * injection W2 as <- <- <-. lia.
        * eapply (D h1 h2); eauto. }
  sbind spec_put_h'. intros [] s1 ->.
  assert (LWF (<[h := merged]> (<[other := oth']> (hs s))) (set_hs (<[h := merged]>) s)) as L1' by (by apply lwf_set_hs).
  change (m_drop_rep (HM k (ofs + len) len2 cap2 MArc)) with (m_drop_rep (HM k (ofs + len + cap2) 0 0 MArc)).
  sbind (m_drop_rep_lwf _ _ other k (ofs + len + cap2) 0 0 MArc L1'). { rewrite lookup_insert_ne by done. apply lookup_insert. }
  intros [] s2 [[Hh2 Hn2] L2]. sbind spec_del_h'. intros [] s3 ->. apply spec_ret.
  apply (wf_of_parts s); simpl; try done.
  - apply lwf_set_hs. rewrite Hh2. simpl. rewrite delete_insert_ne in L2 by done. rewrite delete_insert_delete in L2. by rewrite delete_insert_ne.
  - rewrite Hh2. simpl. intros h' [z Hz]. apply lookup_delete_Some in Hz as [? Hz]. apply lookup_insert_Some in Hz as [[<- _]|[? Hz]]; eauto.
Qed.

(* the iterator extension is the one BytesMut operation that can panic after having made progress: the state at the panic is WF too *)
Lemma specp_of_spec_cp {A} (m : M A) s Q (P : hst -> Prop) : spec m s Q -> cp m -> P s -> specp m s Q P.
Proof. intros H1 H2 HP e. specialize (H1 e). specialize (H2 s e). destruct (m s e) as [| s1 e1 |]; try done. by destruct H2 as [-> _]. Qed.
Lemma extend_step_wfp orc h b s : WF s -> is_m s h ->
  specp (let! y := get_h h in let! y1 := m_extend orc [b] y in put_h h y1) s (fun _ s1 => WF s1 /\ is_m s1 h) WF.
Proof.
  intros W Hm. pose proof W as [L Hf]. pose proof Hm as (k & ofs & len & cap & kd & Hx).
  eapply specp_bind; [apply specp_of_spec; [apply (spec_get_h' _ _ _ Hx)|apply np_get_h]|]. intros x s1 [-> ->].
  eapply specp_bind; [apply specp_of_spec_cp; [apply (m_extend_lwf _ _ _ orc [b] _ _ _ _ _ L Hx)|apply cp_m_extend|exact W]|].
  intros x' s1 (Hfr & L1 & (k1 & o1 & l1 & c1 & kd1 & ->)). apply specp_of_spec; [|apply np_put_h]. apply spec_put_h. split; [by eapply wf_after_put|].
  exists k1, o1, l1, c1, kd1. simpl. apply lookup_insert.
Qed.
Lemma extend_loop_wfp orc h d : forall (acc : M unit) s, specp acc s (fun _ s1 => WF s1 /\ is_m s1 h) WF ->
  specp (fold_left (fun (acc : M unit) b => acc;; let! y := get_h h in let! y1 := m_extend orc [b] y in put_h h y1) d acc) s (fun _ s1 => WF s1 /\ is_m s1 h) WF.
Proof.
  induction d as [|b d IH]; intros acc s Hacc; simpl; [done|]. apply IH. eapply specp_bind; [exact Hacc|]. intros [] s1 [W1 Hm1]. by apply extend_step_wfp.
Qed.
Lemma extend_iter_wfp orc h d hint s : WF s -> is_m s h -> specp (hstep orc (OMExtendIter h d hint)) s (fun _ s1 => WF s1) WF.
Proof.
  intros W (k & ofs & len & cap & kd & Hx). pose proof W as [L Hf]. cbn [hstep].
  eapply specp_bind; [apply specp_of_spec; [apply (spec_get_h' _ _ _ Hx)|apply np_get_h]|]. intros x s1 [-> ->].
  eapply specp_bind; [apply specp_of_spec_cp; [apply (m_reserve_lwf _ _ _ orc hint _ _ _ _ _ L Hx)|apply cp_m_reserve|exact W]|].
  intros x' s1 (Hfr & L1 & (k1 & o1 & l1 & c1 & kd1 & ->)).
  eapply specp_bind; [apply specp_of_spec; [apply spec_put_h'|apply np_put_h]|]. intros [] s2 ->.
  eapply specp_bind; [apply extend_loop_wfp|intros [] s3 [W3 _]; apply specp_of_spec; [by apply spec_ret|apply np_ret]].
  apply specp_of_spec; [|apply np_ret]. apply spec_ret. split; [by eapply wf_after_put|]. exists k1, o1, l1, c1, kd1. simpl. apply lookup_insert.
Qed.

(* The readable specification the Buf laws are stated against: a tree denotes the byte sequence
   `den b`; consuming k bytes turns b into `adv k b` — the same adapter structure with every Take limit
   decreased by k and every inner buffer advanced by exactly the bytes that went through it (C12). *)
From BV Require Import Base Buf.
Local Open Scope N_scope.

Definition leaf_adv (k : N) (l : leaf) : leaf :=
  match l with
  | LSlice l => LSlice (skipN k l)
  | LBytes l => LBytes (skipN k l)
  | LBytesMut l => LBytesMut (skipN k l)
  | LCursor l pos => LCursor l (pos + k)
  | LDeque s1 s2 => if k <? lenN s1 then LDeque (skipN k s1) s2 else LDeque (skipN (k - lenN s1) s2) []
  | LGen cs => LGen (gen_adv k cs)
  end.
Fixpoint adv (k : N) (b : buf) : buf :=
  match b with
  | Leaf l => Leaf (leaf_adv k l)
  | Chain a c => let ka := N.min k (lenN (den a)) in Chain (adv ka a) (adv (k - ka) c)
  | Take n x => Take (n - k) (adv k x)
  | Fwd x => Fwd (adv k x)
  end.
Definition bytes_ok (l : list byte) : Prop := Forall (fun b => b < 256) l.
